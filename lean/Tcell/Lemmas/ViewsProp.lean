/-
The upper half of "in proportion to the fill factors" (C20): the largest-remainder pass of BoxLayout
(boxlayout.go:79-92) never picks a cell twice, so every padding is `⌊share⌋` or `⌊share⌋ + 1`, and it is
`⌊share⌋ + 1` only for a cell whose share is not an integer: `|pad − share| < 1`.  Exact arithmetic (`Rat`).
-/
import Tcell.Lemmas.Views
namespace Tcell.Views
open LayoutNum

abbrev RC := PCell Rat

/-- Σ frac over the cells -/
def fsum (cs : List RC) : Rat := (cs.map (·.frac)).sum

theorem fsum_nil : fsum [] = 0 := rfl
theorem fsum_cons (c : RC) (cs : List RC) : fsum (c :: cs) = c.frac + fsum cs := by simp [fsum]

theorem eqz_true_iff (a : Rat) : LayoutNum.eq a (LayoutNum.zero : Rat) = true ↔ a = 0 := by
  show decide (a = 0) = true ↔ _; simp
theorem eqz_false_iff (a : Rat) : LayoutNum.eq a (LayoutNum.zero : Rat) = false ↔ a ≠ 0 := by
  show decide (a = 0) = false ↔ _; simp
theorem gt_true_iff (a b : Rat) : LayoutNum.gt a b = true ↔ b < a := by
  show decide (a > b) = true ↔ _; simp

/-! ### `best` returns a cell with `fill ≠ 0` whose `frac` is maximal among the cells with `fill ≠ 0` -/

theorem bestFrom_max : ∀ (cs : List RC) (i : Nat) (b : Option (Nat × Rat)) (k : Nat) (bf : Rat),
    bestFrom cs i b = some (k, bf) →
    (∀ c ∈ cs, c.fill ≠ 0 → c.frac ≤ bf) ∧ (∀ k0 b0, b = some (k0, b0) → b0 ≤ bf)
  | [], i, b, k, bf, h => by
    simp only [bestFrom] at h
    refine ⟨by simp, ?_⟩
    intro k0 b0 hb; rw [h] at hb; cases hb; exact Rat.le_refl
  | c :: cs, i, b, k, bf, h => by
    by_cases hz : c.fill = 0
    · have hz' := (eqz_true_iff c.fill).2 hz
      simp only [bestFrom, hz', if_true] at h
      obtain ⟨h1, h2⟩ := bestFrom_max cs (i + 1) b k bf h
      refine ⟨?_, h2⟩
      intro c' hc' hne
      rcases List.mem_cons.1 hc' with rfl | hm
      · exact absurd hz hne
      · exact h1 c' hm hne
    · have hz' := (eqz_false_iff c.fill).2 hz
      cases b with
      | none =>
        simp only [bestFrom, hz', Bool.false_eq_true, if_false] at h
        obtain ⟨h1, h2⟩ := bestFrom_max cs (i + 1) (some (i, c.frac)) k bf h
        have hc := h2 i c.frac rfl
        refine ⟨?_, by intro k0 b0 hb; cases hb⟩
        intro c' hc' hne
        rcases List.mem_cons.1 hc' with rfl | hm
        · exact hc
        · exact h1 c' hm hne
      | some p =>
        obtain ⟨k0, b0⟩ := p
        by_cases hg : b0 < c.frac
        · have hg' := (gt_true_iff c.frac b0).2 hg
          simp only [bestFrom, hz', Bool.false_eq_true, if_false, hg', if_true] at h
          obtain ⟨h1, h2⟩ := bestFrom_max cs (i + 1) (some (i, c.frac)) k bf h
          have hc := h2 i c.frac rfl
          refine ⟨?_, ?_⟩
          · intro c' hc' hne
            rcases List.mem_cons.1 hc' with rfl | hm
            · exact hc
            · exact h1 c' hm hne
          · intro k1 b1 hb; cases hb; grind
        · have hg' : LayoutNum.gt c.frac b0 = false := by
            cases hh : LayoutNum.gt c.frac b0
            · rfl
            · exact absurd ((gt_true_iff _ _).1 hh) hg
          simp only [bestFrom, hz', Bool.false_eq_true, if_false, hg'] at h
          obtain ⟨h1, h2⟩ := bestFrom_max cs (i + 1) (some (k0, b0)) k bf h
          have hb0 := h2 k0 b0 rfl
          refine ⟨?_, ?_⟩
          · intro c' hc' hne
            rcases List.mem_cons.1 hc' with rfl | hm
            · grind
            · exact h1 c' hm hne
          · intro k1 b1 hb; cases hb; exact hb0

theorem bestFrom_index : ∀ (cs : List RC) (i : Nat) (b : Option (Nat × Rat)) (k : Nat) (bf : Rat),
    bestFrom cs i b = some (k, bf) →
    b = some (k, bf) ∨ (i ≤ k ∧ ∃ c, cs[k - i]? = some c ∧ c.frac = bf ∧ c.fill ≠ 0)
  | [], i, b, k, bf, h => by simp only [bestFrom] at h; exact Or.inl h
  | c :: cs, i, b, k, bf, h => by
    have lift : (i + 1 ≤ k ∧ ∃ c', cs[k - (i + 1)]? = some c' ∧ c'.frac = bf ∧ c'.fill ≠ 0) →
        (i ≤ k ∧ ∃ c', (c :: cs)[k - i]? = some c' ∧ c'.frac = bf ∧ c'.fill ≠ 0) := by
      intro ⟨hle, c', hc', h1, h2⟩
      refine ⟨by omega, c', ?_, h1, h2⟩
      have : k - i = (k - (i + 1)) + 1 := by omega
      rw [this, List.getElem?_cons_succ]; exact hc'
    by_cases hz : c.fill = 0
    · have hz' := (eqz_true_iff c.fill).2 hz
      simp only [bestFrom, hz', if_true] at h
      rcases bestFrom_index cs (i + 1) b k bf h with h1 | h1
      · exact Or.inl h1
      · exact Or.inr (lift h1)
    · have hz' := (eqz_false_iff c.fill).2 hz
      have here : (some (i, c.frac) : Option (Nat × Rat)) = some (k, bf) →
          (i ≤ k ∧ ∃ c', (c :: cs)[k - i]? = some c' ∧ c'.frac = bf ∧ c'.fill ≠ 0) := by
        intro he
        simp only [Option.some.injEq, Prod.mk.injEq] at he
        obtain ⟨rfl, rfl⟩ := he
        exact ⟨Nat.le_refl _, c, by simp, rfl, hz⟩
      cases b with
      | none =>
        simp only [bestFrom, hz', Bool.false_eq_true, if_false] at h
        rcases bestFrom_index cs (i + 1) (some (i, c.frac)) k bf h with h1 | h1
        · exact Or.inr (here h1)
        · exact Or.inr (lift h1)
      | some p =>
        obtain ⟨k0, b0⟩ := p
        cases hg : LayoutNum.gt c.frac b0
        · simp only [bestFrom, hz', Bool.false_eq_true, if_false, hg] at h
          rcases bestFrom_index cs (i + 1) (some (k0, b0)) k bf h with h1 | h1
          · exact Or.inl h1
          · exact Or.inr (lift h1)
        · simp only [bestFrom, hz', Bool.false_eq_true, if_false, hg, if_true] at h
          rcases bestFrom_index cs (i + 1) (some (i, c.frac)) k bf h with h1 | h1
          · exact Or.inr (here h1)
          · exact Or.inr (lift h1)

/-- **best is a maximum**: the picked cell has `fill ≠ 0` and no cell with `fill ≠ 0` has a larger `frac` -/
theorem best_max (cs : List RC) (i : Nat) (h : best cs = some i) :
    ∃ ci, cs[i]? = some ci ∧ ci.fill ≠ 0 ∧ ∀ c ∈ cs, c.fill ≠ 0 → c.frac ≤ ci.frac := by
  unfold best at h
  cases hb : bestFrom cs 0 none with
  | none => rw [hb] at h; cases h
  | some p =>
    obtain ⟨k, bf⟩ := p
    rw [hb] at h
    simp only [Option.map_some, Option.some.injEq] at h
    subst h
    rcases bestFrom_index cs 0 none k bf hb with h1 | ⟨_, c, hc, hf, hne⟩
    · cases h1
    · refine ⟨c, by simpa using hc, hne, ?_⟩
      intro c' hc' hne'
      rw [hf]
      exact (bestFrom_max cs 0 none k bf hb).1 c' hc' hne'

/-! ### the pass never picks a cell twice -/

theorem fsum_bump : ∀ (cs : List RC) (i : Nat) (ci : RC), cs[i]? = some ci → fsum (bump cs i) = fsum cs - ci.frac
  | [], i, ci, h => by simp at h
  | c :: cs, 0, ci, h => by
    simp only [List.getElem?_cons_zero, Option.some.injEq] at h
    subst h
    have : bump (c :: cs) 0 = { c with pad := c.pad + 1, frac := (LayoutNum.zero : Rat) } :: cs := by simp [bump]
    rw [this, fsum_cons, fsum_cons]
    show (0 : Rat) + fsum cs = c.frac + fsum cs - c.frac
    grind
  | c :: cs, i + 1, ci, h => by
    have ih := fsum_bump cs i ci (by simpa using h)
    have : bump (c :: cs) (i + 1) = c :: bump cs i := by simp [bump]
    rw [this, fsum_cons, fsum_cons, ih]
    grind

theorem exists_pos_of_fsum_pos : ∀ (cs : List RC), (∀ c ∈ cs, 0 ≤ c.frac) → 0 < fsum cs → ∃ c ∈ cs, 0 < c.frac
  | [], _, h => by rw [fsum_nil] at h; exact absurd h (by decide)
  | c :: cs, hn, h => by
    by_cases hc : 0 < c.frac
    · exact ⟨c, List.mem_cons_self, hc⟩
    · have h0 := hn c List.mem_cons_self
      rw [fsum_cons] at h
      have : 0 < fsum cs := by grind
      obtain ⟨c', hm, hp⟩ := exists_pos_of_fsum_pos cs (fun c' hc' => hn c' (List.mem_cons_of_mem _ hc')) this
      exact ⟨c', List.mem_cons_of_mem _ hm, hp⟩

/-- relation between a cell of the list as first computed (`c0`) and the same cell during the pass (`c`): untouched,
or picked exactly once — and then its original fractional part was positive -/
def Once (c0 c : RC) : Prop :=
  c.fill = c0.fill ∧ ((c.pad = c0.pad ∧ c.frac = c0.frac) ∨ (c.pad = c0.pad + 1 ∧ c.frac = 0 ∧ 0 < c0.frac))

/-- the cells as first computed: fractional parts in [0,1), positive only where `fill ≠ 0` -/
def Fracs (cs0 : List RC) : Prop := ∀ c0 ∈ cs0, 0 ≤ c0.frac ∧ c0.frac < 1 ∧ (0 < c0.frac → c0.fill ≠ 0)

def PassInv (cs0 cs : List RC) : Prop :=
  cs.length = cs0.length ∧ ∀ (j : Nat) (c : RC), cs[j]? = some c → ∃ c0, cs0[j]? = some c0 ∧ Once c0 c

theorem passInv_frac (cs0 cs : List RC) (hf : Fracs cs0) (h : PassInv cs0 cs) :
    ∀ c ∈ cs, 0 ≤ c.frac ∧ c.frac < 1 ∧ (0 < c.frac → c.fill ≠ 0) := by
  intro c hc
  obtain ⟨j, hj⟩ := List.getElem?_of_mem hc
  obtain ⟨c0, hc0, hfill, hcase⟩ := h.2 j c hj
  obtain ⟨f1, f2, f3⟩ := hf c0 (List.mem_of_getElem? hc0)
  rcases hcase with ⟨_, he⟩ | ⟨_, he, _⟩
  · rw [he, hfill]; exact ⟨f1, f2, f3⟩
  · rw [he]; exact ⟨Rat.le_refl, by decide, fun h => absurd h (by decide)⟩

/-- one iteration: with `Σ frac > n` (so some fractional part is positive) the picked cell has a positive fractional
part, hence has not been picked before -/
theorem pass_step (cs0 cs : List RC) (hf : Fracs cs0) (h : PassInv cs0 cs) (n : Nat) (hs : (n : Rat) < fsum cs)
    (i : Nat) (hb : best cs = some i) :
    PassInv cs0 (bump cs i) ∧ ((n : Rat) - 1 < fsum (bump cs i)) := by
  obtain ⟨ci, hci, hne, hmax⟩ := best_max cs i hb
  have hfr := passInv_frac cs0 cs hf h
  have hpos : 0 < fsum cs := by
    have : (0 : Rat) ≤ (n : Rat) := by exact_mod_cast Nat.zero_le n
    grind
  obtain ⟨c, hc, hcp⟩ := exists_pos_of_fsum_pos cs (fun c hc => (hfr c hc).1) hpos
  have hcip : 0 < ci.frac := by
    have := hmax c hc ((hfr c hc).2.2 hcp)
    grind
  have hci1 : ci.frac < 1 := (hfr ci (List.mem_of_getElem? hci)).2.1
  refine ⟨⟨by rw [bump_length]; exact h.1, ?_⟩, ?_⟩
  · intro j c' hj
    simp only [bump, List.getElem?_modify] at hj
    cases hcj : cs[j]? with
    | none => simp [hcj] at hj
    | some cj =>
      obtain ⟨c0, hc0, hfill, hcase⟩ := h.2 j cj hcj
      simp only [hcj, Option.map_some, Option.some.injEq] at hj
      by_cases hij : i = j
      · subst hij
        simp only [if_true, Option.map_eq_map, Option.map_some, Option.some.injEq] at hj
        subst hj
        rw [hci] at hcj; cases hcj
        refine ⟨c0, hc0, hfill, ?_⟩
        rcases hcase with ⟨hp, he⟩ | ⟨_, he, _⟩
        · right; exact ⟨by show ci.pad + 1 = c0.pad + 1; rw [hp], rfl, by rw [← he]; exact hcip⟩
        · rw [he] at hcip; exact absurd hcip (by decide)
      · simp only [hij, if_false, Option.map_eq_map, Option.map_some, Option.some.injEq] at hj
        subst hj
        exact ⟨c0, hc0, hfill, hcase⟩
  · rw [fsum_bump cs i ci hci]; grind

theorem pass_inv : ∀ (n : Nat) (cs0 cs : List RC), Fracs cs0 → PassInv cs0 cs → ((n : Rat) - 1 < fsum cs) →
    PassInv cs0 (distribute n cs)
  | 0, _, _, _, h, _ => h
  | n + 1, cs0, cs, hf, h, hs => by
    unfold distribute
    cases hb : best cs with
    | none => exact h
    | some i =>
      have hs' : (n : Rat) < fsum cs := by
        have : ((n + 1 : Nat) : Rat) = (n : Rat) + 1 := by push_cast; rfl
        rw [this] at hs; grind
      obtain ⟨h1, h2⟩ := pass_step cs0 cs hf h n hs' i hb
      exact pass_inv n cs0 (bump cs i) hf h1 h2

theorem passInv_refl (cs : List RC) : PassInv cs cs :=
  ⟨rfl, fun _ c hj => ⟨c, hj, rfl, Or.inl ⟨rfl, rfl⟩⟩⟩

/-! ### the cells as first computed -/

theorem shareCell_frac (extra : Int) (totf f : Rat) (he : 0 ≤ extra) (ht : 0 < totf) (hf : 0 ≤ f) :
    (shareCell extra totf f).frac = share extra totf f - (((share extra totf f).floor : Int) : Rat) := by
  by_cases hp : f > 0
  · have hg : (LayoutNum.gt f (LayoutNum.zero : Rat)) = true := by
      show decide (f > 0) = true; simpa using hp
    have hfl : ratTrunc (share extra totf f) = (share extra totf f).floor :=
      ratTrunc_eq_floor _ (share_nonneg extra totf f he ht hf)
    unfold shareCell
    simp only [hg, if_true]
    show share extra totf f - ((ratTrunc (share extra totf f) : Int) : Rat) = _
    rw [hfl]
  · have hg : (LayoutNum.gt f (LayoutNum.zero : Rat)) = false := by
      show decide (f > 0) = false; simpa using hp
    have hf0 : f = 0 := by grind
    subst hf0
    unfold shareCell
    simp only [hg, Bool.false_eq_true, if_false]
    rw [share_zero]
    show (0 : Rat) = 0 - (((0 : Rat).floor : Int) : Rat)
    have : (0 : Rat).floor = 0 := Rat.floor_intCast 0
    rw [this]; grind

theorem fracs_shareCells (extra : Int) (totf : Rat) (fills : List Rat) (he : 0 ≤ extra) (ht : 0 < totf)
    (hf : ∀ f ∈ fills, 0 ≤ f) : Fracs (fills.map (shareCell extra totf)) := by
  intro c0 hc0
  obtain ⟨f, hm, rfl⟩ := List.mem_map.1 hc0
  have hfr := shareCell_frac extra totf f he ht (hf f hm)
  have h1 := Rat.floor_le (share extra totf f)
  have h2 := Rat.lt_floor_add_one (share extra totf f)
  have hfill := (shareCell_spec extra totf f he ht (hf f hm)).2
  refine ⟨by rw [hfr]; grind, by rw [hfr]; grind, ?_⟩
  intro hpos hz
  rw [hfill] at hz
  subst hz
  rw [hfr, share_zero] at hpos
  have : (0 : Rat).floor = 0 := Rat.floor_intCast 0
  rw [this] at hpos
  grind

theorem fsum_shareCells (extra : Int) (totf : Rat) (he : 0 ≤ extra) (ht : 0 < totf) : ∀ (fills : List Rat),
    (∀ f ∈ fills, 0 ≤ f) →
    fsum (fills.map (shareCell extra totf)) =
      (fills.map (share extra totf)).sum - ((psum (fills.map (shareCell extra totf)) : Int) : Rat)
  | [], _ => by simp [fsum, psum, sumInt]; grind
  | f :: fs, hf => by
    have ih := fsum_shareCells extra totf he ht fs (fun g hg => hf g (List.mem_cons_of_mem _ hg))
    have hfr := shareCell_frac extra totf f he ht (hf f List.mem_cons_self)
    have hpad := (shareCell_spec extra totf f he ht (hf f List.mem_cons_self)).1
    have hps : psum ((f :: fs).map (shareCell extra totf)) = (shareCell extra totf f).pad + psum (fs.map (shareCell extra totf)) := by
      simp [psum, sumInt]
    rw [List.map_cons, fsum_cons, ih, hfr, List.map_cons, List.sum_cons, ← List.map_cons, hps, hpad, Rat.intCast_add]
    grind

theorem fsum_nonneg : ∀ (cs : List RC), (∀ c ∈ cs, 0 ≤ c.frac) → 0 ≤ fsum cs
  | [], _ => by rw [fsum_nil]; exact Rat.le_refl
  | c :: cs, h => by
    have h1 := h c List.mem_cons_self
    have h2 := fsum_nonneg cs (fun c' hc' => h c' (List.mem_cons_of_mem _ hc'))
    rw [fsum_cons]; grind

/-- **the pass on the cells of a layout**: after the largest-remainder pass every cell is untouched or was picked exactly
once, and then its exact share is not an integer -/
theorem pass_on_shares (extra : Int) (fills : List Rat) (he : 0 ≤ extra) (hf : ∀ f ∈ fills, 0 ≤ f)
    (ht : 0 < totFill fills) :
    PassInv (fills.map (shareCell extra (totFill fills)))
      (distribute (extra - psum (fills.map (shareCell extra (totFill fills)))).toNat (fills.map (shareCell extra (totFill fills)))) := by
  have hne : totFill fills ≠ 0 := by grind
  have hsum := totFill_eq_sum fills
  have hfs := fsum_shareCells extra (totFill fills) he ht fills hf
  have hsh : (fills.map (share extra (totFill fills))).sum = (extra : Rat) := by
    rw [sum_shares, ← hsum, Rat.mul_div_cancel hne]
  rw [hsh] at hfs
  apply pass_inv _ _ _ (fracs_shareCells extra (totFill fills) fills he ht hf) (passInv_refl _)
  rw [hfs]
  have hnn := fsum_nonneg _ (fun c hc => (fracs_shareCells extra (totFill fills) fills he ht hf c hc).1)
  rw [hfs] at hnn
  generalize psum (fills.map (shareCell extra (totFill fills))) = ps at *
  have hn : 0 ≤ extra - ps := by
    have : ((ps : Int) : Rat) ≤ ((extra : Int) : Rat) := by grind
    have := Rat.intCast_le_intCast.1 this
    omega
  have : (((extra - ps).toNat : Nat) : Rat) = ((extra - ps : Int) : Rat) := by
    have h1 : (((extra - ps).toNat : Nat) : Int) = extra - ps := Int.toNat_of_nonneg hn
    rw [← h1]; rfl
  rw [this, Rat.intCast_sub]
  grind

end Tcell.Views
