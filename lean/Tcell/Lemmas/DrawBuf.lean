/-
Terminal-independent facts about a draw: whatever the display's state, a draw only *marks* cells (clean or
dirty); it never changes what they hold, their width or their lock, nor the screen's size or style.
Needed to carry the buffer part of the invariant through draws made on a display nothing is known about.
-/
import Tcell.Lemmas.Draw
namespace Tcell
open Buf

/-- `n` is `o` after some sequence of mark-clean / mark-dirty steps -/
def MarkRel (o n : Cell) : Prop :=
  n.currComb = o.currComb ∧ n.currStyle = o.currStyle ∧ n.width = o.width ∧ n.lock = o.lock ∧
  (n.currMain = o.currMain ∨ (o.currMain = 0 ∧ n.currMain = 32))

theorem MarkRel.refl (c : Cell) : MarkRel c c := ⟨rfl, rfl, rfl, rfl, Or.inl rfl⟩

theorem MarkRel.trans {a b c : Cell} (h1 : MarkRel a b) (h2 : MarkRel b c) : MarkRel a c := by
  obtain ⟨a1, a2, a3, a4, a5⟩ := h1; obtain ⟨b1, b2, b3, b4, b5⟩ := h2
  refine ⟨b1.trans a1, b2.trans a2, b3.trans a3, b4.trans a4, ?_⟩
  rcases a5 with a5 | a5 <;> rcases b5 with b5 | b5
  · left; rw [b5, a5]
  · right; exact ⟨by rw [← a5]; exact b5.1, b5.2⟩
  · right; exact ⟨a5.1, by rw [b5, a5.2]⟩
  · exfalso; rw [a5.2] at b5; exact absurd b5.1 (by decide)

theorem MarkRel.markClean (c : Cell) : MarkRel c c.markClean := by
  refine ⟨rfl, rfl, rfl, rfl, ?_⟩
  simp only [Cell.markClean_currMain]
  by_cases h : c.currMain = 0
  · right; simp [h]
  · left; simp [h]

theorem MarkRel.markDirty (c : Cell) : MarkRel c c.markDirty := ⟨rfl, rfl, rfl, rfl, Or.inl rfl⟩

theorem MarkRel.wok {rw : Rune → Int} (hrw : RwOk rw) {o n : Cell} (h : MarkRel o n) (hw : WOk rw o) : WOk rw n := by
  obtain ⟨_, _, h3, _, h5⟩ := h
  unfold WOk at hw ⊢
  rcases h5 with h5 | h5
  · rw [h3, h5]; exact hw
  · right; rw [h3]; refine ⟨?_, h5.2⟩
    rcases hw with hw | hw
    · rw [hw, h5.1, hrw.zero]
    · exact hw.1

/-- relation between the screen before and after draw-path steps -/
structure ScrRel (s s' : Scr) : Prop where
  cells : ∀ i j, MarkRel (s.cells.cells i j) (s'.cells.cells i j)
  cw : s'.cells.w = s.cells.w
  ch : s'.cells.h = s.cells.h
  w : s'.w = s.w
  h : s'.h = s.h
  style : s'.style = s.style
  fini : s'.fini = s.fini
  clear : s'.clear = s.clear
  cursor : s'.cursorx = s.cursorx ∧ s'.cursory = s.cursory ∧ s'.cursorStyle = s.cursorStyle ∧ s'.cursorColor = s.cursorColor

theorem ScrRel.refl (s : Scr) : ScrRel s s :=
  { cells := fun _ _ => MarkRel.refl _, cw := rfl, ch := rfl, w := rfl, h := rfl, style := rfl, fini := rfl, clear := rfl,
    cursor := ⟨rfl, rfl, rfl, rfl⟩ }

theorem ScrRel.trans {a b c : Scr} (h1 : ScrRel a b) (h2 : ScrRel b c) : ScrRel a c :=
  { cells := fun i j => (h1.cells i j).trans (h2.cells i j), cw := h2.cw.trans h1.cw, ch := h2.ch.trans h1.ch,
    w := h2.w.trans h1.w, h := h2.h.trans h1.h, style := h2.style.trans h1.style, fini := h2.fini.trans h1.fini,
    clear := h2.clear.trans h1.clear,
    cursor := ⟨h2.cursor.1.trans h1.cursor.1, h2.cursor.2.1.trans h1.cursor.2.1, h2.cursor.2.2.1.trans h1.cursor.2.2.1,
               h2.cursor.2.2.2.trans h1.cursor.2.2.2⟩ }

/-- replacing the buffer by the result of a SetDirty, and touching only the caches -/
theorem ScrRel.setDirty (s s' : Scr) (x y : Int) (v : Bool) (hc : s'.cells = s.cells.setDirty x y v) (hw : s'.w = s.w)
    (hh : s'.h = s.h) (hs : s'.style = s.style) (hf : s'.fini = s.fini) (hcl : s'.clear = s.clear)
    (hcu : s'.cursorx = s.cursorx ∧ s'.cursory = s.cursory ∧ s'.cursorStyle = s.cursorStyle ∧ s'.cursorColor = s.cursorColor) :
    ScrRel s s' := by
  refine { cells := ?_, cw := by rw [hc]; simp, ch := by rw [hc]; simp, w := hw, h := hh, style := hs, fini := hf,
           clear := hcl, cursor := hcu }
  intro i j; rw [hc]
  cases v
  · rw [setDirty_false_cells]; split
    · exact MarkRel.markClean _
    · exact MarkRel.refl _
  · rw [setDirty_true_cells]; split
    · exact MarkRel.markDirty _
    · exact MarkRel.refl _

/-- only caches changed -/
theorem ScrRel.of_eq (s s' : Scr) (hc : s'.cells = s.cells) (hw : s'.w = s.w)
    (hh : s'.h = s.h) (hs : s'.style = s.style) (hf : s'.fini = s.fini) (hcl : s'.clear = s.clear)
    (hcu : s'.cursorx = s.cursorx ∧ s'.cursory = s.cursory ∧ s'.cursorStyle = s.cursorStyle ∧ s'.cursorColor = s.cursorColor) :
    ScrRel s s' :=
  { cells := by intro i j; rw [hc]; exact MarkRel.refl _, cw := by rw [hc], ch := by rw [hc], w := hw, h := hh, style := hs,
    fini := hf, clear := hcl, cursor := hcu }

theorem paint_rel (c : DrawCfg) (s : Scr) (x y : Int) : ScrRel s (s.paint c x y).1 :=
  ScrRel.setDirty s _ x y false rfl rfl rfl rfl rfl rfl ⟨rfl, rfl, rfl, rfl⟩

theorem drawCellPlain_rel (c : DrawCfg) (s : Scr) (x y : Int) : ScrRel s (s.drawCellPlain c x y).1 := by
  cases hd : s.cells.dirty x y
  · rw [Scr.drawCellPlain_clean c s x y hd]; exact ScrRel.refl s
  · by_cases hgo : s.cy ≠ y ∨ s.cx ≠ x
    · simp only [Scr.drawCellPlain, hd, not_true_eq_false, if_false, hgo, if_true]
      exact (ScrRel.of_eq s { s with cx := x, cy := y } rfl rfl rfl rfl rfl rfl ⟨rfl, rfl, rfl, rfl⟩).trans
        (paint_rel c { s with cx := x, cy := y } x y)
    · simp only [Scr.drawCellPlain, hd, not_true_eq_false, if_false, hgo]
      exact paint_rel c s x y

theorem drawCell_rel (c : DrawCfg) (s : Scr) (x y : Int) : ScrRel s (s.drawCell c x y).1 := by
  unfold Scr.drawCell
  split
  · exact ScrRel.refl s
  · split
    · -- bottom-right corner trick: paint, mark the neighbour dirty, repaint it
      simp only
      have h1 := paint_rel c s x y
      generalize Scr.cornerPx (s.paint c x y).1 x y = px
      have h2 : ScrRel (s.paint c x y).1
          { (s.paint c x y).1 with cy := y, cx := x - 1, cells := (s.paint c x y).1.cells.setDirty px y true } :=
        ScrRel.setDirty _ _ px y true rfl rfl rfl rfl rfl rfl ⟨rfl, rfl, rfl, rfl⟩
      have h3 := drawCellPlain_rel c
        { (s.paint c x y).1 with cy := y, cx := x - 1, cells := (s.paint c x y).1.cells.setDirty px y true } px y
      refine ((h1.trans h2).trans h3).trans ?_
      exact ScrRel.of_eq _ _ rfl rfl rfl rfl rfl rfl ⟨rfl, rfl, rfl, rfl⟩
    · exact drawCellPlain_rel c s x y

theorem visit_rel (c : DrawCfg) (s : Scr) (x y : Int) : ScrRel s (s.visit c x y).1 := by
  unfold Scr.visit
  simp only
  split
  · exact (drawCell_rel c s x y).trans (ScrRel.setDirty _ _ (x + 1) y true rfl rfl rfl rfl rfl rfl ⟨rfl, rfl, rfl, rfl⟩)
  · exact drawCell_rel c s x y

theorem drawRow_rel (c : DrawCfg) (y : Int) : ∀ (fuel : Nat) (x : Int) (s : Scr), ScrRel s (Scr.drawRow c y fuel x s).1 := by
  intro fuel
  induction fuel with
  | zero => intro x s; exact ScrRel.refl s
  | succ n ih =>
    intro x s
    rw [drawRow_succ]
    split
    · exact (visit_rel c s x y).trans (ih _ _)
    · exact ScrRel.refl s

theorem drawRows_rel (c : DrawCfg) : ∀ (fuel : Nat) (y : Int) (s : Scr), ScrRel s (Scr.drawRows c fuel y s).1 := by
  intro fuel
  induction fuel with
  | zero => intro y s; exact ScrRel.refl s
  | succ n ih =>
    intro y s
    rw [drawRows_succ]
    split
    · exact (drawRow_rel c y _ _ s).trans (ih _ _)
    · exact ScrRel.refl s

theorem hideCursor_rel (c : DrawCfg) (s : Scr) : ScrRel s (s.hideCursor c).1 := by
  unfold Scr.hideCursor
  split
  · exact ScrRel.refl s
  · exact ScrRel.of_eq _ _ rfl rfl rfl rfl rfl rfl ⟨rfl, rfl, rfl, rfl⟩

theorem showCursor_rel (c : DrawCfg) (s : Scr) : ScrRel s (s.showCursor c).1 := by
  unfold Scr.showCursor
  simp only
  split
  · exact hideCursor_rel c s
  · exact ScrRel.of_eq _ _ rfl rfl rfl rfl rfl rfl ⟨rfl, rfl, rfl, rfl⟩

/-- a draw relates the screen before and after by marks only, except that it consumes the `clear` request -/
theorem draw_rel (c : DrawCfg) (s : Scr) :
    ScrRel { s with clear := false } (s.draw c).1 ∧ (s.draw c).1.clear = false := by
  rw [draw_eq]; simp only
  generalize hs0 : ({ s with cx := -1, cy := -1, curstyle := styleInvalid } : Scr) = s0
  have r0 : ScrRel s s0 := by rw [← hs0]; exact ScrRel.of_eq _ _ rfl rfl rfl rfl rfl rfl ⟨rfl, rfl, rfl, rfl⟩
  have r1 := hideCursor_rel c s0
  generalize (s0.hideCursor c).1 = s1 at r1
  -- after the optional clear the flag is false and nothing else changed
  have r2 : ScrRel { s with clear := false } (if s1.clear then s1.clearScreen else (s1, [])).1 ∧
      (if s1.clear then s1.clearScreen else (s1, [])).1.clear = false := by
    have r01 := r0.trans r1
    cases hcl : s1.clear
    · simp only [Bool.false_eq_true, if_false]
      refine ⟨?_, hcl⟩
      have : s.clear = false := by rw [← r01.clear]; exact hcl
      have e : ({ s with clear := false } : Scr) = s := by cases s; simp_all
      rw [e]; exact r01
    · simp only [if_true, Scr.clearScreen]
      refine ⟨?_, trivial⟩
      exact { cells := r01.cells, cw := r01.cw, ch := r01.ch, w := r01.w, h := r01.h, style := r01.style, fini := r01.fini,
              clear := rfl, cursor := r01.cursor }
  generalize (if s1.clear then s1.clearScreen else (s1, [])).1 = s2 at r2
  have r3 := drawRows_rel c s2.h.toNat 0 s2
  generalize (Scr.drawRows c s2.h.toNat 0 s2).1 = s3 at r3
  have r4 := showCursor_rel c s3
  refine ⟨(r2.1.trans r3).trans r4, ?_⟩
  rw [r4.clear, r3.clear]; exact r2.2

end Tcell
