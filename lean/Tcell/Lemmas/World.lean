/-
History-level invariant of the terminfo screen's draw path together with the abstract terminal it drives
(Layer A of C01/C13).  `World` = library state + what the tty reports + the terminal + ghost flags.
-/
import Tcell.Model.Screen
import Tcell.Lemmas.DrawBuf
namespace Tcell
open Buf

/-- side conditions on the arguments of an operation (the domain of the theorems) -/
def ScrOp.Valid (c : DrawCfg) : ScrOp → Prop
  | .setContent _ _ _ _ st => st.attrs ≠ attrInvalid
  -- Fill is documented for width-1 runes only; the tree repaired by fixes/C09-fill-zero-width.patch (`c.fillZW`) also
  -- handles zero-width / control / invalid runes, i.e. (with `RwOk.nonneg`) every rune that is not wider than one column
  | .fill r st => st.attrs ≠ attrInvalid ∧ (c.rw r = 1 ∨ (c.fillZW = true ∧ c.rw r = 0))
  | .setStyle st => st.attrs ≠ attrInvalid
  | _ => True

structure World where
  sw : ScrW := {}
  t : ATerm := {}
  /-- nothing outside the library has touched the display since it was last completely repainted -/
  trusted : Bool := true
  /-- the default style every clean StyleDefault cell was painted with (none: unknown / mixed) -/
  d : Option Style := none
  /-- no cell has been painted since every cell was invalidated -/
  fresh : Bool := true

/-- one operation: the library's move, the terminal interpreting what was written, the ghosts -/
def World.step (c : DrawCfg) (wd : World) (op : ScrOp) : World :=
  let r := wd.sw.step c op
  match op with
  | .ttyResizeQuiet w h => { wd with sw := r.1, t := wd.t.resized w h, trusted := false }
  | .ttyResizeNotify w h =>
    { sw := r.1, t := (wd.t.resized w h).applyAll r.2, trusted := true, d := some wd.sw.s.style, fresh := false }
  | .corrupt => { wd with t := wd.t.corrupt, trusted := false }
  | .sync => { sw := r.1, t := wd.t.applyAll r.2, trusted := true, d := some wd.sw.s.style, fresh := false }
  | .show =>
    if wd.sw.ttyw = wd.sw.s.w ∧ wd.sw.ttyh = wd.sw.s.h then
      { sw := r.1, t := wd.t.applyAll r.2, trusted := wd.trusted,
        d := if wd.fresh then some wd.sw.s.style else if wd.d = some wd.sw.s.style then wd.d else none, fresh := false }
    else
      { sw := r.1, t := wd.t.applyAll r.2, trusted := true, d := some wd.sw.s.style, fresh := false }
  | _ => { wd with sw := r.1, t := wd.t.applyAll r.2 }

def World.init (w h : Int) : World :=
  { sw := ScrW.init w h, t := { w := w, h := h }, trusted := true, d := none, fresh := true }

def World.run (c : DrawCfg) (wd : World) (ops : List ScrOp) : World := ops.foldl (World.step c) wd

/-- relation between a buffer before and after an application-level buffer operation -/
structure BufStep (rw : Rune → Int) (b b' : Buf) : Prop where
  w : b'.w = b.w
  h : b'.h = b.h
  keep : ∀ i j, (b'.cells i j).lock = false → (b'.cells i j).lastMain ≠ 0 →
    (b.cells i j).lock = false ∧ (b.cells i j).lastMain ≠ 0 ∧ (b'.cells i j).last = (b.cells i j).last
  dirty : ∀ i j, (b.cells i j).lastMain = 0 → (b'.cells i j).lastMain = 0
  wok : (∀ i j, WOk rw (b.cells i j)) → ∀ i j, WOk rw (b'.cells i j)
  valid : (∀ i j, (b.cells i j).currStyle.attrs ≠ attrInvalid) → ∀ i j, (b'.cells i j).currStyle.attrs ≠ attrInvalid

theorem BufStep.refl (rw : Rune → Int) (b : Buf) : BufStep rw b b :=
  { w := rfl, h := rfl, keep := fun _ _ h1 h2 => ⟨h1, h2, rfl⟩, dirty := fun _ _ h => h, wok := fun h => h, valid := fun h => h }

theorem BufStep.trans {rw : Rune → Int} {a b c : Buf} (h1 : BufStep rw a b) (h2 : BufStep rw b c) : BufStep rw a c :=
  { w := h2.w.trans h1.w, h := h2.h.trans h1.h,
    keep := by
      intro i j hl hm
      obtain ⟨a1, a2, a3⟩ := h2.keep i j hl hm
      obtain ⟨b1, b2, b3⟩ := h1.keep i j a1 a2
      exact ⟨b1, b2, a3.trans b3⟩,
    dirty := fun i j h => h2.dirty i j (h1.dirty i j h),
    wok := fun h => h2.wok (h1.wok h), valid := fun h => h2.valid (h1.valid h) }

theorem Cell.last_eq (c c' : Cell) (h1 : c'.lastMain = c.lastMain) (h2 : c'.lastComb = c.lastComb) (h3 : c'.lastStyle = c.lastStyle) :
    c'.last = c.last := by simp [Cell.last, h1, h2, h3]

theorem merge_attrs (o n : Style) : (o.merge n).attrs = n.attrs := rfl

theorem bufStep_setContent (rw : Rune → Int) (b : Buf) (x y : Int) (m : Rune) (comb : List Rune) (st : Style)
    (hst : st.attrs ≠ attrInvalid) : BufStep rw b (b.setContent rw x y m comb st) := by
  refine { w := by simp, h := by simp, keep := ?_, dirty := ?_, wok := ?_, valid := ?_ }
  · intro i j hl hm
    rw [setContent_cells] at hl hm ⊢
    split at hm
    · split at hm
      · rename_i h1 h2; rw [if_pos h1, if_pos h2] at hl ⊢
        simp only [Cell.store_lastMain, Cell.store_lock, Cell.store_last] at hl hm ⊢
        rcases preDirty_cases b x y m comb i j with e | e
        · rw [e] at hl hm ⊢; exact ⟨hl, hm, rfl⟩
        · rw [e] at hm; simp at hm
      · rename_i h1 h2; rw [if_pos h1, if_neg h2] at hl ⊢
        rcases preDirty_cases b x y m comb i j with e | e
        · rw [e] at hl hm ⊢; exact ⟨hl, hm, rfl⟩
        · rw [e] at hm; simp at hm
    · rename_i h1; rw [if_neg h1] at hl ⊢; exact ⟨hl, hm, rfl⟩
  · intro i j h0
    rw [setContent_cells]
    split
    · split
      · simp only [Cell.store_lastMain]
        rcases preDirty_cases b x y m comb i j with e | e <;> rw [e] <;> simp [h0]
      · rcases preDirty_cases b x y m comb i j with e | e <;> rw [e] <;> simp [h0]
    · exact h0
  · intro hw i j
    rw [setContent_cells]
    have pre : WOk rw ((b.preDirty x y m comb).cells i j) := by
      rcases preDirty_cases b x y m comb i j with e | e <;> rw [e]
      · exact hw i j
      · exact wok_markDirty _ (hw i j)
    split
    · split
      · simp only [WOk, Cell.store_width, Cell.store_currMain] at pre ⊢
        by_cases hh : ((b.preDirty x y m comb).cells i j).currMain = m
        · simp only [hh, ne_eq, not_true_eq_false, if_false]; rw [hh] at pre; exact pre
        · simp only [ne_eq, hh, not_false_eq_true, if_true]; left; trivial
      · exact pre
    · exact hw i j
  · intro hv i j
    rw [setContent_cells]
    split
    · split
      · simp only [Cell.store_currStyle, merge_attrs]; exact hst
      · rcases preDirty_cases b x y m comb i j with e | e <;> rw [e]
        · exact hv i j
        · simpa using hv i j
    · exact hv i j

theorem bufStep_fill (rw : Rune → Int) (b : Buf) (r : Rune) (st : Style) (hst : st.attrs ≠ attrInvalid) (hr : rw r = 1) :
    BufStep rw b (b.fill r st) := by
  refine { w := rfl, h := rfl, keep := ?_, dirty := ?_, wok := ?_, valid := ?_ }
  · intro i j hl hm; simp only [fill_cells, Cell.filled_lock, Cell.filled_lastMain, Cell.filled_last] at hl hm ⊢
    exact ⟨hl, hm, trivial⟩
  · intro i j h0; simpa using h0
  · intro _ i j; left; simp [Cell.filled, hr]
  · intro _ i j; simp only [fill_cells, Cell.filled]; exact hst

/-- Fill of either tree (`Buf.fillV`), for the runes `ScrOp.Valid` admits: the repaired Fill stores a blank for a
zero-width rune, so this is `bufStep_fill` at the substituted rune -/
theorem bufStep_fillV (fz : Bool) (rw : Rune → Int) (h32 : rw 32 = 1) (b : Buf) (r : Rune) (st : Style)
    (hst : st.attrs ≠ attrInvalid) (hr : rw r = 1 ∨ (fz = true ∧ rw r = 0)) : BufStep rw b (b.fillV fz rw r st) := by
  rw [fillV_eq]
  rcases hr with hr | ⟨hf, hr⟩
  · rw [Cell.fillRune_ne0 fz rw r (by omega)]; exact bufStep_fill rw b r st hst hr
  · subst hf; rw [Cell.fillRune_true_zero rw r hr]; exact bufStep_fill rw b 32 st hst h32

theorem bufStep_lockCell (rw : Rune → Int) (b : Buf) (x y : Int) : BufStep rw b (b.lockCell x y) := by
  refine { w := by simp, h := by simp, keep := ?_, dirty := ?_, wok := ?_, valid := ?_ }
  · intro i j hl hm; rw [lockCell_cells] at hl hm ⊢
    split at hl
    · simp at hl
    · rename_i h; rw [if_neg h] at hm ⊢; exact ⟨hl, hm, rfl⟩
  · intro i j h0; rw [lockCell_cells]; split <;> simp [h0]
  · intro hw i j; rw [lockCell_cells]; split
    · simpa [WOk] using hw i j
    · exact hw i j
  · intro hv i j; rw [lockCell_cells]; split
    · simpa [Cell.setLock] using hv i j
    · exact hv i j

theorem bufStep_unlockCell (rw : Rune → Int) (b : Buf) (x y : Int) : BufStep rw b (b.unlockCell x y) := by
  refine { w := by simp, h := by simp, keep := ?_, dirty := ?_, wok := ?_, valid := ?_ }
  · intro i j hl hm; rw [unlockCell_cells] at hl hm ⊢
    split at hm
    · simp at hm
    · rename_i h; rw [if_neg h] at hl ⊢; exact ⟨hl, hm, rfl⟩
  · intro i j h0; rw [unlockCell_cells]; split <;> simp [h0]
  · intro hw i j; rw [unlockCell_cells]; split
    · simpa [WOk, Cell.setLock] using hw i j
    · exact hw i j
  · intro hv i j; rw [unlockCell_cells]; split
    · simpa [Cell.setLock] using hv i j
    · exact hv i j

theorem bufStep_lockRow (rw : Rune → Int) (b : Buf) (x y : Int) (lock : Bool) :
    ∀ n, BufStep rw b (lockRow b x y lock n) := by
  intro n
  induction n with
  | zero => exact BufStep.refl rw b
  | succ n ih =>
    simp only [lockRow]
    split
    · exact ih.trans (bufStep_lockCell rw _ _ _)
    · exact ih.trans (bufStep_unlockCell rw _ _ _)

theorem bufStep_lockRows (rw : Rune → Int) (b : Buf) (x y w : Int) (lock : Bool) :
    ∀ m, BufStep rw b (lockRows b x y w lock m) := by
  intro m
  induction m with
  | zero => exact BufStep.refl rw b
  | succ m ih => simp only [lockRows]; exact ih.trans (bufStep_lockRow rw _ _ _ _ _)

theorem bufStep_setDirtyTrue (rw : Rune → Int) (b : Buf) (x y : Int) : BufStep rw b (b.setDirty x y true) := by
  refine { w := by simp, h := by simp, keep := ?_, dirty := ?_, wok := ?_, valid := ?_ }
  · intro i j hl hm; rw [setDirty_true_cells] at hl hm ⊢
    split at hm
    · simp at hm
    · rename_i h; rw [if_neg h] at hl ⊢; exact ⟨hl, hm, rfl⟩
  · intro i j h0; rw [setDirty_true_cells]; split <;> simp [h0]
  · intro hw i j; rw [setDirty_true_cells]; split
    · exact wok_markDirty _ (hw i j)
    · exact hw i j
  · intro hv i j; rw [setDirty_true_cells]; split
    · simpa using hv i j
    · exact hv i j

theorem bufStep_lockRowsG (rw : Rune → Int) (b : Buf) (x y w : Int) (lock : Bool) :
    ∀ m, BufStep rw b (lockRowsG b x y w lock m) := by
  intro m
  induction m with
  | zero => exact BufStep.refl rw b
  | succ m ih =>
    simp only [lockRowsG]
    have h1 := ih.trans (bufStep_lockRow rw (lockRowsG b x y w lock m) x (y + m) lock w.toNat)
    split
    · unfold redirtyLeft; split
      · exact h1.trans (bufStep_setDirtyTrue rw _ _ _)
      · exact h1
    · exact h1

/-! ### the guarded blank survives application-level buffer operations (repaired drawCell) -/

theorem gcw_eq (b : Buf) (i j : Int) : (b.getContent i j).2.2.2 =
    if b.inRange i j then (if (b.cells i j).width = 0 ∨ (b.cells i j).currMain < 32 then 1 else (b.cells i j).width) else 0 := by
  unfold getContent
  split
  · simp only; split <;> rfl
  · rfl

/-- `BlankOk` reads the stored width and rune of the cell and the lock of its right neighbour; locking more cells keeps it -/
theorem BlankOk.of_same {b b' : Buf} {i j : Int} (h : BlankOk b i j) (hw : b'.w = b.w) (hh : b'.h = b.h)
    (hc : (b'.cells i j).width = (b.cells i j).width ∧ (b'.cells i j).currMain = (b.cells i j).currMain)
    (hl : (b'.cells (i + 1) j).lock = true ∨ (b'.cells (i + 1) j).lock = (b.cells (i + 1) j).lock) : BlankOk b' i j := by
  unfold BlankOk at h ⊢
  rw [gcw_eq] at h ⊢
  simp only [Buf.locked, inRange_iff, hw, hh, hc.1, hc.2] at h ⊢
  refine ⟨h.1, ?_⟩
  rcases h.2 with h2 | h2
  · left
    split at h2
    · rename_i hr; rw [if_pos hr]
      rcases hl with hl | hl
      · exact hl
      · rw [hl]; exact h2
    · exact absurd h2 (by simp)
  · right; exact h2

theorem setContent_lock (rw : Rune → Int) (b : Buf) (x y : Int) (m : Rune) (comb : List Rune) (st : Style) (i j : Int) :
    ((b.setContent rw x y m comb st).cells i j).lock = (b.cells i j).lock := by
  rw [setContent_cells]
  split
  · split
    · simp only [Cell.store_lock]
      rcases preDirty_cases b x y m comb i j with e | e <;> rw [e] <;> simp
    · rcases preDirty_cases b x y m comb i j with e | e <;> rw [e] <;> simp
  · rfl

theorem setContent_blank (rw : Rune → Int) (b : Buf) (x y : Int) (m : Rune) (comb : List Rune) (st : Style) (i j : Int)
    (hm : ((b.setContent rw x y m comb st).cells i j).lastMain ≠ 0) (h : BlankOk b i j) :
    BlankOk (b.setContent rw x y m comb st) i j := by
  refine h.of_same (by simp) (by simp) ?_ (Or.inr (setContent_lock ..))
  rw [setContent_cells] at hm ⊢
  split
  · rename_i hr
    rw [if_pos hr] at hm
    split
    · rename_i hxy
      obtain ⟨rfl, rfl⟩ := hxy
      rw [if_pos ⟨rfl, rfl⟩] at hm
      simp only [Cell.store_lastMain] at hm
      rw [preDirty_cells] at hm ⊢
      by_cases hch : m ≠ (b.cells i j).currMain ∨ comb ≠ (b.cells i j).currComb
      · exfalso
        have hpos := h.1
        have hc : ((b.cells i j).width > 0 ∧ (m ≠ (b.cells i j).currMain ∨ comb ≠ (b.cells i j).currComb)) ∧
            j = j ∧ i ≤ i ∧ i < i + (b.cells i j).width ∧ b.inRange i j := ⟨⟨hpos, hch⟩, rfl, Int.le_refl _, by omega, hr⟩
        rw [if_pos hc] at hm; simp at hm
      · have hc : ¬ (((b.cells i j).width > 0 ∧ (m ≠ (b.cells i j).currMain ∨ comb ≠ (b.cells i j).currComb)) ∧
            j = j ∧ i ≤ i ∧ i < i + (b.cells i j).width ∧ b.inRange i j) := fun hh => hch hh.1.2
        rw [if_neg hc]
        have hmm : (b.cells i j).currMain = m := by
          by_cases e : m = (b.cells i j).currMain
          · exact e.symm
          · exact absurd (Or.inl e) hch
        simp only [Cell.store_width, Cell.store_currMain, hmm, ne_eq, not_true_eq_false, if_false, and_self]
    · rename_i hxy
      rw [if_neg hxy] at hm
      rcases preDirty_cases b x y m comb i j with e | e
      · rw [e]; exact ⟨rfl, rfl⟩
      · rw [e] at hm; simp at hm
  · exact ⟨rfl, rfl⟩

theorem fill_blank (b : Buf) (r : Rune) (st : Style) (i j : Int) : BlankOk (b.fill r st) i j := by
  unfold BlankOk
  refine ⟨by simp, Or.inr ?_⟩
  rw [gcw_eq]; simp only [fill_cells, Cell.filled_width]
  split
  · simp
  · omega

/-- Fill of either tree records width 1 in every cell, so every cell satisfies `BlankOk` afterwards -/
theorem fillV_blank (fz : Bool) (rw : Rune → Int) (b : Buf) (r : Rune) (st : Style) (i j : Int) :
    BlankOk (b.fillV fz rw r st) i j := by
  rw [fillV_eq]; exact fill_blank b _ st i j

theorem lockCell_blank (b : Buf) (x y : Int) (i j : Int) (h : BlankOk b i j) : BlankOk (b.lockCell x y) i j := by
  refine h.of_same (by simp) (by simp) ?_ ?_
  · rw [lockCell_cells]; split <;> simp
  · rw [lockCell_cells]; split
    · left; simp
    · right; rfl

theorem lockRow_true_blank (b : Buf) (x y : Int) (i j : Int) (h : BlankOk b i j) : ∀ n, BlankOk (lockRow b x y true n) i j := by
  intro n
  induction n with
  | zero => exact h
  | succ n ih => simp only [lockRow, if_true]; exact lockCell_blank _ _ _ _ _ ih

theorem lockRowsG_true_blank (b : Buf) (x y w : Int) (i j : Int) (h : BlankOk b i j) :
    ∀ m, BlankOk (lockRowsG b x y w true m) i j := by
  intro m
  induction m with
  | zero => exact h
  | succ m ih =>
    simp only [lockRowsG, Bool.true_eq_false, false_and, if_false]
    exact lockRow_true_blank _ _ _ _ _ ih _

/-- closed form of one row of an unlocking LockRegion -/
theorem lockRow_false_cells (b : Buf) (x y : Int) (n : Nat) (i j : Int) :
    (lockRow b x y false n).w = b.w ∧ (lockRow b x y false n).h = b.h ∧
    (lockRow b x y false n).cells i j =
      if j = y ∧ x ≤ i ∧ i < x + n ∧ b.inRange i j then ((b.cells i j).setLock false).markDirty else b.cells i j := by
  induction n with
  | zero =>
    refine ⟨rfl, rfl, ?_⟩
    simp only [lockRow]; split
    · omega
    · rfl
  | succ n ih =>
    obtain ⟨h1, h2, h3⟩ := ih
    simp only [lockRow, Bool.false_eq_true, if_false]
    refine ⟨by simp [h1], by simp [h2], ?_⟩
    rw [unlockCell_cells, h3]
    simp only [inRange_iff, h1, h2]
    have hc : ((n + 1 : Nat) : Int) = (n : Int) + 1 := by omega
    rw [hc]
    split <;> split <;> (try split) <;> first | rfl | (exfalso; omega) | skip
    all_goals simp [Cell.setLock, Cell.markDirty]

/-- what an unlocking LockRegion of the repaired tree has done after `m` rows -/
structure URel (b b' : Buf) (x y w : Int) (m : Nat) : Prop where
  dw : b'.w = b.w
  dh : b'.h = b.h
  cont : ∀ i j, (b'.cells i j).width = (b.cells i j).width ∧ (b'.cells i j).currMain = (b.cells i j).currMain
  lock : ∀ i j, (b'.cells i j).lock = (b.cells i j).lock ∨
    ((b'.cells i j).lock = false ∧ x ≤ i ∧ i < x + w.toNat ∧ y ≤ j ∧ j < y + m)
  zero : ∀ i j, (b.cells i j).lastMain = 0 → (b'.cells i j).lastMain = 0
  reg : ∀ i j, b.inRange i j → x ≤ i → i < x + w.toNat → y ≤ j → j < y + m → (b'.cells i j).lastMain = 0
  left : ∀ j, b.inRange (x - 1) j → 0 < w → y ≤ j → j < y + m → (b.getContent (x - 1) j).2.2.2 > 1 →
    b.locked x j = true → (b'.cells (x - 1) j).lastMain = 0

theorem URel.refl (b : Buf) (x y w : Int) : URel b b x y w 0 :=
  { dw := rfl, dh := rfl, cont := fun _ _ => ⟨rfl, rfl⟩, lock := fun _ _ => Or.inl rfl, zero := fun _ _ h => h,
    reg := by intro i j _ _ _ h1 h2; omega, left := by intro j _ _ h1 h2; omega }

theorem lockRowsG_false_urel (b : Buf) (x y w : Int) : ∀ m, URel b (lockRowsG b x y w false m) x y w m := by
  intro m
  induction m with
  | zero => exact URel.refl b x y w
  | succ m ih =>
    generalize hb1 : lockRowsG b x y w false m = b1 at ih
    have hrow := fun i j => lockRow_false_cells b1 x (y + m) w.toNat i j
    generalize hb2 : lockRow b1 x (y + m) false w.toNat = b2 at hrow
    have h2w : b2.w = b.w := (hrow 0 0).1.trans ih.dw
    have h2h : b2.h = b.h := (hrow 0 0).2.1.trans ih.dh
    have hr1 : ∀ i j, b1.inRange i j ↔ b.inRange i j := by intro i j; simp only [inRange_iff, ih.dw, ih.dh]
    have h2c : ∀ i j, b2.cells i j =
        if j = y + m ∧ x ≤ i ∧ i < x + w.toNat ∧ b.inRange i j then ((b1.cells i j).setLock false).markDirty else b1.cells i j := by
      intro i j; rw [(hrow i j).2.2]; simp only [hr1]
    have hg2 : (b2.getContent (x - 1) (y + m)).2.2.2 = (b.getContent (x - 1) (y + m)).2.2.2 := by
      rw [gcw_eq, gcw_eq]; simp only [inRange_iff, h2w, h2h]
      have : (b2.cells (x - 1) (y + m)).width = (b.cells (x - 1) (y + m)).width ∧
          (b2.cells (x - 1) (y + m)).currMain = (b.cells (x - 1) (y + m)).currMain := by
        rw [h2c]; split
        · simpa [Cell.setLock, Cell.markDirty] using ih.cont (x - 1) (y + m)
        · exact ih.cont _ _
      rw [this.1, this.2]
    -- the rows before this one have not touched the locks of row y+m: "was locked" can be read off `b`
    have hlk : b1.locked x (y + m) = b.locked x (y + m) := by
      have hl : (b1.cells x (y + m)).lock = (b.cells x (y + m)).lock := by
        rcases ih.lock x (y + m) with h | h
        · exact h
        · exfalso; omega
      simp only [Buf.locked, inRange_iff, ih.dw, ih.dh, hl]
    -- the row step: lockRow, then the re-dirtying of the left neighbour
    have hstep : lockRowsG b x y w false (m + 1) =
        if w > 0 ∧ b.locked x (y + m) = true then redirtyLeft b2 x (y + m) else b2 := by
      simp only [lockRowsG, hb1, hb2, true_and, hlk]
    rw [hstep]
    -- closed form of the result
    have h3 : ∀ (b3 : Buf), b3 = (if w > 0 ∧ b.locked x (y + m) = true then redirtyLeft b2 x (y + m) else b2) →
        b3.w = b.w ∧ b3.h = b.h ∧ ∀ i j, b3.cells i j =
          if i = x - 1 ∧ j = y + m ∧ (w > 0 ∧ b.locked x (y + m) = true) ∧ (b.getContent (x - 1) (y + m)).2.2.2 > 1 ∧ b.inRange (x - 1) (y + m)
          then (b2.cells i j).markDirty else b2.cells i j := by
      intro b3 e
      by_cases hw : w > 0 ∧ b.locked x (y + m) = true
      · rw [if_pos hw] at e
        unfold redirtyLeft at e
        rw [hg2] at e
        by_cases hg : (b.getContent (x - 1) (y + m)).2.2.2 > 1
        · rw [if_pos hg] at e; rw [e]
          refine ⟨by simp [h2w], by simp [h2h], ?_⟩
          intro i j; rw [setDirty_true_cells]; simp only [inRange_iff, h2w, h2h, hw, hg, true_and, and_self]
        · rw [if_neg hg] at e; rw [e]
          refine ⟨h2w, h2h, ?_⟩
          intro i j; rw [if_neg (fun hh => hg hh.2.2.2.1)]
      · rw [if_neg hw] at e; rw [e]
        refine ⟨h2w, h2h, ?_⟩
        intro i j; rw [if_neg (fun hh => hw hh.2.2.1)]
    obtain ⟨h3w, h3h, h3c⟩ := h3 _ rfl
    generalize (if w > 0 ∧ b.locked x (y + m) = true then redirtyLeft b2 x (y + m) else b2) = b3 at h3w h3h h3c
    have hcm : ((m + 1 : Nat) : Int) = (m : Int) + 1 := by omega
    refine { dw := h3w, dh := h3h, cont := ?_, lock := ?_, zero := ?_, reg := ?_, left := ?_ }
    · intro i j; rw [h3c, h2c]
      split <;> split <;> simpa [Cell.setLock, Cell.markDirty] using ih.cont i j
    · intro i j; rw [h3c, h2c, hcm]
      have hlm : ∀ cl : Cell, cl.markDirty.lock = cl.lock := fun _ => rfl
      by_cases hrg : j = y + m ∧ x ≤ i ∧ i < x + w.toNat ∧ b.inRange i j
      · right; rw [if_pos hrg]
        refine ⟨by split <;> simp [Cell.setLock, Cell.markDirty], hrg.2.1, hrg.2.2.1, by omega, by omega⟩
      · rw [if_neg hrg]
        have : (if i = x - 1 ∧ j = y + m ∧ (w > 0 ∧ b.locked x (y + m) = true) ∧ (b.getContent (x - 1) (y + m)).2.2.2 > 1 ∧ b.inRange (x - 1) (y + m)
            then (b1.cells i j).markDirty else b1.cells i j).lock = (b1.cells i j).lock := by split <;> rfl
        rw [this]
        rcases ih.lock i j with h | h
        · left; exact h
        · right; exact ⟨h.1, h.2.1, h.2.2.1, h.2.2.2.1, by omega⟩
    · intro i j h0; rw [h3c, h2c]
      have := ih.zero i j h0
      split <;> split <;> simp [Cell.setLock, Cell.markDirty, this]
    · intro i j hr a1 a2 a3 a4; rw [h3c, h2c]
      rw [hcm] at a4
      by_cases hj : j = y + m
      · have hrg : j = y + m ∧ x ≤ i ∧ i < x + w.toNat ∧ b.inRange i j := ⟨hj, a1, a2, hr⟩
        rw [if_pos hrg]; split <;> simp [Cell.setLock, Cell.markDirty]
      · have := ih.reg i j hr a1 a2 a3 (by omega)
        split <;> split <;> simp [Cell.setLock, Cell.markDirty, this]
    · intro j hr hw a3 a4 hg hlj; rw [h3c, h2c]
      rw [hcm] at a4
      by_cases hj : j = y + m
      · subst hj
        rw [if_pos ⟨rfl, rfl, ⟨hw, hlj⟩, hg, hr⟩]; simp [Cell.markDirty]
      · have := ih.left j hr hw a3 (by omega) hg hlj
        split <;> split <;> simp [Cell.setLock, Cell.markDirty, this]

/-- LockRegion(…, false) of the repaired tree keeps what the invariant remembers about guarded blanks: a cell whose right
neighbour gets unlocked is itself unlocked-and-dirtied (inside the region) or re-dirtied (just left of it) -/
theorem lockRowsG_false_blank (b : Buf) (x y w : Int) (m : Nat) (i j : Int)
    (hr : b.inRange i j) (hm : ((lockRowsG b x y w false m).cells i j).lastMain ≠ 0) (h : BlankOk b i j) :
    BlankOk (lockRowsG b x y w false m) i j := by
  have u := lockRowsG_false_urel b x y w m
  by_cases hg : (b.getContent i j).2.2.2 ≤ 1
  · unfold BlankOk at h ⊢
    refine ⟨by rw [(u.cont i j).1]; exact h.1, Or.inr ?_⟩
    rw [gcw_eq] at hg ⊢
    simp only [inRange_iff, u.dw, u.dh, (u.cont i j).1, (u.cont i j).2] at hg ⊢
    exact hg
  · rcases u.lock (i + 1) j with hl | hl
    · exact h.of_same u.dw u.dh (u.cont i j) (Or.inr hl)
    · exfalso
      apply hm
      by_cases hx : x ≤ i
      · exact u.reg i j hr hx (by omega) hl.2.2.2.1 hl.2.2.2.2
      · have e : i = x - 1 := by omega
        subst e
        -- the blank was painted because the neighbour — the first cell of the region's row — was locked: `BlankOk`
        have hwas : b.locked (x - 1 + 1) j = true := by
          rcases h.2 with h2 | h2
          · exact h2
          · exact absurd h2 hg
        have e1 : x - 1 + 1 = x := by omega
        rw [e1] at hwas
        exact u.left j hr (by omega) hl.2.2.2.1 hl.2.2.2.2 (by omega) hwas

/-- application-level buffer operations preserve the cross-Show invariant -/
theorem SyncInv.bufStep {c : DrawCfg} {d : Option Style} {s s' : Scr} {t : ATerm} (inv : SyncInv c d s t)
    (hb : BufStep c.rw s.cells s'.cells) (hw : s'.w = s.w) (hh : s'.h = s.h) (hs : s'.style = s.style)
    (hblank : c.guardLocked = true → ∀ i j, s.cells.inRange i j → (s'.cells.cells i j).lastMain ≠ 0 →
      BlankOk s.cells i j → BlankOk s'.cells i j) :
    SyncInv c d s' t := by
  have hir : ∀ i j, s'.cells.inRange i j ↔ s.cells.inRange i j := by
    intro i j; simp only [inRange_iff, hb.w, hb.h]
  refine { tw := by rw [hw]; exact inv.tw, th := by rw [hh]; exact inv.th, cw := by rw [hb.w, hw]; exact inv.cw,
           ch := by rw [hb.h, hh]; exact inv.ch, wok := hb.wok inv.wok,
           valid := ⟨by rw [hs]; exact inv.valid.1, hb.valid inv.valid.2⟩, g1 := ?_, g2 := ?_, wf := ?_, g3 := ?_ }
  · intro x y hr hl hm
    obtain ⟨k1, k2, k3⟩ := hb.keep x y hl hm
    obtain ⟨st', nl, g1, g2, g3, g4⟩ := inv.g1 x y ((hir x y).1 hr) k1 k2
    simp only [Cell.last] at k3; injection k3 with e1 e2; injection e2 with e2 e3
    rw [hw, e1, e2, e3]
    refine ⟨st', nl, g1, g2, g3, ?_⟩
    intro a1 a2
    obtain ⟨b1, b2⟩ := g4 a1 a2
    exact ⟨b1, hblank b1 x y ((hir x y).1 hr) hm b2⟩
  · intro x y hr hc
    rcases inv.g2 x y ((hir x y).1 hr) hc with h | h
    · cases hl : (s'.cells.cells x y).lock
      · by_cases hm : (s'.cells.cells x y).lastMain = 0
        · exact Or.inr hm
        · obtain ⟨k1, _, _⟩ := hb.keep x y hl hm; rw [h] at k1; exact absurd k1 (by decide)
      · exact Or.inl rfl
    · exact Or.inr (hb.dirty x y h)
  · intro x y hr hc; exact inv.wf x y ((hir x y).1 hr) hc
  · intro x y hr hl hm b st hsh hlt
    obtain ⟨k1, k2, _⟩ := hb.keep x y hl hm
    rw [hw] at hlt
    exact inv.g3 x y ((hir x y).1 hr) k1 k2 b st hsh hlt

end Tcell

namespace Tcell
open Buf

/-- the buffer-only part of the invariant -/
structure BufOkS (c : DrawCfg) (s : Scr) : Prop where
  cw : s.cells.w = s.w
  ch : s.cells.h = s.h
  wok : ∀ x y, WOk c.rw (s.cells.cells x y)
  valid : s.style.attrs ≠ attrInvalid ∧ ∀ x y, (s.cells.cells x y).currStyle.attrs ≠ attrInvalid

/-- invariant of every reachable world -/
structure WInv (c : DrawCfg) (wd : World) : Prop where
  buf : BufOkS c wd.sw.s
  tdim : wd.t.w = wd.sw.ttyw ∧ wd.t.h = wd.sw.ttyh
  clear : wd.sw.s.clear = false
  fini : wd.sw.s.fini = false
  /-- while the library has not yet noticed a size change, nothing is known about the display -/
  mism : (wd.sw.s.w ≠ wd.sw.ttyw ∨ wd.sw.s.h ≠ wd.sw.ttyh) → ∀ x y, wd.t.grid x y = .garbage
  tr : wd.trusted = true → SyncInv c wd.d wd.sw.s wd.t
  fr : wd.fresh = true → AllDirty wd.sw.s

theorem allGarbage_grid (t : ATerm) (x y : Int) : t.allGarbage.grid x y = .garbage := rfl

theorem apply_dims (t : ATerm) (cmd : Cmd) : (t.apply cmd).w = t.w ∧ (t.apply cmd).h = t.h := by
  cases cmd with
  | put b w =>
    simp only [ATerm.apply]
    split
    · split
      · simp
      · exact ⟨rfl, rfl⟩
    · exact ⟨rfl, rfl⟩
  | insertChar =>
    simp only [ATerm.apply]; split
    · split <;> exact ⟨rfl, rfl⟩
    · exact ⟨rfl, rfl⟩
  | goto x y => exact ⟨rfl, rfl⟩
  | setPen s => exact ⟨rfl, rfl⟩
  | hideCursor => exact ⟨rfl, rfl⟩
  | showCursor a b => exact ⟨rfl, rfl⟩
  | clear s => exact ⟨rfl, rfl⟩

theorem applyAll_dims (t : ATerm) (cs : List Cmd) : (t.applyAll cs).w = t.w ∧ (t.applyAll cs).h = t.h := by
  induction cs generalizing t with
  | nil => exact ⟨rfl, rfl⟩
  | cons c cs ih =>
    have := ih (t.apply c); have h2 := apply_dims t c
    simp only [ATerm.applyAll, List.foldl_cons] at this ⊢
    exact ⟨this.1.trans h2.1, this.2.trans h2.2⟩

/-- the buffer after `resize` to the tty's size followed by Invalidate -/
theorem resize_invalidate_ok {c : DrawCfg} (hrw : RwOk c.rw) (s : Scr) (w h : Int) (hb : BufOkS c s) :
    BufOkS c { s with cx := -1, cy := -1, cells := (s.cells.resize w h).invalidate, w := w, h := h } ∧
    AllDirty { s with cx := -1, cy := -1, cells := (s.cells.resize w h).invalidate, w := w, h := h } := by
  refine ⟨{ cw := by simp [resize_w], ch := by simp [resize_h], wok := ?_, valid := ⟨hb.valid.1, ?_⟩ }, ?_⟩
  · intro x y
    simp only [invalidate_cells]
    apply wok_markDirty
    by_cases hh : s.cells.h = h ∧ s.cells.w = w
    · obtain ⟨rfl, rfl⟩ := hh; rw [resize_same]; exact hb.wok x y
    · rw [resize_cells _ _ _ _ _ hh]; split
      · have := hb.wok x y; simpa [WOk] using this
      · left; simp [hrw.zero]
  · intro x y
    simp only [invalidate_cells, Cell.markDirty_currStyle]
    by_cases hh : s.cells.h = h ∧ s.cells.w = w
    · obtain ⟨rfl, rfl⟩ := hh; rw [resize_same]; exact hb.valid.2 x y
    · rw [resize_cells _ _ _ _ _ hh]; split
      · simpa [Cell.carry] using hb.valid.2 x y
      · simp [attrInvalid]
  · intro x y _; simp

theorem invalidate_ok {c : DrawCfg} (s : Scr) (hb : BufOkS c s) (cl : Bool) :
    BufOkS c { s with cells := s.cells.invalidate, clear := cl } ∧
    AllDirty { s with cells := s.cells.invalidate, clear := cl } := by
  refine ⟨{ cw := hb.cw, ch := hb.ch, wok := ?_, valid := ⟨hb.valid.1, ?_⟩ }, ?_⟩
  · intro x y; exact wok_markDirty _ (hb.wok x y)
  · intro x y; simpa using hb.valid.2 x y
  · intro x y _; simp

theorem BufOkS.of_rel {c : DrawCfg} (hrw : RwOk c.rw) {s s' : Scr} (hb : BufOkS c s) (r : ScrRel s s') : BufOkS c s' :=
  { cw := by rw [r.cw, r.w]; exact hb.cw, ch := by rw [r.ch, r.h]; exact hb.ch,
    wok := fun x y => (r.cells x y).wok hrw (hb.wok x y),
    valid := ⟨by rw [r.style]; exact hb.valid.1, fun x y => by rw [(r.cells x y).2.1]; exact hb.valid.2 x y⟩ }

end Tcell

namespace Tcell
open Buf

/-- what the terminal displays, stated on a world right after a draw whose loop started from buffer `pre` -/
structure Displays (c : DrawCfg) (pre : Buf) (wd : World) : Prop where
  /-- the draw changed neither the size, nor what the cells hold, nor the locks -/
  same : wd.sw.s.cells.w = pre.w ∧ wd.sw.s.cells.h = pre.h ∧ (∀ i j, wd.sw.s.cells.getContent i j = pre.getContent i j) ∧
    ∀ i j, (wd.sw.s.cells.cells i j).lock = (pre.cells i j).lock
  /-- every unlocked cell the draw loop visited (= not the hidden right half of a wide rune) is clean now -/
  cleaned : ∀ x y, pre.inRange x y → visitedG c pre x y = true → (pre.cells x y).lock = false →
    wd.sw.s.cells.dirty x y = false
  /-- every clean unlocked cell — in particular every visited one — shows its current content in its style: two columns wide
  for a wide rune, a blank for a wide rune in the last column, and (`nl`, repaired drawCell only) a blank of width 1 for a
  wide rune whose right neighbour is locked *now*; a two-column glyph has its continuation cell -/
  cells : ∀ x y, wd.sw.s.cells.inRange x y → (wd.sw.s.cells.cells x y).lock = false → wd.sw.s.cells.dirty x y = false →
      ∃ st' nl, wd.t.grid x y = shownOfG c wd.sw.s.w x (wd.sw.s.cells.cells x y).currMain (wd.sw.s.cells.cells x y).currComb st' nl ∧
        ((wd.sw.s.cells.cells x y).currStyle ≠ {} → st' = (wd.sw.s.cells.cells x y).currStyle) ∧
        ((wd.sw.s.cells.cells x y).currStyle = {} → ∀ d', wd.d = some d' → st' = d') ∧
        (nl = true → obsWidth c.rw (wd.sw.s.cells.cells x y).currMain > 1 →
          c.guardLocked = true ∧ wd.sw.s.cells.locked (x + 1) y = true) ∧
        (∀ b st, wd.t.grid x y = .shown b true st → x + 1 < wd.sw.s.w → wd.t.grid (x + 1) y = .cont)
  /-- the cursor is visible at the requested cell, or hidden (parked bottom-right if it cannot be hidden) -/
  cursor :
    (wd.sw.s.cells.inRange wd.sw.s.cursorx wd.sw.s.cursory →
      wd.t.cur = some (wd.sw.s.cursorx, wd.sw.s.cursory) ∧ wd.t.visible = some true ∧
      wd.t.shape = some (wd.sw.s.cursorStyle, wd.sw.s.cursorColor)) ∧
    (¬ wd.sw.s.cells.inRange wd.sw.s.cursorx wd.sw.s.cursory →
      (c.hasHide = true → wd.t.visible = some false) ∧
      (c.hasHide = false → wd.t.cur = some (wd.t.clampX wd.sw.s.w, wd.t.clampY wd.sw.s.h)))

/-- what the cross-Show invariant says about a clean unlocked cell, in terms of its *current* content -/
theorem SyncInv.clean_cell {c : DrawCfg} (hrw : RwOk c.rw) {d : Option Style} {s : Scr} {t : ATerm} (inv : SyncInv c d s t)
    (x y : Int) (hr : s.cells.inRange x y) (hl : (s.cells.cells x y).lock = false) (hd : s.cells.dirty x y = false) :
    ∃ st' nl, t.grid x y = shownOfG c s.w x (s.cells.cells x y).currMain (s.cells.cells x y).currComb st' nl ∧
      ((s.cells.cells x y).currStyle ≠ {} → st' = (s.cells.cells x y).currStyle) ∧
      ((s.cells.cells x y).currStyle = {} → ∀ d', d = some d' → st' = d') ∧
      (nl = true → obsWidth c.rw (s.cells.cells x y).currMain > 1 → c.guardLocked = true ∧ s.cells.locked (x + 1) y = true) ∧
      (∀ b st, t.grid x y = .shown b true st → x + 1 < s.w → t.grid (x + 1) y = .cont) := by
  have hdd : (s.cells.cells x y).isDirty = false := by simpa [dirty, hr] using hd
  obtain ⟨hm, hlast⟩ := (Cell.isDirty_false_iff _ hl).1 hdd
  obtain ⟨st', nl, g1, g2, g3, g4⟩ := inv.g1 x y hr hl hm
  simp only [Cell.last, Cell.content] at hlast; injection hlast with e1 e2; injection e2 with e2 e3
  rw [e1, e2] at g1; rw [e3] at g2 g3; rw [e1] at g4
  refine ⟨st', nl, g1, g2, g3, ?_, inv.g3 x y hr hl hm⟩
  intro a1 a2
  obtain ⟨b1, b2⟩ := g4 a1 a2
  refine ⟨b1, ?_⟩
  rcases b2.2 with h | h
  · exact h
  · rw [getContent_wok hrw s.cells x y hr (inv.wok x y)] at h; simp only at h; omega

theorem displays_of_drawPost {c : DrawCfg} (hrw : RwOk c.rw) {d : Option Style} {s s' : Scr} {t t' : ATerm} (pre : BufOk c s t)
    (dp : DrawPost c d s t s' t') (sw : ScrW) (tr fr : Bool) (hs : sw.s = s') :
    Displays c s.cells { sw := sw, t := t', trusted := tr, d := d, fresh := fr } := by
  have hcw : s'.cells.w = s.cells.w := by rw [dp.sync.cw, dp.w_same, pre.cw]
  have hch : s'.cells.h = s.cells.h := by rw [dp.sync.ch, dp.h_same, pre.ch]
  have hir : ∀ i j, s'.cells.inRange i j ↔ s.cells.inRange i j := by intro i j; simp only [inRange_iff, hcw, hch]
  refine { same := ?_, cleaned := ?_, cells := ?_, cursor := ?_ }
  · simp only [hs]; exact ⟨hcw, hch, dp.gc_same, dp.lock_same⟩
  · intro x y hr hv hl
    simp only [hs]
    obtain ⟨hm, hlast⟩ := dp.done x y hr hv hl
    have hl' : (s'.cells.cells x y).lock = false := by rw [dp.lock_same]; exact hl
    simp only [dirty, if_pos ((hir x y).2 hr)]; exact (Cell.isDirty_false_iff _ hl').2 ⟨hm, hlast⟩
  · intro x y hr hl hd
    simp only [hs] at hr hl hd ⊢
    exact dp.sync.clean_cell hrw x y hr hl hd
  · simp only [hs]
    obtain ⟨c1, c2, c3, c4⟩ := dp.cursor_same
    rw [c1, c2, c3, c4]
    have td := dp.sync.tw; have td2 := dp.sync.th
    constructor
    · intro hr; exact dp.cursor.1 ((hir _ _).1 hr)
    · intro hr
      have := dp.cursor.2 (fun h => hr ((hir _ _).2 h))
      refine ⟨this.1, ?_⟩
      intro hh; rw [this.2 hh]
      simp only [ATerm.clampX, ATerm.clampY, pre.tw, pre.th, pre.cw, pre.ch, dp.sync.tw, dp.sync.th, dp.w_same, dp.h_same]

end Tcell

namespace Tcell
open Buf

theorem resize_same_size (s : Scr) : s.resize (some (s.w, s.h)) = s := by simp [Scr.resize]

theorem resize_diff (s : Scr) (w h : Int) (hne : ¬ (w = s.w ∧ h = s.h)) :
    s.resize (some (w, h)) = { s with cx := -1, cy := -1, cells := (s.cells.resize w h).invalidate, w := w, h := h } := by
  simp [Scr.resize, hne]

/-! ### the side condition of the corner-trick theorems, on histories -/

theorem CornerSafe.of_plain {c : DrawCfg} (hct : c.Plain) (s : Scr) : CornerSafe c s := by
  intro h; rw [hct.ct] at h; exact absurd h (by decide)

/-- a draw changes neither the size nor the locks: the side condition may be read off the screen the draw leaves -/
theorem CornerSafe.of_draw {c : DrawCfg} {s : Scr} (h : CornerSafe c (s.draw c).1) : CornerSafe c s := by
  have r := (draw_rel c s).1
  intro hc
  obtain ⟨h2, hul⟩ := h hc
  refine ⟨by rw [r.w] at h2; exact h2, ?_⟩
  intro i
  have := hul i
  rw [r.h, locked_congr ({ s with clear := false } : Scr).cells _ r.cw r.ch (fun i j => (r.cells i j).2.2.2.1)] at this
  exact this

/-- executable form of `CornerSafe` (the hypothesis is decidable) -/
def cornerSafeB (c : DrawCfg) (s : Scr) : Bool :=
  !c.cornerTrick || (decide (2 ≤ s.w) && (List.range s.cells.w.toNat).all fun k => !(s.cells.locked (Int.ofNat k) (s.h - 1)))

theorem cornerSafe_of_B {c : DrawCfg} {s : Scr} (h : cornerSafeB c s = true) : CornerSafe c s := by
  intro hc
  simp only [cornerSafeB, hc, Bool.not_true, Bool.false_or, Bool.and_eq_true, decide_eq_true_eq, List.all_eq_true,
    List.mem_range, Bool.not_eq_true'] at h
  refine ⟨h.1, ?_⟩
  intro i
  by_cases hi : 0 ≤ i ∧ i < s.cells.w
  · have := h.2 i.toNat (by omega)
    have e : Int.ofNat i.toNat = i := by simp [Int.toNat_of_nonneg hi.1]
    rw [e] at this; exact this
  · simp only [Buf.locked, inRange_iff]
    rw [if_neg (by omega)]

/-- THE SIDE CONDITION for one operation performed in world `wd`: if the operation draws (Show, Sync, a resize that
reaches the library), the screen it leaves — draws change neither sizes nor locks, so equally the screen the draw
starts from — satisfies `CornerSafe`: on a terminal that needs the bottom-right insert-character trick it is at least
two columns wide and no cell of its last row is locked.  Vacuous when `c.cornerTrick = false`. -/
def World.SafeAt (c : DrawCfg) (wd : World) (op : ScrOp) : Prop :=
  match op with
  | .show => CornerSafe c (wd.step c .show).sw.s
  | .sync => CornerSafe c (wd.step c .sync).sw.s
  | .ttyResizeNotify w h => CornerSafe c (wd.step c (.ttyResizeNotify w h)).sw.s
  | _ => True

/-- the side condition along a whole history -/
def World.SafeRun (c : DrawCfg) : World → List ScrOp → Prop
  | _, [] => True
  | wd, op :: ops => wd.SafeAt c op ∧ World.SafeRun c (wd.step c op) ops

theorem World.SafeAt.of_plain {c : DrawCfg} (hct : c.Plain) (wd : World) (op : ScrOp) : wd.SafeAt c op := by
  cases op <;> first | trivial | exact CornerSafe.of_plain hct _

theorem World.SafeRun.of_plain {c : DrawCfg} (hct : c.Plain) : ∀ (ops : List ScrOp) (wd : World), World.SafeRun c wd ops
  | [], _ => trivial
  | op :: ops, wd => ⟨World.SafeAt.of_plain hct wd op, World.SafeRun.of_plain hct ops _⟩

theorem World.SafeRun.append {c : DrawCfg} : ∀ (ops : List ScrOp) (wd : World) (op : ScrOp),
    World.SafeRun c wd ops → (wd.run c ops).SafeAt c op → World.SafeRun c wd (ops ++ [op])
  | [], _, _, _, h => ⟨h, trivial⟩
  | o :: ops, wd, op, h1, h2 => ⟨h1.1, World.SafeRun.append ops _ op h1.2 (by simpa [World.run] using h2)⟩

/-- Show: the invariant is kept, and if the display was trusted (or the size change is noticed now) it is right afterwards -/
theorem show_step_c {c : DrawCfg} (hrw : RwOk c.rw) (hct : c.Walk) {wd : World} (inv : WInv c wd)
    (hsafe : CornerSafe c (wd.step c .show).sw.s) :
    WInv c (wd.step c .show) ∧
    ((wd.trusted = true ∨ ¬ (wd.sw.ttyw = wd.sw.s.w ∧ wd.sw.ttyh = wd.sw.s.h)) →
      Displays c (wd.sw.s.resize (some (wd.sw.ttyw, wd.sw.ttyh))).cells (wd.step c .show)) := by
  have hfini := inv.fini
  by_cases hsz : wd.sw.ttyw = wd.sw.s.w ∧ wd.sw.ttyh = wd.sw.s.h
  · -- no size change
    have hres : wd.sw.s.resize (some (wd.sw.ttyw, wd.sw.ttyh)) = wd.sw.s := by rw [hsz.1, hsz.2]; exact resize_same_size _
    have hstep : wd.step c .show =
        { sw := { wd.sw with s := (wd.sw.s.draw c).1 }, t := wd.t.applyAll (wd.sw.s.draw c).2, trusted := wd.trusted,
          d := if wd.fresh then some wd.sw.s.style else if wd.d = some wd.sw.s.style then wd.d else none, fresh := false } := by
      simp only [World.step, ScrW.step, Scr.show, hfini, hsz, resize_same_size, and_self, if_true, Bool.false_eq_true, if_false]
    rw [hstep] at hsafe
    have hsafe0 : CornerSafe c wd.sw.s := CornerSafe.of_draw hsafe
    rw [hstep, hres]
    have pre : BufOk c wd.sw.s wd.t :=
      { tw := by rw [inv.tdim.1, hsz.1], th := by rw [inv.tdim.2, hsz.2], cw := inv.buf.cw, ch := inv.buf.ch,
        wok := inv.buf.wok, valid := inv.buf.valid }
    cases htr : wd.trusted
    · -- untrusted: only the buffer part survives
      have r := draw_rel c wd.sw.s
      have e : ({ wd.sw.s with clear := false } : Scr) = wd.sw.s := by
        have := inv.clear; cases hs : wd.sw.s; simp_all
      rw [e] at r
      refine ⟨{ buf := inv.buf.of_rel hrw r.1, tdim := ?_, clear := r.2, fini := by rw [r.1.fini]; exact inv.fini,
                mism := ?_, tr := by intro h; exact absurd h (by simp), fr := by intro h; exact absurd h (by simp) }, ?_⟩
      · have := applyAll_dims wd.t (wd.sw.s.draw c).2
        exact ⟨this.1.trans inv.tdim.1, this.2.trans inv.tdim.2⟩
      · intro h; exfalso; simp only [r.1.w, r.1.h] at h; omega
      · intro h; rcases h with h | h
        · exact absurd h (by simp)
        · exact absurd hsz h
    · have sinv := inv.tr htr
      cases hfr : wd.fresh
      · have dp := draw_post hrw hct (d := wd.d) pre (fun _ => sinv) (by intro h; rw [inv.clear] at h; exact absurd h (by simp)) hsafe0
        simp only [Bool.false_eq_true, if_false]
        refine ⟨{ buf := ?_, tdim := ?_, clear := dp.clear_done, fini := by rw [dp.fini_same]; exact inv.fini,
                  mism := ?_, tr := fun _ => dp.sync, fr := by intro h; exact absurd h (by simp) }, ?_⟩
        · exact { cw := dp.sync.cw, ch := dp.sync.ch, wok := dp.sync.wok, valid := dp.sync.valid }
        · have := applyAll_dims wd.t (wd.sw.s.draw c).2
          exact ⟨this.1.trans inv.tdim.1, this.2.trans inv.tdim.2⟩
        · intro h; exfalso; simp only [dp.w_same, dp.h_same] at h; omega
        · intro _; exact displays_of_drawPost hrw pre dp _ _ _ rfl
      · have hall := inv.fr hfr
        have dp := draw_post hrw hct (d := some wd.sw.s.style) pre (fun _ => sinv.of_allDirty hall)
          (by intro h; rw [inv.clear] at h; exact absurd h (by simp)) hsafe0
        simp only [if_true] at dp ⊢
        refine ⟨{ buf := ?_, tdim := ?_, clear := dp.clear_done, fini := by rw [dp.fini_same]; exact inv.fini,
                  mism := ?_, tr := fun _ => dp.sync, fr := by intro h; exact absurd h (by simp) }, ?_⟩
        · exact { cw := dp.sync.cw, ch := dp.sync.ch, wok := dp.sync.wok, valid := dp.sync.valid }
        · have := applyAll_dims wd.t (wd.sw.s.draw c).2
          exact ⟨this.1.trans inv.tdim.1, this.2.trans inv.tdim.2⟩
        · intro h; exfalso; simp only [dp.w_same, dp.h_same] at h; omega
        · intro _; exact displays_of_drawPost hrw pre dp _ _ _ rfl
  · -- the size change is noticed: resize + invalidate, then a full repaint of a display nothing is known about
    have hres := resize_diff wd.sw.s wd.sw.ttyw wd.sw.ttyh hsz
    generalize hs1 : Scr.mk wd.sw.ttyw wd.sw.ttyh (wd.sw.s.cells.resize wd.sw.ttyw wd.sw.ttyh).invalidate wd.sw.s.style
      wd.sw.s.curstyle (-1) (-1) wd.sw.s.cursorx wd.sw.s.cursory wd.sw.s.cursorStyle wd.sw.s.cursorColor wd.sw.s.clear
      wd.sw.s.fini wd.sw.s.cursorShaped wd.sw.s.cursorTinted = s1 at hres
    have hstep : wd.step c .show =
        { sw := { wd.sw with s := (s1.draw c).1 }, t := wd.t.applyAll (s1.draw c).2, trusted := true,
          d := some wd.sw.s.style, fresh := false } := by
      simp only [World.step, ScrW.step, Scr.show, hfini, hres, hsz, if_false, Bool.false_eq_true]
    rw [hstep] at hsafe
    have hsafe1 : CornerSafe c s1 := CornerSafe.of_draw hsafe
    rw [hstep, hres]
    have ok := resize_invalidate_ok hrw wd.sw.s wd.sw.ttyw wd.sw.ttyh inv.buf
    rw [hs1] at ok
    have e1 : s1.w = wd.sw.ttyw ∧ s1.h = wd.sw.ttyh ∧ s1.style = wd.sw.s.style ∧ s1.clear = false ∧ s1.fini = false := by
      rw [← hs1]; exact ⟨rfl, rfl, rfl, inv.clear, inv.fini⟩
    have hg : ∀ x y, wd.t.grid x y = .garbage := inv.mism (by omega)
    have sinv : SyncInv c (some s1.style) s1 wd.t :=
      SyncInv.fresh (by rw [inv.tdim.1, e1.1]) (by rw [inv.tdim.2, e1.2.1]) ok.1.cw ok.1.ch ok.1.wok ok.1.valid ok.2 hg
    have dp := draw_post hrw hct (d := some s1.style) sinv.bufOk (fun _ => sinv) (fun _ => ok.2) hsafe1
    simp only [if_true] at dp
    rw [e1.2.2.1] at dp
    refine ⟨{ buf := ?_, tdim := ?_, clear := dp.clear_done, fini := by rw [dp.fini_same]; exact e1.2.2.2.2,
              mism := ?_, tr := fun _ => dp.sync, fr := by intro h; exact absurd h (by simp) }, ?_⟩
    · exact { cw := dp.sync.cw, ch := dp.sync.ch, wok := dp.sync.wok, valid := dp.sync.valid }
    · have := applyAll_dims wd.t (s1.draw c).2
      exact ⟨this.1.trans inv.tdim.1, this.2.trans inv.tdim.2⟩
    · intro h; exfalso; simp only [dp.w_same, dp.h_same, e1.1, e1.2.1] at h; omega
    · intro _; exact displays_of_drawPost hrw sinv.bufOk dp _ _ _ rfl

end Tcell

namespace Tcell
open Buf

/-- the screen Sync / the resize branch hand to draw: buffer facts intact, everything dirty, sized like the tty -/
theorem prep_ok {c : DrawCfg} (hrw : RwOk c.rw) (s : Scr) (w h : Int) (hb : BufOkS c s) (hf : s.fini = false) (hc : s.clear = false) :
    (BufOkS c (s.prepSync (some (w, h))) ∧ AllDirty (s.prepSync (some (w, h))) ∧ (s.prepSync (some (w, h))).w = w ∧
      (s.prepSync (some (w, h))).h = h ∧ (s.prepSync (some (w, h))).style = s.style ∧ (s.prepSync (some (w, h))).fini = false ∧
      (s.prepSync (some (w, h))).clear = true) ∧
    (BufOkS c (s.prepResize (some (w, h))) ∧ AllDirty (s.prepResize (some (w, h))) ∧ (s.prepResize (some (w, h))).w = w ∧
      (s.prepResize (some (w, h))).h = h ∧ (s.prepResize (some (w, h))).style = s.style ∧
      (s.prepResize (some (w, h))).fini = false ∧ (s.prepResize (some (w, h))).clear = false) := by
  unfold Scr.prepSync Scr.prepResize
  simp only
  have b0 : BufOkS c s.forgetCursor := ⟨hb.cw, hb.ch, hb.wok, hb.valid⟩
  have b1 : BufOkS c (s.forgetCursor.resize (some (w, h))) ∧ (s.forgetCursor.resize (some (w, h))).w = w ∧
      (s.forgetCursor.resize (some (w, h))).h = h ∧ (s.forgetCursor.resize (some (w, h))).style = s.style ∧
      (s.forgetCursor.resize (some (w, h))).fini = false ∧ (s.forgetCursor.resize (some (w, h))).clear = false := by
    by_cases hsz : w = s.forgetCursor.w ∧ h = s.forgetCursor.h
    · rw [hsz.1, hsz.2, resize_same_size]; exact ⟨b0, rfl, rfl, rfl, hf, hc⟩
    · rw [resize_diff _ _ _ hsz]
      exact ⟨(resize_invalidate_ok hrw s.forgetCursor _ _ b0).1, rfl, rfl, rfl, hf, hc⟩
  generalize s.forgetCursor.resize (some (w, h)) = s1 at b1
  have ok1 := invalidate_ok s1 b1.1 true
  have ok2 := invalidate_ok s1 b1.1 s1.clear
  refine ⟨⟨?_, ?_, b1.2.1, b1.2.2.1, b1.2.2.2.1, b1.2.2.2.2.1, trivial⟩, ⟨?_, ?_, b1.2.1, b1.2.2.1, b1.2.2.2.1, b1.2.2.2.2.1, b1.2.2.2.2.2⟩⟩
  · exact ok1.1
  · exact ok1.2
  · exact ok2.1
  · exact ok2.2

/-- Sync: whatever the display held before, afterwards it is right and trusted -/
theorem sync_step_c {c : DrawCfg} (hrw : RwOk c.rw) (hct : c.Walk) {wd : World} (inv : WInv c wd)
    (hsafe : CornerSafe c (wd.step c .sync).sw.s) :
    WInv c (wd.step c .sync) ∧ Displays c (wd.sw.s.prepSync (some (wd.sw.ttyw, wd.sw.ttyh))).cells (wd.step c .sync) ∧
    (wd.step c .sync).trusted = true ∧
    (wd.step c .sync).d = some (wd.step c .sync).sw.s.style := by
  have hfini := inv.fini
  have ok := (prep_ok hrw wd.sw.s wd.sw.ttyw wd.sw.ttyh inv.buf inv.fini inv.clear).1
  generalize hs2 : wd.sw.s.prepSync (some (wd.sw.ttyw, wd.sw.ttyh)) = s2 at ok
  obtain ⟨okb, okd, e1, e2, e3, e4, e5⟩ := ok
  have hstep : wd.step c .sync =
      { sw := { wd.sw with s := (s2.draw c).1 }, t := wd.t.applyAll (s2.draw c).2, trusted := true,
        d := some wd.sw.s.style, fresh := false } := by
    simp only [World.step, ScrW.step, Scr.sync, hfini, Bool.false_eq_true, if_false, hs2]
  rw [hstep] at hsafe
  have hsafe2 : CornerSafe c s2 := CornerSafe.of_draw hsafe
  rw [hstep]
  have pre : BufOk c s2 wd.t :=
    { tw := by rw [inv.tdim.1, e1], th := by rw [inv.tdim.2, e2], cw := okb.cw, ch := okb.ch, wok := okb.wok, valid := okb.valid }
  have dp := draw_post hrw hct (d := some s2.style) pre
    (by intro h; rw [e5] at h; exact absurd h (by simp)) (fun _ => okd) hsafe2
  simp only [if_true] at dp
  rw [e3] at dp
  refine ⟨{ buf := ?_, tdim := ?_, clear := dp.clear_done, fini := by rw [dp.fini_same]; exact e4,
            mism := ?_, tr := fun _ => dp.sync, fr := by intro h; exact absurd h (by simp) }, ?_, rfl, ?_⟩
  · exact { cw := dp.sync.cw, ch := dp.sync.ch, wok := dp.sync.wok, valid := dp.sync.valid }
  · have := applyAll_dims wd.t (s2.draw c).2
    exact ⟨this.1.trans inv.tdim.1, this.2.trans inv.tdim.2⟩
  · intro h; exfalso; simp only [dp.w_same, dp.h_same, e1, e2] at h; omega
  · exact displays_of_drawPost hrw pre dp _ _ _ rfl
  · simp only [dp.style_same, e3]

/-- a window resize that reaches the library (mainLoop's resize branch): afterwards the display is right and trusted -/
theorem notify_step_c {c : DrawCfg} (hrw : RwOk c.rw) (hct : c.Walk) {wd : World} (inv : WInv c wd) (w h : Int)
    (hsafe : CornerSafe c (wd.step c (.ttyResizeNotify w h)).sw.s) :
    WInv c (wd.step c (.ttyResizeNotify w h)) ∧
    Displays c (wd.sw.s.prepResize (some (w, h))).cells (wd.step c (.ttyResizeNotify w h)) ∧
    (wd.step c (.ttyResizeNotify w h)).trusted = true ∧
    (wd.step c (.ttyResizeNotify w h)).d = some (wd.step c (.ttyResizeNotify w h)).sw.s.style := by
  have ok := (prep_ok hrw wd.sw.s w h inv.buf inv.fini inv.clear).2
  generalize hs2 : wd.sw.s.prepResize (some (w, h)) = s2 at ok
  obtain ⟨okb, okd, e1, e2, e3, e4, e5⟩ := ok
  have hstep : wd.step c (.ttyResizeNotify w h) =
      { sw := { s := (s2.draw c).1, ttyw := w, ttyh := h }, t := (wd.t.resized w h).applyAll (s2.draw c).2, trusted := true,
        d := some wd.sw.s.style, fresh := false } := by
    simp only [World.step, ScrW.step, Scr.onResize, hs2]
  rw [hstep] at hsafe
  have hsafe2 : CornerSafe c s2 := CornerSafe.of_draw hsafe
  rw [hstep]
  have sinv : SyncInv c (some s2.style) s2 (wd.t.resized w h) :=
    SyncInv.fresh (by rw [e1]; rfl) (by rw [e2]; rfl) okb.cw okb.ch okb.wok okb.valid okd (fun _ _ => rfl)
  have dp := draw_post hrw hct (d := some s2.style) sinv.bufOk (fun _ => sinv) (fun _ => okd) hsafe2
  simp only [if_true] at dp
  rw [e3] at dp
  refine ⟨{ buf := ?_, tdim := ?_, clear := dp.clear_done, fini := by rw [dp.fini_same]; exact e4,
            mism := ?_, tr := fun _ => dp.sync, fr := by intro h; exact absurd h (by simp) }, ?_, rfl, ?_⟩
  · exact { cw := dp.sync.cw, ch := dp.sync.ch, wok := dp.sync.wok, valid := dp.sync.valid }
  · have := applyAll_dims (wd.t.resized w h) (s2.draw c).2
    exact ⟨this.1, this.2⟩
  · intro hh; exfalso; simp only [dp.w_same, dp.h_same, e1, e2] at hh; omega
  · exact displays_of_drawPost hrw sinv.bufOk dp _ _ _ rfl
  · simp only [dp.style_same, e3]

end Tcell

namespace Tcell
open Buf

theorem winv_bufop {c : DrawCfg} {wd : World} (inv : WInv c wd) (b' : Buf) (hb : BufStep c.rw wd.sw.s.cells b')
    (hblank : c.guardLocked = true → ∀ i j, wd.sw.s.cells.inRange i j → (b'.cells i j).lastMain ≠ 0 →
      BlankOk wd.sw.s.cells i j → BlankOk b' i j) :
    WInv c { wd with sw := { wd.sw with s := { wd.sw.s with cells := b' } } } :=
  { buf := { cw := by simp only; rw [hb.w]; exact inv.buf.cw, ch := by simp only; rw [hb.h]; exact inv.buf.ch,
             wok := hb.wok inv.buf.wok, valid := ⟨inv.buf.valid.1, hb.valid inv.buf.valid.2⟩ },
    tdim := inv.tdim, clear := inv.clear, fini := inv.fini, mism := inv.mism,
    tr := fun h => (inv.tr h).bufStep hb rfl rfl rfl hblank,
    fr := fun h x y hr => hb.dirty x y (inv.fr h x y (by simpa [inRange_iff, hb.w, hb.h] using hr)) }

/-- every operation preserves the world invariant -/
theorem step_inv_c {c : DrawCfg} (hrw : RwOk c.rw) (hct : c.Walk) {wd : World} (inv : WInv c wd) (op : ScrOp)
    (hv : op.Valid c) (hsafe : wd.SafeAt c op) : WInv c (wd.step c op) := by
  cases op with
  | setContent x y m comb st =>
    exact winv_bufop inv _ (bufStep_setContent c.rw _ x y m comb st hv)
      (fun _ i j _ hm hb => setContent_blank c.rw _ x y m comb st i j hm hb)
  | fill r st =>
    exact winv_bufop inv _ (bufStep_fillV c.fillZW c.rw hrw.space _ r st hv.1 hv.2) (fun _ i j _ _ _ => fillV_blank c.fillZW c.rw _ r st i j)
  | lockRegion x y w h lock =>
    cases hg : c.guardLocked
    · have e : wd.step c (.lockRegion x y w h lock) =
          { wd with sw := { wd.sw with s := { wd.sw.s with cells := lockRows wd.sw.s.cells x y w lock h.toNat } } } := by
        simp [World.step, ScrW.step, hg, ATerm.applyAll]
      rw [e]
      exact winv_bufop inv _ (bufStep_lockRows c.rw _ x y w lock _) (by intro h'; rw [hg] at h'; exact absurd h' (by decide))
    · have e : wd.step c (.lockRegion x y w h lock) =
          { wd with sw := { wd.sw with s := { wd.sw.s with cells := lockRowsG wd.sw.s.cells x y w lock h.toNat } } } := by
        simp [World.step, ScrW.step, hg, ATerm.applyAll]
      rw [e]
      refine winv_bufop inv _ (bufStep_lockRowsG c.rw _ x y w lock _) ?_
      intro _ i j hr hm hb
      cases lock
      · exact lockRowsG_false_blank _ x y w _ i j hr hm hb
      · exact lockRowsG_true_blank _ x y w i j hb _
  | setStyle st =>
    have hf := inv.fini
    simp only [World.step, ScrW.step, hf, Bool.false_eq_true, if_false, ATerm.applyAll, List.foldl_nil]
    exact { buf := { cw := inv.buf.cw, ch := inv.buf.ch, wok := inv.buf.wok, valid := ⟨hv, inv.buf.valid.2⟩ },
            tdim := inv.tdim, clear := inv.clear, fini := rfl, mism := inv.mism,
            tr := fun h =>
              let i := inv.tr h
              { tw := i.tw, th := i.th, cw := i.cw, ch := i.ch, wok := i.wok, valid := ⟨hv, i.valid.2⟩, g1 := i.g1, g2 := i.g2,
                wf := i.wf, g3 := i.g3 },
            fr := inv.fr }
  | showCursor x y =>
    exact { buf := ⟨inv.buf.cw, inv.buf.ch, inv.buf.wok, inv.buf.valid⟩, tdim := inv.tdim, clear := inv.clear, fini := inv.fini,
            mism := inv.mism, tr := fun h => (inv.tr h).congr rfl rfl rfl rfl rfl rfl rfl, fr := inv.fr }
  | setCursorStyle cs cc =>
    exact { buf := ⟨inv.buf.cw, inv.buf.ch, inv.buf.wok, inv.buf.valid⟩, tdim := inv.tdim, clear := inv.clear, fini := inv.fini,
            mism := inv.mism, tr := fun h => (inv.tr h).congr rfl rfl rfl rfl rfl rfl rfl, fr := inv.fr }
  | «show» => exact (show_step_c hrw hct inv hsafe).1
  | sync => exact (sync_step_c hrw hct inv hsafe).1
  | ttyResizeQuiet w h =>
    exact { buf := inv.buf, tdim := ⟨rfl, rfl⟩, clear := inv.clear, fini := inv.fini, mism := fun _ _ _ => rfl,
            tr := by intro h; exact absurd h (by simp [World.step]), fr := inv.fr }
  | ttyResizeNotify w h => exact (notify_step_c hrw hct inv w h hsafe).1
  | corrupt =>
    exact { buf := inv.buf, tdim := inv.tdim, clear := inv.clear, fini := inv.fini, mism := fun _ _ _ => rfl,
            tr := by intro h; exact absurd h (by simp [World.step]), fr := inv.fr }

theorem init_inv {c : DrawCfg} (hrw : RwOk c.rw) (w h : Int) : WInv c (World.init w h) := by
  refine { buf := { cw := by simp [World.init, ScrW.init, resize_w], ch := by simp [World.init, ScrW.init, resize_h],
                    wok := ?_, valid := ⟨by simp [World.init, ScrW.init, attrInvalid], ?_⟩ },
           tdim := ⟨rfl, rfl⟩, clear := rfl, fini := rfl, mism := fun h => by simp [World.init, ScrW.init] at h,
           tr := ?_, fr := ?_ }
  · intro x y
    simp only [World.init, ScrW.init]
    by_cases hh : Buf.empty.h = h ∧ Buf.empty.w = w
    · obtain ⟨rfl, rfl⟩ := hh; rw [resize_same]; left; simp [Buf.empty, hrw.zero]
    · rw [resize_cells _ _ _ _ _ hh]; split <;> (left; simp [Buf.empty, Cell.carry, hrw.zero])
  · intro x y
    simp only [World.init, ScrW.init]
    by_cases hh : Buf.empty.h = h ∧ Buf.empty.w = w
    · obtain ⟨rfl, rfl⟩ := hh; rw [resize_same]; simp [Buf.empty, attrInvalid]
    · rw [resize_cells _ _ _ _ _ hh]; split <;> simp [Buf.empty, Cell.carry, attrInvalid]
  · intro _
    have hall : AllDirty (World.init w h).sw.s := by
      intro x y _
      simp only [World.init, ScrW.init]
      by_cases hh : Buf.empty.h = h ∧ Buf.empty.w = w
      · obtain ⟨rfl, rfl⟩ := hh; rw [resize_same]; rfl
      · rw [resize_cells _ _ _ _ _ hh]; split <;> rfl
    refine SyncInv.fresh rfl rfl (by simp [World.init, ScrW.init, resize_w]) (by simp [World.init, ScrW.init, resize_h])
      ?_ ⟨by simp [World.init, ScrW.init, attrInvalid], ?_⟩ hall (fun _ _ => rfl)
    · intro x y
      simp only [World.init, ScrW.init]
      by_cases hh : Buf.empty.h = h ∧ Buf.empty.w = w
      · obtain ⟨rfl, rfl⟩ := hh; rw [resize_same]; left; simp [Buf.empty, hrw.zero]
      · rw [resize_cells _ _ _ _ _ hh]; split <;> (left; simp [Buf.empty, Cell.carry, hrw.zero])
    · intro x y
      simp only [World.init, ScrW.init]
      by_cases hh : Buf.empty.h = h ∧ Buf.empty.w = w
      · obtain ⟨rfl, rfl⟩ := hh; rw [resize_same]; simp [Buf.empty, attrInvalid]
      · rw [resize_cells _ _ _ _ _ hh]; split <;> simp [Buf.empty, Cell.carry, attrInvalid]
  · intro _ x y _
    simp only [World.init, ScrW.init]
    by_cases hh : Buf.empty.h = h ∧ Buf.empty.w = w
    · obtain ⟨rfl, rfl⟩ := hh; rw [resize_same]; rfl
    · rw [resize_cells _ _ _ _ _ hh]; split <;> rfl

/-- every world reachable from Init by valid operations satisfies the invariant — on corner-trick terminals as long as
the side condition held at every draw -/
theorem reach_inv_c {c : DrawCfg} (hrw : RwOk c.rw) (hct : c.Walk) (w h : Int) (ops : List ScrOp)
    (hv : ∀ op ∈ ops, op.Valid c) (hsafe : World.SafeRun c (World.init w h) ops) : WInv c ((World.init w h).run c ops) := by
  suffices H : ∀ wd, WInv c wd → World.SafeRun c wd ops → WInv c (wd.run c ops) from H _ (init_inv hrw w h) hsafe
  clear hsafe
  induction ops with
  | nil => intro wd h _; exact h
  | cons op ops ih =>
    intro wd hw hs
    simp only [World.run, List.foldl_cons]
    exact ih (fun o ho => hv o (List.mem_cons_of_mem _ ho)) _ (step_inv_c hrw hct hw op (hv op (List.mem_cons_self ..)) hs.1) hs.2

/-! the same for the configurations without the corner trick (no side condition) -/

theorem show_step {c : DrawCfg} (hrw : RwOk c.rw) (hct : c.Plain) {wd : World} (inv : WInv c wd) :
    WInv c (wd.step c .show) ∧
    ((wd.trusted = true ∨ ¬ (wd.sw.ttyw = wd.sw.s.w ∧ wd.sw.ttyh = wd.sw.s.h)) →
      Displays c (wd.sw.s.resize (some (wd.sw.ttyw, wd.sw.ttyh))).cells (wd.step c .show)) :=
  show_step_c hrw hct.walk inv (CornerSafe.of_plain hct _)

theorem sync_step {c : DrawCfg} (hrw : RwOk c.rw) (hct : c.Plain) {wd : World} (inv : WInv c wd) :
    WInv c (wd.step c .sync) ∧ Displays c (wd.sw.s.prepSync (some (wd.sw.ttyw, wd.sw.ttyh))).cells (wd.step c .sync) ∧
    (wd.step c .sync).trusted = true ∧
    (wd.step c .sync).d = some (wd.step c .sync).sw.s.style :=
  sync_step_c hrw hct.walk inv (CornerSafe.of_plain hct _)

theorem notify_step {c : DrawCfg} (hrw : RwOk c.rw) (hct : c.Plain) {wd : World} (inv : WInv c wd) (w h : Int) :
    WInv c (wd.step c (.ttyResizeNotify w h)) ∧
    Displays c (wd.sw.s.prepResize (some (w, h))).cells (wd.step c (.ttyResizeNotify w h)) ∧
    (wd.step c (.ttyResizeNotify w h)).trusted = true ∧
    (wd.step c (.ttyResizeNotify w h)).d = some (wd.step c (.ttyResizeNotify w h)).sw.s.style :=
  notify_step_c hrw hct.walk inv w h (CornerSafe.of_plain hct _)

theorem step_inv {c : DrawCfg} (hrw : RwOk c.rw) (hct : c.Plain) {wd : World} (inv : WInv c wd) (op : ScrOp)
    (hv : op.Valid c) : WInv c (wd.step c op) :=
  step_inv_c hrw hct.walk inv op hv (World.SafeAt.of_plain hct wd op)

theorem reach_inv {c : DrawCfg} (hrw : RwOk c.rw) (hct : c.Plain) (w h : Int) (ops : List ScrOp)
    (hv : ∀ op ∈ ops, op.Valid c) : WInv c ((World.init w h).run c ops) :=
  reach_inv_c hrw hct.walk w h ops hv (World.SafeRun.of_plain hct ops _)

end Tcell

namespace Tcell
open Buf

/-- which cells a Show sends payload to, when the display is trusted and the size is unchanged: cells that were dirty and
visited, and — bottom-right corner trick — the second to last column of the last row and the cell covering it when the
corner cell is repainted (`CornerWrite`) -/
theorem show_writes_c {c : DrawCfg} (hrw : RwOk c.rw) (hct : c.Walk) {wd : World} (inv : WInv c wd)
    (hsafe : CornerSafe c (wd.step c .show).sw.s)
    (htr : wd.trusted = true) (hsz : wd.sw.ttyw = wd.sw.s.w ∧ wd.sw.ttyh = wd.sw.s.h) :
    ∃ ws, (wd.step c .show).t.writes = ws ++ wd.t.writes ∧
      ∀ p ∈ ws, (wd.sw.s.cells.dirty p.1 p.2 = true ∧ visitedG c wd.sw.s.cells p.1 p.2 = true) ∨
        CornerWrite c wd.sw.s.cells p := by
  have hfini := inv.fini
  have hstep : wd.step c .show =
      { sw := { wd.sw with s := (wd.sw.s.draw c).1 }, t := wd.t.applyAll (wd.sw.s.draw c).2, trusted := wd.trusted,
        d := if wd.fresh then some wd.sw.s.style else if wd.d = some wd.sw.s.style then wd.d else none, fresh := false } := by
    simp only [World.step, ScrW.step, Scr.show, hfini, hsz, resize_same_size, and_self, if_true, Bool.false_eq_true, if_false]
  rw [hstep] at hsafe ⊢
  have pre : BufOk c wd.sw.s wd.t :=
    { tw := by rw [inv.tdim.1, hsz.1], th := by rw [inv.tdim.2, hsz.2], cw := inv.buf.cw, ch := inv.buf.ch,
      wok := inv.buf.wok, valid := inv.buf.valid }
  have dp := draw_post hrw hct (d := wd.d) pre (fun _ => inv.tr htr) (by intro h; rw [inv.clear] at h; exact absurd h (by simp))
    (CornerSafe.of_draw hsafe)
  exact dp.writes

theorem show_writes {c : DrawCfg} (hrw : RwOk c.rw) (hct : c.Plain) {wd : World} (inv : WInv c wd)
    (htr : wd.trusted = true) (hsz : wd.sw.ttyw = wd.sw.s.w ∧ wd.sw.ttyh = wd.sw.s.h) :
    ∃ ws, (wd.step c .show).t.writes = ws ++ wd.t.writes ∧
      ∀ p ∈ ws, wd.sw.s.cells.dirty p.1 p.2 = true ∧ visitedG c wd.sw.s.cells p.1 p.2 = true := by
  obtain ⟨ws, h1, h2⟩ := show_writes_c hrw hct.walk inv (CornerSafe.of_plain hct _) htr hsz
  refine ⟨ws, h1, fun p hp => ?_⟩
  rcases h2 p hp with h | h
  · exact h
  · have := h.1; rw [hct.ct] at this; exact absurd this (by decide)

end Tcell

namespace Tcell
open Buf

/-- which cells the payloads of a Show occupy (addressed cells and right halves of two-column glyphs, and the cells an
inserted character shifts), when the display is trusted and the size is unchanged: with the locked-neighbour guard
compiled in none of them is locked -/
theorem show_covers_c {c : DrawCfg} (hrw : RwOk c.rw) (hct : c.Walk) (hg : c.guardLocked = true) {wd : World} (inv : WInv c wd)
    (hsafe : CornerSafe c (wd.step c .show).sw.s)
    (htr : wd.trusted = true) (hsz : wd.sw.ttyw = wd.sw.s.w ∧ wd.sw.ttyh = wd.sw.s.h) :
    ∃ cs, (wd.step c .show).t.covered = cs ++ wd.t.covered ∧ ∀ p ∈ cs, wd.sw.s.cells.locked p.1 p.2 = false := by
  have hfini := inv.fini
  have hstep : wd.step c .show =
      { sw := { wd.sw with s := (wd.sw.s.draw c).1 }, t := wd.t.applyAll (wd.sw.s.draw c).2, trusted := wd.trusted,
        d := if wd.fresh then some wd.sw.s.style else if wd.d = some wd.sw.s.style then wd.d else none, fresh := false } := by
    simp only [World.step, ScrW.step, Scr.show, hfini, hsz, resize_same_size, and_self, if_true, Bool.false_eq_true, if_false]
  rw [hstep] at hsafe ⊢
  have pre : BufOk c wd.sw.s wd.t :=
    { tw := by rw [inv.tdim.1, hsz.1], th := by rw [inv.tdim.2, hsz.2], cw := inv.buf.cw, ch := inv.buf.ch,
      wok := inv.buf.wok, valid := inv.buf.valid }
  have dp := draw_post hrw hct (d := wd.d) pre (fun _ => inv.tr htr) (by intro h; rw [inv.clear] at h; exact absurd h (by simp))
    (CornerSafe.of_draw hsafe)
  obtain ⟨cs, h1, h2⟩ := dp.covers
  exact ⟨cs, h1, h2 hg⟩

theorem show_covers {c : DrawCfg} (hrw : RwOk c.rw) (hct : c.Plain) (hg : c.guardLocked = true) {wd : World} (inv : WInv c wd)
    (htr : wd.trusted = true) (hsz : wd.sw.ttyw = wd.sw.s.w ∧ wd.sw.ttyh = wd.sw.s.h) :
    ∃ cs, (wd.step c .show).t.covered = cs ++ wd.t.covered ∧ ∀ p ∈ cs, wd.sw.s.cells.locked p.1 p.2 = false :=
  show_covers_c hrw hct.walk hg inv (CornerSafe.of_plain hct _) htr hsz

/-- the side condition stated on the screen a Show (no size change) leaves is the side condition on the screen it starts from -/
theorem cornerSafe_before_show {c : DrawCfg} {wd : World} (inv : WInv c wd)
    (hsz : wd.sw.ttyw = wd.sw.s.w ∧ wd.sw.ttyh = wd.sw.s.h) (hsafe : CornerSafe c (wd.step c .show).sw.s) :
    CornerSafe c wd.sw.s := by
  have hfini := inv.fini
  have hstep : (wd.step c .show).sw.s = (wd.sw.s.draw c).1 := by
    simp only [World.step, ScrW.step, Scr.show, hfini, hsz, resize_same_size, and_self, if_true, Bool.false_eq_true, if_false]
  rw [hstep] at hsafe
  exact CornerSafe.of_draw hsafe

end Tcell
