/-
Helper lemmas for C20 (ViewPort steps and the BoxLayout share computation).
-/
import Tcell.Model.Views
namespace Tcell.Views
namespace ViewPort

/-! ### field projections of the small steps -/

section proj
variable (v : ViewPort) (x y : Int)

@[simp] theorem grow_viewx : (v.grow x y).viewx = v.viewx := by simp only [grow]; split <;> split <;> rfl
@[simp] theorem grow_viewy : (v.grow x y).viewy = v.viewy := by simp only [grow]; split <;> split <;> rfl
@[simp] theorem grow_physx : (v.grow x y).physx = v.physx := by simp only [grow]; split <;> split <;> rfl
@[simp] theorem grow_physy : (v.grow x y).physy = v.physy := by simp only [grow]; split <;> split <;> rfl
@[simp] theorem grow_width : (v.grow x y).width = v.width := by simp only [grow]; split <;> split <;> rfl
@[simp] theorem grow_height : (v.grow x y).height = v.height := by simp only [grow]; split <;> split <;> rfl
@[simp] theorem grow_locked : (v.grow x y).locked = v.locked := by simp only [grow]; split <;> split <;> rfl
@[simp] theorem grow_hasView : (v.grow x y).hasView = v.hasView := by simp only [grow]; split <;> split <;> rfl

@[simp] theorem vx_viewy : v.validateViewX.viewy = v.viewy := by simp only [validateViewX]; split <;> split <;> rfl
@[simp] theorem vx_limx : v.validateViewX.limx = v.limx := by simp only [validateViewX]; split <;> split <;> rfl
@[simp] theorem vx_limy : v.validateViewX.limy = v.limy := by simp only [validateViewX]; split <;> split <;> rfl
@[simp] theorem vx_width : v.validateViewX.width = v.width := by simp only [validateViewX]; split <;> split <;> rfl
@[simp] theorem vx_height : v.validateViewX.height = v.height := by simp only [validateViewX]; split <;> split <;> rfl
@[simp] theorem vx_physx : v.validateViewX.physx = v.physx := by simp only [validateViewX]; split <;> split <;> rfl
@[simp] theorem vx_physy : v.validateViewX.physy = v.physy := by simp only [validateViewX]; split <;> split <;> rfl

@[simp] theorem vy_viewx : v.validateViewY.viewx = v.viewx := by simp only [validateViewY]; split <;> split <;> rfl
@[simp] theorem vy_limx : v.validateViewY.limx = v.limx := by simp only [validateViewY]; split <;> split <;> rfl
@[simp] theorem vy_limy : v.validateViewY.limy = v.limy := by simp only [validateViewY]; split <;> split <;> rfl
@[simp] theorem vy_width : v.validateViewY.width = v.width := by simp only [validateViewY]; split <;> split <;> rfl
@[simp] theorem vy_height : v.validateViewY.height = v.height := by simp only [validateViewY]; split <;> split <;> rfl
@[simp] theorem vy_physx : v.validateViewY.physx = v.physx := by simp only [validateViewY]; split <;> split <;> rfl
@[simp] theorem vy_physy : v.validateViewY.physy = v.physy := by simp only [validateViewY]; split <;> split <;> rfl

@[simp] theorem mvX_viewy : (v.mvX x).viewy = v.viewy := by simp only [mvX]; split <;> split <;> rfl
@[simp] theorem mvX_limx : (v.mvX x).limx = v.limx := by simp only [mvX]; split <;> split <;> rfl
@[simp] theorem mvX_limy : (v.mvX x).limy = v.limy := by simp only [mvX]; split <;> split <;> rfl
@[simp] theorem mvX_width : (v.mvX x).width = v.width := by simp only [mvX]; split <;> split <;> rfl
@[simp] theorem mvX_height : (v.mvX x).height = v.height := by simp only [mvX]; split <;> split <;> rfl

@[simp] theorem mvY_viewx : (v.mvY y).viewx = v.viewx := by simp only [mvY]; split <;> split <;> rfl
@[simp] theorem mvY_limx : (v.mvY y).limx = v.limx := by simp only [mvY]; split <;> split <;> rfl
@[simp] theorem mvY_limy : (v.mvY y).limy = v.limy := by simp only [mvY]; split <;> split <;> rfl
@[simp] theorem mvY_width : (v.mvY y).width = v.width := by simp only [mvY]; split <;> split <;> rfl
@[simp] theorem mvY_height : (v.mvY y).height = v.height := by simp only [mvY]; split <;> split <;> rfl
end proj

/-- the value ValidateViewX leaves in `viewx` -/
theorem vx_viewx (v : ViewPort) :
    v.validateViewX.viewx = (if (if v.viewx > v.limx - v.width then v.limx - v.width else v.viewx) < 0 then 0
      else (if v.viewx > v.limx - v.width then v.limx - v.width else v.viewx)) := by
  simp only [validateViewX]; split <;> split <;> simp_all

theorem vy_viewy (v : ViewPort) :
    v.validateViewY.viewy = (if (if v.viewy > v.limy - v.height then v.limy - v.height else v.viewy) < 0 then 0
      else (if v.viewy > v.limy - v.height then v.limy - v.height else v.viewy)) := by
  simp only [validateViewY]; split <;> split <;> simp_all

theorem mvX_viewx (v : ViewPort) (x : Int) :
    (v.mvX x).viewx =
      (let a := if x < v.limx ∧ x ≥ v.viewx + v.width then x - (v.width - 1) else v.viewx
       if x ≥ 0 ∧ x < a then x else a) := by
  simp only [mvX]; split <;> split <;> simp_all

theorem mvY_viewy (v : ViewPort) (y : Int) :
    (v.mvY y).viewy =
      (let a := if y < v.limy ∧ y ≥ v.viewy + v.height then y - (v.height - 1) else v.viewy
       if y ≥ 0 ∧ y < a then y else a) := by
  simp only [mvY]; split <;> split <;> simp_all

end ViewPort
end Tcell.Views
