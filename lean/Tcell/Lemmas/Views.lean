/-
Helper lemmas for C20 (ViewPort steps and the BoxLayout share computation).
-/
import Tcell.Model.Views
namespace Tcell.Views
namespace ViewPort

/-! ### field projections of the small steps -/

section proj
variable (v : ViewPort) (x y : Int)

@[simp] theorem grow_viewx : (v.grow x y).viewx = v.viewx := by simp only [grow]; split <;> split <;> rfl
@[simp] theorem grow_viewy : (v.grow x y).viewy = v.viewy := by simp only [grow]; split <;> split <;> rfl
@[simp] theorem grow_physx : (v.grow x y).physx = v.physx := by simp only [grow]; split <;> split <;> rfl
@[simp] theorem grow_physy : (v.grow x y).physy = v.physy := by simp only [grow]; split <;> split <;> rfl
@[simp] theorem grow_width : (v.grow x y).width = v.width := by simp only [grow]; split <;> split <;> rfl
@[simp] theorem grow_height : (v.grow x y).height = v.height := by simp only [grow]; split <;> split <;> rfl
@[simp] theorem grow_locked : (v.grow x y).locked = v.locked := by simp only [grow]; split <;> split <;> rfl
@[simp] theorem grow_hasView : (v.grow x y).hasView = v.hasView := by simp only [grow]; split <;> split <;> rfl

@[simp] theorem vx_viewy : v.validateViewX.viewy = v.viewy := by simp only [validateViewX]; split <;> split <;> rfl
@[simp] theorem vx_limx : v.validateViewX.limx = v.limx := by simp only [validateViewX]; split <;> split <;> rfl
@[simp] theorem vx_limy : v.validateViewX.limy = v.limy := by simp only [validateViewX]; split <;> split <;> rfl
@[simp] theorem vx_width : v.validateViewX.width = v.width := by simp only [validateViewX]; split <;> split <;> rfl
@[simp] theorem vx_height : v.validateViewX.height = v.height := by simp only [validateViewX]; split <;> split <;> rfl
@[simp] theorem vx_physx : v.validateViewX.physx = v.physx := by simp only [validateViewX]; split <;> split <;> rfl
@[simp] theorem vx_physy : v.validateViewX.physy = v.physy := by simp only [validateViewX]; split <;> split <;> rfl

@[simp] theorem vy_viewx : v.validateViewY.viewx = v.viewx := by simp only [validateViewY]; split <;> split <;> rfl
@[simp] theorem vy_limx : v.validateViewY.limx = v.limx := by simp only [validateViewY]; split <;> split <;> rfl
@[simp] theorem vy_limy : v.validateViewY.limy = v.limy := by simp only [validateViewY]; split <;> split <;> rfl
@[simp] theorem vy_width : v.validateViewY.width = v.width := by simp only [validateViewY]; split <;> split <;> rfl
@[simp] theorem vy_height : v.validateViewY.height = v.height := by simp only [validateViewY]; split <;> split <;> rfl
@[simp] theorem vy_physx : v.validateViewY.physx = v.physx := by simp only [validateViewY]; split <;> split <;> rfl
@[simp] theorem vy_physy : v.validateViewY.physy = v.physy := by simp only [validateViewY]; split <;> split <;> rfl

@[simp] theorem mvX_viewy : (v.mvX x).viewy = v.viewy := by simp only [mvX]; split <;> split <;> rfl
@[simp] theorem mvX_limx : (v.mvX x).limx = v.limx := by simp only [mvX]; split <;> split <;> rfl
@[simp] theorem mvX_limy : (v.mvX x).limy = v.limy := by simp only [mvX]; split <;> split <;> rfl
@[simp] theorem mvX_width : (v.mvX x).width = v.width := by simp only [mvX]; split <;> split <;> rfl
@[simp] theorem mvX_height : (v.mvX x).height = v.height := by simp only [mvX]; split <;> split <;> rfl

@[simp] theorem mvY_viewx : (v.mvY y).viewx = v.viewx := by simp only [mvY]; split <;> split <;> rfl
@[simp] theorem mvY_limx : (v.mvY y).limx = v.limx := by simp only [mvY]; split <;> split <;> rfl
@[simp] theorem mvY_limy : (v.mvY y).limy = v.limy := by simp only [mvY]; split <;> split <;> rfl
@[simp] theorem mvY_width : (v.mvY y).width = v.width := by simp only [mvY]; split <;> split <;> rfl
@[simp] theorem mvY_height : (v.mvY y).height = v.height := by simp only [mvY]; split <;> split <;> rfl
end proj

/-- the value ValidateViewX leaves in `viewx` -/
theorem vx_viewx (v : ViewPort) :
    v.validateViewX.viewx = (if (if v.viewx > v.limx - v.width then v.limx - v.width else v.viewx) < 0 then 0
      else (if v.viewx > v.limx - v.width then v.limx - v.width else v.viewx)) := by
  simp only [validateViewX]; split <;> split <;> simp_all

theorem vy_viewy (v : ViewPort) :
    v.validateViewY.viewy = (if (if v.viewy > v.limy - v.height then v.limy - v.height else v.viewy) < 0 then 0
      else (if v.viewy > v.limy - v.height then v.limy - v.height else v.viewy)) := by
  simp only [validateViewY]; split <;> split <;> simp_all

theorem mvX_viewx (v : ViewPort) (x : Int) :
    (v.mvX x).viewx =
      (let a := if x < v.limx ∧ x ≥ v.viewx + v.width then x - (v.width - 1) else v.viewx
       if x ≥ 0 ∧ x < a then x else a) := by
  simp only [mvX]; split <;> split <;> simp_all

theorem mvY_viewy (v : ViewPort) (y : Int) :
    (v.mvY y).viewy =
      (let a := if y < v.limy ∧ y ≥ v.viewy + v.height then y - (v.height - 1) else v.viewy
       if y ≥ 0 ∧ y < a then y else a) := by
  simp only [mvY]; split <;> split <;> simp_all

end ViewPort
end Tcell.Views

namespace Tcell.Views
open LayoutNum

/-! ### running sums and `placeAlong` -/

@[simp] theorem sumInt_nil : sumInt [] = 0 := rfl
@[simp] theorem sumInt_cons (a : Int) (l : List Int) : sumInt (a :: l) = a + sumInt l := by simp [sumInt]

theorem sumInt_nonneg : ∀ (l : List Int), (∀ e ∈ l, 0 ≤ e) → 0 ≤ sumInt l
  | [], _ => by simp
  | a :: l, h => by
    have := sumInt_nonneg l (fun e he => h e (List.mem_cons_of_mem _ he))
    have := h a (List.mem_cons_self)
    simp; omega

/-- prefix sums of non-negative extents: the end of slot i is at or before the start of any later slot -/
theorem sum_take_step : ∀ (es : List Int) (i j : Nat) (e : Int), (∀ e ∈ es, 0 ≤ e) → i < j → es[i]? = some e →
    sumInt (es.take i) + e ≤ sumInt (es.take j)
  | [], i, j, e, _, _, h => by simp at h
  | a :: l, 0, j + 1, e, hn, _, h => by
    simp at h; subst h
    have := sumInt_nonneg (l.take j) (fun e he => hn e (List.mem_cons_of_mem _ (List.mem_of_mem_take he)))
    simp; omega
  | a :: l, i + 1, j + 1, e, hn, hij, h => by
    have := sum_take_step l i j e (fun e he => hn e (List.mem_cons_of_mem _ he)) (by omega) (by simpa using h)
    simp; omega
  | a :: l, i + 1, 0, e, _, hij, _ => by omega

theorem sum_take_nonneg (es : List Int) (i : Nat) (hn : ∀ e ∈ es, 0 ≤ e) : 0 ≤ sumInt (es.take i) :=
  sumInt_nonneg _ (fun e he => hn e (List.mem_of_mem_take he))

theorem sum_take_le_total (es : List Int) (i : Nat) (e : Int) (hn : ∀ e ∈ es, 0 ≤ e) (h : es[i]? = some e) :
    sumInt (es.take i) + e ≤ sumInt es := by
  have hi : i < es.length := by
    rcases Nat.lt_or_ge i es.length with h' | h'
    · exact h'
    · simp [List.getElem?_eq_none h'] at h
  have := sum_take_step es i es.length e hn hi h
  simpa using this

/-- the place of slot i: position = start + sum of the extents before it, extent as given -/
def slot (horizontal : Bool) (vw vh s e : Int) : Place :=
  if horizontal then { x := s, y := 0, w := e, h := vh } else { x := 0, y := s, w := vw, h := e }

theorem placeAlong_get (hz : Bool) (vw vh : Int) : ∀ (es : List Int) (pos : Int) (i : Nat) (e : Int),
    es[i]? = some e → (placeAlong hz vw vh pos es)[i]? = some (slot hz vw vh (pos + sumInt (es.take i)) e)
  | [], _, i, e, h => by simp at h
  | a :: l, pos, 0, e, h => by
    simp at h; subst h; simp [placeAlong, slot]
  | a :: l, pos, i + 1, e, h => by
    have := placeAlong_get hz vw vh l (pos + a) i e (by simpa using h)
    simp [placeAlong, this]; congr 1; omega

theorem placeAlong_length (hz : Bool) (vw vh : Int) : ∀ (es : List Int) (pos : Int),
    (placeAlong hz vw vh pos es).length = es.length
  | [], _ => rfl
  | a :: l, pos => by simp [placeAlong, placeAlong_length hz vw vh l]

/-! ### axis accessors of a child rectangle -/

def aStart (hz : Bool) (v : ViewPort) : Int := if hz then v.physx else v.physy
def aLen (hz : Bool) (v : ViewPort) : Int := if hz then v.width else v.height
def cStart (hz : Bool) (v : ViewPort) : Int := if hz then v.physy else v.physx
def cLen (hz : Bool) (v : ViewPort) : Int := if hz then v.height else v.width

/-- what ViewPort.Resize makes of slot (s, e) inside a view whose extent along the axis is `avail` and across
it `cross`: the extent is clipped to the view, the origin is taken when it lies inside the view -/
theorem applyPlace_slot (hz : Bool) (vw vh s e : Int) (old : ViewPort) (hv : old.hasView = true)
    (hvw : 0 ≤ vw) (hvh : 0 ≤ vh) (hs : 0 ≤ s) (he : 0 ≤ e) :
    let r := applyPlace vw vh old (slot hz vw vh s e)
    let avail := if hz then vw else vh
    let cross := if hz then vh else vw
    aLen hz r = (if e > avail - s then avail - s else e) ∧ (s < avail → aStart hz r = s) ∧
    cLen hz r = cross ∧ (0 < cross → cStart hz r = 0) := by
  cases hz <;>
    simp only [applyPlace, slot, ViewPort.resize, hv, aLen, aStart, cLen, cStart, Bool.not_true, Bool.false_eq_true,
      if_false, if_true] <;>
    refine ⟨?_, ?_, ?_, ?_⟩ <;> (repeat' split) <;> omega

end Tcell.Views

namespace Tcell.Views
open LayoutNum

/-! ### the largest-remainder pass, any number type -/

section generic
variable {F : Type} [LayoutNum F]

def psum (cs : List (PCell F)) : Int := sumInt (cs.map (·.pad))

theorem bestFrom_bound : ∀ (cs : List (PCell F)) (i : Nat) (b : Option (Nat × F)),
    (∀ k bf, b = some (k, bf) → k < i + cs.length) →
    ∀ k bf, bestFrom cs i b = some (k, bf) → k < i + cs.length
  | [], i, b, hb => by simpa [bestFrom] using hb
  | c :: cs, i, b, hb => by
    have step : ∀ b', (∀ k bf, b' = some (k, bf) → k < (i + 1) + cs.length) →
        ∀ k bf, bestFrom cs (i + 1) b' = some (k, bf) → k < i + (c :: cs).length := by
      intro b' hb' k bf h
      have := bestFrom_bound cs (i + 1) b' hb' k bf h
      simp; omega
    have hb1 : ∀ k bf, b = some (k, bf) → k < (i + 1) + cs.length := by
      intro k bf h; have := hb k bf h; simp at this; omega
    have hnew : ∀ k bf, (some (i, c.frac) : Option (Nat × F)) = some (k, bf) → k < (i + 1) + cs.length := by
      intro k bf h; simp at h; omega
    unfold bestFrom
    split
    · exact step b hb1
    · cases b with
      | none => exact step _ hnew
      | some p =>
        obtain ⟨k0, bf0⟩ := p
        simp only
        split
        · exact step _ hnew
        · exact step _ hb1

theorem bestFrom_isSome : ∀ (cs : List (PCell F)) (i : Nat) (b : Option (Nat × F)),
    (b.isSome = true ∨ ∃ c ∈ cs, eq c.fill (zero : F) = false) → (bestFrom cs i b).isSome = true
  | [], i, b, h => by
    rcases h with h | ⟨c, hc, _⟩
    · simpa [bestFrom] using h
    · simp at hc
  | c :: cs, i, b, h => by
    unfold bestFrom
    split
    · rename_i hz
      apply bestFrom_isSome cs (i + 1) b
      rcases h with h | ⟨c', hc', hne⟩
      · exact Or.inl h
      · rcases List.mem_cons.1 hc' with rfl | hm
        · simp [hz] at hne
        · exact Or.inr ⟨c', hm, hne⟩
    · cases b with
      | none => exact bestFrom_isSome cs (i + 1) _ (Or.inl rfl)
      | some p =>
        obtain ⟨k0, bf0⟩ := p
        simp only
        split
        · exact bestFrom_isSome cs (i + 1) _ (Or.inl rfl)
        · exact bestFrom_isSome cs (i + 1) _ (Or.inl rfl)

/-- the nil dereference of boxlayout.go:89 cannot happen while some cell has a non-zero fill factor -/
theorem best_some (cs : List (PCell F)) (h : ∃ c ∈ cs, eq c.fill (zero : F) = false) :
    ∃ i, best cs = some i ∧ i < cs.length := by
  have h1 := bestFrom_isSome cs 0 none (Or.inr h)
  cases hb : bestFrom cs 0 none with
  | none => simp [hb] at h1
  | some p =>
    obtain ⟨k, bf⟩ := p
    have := bestFrom_bound cs 0 none (by simp) k bf hb
    exact ⟨k, by simp [best, hb], by simpa using this⟩

theorem bump_length (cs : List (PCell F)) (i : Nat) : (bump cs i).length = cs.length := by simp [bump]

theorem bump_fills (cs : List (PCell F)) (i : Nat) : (bump cs i).map (·.fill) = cs.map (·.fill) := by
  apply List.ext_getElem?
  intro j
  simp only [bump, List.getElem?_map, List.getElem?_modify]
  cases cs[j]? with
  | none => simp
  | some c => by_cases h : i = j <;> simp [h]

theorem psum_bump : ∀ (cs : List (PCell F)) (i : Nat), i < cs.length → psum (bump cs i) = psum cs + 1
  | [], i, h => by simp at h
  | c :: cs, 0, _ => by simp [bump, psum]; omega
  | c :: cs, i + 1, h => by
    have := psum_bump cs i (by simpa using h)
    simp [bump, psum] at this ⊢; omega

/-- pads only grow in the pass, position by position -/
theorem bump_pad_ge (cs : List (PCell F)) (i j : Nat) (c' : PCell F) (h : (bump cs i)[j]? = some c') :
    ∃ c, cs[j]? = some c ∧ c.pad ≤ c'.pad ∧ c'.pad ≤ c.pad + 1 ∧ c'.fill = c.fill := by
  simp only [bump, List.getElem?_modify] at h
  cases hc : cs[j]? with
  | none => simp [hc] at h
  | some c =>
    simp [hc] at h
    refine ⟨c, rfl, ?_⟩
    by_cases hij : i = j <;> simp [hij] at h <;> subst h <;> simp <;> omega

theorem distribute_spec : ∀ (n : Nat) (cs : List (PCell F)), (∃ c ∈ cs, eq c.fill (zero : F) = false) →
    (distribute n cs).length = cs.length ∧ psum (distribute n cs) = psum cs + n ∧
    (distribute n cs).map (·.fill) = cs.map (·.fill) ∧
    ∀ (j : Nat) (c' : PCell F), (distribute n cs)[j]? = some c' → ∃ c : PCell F, cs[j]? = some c ∧ c.pad ≤ c'.pad
  | 0, cs, _ => by simp [distribute]; intro j c' h; exact ⟨c', h, Int.le_refl _⟩
  | n + 1, cs, h => by
    obtain ⟨i, hi, hlt⟩ := best_some cs h
    have hf := bump_fills cs i
    have h' : ∃ c ∈ bump cs i, eq c.fill (zero : F) = false := by
      obtain ⟨c, hc, hne⟩ := h
      have : c.fill ∈ (bump cs i).map (·.fill) := by rw [hf]; exact List.mem_map_of_mem hc
      obtain ⟨c2, hc2, e⟩ := List.mem_map.1 this
      exact ⟨c2, hc2, by rw [e]; exact hne⟩
    obtain ⟨a, b, c, d⟩ := distribute_spec n (bump cs i) h'
    simp only [distribute, hi]
    refine ⟨by rw [a, bump_length], by rw [b, psum_bump cs i hlt]; omega, by rw [c, hf], ?_⟩
    intro j c' hj
    obtain ⟨c1, hc1, hle⟩ := d j c' hj
    obtain ⟨c0, hc0, hle0, _, _⟩ := bump_pad_ge cs i j c1 hc1
    exact ⟨c0, hc0, by omega⟩

theorem distribute_zero (cs : List (PCell F)) : distribute 0 cs = cs := rfl

end generic
end Tcell.Views

namespace Tcell.Views
open LayoutNum

/-! ### exact arithmetic (`Rat`) -/

/-- the exact proportional share of a cell -/
def share (extra : Int) (totf f : Rat) : Rat := (extra : Rat) * f / totf

theorem ratTrunc_eq_floor (q : Rat) (h : 0 ≤ q) : ratTrunc q = q.floor := by
  rw [ratTrunc, Rat.floor_def, Int.tdiv_eq_ediv_of_nonneg (Rat.num_nonneg.2 h)]

/-- **the floor property of the number type** the layout theorems rest on, proved for `Rat`: truncation of a
non-negative value is the integer part, `trunc q ≤ q < trunc q + 1` -/
theorem ratTrunc_floor_prop (q : Rat) (h : 0 ≤ q) :
    ((ratTrunc q : Int) : Rat) ≤ q ∧ q < ((ratTrunc q + 1 : Int) : Rat) := by
  rw [ratTrunc_eq_floor q h]; exact ⟨Rat.floor_le q, Rat.lt_floor_add_one q⟩

theorem share_nonneg (extra : Int) (totf f : Rat) (he : 0 ≤ extra) (ht : 0 < totf) (hf : 0 ≤ f) :
    0 ≤ share extra totf f := by
  unfold share
  rw [Rat.div_def]
  exact Rat.mul_nonneg (Rat.mul_nonneg (Rat.intCast_nonneg.2 he) hf) (Rat.le_of_lt (Rat.inv_pos.2 ht))

theorem share_zero (extra : Int) (totf : Rat) : share extra totf 0 = 0 := by
  simp [share, Rat.div_def, Rat.mul_zero, Rat.zero_mul]

theorem shareCell_zero (extra : Int) (totf : Rat) :
    (shareCell extra totf (0 : Rat)).pad = 0 ∧ (shareCell extra totf (0 : Rat)).fill = 0 := by
  have : (LayoutNum.gt (0 : Rat) (LayoutNum.zero : Rat)) = false := by
    show decide ((0 : Rat) > 0) = false; simp
  simp [shareCell, this]

theorem shareCell_spec (extra : Int) (totf f : Rat) (he : 0 ≤ extra) (ht : 0 < totf) (hf : 0 ≤ f) :
    (shareCell extra totf f).pad = (share extra totf f).floor ∧ (shareCell extra totf f).fill = f := by
  unfold shareCell
  by_cases hp : f > 0
  · have : (LayoutNum.gt f (LayoutNum.zero : Rat)) = true := by
      show decide (f > 0) = true; simpa using hp
    simp only [this, if_true, and_true]
    show ratTrunc (share extra totf f) = _
    exact ratTrunc_eq_floor _ (share_nonneg extra totf f he ht hf)
  · have : (LayoutNum.gt f (LayoutNum.zero : Rat)) = false := by
      show decide (f > 0) = false; simpa using hp
    have hf0 : f = 0 := by grind
    subst hf0
    have h0 := shareCell_zero extra totf
    unfold shareCell at h0
    rw [share_zero]
    exact ⟨h0.1.trans (Rat.floor_intCast 0).symm, h0.2⟩

theorem foldl_add_eq (fs : List Rat) : ∀ a : Rat, fs.foldl (fun (a : Rat) f => LayoutNum.add a f) a = a + fs.sum := by
  induction fs with
  | nil => intro a; simp only [List.foldl_nil, List.sum_nil]; grind
  | cons f fs ih =>
    intro a
    simp only [List.foldl_cons, List.sum_cons, ih]
    show (a + f) + fs.sum = a + (f + fs.sum)
    grind

theorem totFill_eq_sum (fs : List Rat) : totFill fs = fs.sum := by
  unfold totFill
  rw [foldl_add_eq]
  show (0 : Rat) + fs.sum = fs.sum
  grind

theorem sum_nonneg_rat : ∀ (fs : List Rat), (∀ f ∈ fs, 0 ≤ f) → 0 ≤ fs.sum
  | [], _ => by simp
  | f :: fs, h => by
    have h1 := h f List.mem_cons_self
    have h2 := sum_nonneg_rat fs (fun g hg => h g (List.mem_cons_of_mem _ hg))
    simp only [List.sum_cons]; grind

theorem sum_pos_rat : ∀ (fs : List Rat), (∀ f ∈ fs, 0 ≤ f) → (∃ f ∈ fs, 0 < f) → 0 < fs.sum
  | [], _, h => by obtain ⟨f, hf, _⟩ := h; simp at hf
  | f :: fs, h, hp => by
    have h1 := h f List.mem_cons_self
    have h2 := sum_nonneg_rat fs (fun g hg => h g (List.mem_cons_of_mem _ hg))
    simp only [List.sum_cons]
    obtain ⟨g, hg, hg0⟩ := hp
    rcases List.mem_cons.1 hg with rfl | hm
    · grind
    · have := sum_pos_rat fs (fun g hg => h g (List.mem_cons_of_mem _ hg)) ⟨g, hm, hg0⟩
      grind

theorem sum_shares (extra : Int) (t : Rat) : ∀ (fs : List Rat),
    (fs.map (share extra t)).sum = (extra : Rat) * fs.sum / t
  | [] => by simp [Rat.div_def, Rat.mul_zero, Rat.zero_mul]
  | f :: fs => by
    simp only [List.map_cons, List.sum_cons, sum_shares extra t fs, share, Rat.div_def]
    grind

theorem floors_le_sum : ∀ (l : List Rat), ((sumInt (l.map Rat.floor) : Int) : Rat) ≤ l.sum
  | [] => by simp [sumInt]
  | q :: l => by
    have := floors_le_sum l
    have h := Rat.floor_le q
    simp only [List.map_cons, sumInt_cons, Rat.intCast_add, List.sum_cons]
    grind

end Tcell.Views
