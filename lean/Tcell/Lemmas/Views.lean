/-
Helper lemmas for C20 (ViewPort steps and the BoxLayout share computation).
-/
import Tcell.Model.Views
namespace Tcell.Views
namespace ViewPort

/-! ### field projections of the small steps -/

section proj
variable (v : ViewPort) (x y : Int)

@[simp] theorem grow_viewx : (v.grow x y).viewx = v.viewx := by simp only [grow]; split <;> split <;> rfl
@[simp] theorem grow_viewy : (v.grow x y).viewy = v.viewy := by simp only [grow]; split <;> split <;> rfl
@[simp] theorem grow_physx : (v.grow x y).physx = v.physx := by simp only [grow]; split <;> split <;> rfl
@[simp] theorem grow_physy : (v.grow x y).physy = v.physy := by simp only [grow]; split <;> split <;> rfl
@[simp] theorem grow_width : (v.grow x y).width = v.width := by simp only [grow]; split <;> split <;> rfl
@[simp] theorem grow_height : (v.grow x y).height = v.height := by simp only [grow]; split <;> split <;> rfl
@[simp] theorem grow_locked : (v.grow x y).locked = v.locked := by simp only [grow]; split <;> split <;> rfl
@[simp] theorem grow_hasView : (v.grow x y).hasView = v.hasView := by simp only [grow]; split <;> split <;> rfl

@[simp] theorem vx_viewy : v.validateViewX.viewy = v.viewy := by simp only [validateViewX]; split <;> split <;> rfl
@[simp] theorem vx_limx : v.validateViewX.limx = v.limx := by simp only [validateViewX]; split <;> split <;> rfl
@[simp] theorem vx_limy : v.validateViewX.limy = v.limy := by simp only [validateViewX]; split <;> split <;> rfl
@[simp] theorem vx_width : v.validateViewX.width = v.width := by simp only [validateViewX]; split <;> split <;> rfl
@[simp] theorem vx_height : v.validateViewX.height = v.height := by simp only [validateViewX]; split <;> split <;> rfl
@[simp] theorem vx_physx : v.validateViewX.physx = v.physx := by simp only [validateViewX]; split <;> split <;> rfl
@[simp] theorem vx_physy : v.validateViewX.physy = v.physy := by simp only [validateViewX]; split <;> split <;> rfl

@[simp] theorem vy_viewx : v.validateViewY.viewx = v.viewx := by simp only [validateViewY]; split <;> split <;> rfl
@[simp] theorem vy_limx : v.validateViewY.limx = v.limx := by simp only [validateViewY]; split <;> split <;> rfl
@[simp] theorem vy_limy : v.validateViewY.limy = v.limy := by simp only [validateViewY]; split <;> split <;> rfl
@[simp] theorem vy_width : v.validateViewY.width = v.width := by simp only [validateViewY]; split <;> split <;> rfl
@[simp] theorem vy_height : v.validateViewY.height = v.height := by simp only [validateViewY]; split <;> split <;> rfl
@[simp] theorem vy_physx : v.validateViewY.physx = v.physx := by simp only [validateViewY]; split <;> split <;> rfl
@[simp] theorem vy_physy : v.validateViewY.physy = v.physy := by simp only [validateViewY]; split <;> split <;> rfl

@[simp] theorem mvX_viewy : (v.mvX x).viewy = v.viewy := by simp only [mvX]; split <;> split <;> rfl
@[simp] theorem mvX_limx : (v.mvX x).limx = v.limx := by simp only [mvX]; split <;> split <;> rfl
@[simp] theorem mvX_limy : (v.mvX x).limy = v.limy := by simp only [mvX]; split <;> split <;> rfl
@[simp] theorem mvX_width : (v.mvX x).width = v.width := by simp only [mvX]; split <;> split <;> rfl
@[simp] theorem mvX_height : (v.mvX x).height = v.height := by simp only [mvX]; split <;> split <;> rfl

@[simp] theorem mvY_viewx : (v.mvY y).viewx = v.viewx := by simp only [mvY]; split <;> split <;> rfl
@[simp] theorem mvY_limx : (v.mvY y).limx = v.limx := by simp only [mvY]; split <;> split <;> rfl
@[simp] theorem mvY_limy : (v.mvY y).limy = v.limy := by simp only [mvY]; split <;> split <;> rfl
@[simp] theorem mvY_width : (v.mvY y).width = v.width := by simp only [mvY]; split <;> split <;> rfl
@[simp] theorem mvY_height : (v.mvY y).height = v.height := by simp only [mvY]; split <;> split <;> rfl
end proj

/-- the value ValidateViewX leaves in `viewx` -/
theorem vx_viewx (v : ViewPort) :
    v.validateViewX.viewx = (if (if v.viewx > v.limx - v.width then v.limx - v.width else v.viewx) < 0 then 0
      else (if v.viewx > v.limx - v.width then v.limx - v.width else v.viewx)) := by
  simp only [validateViewX]; split <;> split <;> simp_all

theorem vy_viewy (v : ViewPort) :
    v.validateViewY.viewy = (if (if v.viewy > v.limy - v.height then v.limy - v.height else v.viewy) < 0 then 0
      else (if v.viewy > v.limy - v.height then v.limy - v.height else v.viewy)) := by
  simp only [validateViewY]; split <;> split <;> simp_all

theorem mvX_viewx (v : ViewPort) (x : Int) :
    (v.mvX x).viewx =
      (let a := if x < v.limx ∧ x ≥ v.viewx + v.width then x - (v.width - 1) else v.viewx
       if x ≥ 0 ∧ x < a then x else a) := by
  simp only [mvX]; split <;> split <;> simp_all

theorem mvY_viewy (v : ViewPort) (y : Int) :
    (v.mvY y).viewy =
      (let a := if y < v.limy ∧ y ≥ v.viewy + v.height then y - (v.height - 1) else v.viewy
       if y ≥ 0 ∧ y < a then y else a) := by
  simp only [mvY]; split <;> split <;> simp_all

end ViewPort
end Tcell.Views

namespace Tcell.Views
open LayoutNum

/-! ### running sums and `placeAlong` -/

@[simp] theorem sumInt_nil : sumInt [] = 0 := rfl
@[simp] theorem sumInt_cons (a : Int) (l : List Int) : sumInt (a :: l) = a + sumInt l := by simp [sumInt]

theorem sumInt_nonneg : ∀ (l : List Int), (∀ e ∈ l, 0 ≤ e) → 0 ≤ sumInt l
  | [], _ => by simp
  | a :: l, h => by
    have := sumInt_nonneg l (fun e he => h e (List.mem_cons_of_mem _ he))
    have := h a (List.mem_cons_self)
    simp; omega

/-- prefix sums of non-negative extents: the end of slot i is at or before the start of any later slot -/
theorem sum_take_step : ∀ (es : List Int) (i j : Nat) (e : Int), (∀ e ∈ es, 0 ≤ e) → i < j → es[i]? = some e →
    sumInt (es.take i) + e ≤ sumInt (es.take j)
  | [], i, j, e, _, _, h => by simp at h
  | a :: l, 0, j + 1, e, hn, _, h => by
    simp at h; subst h
    have := sumInt_nonneg (l.take j) (fun e he => hn e (List.mem_cons_of_mem _ (List.mem_of_mem_take he)))
    simp; omega
  | a :: l, i + 1, j + 1, e, hn, hij, h => by
    have := sum_take_step l i j e (fun e he => hn e (List.mem_cons_of_mem _ he)) (by omega) (by simpa using h)
    simp; omega
  | a :: l, i + 1, 0, e, _, hij, _ => by omega

theorem sum_take_nonneg (es : List Int) (i : Nat) (hn : ∀ e ∈ es, 0 ≤ e) : 0 ≤ sumInt (es.take i) :=
  sumInt_nonneg _ (fun e he => hn e (List.mem_of_mem_take he))

theorem sum_take_le_total (es : List Int) (i : Nat) (e : Int) (hn : ∀ e ∈ es, 0 ≤ e) (h : es[i]? = some e) :
    sumInt (es.take i) + e ≤ sumInt es := by
  have hi : i < es.length := by
    rcases Nat.lt_or_ge i es.length with h' | h'
    · exact h'
    · simp [List.getElem?_eq_none h'] at h
  have := sum_take_step es i es.length e hn hi h
  simpa using this

/-- the place of slot i: position = start + sum of the extents before it, extent as given -/
def slot (horizontal : Bool) (vw vh s e : Int) : Place :=
  if horizontal then { x := s, y := 0, w := e, h := vh } else { x := 0, y := s, w := vw, h := e }

theorem placeAlong_get (hz : Bool) (vw vh : Int) : ∀ (es : List Int) (pos : Int) (i : Nat) (e : Int),
    es[i]? = some e → (placeAlong hz vw vh pos es)[i]? = some (slot hz vw vh (pos + sumInt (es.take i)) e)
  | [], _, i, e, h => by simp at h
  | a :: l, pos, 0, e, h => by
    simp at h; subst h; simp [placeAlong, slot]
  | a :: l, pos, i + 1, e, h => by
    have := placeAlong_get hz vw vh l (pos + a) i e (by simpa using h)
    simp [placeAlong, this]; congr 1; omega

theorem placeAlong_length (hz : Bool) (vw vh : Int) : ∀ (es : List Int) (pos : Int),
    (placeAlong hz vw vh pos es).length = es.length
  | [], _ => rfl
  | a :: l, pos => by simp [placeAlong, placeAlong_length hz vw vh l]

/-! ### axis accessors of a child rectangle -/

def aStart (hz : Bool) (v : ViewPort) : Int := if hz then v.physx else v.physy
def aLen (hz : Bool) (v : ViewPort) : Int := if hz then v.width else v.height
def cStart (hz : Bool) (v : ViewPort) : Int := if hz then v.physy else v.physx
def cLen (hz : Bool) (v : ViewPort) : Int := if hz then v.height else v.width

/-- what ViewPort.Resize makes of slot (s, e) inside a view whose extent along the axis is `avail` and across
it `cross`: the extent is clipped to the view, the origin is taken when it lies inside the view -/
theorem applyPlace_slot (hz : Bool) (vw vh s e : Int) (old : ViewPort) (hv : old.hasView = true)
    (hvw : 0 ≤ vw) (hvh : 0 ≤ vh) (hs : 0 ≤ s) (he : 0 ≤ e) :
    let r := applyPlace vw vh old (slot hz vw vh s e)
    let avail := if hz then vw else vh
    let cross := if hz then vh else vw
    aLen hz r = (if e > avail - s then avail - s else e) ∧ (s < avail → aStart hz r = s) ∧
    cLen hz r = cross ∧ (0 < cross → cStart hz r = 0) := by
  cases hz <;>
    simp only [applyPlace, slot, ViewPort.resize, hv, aLen, aStart, cLen, cStart, Bool.not_true, Bool.false_eq_true,
      if_false, if_true] <;>
    refine ⟨?_, ?_, ?_, ?_⟩ <;> (repeat' split) <;> omega

end Tcell.Views
