/-
Layer B of C01/C13/C09, part 5 (library side): every command list the draw path emits, in any state reachable
through the screen operations, is admissible for the byte-level simulation (`AdmitAll`): cursor addresses are
non-negative Go ints, every payload is the UTF-8 of a printable scalar value of the right table width followed by
admissible combining runes, is printed at a known in-grid cursor position with a known pen, and fits in its row; the
`ich1` of the bottom-right corner trick (`corner_step`) is issued with the cursor in the last-but-one column on the narrow glyph
just written there (`AdmitIch`), on a screen of at least two columns.
No assumption about the display's contents is needed (so this also covers draws onto a corrupted display).
-/
import Tcell.Lemmas.LayerBCmd
import Tcell.Lemmas.World
namespace Tcell.LayerB
open Tcell Tcell.Buf

/-! ## extra buffer invariant: combining runes and styles stay inside the domain of the statement -/

def CellB (rw : Rune → Int) (c : Cell) : Prop := (∀ k ∈ c.currComb, CombOk rw k) ∧ c.currStyle.url = ""
def BufB (rw : Rune → Int) (b : Buf) : Prop := ∀ i j, CellB rw (b.cells i j)

theorem cellB_default (rw) : CellB rw ({} : Cell) := ⟨by intro k h; simp at h, rfl⟩
theorem CellB.markDirty {rw} {c : Cell} (h : CellB rw c) : CellB rw c.markDirty := h
theorem CellB.markClean {rw} {c : Cell} (h : CellB rw c) : CellB rw c.markClean := h
theorem CellB.setLock {rw} {c : Cell} (h : CellB rw c) (v : Bool) : CellB rw (c.setLock v) := h
theorem CellB.carry {rw} {c : Cell} (h : CellB rw c) : CellB rw c.carry := h
theorem CellB.of_markRel {rw} {o n : Cell} (h : CellB rw o) (r : MarkRel o n) : CellB rw n := by
  unfold CellB; rw [r.1, r.2.1]; exact h

theorem BufB.setDirty {rw} {b : Buf} (h : BufB rw b) (x y : Int) (v : Bool) : BufB rw (b.setDirty x y v) := by
  intro i j
  cases v
  · rw [setDirty_false_cells]; split
    · exact (h i j).markClean
    · exact h i j
  · rw [setDirty_true_cells]; split
    · exact (h i j).markDirty
    · exact h i j

theorem BufB.setContent {rw} {b : Buf} (h : BufB rw b) (x y : Int) (m : Rune) (comb : List Rune) (st : Style)
    (hc : ∀ k ∈ comb, CombOk rw k) (hs : st.url = "") : BufB rw (b.setContent rw x y m comb st) := by
  intro i j
  rw [setContent_cells]
  have hp : CellB rw ((b.preDirty x y m comb).cells i j) := by
    rcases preDirty_cases b x y m comb i j with e | e <;> rw [e]
    · exact h i j
    · exact (h i j).markDirty
  split
  · split
    · exact ⟨by simpa using hc, by simp [Style.merge, hs]⟩
    · exact hp
  · exact h i j

theorem BufB.fill {rw} {b : Buf} (_h : BufB rw b) (r : Rune) (st : Style) (hs : st.url = "") : BufB rw (b.fill r st) := by
  intro i j
  exact ⟨by simp [Cell.filled], by simp [Cell.filled, Style.merge, hs]⟩

theorem BufB.lockRows {rw} {b : Buf} (h : BufB rw b) (x y w : Int) (lock : Bool) (n : Nat) : BufB rw (lockRows b x y w lock n) := by
  have cellop : ∀ (b : Buf), BufB rw b → ∀ x y, BufB rw (b.lockCell x y) ∧ BufB rw (b.unlockCell x y) := by
    intro b hb x y
    constructor
    · intro i j; rw [lockCell_cells]; split
      · exact (hb i j).setLock true
      · exact hb i j
    · intro i j; rw [unlockCell_cells]; split
      · exact ((hb i j).setLock false).markDirty
      · exact hb i j
  have row : ∀ (b : Buf), BufB rw b → ∀ x y k, BufB rw (lockRow b x y lock k) := by
    intro b hb x y k
    induction k with
    | zero => exact hb
    | succ k ih => simp only [lockRow]; split
                   · exact (cellop _ ih _ _).1
                   · exact (cellop _ ih _ _).2
  induction n with
  | zero => exact h
  | succ n ih => simp only [Tcell.lockRows]; exact row _ ih _ _ _

theorem BufB.lockRow {rw} {b : Buf} (h : BufB rw b) (x y : Int) (lock : Bool) (k : Nat) : BufB rw (Tcell.lockRow b x y lock k) := by
  induction k with
  | zero => exact h
  | succ k ih =>
    simp only [Tcell.lockRow]; split
    · intro i j; rw [lockCell_cells]; split
      · exact (ih i j).setLock true
      · exact ih i j
    · intro i j; rw [unlockCell_cells]; split
      · exact ((ih i j).setLock false).markDirty
      · exact ih i j

/-- the LockRegion of the repaired tree (re-dirtying of a wide left neighbour) keeps the Layer-B buffer facts as well -/
theorem BufB.lockRowsG {rw} {b : Buf} (h : BufB rw b) (x y w : Int) (lock : Bool) (n : Nat) : BufB rw (Tcell.lockRowsG b x y w lock n) := by
  induction n with
  | zero => exact h
  | succ n ih =>
    simp only [Tcell.lockRowsG]
    split
    · unfold Tcell.redirtyLeft; split
      · exact (ih.lockRow _ _ _ _).setDirty _ _ _
      · exact ih.lockRow _ _ _ _
    · exact ih.lockRow _ _ _ _

theorem BufB.resize {rw} {b : Buf} (h : BufB rw b) (w' h' : Int) : BufB rw (b.resize w' h') := by
  by_cases hh : b.h = h' ∧ b.w = w'
  · obtain ⟨rfl, rfl⟩ := hh; rw [resize_same]; exact h
  · intro i j; rw [resize_cells _ _ _ _ _ hh]; split
    · exact (h i j).carry
    · exact cellB_default rw

theorem BufB.invalidate {rw} {b : Buf} (h : BufB rw b) : BufB rw b.invalidate := fun i j => (h i j).markDirty

/-- what Layer B needs of the screen state beyond Layer A's buffer invariant -/
structure BInv (c : DrawCfg) (s : Scr) : Prop where
  buf : BufB c.rw s.cells
  style : s.style.url = ""
  size : 0 ≤ s.w ∧ 0 ≤ s.h ∧ s.w + 1 < TParm.maxInt64 ∧ s.h + 1 < TParm.maxInt64
  ccol : Color.valid s.cursorColor = false ∧ s.cursorColor ≠ colorReset

theorem BInv.of_rel {c : DrawCfg} {s s' : Scr} (h : BInv c s) (r : ScrRel s s') : BInv c s' :=
  { buf := fun i j => (h.buf i j).of_markRel (r.cells i j), style := by rw [r.style]; exact h.style,
    size := by rw [r.w, r.h]; exact h.size, ccol := by rw [r.cursor.2.2.2]; exact h.ccol }

/-! ## the invariant of a draw pass, as far as admissibility is concerned -/

structure AInv (c : DrawCfg) (s : Scr) (t : ATerm) : Prop where
  tw : t.w = s.w
  th : t.h = s.h
  buf : BufOkS c s
  kcur : s.cells.inRange s.cx s.cy → t.cur = some (s.cx, s.cy)
  kpen : s.curstyle ≠ styleInvalid → t.pen = some s.curstyle
  ext : BInv c s
  /-- a screen on which the bottom-right corner trick is used has at least two columns (part of `CornerSafe`) -/
  w2 : c.cornerTrick = true → 2 ≤ s.w

/-- the payload function of a UTF-8 locale -/
def Utf8Payload (c : DrawCfg) : Prop := ∀ m comb, c.payload m comb = Utf8.encode m ++ comb.flatMap Utf8.encode

theorem encode_63 (m : Int) (r : List Nat) (h : Utf8.encode m ++ r = [63]) : m = 63 := by
  unfold Utf8.encode at h
  split at h
  · rename_i hv
    simp only [Utf8.validRune, decide_eq_true_eq] at hv
    unfold Utf8.encodeNat at h
    split at h
    · simp at h; omega
    · split at h
      · simp at h
      · split at h <;> simp at h
  · simp at h

theorem payloadOk_cellText {c : DrawCfg} (hrw : RwOk c.rw) (hrb : RwB c.rw) (hp : Utf8Payload c) (w x : Int) (cm : Rune)
    (comb : List Rune) (hc : ∀ k ∈ comb, CombOk c.rw k) :
    let tx := Scr.cellText c w x (obsMain c.rw cm) comb (obsWidth c.rw cm)
    PayloadOk c.rw tx.1 tx.2 ∧ (x < w → x + tx.2 ≤ w) := by
  have hwd := obsWidth_pos hrw cm
  have h1 : ¬ obsWidth c.rw cm < 1 := by omega
  have hp' : ∀ m comb, c.payload m comb = Utf8.encode m ++ comb.flatMap Utf8.encode := hp
  simp only [Scr.cellText, h1, if_false, hp']
  have blank : PayloadOk c.rw [32] 1 :=
    ⟨32, [], by decide, by decide, by decide, by decide, hrb.ascii 32 (by decide) (by decide), Or.inl rfl, by simp⟩
  split
  · exact ⟨blank, fun h => by omega⟩
  · rename_i hfit
    -- properties of the rune handed to the draw path
    have hm : Utf8.validRune (obsMain c.rw cm) = true ∧ 32 ≤ obsMain c.rw cm ∧ ¬ (127 ≤ obsMain c.rw cm ∧ obsMain c.rw cm ≤ 159) ∧
        c.rw (obsMain c.rw cm) = obsWidth c.rw cm := by
      by_cases h : c.rw cm = 0 ∨ cm < 32
      · have e1 : obsMain c.rw cm = 32 := by unfold obsMain; rw [if_pos h]
        have e2 : obsWidth c.rw cm = 1 := by unfold obsWidth; rw [if_pos h]
        rw [e1, e2]; exact ⟨by decide, by decide, by decide, hrb.ascii 32 (by decide) (by decide)⟩
      · have e1 : obsMain c.rw cm = cm := by unfold obsMain; rw [if_neg h]
        have e2 : obsWidth c.rw cm = c.rw cm := by unfold obsWidth; rw [if_neg h]
        rw [e1, e2]
        have h0 : c.rw cm ≠ 0 := fun e => h (Or.inl e)
        have h32 : 32 ≤ cm := by
          by_cases h' : cm < 32
          · exact absurd (Or.inr h') h
          · exact Int.not_lt.mp h'
        have := hrb.scalar cm h0
        exact ⟨this.1, h32, this.2, rfl⟩
    have hne : ¬ (obsWidth c.rw cm > 1 ∧ Utf8.encode (obsMain c.rw cm) ++ comb.flatMap Utf8.encode = [63]) := by
      intro h
      have e := encode_63 _ _ h.2
      have : c.rw 63 = 1 := hrb.ascii 63 (by decide) (by decide)
      rw [e] at hm; omega
    rw [if_neg hne]
    refine ⟨⟨obsMain c.rw cm, comb, rfl, hm.1, hm.2.1, hm.2.2.1, hm.2.2.2, by omega, hc⟩, fun _ => by simp only; omega⟩

theorem payloadOk_cellTextG {c : DrawCfg} (hrw : RwOk c.rw) (hrb : RwB c.rw) (hp : Utf8Payload c) (w x : Int) (cm : Rune)
    (comb : List Rune) (hc : ∀ k ∈ comb, CombOk c.rw k) (nl : Bool) :
    let tx := Scr.cellTextG c w x (obsMain c.rw cm) comb (obsWidth c.rw cm) nl
    PayloadOk c.rw tx.1 tx.2 ∧ (x < w → x + tx.2 ≤ w) := by
  simp only [Scr.cellTextG]
  split
  · refine ⟨⟨32, [], by decide, by decide, by decide, by decide, hrb.ascii 32 (by decide) (by decide), Or.inl rfl, by simp⟩,
      fun h => by simp only; omega⟩
  · exact payloadOk_cellText hrw hrb hp w x cm comb hc

/-- one `drawCellPlain` (drawCell without the corner trick) is admissible and keeps the caches right -/
theorem plain_step {c : DrawCfg} (hrw : RwOk c.rw) (hrb : RwB c.rw) (hp : Utf8Payload c)
    {s : Scr} {t : ATerm} {x y : Int} (inv : AInv c s t) (hr : s.cells.inRange x y) :
    AdmitAll c t (s.drawCellPlain c x y).2.1 ∧
      (s.cells.inRange (s.drawCellPlain c x y).1.cx (s.drawCellPlain c x y).1.cy →
        (t.applyAll (s.drawCellPlain c x y).2.1).cur = some ((s.drawCellPlain c x y).1.cx, (s.drawCellPlain c x y).1.cy)) ∧
      ((s.drawCellPlain c x y).1.curstyle ≠ styleInvalid →
        (t.applyAll (s.drawCellPlain c x y).2.1).pen = some (s.drawCellPlain c x y).1.curstyle) ∧
      1 ≤ (s.drawCellPlain c x y).2.2 := by
  cases hd : s.cells.dirty x y
  · rw [Scr.drawCellPlain_clean c s x y hd]
    refine ⟨trivial, inv.kcur, inv.kpen, ?_⟩
    have hgc := getContent_wok hrw s.cells x y hr (inv.buf.wok x y)
    have := (obsWidth_pos hrw (s.cells.cells x y).currMain).1
    rcases retWidth_cases c s x y with h | h
    · simp only; rw [h, hgc]; exact this
    · simp only; omega
  · rw [Scr.drawCellPlain_dirty c s x y hd]
    have hgc := getContent_wok hrw s.cells x y hr (inv.buf.wok x y)
    simp only [Scr.txAt, hgc]
    generalize hst : resolveStyle s.style (s.cells.cells x y).currStyle = st'
    have PT := payloadOk_cellTextG hrw hrb hp s.w x (s.cells.cells x y).currMain (s.cells.cells x y).currComb (inv.ext.buf x y).1
      (c.guardLocked && s.cells.locked (x + 1) y)
    generalize Scr.cellTextG c s.w x (obsMain c.rw (s.cells.cells x y).currMain) (s.cells.cells x y).currComb
      (obsWidth c.rw (s.cells.cells x y).currMain) (c.guardLocked && s.cells.locked (x + 1) y) = tx at PT
    obtain ⟨hpay, hfit⟩ := PT
    have hw1 : 1 ≤ tx.2 := by obtain ⟨_, _, _, _, _, _, _, h12, _⟩ := hpay; omega
    have hxy : 0 ≤ x ∧ 0 ≤ y ∧ x < s.w ∧ y < s.h := by
      have := inv.buf.cw; have := inv.buf.ch; simp only [inRange_iff] at hr; omega
    have hsz := inv.ext.size
    have hstyle : st'.url = "" := by
      rw [← hst]; unfold resolveStyle; split
      · exact inv.ext.style
      · exact (inv.ext.buf x y).2
    have hvalid : st' ≠ styleInvalid := by
      rw [← hst]; exact resolveStyle_valid _ _ inv.buf.valid.1 (inv.buf.valid.2 x y)
    -- step 1: the cursor
    have S1 : AdmitAll c t (if s.cy ≠ y ∨ s.cx ≠ x then [Cmd.goto x y] else []) ∧
        (t.applyAll (if s.cy ≠ y ∨ s.cx ≠ x then [Cmd.goto x y] else [])).cur = some (x, y) ∧
        (t.applyAll (if s.cy ≠ y ∨ s.cx ≠ x then [Cmd.goto x y] else [])).pen = t.pen := by
      by_cases hg : s.cy ≠ y ∨ s.cx ≠ x
      · rw [if_pos hg]
        refine ⟨⟨⟨hxy.1, hxy.2.1, by omega, by omega⟩, trivial⟩, ?_, rfl⟩
        simp only [ATerm.applyAll, List.foldl_cons, List.foldl_nil, ATerm.apply, ATerm.clampX, ATerm.clampY, inv.tw, inv.th]
        have a1 : ¬ x < 0 := by omega
        have a2 : ¬ x ≥ s.w := by omega
        have a3 : ¬ y < 0 := by omega
        have a4 : ¬ y ≥ s.h := by omega
        simp [a1, a2, a3, a4]
      · rw [if_neg hg]
        have hx : s.cx = x := by
          by_cases h : s.cx = x
          · exact h
          · exact absurd (Or.inr h) hg
        have hy : s.cy = y := by
          by_cases h : s.cy = y
          · exact h
          · exact absurd (Or.inl h) hg
        refine ⟨trivial, ?_, rfl⟩
        simp only [applyAll_nil]
        have := inv.kcur (by rw [hx, hy]; exact hr)
        rw [hx, hy] at this; exact this
    generalize (if s.cy ≠ y ∨ s.cx ≠ x then [Cmd.goto x y] else []) = g at S1
    obtain ⟨ad1, cur1, pen1⟩ := S1
    have dim1 := applyAll_dims t g
    generalize ht1 : t.applyAll g = t1 at ad1 cur1 pen1 dim1
    -- step 2: the pen
    have S2 : AdmitAll c t1 (if st' ≠ s.curstyle then [Cmd.setPen st'] else []) ∧
        (t1.applyAll (if st' ≠ s.curstyle then [Cmd.setPen st'] else [])).cur = some (x, y) ∧
        (t1.applyAll (if st' ≠ s.curstyle then [Cmd.setPen st'] else [])).pen = some st' := by
      by_cases hp' : st' ≠ s.curstyle
      · rw [if_pos hp']
        exact ⟨⟨hstyle, trivial⟩, cur1, rfl⟩
      · rw [if_neg hp']
        have e : st' = s.curstyle := by
          by_cases h : st' = s.curstyle
          · exact h
          · exact absurd h hp'
        refine ⟨trivial, cur1, ?_⟩
        simp only [applyAll_nil]
        rw [pen1, e]; exact inv.kpen (by rw [← e]; exact hvalid)
    generalize (if st' ≠ s.curstyle then [Cmd.setPen st'] else []) = p at S2
    obtain ⟨ad2, cur2, pen2⟩ := S2
    have dim2 := applyAll_dims t1 p
    generalize ht2 : t1.applyAll p = t2 at ad2 cur2 pen2 dim2
    have hin : t2.inGrid x y := by
      simp only [ATerm.inGrid, dim2.1, dim2.2, dim1.1, dim1.2, inv.tw, inv.th]; omega
    have ad3 : Admit c t2 (Cmd.put tx.1 tx.2) :=
      ⟨x, y, st', cur2, pen2, hin, by rw [dim2.1, dim1.1, inv.tw]; exact hfit hxy.2.2.1, hpay⟩
    have e3' : t2.apply (Cmd.put tx.1 tx.2) = t2.putAt x y tx.1 tx.2 st' := by
      simp only [ATerm.apply, cur2, pen2, if_pos hin]
    refine ⟨?_, ?_, ?_, hw1⟩
    · rw [admitAll_append]; refine ⟨ad1, ?_⟩
      rw [ht1, admitAll_append]; exact ⟨ad2, by rw [ht2]; exact ⟨ad3, trivial⟩⟩
    · intro hrange
      rw [applyAll_append, applyAll_append, ht1, ht2]
      simp only [ATerm.applyAll, List.foldl_cons, List.foldl_nil, e3', ATerm.putAt_cur]
      split
      · rename_i hw; exfalso; simp only [hw, if_true, inRange_iff] at hrange; omega
      · rfl
    · intro _
      rw [applyAll_append, applyAll_append, ht1, ht2]
      simp only [ATerm.applyAll, List.foldl_cons, List.foldl_nil, e3', ATerm.putAt_pen, pen2]

/-! ## the bottom-right corner trick -/

/-- the `px` loop of the trick stops in a column left of the corner column -/
theorem coverStart_bounds (b : Buf) (y : Int) : ∀ (fuel : Nat) (cx x : Int), cx < x →
    cx ≤ Scr.coverStart b y fuel cx x ∧ Scr.coverStart b y fuel cx x < x := by
  intro fuel
  induction fuel with
  | zero => intro cx x h; exact ⟨Int.le_refl _, h⟩
  | succ n ih =>
    intro cx x h
    rw [coverStart_succ]
    have := rawW_pos b cx y
    split
    · rename_i h'; have := ih (cx + rawW b cx y) x h'; omega
    · exact ⟨Int.le_refl _, h⟩

theorem apply_goto_in (t : ATerm) (x y : Int) (hx0 : 0 ≤ x) (hx1 : x < t.w) (hy0 : 0 ≤ y) (hy1 : y < t.h) :
    t.apply (Cmd.goto x y) = { t with cur := some (x, y) } := by
  simp only [ATerm.apply, ATerm.clampX, ATerm.clampY]
  have h1 : ¬ x < 0 := by omega
  have h2 : ¬ x ≥ t.w := by omega
  have h3 : ¬ y < 0 := by omega
  have h4 : ¬ y ≥ t.h := by omega
  simp only [h1, h2, h3, h4, if_false]

/-- **the trick branch of drawCell is admissible** (tscreen.go drawCell, corner trick): `goto (w-2, y)`, the pen, the corner glyph — always
one column wide —, `goto (w-2, y)`, `ich1` in exactly the situation `AdmitIch` describes, an ordinary drawCell on the cell that
covers column `w-2`, `goto (0, 0)`; all that is needed of the screen is that it has at least two columns (`AInv.w2`).  Nothing
about locks: this is admissibility of the byte-level simulation, not correctness of what is shown (Layer A, `visit_corner`). -/
theorem corner_step {c : DrawCfg} (hrw : RwOk c.rw) (hrb : RwB c.rw) (hp : Utf8Payload c)
    {s : Scr} {t : ATerm} {x y : Int} (inv : AInv c s t) (hr : s.cells.inRange x y)
    (hd : s.cells.dirty x y = true) (hcor : y = s.h - 1 ∧ x = s.w - 1 ∧ c.cornerTrick = true) :
    AdmitAll c t (s.drawCell c x y).2.1 ∧
      (s.cells.inRange (s.drawCell c x y).1.cx (s.drawCell c x y).1.cy →
        (t.applyAll (s.drawCell c x y).2.1).cur = some ((s.drawCell c x y).1.cx, (s.drawCell c x y).1.cy)) ∧
      ((s.drawCell c x y).1.curstyle ≠ styleInvalid →
        (t.applyAll (s.drawCell c x y).2.1).pen = some (s.drawCell c x y).1.curstyle) ∧
      1 ≤ (s.drawCell c x y).2.2 := by
  have hw2 := inv.w2 hcor.2.2
  have hcw := inv.buf.cw; have hch := inv.buf.ch
  have htw := inv.tw; have hth := inv.th
  have hxy : 0 ≤ x ∧ x < s.w ∧ 0 ≤ y ∧ y < s.h := by simp only [inRange_iff] at hr; omega
  have hsz := inv.ext.size
  -- the `px` loop
  obtain ⟨p, hpdef⟩ : ∃ p, Scr.coverStart (s.cells.setDirty x y false) y x.toNat 0 x = p := ⟨_, rfl⟩
  have hpb := coverStart_bounds (s.cells.setDirty x y false) y x.toNat 0 x (by omega)
  rw [hpdef] at hpb
  rw [Scr.drawCell_corner c s x y p hd hcor hpdef]
  -- the corner glyph
  have hgc := getContent_wok hrw s.cells x y hr (inv.buf.wok x y)
  have hlock : s.cells.locked (x + 1) y = false := by
    cases h : s.cells.locked (x + 1) y
    · rfl
    · have := ((locked_true_iff s.cells (x + 1) y).1 h).1
      simp only [inRange_iff] at this; omega
  have htx1 : (s.txAt c x y).2 = 1 := txAt_last_col c s x y hcor.2.1 hlock
  have PT := payloadOk_cellTextG hrw hrb hp s.w x (s.cells.cells x y).currMain (s.cells.cells x y).currComb (inv.ext.buf x y).1
    (c.guardLocked && s.cells.locked (x + 1) y)
  have htxe : s.txAt c x y = Scr.cellTextG c s.w x (obsMain c.rw (s.cells.cells x y).currMain) (s.cells.cells x y).currComb
      (obsWidth c.rw (s.cells.cells x y).currMain) (c.guardLocked && s.cells.locked (x + 1) y) := by
    simp only [Scr.txAt, hgc]
  rw [← htxe] at PT
  obtain ⟨tx, htx⟩ : ∃ tx, tx = s.txAt c x y := ⟨_, rfl⟩
  rw [← htx] at PT htx1
  have hpay : PayloadOk c.rw tx.1 1 := by have := PT.1; rw [htx1] at this; exact this
  obtain ⟨style, hstyle⟩ : ∃ st, st = resolveStyle s.style (s.cells.getContent x y).2.2.1 := ⟨_, rfl⟩
  have hsurl : style.url = "" := by
    rw [hstyle, hgc]; unfold resolveStyle; split
    · exact inv.ext.style
    · exact (inv.ext.buf x y).2
  have hsv : style ≠ styleInvalid := by
    rw [hstyle, hgc]; exact resolveStyle_valid _ _ inv.buf.valid.1 (inv.buf.valid.2 x y)
  have hpaintcmds : (s.paint c x y).2.1 = (if style ≠ s.curstyle then [Cmd.setPen style] else []) ++ [Cmd.put tx.1 1] := by
    rw [Scr.paint_eq]; simp only [← hstyle, ← htx, htx1]
  have hpaintw : (s.paint c x y).2.2 = 1 := by rw [Scr.paint_eq]; simp only [← htx, htx1]
  -- the abstract terminal, command by command
  let t1 : ATerm := { t with cur := some (x - 1, y) }
  have e1 : t.apply (Cmd.goto (x - 1) y) = t1 := apply_goto_in t (x - 1) y (by omega) (by omega) hxy.2.2.1 (by omega)
  let t2 : ATerm := { t1 with pen := some style }
  have S2 : AdmitAll c t1 (if style ≠ s.curstyle then [Cmd.setPen style] else []) ∧
      t1.applyAll (if style ≠ s.curstyle then [Cmd.setPen style] else []) = t2 := by
    by_cases hne : style ≠ s.curstyle
    · rw [if_pos hne]; exact ⟨⟨hsurl, trivial⟩, rfl⟩
    · rw [if_neg hne]
      have he : style = s.curstyle := Decidable.not_not.mp hne
      have hk := inv.kpen (by rw [← he]; exact hsv)
      rw [← he] at hk
      refine ⟨trivial, ?_⟩
      show t1 = t2
      show ({ t with cur := some (x - 1, y) } : ATerm) = { t with cur := some (x - 1, y), pen := some style }
      rw [← hk]
  have hin2 : t2.inGrid (x - 1) y := by show 0 ≤ x - 1 ∧ x - 1 < t.w ∧ 0 ≤ y ∧ y < t.h; omega
  let t3 : ATerm := t2.putAt (x - 1) y tx.1 1 style
  have e3 : t2.apply (Cmd.put tx.1 1) = t3 := by
    have : t2.apply (Cmd.put tx.1 1) = if t2.inGrid (x - 1) y then t2.putAt (x - 1) y tx.1 1 style
        else { t2.allGarbage with cur := none, chaos := true } := rfl
    rw [this, if_pos hin2]
  have ad3 : Admit c t2 (Cmd.put tx.1 1) := ⟨x - 1, y, style, rfl, rfl, hin2, by show x - 1 + 1 ≤ t.w; omega, hpay⟩
  have hw3 : t3.w = t.w := by show (t2.putAt _ _ _ _ _).w = _; rw [ATerm.putAt_w]
  have hh3 : t3.h = t.h := by show (t2.putAt _ _ _ _ _).h = _; rw [ATerm.putAt_h]
  let t4 : ATerm := { t3 with cur := some (x - 1, y) }
  have e4 : t3.apply (Cmd.goto (x - 1) y) = t4 :=
    apply_goto_in t3 (x - 1) y (by omega) (by rw [hw3]; omega) hxy.2.2.1 (by rw [hh3]; omega)
  have hin4 : t4.inGrid (x - 1) y := by show 0 ≤ x - 1 ∧ x - 1 < t3.w ∧ 0 ≤ y ∧ y < t3.h; rw [hw3, hh3]; omega
  have g33 : t4.grid (x - 1) y = .shown tx.1 false style := by
    show (t2.putAt (x - 1) y tx.1 1 style).grid (x - 1) y = _
    rw [ATerm.putAt_grid]; simp
  have g34 : t4.grid (x - 1 + 1) y ≠ .cont := by
    show (t2.putAt (x - 1) y tx.1 1 style).grid (x - 1 + 1) y ≠ _
    rw [ATerm.putAt_grid]
    split
    · rename_i h; exact absurd h.2.2 (by omega)
    · split
      · intro h; cases h
      · split
        · intro h; cases h
        · split
          · intro h; cases h
          · rename_i h4
            split
            · intro h; cases h
            · intro hc; exact h4 ⟨rfl, rfl, by omega, hc⟩
  have ad5 : Admit c t4 Cmd.insertChar :=
    ⟨hcor.2.2, x - 1, y, tx.1, style, rfl, hin4, g33, g34, by show x - 1 + 2 = t3.w; rw [hw3]; omega⟩
  let t5 : ATerm := t4.insertAt (x - 1) y
  have e5 : t4.apply Cmd.insertChar = t5 := by
    have : t4.apply Cmd.insertChar = if t4.inGrid (x - 1) y then t4.insertAt (x - 1) y
        else { t4.allGarbage with chaos := true } := rfl
    rw [this, if_pos hin4]
  have hw5 : t5.w = t.w := hw3
  have hh5 : t5.h = t.h := hh3
  have hcur5 : t5.cur = some (x - 1, y) := rfl
  have hpen5 : t5.pen = some style := by show (t2.putAt _ _ _ _ _).pen = _; rw [ATerm.putAt_pen]
  -- the inner drawCell on the cell that covers column w-2
  have hrelS2 : ScrRel s (s.cornerS2 x y p) :=
    (ScrRel.setDirty s { s with cells := s.cells.setDirty x y false } x y false rfl rfl rfl rfl rfl rfl ⟨rfl, rfl, rfl, rfl⟩).trans
      (ScrRel.setDirty _ (s.cornerS2 x y p) p y true rfl rfl rfl rfl rfl rfl ⟨rfl, rfl, rfl, rfl⟩)
  have inv2 : AInv c (s.cornerS2 x y p) t5 :=
    { tw := by rw [hw5, htw]; rfl, th := by rw [hh5, hth]; rfl, buf := inv.buf.of_rel hrw hrelS2,
      kcur := fun _ => hcur5, kpen := fun _ => by rw [hpen5, hstyle]; rfl,
      ext := inv.ext.of_rel hrelS2, w2 := inv.w2 }
  have hr2 : (s.cornerS2 x y p).cells.inRange p y := by
    simp only [inRange_iff, hrelS2.cw, hrelS2.ch]; omega
  obtain ⟨ad6, kc6, kp6, _⟩ := plain_step hrw hrb hp inv2 hr2
  have hrel3 := drawCellPlain_rel c (s.cornerS2 x y p) p y
  generalize ((s.cornerS2 x y p).drawCellPlain c p y).1 = S3 at kc6 kp6 hrel3 ⊢
  generalize ((s.cornerS2 x y p).drawCellPlain c p y).2.1 = cmds3 at ad6 kc6 kp6 ⊢
  have hd6 := applyAll_dims t5 cmds3
  generalize ht6 : t5.applyAll cmds3 = t6 at kc6 kp6 hd6
  have e7 : t6.apply (Cmd.goto 0 0) = { t6 with cur := some (0, 0) } :=
    apply_goto_in t6 0 0 (by omega) (by rw [hd6.1, hw5]; omega) (by omega) (by rw [hd6.2, hh5]; omega)
  -- the whole list
  have hall : t.applyAll ([Cmd.goto (x - 1) y] ++ (s.paint c x y).2.1 ++ [.goto (x - 1) y, .insertChar] ++ cmds3 ++ [.goto 0 0]) =
      { t6 with cur := some (0, 0) } := by
    rw [hpaintcmds]
    simp only [applyAll_append]
    have a1 : t.applyAll [Cmd.goto (x - 1) y] = t1 := e1
    rw [a1, S2.2]
    have a3 : t2.applyAll [Cmd.put tx.1 1] = t3 := e3
    rw [a3]
    have a4 : t3.applyAll [Cmd.goto (x - 1) y, .insertChar] = t5 := by
      show (t3.apply (Cmd.goto (x - 1) y)).apply Cmd.insertChar = t5
      rw [e4, e5]
    rw [a4, ht6]
    exact e7
  refine ⟨?_, ?_, ?_, ?_⟩
  · rw [hpaintcmds]
    simp only [admitAll_append, applyAll_append]
    have a1 : t.applyAll [Cmd.goto (x - 1) y] = t1 := e1
    have a3 : t2.applyAll [Cmd.put tx.1 1] = t3 := e3
    have a4 : t3.applyAll [Cmd.goto (x - 1) y, .insertChar] = t5 := by
      show (t3.apply (Cmd.goto (x - 1) y)).apply Cmd.insertChar = t5
      rw [e4, e5]
    rw [a1, S2.2, a3, a4, ht6]
    refine ⟨⟨⟨⟨⟨⟨by omega, hxy.2.2.1, by omega, by omega⟩, trivial⟩, S2.1, ad3, trivial⟩, ?_⟩, ad6⟩, ?_⟩
    · refine ⟨⟨by omega, hxy.2.2.1, by omega, by omega⟩, ?_, trivial⟩
      rw [e4]; exact ad5
    · exact ⟨⟨by omega, by omega, by omega, by omega⟩, trivial⟩
  · intro _; rw [hall]
  · intro hne; rw [hall]; exact kp6 hne
  · rw [hpaintw]; omega

/-- one iteration of the inner loop of draw -/
theorem visit_step {c : DrawCfg} (hrw : RwOk c.rw) (hrb : RwB c.rw) (hp : Utf8Payload c)
    {s : Scr} {t : ATerm} {x y : Int} (inv : AInv c s t) (hr : s.cells.inRange x y) :
    AdmitAll c t (s.visit c x y).2.1 ∧ AInv c (s.visit c x y).1 (t.applyAll (s.visit c x y).2.1) ∧
      1 ≤ (s.visit c x y).2.2 := by
  have hrel := visit_rel c s x y
  have hbuf := inv.buf.of_rel hrw hrel
  have hext := inv.ext.of_rel hrel
  have hd12 := applyAll_dims t (s.visit c x y).2.1
  -- reduce to drawCell's cache fields
  have hcx : (s.visit c x y).1.cx = (s.drawCell c x y).1.cx ∧ (s.visit c x y).1.cy = (s.drawCell c x y).1.cy ∧
      (s.visit c x y).1.curstyle = (s.drawCell c x y).1.curstyle ∧ (s.visit c x y).2.1 = (s.drawCell c x y).2.1 ∧
      (s.visit c x y).2.2 = (s.drawCell c x y).2.2 := by
    simp only [Scr.visit]
    split <;> simp
  obtain ⟨e1, e2, e3, e4, e5⟩ := hcx
  have hir : ∀ i j, (s.visit c x y).1.cells.inRange i j ↔ s.cells.inRange i j := by
    intro i j; simp only [inRange_iff, hrel.cw, hrel.ch]
  suffices H : AdmitAll c t (s.drawCell c x y).2.1 ∧
      (s.cells.inRange (s.drawCell c x y).1.cx (s.drawCell c x y).1.cy →
        (t.applyAll (s.drawCell c x y).2.1).cur = some ((s.drawCell c x y).1.cx, (s.drawCell c x y).1.cy)) ∧
      ((s.drawCell c x y).1.curstyle ≠ styleInvalid →
        (t.applyAll (s.drawCell c x y).2.1).pen = some (s.drawCell c x y).1.curstyle) ∧
      1 ≤ (s.drawCell c x y).2.2 by
    rw [e4, e5]
    refine ⟨H.1, { tw := by rw [← e4, hd12.1, inv.tw, hrel.w], th := by rw [← e4, hd12.2, inv.th, hrel.h], buf := hbuf,
                   kcur := ?_, kpen := ?_, ext := hext, w2 := by rw [hrel.w]; exact inv.w2 }, H.2.2.2⟩
    · intro h; rw [e1, e2]; rw [hir, e1, e2] at h; exact H.2.1 h
    · intro h; rw [e3]; rw [e3] at h; exact H.2.2.1 h
  by_cases hcor : s.cells.dirty x y = true ∧ y = s.h - 1 ∧ x = s.w - 1 ∧ c.cornerTrick = true
  · exact corner_step hrw hrb hp inv hr hcor.1 hcor.2
  · have e : s.drawCell c x y = s.drawCellPlain c x y := by
      unfold Scr.drawCell
      by_cases hd : ¬ (s.cells.dirty x y = true)
      · rw [if_pos hd]; unfold Scr.drawCellPlain; rw [if_pos hd]
      · have hn : ¬ (y = s.h - 1 ∧ x = s.w - 1 ∧ c.cornerTrick = true) := fun h => hcor ⟨Decidable.not_not.mp hd, h⟩
        rw [if_neg hd, if_neg hn]
    rw [e]; exact plain_step hrw hrb hp inv hr

/-! ## rows, the double loop, a whole draw -/

theorem drawRow_admits {c : DrawCfg} (hrw : RwOk c.rw) (hrb : RwB c.rw) (hp : Utf8Payload c) (y : Int) :
    ∀ (fuel : Nat) (x : Int) (s : Scr) (t : ATerm), 0 ≤ x → 0 ≤ y → y < s.h → AInv c s t →
      AdmitAll c t (Scr.drawRow c y fuel x s).2 ∧ AInv c (Scr.drawRow c y fuel x s).1 (t.applyAll (Scr.drawRow c y fuel x s).2) := by
  intro fuel
  induction fuel with
  | zero => intro x s t _ _ _ inv; exact ⟨trivial, inv⟩
  | succ n ih =>
    intro x s t hx0 hy0 hy1 inv
    rw [drawRow_succ]
    by_cases hlt : x < s.w
    · rw [if_pos hlt]; simp only
      have hr : s.cells.inRange x y := by
        have := inv.buf.cw; have := inv.buf.ch; simp only [inRange_iff]; omega
      obtain ⟨ad, inv', hw⟩ := visit_step hrw hrb hp inv hr
      have hh : (s.visit c x y).1.h = s.h := (visit_rel c s x y).h
      have r := ih (x + (s.visit c x y).2.2) (s.visit c x y).1 (t.applyAll (s.visit c x y).2.1) (by omega) hy0
        (by rw [hh]; exact hy1) inv'
      rw [admitAll_append, applyAll_append]
      exact ⟨⟨ad, r.1⟩, r.2⟩
    · rw [if_neg hlt]; exact ⟨trivial, inv⟩

theorem drawRows_admits {c : DrawCfg} (hrw : RwOk c.rw) (hrb : RwB c.rw) (hp : Utf8Payload c) :
    ∀ (fuel : Nat) (y : Int) (s : Scr) (t : ATerm), 0 ≤ y → AInv c s t →
      AdmitAll c t (Scr.drawRows c fuel y s).2 ∧ AInv c (Scr.drawRows c fuel y s).1 (t.applyAll (Scr.drawRows c fuel y s).2) := by
  intro fuel
  induction fuel with
  | zero => intro y s t _ inv; exact ⟨trivial, inv⟩
  | succ n ih =>
    intro y s t hy0 inv
    rw [drawRows_succ]
    by_cases hlt : y < s.h
    · rw [if_pos hlt]; simp only
      obtain ⟨ad, inv'⟩ := drawRow_admits hrw hrb hp y s.w.toNat 0 s t (by omega) hy0 hlt inv
      have r := ih (y + 1) _ _ (by omega) inv'
      rw [admitAll_append, applyAll_append]
      exact ⟨⟨ad, r.1⟩, r.2⟩
    · rw [if_neg hlt]; exact ⟨trivial, inv⟩

/-- what a draw needs to be admissible: sizes agree, the buffer invariants, at least two columns where the bottom-right corner
    trick is in use (part of Layer A's `CornerSafe`) — nothing about the display -/
structure PreA (c : DrawCfg) (s : Scr) (t : ATerm) : Prop where
  tw : t.w = s.w
  th : t.h = s.h
  buf : BufOkS c s
  ext : BInv c s
  w2 : c.cornerTrick = true → 2 ≤ s.w

/-- **every command of a draw is admissible**, whatever the display holds — the bottom-right corner trick included -/
theorem draw_admits {c : DrawCfg} (hrw : RwOk c.rw) (hrb : RwB c.rw) (hp : Utf8Payload c)
    {s : Scr} {t : ATerm} (pre : PreA c s t) : AdmitAll c t (s.draw c).2 := by
  rw [draw_eq]; simp only
  generalize hs0 : ({ s with cx := -1, cy := -1, curstyle := styleInvalid } : Scr) = s0
  have inv0 : AInv c s0 t := by
    rw [← hs0]
    exact { tw := pre.tw, th := pre.th, buf := ⟨pre.buf.cw, pre.buf.ch, pre.buf.wok, pre.buf.valid⟩,
            kcur := by intro h; simp only [inRange_iff] at h; omega,
            kpen := by intro h; exact absurd rfl h,
            ext := ⟨pre.ext.buf, pre.ext.style, pre.ext.size, pre.ext.ccol⟩, w2 := pre.w2 }
  have hcx0 : s0.cx = -1 ∧ s0.curstyle = styleInvalid := by rw [← hs0]; exact ⟨rfl, rfl⟩
  -- hide: the hide string, or (terminals without one) the cursor parked just outside the bottom-right corner
  obtain ⟨s1, c1, e1, ad1, inv1, hout, hsty⟩ : ∃ s1 c1, s0.hideCursor c = (s1, c1) ∧ AdmitAll c t c1 ∧
      AInv c s1 (t.applyAll c1) ∧ ¬ s1.cells.inRange s1.cx s1.cy ∧ s1.curstyle = styleInvalid := by
    cases hh : c.hasHide
    · refine ⟨{ s0 with cx := s0.cells.w, cy := s0.cells.h }, [.goto s0.cells.w s0.cells.h], by simp [Scr.hideCursor, hh],
        ?_, ?_, ?_, hcx0.2⟩
      · have := inv0.buf.cw; have := inv0.buf.ch; have := inv0.ext.size
        exact ⟨⟨by omega, by omega, by omega, by omega⟩, trivial⟩
      · exact { tw := inv0.tw, th := inv0.th, buf := ⟨inv0.buf.cw, inv0.buf.ch, inv0.buf.wok, inv0.buf.valid⟩,
                kcur := by intro h; simp only [inRange_iff] at h; omega,
                kpen := by intro h; exact absurd hcx0.2 h,
                ext := ⟨inv0.ext.buf, inv0.ext.style, inv0.ext.size, inv0.ext.ccol⟩, w2 := inv0.w2 }
      · intro h; simp only [inRange_iff] at h; omega
    · refine ⟨s0, [.hideCursor], by simp [Scr.hideCursor, hh], ⟨hh, trivial⟩, ?_, ?_, hcx0.2⟩
      · exact { tw := inv0.tw, th := inv0.th, buf := inv0.buf, kcur := inv0.kcur, kpen := inv0.kpen, ext := inv0.ext, w2 := inv0.w2 }
      · intro h; simp only [inRange_iff, hcx0.1] at h; omega
  rw [e1]; simp only
  generalize ht1 : t.applyAll c1 = t1 at inv1
  -- clear
  have S2 : AdmitAll c t1 (if s1.clear then s1.clearScreen else (s1, [])).2 ∧
      AInv c (if s1.clear then s1.clearScreen else (s1, [])).1 (t1.applyAll (if s1.clear then s1.clearScreen else (s1, [])).2) := by
    cases hcl : s1.clear
    · simp only [Bool.false_eq_true, if_false]; exact ⟨trivial, inv1⟩
    · simp only [if_true, Scr.clearScreen]
      refine ⟨⟨trivial, trivial⟩, ?_⟩
      exact { tw := inv1.tw, th := inv1.th, buf := ⟨inv1.buf.cw, inv1.buf.ch, inv1.buf.wok, inv1.buf.valid⟩,
              kcur := fun h => absurd h hout,
              kpen := by intro h; exact absurd hsty h,
              ext := ⟨inv1.ext.buf, inv1.ext.style, inv1.ext.size, inv1.ext.ccol⟩, w2 := inv1.w2 }
  generalize (if s1.clear then s1.clearScreen else (s1, [])) = r2 at S2
  obtain ⟨ad2, inv2⟩ := S2
  generalize ht2 : t1.applyAll r2.2 = t2 at inv2
  -- the double loop
  obtain ⟨ad3, inv3⟩ := drawRows_admits hrw hrb hp r2.1.h.toNat 0 r2.1 t2 (by omega) inv2
  generalize hr3 : Scr.drawRows c r2.1.h.toNat 0 r2.1 = r3 at ad3 inv3
  generalize ht3 : t2.applyAll r3.2 = t3 at inv3
  -- the cursor
  have S4 : AdmitAll c t3 (r3.1.showCursor c).2 := by
    unfold Scr.showCursor; simp only
    split
    · cases hh : c.hasHide
      · have := inv3.buf.cw; have := inv3.buf.ch; have := inv3.ext.size
        simp only [Scr.hideCursor, hh, Bool.false_eq_true, if_false, AdmitAll, Admit, and_true]
        exact ⟨by omega, by omega, by omega, by omega⟩
      · simp [Scr.hideCursor, hh, AdmitAll, Admit]
    · rename_i hin
      have := inv3.buf.cw; have := inv3.buf.ch; have := inv3.ext.size
      exact ⟨⟨by omega, by omega, by omega, by omega⟩, inv3.ext.ccol, trivial⟩
  have ha : AdmitAll c t (c1 ++ r2.2 ++ r3.2 ++ (r3.1.showCursor c).2) := by
    rw [admitAll_append, admitAll_append, admitAll_append]
    refine ⟨⟨⟨ad1, ?_⟩, ?_⟩, ?_⟩
    · rw [ht1]; exact ad2
    · rw [applyAll_append, ht1, ht2]; exact ad3
    · rw [applyAll_append, applyAll_append, ht1, ht2, ht3]; exact S4
  exact ha

end Tcell.LayerB
