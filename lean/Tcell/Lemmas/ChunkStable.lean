import Tcell.Lemmas.ChunkStep
import Tcell.Lemmas.SgrStrict
/-
C02, configuration layer: the hypothesis `Stable cfg` (prefix-free key table, the decidable table guard `keyGuard`,
decoder laws, repaired clipboard parser when that parser is active), priority stability of every ordered pair of
`parsers cfg`, and the resulting `step1_mono` / `collect_append`.
-/
namespace Tcell.Lemmas.Chunk
open Tcell Tcell.Model Tcell.Lemmas.Collect Tcell.Lemmas.PrefixFree Tcell.Lemmas.MouseSeq Tcell.Lemmas.SgrStrict

def isComplete : Verdict → Bool
  | .complete _ _ _ => true
  | _ => false

theorem isComplete_iff (v : Verdict) : isComplete v = true ↔ ∃ n evs st', v = .complete n evs st' := by
  cases v <;> simp [isComplete]

def allStates : List PState := [⟨false, false⟩, ⟨false, true⟩, ⟨true, false⟩, ⟨true, true⟩]

theorem mem_allStates (st : PState) : st ∈ allStates := by
  rcases st with ⟨_ | _, _ | _⟩ <;> simp [allStates]

/-- the parsers tried after `parseFunctionKey` -/
def laterParsers (cfg : Cfg) : List Parser :=
  [parseFocus] ++ (if cfg.mouse then [parseXtermMouse cfg, parseSgrMouse cfg] else [])
  ++ (if cfg.clipboard then [parseClipboardV cfg.clipFixed] else [])

theorem parsers_eq (cfg : Cfg) : parsers cfg = parseRune cfg.dec :: parseFunctionKey cfg.keys :: laterParsers cfg := by
  simp [parsers, laterParsers]

/-- **the decidable table condition** (linear in the total number of key bytes): every sequence is non-empty and starts
with a 7-bit byte (so `parseRune`, which runs first, never competes with a key), and no later parser completes on a
proper prefix of a sequence (checked on the longest proper prefix; monotonicity covers the shorter ones) – otherwise
that parser would win when the read ends inside the key, and the key when it does not -/
def keyGuard (cfg : Cfg) : Bool :=
  cfg.keys.all fun e =>
    (match e.seq with | c :: _ => Nat.blt c 128 | [] => false) &&
    (bytesEq e.seq [27] || (laterParsers cfg).all fun q => allStates.all fun st => !isComplete (q st e.seq.dropLast))

/-- decoder laws: `bound` (see `DecBound`), and `local4`: whether a rune comes out of an input of four or more bytes
is already decided by those bytes (no character of the charset is longer than four bytes) -/
structure DecLaws (dec : Bytes → DecResult) : Prop where
  bound : DecBound dec
  local4 : ∀ p q r n, 4 ≤ p.length → dec (p ++ q) = .out r n → ∃ r' n', dec p = .out r' n'

/-- **hypotheses of the chunking theorem** -/
structure Stable (cfg : Cfg) : Prop where
  /-- no key sequence is a prefix of another (sorted-adjacent certificate `chainOK`) -/
  pf : PrefixFree cfg.keys
  guard : keyGuard cfg = true
  dec : DecLaws cfg.dec
  /-- the pinned `parseClipboard` is not prefix-monotone; where the parser is active it must be the repaired one -/
  clip : cfg.clipboard = true → cfg.clipFixed = true

/-! ### consequences of the guard -/

theorem guard_entry (cfg : Cfg) (hg : keyGuard cfg = true) (e : KeyEntry) (he : e ∈ cfg.keys) :
    (∃ c t, e.seq = c :: t ∧ c < 128) ∧
    (bytesEq e.seq [27] = false → ∀ q ∈ laterParsers cfg, ∀ st, isComplete (q st e.seq.dropLast) = false) := by
  unfold keyGuard at hg
  rw [List.all_eq_true] at hg
  have h := hg e he
  simp only [Bool.and_eq_true, Bool.or_eq_true] at h
  constructor
  · cases hs : e.seq with
    | nil => rw [hs] at h; simp at h
    | cons c t =>
      rw [hs] at h
      exact ⟨c, t, rfl, blt_iff.mp h.1⟩
  · intro hesc q hq st
    rcases h.2 with h2 | h2
    · rw [hesc] at h2; cases h2
    · rw [List.all_eq_true] at h2
      have h3 := h2 q hq
      rw [List.all_eq_true] at h3
      have h4 := h3 st (mem_allStates st)
      simpa using h4

theorem guard_noEmpty (cfg : Cfg) (hg : keyGuard cfg = true) : NoEmptySeq cfg.keys := by
  intro e he h0
  obtain ⟨⟨c, t, hs, _⟩, _⟩ := guard_entry cfg hg e he
  rw [h0] at hs; cases hs

theorem mono_clipV (cfg : Cfg) (hs : Stable cfg) (hc : cfg.clipboard = true) : Mono (parseClipboardV cfg.clipFixed) := by
  rw [hs.clip hc]; exact mono_parseClipboardF

theorem later_mono (cfg : Cfg) (hs : Stable cfg) : ∀ q ∈ laterParsers cfg, Mono q := by
  intro q hq
  unfold laterParsers at hq
  simp only [List.mem_append, List.mem_cons, List.mem_ite_nil_right, List.not_mem_nil, or_false] at hq
  rcases hq with (rfl | ⟨_, (rfl | rfl)⟩) | ⟨hc, rfl⟩
  · exact mono_parseFocus
  · exact mono_parseXtermMouse cfg
  · exact mono_parseSgrMouse cfg
  · exact mono_clipV cfg hs hc

theorem parsers_mono (cfg : Cfg) (hs : Stable cfg) : ∀ p ∈ parsers cfg, Mono p := by
  intro p hp
  rw [parsers_eq] at hp
  rcases List.mem_cons.mp hp with rfl | hp
  · exact mono_parseRune cfg.dec hs.dec.bound
  · rcases List.mem_cons.mp hp with rfl | hp
    · exact mono_parseFunctionKey cfg.keys hs.pf (guard_noEmpty cfg hs.guard)
    · exact later_mono cfg hs p hp

/-! ### minimal length of an SGR report -/

theorem sgrStep_cont_state (s s' : SgrSt) (c : Nat) (h : sgrStep s c = .cont s') :
    s'.state = s.state ∨ (s.state = 0 ∧ s'.state = 1) ∨ (s.state = 0 ∧ s'.state = 2) ∨ (s.state = 1 ∧ s'.state = 2)
    ∨ (s.state = 2 ∧ s'.state = 3) ∨ (s.state = 3 ∧ s'.state = 4) ∨ (s.state = 4 ∧ s'.state = 5) := by
  unfold sgrStep at h
  repeat' split at h
  all_goals first
    | (cases h; done)
    | (cases h; (try dsimp only); omega)

theorem sgrStep_fin_state (s : SgrSt) (c : Nat) (x y btn : Int) (rel : Bool) (h : sgrStep s c = .fin x y btn rel) :
    s.state = 5 := by
  unfold sgrStep at h
  repeat' split at h
  all_goals first
    | (cases h; done)
    | omega

theorem sgrRun_min (cfg : Cfg) (st : PState) (n : Nat) (evs : List Event) (st' : PState) :
    ∀ (r : Bytes) (s : SgrSt) (i : Nat), sgrRun cfg st s r i = .complete n evs st' →
      (s.state ≤ 1 → 5 ≤ r.length) ∧ (s.state = 2 → 4 ≤ r.length) ∧ (s.state = 3 → 3 ≤ r.length)
      ∧ (s.state = 4 → 2 ≤ r.length) ∧ 1 ≤ r.length := by
  intro r
  induction r with
  | nil => intro s i h; simp [sgrRun] at h
  | cons c rest ih =>
    intro s i h
    unfold sgrRun at h
    cases hs : sgrStepV cfg.sgrStrict s c with
    | rej => rw [hs] at h; cases h
    | cont s' =>
      rw [hs] at h
      have := ih s' (i + 1) h
      have ht := sgrStep_cont_state s s' c (sgrStepV_cont _ s s' c hs)
      simp only [List.length_cons]
      omega
    | fin x y btn rel =>
      have := sgrStep_fin_state s c x y btn rel (sgrStepV_fin _ s c x y btn rel hs)
      simp only [List.length_cons]
      omega

theorem parseSgrMouse_min (cfg : Cfg) (st : PState) (a : Bytes) (n : Nat) (evs : List Event) (st' : PState)
    (h : parseSgrMouse cfg st a = .complete n evs st') : 5 ≤ a.length :=
  (sgrRun_min cfg st n evs st' a {} 0 h).1 (by decide)

/-! ### priority stability, pair by pair -/

/-- `parseRune` (first in order) against any later parser whose `complete` verdicts start with a 7-bit byte or are at
least four bytes long -/
theorem prio_rune (dec : Bytes → DecResult) (hd : DecLaws dec) (st : PState) (a b : Bytes) (q : Parser)
    (hq : ∀ c t n evs st', q st (c :: t) = .complete n evs st' → c < 128 ∨ 4 ≤ (c :: t).length) :
    Prio st a b (parseRune dec) q := by
  intro hp hc
  obtain ⟨n, evs, st', hc⟩ := hc
  obtain ⟨c, t, rfl, hc128, hloop⟩ := parseRune_part_head dec st a hp
  have hlen : 4 ≤ (c :: t).length := by
    rcases hq c t n evs st' hc with h | h
    · omega
    · exact h
  have hnone := runeLoop_part dec st (c :: t) _ 1 hloop
  -- on the longer buffer the loop is partial or complete; complete is impossible
  have h1 : ¬ (32 ≤ c ∧ c ≤ 127) := by omega
  have h2 : ¬ c < 128 := by omega
  left
  show parseRune dec st (c :: (t ++ b)) = .part
  unfold parseRune
  simp only [h1, h2, if_false]
  rcases runeLoop_cases dec st (c :: (t ++ b)) (c :: (t ++ b)).length 1 with hpart | ⟨n2, evs2, st2, hcomp⟩
  · exact hpart
  · exfalso
    obtain ⟨l, r, k, hl1, hout⟩ := runeLoop_complete dec st _ n2 evs2 st2 _ 1 hcomp
    have hcat : c :: (t ++ b) = (c :: t) ++ b := rfl
    rw [hcat] at hout
    by_cases hle : l ≤ (c :: t).length
    · rw [List.take_append_of_le_length hle] at hout
      exact hnone l hl1 (by omega) r k hout
    · rw [List.take_append, List.take_of_length_le (by omega)] at hout
      obtain ⟨r', n', hout'⟩ := hd.local4 _ _ _ _ hlen hout
      have : (c :: t).take (c :: t).length = c :: t := List.take_length
      have hx := hnone (c :: t).length (by omega) (by omega) r' n'
      rw [this] at hx
      exact hx hout'

/-- shape of the buffer when `parseFunctionKey` reports partial: a proper prefix of a (non lone-ESC) sequence -/
theorem parseFunctionKey_part_inv (T : KeyTable) (st : PState) (a : Bytes) (h : parseFunctionKey T st a = .part) :
    ∃ e ∈ T, bytesEq e.seq [27] = false ∧ ∃ r, r ≠ [] ∧ e.seq = a ++ r := by
  unfold parseFunctionKey at h
  split at h
  · rename_i hm
    split at h
    · rename_i hpart
      unfold keyPartial at hpart
      rw [List.any_eq_true] at hpart
      obtain ⟨e, he, hpe⟩ := hpart
      simp only [Bool.and_eq_true, Bool.not_eq_true'] at hpe
      obtain ⟨r, hr⟩ := hasPrefix_split e.seq a hpe.2
      refine ⟨e, he, hpe.1, r, ?_, hr⟩
      intro h0
      rw [h0, List.append_nil] at hr
      have : e ∈ keyMatches T a := by
        unfold keyMatches; rw [List.mem_filter]
        refine ⟨he, ?_⟩
        rw [← hr]; simp [hpe.1, hasPrefix_refl]
      rw [hm] at this; cases this
    · cases h
  · unfold keyEvent at h; cases h
  · cases h

/-- `parseFunctionKey` against a later parser: excluded outright by the table guard -/
theorem prio_key (cfg : Cfg) (hg : keyGuard cfg = true) (st : PState) (a b : Bytes) (q : Parser)
    (hq : q ∈ laterParsers cfg) (hm : Mono q) : Prio st a b (parseFunctionKey cfg.keys) q := by
  intro hp hc
  exfalso
  obtain ⟨n, evs, st', hc⟩ := hc
  obtain ⟨e, he, hesc, r, hr0, hr⟩ := parseFunctionKey_part_inv cfg.keys st a hp
  have hdl : e.seq.dropLast = a ++ r.dropLast := by rw [hr, List.dropLast_append_of_ne_nil hr0]
  have hcomp := hm.complete st a r.dropLast n evs st' hc
  have hno := (guard_entry cfg hg e he).2 hesc q hq st
  rw [hdl, hcomp] at hno
  simp [isComplete] at hno

theorem prio_focus (st : PState) (a b : Bytes) (ha : a ≠ []) (q : Parser)
    (h1 : ∀ n evs st', q st [27] ≠ .complete n evs st') (h2 : ∀ n evs st', q st [27, 91] ≠ .complete n evs st') :
    Prio st a b parseFocus q := by
  intro hp hc
  exfalso
  obtain ⟨n, evs, st', hc⟩ := hc
  rcases parseFocus_part_inv st a hp with rfl | rfl | rfl
  · exact ha rfl
  · exact h1 _ _ _ hc
  · exact h2 _ _ _ hc

theorem clipV_short (f : Bool) (st : PState) (a : Bytes) (hl : a.length ≤ 7) (n : Nat) (evs : List Event) (st' : PState) :
    parseClipboardV f st a ≠ .complete n evs st' := by
  unfold parseClipboardV
  cases f
  · simp only [Bool.false_eq_true, if_false]
    unfold parseClipboard
    simp only [hl, if_true]
    split <;> (intro h; cases h)
  · simp only [if_true]
    unfold parseClipboardF
    simp only [hl, if_true]
    split <;> (intro h; cases h)

theorem prio_xterm_sgr (cfg : Cfg) (st : PState) (a b : Bytes) (ha : a ≠ []) :
    Prio st a b (parseXtermMouse cfg) (parseSgrMouse cfg) := by
  intro hp hc
  exfalso
  obtain ⟨n, evs, st', hc⟩ := hc
  rcases parseXtermMouse_part_inv cfg st a hp with rfl | rfl | rfl | ⟨t, rfl⟩ | rfl | ⟨t, rfl⟩
  · exact ha rfl
  · simp [parseSgrMouse, sgrRun, sgrStepV, sgrKnown, sgrStep] at hc
  · simp [parseSgrMouse, sgrRun, sgrStepV, sgrKnown, sgrStep] at hc
  · simp [parseSgrMouse, sgrRun, sgrStepV, sgrKnown, sgrStep] at hc
  · simp [parseSgrMouse, sgrRun, sgrStepV, sgrKnown, sgrStep] at hc
  · simp [parseSgrMouse, sgrRun, sgrStepV, sgrKnown, sgrStep] at hc

/-- a completed (repaired) clipboard reply starts with `ESC ] 5` -/
theorem clipF_complete_head (st : PState) (a : Bytes) (n : Nat) (evs : List Event) (st' : PState)
    (h : parseClipboardF st a = .complete n evs st') : ∃ t, a = 27 :: 93 :: 53 :: t := by
  obtain ⟨_, hp, _⟩ := parseClipboardF_complete_inv st a n evs st' h
  obtain ⟨r, hr⟩ := hasPrefix_split a clipPrefix hp
  exact ⟨[50, 59, 99, 59] ++ r, by rw [hr]; rfl⟩

theorem prio_xterm_clipF (cfg : Cfg) (st : PState) (a b : Bytes) : Prio st a b (parseXtermMouse cfg) parseClipboardF := by
  intro hp hc
  exfalso
  obtain ⟨n, evs, st', hc⟩ := hc
  obtain ⟨t, rfl⟩ := clipF_complete_head st a n evs st' hc
  simp [parseXtermMouse] at hp

theorem prio_sgr_clipF (cfg : Cfg) (st : PState) (a b : Bytes) : Prio st a b (parseSgrMouse cfg) parseClipboardF := by
  intro hp hc
  exfalso
  obtain ⟨n, evs, st', hc⟩ := hc
  obtain ⟨t, rfl⟩ := clipF_complete_head st a n evs st' hc
  cases hst : cfg.sgrStrict <;> simp [parseSgrMouse, sgrRun, sgrStepV, sgrKnown, sgrStep, inNum, hst] at hp

/-- every ordered pair of the parser list is priority stable -/
theorem parsers_prio (cfg : Cfg) (hs : Stable cfg) (st : PState) (a b : Bytes) (ha : a ≠ []) :
    (parsers cfg).Pairwise (Prio st a b) := by
  have hg := hs.guard
  -- completion shapes of the later parsers, as needed by `prio_rune`
  have shape_focus : ∀ c t n evs st', parseFocus st (c :: t) = .complete n evs st' → c < 128 ∨ 4 ≤ (c :: t).length := by
    intro c t n evs st' h
    obtain ⟨c2, r, he, _⟩ := parseFocus_complete_inv st _ n evs st' h
    injection he with h1 _; left; omega
  have shape_x11 : ∀ c t n evs st', parseXtermMouse cfg st (c :: t) = .complete n evs st' → c < 128 ∨ 4 ≤ (c :: t).length := by
    intro c t n evs st' h
    have := (mono_parseXtermMouse cfg).bound st _ n evs st' h
    rcases parseXtermMouse_complete_inv cfg st _ n evs st' h with ⟨_, _, _, _, _, hn⟩ | ⟨_, _, _, _, _, hn⟩ <;> (right; omega)
  have shape_sgr : ∀ c t n evs st', parseSgrMouse cfg st (c :: t) = .complete n evs st' → c < 128 ∨ 4 ≤ (c :: t).length := by
    intro c t n evs st' h
    have := parseSgrMouse_min cfg st _ n evs st' h
    right; omega
  have shape_clip : ∀ c t n evs st', parseClipboardF st (c :: t) = .complete n evs st' → c < 128 ∨ 4 ≤ (c :: t).length := by
    intro c t n evs st' h
    obtain ⟨t', he⟩ := clipF_complete_head st _ n evs st' h
    injection he with h1 _; left; omega
  have shape_key : ∀ c t n evs st', parseFunctionKey cfg.keys st (c :: t) = .complete n evs st' → c < 128 ∨ 4 ≤ (c :: t).length := by
    intro c t n evs st' h
    obtain ⟨e, hm, _⟩ := parseFunctionKey_complete_inv cfg.keys st _ n evs st' h
    obtain ⟨heT, _, hp⟩ := keyMatches_mem cfg.keys _ e (by rw [hm]; simp)
    obtain ⟨⟨c', t', hseq, hlt⟩, _⟩ := guard_entry cfg hg e heT
    rw [hseq] at hp
    simp only [hasPrefix, Bool.and_eq_true] at hp
    have := beq_eq hp.1
    left; omega
  have pr := fun q hq => prio_rune cfg.dec hs.dec st a b q hq
  have pk := fun q hq => prio_key cfg hg st a b q hq (later_mono cfg hs q hq)
  have pf_x := prio_focus st a b ha (parseXtermMouse cfg) (by intro n e s h; simp [parseXtermMouse] at h)
    (by intro n e s h; simp [parseXtermMouse, x11Body] at h)
  have pf_s := prio_focus st a b ha (parseSgrMouse cfg) (by intro n e s h; simp [parseSgrMouse, sgrRun, sgrStepV, sgrKnown, sgrStep] at h)
    (by intro n e s h; simp [parseSgrMouse, sgrRun, sgrStepV, sgrKnown, sgrStep] at h)
  have pf_c := prio_focus st a b ha (parseClipboardV cfg.clipFixed) (clipV_short _ st _ (by decide)) (clipV_short _ st _ (by decide))
  rw [parsers_eq]
  unfold laterParsers at pk ⊢
  cases hm : cfg.mouse <;> cases hc : cfg.clipboard
  · simp only [hm, hc, Bool.false_eq_true, if_false, List.append_nil, List.mem_cons, List.not_mem_nil, or_false,
      forall_eq, List.pairwise_cons, forall_eq_or_imp, List.Pairwise.nil, and_true, false_imp_iff,
      implies_true] at pk ⊢
    exact ⟨⟨pr _ shape_key, pr _ shape_focus⟩, pk⟩
  · have hcf := hs.clip hc
    simp only [hm, hc, hcf, parseClipboardV, Bool.false_eq_true, if_false, if_true, List.append_nil, List.nil_append,
      List.cons_append, List.mem_cons, List.not_mem_nil, or_false,
      forall_eq, List.pairwise_cons, forall_eq_or_imp, List.Pairwise.nil, and_true, false_imp_iff,
      implies_true] at pk pf_c ⊢
    exact ⟨⟨pr _ shape_key, pr _ shape_focus, pr _ shape_clip⟩, pk, pf_c⟩
  · simp only [hm, hc, Bool.false_eq_true, if_false, if_true, List.append_nil, List.nil_append,
      List.cons_append, List.mem_cons, List.not_mem_nil, or_false,
      forall_eq, List.pairwise_cons, forall_eq_or_imp, List.Pairwise.nil, and_true, false_imp_iff,
      implies_true] at pk ⊢
    exact ⟨⟨pr _ shape_key, pr _ shape_focus, pr _ shape_x11, pr _ shape_sgr⟩, pk, ⟨pf_x, pf_s⟩, prio_xterm_sgr cfg st a b ha⟩
  · have hcf := hs.clip hc
    simp only [hm, hc, hcf, parseClipboardV, Bool.false_eq_true, if_false, if_true, List.append_nil, List.nil_append,
      List.cons_append, List.mem_cons, List.not_mem_nil, or_false,
      forall_eq, List.pairwise_cons, forall_eq_or_imp, List.Pairwise.nil, and_true, false_imp_iff,
      implies_true] at pk pf_c ⊢
    exact ⟨⟨pr _ shape_key, pr _ shape_focus, pr _ shape_x11, pr _ shape_sgr, pr _ shape_clip⟩, pk, ⟨pf_x, pf_s, pf_c⟩,
      ⟨prio_xterm_sgr cfg st a b ha, prio_xterm_clipF cfg st a b⟩, prio_sgr_clipF cfg st a b⟩

/-! ### one iteration, then the whole loop -/

theorem step1_mono (cfg : Cfg) (hs : Stable cfg) : StepMono cfg := by
  intro st a b e evs st' rest ha h
  unfold step1 at h ⊢
  refine tryParsers_mono st a b ha (parsers cfg) (parsers_mono cfg hs) (parsers_prio cfg hs st a b ha) ?_ evs st' rest e h
  intro h27
  subst h27
  rw [parsers_eq]
  simp [anyPart, laterParsers, parseFocus]

theorem progress_of_stable (cfg : Cfg) (hs : Stable cfg) : Progress cfg := progress_of_mono cfg (parsers_mono cfg hs)

/-- **chunk independence of `collect`** -/
theorem collect_append_stable (cfg : Cfg) (hs : Stable cfg) (st : PState) (a b : Bytes) (e : Bool) :
    collect cfg st (a ++ b) e = feed2 cfg st a b e :=
  collect_append_of_step cfg (progress_of_stable cfg hs) (step1_mono cfg hs) b e a.length a st (Nat.le_refl _)

/-! ### only `parseFunctionKey` can be order dependent -/

theorem parseRune_ne_amb (dec : Bytes → DecResult) (st : PState) (b : Bytes) : parseRune dec st b ≠ .ambiguous := by
  intro hx
  cases b with
  | nil => simp [parseRune] at hx
  | cons c t =>
    unfold parseRune at hx
    by_cases h1 : 32 ≤ c ∧ c ≤ 127
    · simp [h1] at hx
    · by_cases h2 : c < 128
      · simp [h1, h2] at hx
      · simp only [h1, h2, if_false] at hx
        rcases runeLoop_cases dec st (c :: t) (c :: t).length 1 with hp' | ⟨n, evs, st', hc⟩
        · rw [hp'] at hx; cases hx
        · rw [hc] at hx; cases hx

theorem parseFocus_ne_amb (st : PState) (b : Bytes) : parseFocus st b ≠ .ambiguous := by
  intro h
  unfold parseFocus at h
  repeat' split at h
  all_goals cases h

theorem sgrFinish_ne_amb (cfg : Cfg) (st : PState) (x y btn : Int) (rel : Bool) (k : Nat) :
    sgrFinish cfg st x y btn rel k ≠ .ambiguous := by
  intro h; simp [sgrFinish] at h

theorem parseXtermMouse_ne_amb (cfg : Cfg) (st : PState) (b : Bytes) : parseXtermMouse cfg st b ≠ .ambiguous := by
  intro h
  unfold parseXtermMouse x11Body at h
  repeat' split at h
  all_goals first
    | cases h
    | exact sgrFinish_ne_amb _ _ _ _ _ _ _ h

theorem sgrRun_ne_amb (cfg : Cfg) (st : PState) : ∀ (r : Bytes) (s : SgrSt) (i : Nat), sgrRun cfg st s r i ≠ .ambiguous := by
  intro r
  induction r with
  | nil => intro s i h; simp [sgrRun] at h
  | cons c rest ih =>
    intro s i h
    unfold sgrRun at h
    cases hs : sgrStepV cfg.sgrStrict s c with
    | rej => rw [hs] at h; cases h
    | cont s' => rw [hs] at h; exact ih s' (i + 1) h
    | fin x y btn rel => rw [hs] at h; exact sgrFinish_ne_amb _ _ _ _ _ _ _ h

theorem clipLoopF_ne_amb (st : PState) : ∀ (r : Bytes) (s : Nat) (seen : Bytes), clipLoopF st s seen r ≠ .ambiguous := by
  intro r
  induction r with
  | nil => intro s seen h; cases s <;> simp [clipLoopF] at h
  | cons c rest ih =>
    intro s seen h
    cases s with
    | zero =>
      unfold clipLoopF at h
      by_cases h1 : isB64 c = true
      · simp only [h1, if_true] at h; exact ih 0 _ h
      · by_cases h2 : c = 27
        · simp only [h1, h2, if_true] at h; exact ih 1 _ h
        · simp only [h1, h2, if_false] at h
          by_cases h3 : c = 7 <;> simp [h3] at h
    | succ k =>
      unfold clipLoopF at h
      by_cases h3 : c = 92 <;> simp [h3] at h

theorem parseClipboardF_ne_amb (st : PState) (b : Bytes) : parseClipboardF st b ≠ .ambiguous := by
  intro h
  unfold parseClipboardF at h
  split at h
  · split at h <;> cases h
  · split at h
    · cases h
    · exact clipLoopF_ne_amb st _ 0 [] h

theorem firstHit_amb_mem (st : PState) (b : Bytes) : ∀ ps : List Parser, (∀ p ∈ ps, p st b ≠ .ambiguous) →
    ∀ v, firstHit st b ps = some v → ∃ n evs st', v = .complete n evs st' := by
  intro ps
  induction ps with
  | nil => intro _ v h; simp [firstHit] at h
  | cons p ps ih =>
    intro hall v h
    unfold firstHit at h
    cases hp : p st b with
    | complete n evs st' => rw [hp] at h; simp at h; exact ⟨n, evs, st', h.symm⟩
    | ambiguous => exact absurd hp (hall p (by simp))
    | part => rw [hp] at h; exact ih (fun q hq => hall q (by simp [hq])) v h
    | reject => rw [hp] at h; exact ih (fun q hq => hall q (by simp [hq])) v h

/-- under `Stable` no iteration is order dependent -/
theorem step1_not_ambiguous (cfg : Cfg) (hs : Stable cfg) (st : PState) (b : Bytes) (e : Bool) :
    step1 cfg st b e ≠ .ambiguous := by
  have hall : ∀ p ∈ parsers cfg, p st b ≠ .ambiguous := by
    intro p hp
    rw [parsers_eq] at hp
    rcases List.mem_cons.mp hp with rfl | hp
    · exact parseRune_ne_amb _ _ _
    · rcases List.mem_cons.mp hp with rfl | hp
      · exact parseFunctionKey_not_ambiguous cfg.keys hs.pf st b
      · unfold laterParsers at hp
        simp only [List.mem_append, List.mem_cons, List.mem_ite_nil_right, List.not_mem_nil, or_false] at hp
        rcases hp with (rfl | ⟨_, (rfl | rfl)⟩) | ⟨hc, rfl⟩
        · exact parseFocus_ne_amb st b
        · exact parseXtermMouse_ne_amb cfg st b
        · exact sgrRun_ne_amb cfg st b {} 0
        · rw [hs.clip hc]; exact parseClipboardF_ne_amb st b
  intro h
  unfold step1 at h
  rw [tryParsers_eq] at h
  cases hf : firstHit st b (parsers cfg) with
  | some v =>
    obtain ⟨n, evs, st', rfl⟩ := firstHit_amb_mem st b _ hall v hf
    rw [hf] at h; simp at h
  | none =>
    rw [hf] at h
    simp only at h
    split at h
    · cases b with
      | nil => simp [fallThrough] at h
      | cons c t =>
        unfold fallThrough at h
        by_cases hc : c = 27
        · simp only [hc, if_true] at h
          cases t <;> cases h
        · simp [hc] at h
    · cases h

/-! ### the guard does not depend on decoder, screen size or X11 variant -/

theorem isComplete_sgrFinish (cfg : Cfg) (st : PState) (x y btn : Int) (rel : Bool) (k : Nat) :
    isComplete (sgrFinish cfg st x y btn rel k) = true := by simp [sgrFinish, isComplete]

theorem isComplete_x11Body (cfg cfg' : Cfg) (st : PState) (k : Nat) (r : Bytes) :
    isComplete (x11Body cfg st k r) = isComplete (x11Body cfg' st k r) := by
  rcases r with _ | ⟨m, r2⟩
  · rfl
  · by_cases hm : m = 77
    · subst hm
      rcases r2 with _ | ⟨cb, _ | ⟨cx, _ | ⟨cy, t⟩⟩⟩
      · rfl
      · rfl
      · rfl
      · cases h1 : cfg.x11Fixed <;> cases h2 : cfg'.x11Fixed <;> simp [x11Body, h1, h2, isComplete, sgrFinish]
    · simp [x11Body, hm]

theorem isComplete_xterm (cfg cfg' : Cfg) (st : PState) (a : Bytes) :
    isComplete (parseXtermMouse cfg st a) = isComplete (parseXtermMouse cfg' st a) := by
  rcases a with _ | ⟨c0, r0⟩
  · rfl
  · by_cases h0 : c0 = 27
    · subst h0
      rcases r0 with _ | ⟨c1, r1⟩
      · rfl
      · by_cases h1 : c1 = 91
        · subst h1; simp only [parseXtermMouse, if_true, ne_eq, not_true_eq_false, if_false]
          exact isComplete_x11Body cfg cfg' st 2 r1
        · simp [parseXtermMouse, h1]
    · by_cases h9 : c0 = 0x9b
      · subst h9
        have e1 : parseXtermMouse cfg st (0x9b :: r0) = x11Body cfg st 1 r0 := by simp [parseXtermMouse]
        have e2 : parseXtermMouse cfg' st (0x9b :: r0) = x11Body cfg' st 1 r0 := by simp [parseXtermMouse]
        rw [e1, e2]; exact isComplete_x11Body cfg cfg' st 1 r0
      · simp [parseXtermMouse, h0, h9]

theorem isComplete_sgrRun (cfg cfg' : Cfg) (hst : cfg'.sgrStrict = cfg.sgrStrict) (st : PState) : ∀ (r : Bytes) (s : SgrSt) (i : Nat),
    isComplete (sgrRun cfg st s r i) = isComplete (sgrRun cfg' st s r i) := by
  intro r
  induction r with
  | nil => intro s i; rfl
  | cons c rest ih =>
    intro s i
    unfold sgrRun
    rw [hst]
    cases hs : sgrStepV cfg.sgrStrict s c with
    | rej => rfl
    | cont s' => exact ih s' (i + 1)
    | fin x y btn rel => simp [isComplete_sgrFinish]

/-- the strict loop completes only where the pinned loop completes (it rejects more, accepts nothing new) -/
theorem isComplete_sgrRun_pinned (cfg cfg' : Cfg) (hp : cfg'.sgrStrict = false) (st : PState) : ∀ (r : Bytes) (s : SgrSt) (i : Nat),
    isComplete (sgrRun cfg st s r i) = true → isComplete (sgrRun cfg' st s r i) = true := by
  intro r
  induction r with
  | nil => intro s i h; exact h
  | cons c rest ih =>
    intro s i h
    unfold sgrRun at h ⊢
    rw [hp, sgrStepV_false]
    rcases sgrStepV_cases cfg.sgrStrict s c with e | ⟨e, _, _⟩
    · rw [e] at h
      cases hs : sgrStep s c with
      | rej => rw [hs] at h; exact h
      | cont s' => rw [hs] at h; exact ih s' (i + 1) h
      | fin x y btn rel => simp [isComplete_sgrFinish]
    · rw [e] at h; simp [isComplete] at h

/-- two configurations with the same key table, the same active parsers and the same clipboard and SGR variants have the same guard -/
theorem keyGuard_congr (cfg cfg' : Cfg) (hk : cfg'.keys = cfg.keys) (hm : cfg'.mouse = cfg.mouse)
    (hc : cfg'.clipboard = cfg.clipboard) (hf : cfg'.clipFixed = cfg.clipFixed) (hst : cfg'.sgrStrict = cfg.sgrStrict) :
    keyGuard cfg' = keyGuard cfg := by
  have hl : ∀ s : Bytes, ((laterParsers cfg').all fun q => allStates.all fun st => !isComplete (q st s))
      = ((laterParsers cfg).all fun q => allStates.all fun st => !isComplete (q st s)) := by
    intro s
    unfold laterParsers
    rw [hm, hc, hf]
    cases cfg.mouse <;> cases cfg.clipboard <;>
      simp [isComplete_xterm cfg' cfg, parseSgrMouse, isComplete_sgrRun cfg' cfg hst.symm]
  unfold keyGuard
  rw [hk]
  simp only [hl]

/-- the guard of the pinned SGR variant implies the guard of either variant: the strict parser completes on a prefix of
a key only if the pinned one does -/
theorem keyGuard_of_pinned (cfg cfg' : Cfg) (hk : cfg'.keys = cfg.keys) (hm : cfg'.mouse = cfg.mouse)
    (hc : cfg'.clipboard = cfg.clipboard) (hf : cfg'.clipFixed = cfg.clipFixed) (hp : cfg.sgrStrict = false)
    (hg : keyGuard cfg = true) : keyGuard cfg' = true := by
  have hl : ∀ s : Bytes, ((laterParsers cfg).all fun q => allStates.all fun st => !isComplete (q st s)) = true →
      ((laterParsers cfg').all fun q => allStates.all fun st => !isComplete (q st s)) = true := by
    intro s
    have hsgr : ∀ st, isComplete (parseSgrMouse cfg st s) = false → isComplete (parseSgrMouse cfg' st s) = false := by
      intro st h
      cases h' : isComplete (parseSgrMouse cfg' st s)
      · rfl
      · have := isComplete_sgrRun_pinned cfg' cfg hp st s {} 0 h'
        unfold parseSgrMouse at h; rw [h] at this; cases this
    unfold laterParsers
    rw [hm, hc, hf]
    cases cfg.mouse <;> cases cfg.clipboard <;>
      simp only [Bool.false_eq_true, if_false, if_true, List.append_nil, List.all_cons, List.all_nil,
        List.cons_append, List.nil_append, Bool.and_true, Bool.and_eq_true, List.all_eq_true, Bool.not_eq_true',
        isComplete_xterm cfg' cfg] <;> intro h
    · exact h
    · exact h
    · exact ⟨h.1, h.2.1, fun st hst => hsgr st (h.2.2 st hst)⟩
    · exact ⟨h.1, h.2.1, fun st hst => hsgr st (h.2.2.1 st hst), h.2.2.2⟩
  unfold keyGuard at hg ⊢
  rw [hk]
  rw [List.all_eq_true] at hg ⊢
  intro e he
  have h := hg e he
  simp only [Bool.and_eq_true, Bool.or_eq_true] at h ⊢
  refine ⟨h.1, ?_⟩
  rcases h.2 with h2 | h2
  · left; exact h2
  · right; exact hl _ h2

/-! ### the strict SGR loop consumes report bytes only -/

open Tcell.Spec.SgrGrammar in
/-- invariant of the strict loop (fixes/C02-sgr-strict.patch): if it completes having consumed `n` bytes in all, the
bytes it read from here on (`n - i` of them) are what remains of an SGR report in state `s` -/
theorem sgrRun_grammar (cfg : Cfg) (hs : cfg.sgrStrict = true) (st : PState) (n : Nat) (evs : List Event) (st' : PState) :
    ∀ (r : Bytes) (s : SgrSt) (i : Nat), sgrRun cfg st s r i = .complete n evs st' → okFrom s (r.take (n - i)) = true := by
  intro r
  induction r with
  | nil => intro s i h; simp [sgrRun] at h
  | cons c rest ih =>
    intro s i h
    have hb := sgrRun_bound cfg st n evs st' (c :: rest) s i h
    unfold sgrRun at h
    rw [hs] at h
    cases hstep : sgrStepV true s c with
    | rej => rw [hstep] at h; cases h
    | cont s' =>
      rw [hstep] at h
      have hb' := sgrRun_bound cfg st n evs st' rest s' (i + 1) h
      have ih' := ih s' (i + 1) h
      have e : n - i = (n - (i + 1)) + 1 := by omega
      rw [e, List.take_succ_cons]
      exact okFrom_step s s' c _ hstep ih'
    | fin x y btn rel =>
      rw [hstep] at h
      have hn := sgrFinish_complete cfg st x y btn rel (i + 1) n evs st' h
      have e : n - i = 1 := by omega
      rw [e]
      exact okFrom_fin s c x y btn rel hstep

/-- conversely, either variant of the loop completes on every report remainder, exactly at its last byte, whatever follows -/
theorem sgrRun_of_grammar (cfg : Cfg) (st : PState) (t : Bytes) :
    ∀ (r : Bytes) (s : SgrSt) (i : Nat), okFrom s r = true →
      ∃ evs st', sgrRun cfg st s (r ++ t) i = .complete (i + r.length) evs st' := by
  intro r
  induction r with
  | nil => intro s i h; rw [okFrom_nil] at h; cases h
  | cons c rest ih =>
    intro s i h
    by_cases hr : rest = []
    · subst hr
      obtain ⟨x, y, btn, rel, hf⟩ := okFrom_fin_conv cfg.sgrStrict s c h
      simp only [List.cons_append, List.nil_append, sgrRun, hf, List.length_cons, List.length_nil]
      exact ⟨_, _, rfl⟩
    · obtain ⟨s', hc, hok⟩ := okFrom_step_conv cfg.sgrStrict s c rest hr h
      obtain ⟨evs, st', hrun⟩ := ih s' (i + 1) hok
      refine ⟨evs, st', ?_⟩
      simp only [List.cons_append, sgrRun, hc, List.length_cons]
      rw [hrun]; congr 1; omega

end Tcell.Lemmas.Chunk
