import Tcell.Lemmas.KeyPrefixFree
/-
C02, per-parser layer: **prefix monotonicity** of the six parsers of `collectEventsFromInput`.

`Mono P`: once `P` has reached a verdict `complete` or `reject` on a buffer `a`, it reaches the same verdict (same
consumed length, same events, same state) on every extension `a ++ b`; a `complete n` consumes `1 ≤ n ≤ |a|` bytes.
Proved for parseRune (decoder law `DecBound`), parseFunctionKey (prefix-free table without empty sequences),
parseFocus, parseXtermMouse, parseSgrMouse and the repaired parseClipboard (`parseClipboardF`).  The pinned
parseClipboard is not monotone (counterexamples in `Tcell.Props.C02`).
-/
namespace Tcell.Lemmas.Chunk
open Tcell Tcell.Model Tcell.Lemmas.Collect Tcell.Lemmas.PrefixFree Tcell.Lemmas.MouseSeq

abbrev Parser := PState → Bytes → Verdict

/-- prefix monotonicity and consumption bounds of one parser -/
structure Mono (P : Parser) : Prop where
  complete : ∀ st a b n evs st', P st a = .complete n evs st' → P st (a ++ b) = .complete n evs st'
  reject : ∀ st a b, a ≠ [] → P st a = .reject → P st (a ++ b) = .reject
  bound : ∀ st a n evs st', P st a = .complete n evs st' → 1 ≤ n ∧ n ≤ a.length

/-! ### byte-string prefixes -/

theorem hasPrefix_split : ∀ (b p : Bytes), hasPrefix b p = true → ∃ r, b = p ++ r := by
  intro b p
  induction p generalizing b with
  | nil => intro _; exact ⟨b, rfl⟩
  | cons x p ih =>
    intro h
    cases b with
    | nil => simp [hasPrefix] at h
    | cons y b =>
      simp only [hasPrefix, Bool.and_eq_true] at h
      obtain ⟨r, hr⟩ := ih b h.2
      have := beq_eq h.1
      subst this
      exact ⟨r, by rw [hr]; rfl⟩

theorem hasPrefix_of_append : ∀ (s a b : Bytes), hasPrefix s (a ++ b) = true → hasPrefix s a = true := by
  intro s a
  induction a generalizing s with
  | nil => intro b _; cases s <;> rfl
  | cons x a ih =>
    intro b h
    cases s with
    | nil => simp [hasPrefix] at h
    | cons y s =>
      simp only [List.cons_append, hasPrefix, Bool.and_eq_true] at h ⊢
      exact ⟨h.1, ih s b h.2⟩

theorem hasPrefix_length (b p : Bytes) (h : hasPrefix b p = true) : p.length ≤ b.length := by
  obtain ⟨r, hr⟩ := hasPrefix_split b p h
  rw [hr, List.length_append]; omega

theorem hasPrefix_append_left (a b p : Bytes) (h : hasPrefix a p = true) : hasPrefix (a ++ b) p = true := by
  obtain ⟨r, hr⟩ := hasPrefix_split a p h
  rw [hr, List.append_assoc]
  exact hasPrefix_append _ _

/-! ### parseRune -/

/-- decoder law: a produced rune accounts for at least one and at most all of the bytes handed to the decoder
(`nIn` of `Transform`); it makes every productive iteration of the main loop shorten the buffer -/
def DecBound (dec : Bytes → DecResult) : Prop := ∀ p r n, dec p = .out r n → 1 ≤ n ∧ n ≤ p.length

theorem runeLoop_append (dec : Bytes → DecResult) (st : PState) (a b : Bytes) (n : Nat) (evs : List Event) (st' : PState) :
    ∀ (fuel l extra : Nat), l + fuel ≤ a.length + 1 → runeLoop dec st a fuel l = .complete n evs st' →
      runeLoop dec st (a ++ b) (fuel + extra) l = .complete n evs st' := by
  intro fuel
  induction fuel with
  | zero => intro l extra _ h; simp [runeLoop] at h
  | succ f ih =>
    intro l extra hl h
    have e1 : f + 1 + extra = (f + extra) + 1 := by omega
    rw [e1]
    unfold runeLoop at h ⊢
    have ht : (a ++ b).take l = a.take l := List.take_append_of_le_length (by omega)
    rw [ht]
    cases hd : dec (a.take l) with
    | shortSrc => rw [hd] at h; exact ih (l + 1) extra (by omega) h
    | nothing => rw [hd] at h; exact ih (l + 1) extra (by omega) h
    | out r nIn => rw [hd] at h; exact h

theorem runeLoop_bound (dec : Bytes → DecResult) (hd : DecBound dec) (st : PState) (b : Bytes) (n : Nat) (evs : List Event)
    (st' : PState) : ∀ (fuel l : Nat), runeLoop dec st b fuel l = .complete n evs st' → 1 ≤ n ∧ n ≤ b.length := by
  intro fuel
  induction fuel with
  | zero => intro l h; simp [runeLoop] at h
  | succ f ih =>
    intro l h
    unfold runeLoop at h
    cases hdec : dec (b.take l) with
    | shortSrc => rw [hdec] at h; exact ih (l + 1) h
    | nothing => rw [hdec] at h; exact ih (l + 1) h
    | out r nIn =>
      rw [hdec] at h
      have hb := hd _ _ _ hdec
      have hlen : (b.take l).length ≤ b.length := by rw [List.length_take]; omega
      have hn : nIn = n := by
        by_cases hr : r ≠ runeError
        · simp [hr] at h; exact h.1
        · simp [hr] at h; exact h.1
      omega

/-- a verdict of `runeLoop` that is not `complete` is `part` -/
theorem runeLoop_cases (dec : Bytes → DecResult) (st : PState) (b : Bytes) : ∀ (fuel l : Nat),
    runeLoop dec st b fuel l = .part ∨ ∃ n evs st', runeLoop dec st b fuel l = .complete n evs st' := by
  intro fuel
  induction fuel with
  | zero => intro l; left; rfl
  | succ f ih =>
    intro l
    unfold runeLoop
    cases hdec : dec (b.take l) with
    | shortSrc => exact ih (l + 1)
    | nothing => exact ih (l + 1)
    | out r nIn =>
      right
      by_cases hr : r ≠ runeError
      · exact ⟨nIn, [newEventKey keyRune r (altOf st)], { st with escaped := false }, by simp [hr]⟩
      · exact ⟨nIn, [], st, by simp [hr]⟩

/-- `part` means no prefix tried produced a rune -/
theorem runeLoop_part (dec : Bytes → DecResult) (st : PState) (b : Bytes) : ∀ (fuel l0 : Nat),
    runeLoop dec st b fuel l0 = .part → ∀ l, l0 ≤ l → l < l0 + fuel → ∀ r n, dec (b.take l) ≠ .out r n := by
  intro fuel
  induction fuel with
  | zero => intro l0 _ l h1 h2; omega
  | succ f ih =>
    intro l0 h l h1 h2 r n
    unfold runeLoop at h
    cases hdec : dec (b.take l0) with
    | shortSrc =>
      rw [hdec] at h
      by_cases hl : l = l0
      · subst hl; rw [hdec]; intro hc; cases hc
      · exact ih (l0 + 1) h l (by omega) (by omega) r n
    | nothing =>
      rw [hdec] at h
      by_cases hl : l = l0
      · subst hl; rw [hdec]; intro hc; cases hc
      · exact ih (l0 + 1) h l (by omega) (by omega) r n
    | out r' nIn =>
      rw [hdec] at h
      by_cases hr : r' ≠ runeError
      · simp [hr] at h
      · simp [hr] at h

/-- `complete` means some prefix tried produced a rune -/
theorem runeLoop_complete (dec : Bytes → DecResult) (st : PState) (b : Bytes) (n : Nat) (evs : List Event) (st' : PState) :
    ∀ (fuel l0 : Nat), runeLoop dec st b fuel l0 = .complete n evs st' → ∃ l r k, l0 ≤ l ∧ dec (b.take l) = .out r k := by
  intro fuel
  induction fuel with
  | zero => intro l0 h; simp [runeLoop] at h
  | succ f ih =>
    intro l0 h
    unfold runeLoop at h
    cases hdec : dec (b.take l0) with
    | shortSrc => rw [hdec] at h; obtain ⟨l, r, k, h1, h2⟩ := ih (l0 + 1) h; exact ⟨l, r, k, by omega, h2⟩
    | nothing => rw [hdec] at h; obtain ⟨l, r, k, h1, h2⟩ := ih (l0 + 1) h; exact ⟨l, r, k, by omega, h2⟩
    | out r' nIn => exact ⟨l0, r', nIn, Nat.le_refl _, hdec⟩

/-- shape of the buffer when `parseRune` reports partial: it starts with an 8-bit byte -/
theorem parseRune_part_head (dec : Bytes → DecResult) (st : PState) (a : Bytes) (h : parseRune dec st a = .part) :
    ∃ c t, a = c :: t ∧ 128 ≤ c ∧ runeLoop dec st a a.length 1 = .part := by
  cases a with
  | nil => simp [parseRune] at h
  | cons c t =>
    unfold parseRune at h
    by_cases h1 : 32 ≤ c ∧ c ≤ 127
    · simp [h1] at h
    · by_cases h2 : c < 128
      · simp [h1, h2] at h
      · simp only [h1, h2, if_false] at h
        exact ⟨c, t, rfl, by omega, h⟩

theorem parseRune_complete_head (dec : Bytes → DecResult) (st : PState) (a : Bytes) (n : Nat) (evs : List Event) (st' : PState)
    (h : parseRune dec st a = .complete n evs st') : ∃ c t, a = c :: t ∧ 32 ≤ c := by
  cases a with
  | nil => simp [parseRune] at h
  | cons c t =>
    refine ⟨c, t, rfl, ?_⟩
    unfold parseRune at h
    by_cases h1 : 32 ≤ c ∧ c ≤ 127
    · exact h1.1
    · by_cases h2 : c < 128
      · simp [h1, h2] at h
      · omega

theorem mono_parseRune (dec : Bytes → DecResult) (hd : DecBound dec) : Mono (parseRune dec) where
  complete := by
    intro st a b n evs st' h
    cases a with
    | nil => simp [parseRune] at h
    | cons c t =>
      unfold parseRune at h ⊢
      simp only [List.cons_append]
      by_cases h1 : 32 ≤ c ∧ c ≤ 127
      · simp only [h1, and_self, if_true] at h ⊢; exact h
      · by_cases h2 : c < 128
        · simp [h1, h2] at h
        · simp only [h1, h2, if_false] at h ⊢
          have := runeLoop_append dec st (c :: t) b n evs st' (c :: t).length 1 b.length (by omega) h
          have e : (c :: (t ++ b)).length = (c :: t).length + b.length := by
            simp only [List.length_cons, List.length_append]; omega
          rw [e]; exact this
  reject := by
    intro st a b hne h
    cases a with
    | nil => exact absurd rfl hne
    | cons c t =>
      unfold parseRune at h ⊢
      simp only [List.cons_append]
      by_cases h1 : 32 ≤ c ∧ c ≤ 127
      · simp [h1] at h
      · by_cases h2 : c < 128
        · simp [h1, h2]
        · simp only [h1, h2, if_false] at h
          rcases runeLoop_cases dec st (c :: t) (c :: t).length 1 with hp | ⟨n, evs, st', hc⟩
          · rw [hp] at h; cases h
          · rw [hc] at h; cases h
  bound := by
    intro st a n evs st' h
    cases a with
    | nil => simp [parseRune] at h
    | cons c t =>
      unfold parseRune at h
      by_cases h1 : 32 ≤ c ∧ c ≤ 127
      · simp [h1] at h
        simp only [List.length_cons]; omega
      · by_cases h2 : c < 128
        · simp [h1, h2] at h
        · simp only [h1, h2, if_false] at h
          exact runeLoop_bound dec hd st _ n evs st' _ _ h

/-! ### parseFunctionKey -/

/-- no table entry has the empty sequence (`prepareKeyMod` never inserts one, tscreen.go:252) -/
def NoEmptySeq (T : KeyTable) : Prop := ∀ e ∈ T, e.seq ≠ []

theorem keyEvent_append (st : PState) (a b : Bytes) (e : KeyEntry) (ha : a ≠ []) :
    keyEvent st (a ++ b) e = keyEvent st a e := by
  cases a with
  | nil => exact absurd rfl ha
  | cons c t => rfl

/-- inversion of a `complete` verdict of `parseFunctionKey` -/
theorem parseFunctionKey_complete_inv (T : KeyTable) (st : PState) (a : Bytes) (n : Nat) (evs : List Event) (st' : PState)
    (h : parseFunctionKey T st a = .complete n evs st') :
    ∃ e, keyMatches T a = [e] ∧ keyEvent st a e = .complete n evs st' := by
  unfold parseFunctionKey at h
  split at h
  · split at h <;> cases h
  · rename_i e he; exact ⟨e, he, h⟩
  · cases h

theorem keyMatches_mem (T : KeyTable) (a : Bytes) (e : KeyEntry) (h : e ∈ keyMatches T a) :
    e ∈ T ∧ bytesEq e.seq [27] = false ∧ hasPrefix a e.seq = true := by
  unfold keyMatches at h
  rw [List.mem_filter] at h
  simp only [Bool.and_eq_true, Bool.not_eq_true'] at h
  exact ⟨h.1, h.2.1, h.2.2⟩

theorem mono_parseFunctionKey (T : KeyTable) (hT : PrefixFree T) (hne : NoEmptySeq T) : Mono (parseFunctionKey T) where
  complete := by
    intro st a b n evs st' h
    obtain ⟨e, hm, hev⟩ := parseFunctionKey_complete_inv T st a n evs st' h
    obtain ⟨heT, hesc, hp⟩ := keyMatches_mem T a e (by rw [hm]; simp)
    obtain ⟨r, hr⟩ := hasPrefix_split a e.seq hp
    have ha : a ≠ [] := by
      intro h0; rw [h0] at hr
      have : e.seq = [] := by
        cases hs : e.seq with
        | nil => rfl
        | cons x xs => rw [hs] at hr; simp at hr
      exact hne e heT this
    have hm' : keyMatches T (a ++ b) = [e] := by
      rw [hr, List.append_assoc]; exact keyMatches_unique T hT e heT hesc _
    unfold parseFunctionKey
    rw [hm']
    simp only
    rw [keyEvent_append st a b e ha]; exact hev
  reject := by
    intro st a b _ h
    unfold parseFunctionKey at h
    split at h
    · rename_i hm
      split at h
      · cases h
      · rename_i hpart
        have hm' : keyMatches T (a ++ b) = [] := by
          unfold keyMatches
          rw [List.filter_eq_nil_iff]
          intro e he hpe
          simp only [Bool.and_eq_true, Bool.not_eq_true'] at hpe
          rcases hasPrefix_comparable (a ++ b) e.seq a hpe.2 (hasPrefix_append a b) with h1 | h1
          · -- e.seq is a prefix of a: e would have matched a
            have : e ∈ keyMatches T a := by
              unfold keyMatches; rw [List.mem_filter]; simp [he, hpe.1, h1]
            rw [hm] at this; cases this
          · -- a is a prefix of e.seq: the parser would have been partial on a
            apply hpart
            unfold keyPartial
            rw [List.any_eq_true]
            exact ⟨e, he, by simp [hpe.1, h1]⟩
        have hp' : keyPartial T (a ++ b) = false := by
          cases hk : keyPartial T (a ++ b) with
          | false => rfl
          | true =>
            exfalso
            unfold keyPartial at hk
            rw [List.any_eq_true] at hk
            obtain ⟨e, he, hpe⟩ := hk
            simp only [Bool.and_eq_true, Bool.not_eq_true'] at hpe
            apply hpart
            unfold keyPartial
            rw [List.any_eq_true]
            exact ⟨e, he, by simp [hpe.1, hasPrefix_of_append _ _ _ hpe.2]⟩
        unfold parseFunctionKey
        rw [hm']
        simp [hp']
    · cases h
    · cases h
  bound := by
    intro st a n evs st' h
    obtain ⟨e, hm, hev⟩ := parseFunctionKey_complete_inv T st a n evs st' h
    obtain ⟨heT, _, hp⟩ := keyMatches_mem T a e (by rw [hm]; simp)
    have hn : n = e.seq.length := by
      unfold keyEvent at hev; simp at hev; exact hev.1.symm
    have h1 := hasPrefix_length a e.seq hp
    have h2 : e.seq.length ≠ 0 := by
      intro h0; exact hne e heT (List.eq_nil_of_length_eq_zero h0)
    omega

/-- in a prefix-free table at most one entry matches: `parseFunctionKey` is never order dependent -/
theorem parseFunctionKey_not_ambiguous (T : KeyTable) (hT : PrefixFree T) (st : PState) (a : Bytes) :
    parseFunctionKey T st a ≠ .ambiguous := by
  unfold parseFunctionKey
  split
  · split <;> (intro h; cases h)
  · unfold keyEvent; intro h; cases h
  · rename_i hno1 hno2
    exfalso
    -- two matching entries are comparable, hence equal, contradicting pairwise incomparability
    have hpw : (keyMatches T a).Pairwise Incomparable := by
      unfold keyMatches; exact List.Pairwise.filter _ hT
    cases hm : keyMatches T a with
    | nil => exact hno1 hm
    | cons x l =>
      cases l with
      | nil => exact hno2 x hm
      | cons y l =>
        rw [hm] at hpw
        have hxy : Incomparable x y := (List.pairwise_cons.mp hpw).1 y (by simp)
        have hx := (keyMatches_mem T a x (by rw [hm]; simp)).2.2
        have hy := (keyMatches_mem T a y (by rw [hm]; simp)).2.2
        rcases hasPrefix_comparable a x.seq y.seq hx hy with h | h
        · rw [hxy.1] at h; cases h
        · rw [hxy.2] at h; cases h

/-! ### parseFocus -/

theorem parseFocus_complete_inv (st : PState) (a : Bytes) (n : Nat) (evs : List Event) (st' : PState)
    (h : parseFocus st a = .complete n evs st') :
    ∃ c2 r, a = 27 :: 91 :: c2 :: r ∧ (c2 = 73 ∨ c2 = 79) ∧ n = 3 ∧ evs = [.focus (c2 = 73)] ∧ st' = st := by
  rcases a with _ | ⟨c0, _ | ⟨c1, _ | ⟨c2, r⟩⟩⟩
  · simp [parseFocus] at h
  · by_cases h0 : c0 = 27 <;> simp [parseFocus, h0] at h
  · by_cases h0 : c0 = 27 <;> by_cases h1 : c1 = 91 <;> simp [parseFocus, h0, h1] at h
  · by_cases h0 : c0 = 27
    · by_cases h1 : c1 = 91
      · by_cases h2 : c2 = 73 ∨ c2 = 79
        · simp [parseFocus, h0, h1, h2] at h
          subst h0; subst h1
          exact ⟨c2, r, rfl, h2, h.1.symm, h.2.1.symm, h.2.2.symm⟩
        · simp [parseFocus, h0, h1, h2] at h
      · simp [parseFocus, h0, h1] at h
    · simp [parseFocus, h0] at h

/-- `parseFocus` is partial exactly on `ESC` and `ESC [` (and the empty buffer) -/
theorem parseFocus_part_inv (st : PState) (a : Bytes) (h : parseFocus st a = .part) :
    a = [] ∨ a = [27] ∨ a = [27, 91] := by
  rcases a with _ | ⟨c0, _ | ⟨c1, _ | ⟨c2, r⟩⟩⟩
  · left; rfl
  · by_cases h0 : c0 = 27
    · right; left; rw [h0]
    · simp [parseFocus, h0] at h
  · by_cases h0 : c0 = 27
    · by_cases h1 : c1 = 91
      · right; right; rw [h0, h1]
      · simp [parseFocus, h0, h1] at h
    · simp [parseFocus, h0] at h
  · by_cases h0 : c0 = 27
    · by_cases h1 : c1 = 91
      · by_cases h2 : c2 = 73 ∨ c2 = 79 <;> simp [parseFocus, h0, h1, h2] at h
      · simp [parseFocus, h0, h1] at h
    · simp [parseFocus, h0] at h

theorem mono_parseFocus : Mono parseFocus where
  complete := by
    intro st a b n evs st' h
    obtain ⟨c2, r, rfl, h2, rfl, rfl, rfl⟩ := parseFocus_complete_inv st a n evs st' h
    simp [parseFocus, h2]
  reject := by
    intro st a b hne h
    rcases a with _ | ⟨c0, _ | ⟨c1, _ | ⟨c2, r⟩⟩⟩
    · exact absurd rfl hne
    · by_cases h0 : c0 = 27
      · simp [parseFocus, h0] at h
      · simp [parseFocus, h0]
    · by_cases h0 : c0 = 27
      · by_cases h1 : c1 = 91
        · simp [parseFocus, h0, h1] at h
        · simp [parseFocus, h0, h1]
      · simp [parseFocus, h0]
    · by_cases h0 : c0 = 27
      · by_cases h1 : c1 = 91
        · by_cases h2 : c2 = 73 ∨ c2 = 79
          · simp [parseFocus, h0, h1, h2] at h
          · simp [parseFocus, h0, h1, h2]
        · simp [parseFocus, h0, h1]
      · simp [parseFocus, h0]
  bound := by
    intro st a n evs st' h
    obtain ⟨c2, r, rfl, _, rfl, _, _⟩ := parseFocus_complete_inv st a n evs st' h
    simp only [List.length_cons]; omega

/-! ### parseXtermMouse -/

theorem x11Body_complete_inv (cfg : Cfg) (st : PState) (k : Nat) (r : Bytes) (n : Nat) (evs : List Event) (st' : PState)
    (h : x11Body cfg st k r = .complete n evs st') : ∃ cb cx cy t, r = 77 :: cb :: cx :: cy :: t ∧ n = k + 4 := by
  rcases r with _ | ⟨m, r2⟩
  · simp [x11Body] at h
  · by_cases hm : m = 77
    · subst hm
      rcases r2 with _ | ⟨cb, _ | ⟨cx, _ | ⟨cy, t⟩⟩⟩
      · simp [x11Body] at h
      · simp [x11Body] at h
      · simp [x11Body] at h
      · refine ⟨cb, cx, cy, t, rfl, ?_⟩
        unfold x11Body at h
        simp only [ne_eq, not_true_eq_false, if_false] at h
        by_cases hf : cfg.x11Fixed
        · simp [hf, sgrFinish] at h; exact h.1.symm
        · simp [hf] at h; exact h.1.symm
    · simp [x11Body, hm] at h

theorem x11Body_append (cfg : Cfg) (st : PState) (k : Nat) (r b : Bytes) (n : Nat) (evs : List Event) (st' : PState)
    (h : x11Body cfg st k r = .complete n evs st') : x11Body cfg st k (r ++ b) = .complete n evs st' := by
  obtain ⟨cb, cx, cy, t, rfl, _⟩ := x11Body_complete_inv cfg st k r n evs st' h
  simpa [x11Body] using h

theorem x11Body_reject (cfg : Cfg) (st : PState) (k : Nat) (r b : Bytes)
    (h : x11Body cfg st k r = .reject) : x11Body cfg st k (r ++ b) = .reject := by
  rcases r with _ | ⟨m, r2⟩
  · simp [x11Body] at h
  · by_cases hm : m = 77
    · subst hm
      rcases r2 with _ | ⟨cb, _ | ⟨cx, _ | ⟨cy, t⟩⟩⟩
      · simp [x11Body] at h
      · simp [x11Body] at h
      · simp [x11Body] at h
      · exfalso
        unfold x11Body at h
        simp only [ne_eq, not_true_eq_false, if_false] at h
        by_cases hf : cfg.x11Fixed
        · simp [hf, sgrFinish] at h
        · simp [hf] at h
    · simp [x11Body, hm]

/-- the buffers on which `parseXtermMouse` is partial -/
theorem parseXtermMouse_part_inv (cfg : Cfg) (st : PState) (a : Bytes) (h : parseXtermMouse cfg st a = .part) :
    a = [] ∨ a = [27] ∨ a = [27, 91] ∨ (∃ t, a = 27 :: 91 :: 77 :: t) ∨ a = [0x9b] ∨ (∃ t, a = 0x9b :: 77 :: t) := by
  rcases a with _ | ⟨c0, r0⟩
  · left; rfl
  · by_cases h0 : c0 = 27
    · subst h0
      rcases r0 with _ | ⟨c1, r1⟩
      · right; left; rfl
      · by_cases h1 : c1 = 91
        · subst h1
          rcases r1 with _ | ⟨m, r2⟩
          · right; right; left; rfl
          · by_cases hm : m = 77
            · subst hm; right; right; right; left; exact ⟨r2, rfl⟩
            · simp [parseXtermMouse, x11Body, hm] at h
        · simp [parseXtermMouse, h1] at h
    · by_cases h9 : c0 = 0x9b
      · subst h9
        rcases r0 with _ | ⟨m, r2⟩
        · right; right; right; right; left; rfl
        · by_cases hm : m = 77
          · subst hm; right; right; right; right; right; exact ⟨r2, rfl⟩
          · simp [parseXtermMouse, x11Body, hm] at h
      · simp [parseXtermMouse, h0, h9] at h

theorem parseXtermMouse_complete_inv (cfg : Cfg) (st : PState) (a : Bytes) (n : Nat) (evs : List Event) (st' : PState)
    (h : parseXtermMouse cfg st a = .complete n evs st') :
    (∃ cb cx cy t, a = 27 :: 91 :: 77 :: cb :: cx :: cy :: t ∧ n = 6) ∨ (∃ cb cx cy t, a = 0x9b :: 77 :: cb :: cx :: cy :: t ∧ n = 5) := by
  rcases a with _ | ⟨c0, r0⟩
  · simp [parseXtermMouse] at h
  · by_cases h0 : c0 = 27
    · subst h0
      rcases r0 with _ | ⟨c1, r1⟩
      · simp [parseXtermMouse] at h
      · by_cases h1 : c1 = 91
        · subst h1
          simp only [parseXtermMouse, if_true, ne_eq, not_true_eq_false, if_false] at h
          obtain ⟨cb, cx, cy, t, rfl, hn⟩ := x11Body_complete_inv cfg st 2 r1 n evs st' h
          left; exact ⟨cb, cx, cy, t, rfl, hn⟩
        · simp [parseXtermMouse, h1] at h
    · by_cases h9 : c0 = 0x9b
      · subst h9
        simp only [parseXtermMouse] at h
        have h' : x11Body cfg st 1 r0 = .complete n evs st' := by simpa using h
        obtain ⟨cb, cx, cy, t, rfl, hn⟩ := x11Body_complete_inv cfg st 1 r0 n evs st' h'
        right; exact ⟨cb, cx, cy, t, rfl, hn⟩
      · simp [parseXtermMouse, h0, h9] at h

theorem mono_parseXtermMouse (cfg : Cfg) : Mono (parseXtermMouse cfg) where
  complete := by
    intro st a b n evs st' h
    rcases a with _ | ⟨c0, r0⟩
    · simp [parseXtermMouse] at h
    · by_cases h0 : c0 = 27
      · subst h0
        rcases r0 with _ | ⟨c1, r1⟩
        · simp [parseXtermMouse] at h
        · by_cases h1 : c1 = 91
          · subst h1
            simp only [parseXtermMouse, if_true, ne_eq, not_true_eq_false, if_false, List.cons_append] at h ⊢
            exact x11Body_append cfg st 2 r1 b n evs st' h
          · simp [parseXtermMouse, h1] at h
      · by_cases h9 : c0 = 0x9b
        · subst h9
          have h' : x11Body cfg st 1 r0 = .complete n evs st' := by simpa [parseXtermMouse] using h
          have := x11Body_append cfg st 1 r0 b n evs st' h'
          simpa [parseXtermMouse] using this
        · simp [parseXtermMouse, h0, h9] at h
  reject := by
    intro st a b hne h
    rcases a with _ | ⟨c0, r0⟩
    · exact absurd rfl hne
    · by_cases h0 : c0 = 27
      · subst h0
        rcases r0 with _ | ⟨c1, r1⟩
        · simp [parseXtermMouse] at h
        · by_cases h1 : c1 = 91
          · subst h1
            simp only [parseXtermMouse, if_true, ne_eq, not_true_eq_false, if_false, List.cons_append] at h ⊢
            exact x11Body_reject cfg st 2 r1 b h
          · simp [parseXtermMouse, h1]
      · by_cases h9 : c0 = 0x9b
        · subst h9
          have h' : x11Body cfg st 1 r0 = .reject := by simpa [parseXtermMouse] using h
          have := x11Body_reject cfg st 1 r0 b h'
          simpa [parseXtermMouse] using this
        · simp [parseXtermMouse, h0, h9]
  bound := by
    intro st a n evs st' h
    rcases parseXtermMouse_complete_inv cfg st a n evs st' h with ⟨cb, cx, cy, t, rfl, rfl⟩ | ⟨cb, cx, cy, t, rfl, rfl⟩
    · simp only [List.length_cons]; omega
    · simp only [List.length_cons]; omega

/-! ### parseSgrMouse -/

theorem sgrFinish_complete (cfg : Cfg) (st : PState) (x y btn : Int) (rel : Bool) (k n : Nat) (evs : List Event) (st' : PState)
    (h : sgrFinish cfg st x y btn rel k = .complete n evs st') : n = k := by
  simp [sgrFinish] at h; exact h.1.symm

theorem sgrRun_append (cfg : Cfg) (st : PState) (b : Bytes) (n : Nat) (evs : List Event) (st' : PState) :
    ∀ (r : Bytes) (s : SgrSt) (i : Nat), sgrRun cfg st s r i = .complete n evs st' →
      sgrRun cfg st s (r ++ b) i = .complete n evs st' := by
  intro r
  induction r with
  | nil => intro s i h; simp [sgrRun] at h
  | cons c rest ih =>
    intro s i h
    simp only [List.cons_append]
    unfold sgrRun at h ⊢
    cases hs : sgrStepV cfg.sgrStrict s c with
    | rej => rw [hs] at h; cases h
    | cont s' => rw [hs] at h; exact ih s' (i + 1) h
    | fin x y btn rel => rw [hs] at h; exact h

theorem sgrRun_reject (cfg : Cfg) (st : PState) (b : Bytes) :
    ∀ (r : Bytes) (s : SgrSt) (i : Nat), sgrRun cfg st s r i = .reject → sgrRun cfg st s (r ++ b) i = .reject := by
  intro r
  induction r with
  | nil => intro s i h; simp [sgrRun] at h
  | cons c rest ih =>
    intro s i h
    simp only [List.cons_append]
    unfold sgrRun at h ⊢
    cases hs : sgrStepV cfg.sgrStrict s c with
    | rej => rfl
    | cont s' => rw [hs] at h; exact ih s' (i + 1) h
    | fin x y btn rel => rw [hs] at h; simp [sgrFinish] at h

theorem sgrRun_bound (cfg : Cfg) (st : PState) (n : Nat) (evs : List Event) (st' : PState) :
    ∀ (r : Bytes) (s : SgrSt) (i : Nat), sgrRun cfg st s r i = .complete n evs st' → i + 1 ≤ n ∧ n ≤ i + r.length := by
  intro r
  induction r with
  | nil => intro s i h; simp [sgrRun] at h
  | cons c rest ih =>
    intro s i h
    unfold sgrRun at h
    cases hs : sgrStepV cfg.sgrStrict s c with
    | rej => rw [hs] at h; cases h
    | cont s' =>
      rw [hs] at h
      have := ih s' (i + 1) h
      simp only [List.length_cons]; omega
    | fin x y btn rel =>
      rw [hs] at h
      have := sgrFinish_complete cfg st x y btn rel (i + 1) n evs st' h
      simp only [List.length_cons]; omega

theorem mono_parseSgrMouse (cfg : Cfg) : Mono (parseSgrMouse cfg) where
  complete := fun st a b n evs st' h => sgrRun_append cfg st b n evs st' a {} 0 h
  reject := fun st a b _ h => sgrRun_reject cfg st b a {} 0 h
  bound := by
    intro st a n evs st' h
    have := sgrRun_bound cfg st n evs st' a {} 0 h
    omega

/-! ### the repaired parseClipboard -/

theorem clipLoopF_append (st : PState) (b : Bytes) (n : Nat) (evs : List Event) (st' : PState) :
    ∀ (r : Bytes) (s : Nat) (seen : Bytes), clipLoopF st s seen r = .complete n evs st' →
      clipLoopF st s seen (r ++ b) = .complete n evs st' := by
  intro r
  induction r with
  | nil => intro s seen h; cases s <;> simp [clipLoopF] at h
  | cons c rest ih =>
    intro s seen h
    simp only [List.cons_append]
    cases s with
    | zero =>
      unfold clipLoopF at h ⊢
      by_cases h1 : isB64 c = true
      · simp only [h1, if_true] at h ⊢; exact ih 0 _ h
      · by_cases h2 : c = 27
        · simp only [h1, h2, if_true] at h ⊢; exact ih 1 _ h
        · simp only [h1, h2, if_false] at h ⊢; exact h
    | succ k =>
      unfold clipLoopF at h ⊢
      exact h

theorem clipLoopF_reject (st : PState) (b : Bytes) :
    ∀ (r : Bytes) (s : Nat) (seen : Bytes), clipLoopF st s seen r = .reject → clipLoopF st s seen (r ++ b) = .reject := by
  intro r
  induction r with
  | nil => intro s seen h; cases s <;> simp [clipLoopF] at h
  | cons c rest ih =>
    intro s seen h
    simp only [List.cons_append]
    cases s with
    | zero =>
      unfold clipLoopF at h ⊢
      by_cases h1 : isB64 c = true
      · simp only [h1, if_true] at h ⊢; exact ih 0 _ h
      · by_cases h2 : c = 27
        · simp only [h1, h2, if_true] at h ⊢; exact ih 1 _ h
        · simp only [h1, h2, if_false] at h ⊢; exact h
    | succ k =>
      unfold clipLoopF at h ⊢
      exact h

theorem clipLoopF_bound (st : PState) (n : Nat) (evs : List Event) (st' : PState) :
    ∀ (r : Bytes) (s : Nat) (seen : Bytes), clipLoopF st s seen r = .complete n evs st' →
      7 + seen.length + 1 ≤ n ∧ n ≤ 7 + seen.length + r.length := by
  intro r
  induction r with
  | nil => intro s seen h; cases s <;> simp [clipLoopF] at h
  | cons c rest ih =>
    intro s seen h
    cases s with
    | zero =>
      unfold clipLoopF at h
      by_cases h1 : isB64 c = true
      · simp only [h1, if_true] at h
        have := ih 0 _ h
        simp only [List.length_append, List.length_cons, List.length_nil] at this ⊢; omega
      · by_cases h2 : c = 27
        · simp only [h1, h2, if_true] at h
          have := ih 1 _ h
          simp only [List.length_append, List.length_cons, List.length_nil] at this ⊢; omega
        · simp only [h1, h2, if_false] at h
          by_cases h3 : c = 7
          · simp [h3] at h
            simp only [List.length_cons]; omega
          · simp [h3] at h
    | succ k =>
      unfold clipLoopF at h
      by_cases h3 : c = 92
      · simp [h3] at h
        simp only [List.length_cons]; omega
      · simp [h3] at h

theorem clipPrefix_length : clipPrefix.length = 7 := rfl

/-- a `complete` verdict of the repaired parser starts with the seven prefix bytes -/
theorem parseClipboardF_complete_inv (st : PState) (a : Bytes) (n : Nat) (evs : List Event) (st' : PState)
    (h : parseClipboardF st a = .complete n evs st') :
    7 < a.length ∧ hasPrefix a clipPrefix = true ∧ clipLoopF st 0 [] (a.drop 7) = .complete n evs st' := by
  unfold parseClipboardF at h
  by_cases hl : a.length ≤ 7
  · simp only [hl, if_true] at h
    split at h <;> cases h
  · simp only [hl, if_false] at h
    cases hp : hasPrefix a clipPrefix with
    | false => simp [hp] at h
    | true => simp [hp] at h; exact ⟨by omega, rfl, h⟩

theorem mono_parseClipboardF : Mono parseClipboardF where
  complete := by
    intro st a b n evs st' h
    obtain ⟨hl, hp, hloop⟩ := parseClipboardF_complete_inv st a n evs st' h
    unfold parseClipboardF
    have hl' : ¬ (a ++ b).length ≤ 7 := by rw [List.length_append]; omega
    have hp' := hasPrefix_append_left a b clipPrefix hp
    have hd : (a ++ b).drop 7 = a.drop 7 ++ b := List.drop_append_of_le_length (by omega)
    simp only [hl', if_false, hp', Bool.not_true, Bool.false_eq_true, hd]
    exact clipLoopF_append st b n evs st' _ 0 [] hloop
  reject := by
    intro st a b _ h
    unfold parseClipboardF at h
    by_cases hl : a.length ≤ 7
    · simp only [hl, if_true] at h
      cases hpa : hasPrefix clipPrefix a with
      | true => simp [hpa] at h
      | false =>
        -- a is not a prefix of the 7 prefix bytes; neither is any extension, and no extension starts with them
        have hno : hasPrefix (a ++ b) clipPrefix = false := by
          cases hx : hasPrefix (a ++ b) clipPrefix with
          | false => rfl
          | true =>
            exfalso
            rcases hasPrefix_comparable (a ++ b) clipPrefix a hx (hasPrefix_append a b) with h1 | h1
            · -- clipPrefix is a prefix of a and |a| ≤ 7: a = clipPrefix
              obtain ⟨r, hr⟩ := hasPrefix_split a clipPrefix h1
              have : r = [] := by
                have := congrArg List.length hr
                rw [List.length_append, clipPrefix_length] at this
                exact List.eq_nil_of_length_eq_zero (by omega)
              rw [this, List.append_nil] at hr
              rw [hr, hasPrefix_refl] at hpa; cases hpa
            · rw [h1] at hpa; cases hpa
        unfold parseClipboardF
        by_cases hl' : (a ++ b).length ≤ 7
        · simp only [hl', if_true]
          cases hpb : hasPrefix clipPrefix (a ++ b) with
          | false => simp
          | true => rw [hasPrefix_of_append _ _ _ hpb] at hpa; cases hpa
        · rw [if_neg hl']; simp [hno]
    · simp only [hl, if_false] at h
      cases hp : hasPrefix a clipPrefix with
      | false =>
        have hno : hasPrefix (a ++ b) clipPrefix = false := by
          cases hx : hasPrefix (a ++ b) clipPrefix with
          | false => rfl
          | true =>
            exfalso
            rcases hasPrefix_comparable (a ++ b) clipPrefix a hx (hasPrefix_append a b) with h1 | h1
            · rw [h1] at hp; cases hp
            · have := hasPrefix_length _ _ h1
              rw [clipPrefix_length] at this; omega
        unfold parseClipboardF
        have hl' : ¬ (a ++ b).length ≤ 7 := by rw [List.length_append]; omega
        rw [if_neg hl']; simp [hno]
      | true =>
        simp only [hp, Bool.not_true, Bool.false_eq_true, if_false] at h
        unfold parseClipboardF
        have hl' : ¬ (a ++ b).length ≤ 7 := by rw [List.length_append]; omega
        have hp' := hasPrefix_append_left a b clipPrefix hp
        have hd : (a ++ b).drop 7 = a.drop 7 ++ b := List.drop_append_of_le_length (by omega)
        simp only [hl', if_false, hp', Bool.not_true, Bool.false_eq_true, hd]
        exact clipLoopF_reject st b _ 0 [] h
  bound := by
    intro st a n evs st' h
    obtain ⟨hl, _, hloop⟩ := parseClipboardF_complete_inv st a n evs st' h
    have := clipLoopF_bound st n evs st' _ 0 [] hloop
    simp only [List.length_nil, List.length_drop] at this
    omega

end Tcell.Lemmas.Chunk
