import Tcell.Lemmas.TParm
/-
C15: the TPuts scanner (`strings.Index` for `$<`, then for `>`, `isPadding`) equals the grammar-directed reference
`stripPadding` on every byte string; delays; subsequence.
-/
namespace Tcell.TPuts
open Tcell.TParm Tcell.Spec.TermCaps

/-! ### the reference, fuel-free -/

theorem dropWhile_length_le {α} (p : α → Bool) (l : List α) : (l.dropWhile p).length ≤ l.length :=
  length_dropWhile_le p l

theorem matchPad_length (s rest : Bytes) (h : matchPad s = some rest) : rest.length + 3 ≤ s.length := by
  unfold matchPad at h
  split at h
  · rename_i r
    split at h
    · rename_i rest' heq
      split at h
      · cases h
        have := dropWhile_length_le (· != 62) r
        rw [heq] at this
        simp only [List.length_cons] at this ⊢
        omega
      · cases h
    · cases h
  · cases h

theorem stripAux_fuel (f g : Nat) (s : Bytes) (hf : s.length ≤ f) (hg : s.length ≤ g) : stripAux f s = stripAux g s := by
  induction f using Nat.strongRecOn generalizing g s with
  | _ f ih =>
    cases s with
    | nil => cases f <;> cases g <;> simp [stripAux]
    | cons b r =>
      cases f with
      | zero => simp at hf
      | succ f =>
        cases g with
        | zero => simp at hg
        | succ g =>
          simp only [stripAux]
          simp only [List.length_cons] at hf hg
          cases hm : matchPad (b :: r) with
          | none => simp only; rw [ih f (by omega) g r (by omega) (by omega)]
          | some rest =>
            have := matchPad_length _ _ hm
            simp only [List.length_cons] at this
            simp only; exact ih f (by omega) g rest (by omega) (by omega)

theorem strip_nil : stripPadding [] = [] := rfl

/-- unfolding equation of the reference -/
theorem strip_cons (b : Nat) (r : Bytes) :
    stripPadding (b :: r) = match matchPad (b :: r) with
      | some rest => stripPadding rest
      | none => b :: stripPadding r := by
  unfold stripPadding
  simp only [List.length_cons, stripAux]
  cases hm : matchPad (b :: r) with
  | none => rfl
  | some rest =>
    have := matchPad_length _ _ hm
    simp only [List.length_cons] at this
    simp only
    exact stripAux_fuel _ _ _ (by omega) (Nat.le_refl _)

theorem matchPad_none_of' (b : Nat) (r : Bytes) (h : ¬ (b = 36 ∧ r.head? = some 60)) : matchPad (b :: r) = none := by
  unfold matchPad
  split
  · rename_i heq
    simp only [List.cons.injEq] at heq
    obtain ⟨rfl, rfl⟩ := heq
    exact absurd ⟨rfl, by simp⟩ h
  · rfl

/-- bytes in front of the first `$<` are copied -/
theorem strip_findMarker (s pre post : Bytes) (h : findMarker s = some (pre, post)) :
    stripPadding s = pre ++ stripPadding (36 :: 60 :: post) := by
  induction s generalizing pre with
  | nil => simp [findMarker] at h
  | cons b r ih =>
    simp only [findMarker] at h
    split at h
    · rename_i hb
      simp only [Bool.and_eq_true, beq_iff_eq] at hb
      simp only [Option.some.injEq, Prod.mk.injEq] at h
      obtain ⟨rfl, rfl⟩ := h
      cases r with
      | nil => simp at hb
      | cons c r' =>
        simp only [List.head?_cons, Option.some.injEq] at hb
        simp [hb.1, hb.2]
    · rename_i hb
      have hb' : ¬ (b = 36 ∧ r.head? = some 60) := by simpa using hb
      cases hf : findMarker r with
      | none => simp [hf] at h
      | some pp =>
        obtain ⟨p1, p2⟩ := pp
        simp only [hf, Option.some.injEq, Prod.mk.injEq] at h
        obtain ⟨rfl, rfl⟩ := h
        rw [strip_cons, matchPad_none_of' b r hb']
        simp only [List.cons_append]
        rw [ih p1 hf]

theorem strip_none (s : Bytes) (h : findMarker s = none) : stripPadding s = s := by
  induction s with
  | nil => rfl
  | cons b r ih =>
    simp only [findMarker] at h
    split at h
    · simp at h
    · rename_i hb
      have hb' : ¬ (b = 36 ∧ r.head? = some 60) := by simpa using hb
      have hr : findMarker r = none := by
        cases hfm : findMarker r with
        | none => rfl
        | some p => simp [hfm] at h
      rw [strip_cons, matchPad_none_of' b r hb', ih hr]

theorem findGt_cons_ne (b : Nat) (r : Bytes) (hb : b ≠ 62) :
    findGt (b :: r) = match findGt r with | some (pre, post) => some (b :: pre, post) | none => none := by
  rw [findGt.eq_3 b r (by intro h; exact hb h)]
  rfl

/-- `strings.Index(s, ">")` in terms of `takeWhile`/`dropWhile` -/
theorem findGt_eq (l : Bytes) :
    findGt l = match l.dropWhile (· != 62) with
      | 62 :: rest => some (l.takeWhile (· != 62), rest)
      | _ => none := by
  induction l with
  | nil => rfl
  | cons b r ih =>
    by_cases hb : b = 62
    · subst hb; simp [findGt, List.dropWhile, List.takeWhile]
    · have hne : (b != 62) = true := by simpa using hb
      have := findGt_cons_ne b r hb
      rw [this, ih]
      simp only [List.dropWhile, List.takeWhile, hne]
      cases hd : r.dropWhile (· != 62) with
      | nil => rfl
      | cons x xs =>
        by_cases hx : x = 62
        · subst hx; rfl
        · have : ∀ (α : Type) (u : α) (w : Nat → Bytes → α), (match x :: xs with | 62 :: rest => w 62 rest | _ => u) = u := by
            intro α u w; split
            · rename_i heq; simp only [List.cons.injEq] at heq; exact absurd heq.1 hx
            · rfl
          simp [hx]

theorem findGt_length (post val rest : Bytes) (h : findGt post = some (val, rest)) : rest.length < post.length := by
  rw [findGt_eq] at h
  split at h
  · rename_i rest' heq
    cases h
    have := dropWhile_length_le (· != 62) post
    rw [heq] at this
    simp only [List.length_cons] at this; omega
  · cases h

theorem padContent_eq (val : Bytes) : padContent val = isPadSpec val := rfl

/-- without any `>` nothing can be a padding specification -/
theorem strip_noGt (s : Bytes) (h : ∀ b ∈ s, b ≠ 62) : stripPadding s = s := by
  induction s with
  | nil => rfl
  | cons b r ih =>
    have hm : matchPad (b :: r) = none := by
      unfold matchPad
      split
      · rename_i r' heq
        simp only [List.cons.injEq] at heq
        split
        · rename_i rest hd
          have hmem : (62 : Nat) ∈ r'.dropWhile (· != 62) := by rw [hd]; simp
          have := (List.dropWhile_sublist _).subset hmem
          have h62 := h 62 (by rw [heq.2]; simp [this])
          exact absurd rfl h62
        · rfl
      · rfl
    rw [strip_cons, hm, ih (fun x hx => h x (by simp [hx]))]

theorem findGt_none_noGt (l : Bytes) (h : findGt l = none) : ∀ b ∈ l, b ≠ 62 := by
  induction l with
  | nil => simp
  | cons b r ih =>
    by_cases hb : b = 62
    · subst hb; simp [findGt] at h
    · have := findGt_cons_ne b r hb
      rw [this] at h
      have hr : findGt r = none := by
        cases hfr : findGt r with
        | none => rfl
        | some p => simp [hfr] at h
      intro x hx
      simp only [List.mem_cons] at hx
      rcases hx with rfl | hx
      · exact hb
      · exact ih hr x hx

/-- the reference at a `$<` -/
theorem strip_marker (post : Bytes) :
    stripPadding (36 :: 60 :: post) =
      match findGt post with
      | none => 36 :: 60 :: post
      | some (val, rest) => if isPadSpec val then stripPadding rest else 36 :: 60 :: stripPadding post := by
  rw [strip_cons]
  cases hg : findGt post with
  | none =>
    have hno := findGt_none_noGt post hg
    have hm : matchPad (36 :: 60 :: post) = none := by
      rw [findGt_eq] at hg
      unfold matchPad
      simp only
      split
      · rename_i rest hd; simp [hd] at hg
      · rfl
    rw [hm]
    simp only
    rw [strip_noGt (60 :: post) (by
      intro b hb
      simp only [List.mem_cons] at hb
      rcases hb with rfl | hb
      · decide
      · exact hno b hb)]
  | some p =>
    obtain ⟨val, rest⟩ := p
    rw [findGt_eq] at hg
    simp only
    split at hg
    · rename_i rest' hd
      simp only [Option.some.injEq, Prod.mk.injEq] at hg
      obtain ⟨rfl, rfl⟩ := hg
      by_cases hp : isPadSpec (post.takeWhile (· != 62)) = true
      · have hm : matchPad (36 :: 60 :: post) = some rest' := by
          unfold matchPad; simp only [hd, hp, if_true]
        rw [hm, if_pos hp]
      · have hm : matchPad (36 :: 60 :: post) = none := by
          unfold matchPad; simp only [hd, hp]; rfl
        rw [hm, if_neg hp]
        simp only
        rw [strip_cons, matchPad_none_of' 60 post (by simp)]
    · cases hg

/-! ### the code -/

theorem findMarker_split (s pre post : Bytes) (h : findMarker s = some (pre, post)) :
    s = pre ++ 36 :: 60 :: post := by
  induction s generalizing pre with
  | nil => simp [findMarker] at h
  | cons b r ih =>
    simp only [findMarker] at h
    split at h
    · rename_i hb
      simp only [Bool.and_eq_true, beq_iff_eq] at hb
      simp only [Option.some.injEq, Prod.mk.injEq] at h
      obtain ⟨rfl, rfl⟩ := h
      cases r with
      | nil => simp at hb
      | cons c r' => simp at hb; simp [hb.1, hb.2]
    · cases hf : findMarker r with
      | none => simp [hf] at h
      | some pp =>
        obtain ⟨p1, p2⟩ := pp
        simp only [hf, Option.some.injEq, Prod.mk.injEq] at h
        obtain ⟨rfl, rfl⟩ := h
        simp [ih p1 hf]

theorem findMarker_length (s pre post : Bytes) (h : findMarker s = some (pre, post)) :
    s.length = pre.length + 2 + post.length := by
  have := findMarker_split s pre post h
  rw [this]; simp; omega

/-- output of the repaired scanner, with the accumulator pulled out -/
theorem tputsAux_bytes (pad : Bytes) (f : Nat) (s : Bytes) (o : Out) (hf : s.length < f) :
    (tputsAux true pad f s o).bytes = o.bytes ++ stripPadding s := by
  induction f using Nat.strongRecOn generalizing s o with
  | _ f ih =>
    cases f with
    | zero => omega
    | succ f =>
      simp only [tputsAux]
      cases hm : findMarker s with
      | none => simp only; rw [strip_none s hm]
      | some pp =>
        obtain ⟨pre, post⟩ := pp
        have hlen := findMarker_length s pre post hm
        rw [strip_findMarker s pre post hm, strip_marker]
        simp only
        cases hg : findGt post with
        | none => simp
        | some vr =>
          obtain ⟨val, rest⟩ := vr
          have hrl := findGt_length post val rest hg
          simp only [Bool.true_and, padContent_eq]
          by_cases hp : isPadSpec val = true
          · simp only [hp, Bool.not_true, Bool.false_eq_true, if_false, if_true]
            rw [ih f (by omega) rest _ (by omega)]
            simp
          · have hp' : isPadSpec val = false := by simpa using hp
            simp only [hp', Bool.not_false, if_true, Bool.false_eq_true, if_false]
            rw [ih f (by omega) post _ (by omega)]
            simp

/-! ### delays -/

theorem padSpecsAux_fuel (f g : Nat) (s : Bytes) (hf : s.length ≤ f) (hg : s.length ≤ g) :
    padSpecsAux f s = padSpecsAux g s := by
  induction f using Nat.strongRecOn generalizing g s with
  | _ f ih =>
    cases s with
    | nil => cases f <;> cases g <;> simp [padSpecsAux]
    | cons b r =>
      cases f with
      | zero => simp at hf
      | succ f =>
        cases g with
        | zero => simp at hg
        | succ g =>
          simp only [padSpecsAux]
          simp only [List.length_cons] at hf hg
          cases hm : matchPad (b :: r) with
          | none => simp only; rw [ih f (by omega) g r (by omega) (by omega)]
          | some rest =>
            have := matchPad_length _ _ hm
            simp only [List.length_cons] at this
            simp only; rw [ih f (by omega) g rest (by omega) (by omega)]

theorem padSpecs_cons (b : Nat) (r : Bytes) :
    padSpecs (b :: r) = match matchPad (b :: r) with
      | some rest => (r.tail.takeWhile (· != 62)) :: padSpecs rest
      | none => padSpecs r := by
  unfold padSpecs
  simp only [List.length_cons, padSpecsAux]
  cases hm : matchPad (b :: r) with
  | none => rfl
  | some rest =>
    have := matchPad_length _ _ hm
    simp only [List.length_cons] at this
    simp only
    rw [padSpecsAux_fuel _ _ _ (by omega) (Nat.le_refl _)]

theorem padSpecs_findMarker (s pre post : Bytes) (h : findMarker s = some (pre, post)) :
    padSpecs s = padSpecs (36 :: 60 :: post) := by
  induction s generalizing pre with
  | nil => simp [findMarker] at h
  | cons b r ih =>
    simp only [findMarker] at h
    split at h
    · rename_i hb
      simp only [Bool.and_eq_true, beq_iff_eq] at hb
      simp only [Option.some.injEq, Prod.mk.injEq] at h
      obtain ⟨rfl, rfl⟩ := h
      cases r with
      | nil => simp at hb
      | cons c r' =>
        simp only [List.head?_cons, Option.some.injEq] at hb
        simp [hb.1, hb.2]
    · rename_i hb
      have hb' : ¬ (b = 36 ∧ r.head? = some 60) := by simpa using hb
      cases hf : findMarker r with
      | none => simp [hf] at h
      | some pp =>
        obtain ⟨p1, p2⟩ := pp
        simp only [hf, Option.some.injEq, Prod.mk.injEq] at h
        obtain ⟨rfl, rfl⟩ := h
        rw [padSpecs_cons, matchPad_none_of' b r hb']
        exact ih p1 hf

theorem matchPad_noGt (s : Bytes) (h : ∀ b ∈ s, b ≠ 62) : matchPad s = none := by
  unfold matchPad
  split
  · rename_i r' 
    split
    · rename_i rest hd
      have hmem : (62 : Nat) ∈ r'.dropWhile (· != 62) := by rw [hd]; simp
      have := (List.dropWhile_sublist _).subset hmem
      exact absurd rfl (h 62 (by simp [this]))
    · rfl
  · rfl

theorem padSpecs_noGt (s : Bytes) (h : ∀ b ∈ s, b ≠ 62) : padSpecs s = [] := by
  induction s with
  | nil => rfl
  | cons b r ih =>
    rw [padSpecs_cons, matchPad_noGt _ h]
    exact ih (fun x hx => h x (by simp [hx]))

theorem padSpecs_none (s : Bytes) (h : findMarker s = none) : padSpecs s = [] := by
  induction s with
  | nil => rfl
  | cons b r ih =>
    simp only [findMarker] at h
    split at h
    · simp at h
    · rename_i hb
      have hb' : ¬ (b = 36 ∧ r.head? = some 60) := by simpa using hb
      have hr : findMarker r = none := by
        cases hfm : findMarker r with
        | none => rfl
        | some p => simp [hfm] at h
      rw [padSpecs_cons, matchPad_none_of' b r hb', ih hr]

theorem padSpecs_marker (post : Bytes) :
    padSpecs (36 :: 60 :: post) =
      match findGt post with
      | none => []
      | some (val, rest) => if isPadSpec val then val :: padSpecs rest else padSpecs post := by
  rw [padSpecs_cons]
  cases hg : findGt post with
  | none =>
    have hno := findGt_none_noGt post hg
    have hm : matchPad (36 :: 60 :: post) = none := by
      rw [findGt_eq] at hg
      unfold matchPad
      simp only
      split
      · rename_i rest hd; simp [hd] at hg
      · rfl
    rw [hm]
    simp only
    exact padSpecs_noGt _ (by
      intro b hb
      simp only [List.mem_cons] at hb
      rcases hb with rfl | hb
      · decide
      · exact hno b hb)
  | some p =>
    obtain ⟨val, rest⟩ := p
    rw [findGt_eq] at hg
    simp only
    split at hg
    · rename_i rest' hd
      simp only [Option.some.injEq, Prod.mk.injEq] at hg
      obtain ⟨rfl, rfl⟩ := hg
      by_cases hp : isPadSpec (post.takeWhile (· != 62)) = true
      · have hm : matchPad (36 :: 60 :: post) = some rest' := by
          unfold matchPad; simp only [hd, hp, if_true]
        rw [hm, if_pos hp]
        rfl
      · have hm : matchPad (36 :: 60 :: post) = none := by
          unfold matchPad; simp only [hd, hp]; rfl
        rw [hm, if_neg hp]
        simp only
        rw [padSpecs_cons, matchPad_none_of' 60 post (by simp)]
    · cases hg

/-- the delays the repaired scanner takes (terminal with a pad character) are those of the padding specifications
of the reference grammar, in order -/
theorem tputsAux_delays (pad : Bytes) (hpad : pad.isEmpty = false) (f : Nat) (s : Bytes) (o : Out) (hf : s.length < f) :
    (tputsAux true pad f s o).delays = o.delays ++ (padSpecs s).map delayOf := by
  induction f using Nat.strongRecOn generalizing s o with
  | _ f ih =>
    cases f with
    | zero => omega
    | succ f =>
      simp only [tputsAux]
      cases hm : findMarker s with
      | none => simp only; rw [padSpecs_none s hm]; simp
      | some pp =>
        obtain ⟨pre, post⟩ := pp
        have hlen := findMarker_length s pre post hm
        rw [padSpecs_findMarker s pre post hm, padSpecs_marker]
        simp only
        cases hg : findGt post with
        | none => simp
        | some vr =>
          obtain ⟨val, rest⟩ := vr
          have hrl := findGt_length post val rest hg
          simp only [Bool.true_and, padContent_eq]
          by_cases hp : isPadSpec val = true
          · simp only [hp, Bool.not_true, Bool.false_eq_true, if_false, if_true]
            rw [ih f (by omega) rest _ (by omega)]
            simp [hpad]
          · have hp' : isPadSpec val = false := by simpa using hp
            simp only [hp', Bool.not_false, if_true, Bool.false_eq_true, if_false]
            rw [ih f (by omega) post _ (by omega)]

/-! ### subsequence -/

theorem matchPad_sublist (s rest : Bytes) (h : matchPad s = some rest) : rest.Sublist s := by
  unfold matchPad at h
  split at h
  · rename_i r
    split at h
    · rename_i rest' heq
      split at h
      · cases h
        have h1 : (62 :: rest).Sublist r := by rw [← heq]; exact List.dropWhile_sublist _
        exact ((List.sublist_cons_self 62 rest).trans h1).trans
          ((List.sublist_cons_self 60 r).trans (List.sublist_cons_self 36 _))
      · cases h
    · cases h
  · cases h

theorem strip_sublist (s : Bytes) : (stripPadding s).Sublist s := by
  generalize hn : s.length = n
  induction n using Nat.strongRecOn generalizing s with
  | _ n ih =>
    cases s with
    | nil => exact List.Sublist.refl _
    | cons b r =>
      rw [strip_cons]
      cases hm : matchPad (b :: r) with
      | none =>
        simp only
        simp only [List.length_cons] at hn
        exact List.Sublist.cons₂ b (ih r.length (by omega) r rfl)
      | some rest =>
        simp only
        have hl := matchPad_length _ _ hm
        exact (ih rest.length (by omega) rest rfl).trans (matchPad_sublist _ _ hm)

end Tcell.TPuts
