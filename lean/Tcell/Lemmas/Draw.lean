import Tcell.Lemmas.DrawDefs
namespace Tcell
open Buf

/-! ### GetContent under the width invariant -/

theorem getContent_wok {rw : Rune → Int} (hrw : RwOk rw) (b : Buf) (x y : Int) (hr : b.inRange x y)
    (hw : WOk rw (b.cells x y)) :
    b.getContent x y = (obsMain rw (b.cells x y).currMain, (b.cells x y).currComb, (b.cells x y).currStyle,
                        obsWidth rw (b.cells x y).currMain) := by
  simp only [getContent, if_pos hr, obsMain, obsWidth]
  rcases hw with hw | ⟨hw, hm⟩
  · rw [hw]; split <;> rfl
  · rw [hw, hm, hrw.space]; simp

theorem obsWidth_pos {rw : Rune → Int} (hrw : RwOk rw) (m : Rune) : 1 ≤ obsWidth rw m ∧ obsWidth rw m ≤ 2 := by
  unfold obsWidth
  have := hrw.nonneg m; have := hrw.le2 m
  split <;> omega

theorem obsMain_markClean {rw : Rune → Int} (hrw : RwOk rw) (m : Rune) :
    obsMain rw (if m = 0 then 32 else m) = obsMain rw m ∧ obsWidth rw (if m = 0 then 32 else m) = obsWidth rw m := by
  by_cases h : m = 0
  · subst h; simp [obsMain, obsWidth, hrw.zero, hrw.space]
  · simp [h]

/-! ### the abstract terminal: closed form of printing a glyph -/

namespace ATerm

@[simp] theorem set_w (t : ATerm) (x y c) : (t.set x y c).w = t.w := rfl
@[simp] theorem set_h (t : ATerm) (x y c) : (t.set x y c).h = t.h := rfl
theorem set_grid (t : ATerm) (x y c i j) : (t.set x y c).grid i j = if i = x ∧ j = y then c else t.grid i j := rfl

theorem putAt_grid (t : ATerm) (x y : Int) (bytes : List Nat) (width : Int) (st : Style) (i j : Int) :
    (t.putAt x y bytes width st).grid i j =
      if i = x + 1 ∧ j = y ∧ width > 1 then .cont
      else if i = x ∧ j = y then .shown bytes (decide (width > 1)) st
      else if i = x + 2 ∧ j = y ∧ width > 1 ∧ t.grid (x + 2) y = .cont then .garbage
      else if i = x + 1 ∧ j = y ∧ width ≤ 1 ∧ t.grid (x + 1) y = .cont then .garbage
      else if i = x - 1 ∧ j = y ∧ t.grid x y = .cont then .garbage
      else t.grid i j := by
  unfold putAt
  by_cases hw : width > 1
  · have hw' : ¬ width ≤ 1 := by omega
    simp only [hw, hw', false_and, true_and, if_true, if_false, and_true, decide_true]
    by_cases h1 : t.grid x y = .cont <;> by_cases h3 : t.grid (x + 2) y = .cont <;>
      simp only [h1, h3, if_true, if_false, set_grid, and_true, and_false] <;>
      (repeat' split) <;> first | rfl | (exfalso; omega)
  · have hw' : width ≤ 1 := by omega
    simp only [hw, hw', false_and, true_and, if_false, and_false, decide_false]
    by_cases h1 : t.grid x y = .cont <;> by_cases h2 : t.grid (x + 1) y = .cont <;>
      simp only [h1, h2, if_true, if_false, set_grid, and_true, and_false] <;>
      (repeat' split) <;> first | rfl | (exfalso; omega)

@[simp] theorem putAt_w (t : ATerm) (x y b w st) : (t.putAt x y b w st).w = t.w := by
  unfold putAt; simp only; (repeat' split) <;> rfl
@[simp] theorem putAt_h (t : ATerm) (x y b w st) : (t.putAt x y b w st).h = t.h := by
  unfold putAt; simp only; (repeat' split) <;> rfl
@[simp] theorem putAt_cur (t : ATerm) (x y b w st) : (t.putAt x y b w st).cur = some (x + w, y) := rfl
@[simp] theorem putAt_pen (t : ATerm) (x y b w st) : (t.putAt x y b w st).pen = t.pen := by
  unfold putAt; simp only; (repeat' split) <;> rfl
@[simp] theorem putAt_chaos (t : ATerm) (x y b w st) : (t.putAt x y b w st).chaos = t.chaos := by
  unfold putAt; simp only; (repeat' split) <;> rfl
@[simp] theorem putAt_visible (t : ATerm) (x y b w st) : (t.putAt x y b w st).visible = t.visible := by
  unfold putAt; simp only; (repeat' split) <;> rfl
@[simp] theorem putAt_shape (t : ATerm) (x y b w st) : (t.putAt x y b w st).shape = t.shape := by
  unfold putAt; simp only; (repeat' split) <;> rfl
@[simp] theorem putAt_writes (t : ATerm) (x y b w st) : (t.putAt x y b w st).writes = (x, y) :: t.writes := rfl
theorem putAt_covered (t : ATerm) (x y b w st) : (t.putAt x y b w st).covered =
    if w > 1 then (x + 1, y) :: (x, y) :: t.covered else (x, y) :: t.covered := rfl

end ATerm
end Tcell

namespace Tcell
open Buf

/-! ### explicit form of drawCell on a dirty cell -/

theorem Scr.drawCellPlain_clean (c : DrawCfg) (s : Scr) (x y : Int) (hd : s.cells.dirty x y = false) :
    s.drawCellPlain c x y = (s, [], s.retWidth c x y) := by
  simp [Scr.drawCellPlain, hd]

@[simp] theorem Scr.cellTextG_false (c : DrawCfg) (w x : Int) (m : Rune) (comb : List Rune) (width : Int) :
    Scr.cellTextG c w x m comb width false = Scr.cellText c w x m comb width := by
  simp [Scr.cellTextG]

/-- the text of a dirty cell at (x,y): `cellTextG` of what GetContent reports, narrowed when the guard is compiled in and
the next column is locked -/
def Scr.txAt (c : DrawCfg) (s : Scr) (x y : Int) : List Nat × Int :=
  Scr.cellTextG c s.w x (s.cells.getContent x y).1 (s.cells.getContent x y).2.1 (s.cells.getContent x y).2.2.2
    (c.guardLocked && s.cells.locked (x + 1) y)

theorem Scr.drawCellPlain_dirty (c : DrawCfg) (s : Scr) (x y : Int) (hd : s.cells.dirty x y = true) :
    s.drawCellPlain c x y =
      ({ s with curstyle := resolveStyle s.style (s.cells.getContent x y).2.2.1,
                cx := if (s.txAt c x y).2 > 1 then -1 else x + (s.txAt c x y).2,
                cy := y, cells := s.cells.setDirty x y false },
       (if s.cy ≠ y ∨ s.cx ≠ x then [Cmd.goto x y] else []) ++
         ((if resolveStyle s.style (s.cells.getContent x y).2.2.1 ≠ s.curstyle
            then [Cmd.setPen (resolveStyle s.style (s.cells.getContent x y).2.2.1)] else []) ++
          [Cmd.put (s.txAt c x y).1 (s.txAt c x y).2]),
       (s.txAt c x y).2) := by
  simp only [Scr.drawCellPlain, hd, not_true_eq_false, if_false, Scr.paint, resolveStyle, Scr.txAt]
  by_cases hgo : s.cy ≠ y ∨ s.cx ≠ x
  · simp only [hgo, if_true]; rfl
  · have hx : s.cx = x := by
      by_cases h : s.cx = x
      · exact h
      · exact absurd (Or.inr h) hgo
    have hy : s.cy = y := by
      by_cases h : s.cy = y
      · exact h
      · exact absurd (Or.inl h) hgo
    simp only [hgo, if_false, List.nil_append]
    cases s; simp_all

end Tcell

namespace Tcell
open Buf

theorem cellText_width {c : DrawCfg} (hrw : RwOk c.rw) (w x : Int) (m : Rune) (comb : List Rune) :
    let tx := Scr.cellText c w x (obsMain c.rw m) comb (obsWidth c.rw m)
    (tx.2 = 1 ∨ tx.2 = 2) := by
  have h := obsWidth_pos hrw m
  simp only [Scr.cellText]
  have h1 : ¬ obsWidth c.rw m < 1 := by omega
  simp only [h1, if_false]
  split
  · left; rfl
  · simp only; omega

theorem isDirty_true_unlocked (c : Cell) (h : c.isDirty = true) : c.lock = false := by
  cases hl : c.lock
  · rfl
  · simp [Cell.isDirty, hl] at h

theorem wok_markClean {rw : Rune → Int} (hrw : RwOk rw) (c : Cell) (h : WOk rw c) : WOk rw c.markClean := by
  simp only [WOk, Cell.markClean_width, Cell.markClean_currMain] at h ⊢
  by_cases hz : c.currMain = 0
  · simp only [hz, if_true, and_true]
    rcases h with h1 | h1
    · right; rw [h1, hz, hrw.zero]
    · exact absurd h1.2 (by rw [hz]; decide)
  · simpa [hz] using h

theorem wok_markDirty {rw : Rune → Int} (c : Cell) (h : WOk rw c) : WOk rw c.markDirty := by
  simpa [WOk] using h

@[simp] theorem Cell.markClean_currStyle (c : Cell) : c.markClean.currStyle = c.currStyle := rfl
@[simp] theorem Cell.markClean_currComb (c : Cell) : c.markClean.currComb = c.currComb := rfl
@[simp] theorem Cell.markClean_lastComb (c : Cell) : c.markClean.lastComb = c.currComb := rfl
@[simp] theorem Cell.markClean_lastStyle (c : Cell) : c.markClean.lastStyle = c.currStyle := rfl
@[simp] theorem Cell.markClean_lastMain (c : Cell) : c.markClean.lastMain = if c.currMain = 0 then 32 else c.currMain := rfl
@[simp] theorem Cell.markDirty_lastComb (c : Cell) : c.markDirty.lastComb = c.lastComb := rfl
@[simp] theorem Cell.markDirty_lastStyle (c : Cell) : c.markDirty.lastStyle = c.lastStyle := rfl

/-- GetContent does not see the normalisation done by SetDirty(false) nor the dirty marker -/
theorem getContent_setDirty {rw : Rune → Int} (hrw : RwOk rw) (b : Buf) (x y : Int) (v : Bool)
    (hw : ∀ i j, WOk rw (b.cells i j)) (i j : Int) :
    (b.setDirty x y v).getContent i j = b.getContent i j := by
  have hr : (b.setDirty x y v).inRange i j ↔ b.inRange i j := by simp [inRange_iff]
  by_cases hij : b.inRange i j
  · rw [getContent_wok hrw b i j hij (hw i j)]
    have hw' : WOk rw ((b.setDirty x y v).cells i j) := by
      cases v
      · rw [setDirty_false_cells]; split
        · exact wok_markClean hrw _ (hw i j)
        · exact hw i j
      · rw [setDirty_true_cells]; split
        · exact wok_markDirty _ (hw i j)
        · exact hw i j
    rw [getContent_wok hrw _ i j (hr.2 hij) hw']
    cases v
    · rw [setDirty_false_cells]; split
      · have := obsMain_markClean hrw (b.cells i j).currMain
        simp [this.1, this.2]
      · rfl
    · rw [setDirty_true_cells]; split <;> simp
  · have : ¬ (b.setDirty x y v).inRange i j := fun h => hij (hr.1 h)
    simp [getContent, hij, this]

end Tcell

namespace Tcell
open Buf

theorem shown_wide_ne {b1 b2 : List Nat} {s1 s2 : Style} : ACell.shown b1 false s1 ≠ ACell.shown b2 true s2 := by
  intro h; injection h with _ h2 _; exact absurd h2 (by decide)

/-! ### the guard-aware cell text -/

theorem cellTextG_width {c : DrawCfg} (hrw : RwOk c.rw) (w x : Int) (m : Rune) (comb : List Rune) (nl : Bool) :
    let tx := Scr.cellTextG c w x (obsMain c.rw m) comb (obsWidth c.rw m) nl
    (tx.2 = 1 ∨ tx.2 = 2) := by
  simp only [Scr.cellTextG]
  split
  · left; rfl
  · exact cellText_width hrw w x m comb

theorem cellTextG_true_width (c : DrawCfg) (w x : Int) (m : Rune) (comb : List Rune) (width : Int) :
    (Scr.cellTextG c w x m comb width true).2 = 1 := by
  unfold Scr.cellTextG
  split
  · rfl
  · rename_i h
    have hw : ¬ width > 1 := fun h' => h ⟨rfl, h'⟩
    have e : (if width < 1 then 1 else width) = 1 := by split <;> omega
    simp only [Scr.cellText, e]
    split <;> rfl

theorem cellTextG_narrow (c : DrawCfg) (w x : Int) (m : Rune) (comb : List Rune) (width : Int) (nl : Bool)
    (hw : width ≤ 1) : (Scr.cellTextG c w x m comb width nl).2 = 1 := by
  unfold Scr.cellTextG
  split
  · rfl
  · have e : (if width < 1 then 1 else width) = 1 := by split <;> omega
    simp only [Scr.cellText, e]
    split <;> rfl

theorem cellTextG_of_not (c : DrawCfg) (w x : Int) (m : Rune) (comb : List Rune) (width : Int) (nl : Bool)
    (h : ¬ (nl = true ∧ width > 1)) : Scr.cellTextG c w x m comb width nl = Scr.cellText c w x m comb width := by
  unfold Scr.cellTextG; rw [if_neg h]

theorem cellTextG_of_guard (c : DrawCfg) (w x : Int) (m : Rune) (comb : List Rune) (width : Int) (nl : Bool)
    (h : nl = true ∧ width > 1) : Scr.cellTextG c w x m comb width nl = ([32], 1) := by
  unfold Scr.cellTextG; rw [if_pos h]

@[simp] theorem shownOfG_false (c : DrawCfg) (w x : Int) (m : Rune) (comb : List Rune) (st : Style) :
    shownOfG c w x m comb st false = shownOf c w x m comb st := by
  simp [shownOfG, shownOf]

/-- a rune GetContent reports as one column wide is never shown as a two-column glyph -/
theorem shownOfG_narrow (c : DrawCfg) (w x : Int) (m : Rune) (comb : List Rune) (st : Style) (nl : Bool)
    (h : obsWidth c.rw m ≤ 1) (b : List Nat) (st' : Style) : shownOfG c w x m comb st nl ≠ .shown b true st' := by
  intro h'
  simp only [shownOfG, cellTextG_narrow c w x _ comb _ nl h] at h'
  injection h' with _ h2 _
  simp at h2

/-- the guarded blank is not a two-column glyph either -/
theorem shownOfG_guard (c : DrawCfg) (w x : Int) (m : Rune) (comb : List Rune) (st : Style)
    (h : obsWidth c.rw m > 1) : shownOfG c w x m comb st true = .shown [32] false st := by
  simp only [shownOfG, cellTextG_of_guard c w x _ comb _ true ⟨rfl, h⟩]
  simp

theorem dirty_unlocked (b : Buf) (x y : Int) (hd : b.dirty x y = true) : b.locked x y = false := by
  simp only [dirty] at hd
  simp only [Buf.locked]
  split at hd
  · rename_i hr; rw [if_pos hr]; exact isDirty_true_unlocked _ hd
  · exact absurd hd (by simp)

theorem locked_true_iff (b : Buf) (x y : Int) : b.locked x y = true ↔ (b.inRange x y ∧ (b.cells x y).lock = true) := by
  simp only [Buf.locked]
  split
  · rename_i h; simp [h]
  · rename_i h; simp [h]

/-- `locked` only reads the dimensions and the lock flags -/
theorem locked_congr (b b' : Buf) (hw : b'.w = b.w) (hh : b'.h = b.h) (hl : ∀ i j, (b'.cells i j).lock = (b.cells i j).lock)
    (i j : Int) : b'.locked i j = b.locked i j := by
  simp only [Buf.locked, inRange_iff, hw, hh, hl]

theorem BlankOk.congr {b b' : Buf} {i j : Int} (h : BlankOk b i j) (hw : (b'.cells i j).width = (b.cells i j).width)
    (hl : b'.locked (i + 1) j = b.locked (i + 1) j) (hg : b'.getContent i j = b.getContent i j) : BlankOk b' i j := by
  unfold BlankOk at h ⊢
  rw [hw, hl, hg]; exact h

/-- a clean cell returns the loop's step -/
theorem retWidth_eq_stepW {c : DrawCfg} (hct : c.Plain) (s : Scr) (x y : Int) (hd : s.cells.dirty x y = false) :
    s.retWidth c x y = stepW c s.cells x y := by
  unfold Scr.retWidth stepW
  cases hw : c.walkGuard
  · simp [hd]
  · have := hct.wg hw; simp [this]

theorem retWidth_cases (c : DrawCfg) (s : Scr) (x y : Int) :
    s.retWidth c x y = (s.cells.getContent x y).2.2.2 ∨ (s.retWidth c x y = 1 ∧ s.cells.locked (x + 1) y = true) := by
  unfold Scr.retWidth; split
  · rename_i h; right; exact ⟨rfl, h.2.2⟩
  · left; rfl

/-- the clean branch of one loop iteration -/
theorem visit_clean {c : DrawCfg} (hrw : RwOk c.rw) (hct : c.Plain) {d : Option Style} {s : Scr} {t : ATerm} {x y : Int}
    (inv : PassInv c d s t x y) (hr : s.cells.inRange x y) (hd : s.cells.dirty x y = false) :
    VisitPost c d s t x y (s.visit c x y).1 (t.applyAll (s.visit c x y).2.1) (s.visit c x y).2.2 := by
  have hgc := getContent_wok hrw s.cells x y hr (inv.wok x y)
  have hdc : s.drawCell c x y = (s, [], s.retWidth c x y) := by simp [Scr.drawCell, hd]
  have hwpos := obsWidth_pos hrw (s.cells.cells x y).currMain
  have hgw : (s.cells.getContent x y).2.2.2 = obsWidth c.rw (s.cells.cells x y).currMain := by rw [hgc]
  have hstep := retWidth_eq_stepW hct s x y hd
  have hret := retWidth_cases c s x y
  generalize hrv : s.retWidth c x y = rv at hdc hstep hret
  have hrv1 : 1 ≤ rv := by rcases hret with h | h <;> omega
  -- if the cell is unlocked it is clean with last = curr
  have hclean : (s.cells.cells x y).lock = false →
      (s.cells.cells x y).lastMain ≠ 0 ∧ (s.cells.cells x y).last = (s.cells.cells x y).content := by
    intro hl
    have : (s.cells.cells x y).isDirty = false := by simpa [dirty, hr] using hd
    exact (Cell.isDirty_false_iff _ hl).1 this
  by_cases hwide : rv > 1 ∧ x + 1 < s.w
  · -- wide and not in the last column: the right neighbour is marked dirty
    have hw2 : rv = 2 := by rcases hret with h | h <;> omega
    have hv : s.visit c x y = ({ s with cells := s.cells.setDirty (x + 1) y true }, [], rv) := by
      simp only [Scr.visit, hdc, hwide, and_self, if_true]
    rw [hv]
    have hr1 : s.cells.inRange (x + 1) y := by
      have := inv.cw; simp only [inRange_iff] at hr ⊢; omega
    have hcells : ∀ i j, (s.cells.setDirty (x + 1) y true).cells i j =
        if i = x + 1 ∧ j = y then (s.cells.cells i j).markDirty else s.cells.cells i j := by
      intro i j; rw [setDirty_true_cells]; simp [hr1]
    have hir : ∀ i j, (s.cells.setDirty (x + 1) y true).inRange i j ↔ s.cells.inRange i j := by
      intro i j; simp [inRange_iff]
    have hgcs : ∀ i j, (s.cells.setDirty (x + 1) y true).getContent i j = s.cells.getContent i j :=
      getContent_setDirty hrw s.cells (x + 1) y true inv.wok
    have hlk : ∀ i j, (s.cells.setDirty (x + 1) y true).locked i j = s.cells.locked i j := by
      intro i j; apply locked_congr _ _ (by simp) (by simp)
      intro i' j'; rw [hcells]; split <;> simp
    refine { inv := ?_, wd_pos := hrv1, wd_eq := Or.inl hstep, gc_same := hgcs, lock_same := ?_, other_same := ?_,
             done := ?_, w_same := rfl, h_same := rfl, style_same := rfl, cursor_same := ⟨rfl, rfl, rfl, rfl⟩,
             flags_same := ⟨rfl, rfl⟩, writes := by simp [ATerm.applyAll, hd], vis_same := ⟨rfl, rfl⟩,
             covers := ⟨[], by simp [ATerm.applyAll], by intro _ p hp; simp at hp⟩ }
    · refine { tw := inv.tw, th := inv.th, cw := ?_, ch := ?_, wok := ?_, valid := ?_, g1 := ?_, g2 := ?_, wf := ?_,
               g3 := ?_, kcur := ?_, kpen := inv.kpen, q := ?_, dcompat := inv.dcompat }
      · simpa using inv.cw
      · simpa using inv.ch
      · intro i j; simp only [hcells]; split
        · exact wok_markDirty _ (inv.wok i j)
        · exact inv.wok i j
      · refine ⟨inv.valid.1, ?_⟩
        intro i j; simp only [hcells]; split
        · simpa using inv.valid.2 i j
        · exact inv.valid.2 i j
      · intro i j hrij hl hm
        simp only [hcells] at hl hm ⊢
        simp only [ATerm.applyAll, List.foldl_nil]
        split at hm
        · simp at hm
        · rename_i hne; rw [if_neg hne] at hl ⊢
          obtain ⟨st', nl, a1, a2, a3, a4⟩ := inv.g1 i j ((hir i j).1 hrij) hl hm
          refine ⟨st', nl, a1, a2, a3, fun h1 h2 => ⟨(a4 h1 h2).1, (a4 h1 h2).2.congr ?_ (hlk _ _) (hgcs _ _)⟩⟩
          rw [hcells, if_neg hne]
      · intro i j hrij hcont
        simp only [hcells, ATerm.applyAll, List.foldl_nil] at hcont ⊢
        split
        · right; simp
        · exact inv.g2 i j ((hir i j).1 hrij) hcont
      · intro i j hrij hcont
        exact inv.wf i j ((hir i j).1 hrij) hcont
      · intro i j hrij hl hm b st hsh hlt
        simp only [hcells] at hl hm
        simp only [ATerm.applyAll, List.foldl_nil] at hsh ⊢
        split at hm
        · simp at hm
        · rename_i hne; rw [if_neg hne] at hl; exact inv.g3 i j ((hir i j).1 hrij) hl hm b st hsh hlt
      · intro hcr; exact inv.kcur ((hir _ _).1 hcr)
      · intro h1 h2 _ hl hm
        -- the cell left of x + wd is x + 1 (just marked dirty) since wd = 2
        simp only [hw2, hcells] at hl hm ⊢
        have : x + 2 - 1 = x + 1 := by omega
        rw [this] at hm; simp at hm
    · intro i j; simp only [hcells]; split <;> simp
    · intro i j hne; simp only [hcells]
      simp only [hw2] at hne
      have : ¬ (i = x + 1 ∧ j = y) := by omega
      rw [if_neg this]
    · intro hl
      have hne : ¬ (x = x + 1 ∧ y = y) := by omega
      rw [hcells, if_neg hne]; exact hclean hl
  · have hv : s.visit c x y = (s, [], rv) := by
      simp only [Scr.visit, hdc, hwide, if_false]
    rw [hv]
    refine { inv := ?_, wd_pos := hrv1, wd_eq := Or.inl hstep, gc_same := fun _ _ => rfl, lock_same := fun _ _ => rfl,
             other_same := fun _ _ _ => rfl, done := hclean, w_same := rfl, h_same := rfl, style_same := rfl,
             cursor_same := ⟨rfl, rfl, rfl, rfl⟩, flags_same := ⟨rfl, rfl⟩, writes := by simp [ATerm.applyAll, hd],
             vis_same := ⟨rfl, rfl⟩, covers := ⟨[], by simp [ATerm.applyAll], by intro _ p hp; simp at hp⟩ }
    refine { toSyncInv := inv.toSyncInv, kcur := inv.kcur, kpen := inv.kpen, q := ?_, dcompat := inv.dcompat }
    intro h1 h2 hlx hl hm b st hsh
    simp only [ATerm.applyAll, List.foldl_nil] at hsh
    simp only at h1 h2 hlx hl hm hsh
    by_cases hw1 : rv = 1
    · -- one column: the cell left of x+1 is x itself
      have e : x + rv - 1 = x := by omega
      rw [e] at hl hm hsh
      rw [hw1] at hlx
      rcases hret with hg | hg
      · -- narrow rune: if unlocked it is clean with last = curr, of width 1
        have hc := hclean hl
        have hlm : (s.cells.cells x y).lastMain = (s.cells.cells x y).currMain := by
          have := hc.2; simp only [Cell.last, Cell.content] at this; injection this
        obtain ⟨st', nl, a1, _⟩ := inv.g1 x y hr hl hm
        rw [a1, hlm] at hsh
        exact shownOfG_narrow c s.w x _ _ st' nl (by omega) b st hsh
      · -- a wide rune counted as one column: its right neighbour is locked, but the visit position is not
        have := ((locked_true_iff _ _ _).1 hg.2).2
        rw [this] at hlx; exact absurd hlx (by decide)
    · -- wide in the last column: x + wd ≥ w, nothing to show
      exfalso; rcases hret with h | h <;> omega

end Tcell

namespace Tcell
open Buf

theorem resolveStyle_valid (dflt st : Style) (h1 : dflt.attrs ≠ attrInvalid) (h2 : st.attrs ≠ attrInvalid) :
    resolveStyle dflt st ≠ styleInvalid := by
  unfold resolveStyle styleInvalid
  split
  · intro h; apply h1; rw [h]
  · intro h; apply h2; rw [h]

/-- the dirty branch of one loop iteration (no bottom-right corner trick; locked-neighbour guard compiled in or not) -/
theorem visit_dirty {c : DrawCfg} (hrw : RwOk c.rw) (hct : c.Plain) {d : Option Style} {s : Scr} {t : ATerm}
    {x y : Int} (inv : PassInv c d s t x y) (hr : s.cells.inRange x y) (hd : s.cells.dirty x y = true) :
    VisitPost c d s t x y (s.visit c x y).1 (t.applyAll (s.visit c x y).2.1) (s.visit c x y).2.2 := by
  have hgc := getContent_wok hrw s.cells x y hr (inv.wok x y)
  have hdc : s.drawCell c x y = s.drawCellPlain c x y := by simp [Scr.drawCell, hd, hct.ct]
  have hlock : (s.cells.cells x y).lock = false := by
    apply isDirty_true_unlocked; simpa [dirty, hr] using hd
  have hcw := inv.cw; have hch := inv.ch; have htw := inv.tw; have hth := inv.th
  have hxy : 0 ≤ x ∧ x < s.w ∧ 0 ≤ y ∧ y < s.h := by simp only [inRange_iff] at hr; omega
  have hwokxy : (s.cells.cells x y).width = c.rw (s.cells.cells x y).currMain ∨
      ((s.cells.cells x y).width = 0 ∧ (s.cells.cells x y).currMain = 32) := inv.wok x y
  -- abbreviations
  generalize hnlb : (c.guardLocked && s.cells.locked (x + 1) y) = nlb
  generalize hcwd : (s.cells.cells x y).width = cwd at hwokxy
  generalize hcm : (s.cells.cells x y).currMain = cm at *
  generalize hcomb : (s.cells.cells x y).currComb = comb at *
  generalize hcst : (s.cells.cells x y).currStyle = cst at *
  have htxw := cellTextG_width hrw s.w x cm comb nlb
  -- the loop's step, computed before the text is abbreviated
  have hwdeq : (Scr.cellTextG c s.w x (obsMain c.rw cm) comb (obsWidth c.rw cm) nlb).2 = stepW c s.cells x y ∨
      (x + (Scr.cellTextG c s.w x (obsMain c.rw cm) comb (obsWidth c.rw cm) nlb).2 ≥ s.w ∧ x + stepW c s.cells x y ≥ s.w) := by
    have hp := obsWidth_pos hrw cm
    unfold stepW; rw [hgc]; simp only [hd, or_true, and_true]
    by_cases hg : c.guardLocked = true ∧ obsWidth c.rw cm > 1 ∧ s.cells.locked (x + 1) y = true
    · rw [if_pos hg]
      have : nlb = true := by rw [← hnlb, hg.1, hg.2.2]; rfl
      left; rw [cellTextG_of_guard _ _ _ _ _ _ _ ⟨this, hg.2.1⟩]
    · rw [if_neg hg]
      have hn : ¬ (nlb = true ∧ obsWidth c.rw cm > 1) := by
        intro h; apply hg
        have h1 := h.1; rw [← hnlb, Bool.and_eq_true] at h1
        exact ⟨h1.1, h.2, h1.2⟩
      rw [cellTextG_of_not _ _ _ _ _ _ _ hn]
      simp only [Scr.cellText]
      have h1 : ¬ obsWidth c.rw cm < 1 := by omega
      simp only [h1, if_false]
      split
      · right; simp only; omega
      · left; rfl
  -- with the guard compiled in, a two-column text is only produced when the next column is not locked
  have hguard : c.guardLocked = true → (Scr.cellTextG c s.w x (obsMain c.rw cm) comb (obsWidth c.rw cm) nlb).2 > 1 →
      s.cells.locked (x + 1) y = false := by
    intro hg hw
    cases hl : s.cells.locked (x + 1) y
    · rfl
    · have : nlb = true := by rw [← hnlb, hg, hl]; rfl
      rw [this, cellTextG_true_width] at hw; omega
  -- the guarded blank: what the invariant remembers
  have hblank : nlb = true → obsWidth c.rw cm > 1 → c.guardLocked = true ∧ 0 < cwd ∧ s.cells.locked (x + 1) y = true := by
    intro h1 h2
    rw [← hnlb, Bool.and_eq_true] at h1
    refine ⟨h1.1, ?_, h1.2⟩
    have hz : ¬ (c.rw cm = 0 ∨ cm < 32) := by intro h; simp only [obsWidth, if_pos h] at h2; omega
    simp only [obsWidth, if_neg hz] at h2
    rcases hwokxy with h | h
    · omega
    · rw [h.2, hrw.space] at h2; omega
  generalize htx : Scr.cellTextG c s.w x (obsMain c.rw cm) comb (obsWidth c.rw cm) nlb = tx at *
  generalize hstyle : resolveStyle s.style cst = style at *
  have hstv : style ≠ styleInvalid := by
    rw [← hstyle]; apply resolveStyle_valid _ _ inv.valid.1
    have := inv.valid.2 x y; rw [hcst] at this; exact this
  -- explicit result of drawCell
  have hdp := Scr.drawCellPlain_dirty c s x y hd
  simp only [Scr.txAt, hgc, hnlb, htx, hstyle] at hdp
  -- the terminal just before the glyph is printed
  have hterm : t.applyAll ((if s.cy ≠ y ∨ s.cx ≠ x then [Cmd.goto x y] else []) ++
      ((if style ≠ s.curstyle then [Cmd.setPen style] else []) ++ [Cmd.put tx.1 tx.2])) =
      ({ t with cur := some (x, y), pen := some style } : ATerm).putAt x y tx.1 tx.2 style := by
    have happ : ∀ (t1 : ATerm) (l1 l2 : List Cmd), t1.applyAll (l1 ++ l2) = (t1.applyAll l1).applyAll l2 := by
      intro t1 l1 l2; simp [ATerm.applyAll, List.foldl_append]
    have hcur : (t.applyAll (if s.cy ≠ y ∨ s.cx ≠ x then [Cmd.goto x y] else [])) = { t with cur := some (x, y) } := by
      by_cases hg : s.cy ≠ y ∨ s.cx ≠ x
      · rw [if_pos hg]
        show t.apply (Cmd.goto x y) = _
        simp only [ATerm.apply, ATerm.clampX, ATerm.clampY]
        have h1 : ¬ x < 0 := by omega
        have h2 : ¬ x ≥ t.w := by omega
        have h3 : ¬ y < 0 := by omega
        have h4 : ¬ y ≥ t.h := by omega
        simp only [h1, h2, h3, h4, if_false]
      · have hx : s.cx = x := by
          by_cases h : s.cx = x
          · exact h
          · exact absurd (Or.inr h) hg
        have hy : s.cy = y := by
          by_cases h : s.cy = y
          · exact h
          · exact absurd (Or.inl h) hg
        have := inv.kcur (by rw [hx, hy]; exact hr)
        rw [hx, hy] at this
        rw [if_neg hg]
        show t = _
        cases t; simp_all
    have hpen : (({ t with cur := some (x, y) } : ATerm).applyAll (if style ≠ s.curstyle then [Cmd.setPen style] else [])) =
        { t with cur := some (x, y), pen := some style } := by
      by_cases hp : style ≠ s.curstyle
      · rw [if_pos hp]; rfl
      · have he : style = s.curstyle := by
          by_cases h : style = s.curstyle
          · exact h
          · exact absurd h hp
        have := inv.kpen (by rw [← he]; exact hstv)
        rw [← he] at this
        rw [if_neg hp]
        show ({ t with cur := some (x, y) } : ATerm) = _
        cases t; simp_all
    rw [happ, happ, hcur, hpen]
    show ({ t with cur := some (x, y), pen := some style } : ATerm).apply (Cmd.put tx.1 tx.2) = _
    have hig : ({ t with cur := some (x, y), pen := some style } : ATerm).inGrid x y := by
      simp only [ATerm.inGrid]; omega
    simp only [ATerm.apply, hig, if_true]
  -- name the terminal before the print
  generalize ht0 : ({ t with cur := some (x, y), pen := some style } : ATerm) = t0 at hterm
  have ht0g : ∀ i j, t0.grid i j = t.grid i j := by intro i j; rw [← ht0]
  have ht0w : t0.writes = t.writes := by rw [← ht0]
  have ht0cov : t0.covered = t.covered := by rw [← ht0]
  have ht0c : t0.chaos = t.chaos := by rw [← ht0]
  have ht0v : t0.visible = t.visible ∧ t0.shape = t.shape := by rw [← ht0]; exact ⟨rfl, rfl⟩
  have ht0d : t0.w = t.w ∧ t0.h = t.h := by rw [← ht0]; exact ⟨rfl, rfl⟩
  -- facts about the printed terminal, phrased on the original grid
  have hgrid : ∀ i j, (t0.putAt x y tx.1 tx.2 style).grid i j =
      if i = x + 1 ∧ j = y ∧ tx.2 > 1 then .cont
      else if i = x ∧ j = y then .shown tx.1 (decide (tx.2 > 1)) style
      else if i = x + 2 ∧ j = y ∧ tx.2 > 1 ∧ t.grid (x + 2) y = .cont then .garbage
      else if i = x + 1 ∧ j = y ∧ tx.2 ≤ 1 ∧ t.grid (x + 1) y = .cont then .garbage
      else if i = x - 1 ∧ j = y ∧ t.grid x y = .cont then .garbage
      else t.grid i j := by
    intro i j; rw [ATerm.putAt_grid]; simp only [ht0g]
  -- the cell left of x, if clean and unlocked, is narrow on the terminal, hence (x,y) is not a continuation of it
  have hq : ∀ (hx1 : 1 ≤ x), (s.cells.cells (x - 1) y).lock = false → (s.cells.cells (x - 1) y).lastMain ≠ 0 →
      t.grid x y ≠ .cont := by
    intro hx1 hl hm hcont
    obtain ⟨b, st, hwf⟩ := inv.wf x y hr hcont
    exact inv.q hx1 hxy.2.1 hlock hl hm b st hwf
  -- new last of the painted cell shows exactly what was printed
  have hshown : shownOfG c s.w x (if cm = 0 then 32 else cm) comb style nlb = .shown tx.1 (decide (tx.2 > 1)) style := by
    have := obsMain_markClean hrw cm
    simp only [shownOfG, this.1, this.2, htx]
  have hstyle1 : cst ≠ {} → style = cst := by
    intro h; rw [← hstyle]; simp [resolveStyle, h]
  have hstyle2 : cst = {} → ∀ d', d = some d' → style = d' := by
    intro h d' hd'; rw [← hstyle]; simp only [resolveStyle, h, if_true]; exact (inv.dcompat d' hd').symm
  -- the common part of the new buffer: (x,y) marked clean
  have hc1 : ∀ i j, (s.cells.setDirty x y false).cells i j =
      if i = x ∧ j = y then (s.cells.cells i j).markClean else s.cells.cells i j := by
    intro i j; rw [setDirty_false_cells]; simp [hr]
  have hwok1 : ∀ i j, WOk c.rw ((s.cells.setDirty x y false).cells i j) := by
    intro i j; rw [hc1]; split
    · exact wok_markClean hrw _ (inv.wok i j)
    · exact inv.wok i j
  have hgc1 : ∀ i j, (s.cells.setDirty x y false).getContent i j = s.cells.getContent i j :=
    getContent_setDirty hrw s.cells x y false inv.wok
  have hwd12 : tx.2 = 1 ∨ tx.2 = 2 := htxw
  -- generic re-establishment of the invariant, given the closed form of the new cells
  have key : ∀ (cells' : Buf) (cx' : Int),
      (cells'.w = s.cells.w ∧ cells'.h = s.cells.h) →
      (∀ i j, cells'.cells i j =
        if i = x ∧ j = y then (s.cells.cells i j).markClean
        else if i = x + 1 ∧ j = y ∧ tx.2 > 1 ∧ x + 1 < s.w then (s.cells.cells i j).markDirty
        else s.cells.cells i j) →
      (∀ i j, cells'.getContent i j = s.cells.getContent i j) →
      (cx' = if tx.2 > 1 then -1 else x + tx.2) →
      PassInv c d { s with curstyle := style, cx := cx', cy := y, cells := cells' }
        (t0.putAt x y tx.1 tx.2 style) (x + tx.2) y := by
    intro cells' cx' hdims hcells hgcs hcx
    have hir : ∀ i j, cells'.inRange i j ↔ s.cells.inRange i j := by
      intro i j; simp only [inRange_iff, hdims.1, hdims.2]
    have hlks : ∀ i j, (cells'.cells i j).lock = (s.cells.cells i j).lock := by
      intro i j; rw [hcells]; split
      · simp [Cell.markClean]
      · split <;> simp
    have hlk : ∀ i j, cells'.locked i j = s.cells.locked i j := locked_congr _ _ hdims.1 hdims.2 hlks
    have hwds : ∀ i j, (cells'.cells i j).width = (s.cells.cells i j).width := by
      intro i j; rw [hcells]; split
      · simp [Cell.markClean]
      · split <;> simp [Cell.markDirty]
    -- a kept clean cell shows on the new terminal what it showed before
    have hkeepgrid : ∀ i j, s.cells.inRange i j → (s.cells.cells i j).lock = false → (s.cells.cells i j).lastMain ≠ 0 →
        ¬ (i = x ∧ j = y) → ¬ (i = x + 1 ∧ j = y ∧ tx.2 > 1 ∧ x + 1 < s.w) →
        (t0.putAt x y tx.1 tx.2 style).grid i j = t.grid i j := by
      intro i j hrij' hl hm h1 h2
      rw [hgrid]
      have hi : 0 ≤ i ∧ i < s.w ∧ 0 ≤ j ∧ j < s.h := by simp only [inRange_iff] at hrij'; omega
      have n1 : ¬ (i = x + 1 ∧ j = y ∧ tx.2 > 1) := by
        intro h; exact h2 ⟨h.1, h.2.1, h.2.2, by omega⟩
      have n3 : ¬ (i = x + 2 ∧ j = y ∧ tx.2 > 1 ∧ t.grid (x + 2) y = .cont) := by
        intro h
        rcases inv.g2 i j hrij' (by rw [h.1, h.2.1]; exact h.2.2.2) with h' | h'
        · rw [hl] at h'; exact absurd h' (by decide)
        · exact hm h'
      have n4 : ¬ (i = x + 1 ∧ j = y ∧ tx.2 ≤ 1 ∧ t.grid (x + 1) y = .cont) := by
        intro h
        rcases inv.g2 i j hrij' (by rw [h.1, h.2.1]; exact h.2.2.2) with h' | h'
        · rw [hl] at h'; exact absurd h' (by decide)
        · exact hm h'
      have n5 : ¬ (i = x - 1 ∧ j = y ∧ t.grid x y = .cont) := by
        intro h
        have hl' := hl; have hm' := hm
        rw [h.1, h.2.1] at hl' hm'
        exact hq (by omega) hl' hm' h.2.2
      simp only [n1, h1, n3, n4, n5, if_false]
    refine { tw := ?_, th := ?_, cw := ?_, ch := ?_, wok := ?_, valid := ?_, g1 := ?_, g2 := ?_, wf := ?_, g3 := ?_,
             kcur := ?_, kpen := ?_, q := ?_, dcompat := inv.dcompat }
    · simp [ht0d.1, htw]
    · simp [ht0d.2, hth]
    · simp [hdims.1, hcw]
    · simp [hdims.2, hch]
    · intro i j; simp only [hcells]; split
      · exact wok_markClean hrw _ (inv.wok i j)
      · split
        · exact wok_markDirty _ (inv.wok i j)
        · exact inv.wok i j
    · refine ⟨inv.valid.1, ?_⟩
      intro i j; simp only [hcells]; split
      · simpa using inv.valid.2 i j
      · split
        · simpa using inv.valid.2 i j
        · exact inv.valid.2 i j
    · -- g1
      intro i j hrij hl hm
      have hrij' := (hir i j).1 hrij
      simp only at hrij hl hm ⊢
      by_cases h1 : i = x ∧ j = y
      · obtain ⟨rfl, rfl⟩ := h1
        have hcxy := hcells i j
        rw [if_pos ⟨rfl, rfl⟩] at hcxy
        rw [hcxy]
        simp only [Cell.markClean_lastMain, Cell.markClean_lastComb, Cell.markClean_lastStyle, hcm, hcomb, hcst]
        refine ⟨style, nlb, ?_, hstyle1, hstyle2, ?_⟩
        · rw [hgrid, hshown]
          have : ¬ (i = i + 1 ∧ j = j ∧ tx.2 > 1) := by omega
          rw [if_neg this, if_pos ⟨rfl, rfl⟩]
        · intro hn hwide
          rw [(obsMain_markClean hrw cm).2] at hwide
          obtain ⟨b1, b2, b3⟩ := hblank hn hwide
          refine ⟨b1, ?_, Or.inl ?_⟩
          · rw [hwds, hcwd]; exact b2
          · rw [hlk]; exact b3
      · have hce : cells'.cells i j = if i = x + 1 ∧ j = y ∧ tx.2 > 1 ∧ x + 1 < s.w then (s.cells.cells i j).markDirty
            else s.cells.cells i j := by rw [hcells, if_neg h1]
        by_cases h2 : i = x + 1 ∧ j = y ∧ tx.2 > 1 ∧ x + 1 < s.w
        · rw [hce, if_pos h2] at hm; simp at hm
        · rw [if_neg h2] at hce
          rw [hce] at hl hm ⊢
          obtain ⟨st', nl, hg, hs1, hs2, hb⟩ := inv.g1 i j hrij' hl hm
          refine ⟨st', nl, ?_, hs1, hs2, fun a1 a2 => ⟨(hb a1 a2).1, (hb a1 a2).2.congr (hwds i j) (hlk _ _) (hgcs i j)⟩⟩
          rw [← hg]; exact hkeepgrid i j hrij' hl hm h1 h2
    · -- g2
      intro i j hrij hcont
      have hrij' := (hir i j).1 hrij
      have hi : 0 ≤ i ∧ i < s.w ∧ 0 ≤ j ∧ j < s.h := by simp only [inRange_iff] at hrij'; omega
      rw [hgrid] at hcont
      simp only [hcells]
      by_cases c1 : i = x + 1 ∧ j = y ∧ tx.2 > 1
      · have h1 : ¬ (i = x ∧ j = y) := by omega
        have h2 : i = x + 1 ∧ j = y ∧ tx.2 > 1 ∧ x + 1 < s.w := ⟨c1.1, c1.2.1, c1.2.2, by omega⟩
        rw [if_neg h1, if_pos h2]; right; simp
      · rw [if_neg c1] at hcont
        by_cases h1 : i = x ∧ j = y
        · rw [if_pos h1] at hcont; exact absurd hcont (by simp)
        · rw [if_neg h1] at hcont ⊢
          have h2 : ¬ (i = x + 1 ∧ j = y ∧ tx.2 > 1 ∧ x + 1 < s.w) := fun h => c1 ⟨h.1, h.2.1, h.2.2.1⟩
          rw [if_neg h2]
          split at hcont
          · exact absurd hcont (by simp)
          · split at hcont
            · exact absurd hcont (by simp)
            · split at hcont
              · exact absurd hcont (by simp)
              · exact inv.g2 i j hrij' hcont
    · -- wf
      intro i j hrij hcont
      have hrij' := (hir i j).1 hrij
      rw [hgrid] at hcont
      by_cases c1 : i = x + 1 ∧ j = y ∧ tx.2 > 1
      · refine ⟨tx.1, style, ?_⟩
        rw [hgrid]
        have e : i - 1 = x := by omega
        have n1 : ¬ (i - 1 = x + 1 ∧ j = y ∧ tx.2 > 1) := by omega
        rw [if_neg n1, if_pos ⟨e, c1.2.1⟩]; simp [c1.2.2]
      · rw [if_neg c1] at hcont
        by_cases h1 : i = x ∧ j = y
        · rw [if_pos h1] at hcont; exact absurd hcont (by simp)
        · rw [if_neg h1] at hcont
          by_cases c3 : i = x + 2 ∧ j = y ∧ tx.2 > 1 ∧ t.grid (x + 2) y = .cont
          · rw [if_pos c3] at hcont; exact absurd hcont (by simp)
          · rw [if_neg c3] at hcont
            by_cases c4 : i = x + 1 ∧ j = y ∧ tx.2 ≤ 1 ∧ t.grid (x + 1) y = .cont
            · rw [if_pos c4] at hcont; exact absurd hcont (by simp)
            · rw [if_neg c4] at hcont
              by_cases c5 : i = x - 1 ∧ j = y ∧ t.grid x y = .cont
              · rw [if_pos c5] at hcont; exact absurd hcont (by simp)
              · rw [if_neg c5] at hcont
                obtain ⟨b, st, hb⟩ := inv.wf i j hrij' hcont
                refine ⟨b, st, ?_⟩
                rw [hgrid, ← hb]
                have m1 : ¬ (i - 1 = x + 1 ∧ j = y ∧ tx.2 > 1) := by
                  intro h; apply c3; refine ⟨by omega, h.2.1, h.2.2, ?_⟩
                  have : i = x + 2 := by omega
                  rw [← this, ← h.2.1]; exact hcont
                have m2 : ¬ (i - 1 = x ∧ j = y) := by
                  intro h
                  have hi : i = x + 1 := by omega
                  by_cases hw : tx.2 > 1
                  · exact c1 ⟨hi, h.2, hw⟩
                  · apply c4; refine ⟨hi, h.2, by omega, ?_⟩
                    rw [← hi, ← h.2]; exact hcont
                have m3 : ¬ (i - 1 = x + 2 ∧ j = y ∧ tx.2 > 1 ∧ t.grid (x + 2) y = .cont) := by
                  intro h; rw [h.1, h.2.1] at hb; rw [hb] at h; exact absurd h.2.2.2 (by simp)
                have m4 : ¬ (i - 1 = x + 1 ∧ j = y ∧ tx.2 ≤ 1 ∧ t.grid (x + 1) y = .cont) := by
                  intro h; rw [h.1, h.2.1] at hb; rw [hb] at h; exact absurd h.2.2.2 (by simp)
                have m5 : ¬ (i - 1 = x - 1 ∧ j = y ∧ t.grid x y = .cont) := by
                  intro h; exact h1 ⟨by omega, h.2.1⟩
                simp only [m1, m2, m3, m4, m5, if_false]
    · -- g3
      intro i j hrij hl hm b st hsh hlt
      have hrij' := (hir i j).1 hrij
      have hi : 0 ≤ i ∧ i < s.w ∧ 0 ≤ j ∧ j < s.h := by simp only [inRange_iff] at hrij'; omega
      simp only at hrij hl hm hsh hlt ⊢
      by_cases h1 : i = x ∧ j = y
      · obtain ⟨rfl, rfl⟩ := h1
        rw [hgrid] at hsh
        have n0 : ¬ (i = i + 1 ∧ j = j ∧ tx.2 > 1) := by omega
        rw [if_neg n0, if_pos ⟨rfl, rfl⟩] at hsh
        injection hsh with _ hwd _
        have hwd' : tx.2 > 1 := by simpa using hwd
        rw [hgrid, if_pos ⟨rfl, rfl, hwd'⟩]
      · have hce : cells'.cells i j = if i = x + 1 ∧ j = y ∧ tx.2 > 1 ∧ x + 1 < s.w then (s.cells.cells i j).markDirty
            else s.cells.cells i j := by rw [hcells, if_neg h1]
        by_cases h2 : i = x + 1 ∧ j = y ∧ tx.2 > 1 ∧ x + 1 < s.w
        · rw [hce, if_pos h2] at hm; simp at hm
        · rw [if_neg h2] at hce
          rw [hce] at hl hm
          rw [hkeepgrid i j hrij' hl hm h1 h2] at hsh
          have hold := inv.g3 i j hrij' hl hm b st hsh hlt
          rw [hgrid]
          by_cases c1 : i + 1 = x + 1 ∧ j = y ∧ tx.2 > 1
          · rw [if_pos c1]
          · rw [if_neg c1]
            have n2 : ¬ (i + 1 = x ∧ j = y) := by
              intro h
              have e : i = x - 1 := by omega
              have hl' := hl; have hm' := hm; have hs' := hsh
              rw [e, h.2] at hl' hm' hs'
              exact inv.q (by omega) hxy.2.1 hlock hl' hm' b st hs'
            have n3 : ¬ (i + 1 = x + 2 ∧ j = y ∧ tx.2 > 1 ∧ t.grid (x + 2) y = .cont) := by
              intro h; exact h2 ⟨by omega, h.2.1, h.2.2.1, by omega⟩
            have n4 : ¬ (i + 1 = x + 1 ∧ j = y ∧ tx.2 ≤ 1 ∧ t.grid (x + 1) y = .cont) := by
              intro h; exact h1 ⟨by omega, h.2.1⟩
            have n5 : ¬ (i + 1 = x - 1 ∧ j = y ∧ t.grid x y = .cont) := by
              intro h
              obtain ⟨b', st'', hb⟩ := inv.wf x y hr h.2.2
              have e : i + 1 = x - 1 := h.1
              rw [e, h.2.1] at hold
              rw [hold] at hb; exact absurd hb (by simp)
            simp only [n2, n3, n4, n5, if_false]; exact hold
    · -- kcur
      intro hcr
      simp only at hcr ⊢
      rw [ATerm.putAt_cur, hcx]
      by_cases hw : tx.2 > 1
      · exfalso; rw [hcx, if_pos hw] at hcr
        have := (hir _ _).1 hcr; simp only [inRange_iff] at this; omega
      · rw [if_neg hw]
    · intro _; simp only; rw [ATerm.putAt_pen, ← ht0]
    · -- q at x + tx.2
      intro h1 h2 _ hl hm b st hsh
      simp only at h1 h2 hl hm hsh
      rcases hwd12 with hw | hw
      · have e : x + tx.2 - 1 = x := by omega
        rw [e, hgrid] at hsh
        have n0 : ¬ (x = x + 1 ∧ y = y ∧ tx.2 > 1) := by omega
        rw [if_neg n0, if_pos ⟨rfl, rfl⟩] at hsh
        injection hsh with _ hwd _
        have : tx.2 > 1 := by simpa using hwd
        omega
      · exfalso
        have e : x + tx.2 - 1 = x + 1 := by omega
        have n1 : ¬ (x + 1 = x ∧ y = y) := by omega
        have h2' : x + 1 = x + 1 ∧ y = y ∧ tx.2 > 1 ∧ x + 1 < s.w := ⟨rfl, rfl, by omega, by omega⟩
        have hc := hcells (x + 1) y
        rw [if_neg n1, if_pos h2'] at hc
        apply hm; rw [e, hc]; rfl
  -- the cells this payload occupies
  have hcov : ∃ cs, (t0.putAt x y tx.1 tx.2 style).covered = cs ++ t.covered ∧
      (c.guardLocked = true → ∀ p ∈ cs, s.cells.locked p.1 p.2 = false) := by
    rw [ATerm.putAt_covered, ht0cov]
    by_cases hw : tx.2 > 1
    · rw [if_pos hw]
      refine ⟨[(x + 1, y), (x, y)], rfl, ?_⟩
      intro hg p hp
      simp only [List.mem_cons, List.mem_nil_iff, or_false] at hp
      rcases hp with rfl | rfl
      · exact hguard hg hw
      · exact dirty_unlocked _ _ _ hd
    · rw [if_neg hw]
      refine ⟨[(x, y)], rfl, ?_⟩
      intro _ p hp
      simp only [List.mem_singleton] at hp; subst hp
      exact dirty_unlocked _ _ _ hd
  -- assemble, according to whether the right neighbour gets marked dirty
  by_cases hwide : tx.2 > 1 ∧ x + 1 < s.w
  · have hr1 : (s.cells.setDirty x y false).inRange (x + 1) y := by
      simp only [inRange_iff, setDirty_w, setDirty_h] at hr ⊢; omega
    have hv : s.visit c x y =
        ({ s with curstyle := style, cx := if tx.2 > 1 then -1 else x + tx.2, cy := y,
                  cells := (s.cells.setDirty x y false).setDirty (x + 1) y true },
         (if s.cy ≠ y ∨ s.cx ≠ x then [Cmd.goto x y] else []) ++
           ((if style ≠ s.curstyle then [Cmd.setPen style] else []) ++ [Cmd.put tx.1 tx.2]), tx.2) := by
      simp only [Scr.visit, hdc, hdp, hwide, and_self, if_true]
    have hcells : ∀ i j, ((s.cells.setDirty x y false).setDirty (x + 1) y true).cells i j =
        if i = x ∧ j = y then (s.cells.cells i j).markClean
        else if i = x + 1 ∧ j = y ∧ tx.2 > 1 ∧ x + 1 < s.w then (s.cells.cells i j).markDirty
        else s.cells.cells i j := by
      intro i j
      rw [setDirty_true_cells, hc1]
      by_cases h1 : i = x ∧ j = y
      · have n : ¬ (i = x + 1 ∧ j = y ∧ (s.cells.setDirty x y false).inRange (x + 1) y) := by omega
        simp only [if_neg n, if_pos h1]
      · by_cases h2 : i = x + 1 ∧ j = y
        · have p1 : i = x + 1 ∧ j = y ∧ (s.cells.setDirty x y false).inRange (x + 1) y := ⟨h2.1, h2.2, hr1⟩
          have p2 : i = x + 1 ∧ j = y ∧ tx.2 > 1 ∧ x + 1 < s.w := ⟨h2.1, h2.2, hwide.1, hwide.2⟩
          simp only [if_pos p1, if_neg h1, if_pos p2]
        · have n1 : ¬ (i = x + 1 ∧ j = y ∧ (s.cells.setDirty x y false).inRange (x + 1) y) := fun h => h2 ⟨h.1, h.2.1⟩
          have n2 : ¬ (i = x + 1 ∧ j = y ∧ tx.2 > 1 ∧ x + 1 < s.w) := fun h => h2 ⟨h.1, h.2.1⟩
          simp only [if_neg n1, if_neg h1, if_neg n2]
    have hgcs : ∀ i j, ((s.cells.setDirty x y false).setDirty (x + 1) y true).getContent i j = s.cells.getContent i j := by
      intro i j; rw [getContent_setDirty hrw _ (x + 1) y true hwok1 i j, hgc1]
    rw [hv]; simp only; rw [hterm]
    have hinv := key _ _ (by simp) hcells hgcs rfl
    refine { inv := hinv, wd_pos := by omega, wd_eq := hwdeq, gc_same := hgcs, lock_same := ?_, other_same := ?_, done := ?_,
             w_same := rfl, h_same := rfl, style_same := rfl, cursor_same := ⟨rfl, rfl, rfl, rfl⟩, flags_same := ⟨rfl, rfl⟩,
             writes := by simp [hd, ht0w], vis_same := by simp [ht0v], covers := hcov }
    · intro i j; simp only [hcells]; split
      · simp [Cell.markClean]
      · split <;> simp
    · intro i j hne; simp only [hcells]
      have n1 : ¬ (i = x ∧ j = y) := by omega
      have n2 : ¬ (i = x + 1 ∧ j = y ∧ tx.2 > 1 ∧ x + 1 < s.w) := by omega
      rw [if_neg n1, if_neg n2]
    · intro _; simp only [hcells, and_self, if_true]
      exact ⟨Cell.markClean_lastMain_ne _, by simp⟩
  · have hv : s.visit c x y =
        ({ s with curstyle := style, cx := if tx.2 > 1 then -1 else x + tx.2, cy := y,
                  cells := s.cells.setDirty x y false },
         (if s.cy ≠ y ∨ s.cx ≠ x then [Cmd.goto x y] else []) ++
           ((if style ≠ s.curstyle then [Cmd.setPen style] else []) ++ [Cmd.put tx.1 tx.2]), tx.2) := by
      simp only [Scr.visit, hdc, hdp, hwide, if_false]
    have hcells : ∀ i j, (s.cells.setDirty x y false).cells i j =
        if i = x ∧ j = y then (s.cells.cells i j).markClean
        else if i = x + 1 ∧ j = y ∧ tx.2 > 1 ∧ x + 1 < s.w then (s.cells.cells i j).markDirty
        else s.cells.cells i j := by
      intro i j; rw [hc1]
      have n2 : ¬ (i = x + 1 ∧ j = y ∧ tx.2 > 1 ∧ x + 1 < s.w) := fun h => hwide ⟨h.2.2.1, h.2.2.2⟩
      rw [if_neg n2]
    rw [hv]; simp only; rw [hterm]
    have hinv := key _ _ (by simp) hcells hgc1 rfl
    refine { inv := hinv, wd_pos := by omega, wd_eq := hwdeq, gc_same := hgc1, lock_same := ?_, other_same := ?_, done := ?_,
             w_same := rfl, h_same := rfl, style_same := rfl, cursor_same := ⟨rfl, rfl, rfl, rfl⟩, flags_same := ⟨rfl, rfl⟩,
             writes := by simp [hd, ht0w], vis_same := by simp [ht0v], covers := hcov }
    · intro i j; simp only [hc1]; split
      · simp [Cell.markClean]
      · rfl
    · intro i j hne; simp only [hc1]
      have n1 : ¬ (i = x ∧ j = y) := by omega
      rw [if_neg n1]
    · intro _; simp only [hc1, and_self, if_true]
      exact ⟨Cell.markClean_lastMain_ne _, by simp⟩

end Tcell

namespace Tcell
open Buf

/-- one loop iteration preserves the pass invariant, whatever the cell's state -/
theorem visit_post {c : DrawCfg} (hrw : RwOk c.rw) (hct : c.Plain) {d : Option Style} {s : Scr} {t : ATerm}
    {x y : Int} (inv : PassInv c d s t x y) (hr : s.cells.inRange x y) :
    VisitPost c d s t x y (s.visit c x y).1 (t.applyAll (s.visit c x y).2.1) (s.visit c x y).2.2 := by
  cases hd : s.cells.dirty x y
  · exact visit_clean hrw hct inv hr hd
  · exact visit_dirty hrw hct inv hr hd

theorem drawRow_succ (c : DrawCfg) (y : Int) (fuel : Nat) (x : Int) (s : Scr) :
    Scr.drawRow c y (fuel + 1) x s =
      if x < s.w then
        ((Scr.drawRow c y fuel (x + (s.visit c x y).2.2) (s.visit c x y).1).1,
         (s.visit c x y).2.1 ++ (Scr.drawRow c y fuel (x + (s.visit c x y).2.2) (s.visit c x y).1).2)
      else (s, []) := by
  simp only [Scr.drawRow, Scr.visit]

theorem applyAll_append (t : ATerm) (l1 l2 : List Cmd) : t.applyAll (l1 ++ l2) = (t.applyAll l1).applyAll l2 := by
  simp [ATerm.applyAll, List.foldl_append]

@[simp] theorem applyAll_nil (t : ATerm) : t.applyAll [] = t := rfl

theorem visitsG_ge (c : DrawCfg) (b : Buf) (y : Int) (fuel : Nat) (x0 i : Int) (h : b.w ≤ x0) :
    visitsG c b y fuel x0 i = false := by
  cases fuel with
  | zero => rfl
  | succ n => simp only [visitsG]; rw [if_neg (by omega)]

/-- the loop's step at column `x` reads the cells (x,y) and (x+1,y) only -/
theorem stepW_congr (c : DrawCfg) (b b' : Buf) (x y : Int) (hw : b'.w = b.w) (hh : b'.h = b.h)
    (h0 : b'.cells x y = b.cells x y) (h1 : b'.cells (x + 1) y = b.cells (x + 1) y) : stepW c b' x y = stepW c b x y := by
  simp only [stepW, getContent, Buf.locked, dirty, inRange_iff, hw, hh, h0, h1]

theorem stepW_nonneg {c : DrawCfg} (hrw : RwOk c.rw) (b : Buf) (hw : ∀ i j, WOk c.rw (b.cells i j)) (x y : Int) :
    0 ≤ stepW c b x y ∧ (b.inRange x y → 1 ≤ stepW c b x y) := by
  by_cases hr : b.inRange x y
  · have hg := getContent_wok hrw b x y hr (hw x y)
    have hp := obsWidth_pos hrw (b.cells x y).currMain
    unfold stepW; rw [hg]; simp only
    split
    · exact ⟨by omega, fun _ => by omega⟩
    · exact ⟨by omega, fun _ => by omega⟩
  · have hg : b.getContent x y = (0, [], {}, 0) := by simp [getContent, hr]
    unfold stepW; rw [hg]; simp only
    split
    · exact ⟨by omega, fun h => absurd h hr⟩
    · exact ⟨by omega, fun h => absurd h hr⟩

/-- the walk from column `a` on only reads the cells of row `y` from column `a` on -/
theorem visitsG_congr_from (c : DrawCfg) (b b' : Buf) (y a : Int) (hw : b'.w = b.w) (hh : b'.h = b.h)
    (hc : ∀ i, a ≤ i → b'.cells i y = b.cells i y) (hpos : ∀ i, a ≤ i → 0 ≤ stepW c b i y) :
    ∀ (f : Nat) (x0 i : Int), a ≤ x0 → visitsG c b' y f x0 i = visitsG c b y f x0 i := by
  intro f
  induction f with
  | zero => intro x0 i _; rfl
  | succ m ih =>
    intro x0 i hx0
    simp only [visitsG, hw]
    rw [stepW_congr c b b' x0 y hw hh (hc x0 hx0) (hc (x0 + 1) (by omega))]
    rw [ih _ _ (by have := hpos x0 hx0; omega)]

theorem visitedG_congr_row (c : DrawCfg) (b b' : Buf) (y : Int) (hw : b'.w = b.w) (hh : b'.h = b.h)
    (hc : ∀ i, b'.cells i y = b.cells i y) (hpos : ∀ i, 0 ≤ stepW c b i y) (x : Int) :
    visitedG c b' x y = visitedG c b x y := by
  simp only [visitedG, hw]
  by_cases hx : (0 : Int) ≤ 0
  · exact visitsG_congr_from c b b' y 0 hw hh (fun i _ => hc i) (fun i _ => hpos i) _ _ _ hx
  · omega

/-- when the walk does not depend on the Dirty flags (pinned drawCell, or the walk fix) it is determined by contents,
locks and dimensions -/
theorem stepW_static (c : DrawCfg) (hs : c.guardLocked = false ∨ c.walkGuard = true) (b b' : Buf) (hw : b'.w = b.w)
    (hh : b'.h = b.h) (hg : ∀ i j, b'.getContent i j = b.getContent i j)
    (hl : ∀ i j, (b'.cells i j).lock = (b.cells i j).lock) (x y : Int) : stepW c b' x y = stepW c b x y := by
  unfold stepW
  rw [hg, locked_congr b b' hw hh hl]
  rcases hs with h | h
  · simp [h]
  · simp [h]

theorem visitsG_static (c : DrawCfg) (hs : c.guardLocked = false ∨ c.walkGuard = true) (b b' : Buf) (hw : b'.w = b.w)
    (hh : b'.h = b.h) (hg : ∀ i j, b'.getContent i j = b.getContent i j)
    (hl : ∀ i j, (b'.cells i j).lock = (b.cells i j).lock) (y : Int) :
    ∀ (f : Nat) (x0 i : Int), visitsG c b' y f x0 i = visitsG c b y f x0 i := by
  intro f
  induction f with
  | zero => intro x0 i; rfl
  | succ m ih => intro x0 i; simp only [visitsG, hw, stepW_static c hs b b' hw hh hg hl, ih]

theorem visitedG_static (c : DrawCfg) (hs : c.guardLocked = false ∨ c.walkGuard = true) (b b' : Buf) (hw : b'.w = b.w)
    (hh : b'.h = b.h) (hg : ∀ i j, b'.getContent i j = b.getContent i j)
    (hl : ∀ i j, (b'.cells i j).lock = (b.cells i j).lock) (x y : Int) : visitedG c b' x y = visitedG c b x y := by
  simp only [visitedG, hw]; exact visitsG_static c hs b b' hw hh hg hl y _ _ _

/-- without the guard the walk is the pinned one -/
theorem visitsG_eq_visits (c : DrawCfg) (hg : c.guardLocked = false) (b : Buf) (y : Int) :
    ∀ (f : Nat) (x0 i : Int), visitsG c b y f x0 i = visits c.rw b y f x0 i := by
  intro f
  induction f with
  | zero => intro x0 i; rfl
  | succ m ih => intro x0 i; simp only [visitsG, visits, stepW, hg, ih]; simp

theorem visitedG_eq_visited (c : DrawCfg) (hg : c.guardLocked = false) (b : Buf) (x y : Int) :
    visitedG c b x y = visited c.rw b x y := by
  simp only [visitedG, visited]; exact visitsG_eq_visits c hg b y _ _ _

/-- what a pass over (the rest of) a row guarantees -/
structure RowPost (c : DrawCfg) (d : Option Style) (s : Scr) (t : ATerm) (x0 y : Int) (fuel : Nat)
    (s' : Scr) (t' : ATerm) : Prop where
  sync : SyncInv c d s' t'
  kcur : s'.cells.inRange s'.cx s'.cy → t'.cur = some (s'.cx, s'.cy)
  kpen : s'.curstyle ≠ styleInvalid → t'.pen = some s'.curstyle
  gc_same : ∀ i j, s'.cells.getContent i j = s.cells.getContent i j
  lock_same : ∀ i j, (s'.cells.cells i j).lock = (s.cells.cells i j).lock
  other_same : ∀ i j, (j ≠ y ∨ i < x0) → s'.cells.cells i j = s.cells.cells i j
  done : ∀ i, visitsG c s.cells y fuel x0 i = true → (s.cells.cells i y).lock = false →
    (s'.cells.cells i y).lastMain ≠ 0 ∧ (s'.cells.cells i y).last = (s'.cells.cells i y).content
  w_same : s'.w = s.w
  h_same : s'.h = s.h
  style_same : s'.style = s.style
  cursor_same : s'.cursorx = s.cursorx ∧ s'.cursory = s.cursory ∧ s'.cursorStyle = s.cursorStyle ∧ s'.cursorColor = s.cursorColor
  flags_same : s'.clear = s.clear ∧ s'.fini = s.fini
  vis_same : t'.visible = t.visible ∧ t'.shape = t.shape
  /-- cells that received payload in this pass were dirty when the pass reached them, and lie in this row right of x0 -/
  writes : ∃ ws, t'.writes = ws ++ t.writes ∧ ∀ p ∈ ws, p.2 = y ∧ x0 ≤ p.1 ∧ s.cells.dirty p.1 p.2 = true ∧
    visitsG c s.cells y fuel x0 p.1 = true
  covers : ∃ cs, t'.covered = cs ++ t.covered ∧ (c.guardLocked = true → ∀ p ∈ cs, s.cells.locked p.1 p.2 = false)

theorem visitsG_self (c : DrawCfg) (b : Buf) (y : Int) (fuel : Nat) (x0 : Int) (h : x0 < b.w) :
    visitsG c b y (fuel + 1) x0 x0 = true := by
  simp [visitsG, h]

theorem drawRow_post {c : DrawCfg} (hrw : RwOk c.rw) (hct : c.Plain) {d : Option Style} (y : Int) :
    ∀ (fuel : Nat) (x : Int) (s : Scr) (t : ATerm), 0 ≤ x → 0 ≤ y → y < s.h → PassInv c d s t x y →
      RowPost c d s t x y fuel (Scr.drawRow c y fuel x s).1 (t.applyAll (Scr.drawRow c y fuel x s).2) := by
  intro fuel
  induction fuel with
  | zero =>
    intro x s t _ _ _ inv
    exact { sync := inv.toSyncInv, kcur := inv.kcur, kpen := inv.kpen, gc_same := fun _ _ => rfl, lock_same := fun _ _ => rfl,
            other_same := fun _ _ _ => rfl, done := by intro i h; simp [visitsG] at h, w_same := rfl, h_same := rfl,
            style_same := rfl, cursor_same := ⟨rfl, rfl, rfl, rfl⟩, flags_same := ⟨rfl, rfl⟩, vis_same := ⟨rfl, rfl⟩,
            writes := ⟨[], by simp [Scr.drawRow], by simp⟩,
            covers := ⟨[], by simp [Scr.drawRow], by intro _ p hp; simp at hp⟩ }
  | succ n ih =>
    intro x s t hx0 hy0 hy1 inv
    rw [drawRow_succ]
    by_cases hlt : x < s.w
    · rw [if_pos hlt]; simp only
      have hr : s.cells.inRange x y := by
        have := inv.cw; have := inv.ch; simp only [inRange_iff]; omega
      have vp := visit_post hrw hct inv hr
      rw [applyAll_append]
      have hy1' : y < (s.visit c x y).1.h := by rw [vp.h_same]; exact hy1
      have rp := ih (x + (s.visit c x y).2.2) (s.visit c x y).1 (t.applyAll (s.visit c x y).2.1)
        (by have := vp.wd_pos; omega) hy0 hy1' vp.inv
      have hwd := vp.wd_pos
      have hcw : (s.visit c x y).1.cells.w = s.cells.w := by rw [vp.inv.cw, vp.w_same, inv.cw]
      have hch : (s.visit c x y).1.cells.h = s.cells.h := by rw [vp.inv.ch, vp.h_same, inv.ch]
      -- right of the visit the buffer is untouched, so the walk continues the same way on both buffers
      have hwalk : ∀ i, visitsG c (s.visit c x y).1.cells y n (x + (s.visit c x y).2.2) i =
          visitsG c s.cells y n (x + (s.visit c x y).2.2) i := by
        intro i
        exact visitsG_congr_from c s.cells _ y (x + (s.visit c x y).2.2) hcw hch
          (fun i' hi' => vp.other_same i' y (Or.inr (Or.inr hi')))
          (fun i' _ => (stepW_nonneg hrw s.cells inv.wok i' y).1) n _ i (Int.le_refl _)
      have hlks : ∀ i j, (s.visit c x y).1.cells.locked i j = s.cells.locked i j :=
        locked_congr _ _ hcw hch vp.lock_same
      refine { sync := rp.sync, kcur := rp.kcur, kpen := rp.kpen, gc_same := ?_, lock_same := ?_, other_same := ?_,
               done := ?_, w_same := by rw [rp.w_same, vp.w_same], h_same := by rw [rp.h_same, vp.h_same],
               style_same := by rw [rp.style_same, vp.style_same], cursor_same := ?_, flags_same := ?_, vis_same := ?_,
               writes := ?_, covers := ?_ }
      · intro i j; rw [rp.gc_same, vp.gc_same]
      · intro i j; rw [rp.lock_same, vp.lock_same]
      · intro i j hne
        rw [rp.other_same i j (by omega), vp.other_same i j (by omega)]
      · intro i hv hl
        simp only [visitsG, if_pos (show x < s.cells.w by rw [inv.cw]; exact hlt)] at hv
        by_cases hix : i = x
        · subst hix
          have hdone := vp.done hl
          rw [rp.other_same i y (Or.inr (by omega))]
          exact hdone
        · rw [if_neg hix] at hv
          -- the model's step and the spec's step reach the same columns
          have hv' : visitsG c (s.visit c x y).1.cells y n (x + (s.visit c x y).2.2) i = true := by
            rw [hwalk]
            rcases vp.wd_eq with e | e
            · rw [e]; exact hv
            · exfalso
              rw [visitsG_ge _ _ _ _ _ _ (by rw [inv.cw]; omega)] at hv; simp at hv
          have hl' : ((s.visit c x y).1.cells.cells i y).lock = false := by rw [vp.lock_same]; exact hl
          exact rp.done i hv' hl'
      · obtain ⟨a1, a2, a3, a4⟩ := rp.cursor_same; obtain ⟨b1, b2, b3, b4⟩ := vp.cursor_same
        exact ⟨a1.trans b1, a2.trans b2, a3.trans b3, a4.trans b4⟩
      · obtain ⟨a1, a2⟩ := rp.flags_same; obtain ⟨b1, b2⟩ := vp.flags_same
        exact ⟨a1.trans b1, a2.trans b2⟩
      · obtain ⟨a1, a2⟩ := rp.vis_same; obtain ⟨b1, b2⟩ := vp.vis_same
        exact ⟨a1.trans b1, a2.trans b2⟩
      · obtain ⟨ws, hws, hmem⟩ := rp.writes
        rw [vp.writes] at hws
        -- a cell right of the visit position is untouched by the visit, so "dirty" means the same before and after
        have hkeep : ∀ p : Int × Int, p.2 = y → x + (s.visit c x y).2.2 ≤ p.1 →
            (s.visit c x y).1.cells.dirty p.1 p.2 = true → s.cells.dirty p.1 p.2 = true := by
          intro p p1 p2 p3
          have hsame := vp.other_same p.1 p.2 (Or.inr (Or.inr p2))
          simp only [dirty, inRange_iff, hcw, hch, hsame] at p3 ⊢
          exact p3
        -- and the spec's column walk reaches it from x too
        have hvis : ∀ p : Int × Int, x + (s.visit c x y).2.2 ≤ p.1 →
            visitsG c (s.visit c x y).1.cells y n (x + (s.visit c x y).2.2) p.1 = true →
            visitsG c s.cells y (n + 1) x p.1 = true := by
          intro p p2 p4
          rw [hwalk] at p4
          simp only [visitsG, if_pos (show x < s.cells.w by rw [inv.cw]; exact hlt)]
          have hne : ¬ p.1 = x := by omega
          rw [if_neg hne]
          rcases vp.wd_eq with e | e
          · rw [← e]; exact p4
          · exfalso; rw [visitsG_ge _ _ _ _ _ _ (by rw [inv.cw]; omega)] at p4; simp at p4
        by_cases hd : s.cells.dirty x y = true
        · rw [if_pos hd] at hws
          refine ⟨ws ++ [(x, y)], by rw [hws]; simp, ?_⟩
          intro p hp
          rcases List.mem_append.1 hp with hp | hp
          · obtain ⟨p1, p2, p3, p4⟩ := hmem p hp
            exact ⟨p1, by omega, hkeep p p1 p2 p3, hvis p p2 p4⟩
          · simp only [List.mem_singleton] at hp; subst hp
            exact ⟨rfl, by simp, hd, visitsG_self _ _ _ _ _ (by rw [inv.cw]; exact hlt)⟩
        · have hd' : s.cells.dirty x y = false := by cases h : s.cells.dirty x y <;> simp_all
          rw [hd'] at hws; simp only [Bool.false_eq_true, if_false] at hws
          refine ⟨ws, hws, ?_⟩
          intro p hp
          obtain ⟨p1, p2, p3, p4⟩ := hmem p hp
          exact ⟨p1, by omega, hkeep p p1 p2 p3, hvis p p2 p4⟩
      · obtain ⟨cs2, h2, m2⟩ := rp.covers
        obtain ⟨cs1, h1, m1⟩ := vp.covers
        refine ⟨cs2 ++ cs1, by rw [h2, h1]; simp, ?_⟩
        intro hg p hp
        rcases List.mem_append.1 hp with hp | hp
        · rw [← hlks]; exact m2 hg p hp
        · exact m1 hg p hp
    · rw [if_neg hlt]
      exact { sync := inv.toSyncInv, kcur := inv.kcur, kpen := inv.kpen, gc_same := fun _ _ => rfl, lock_same := fun _ _ => rfl,
              other_same := fun _ _ _ => rfl,
              done := by intro i h; rw [visitsG_ge _ _ _ _ _ _ (by rw [inv.cw]; omega)] at h; simp at h,
              w_same := rfl, h_same := rfl, style_same := rfl, cursor_same := ⟨rfl, rfl, rfl, rfl⟩, flags_same := ⟨rfl, rfl⟩,
              vis_same := ⟨rfl, rfl⟩, writes := ⟨[], by simp, by simp⟩,
              covers := ⟨[], by simp, by intro _ p hp; simp at hp⟩ }

end Tcell

namespace Tcell
open Buf

/-- what the double loop of draw guarantees from row y0 on -/
structure RowsPost (c : DrawCfg) (d : Option Style) (s : Scr) (t : ATerm) (y0 : Int) (fuel : Nat)
    (s' : Scr) (t' : ATerm) : Prop where
  sync : SyncInv c d s' t'
  kcur : s'.cells.inRange s'.cx s'.cy → t'.cur = some (s'.cx, s'.cy)
  kpen : s'.curstyle ≠ styleInvalid → t'.pen = some s'.curstyle
  gc_same : ∀ i j, s'.cells.getContent i j = s.cells.getContent i j
  lock_same : ∀ i j, (s'.cells.cells i j).lock = (s.cells.cells i j).lock
  other_same : ∀ i j, j < y0 → s'.cells.cells i j = s.cells.cells i j
  done : ∀ y i, y0 ≤ y → y < y0 + fuel → y < s.h → visitsG c s.cells y s.w.toNat 0 i = true → (s.cells.cells i y).lock = false →
    (s'.cells.cells i y).lastMain ≠ 0 ∧ (s'.cells.cells i y).last = (s'.cells.cells i y).content
  w_same : s'.w = s.w
  h_same : s'.h = s.h
  style_same : s'.style = s.style
  cursor_same : s'.cursorx = s.cursorx ∧ s'.cursory = s.cursory ∧ s'.cursorStyle = s.cursorStyle ∧ s'.cursorColor = s.cursorColor
  flags_same : s'.clear = s.clear ∧ s'.fini = s.fini
  vis_same : t'.visible = t.visible ∧ t'.shape = t.shape
  writes : ∃ ws, t'.writes = ws ++ t.writes ∧ ∀ p ∈ ws, y0 ≤ p.2 ∧ s.cells.dirty p.1 p.2 = true ∧
    visitsG c s.cells p.2 s.w.toNat 0 p.1 = true
  covers : ∃ cs, t'.covered = cs ++ t.covered ∧ (c.guardLocked = true → ∀ p ∈ cs, s.cells.locked p.1 p.2 = false)

theorem drawRows_succ (c : DrawCfg) (fuel : Nat) (y : Int) (s : Scr) :
    Scr.drawRows c (fuel + 1) y s =
      if y < s.h then
        ((Scr.drawRows c fuel (y + 1) (Scr.drawRow c y s.w.toNat 0 s).1).1,
         (Scr.drawRow c y s.w.toNat 0 s).2 ++ (Scr.drawRows c fuel (y + 1) (Scr.drawRow c y s.w.toNat 0 s).1).2)
      else (s, []) := by
  simp only [Scr.drawRows]

theorem drawRows_post {c : DrawCfg} (hrw : RwOk c.rw) (hct : c.Plain) {d : Option Style} :
    ∀ (fuel : Nat) (y : Int) (s : Scr) (t : ATerm), 0 ≤ y → SyncInv c d s t →
      (s.cells.inRange s.cx s.cy → t.cur = some (s.cx, s.cy)) → (s.curstyle ≠ styleInvalid → t.pen = some s.curstyle) →
      (∀ d', d = some d' → d' = s.style) →
      RowsPost c d s t y fuel (Scr.drawRows c fuel y s).1 (t.applyAll (Scr.drawRows c fuel y s).2) := by
  intro fuel
  induction fuel with
  | zero =>
    intro y s t _ inv kc kp _
    exact { sync := inv, kcur := kc, kpen := kp, gc_same := fun _ _ => rfl, lock_same := fun _ _ => rfl,
            other_same := fun _ _ _ => rfl, done := by intro y' i h1 h2; omega, w_same := rfl, h_same := rfl,
            style_same := rfl, cursor_same := ⟨rfl, rfl, rfl, rfl⟩, flags_same := ⟨rfl, rfl⟩, vis_same := ⟨rfl, rfl⟩,
            writes := ⟨[], by simp [Scr.drawRows], by simp⟩,
            covers := ⟨[], by simp [Scr.drawRows], by intro _ p hp; simp at hp⟩ }
  | succ n ih =>
    intro y s t hy0 inv kc kp dc
    rw [drawRows_succ]
    by_cases hlt : y < s.h
    · rw [if_pos hlt]; simp only
      have pinv : PassInv c d s t 0 y :=
        { toSyncInv := inv, kcur := kc, kpen := kp, q := by intro h; omega, dcompat := dc }
      have rp := drawRow_post hrw hct y s.w.toNat 0 s t (by omega) hy0 hlt pinv
      rw [applyAll_append]
      have rs := ih (y + 1) (Scr.drawRow c y s.w.toNat 0 s).1 (t.applyAll (Scr.drawRow c y s.w.toNat 0 s).2) (by omega)
        rp.sync rp.kcur rp.kpen (by intro d' hd'; rw [rp.style_same]; exact dc d' hd')
      have hcw : (Scr.drawRow c y s.w.toNat 0 s).1.cells.w = s.cells.w := by rw [rp.sync.cw, rp.w_same, inv.cw]
      have hch : (Scr.drawRow c y s.w.toNat 0 s).1.cells.h = s.cells.h := by rw [rp.sync.ch, rp.h_same, inv.ch]
      -- rows other than y are untouched by the pass over row y, so the walk over them is the same on both buffers
      have hrowwalk : ∀ y', y' ≠ y → ∀ f i, visitsG c (Scr.drawRow c y s.w.toNat 0 s).1.cells y' f 0 i = visitsG c s.cells y' f 0 i := by
        intro y' hy' f i
        exact visitsG_congr_from c s.cells _ y' 0 hcw hch (fun i' _ => rp.other_same i' y' (Or.inl hy'))
          (fun i' _ => (stepW_nonneg hrw s.cells inv.wok i' y').1) f 0 i (Int.le_refl _)
      have hlks : ∀ i j, (Scr.drawRow c y s.w.toNat 0 s).1.cells.locked i j = s.cells.locked i j :=
        locked_congr _ _ hcw hch rp.lock_same
      refine { sync := rs.sync, kcur := rs.kcur, kpen := rs.kpen, gc_same := ?_, lock_same := ?_, other_same := ?_,
               done := ?_, w_same := by rw [rs.w_same, rp.w_same], h_same := by rw [rs.h_same, rp.h_same],
               style_same := by rw [rs.style_same, rp.style_same], cursor_same := ?_, flags_same := ?_, vis_same := ?_,
               writes := ?_, covers := ?_ }
      · intro i j; rw [rs.gc_same, rp.gc_same]
      · intro i j; rw [rs.lock_same, rp.lock_same]
      · intro i j hj; rw [rs.other_same i j (by omega), rp.other_same i j (Or.inl (by omega))]
      · intro y' i h1 h2 h3 hv hl
        by_cases hy : y' = y
        · subst hy
          rw [rs.other_same i y' (by omega)]
          exact rp.done i hv hl
        · have hv' : visitsG c (Scr.drawRow c y s.w.toNat 0 s).1.cells y' (Scr.drawRow c y s.w.toNat 0 s).1.w.toNat 0 i = true := by
            rw [hrowwalk y' hy, rp.w_same]; exact hv
          have hl' : ((Scr.drawRow c y s.w.toNat 0 s).1.cells.cells i y').lock = false := by rw [rp.lock_same]; exact hl
          exact rs.done y' i (by omega) (by omega) (by rw [rp.h_same]; exact h3) hv' hl'
      · obtain ⟨a1, a2, a3, a4⟩ := rs.cursor_same; obtain ⟨b1, b2, b3, b4⟩ := rp.cursor_same
        exact ⟨a1.trans b1, a2.trans b2, a3.trans b3, a4.trans b4⟩
      · obtain ⟨a1, a2⟩ := rs.flags_same; obtain ⟨b1, b2⟩ := rp.flags_same
        exact ⟨a1.trans b1, a2.trans b2⟩
      · obtain ⟨a1, a2⟩ := rs.vis_same; obtain ⟨b1, b2⟩ := rp.vis_same
        exact ⟨a1.trans b1, a2.trans b2⟩
      · obtain ⟨ws1, hws1, hm1⟩ := rp.writes
        obtain ⟨ws2, hws2, hm2⟩ := rs.writes
        refine ⟨ws2 ++ ws1, by rw [hws2, hws1]; simp, ?_⟩
        intro p hp
        rcases List.mem_append.1 hp with hp | hp
        · obtain ⟨p1, p2, p3⟩ := hm2 p hp
          refine ⟨by omega, ?_, ?_⟩
          · have hsame := rp.other_same p.1 p.2 (Or.inl (by omega))
            simp only [dirty, inRange_iff, hcw, hch, hsame] at p2 ⊢
            exact p2
          · rw [hrowwalk p.2 (by omega), rp.w_same] at p3; exact p3
        · obtain ⟨p1, _, p3, p4⟩ := hm1 p hp
          exact ⟨by omega, p3, by rw [p1]; exact p4⟩
      · obtain ⟨cs2, h2, m2⟩ := rs.covers
        obtain ⟨cs1, h1, m1⟩ := rp.covers
        refine ⟨cs2 ++ cs1, by rw [h2, h1]; simp, ?_⟩
        intro hg p hp
        rcases List.mem_append.1 hp with hp | hp
        · rw [← hlks]; exact m2 hg p hp
        · exact m1 hg p hp
    · rw [if_neg hlt]
      exact { sync := inv, kcur := kc, kpen := kp, gc_same := fun _ _ => rfl, lock_same := fun _ _ => rfl,
              other_same := fun _ _ _ => rfl,
              done := by intro y' i h1 _ h3; omega,
              w_same := rfl, h_same := rfl, style_same := rfl, cursor_same := ⟨rfl, rfl, rfl, rfl⟩, flags_same := ⟨rfl, rfl⟩,
              vis_same := ⟨rfl, rfl⟩, writes := ⟨[], by simp, by simp⟩,
              covers := ⟨[], by simp, by intro _ p hp; simp at hp⟩ }

end Tcell

namespace Tcell
open Buf

/-- every cell of the buffer needs repainting -/
def AllDirty (s : Scr) : Prop := ∀ x y, s.cells.inRange x y → (s.cells.cells x y).lastMain = 0

/-- weakening the recorded default style is always sound -/
theorem SyncInv.weaken {c : DrawCfg} {d : Option Style} {s : Scr} {t : ATerm} (inv : SyncInv c d s t) :
    SyncInv c none s t :=
  { tw := inv.tw, th := inv.th, cw := inv.cw, ch := inv.ch, wok := inv.wok, valid := inv.valid, g2 := inv.g2, wf := inv.wf,
    g3 := inv.g3,
    g1 := fun x y hr hl hm => by
      obtain ⟨st', nl, h1, h2, _, h4⟩ := inv.g1 x y hr hl hm
      exact ⟨st', nl, h1, h2, by intro _ d' hd'; exact absurd hd' (by simp), h4⟩ }

/-- when everything is dirty the invariant does not depend on the recorded default style -/
theorem SyncInv.of_allDirty {c : DrawCfg} {d d' : Option Style} {s : Scr} {t : ATerm} (inv : SyncInv c d s t)
    (hall : AllDirty s) : SyncInv c d' s t :=
  { tw := inv.tw, th := inv.th, cw := inv.cw, ch := inv.ch, wok := inv.wok, valid := inv.valid, g2 := inv.g2, wf := inv.wf,
    g3 := inv.g3,
    g1 := fun x y hr _ hm => absurd (hall x y hr) hm }

/-- the invariant for a terminal about which nothing is known, when everything is dirty -/
theorem SyncInv.fresh {c : DrawCfg} {d : Option Style} {s : Scr} {t : ATerm}
    (tw : t.w = s.w) (th : t.h = s.h) (cw : s.cells.w = s.w) (ch : s.cells.h = s.h)
    (wok : ∀ x y, WOk c.rw (s.cells.cells x y))
    (valid : s.style.attrs ≠ attrInvalid ∧ ∀ x y, (s.cells.cells x y).currStyle.attrs ≠ attrInvalid)
    (hall : AllDirty s) (hg : ∀ x y, t.grid x y = .garbage) : SyncInv c d s t :=
  { tw := tw, th := th, cw := cw, ch := ch, wok := wok, valid := valid,
    g1 := by intro x y hr _ hm; exact absurd (hall x y hr) hm,
    g2 := by intro x y hr _; exact Or.inr (hall x y hr),
    wf := by intro x y _ h; rw [hg] at h; exact absurd h (by simp),
    g3 := by intro x y hr _ hm; exact absurd (hall x y hr) hm }

/-- the part of the invariant that does not speak about the terminal's contents -/
structure BufOk (c : DrawCfg) (s : Scr) (t : ATerm) : Prop where
  tw : t.w = s.w
  th : t.h = s.h
  cw : s.cells.w = s.w
  ch : s.cells.h = s.h
  wok : ∀ x y, WOk c.rw (s.cells.cells x y)
  valid : s.style.attrs ≠ attrInvalid ∧ ∀ x y, (s.cells.cells x y).currStyle.attrs ≠ attrInvalid

theorem SyncInv.bufOk {c : DrawCfg} {d : Option Style} {s : Scr} {t : ATerm} (inv : SyncInv c d s t) : BufOk c s t :=
  { tw := inv.tw, th := inv.th, cw := inv.cw, ch := inv.ch, wok := inv.wok, valid := inv.valid }

/-- what a whole draw guarantees -/
structure DrawPost (c : DrawCfg) (d : Option Style) (s : Scr) (t : ATerm) (s' : Scr) (t' : ATerm) : Prop where
  sync : SyncInv c d s' t'
  gc_same : ∀ i j, s'.cells.getContent i j = s.cells.getContent i j
  lock_same : ∀ i j, (s'.cells.cells i j).lock = (s.cells.cells i j).lock
  done : ∀ x y, s.cells.inRange x y → visitedG c s.cells x y = true → (s.cells.cells x y).lock = false →
    (s'.cells.cells x y).lastMain ≠ 0 ∧ (s'.cells.cells x y).last = (s'.cells.cells x y).content
  w_same : s'.w = s.w
  h_same : s'.h = s.h
  style_same : s'.style = s.style
  cursor_same : s'.cursorx = s.cursorx ∧ s'.cursory = s.cursory ∧ s'.cursorStyle = s.cursorStyle ∧ s'.cursorColor = s.cursorColor
  clear_done : s'.clear = false
  fini_same : s'.fini = s.fini
  /-- the cursor is shown at the requested cell, or hidden / parked bottom-right when that cell is off-screen -/
  cursor :
    (s.cells.inRange s.cursorx s.cursory →
      t'.cur = some (s.cursorx, s.cursory) ∧ t'.visible = some true ∧ t'.shape = some (s.cursorStyle, s.cursorColor)) ∧
    (¬ s.cells.inRange s.cursorx s.cursory →
      (c.hasHide = true → t'.visible = some false) ∧
      (c.hasHide = false → t'.cur = some (t.clampX s.cells.w, t.clampY s.cells.h)))
  writes : ∃ ws, t'.writes = ws ++ t.writes ∧ ∀ p ∈ ws, s.cells.dirty p.1 p.2 = true ∧ visitedG c s.cells p.1 p.2 = true
  /-- with the guard compiled in, no cell a payload of this draw occupies is locked -/
  covers : ∃ cs, t'.covered = cs ++ t.covered ∧ (c.guardLocked = true → ∀ p ∈ cs, s.cells.locked p.1 p.2 = false)

theorem hideCursor_apply (c : DrawCfg) (s : Scr) (t : ATerm) :
    (t.applyAll (s.hideCursor c).2).grid = t.grid ∧ (t.applyAll (s.hideCursor c).2).w = t.w ∧
    (t.applyAll (s.hideCursor c).2).h = t.h ∧ (t.applyAll (s.hideCursor c).2).chaos = t.chaos ∧
    ((t.applyAll (s.hideCursor c).2).writes = t.writes ∧ (t.applyAll (s.hideCursor c).2).covered = t.covered) ∧
    (t.applyAll (s.hideCursor c).2).pen = t.pen ∧
    (s.hideCursor c).1.cells = s.cells ∧ (s.hideCursor c).1.w = s.w ∧ (s.hideCursor c).1.h = s.h ∧
    (s.hideCursor c).1.style = s.style ∧ (s.hideCursor c).1.curstyle = s.curstyle ∧ (s.hideCursor c).1.clear = s.clear ∧
    (s.hideCursor c).1.fini = s.fini ∧
    ((s.hideCursor c).1.cursorx = s.cursorx ∧ (s.hideCursor c).1.cursory = s.cursory ∧
      (s.hideCursor c).1.cursorStyle = s.cursorStyle ∧ (s.hideCursor c).1.cursorColor = s.cursorColor) ∧
    ((c.hasHide = true → (t.applyAll (s.hideCursor c).2).visible = some false ∧ (s.hideCursor c).1.cx = s.cx ∧
        (s.hideCursor c).1.cy = s.cy ∧ (t.applyAll (s.hideCursor c).2).cur = t.cur) ∧
     (c.hasHide = false → (t.applyAll (s.hideCursor c).2).cur = some (t.clampX s.cells.w, t.clampY s.cells.h) ∧
        (s.hideCursor c).1.cx = s.cells.w ∧ (s.hideCursor c).1.cy = s.cells.h)) := by
  unfold Scr.hideCursor
  cases hh : c.hasHide <;> simp [ATerm.applyAll, ATerm.apply]

end Tcell

namespace Tcell
open Buf

/-- the invariant only reads these components -/
theorem SyncInv.congr {c : DrawCfg} {d : Option Style} {s s' : Scr} {t t' : ATerm} (inv : SyncInv c d s t)
    (h1 : s'.cells = s.cells) (h2 : s'.w = s.w) (h3 : s'.h = s.h) (h4 : s'.style = s.style)
    (h5 : t'.grid = t.grid) (h6 : t'.w = t.w) (h7 : t'.h = t.h) : SyncInv c d s' t' := by
  refine { tw := by rw [h6, h2]; exact inv.tw, th := by rw [h7, h3]; exact inv.th, cw := by rw [h1, h2]; exact inv.cw,
           ch := by rw [h1, h3]; exact inv.ch, wok := by rw [h1]; exact inv.wok, valid := by rw [h1, h4]; exact inv.valid,
           g1 := ?_, g2 := ?_, wf := ?_, g3 := ?_ }
  · rw [h1, h2, h5]; exact inv.g1
  · rw [h1, h5]; exact inv.g2
  · rw [h1, h5]; exact inv.wf
  · rw [h1, h2, h5]; exact inv.g3

theorem showCursor_apply (c : DrawCfg) (s : Scr) (t : ATerm) :
    (t.applyAll (s.showCursor c).2).grid = t.grid ∧ (t.applyAll (s.showCursor c).2).w = t.w ∧
    (t.applyAll (s.showCursor c).2).h = t.h ∧ (t.applyAll (s.showCursor c).2).chaos = t.chaos ∧
    ((t.applyAll (s.showCursor c).2).writes = t.writes ∧ (t.applyAll (s.showCursor c).2).covered = t.covered) ∧
    (s.showCursor c).1.cells = s.cells ∧ (s.showCursor c).1.w = s.w ∧ (s.showCursor c).1.h = s.h ∧
    (s.showCursor c).1.style = s.style ∧ (s.showCursor c).1.clear = s.clear ∧ (s.showCursor c).1.fini = s.fini ∧
    ((s.showCursor c).1.cursorx = s.cursorx ∧ (s.showCursor c).1.cursory = s.cursory ∧
      (s.showCursor c).1.cursorStyle = s.cursorStyle ∧ (s.showCursor c).1.cursorColor = s.cursorColor) := by
  unfold Scr.showCursor
  simp only
  split
  · have := hideCursor_apply c s t
    obtain ⟨a1, a2, a3, a4, a5, _, a7, a8, a9, a10, _, a12, a13, a14, _⟩ := this
    exact ⟨a1, a2, a3, a4, a5, a7, a8, a9, a10, a12, a13, a14⟩
  · simp [ATerm.applyAll, ATerm.apply]

end Tcell

namespace Tcell
open Buf

theorem draw_eq (c : DrawCfg) (s : Scr) :
    s.draw c =
      let s0 : Scr := { s with cx := -1, cy := -1, curstyle := styleInvalid }
      let r1 := s0.hideCursor c
      let r2 := if r1.1.clear then r1.1.clearScreen else (r1.1, [])
      let r3 := Scr.drawRows c r2.1.h.toNat 0 r2.1
      let r4 := r3.1.showCursor c
      (r4.1, r1.2 ++ r2.2 ++ r3.2 ++ r4.2) := by
  simp only [Scr.draw]

theorem draw_post {c : DrawCfg} (hrw : RwOk c.rw) (hct : c.Plain) {d : Option Style} {s : Scr} {t : ATerm}
    (pre : BufOk c s t) (inv : s.clear = false → SyncInv c d s t) (hclear : s.clear = true → AllDirty s) :
    DrawPost c (if d = some s.style then d else none) s t (s.draw c).1 (t.applyAll (s.draw c).2) := by
  rw [draw_eq]; simp only
  generalize hd1 : (if d = some s.style then d else none) = d1
  have inv1 : s.clear = false → SyncInv c d1 s t := by
    intro hc
    rw [← hd1]; split
    · exact inv hc
    · exact (inv hc).weaken
  have dc1 : ∀ d', d1 = some d' → d' = s.style := by
    intro d' h; rw [← hd1] at h; split at h
    · rename_i he; rw [he] at h; injection h with h; exact h.symm
    · exact absurd h (by simp)
  -- step 0/1: forget caches, hide the cursor
  generalize hs0 : ({ s with cx := -1, cy := -1, curstyle := styleInvalid } : Scr) = s0
  have e0 : s0.cells = s.cells ∧ s0.w = s.w ∧ s0.h = s.h ∧ s0.style = s.style ∧ s0.clear = s.clear ∧ s0.fini = s.fini ∧
      s0.cx = -1 ∧ s0.cy = -1 ∧ s0.curstyle = styleInvalid ∧ s0.cursorx = s.cursorx ∧ s0.cursory = s.cursory ∧
      s0.cursorStyle = s.cursorStyle ∧ s0.cursorColor = s.cursorColor := by
    rw [← hs0]; exact ⟨rfl, rfl, rfl, rfl, rfl, rfl, rfl, rfl, rfl, rfl, rfl, rfl, rfl⟩
  obtain ⟨e01, e02, e03, e04, e05, e06, e07, e08, e09, e010, e011, e012, e013⟩ := e0
  have hh := hideCursor_apply c s0 t
  generalize hr1 : s0.hideCursor c = r1 at hh
  obtain ⟨g1, g2, g3, g4, g5, g6, g7, g8, g9, g10, g11, g12, g13, g14, g15⟩ := hh
  generalize ht1 : t.applyAll r1.2 = t1 at *
  have inv2 : r1.1.clear = false → SyncInv c d1 r1.1 t1 := by
    intro hc; rw [g12, e05] at hc
    exact (inv1 hc).congr (g7.trans e01) (g8.trans e02) (g9.trans e03) (g10.trans e04) g1 g2 g3
  have pre2 : BufOk c r1.1 t1 :=
    { tw := by rw [g2, g8, e02]; exact pre.tw, th := by rw [g3, g9, e03]; exact pre.th,
      cw := by rw [g7, e01, g8, e02]; exact pre.cw, ch := by rw [g7, e01, g9, e03]; exact pre.ch,
      wok := by rw [g7, e01]; exact pre.wok, valid := by rw [g7, e01, g10, e04]; exact pre.valid }
  have hcs1 : r1.1.curstyle = styleInvalid := g11.trans e09
  have hkc1 : r1.1.cells.inRange r1.1.cx r1.1.cy → t1.cur = some (r1.1.cx, r1.1.cy) := by
    intro hr
    cases hh : c.hasHide
    · obtain ⟨_, k2, k3⟩ := g15.2 hh
      rw [k2, k3, g7] at hr; simp only [inRange_iff] at hr; omega
    · obtain ⟨_, k2, k3, _⟩ := g15.1 hh
      rw [k2, k3, e07, e08, g7] at hr; simp only [inRange_iff] at hr; omega
  -- step 2: optional clear
  have hall1 : r1.1.clear = true → AllDirty r1.1 := by
    intro h; rw [g12, e05] at h
    intro x y hr; rw [g7, e01] at hr ⊢; exact hclear h x y hr
  generalize hr2 : (if r1.1.clear then r1.1.clearScreen else (r1.1, [])) = r2
  generalize ht2 : t1.applyAll r2.2 = t2
  have st2 : SyncInv c d1 r2.1 t2 ∧ r2.1.cells = r1.1.cells ∧ r2.1.w = r1.1.w ∧ r2.1.h = r1.1.h ∧ r2.1.style = r1.1.style ∧
      r2.1.curstyle = r1.1.curstyle ∧ r2.1.clear = false ∧ r2.1.fini = r1.1.fini ∧ r2.1.cx = r1.1.cx ∧ r2.1.cy = r1.1.cy ∧
      (r2.1.cursorx = r1.1.cursorx ∧ r2.1.cursory = r1.1.cursory ∧ r2.1.cursorStyle = r1.1.cursorStyle ∧
        r2.1.cursorColor = r1.1.cursorColor) ∧
      (t2.writes = t1.writes ∧ t2.covered = t1.covered) ∧ t2.visible = t1.visible ∧ t2.shape = t1.shape ∧
      (r1.1.cells.inRange r1.1.cx r1.1.cy → t2.cur = some (r1.1.cx, r1.1.cy)) := by
    cases hcl : r1.1.clear
    · rw [hcl] at hr2; simp only [Bool.false_eq_true, if_false] at hr2
      rw [← hr2] at ht2 ⊢; simp only [applyAll_nil] at ht2; rw [← ht2]
      exact ⟨inv2 hcl, rfl, rfl, rfl, rfl, rfl, hcl, rfl, rfl, rfl, ⟨rfl, rfl, rfl, rfl⟩, ⟨rfl, rfl⟩, rfl, rfl, hkc1⟩
    · rw [hcl] at hr2; simp only [if_true] at hr2
      have e1 : r2.1 = { r1.1 with clear := false } := by rw [← hr2]; rfl
      have e2 : r2.2 = [Cmd.clear r1.1.style] := by rw [← hr2]; rfl
      have e3 : t2 = { t1.allGarbage with cur := none, pen := none } := by rw [← ht2, e2]; rfl
      rw [e1, e3]
      refine ⟨?_, rfl, rfl, rfl, rfl, rfl, rfl, rfl, rfl, rfl, ⟨rfl, rfl, rfl, rfl⟩, ⟨rfl, rfl⟩, rfl, rfl, ?_⟩
      · exact SyncInv.fresh pre2.tw pre2.th pre2.cw pre2.ch pre2.wok pre2.valid (hall1 hcl) (fun _ _ => rfl)
      · intro hr; exfalso
        cases hh : c.hasHide
        · obtain ⟨_, k2, k3⟩ := g15.2 hh
          rw [k2, k3, g7] at hr; simp only [inRange_iff] at hr; omega
        · obtain ⟨_, k2, k3, _⟩ := g15.1 hh
          rw [k2, k3, e07, e08, g7] at hr; simp only [inRange_iff] at hr; omega
  obtain ⟨inv3, f1, f2, f3, f4, f5, f6, f7, f8, f9, f10, f11, f12, f13, f14⟩ := st2
  -- step 3: the double loop
  have rp := drawRows_post hrw hct (d := d1) r2.1.h.toNat 0 r2.1 t2 (by omega) inv3
    (by rw [f1, f8, f9]; exact f14)
    (by intro h; rw [f5, hcs1] at h; exact absurd rfl h)
    (by intro d' hd'; rw [f4, g10, e04]; exact dc1 d' hd')
  generalize hr3 : Scr.drawRows c r2.1.h.toNat 0 r2.1 = r3 at rp
  generalize ht3 : t2.applyAll r3.2 = t3 at rp
  -- step 4: restore the cursor
  have hs := showCursor_apply c r3.1 t3
  generalize hr4 : r3.1.showCursor c = r4 at hs
  obtain ⟨k1, k2, k3, k4, k5, k6, k7, k8, k9, k10, k11, k12⟩ := hs
  have happ : t.applyAll (r1.2 ++ r2.2 ++ r3.2 ++ r4.2) = t3.applyAll r4.2 := by
    rw [applyAll_append, applyAll_append, applyAll_append, ht1, ht2, ht3]
  rw [happ]
  have hcells2 : r2.1.cells = s.cells := by rw [f1, g7, e01]
  have hw2 : r2.1.w = s.w := by rw [f2, g8, e02]
  have hh2 : r2.1.h = s.h := by rw [f3, g9, e03]
  refine { sync := ?_, gc_same := ?_, lock_same := ?_, done := ?_, w_same := ?_, h_same := ?_, style_same := ?_,
           cursor_same := ?_, clear_done := ?_, fini_same := ?_, cursor := ?_, writes := ?_, covers := ?_ }
  · exact rp.sync.congr k6 k7 k8 k9 k1 k2 k3
  · intro i j; rw [k6, rp.gc_same, hcells2]
  · intro i j; rw [k6, rp.lock_same, hcells2]
  · intro x y hr hv hl
    rw [k6]
    have hy : 0 ≤ y ∧ y < s.h := by have := pre.ch; simp only [inRange_iff] at hr; omega
    apply rp.done y x (by omega) (by rw [hh2]; omega) (by rw [hh2]; exact hy.2)
    · rw [hcells2, hw2]; simpa [visitedG, pre.cw] using hv
    · rw [hcells2]; exact hl
  · rw [k7, rp.w_same, hw2]
  · rw [k8, rp.h_same, hh2]
  · rw [k9, rp.style_same, f4, g10, e04]
  · obtain ⟨a1, a2, a3, a4⟩ := k12; obtain ⟨b1, b2, b3, b4⟩ := rp.cursor_same; obtain ⟨c1, c2, c3, c4⟩ := f10
    obtain ⟨d1', d2, d3, d4⟩ := g14
    exact ⟨by rw [a1, b1, c1, d1', e010], by rw [a2, b2, c2, d2, e011], by rw [a3, b3, c3, d3, e012], by rw [a4, b4, c4, d4, e013]⟩
  · rw [k10, rp.flags_same.1, f6]
  · rw [k11, rp.flags_same.2, f7, g13, e06]
  · -- cursor
    have hcx : r3.1.cursorx = s.cursorx ∧ r3.1.cursory = s.cursory ∧ r3.1.cursorStyle = s.cursorStyle ∧
        r3.1.cursorColor = s.cursorColor := by
      obtain ⟨b1, b2, b3, b4⟩ := rp.cursor_same; obtain ⟨c1, c2, c3, c4⟩ := f10; obtain ⟨d1', d2, d3, d4⟩ := g14
      exact ⟨by rw [b1, c1, d1', e010], by rw [b2, c2, d2, e011], by rw [b3, c3, d3, e012], by rw [b4, c4, d4, e013]⟩
    have hc3 : r3.1.cells.w = s.cells.w ∧ r3.1.cells.h = s.cells.h := by
      rw [rp.sync.cw, rp.sync.ch, rp.w_same, rp.h_same, hw2, hh2, pre.cw, pre.ch]; exact ⟨rfl, rfl⟩
    have ht3d : t3.w = t.w ∧ t3.h = t.h := by
      rw [rp.sync.tw, rp.sync.th, rp.w_same, rp.h_same, hw2, hh2, pre.tw, pre.th]; exact ⟨rfl, rfl⟩
    rw [← hr4]
    unfold Scr.showCursor
    simp only [hcx.1, hcx.2.1, hcx.2.2.1, hcx.2.2.2, hc3.1, hc3.2]
    constructor
    · intro hr
      have : ¬ (s.cursorx < 0 ∨ s.cursory < 0 ∨ s.cursorx ≥ s.cells.w ∨ s.cursory ≥ s.cells.h) := by
        simp only [inRange_iff] at hr; omega
      rw [if_neg this]
      simp [ATerm.applyAll, ATerm.apply, ATerm.clampX, ATerm.clampY]
      have h1 : ¬ s.cursorx < 0 := by omega
      have h2 : ¬ t3.w ≤ s.cursorx := by rw [ht3d.1, pre.tw, ← pre.cw]; omega
      have h3 : ¬ s.cursory < 0 := by omega
      have h4 : ¬ t3.h ≤ s.cursory := by rw [ht3d.2, pre.th, ← pre.ch]; omega
      simp [h1, h2, h3, h4]
    · intro hr
      have : (s.cursorx < 0 ∨ s.cursory < 0 ∨ s.cursorx ≥ s.cells.w ∨ s.cursory ≥ s.cells.h) := by
        simp only [inRange_iff] at hr; omega
      rw [if_pos this]
      have hh := hideCursor_apply c r3.1 t3
      obtain ⟨_, _, _, _, _, _, _, _, _, _, _, _, _, _, q15⟩ := hh
      constructor
      · intro hhide; exact (q15.1 hhide).1
      · intro hhide
        rw [(q15.2 hhide).1, hc3.1, hc3.2]
        simp only [ATerm.clampX, ATerm.clampY, ht3d.1, ht3d.2]
  · obtain ⟨ws, hws, hm⟩ := rp.writes
    refine ⟨ws, ?_, ?_⟩
    · rw [k5.1, hws, f11.1, g5.1]
    · intro p hp; have := (hm p hp).2; rw [hcells2, hw2] at this
      exact ⟨this.1, by simpa [visitedG, pre.cw] using this.2⟩
  · obtain ⟨cs, hcs, hm⟩ := rp.covers
    refine ⟨cs, ?_, ?_⟩
    · rw [k5.2, hcs, f11.2, g5.2]
    · intro hg p hp; have := hm hg p hp; rw [hcells2] at this; exact this

end Tcell
