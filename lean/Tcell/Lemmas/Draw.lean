import Tcell.Lemmas.DrawCorner
namespace Tcell
open Buf

/-- one loop iteration preserves the pass invariant, whatever the cell's state — the bottom-right corner trick included -/
theorem visit_post {c : DrawCfg} (hrw : RwOk c.rw) (hct : c.Walk) {d : Option Style} {s : Scr} {t : ATerm}
    {x y : Int} (inv : PassInv c d s t x y) (hr : s.cells.inRange x y) (hcc : CornerCtx c s x y) :
    VisitPost c d s t x y (s.visit c x y).1 (t.applyAll (s.visit c x y).2.1) (s.visit c x y).2.2 := by
  cases hd : s.cells.dirty x y
  · exact visit_clean hrw hct inv hr hd
  · by_cases hcor : y = s.h - 1 ∧ x = s.w - 1 ∧ c.cornerTrick = true
    · obtain ⟨h2, hul, gh⟩ := hcc hcor.2.2 hcor.1 (by omega)
      exact visit_corner hrw hct inv hr hd hcor h2 hul gh
    · exact visit_dirty hrw hct inv hr hd hcor

/-- the corner-trick context is carried from one loop iteration to the next -/
theorem cornerCtx_step {c : DrawCfg} (hrw : RwOk c.rw) {d : Option Style} {s : Scr} {t : ATerm} {x y : Int} {s' : Scr} {t' : ATerm}
    {wd : Int} (inv : PassInv c d s t x y) (hr : s.cells.inRange x y) (hcc : CornerCtx c s x y)
    (vp : VisitPost c d s t x y s' t' wd) : CornerCtx c s' (x + wd) y := by
  intro hc hy hlt
  rw [vp.h_same] at hy; rw [vp.w_same] at hlt
  have hxy : 0 ≤ x ∧ x < s.w ∧ 0 ≤ y ∧ y < s.h := by
    have := inv.cw; have := inv.ch; simp only [inRange_iff] at hr; omega
  have hwd := vp.wd_pos
  obtain ⟨h2, hul, gh⟩ := hcc hc hy (by omega)
  have hcw : s'.cells.w = s.cells.w := by rw [vp.inv.cw, vp.w_same, inv.cw]
  have hch : s'.cells.h = s.cells.h := by rw [vp.inv.ch, vp.h_same, inv.ch]
  have hgc := getContent_wok hrw s.cells x y hr (inv.wok x y)
  have hwp := obsWidth_pos hrw (s.cells.cells x y).currMain
  have hraw : rawW s.cells x y = (s.cells.getContent x y).2.2.2 := by
    unfold rawW; rw [hgc]; simp only; split <;> omega
  have hstep : stepW c s.cells x y = rawW s.cells x y := by
    rw [hraw]; unfold stepW; rw [hul (x + 1)]; simp
  have hwdeq : wd = rawW s.cells x y := by
    rcases vp.wd_eq with h | h
    · rw [h, hstep]
    · omega
  have hraw' : rawW s'.cells x y = rawW s.cells x y := rawW_congr _ _ _ _ (vp.gc_same x y)
  refine ⟨by rw [vp.w_same]; exact h2, ?_, ?_, ?_⟩
  · intro i; rw [locked_congr _ _ hcw hch vp.lock_same]; exact hul i
  · rw [hwdeq]
    exact (gh.reach.snoc).congr (fun i => vp.gc_same i y)
  · intro _
    refine ⟨x, hxy.1, gh.reach.congr (fun i => vp.gc_same i y), by rw [hraw', hwdeq], ?_⟩
    have hl : (s.cells.cells x y).lock = false := unlocked_of_locked_false _ _ _ hr (hul x)
    obtain ⟨d1, d2⟩ := vp.done hl
    refine ⟨d1, d2, ?_⟩
    intro hw
    rw [hraw'] at hw
    exact vp.nb (by omega) (by omega)

theorem drawRow_succ (c : DrawCfg) (y : Int) (fuel : Nat) (x : Int) (s : Scr) :
    Scr.drawRow c y (fuel + 1) x s =
      if x < s.w then
        ((Scr.drawRow c y fuel (x + (s.visit c x y).2.2) (s.visit c x y).1).1,
         (s.visit c x y).2.1 ++ (Scr.drawRow c y fuel (x + (s.visit c x y).2.2) (s.visit c x y).1).2)
      else (s, []) := by
  simp only [Scr.drawRow, Scr.visit]

theorem applyAll_append (t : ATerm) (l1 l2 : List Cmd) : t.applyAll (l1 ++ l2) = (t.applyAll l1).applyAll l2 := by
  simp [ATerm.applyAll, List.foldl_append]

@[simp] theorem applyAll_nil (t : ATerm) : t.applyAll [] = t := rfl

theorem visitsG_ge (c : DrawCfg) (b : Buf) (y : Int) (fuel : Nat) (x0 i : Int) (h : b.w ≤ x0) :
    visitsG c b y fuel x0 i = false := by
  cases fuel with
  | zero => rfl
  | succ n => simp only [visitsG]; rw [if_neg (by omega)]

/-- the loop's step at column `x` reads the cells (x,y) and (x+1,y) only -/
theorem stepW_congr (c : DrawCfg) (b b' : Buf) (x y : Int) (hw : b'.w = b.w) (hh : b'.h = b.h)
    (h0 : b'.cells x y = b.cells x y) (h1 : b'.cells (x + 1) y = b.cells (x + 1) y) : stepW c b' x y = stepW c b x y := by
  simp only [stepW, getContent, Buf.locked, dirty, inRange_iff, hw, hh, h0, h1]

theorem stepW_nonneg {c : DrawCfg} (hrw : RwOk c.rw) (b : Buf) (hw : ∀ i j, WOk c.rw (b.cells i j)) (x y : Int) :
    0 ≤ stepW c b x y ∧ (b.inRange x y → 1 ≤ stepW c b x y) := by
  by_cases hr : b.inRange x y
  · have hg := getContent_wok hrw b x y hr (hw x y)
    have hp := obsWidth_pos hrw (b.cells x y).currMain
    unfold stepW; rw [hg]; simp only
    split
    · exact ⟨by omega, fun _ => by omega⟩
    · exact ⟨by omega, fun _ => by omega⟩
  · have hg : b.getContent x y = (0, [], {}, 0) := by simp [getContent, hr]
    unfold stepW; rw [hg]; simp only
    split
    · exact ⟨by omega, fun h => absurd h hr⟩
    · exact ⟨by omega, fun h => absurd h hr⟩

/-- the walk from column `a` on only reads the cells of row `y` from column `a` on -/
theorem visitsG_congr_from (c : DrawCfg) (b b' : Buf) (y a : Int) (hw : b'.w = b.w) (hh : b'.h = b.h)
    (hc : ∀ i, a ≤ i → b'.cells i y = b.cells i y) (hpos : ∀ i, a ≤ i → 0 ≤ stepW c b i y) :
    ∀ (f : Nat) (x0 i : Int), a ≤ x0 → visitsG c b' y f x0 i = visitsG c b y f x0 i := by
  intro f
  induction f with
  | zero => intro x0 i _; rfl
  | succ m ih =>
    intro x0 i hx0
    simp only [visitsG, hw]
    rw [stepW_congr c b b' x0 y hw hh (hc x0 hx0) (hc (x0 + 1) (by omega))]
    rw [ih _ _ (by have := hpos x0 hx0; omega)]

theorem visitedG_congr_row (c : DrawCfg) (b b' : Buf) (y : Int) (hw : b'.w = b.w) (hh : b'.h = b.h)
    (hc : ∀ i, b'.cells i y = b.cells i y) (hpos : ∀ i, 0 ≤ stepW c b i y) (x : Int) :
    visitedG c b' x y = visitedG c b x y := by
  simp only [visitedG, hw]
  by_cases hx : (0 : Int) ≤ 0
  · exact visitsG_congr_from c b b' y 0 hw hh (fun i _ => hc i) (fun i _ => hpos i) _ _ _ hx
  · omega

/-- when the walk does not depend on the Dirty flags (pinned drawCell, or the walk fix) it is determined by contents,
locks and dimensions -/
theorem stepW_static (c : DrawCfg) (hs : c.guardLocked = false ∨ c.walkGuard = true) (b b' : Buf) (hw : b'.w = b.w)
    (hh : b'.h = b.h) (hg : ∀ i j, b'.getContent i j = b.getContent i j)
    (hl : ∀ i j, (b'.cells i j).lock = (b.cells i j).lock) (x y : Int) : stepW c b' x y = stepW c b x y := by
  unfold stepW
  rw [hg, locked_congr b b' hw hh hl]
  rcases hs with h | h
  · simp [h]
  · simp [h]

theorem visitsG_static (c : DrawCfg) (hs : c.guardLocked = false ∨ c.walkGuard = true) (b b' : Buf) (hw : b'.w = b.w)
    (hh : b'.h = b.h) (hg : ∀ i j, b'.getContent i j = b.getContent i j)
    (hl : ∀ i j, (b'.cells i j).lock = (b.cells i j).lock) (y : Int) :
    ∀ (f : Nat) (x0 i : Int), visitsG c b' y f x0 i = visitsG c b y f x0 i := by
  intro f
  induction f with
  | zero => intro x0 i; rfl
  | succ m ih => intro x0 i; simp only [visitsG, hw, stepW_static c hs b b' hw hh hg hl, ih]

theorem visitedG_static (c : DrawCfg) (hs : c.guardLocked = false ∨ c.walkGuard = true) (b b' : Buf) (hw : b'.w = b.w)
    (hh : b'.h = b.h) (hg : ∀ i j, b'.getContent i j = b.getContent i j)
    (hl : ∀ i j, (b'.cells i j).lock = (b.cells i j).lock) (x y : Int) : visitedG c b' x y = visitedG c b x y := by
  simp only [visitedG, hw]; exact visitsG_static c hs b b' hw hh hg hl y _ _ _

/-- without the guard the walk is the pinned one -/
theorem visitsG_eq_visits (c : DrawCfg) (hg : c.guardLocked = false) (b : Buf) (y : Int) :
    ∀ (f : Nat) (x0 i : Int), visitsG c b y f x0 i = visits c.rw b y f x0 i := by
  intro f
  induction f with
  | zero => intro x0 i; rfl
  | succ m ih => intro x0 i; simp only [visitsG, visits, stepW, hg, ih]; simp

theorem visitedG_eq_visited (c : DrawCfg) (hg : c.guardLocked = false) (b : Buf) (x y : Int) :
    visitedG c b x y = visited c.rw b x y := by
  simp only [visitedG, visited]; exact visitsG_eq_visits c hg b y _ _ _

/-- what a pass over (the rest of) a row guarantees -/
structure RowPost (c : DrawCfg) (d : Option Style) (s : Scr) (t : ATerm) (x0 y : Int) (fuel : Nat)
    (s' : Scr) (t' : ATerm) : Prop where
  sync : SyncInv c d s' t'
  kcur : s'.cells.inRange s'.cx s'.cy → t'.cur = some (s'.cx, s'.cy)
  kpen : s'.curstyle ≠ styleInvalid → t'.pen = some s'.curstyle
  gc_same : ∀ i j, s'.cells.getContent i j = s.cells.getContent i j
  lock_same : ∀ i j, (s'.cells.cells i j).lock = (s.cells.cells i j).lock
  other_same : ∀ i j, (j ≠ y ∨ i < x0) → s'.cells.cells i j = s.cells.cells i j
  done : ∀ i, visitsG c s.cells y fuel x0 i = true → (s.cells.cells i y).lock = false →
    (s'.cells.cells i y).lastMain ≠ 0 ∧ (s'.cells.cells i y).last = (s'.cells.cells i y).content
  w_same : s'.w = s.w
  h_same : s'.h = s.h
  style_same : s'.style = s.style
  cursor_same : s'.cursorx = s.cursorx ∧ s'.cursory = s.cursory ∧ s'.cursorStyle = s.cursorStyle ∧ s'.cursorColor = s.cursorColor
  flags_same : s'.clear = s.clear ∧ s'.fini = s.fini
  vis_same : t'.visible = t.visible ∧ t'.shape = t.shape
  /-- cells that received payload in this pass were dirty when the pass reached them, and lie in this row right of x0 -/
  writes : ∃ ws, t'.writes = ws ++ t.writes ∧ ∀ p ∈ ws,
    (p.2 = y ∧ x0 ≤ p.1 ∧ s.cells.dirty p.1 p.2 = true ∧ visitsG c s.cells y fuel x0 p.1 = true) ∨
    (c.cornerTrick = true ∧ y = s.h - 1 ∧ p.2 = y ∧ x0 ≤ s.w - 1 ∧ s.cells.dirty (s.w - 1) y = true ∧
      visitsG c s.cells y fuel x0 (s.w - 1) = true ∧
      (p.1 = s.w - 2 ∨ p.1 = Scr.coverStart s.cells y (s.w - 1).toNat 0 (s.w - 1)))
  covers : ∃ cs, t'.covered = cs ++ t.covered ∧ (c.guardLocked = true → ∀ p ∈ cs, s.cells.locked p.1 p.2 = false)

theorem visitsG_self (c : DrawCfg) (b : Buf) (y : Int) (fuel : Nat) (x0 : Int) (h : x0 < b.w) :
    visitsG c b y (fuel + 1) x0 x0 = true := by
  simp [visitsG, h]

theorem drawRow_post {c : DrawCfg} (hrw : RwOk c.rw) (hct : c.Walk) {d : Option Style} (y : Int) :
    ∀ (fuel : Nat) (x : Int) (s : Scr) (t : ATerm), 0 ≤ x → 0 ≤ y → y < s.h → PassInv c d s t x y → CornerCtx c s x y →
      RowPost c d s t x y fuel (Scr.drawRow c y fuel x s).1 (t.applyAll (Scr.drawRow c y fuel x s).2) := by
  intro fuel
  induction fuel with
  | zero =>
    intro x s t _ _ _ inv _
    exact { sync := inv.toSyncInv, kcur := inv.kcur, kpen := inv.kpen, gc_same := fun _ _ => rfl, lock_same := fun _ _ => rfl,
            other_same := fun _ _ _ => rfl, done := by intro i h; simp [visitsG] at h, w_same := rfl, h_same := rfl,
            style_same := rfl, cursor_same := ⟨rfl, rfl, rfl, rfl⟩, flags_same := ⟨rfl, rfl⟩, vis_same := ⟨rfl, rfl⟩,
            writes := ⟨[], by simp [Scr.drawRow], by simp⟩,
            covers := ⟨[], by simp [Scr.drawRow], by intro _ p hp; simp at hp⟩ }
  | succ n ih =>
    intro x s t hx0 hy0 hy1 inv hcc
    rw [drawRow_succ]
    by_cases hlt : x < s.w
    · rw [if_pos hlt]; simp only
      have hr : s.cells.inRange x y := by
        have := inv.cw; have := inv.ch; simp only [inRange_iff]; omega
      have vp := visit_post hrw hct inv hr hcc
      rw [applyAll_append]
      have hy1' : y < (s.visit c x y).1.h := by rw [vp.h_same]; exact hy1
      have rp := ih (x + (s.visit c x y).2.2) (s.visit c x y).1 (t.applyAll (s.visit c x y).2.1)
        (by have := vp.wd_pos; omega) hy0 hy1' vp.inv (cornerCtx_step hrw inv hr hcc vp)
      have hwd := vp.wd_pos
      have hcw : (s.visit c x y).1.cells.w = s.cells.w := by rw [vp.inv.cw, vp.w_same, inv.cw]
      have hch : (s.visit c x y).1.cells.h = s.cells.h := by rw [vp.inv.ch, vp.h_same, inv.ch]
      -- right of the visit the buffer is untouched, so the walk continues the same way on both buffers
      have hwalk : ∀ i, visitsG c (s.visit c x y).1.cells y n (x + (s.visit c x y).2.2) i =
          visitsG c s.cells y n (x + (s.visit c x y).2.2) i := by
        intro i
        exact visitsG_congr_from c s.cells _ y (x + (s.visit c x y).2.2) hcw hch
          (fun i' hi' => vp.other_same i' y (Or.inr (Or.inr hi')))
          (fun i' _ => (stepW_nonneg hrw s.cells inv.wok i' y).1) n _ i (Int.le_refl _)
      have hlks : ∀ i j, (s.visit c x y).1.cells.locked i j = s.cells.locked i j :=
        locked_congr _ _ hcw hch vp.lock_same
      refine { sync := rp.sync, kcur := rp.kcur, kpen := rp.kpen, gc_same := ?_, lock_same := ?_, other_same := ?_,
               done := ?_, w_same := by rw [rp.w_same, vp.w_same], h_same := by rw [rp.h_same, vp.h_same],
               style_same := by rw [rp.style_same, vp.style_same], cursor_same := ?_, flags_same := ?_, vis_same := ?_,
               writes := ?_, covers := ?_ }
      · intro i j; rw [rp.gc_same, vp.gc_same]
      · intro i j; rw [rp.lock_same, vp.lock_same]
      · intro i j hne
        rw [rp.other_same i j (by omega), vp.other_same i j (by omega)]
      · intro i hv hl
        simp only [visitsG, if_pos (show x < s.cells.w by rw [inv.cw]; exact hlt)] at hv
        by_cases hix : i = x
        · subst hix
          have hdone := vp.done hl
          rw [rp.other_same i y (Or.inr (by omega))]
          exact hdone
        · rw [if_neg hix] at hv
          -- the model's step and the spec's step reach the same columns
          have hv' : visitsG c (s.visit c x y).1.cells y n (x + (s.visit c x y).2.2) i = true := by
            rw [hwalk]
            rcases vp.wd_eq with e | e
            · rw [e]; exact hv
            · exfalso
              rw [visitsG_ge _ _ _ _ _ _ (by rw [inv.cw]; omega)] at hv; simp at hv
          have hl' : ((s.visit c x y).1.cells.cells i y).lock = false := by rw [vp.lock_same]; exact hl
          exact rp.done i hv' hl'
      · obtain ⟨a1, a2, a3, a4⟩ := rp.cursor_same; obtain ⟨b1, b2, b3, b4⟩ := vp.cursor_same
        exact ⟨a1.trans b1, a2.trans b2, a3.trans b3, a4.trans b4⟩
      · obtain ⟨a1, a2⟩ := rp.flags_same; obtain ⟨b1, b2⟩ := vp.flags_same
        exact ⟨a1.trans b1, a2.trans b2⟩
      · obtain ⟨a1, a2⟩ := rp.vis_same; obtain ⟨b1, b2⟩ := vp.vis_same
        exact ⟨a1.trans b1, a2.trans b2⟩
      · obtain ⟨ws, hws, hmem⟩ := rp.writes
        obtain ⟨ws1, hws1, hnil, hm1⟩ := vp.writes
        rw [hws1] at hws
        -- a cell right of the visit position is untouched by the visit, so "dirty" means the same before and after
        have hkeep : ∀ i : Int, x + (s.visit c x y).2.2 ≤ i →
            (s.visit c x y).1.cells.dirty i y = true → s.cells.dirty i y = true := by
          intro i p2 p3
          have hsame := vp.other_same i y (Or.inr (Or.inr p2))
          simp only [dirty, inRange_iff, hcw, hch, hsame] at p3 ⊢
          exact p3
        -- and the spec's column walk reaches it from x too
        have hvis : ∀ i : Int, x + (s.visit c x y).2.2 ≤ i →
            visitsG c (s.visit c x y).1.cells y n (x + (s.visit c x y).2.2) i = true →
            visitsG c s.cells y (n + 1) x i = true := by
          intro i p2 p4
          rw [hwalk] at p4
          simp only [visitsG, if_pos (show x < s.cells.w by rw [inv.cw]; exact hlt)]
          have hne : ¬ i = x := by omega
          rw [if_neg hne]
          rcases vp.wd_eq with e | e
          · rw [← e]; exact p4
          · exfalso; rw [visitsG_ge _ _ _ _ _ _ (by rw [inv.cw]; omega)] at p4; simp at p4
        refine ⟨ws ++ ws1, by rw [hws]; simp, ?_⟩
        intro p hp
        rcases List.mem_append.1 hp with hp | hp
        · rcases hmem p hp with ⟨p1, p2, p3, p4⟩ | ⟨e1, e2, e3, e4, e5, e6, e7⟩
          · left; exact ⟨p1, by omega, by rw [p1] at p3 ⊢; exact hkeep p.1 p2 p3, hvis p.1 p2 p4⟩
          · right
            rw [vp.w_same] at e4 e5 e6 e7; rw [vp.h_same] at e2
            refine ⟨e1, e2, e3, by omega, hkeep _ e4 e5, hvis _ e4 e6, ?_⟩
            rw [coverStart_congr s.cells _ y (fun i => vp.gc_same i y)] at e7; exact e7
        · have hd : s.cells.dirty x y = true := by
            cases h : s.cells.dirty x y
            · rw [hnil h] at hp; simp at hp
            · rfl
          rcases hm1 p hp with h | ⟨e1, e2, e3, e4, e5⟩
          · left; subst h
            exact ⟨rfl, by simp, hd, visitsG_self _ _ _ _ _ (by rw [inv.cw]; exact hlt)⟩
          · right
            refine ⟨e1, e2, e4, by omega, by rw [← e3]; exact hd, ?_, ?_⟩
            · rw [← e3]; exact visitsG_self _ _ _ _ _ (by rw [inv.cw]; exact hlt)
            · rw [← e3]; exact e5
      · obtain ⟨cs2, h2, m2⟩ := rp.covers
        obtain ⟨cs1, h1, m1⟩ := vp.covers
        refine ⟨cs2 ++ cs1, by rw [h2, h1]; simp, ?_⟩
        intro hg p hp
        rcases List.mem_append.1 hp with hp | hp
        · rw [← hlks]; exact m2 hg p hp
        · exact m1 hg p hp
    · rw [if_neg hlt]
      exact { sync := inv.toSyncInv, kcur := inv.kcur, kpen := inv.kpen, gc_same := fun _ _ => rfl, lock_same := fun _ _ => rfl,
              other_same := fun _ _ _ => rfl,
              done := by intro i h; rw [visitsG_ge _ _ _ _ _ _ (by rw [inv.cw]; omega)] at h; simp at h,
              w_same := rfl, h_same := rfl, style_same := rfl, cursor_same := ⟨rfl, rfl, rfl, rfl⟩, flags_same := ⟨rfl, rfl⟩,
              vis_same := ⟨rfl, rfl⟩, writes := ⟨[], by simp, by simp⟩,
              covers := ⟨[], by simp, by intro _ p hp; simp at hp⟩ }

end Tcell

namespace Tcell
open Buf

/-- what the double loop of draw guarantees from row y0 on -/
structure RowsPost (c : DrawCfg) (d : Option Style) (s : Scr) (t : ATerm) (y0 : Int) (fuel : Nat)
    (s' : Scr) (t' : ATerm) : Prop where
  sync : SyncInv c d s' t'
  kcur : s'.cells.inRange s'.cx s'.cy → t'.cur = some (s'.cx, s'.cy)
  kpen : s'.curstyle ≠ styleInvalid → t'.pen = some s'.curstyle
  gc_same : ∀ i j, s'.cells.getContent i j = s.cells.getContent i j
  lock_same : ∀ i j, (s'.cells.cells i j).lock = (s.cells.cells i j).lock
  other_same : ∀ i j, j < y0 → s'.cells.cells i j = s.cells.cells i j
  done : ∀ y i, y0 ≤ y → y < y0 + fuel → y < s.h → visitsG c s.cells y s.w.toNat 0 i = true → (s.cells.cells i y).lock = false →
    (s'.cells.cells i y).lastMain ≠ 0 ∧ (s'.cells.cells i y).last = (s'.cells.cells i y).content
  w_same : s'.w = s.w
  h_same : s'.h = s.h
  style_same : s'.style = s.style
  cursor_same : s'.cursorx = s.cursorx ∧ s'.cursory = s.cursory ∧ s'.cursorStyle = s.cursorStyle ∧ s'.cursorColor = s.cursorColor
  flags_same : s'.clear = s.clear ∧ s'.fini = s.fini
  vis_same : t'.visible = t.visible ∧ t'.shape = t.shape
  writes : ∃ ws, t'.writes = ws ++ t.writes ∧ ∀ p ∈ ws,
    (y0 ≤ p.2 ∧ s.cells.dirty p.1 p.2 = true ∧ visitsG c s.cells p.2 s.w.toNat 0 p.1 = true) ∨
    (c.cornerTrick = true ∧ p.2 = s.h - 1 ∧ y0 ≤ p.2 ∧ s.cells.dirty (s.w - 1) (s.h - 1) = true ∧
      visitsG c s.cells (s.h - 1) s.w.toNat 0 (s.w - 1) = true ∧
      (p.1 = s.w - 2 ∨ p.1 = Scr.coverStart s.cells (s.h - 1) (s.w - 1).toNat 0 (s.w - 1)))
  covers : ∃ cs, t'.covered = cs ++ t.covered ∧ (c.guardLocked = true → ∀ p ∈ cs, s.cells.locked p.1 p.2 = false)

theorem drawRows_succ (c : DrawCfg) (fuel : Nat) (y : Int) (s : Scr) :
    Scr.drawRows c (fuel + 1) y s =
      if y < s.h then
        ((Scr.drawRows c fuel (y + 1) (Scr.drawRow c y s.w.toNat 0 s).1).1,
         (Scr.drawRow c y s.w.toNat 0 s).2 ++ (Scr.drawRows c fuel (y + 1) (Scr.drawRow c y s.w.toNat 0 s).1).2)
      else (s, []) := by
  simp only [Scr.drawRows]

theorem drawRows_post {c : DrawCfg} (hrw : RwOk c.rw) (hct : c.Walk) {d : Option Style} :
    ∀ (fuel : Nat) (y : Int) (s : Scr) (t : ATerm), 0 ≤ y → SyncInv c d s t → CornerSafe c s →
      (s.cells.inRange s.cx s.cy → t.cur = some (s.cx, s.cy)) → (s.curstyle ≠ styleInvalid → t.pen = some s.curstyle) →
      (∀ d', d = some d' → d' = s.style) →
      RowsPost c d s t y fuel (Scr.drawRows c fuel y s).1 (t.applyAll (Scr.drawRows c fuel y s).2) := by
  intro fuel
  induction fuel with
  | zero =>
    intro y s t _ inv _ kc kp _
    exact { sync := inv, kcur := kc, kpen := kp, gc_same := fun _ _ => rfl, lock_same := fun _ _ => rfl,
            other_same := fun _ _ _ => rfl, done := by intro y' i h1 h2; omega, w_same := rfl, h_same := rfl,
            style_same := rfl, cursor_same := ⟨rfl, rfl, rfl, rfl⟩, flags_same := ⟨rfl, rfl⟩, vis_same := ⟨rfl, rfl⟩,
            writes := ⟨[], by simp [Scr.drawRows], by simp⟩,
            covers := ⟨[], by simp [Scr.drawRows], by intro _ p hp; simp at hp⟩ }
  | succ n ih =>
    intro y s t hy0 inv hsafe kc kp dc
    rw [drawRows_succ]
    by_cases hlt : y < s.h
    · rw [if_pos hlt]; simp only
      have pinv : PassInv c d s t 0 y :=
        { toSyncInv := inv, kcur := kc, kpen := kp, q := by intro h; omega, dcompat := dc }
      have hcc : CornerCtx c s 0 y := by
        intro hc hy _
        obtain ⟨h2, hul⟩ := hsafe hc
        exact ⟨h2, by rw [hy]; exact hul, ⟨.refl 0, fun h => by omega⟩⟩
      have rp := drawRow_post hrw hct y s.w.toNat 0 s t (by omega) hy0 hlt pinv hcc
      rw [applyAll_append]
      have hcw : (Scr.drawRow c y s.w.toNat 0 s).1.cells.w = s.cells.w := by rw [rp.sync.cw, rp.w_same, inv.cw]
      have hch : (Scr.drawRow c y s.w.toNat 0 s).1.cells.h = s.cells.h := by rw [rp.sync.ch, rp.h_same, inv.ch]
      have hsafe1 : CornerSafe c (Scr.drawRow c y s.w.toNat 0 s).1 := by
        intro hc
        obtain ⟨h2, hul⟩ := hsafe hc
        refine ⟨by rw [rp.w_same]; exact h2, ?_⟩
        intro i; rw [rp.h_same, locked_congr _ _ hcw hch rp.lock_same]; exact hul i
      have rs := ih (y + 1) (Scr.drawRow c y s.w.toNat 0 s).1 (t.applyAll (Scr.drawRow c y s.w.toNat 0 s).2) (by omega)
        rp.sync hsafe1 rp.kcur rp.kpen (by intro d' hd'; rw [rp.style_same]; exact dc d' hd')
      -- rows other than y are untouched by the pass over row y, so the walk over them is the same on both buffers
      have hrowwalk : ∀ y', y' ≠ y → ∀ f i, visitsG c (Scr.drawRow c y s.w.toNat 0 s).1.cells y' f 0 i = visitsG c s.cells y' f 0 i := by
        intro y' hy' f i
        exact visitsG_congr_from c s.cells _ y' 0 hcw hch (fun i' _ => rp.other_same i' y' (Or.inl hy'))
          (fun i' _ => (stepW_nonneg hrw s.cells inv.wok i' y').1) f 0 i (Int.le_refl _)
      have hlks : ∀ i j, (Scr.drawRow c y s.w.toNat 0 s).1.cells.locked i j = s.cells.locked i j :=
        locked_congr _ _ hcw hch rp.lock_same
      refine { sync := rs.sync, kcur := rs.kcur, kpen := rs.kpen, gc_same := ?_, lock_same := ?_, other_same := ?_,
               done := ?_, w_same := by rw [rs.w_same, rp.w_same], h_same := by rw [rs.h_same, rp.h_same],
               style_same := by rw [rs.style_same, rp.style_same], cursor_same := ?_, flags_same := ?_, vis_same := ?_,
               writes := ?_, covers := ?_ }
      · intro i j; rw [rs.gc_same, rp.gc_same]
      · intro i j; rw [rs.lock_same, rp.lock_same]
      · intro i j hj; rw [rs.other_same i j (by omega), rp.other_same i j (Or.inl (by omega))]
      · intro y' i h1 h2 h3 hv hl
        by_cases hy : y' = y
        · subst hy
          rw [rs.other_same i y' (by omega)]
          exact rp.done i hv hl
        · have hv' : visitsG c (Scr.drawRow c y s.w.toNat 0 s).1.cells y' (Scr.drawRow c y s.w.toNat 0 s).1.w.toNat 0 i = true := by
            rw [hrowwalk y' hy, rp.w_same]; exact hv
          have hl' : ((Scr.drawRow c y s.w.toNat 0 s).1.cells.cells i y').lock = false := by rw [rp.lock_same]; exact hl
          exact rs.done y' i (by omega) (by omega) (by rw [rp.h_same]; exact h3) hv' hl'
      · obtain ⟨a1, a2, a3, a4⟩ := rs.cursor_same; obtain ⟨b1, b2, b3, b4⟩ := rp.cursor_same
        exact ⟨a1.trans b1, a2.trans b2, a3.trans b3, a4.trans b4⟩
      · obtain ⟨a1, a2⟩ := rs.flags_same; obtain ⟨b1, b2⟩ := rp.flags_same
        exact ⟨a1.trans b1, a2.trans b2⟩
      · obtain ⟨a1, a2⟩ := rs.vis_same; obtain ⟨b1, b2⟩ := rp.vis_same
        exact ⟨a1.trans b1, a2.trans b2⟩
      · obtain ⟨ws1, hws1, hm1⟩ := rp.writes
        obtain ⟨ws2, hws2, hm2⟩ := rs.writes
        refine ⟨ws2 ++ ws1, by rw [hws2, hws1]; simp, ?_⟩
        have hdsame : ∀ i j, j ≠ y → (Scr.drawRow c y s.w.toNat 0 s).1.cells.dirty i j = true → s.cells.dirty i j = true := by
          intro i j hj p2
          have hsame := rp.other_same i j (Or.inl hj)
          simp only [dirty, inRange_iff, hcw, hch, hsame] at p2 ⊢
          exact p2
        intro p hp
        rcases List.mem_append.1 hp with hp | hp
        · rcases hm2 p hp with ⟨p1, p2, p3⟩ | ⟨e1, e2, e3, e4, e5, e6⟩
          · left
            refine ⟨by omega, hdsame _ _ (by omega) p2, ?_⟩
            rw [hrowwalk p.2 (by omega), rp.w_same] at p3; exact p3
          · right
            rw [rp.w_same, rp.h_same] at e4 e5 e6; rw [rp.h_same] at e2
            refine ⟨e1, e2, by omega, hdsame _ _ (by omega) e4, ?_, ?_⟩
            · rw [hrowwalk (s.h - 1) (by omega)] at e5; exact e5
            · rw [coverStart_congr s.cells _ (s.h - 1) (fun i => rp.gc_same i (s.h - 1))] at e6; exact e6
        · rcases hm1 p hp with ⟨p1, _, p3, p4⟩ | ⟨e1, e2, e3, _, e5, e6, e7⟩
          · left; exact ⟨by omega, p3, by rw [p1]; exact p4⟩
          · right; subst e2
            exact ⟨e1, e3, by omega, e5, e6, e7⟩
      · obtain ⟨cs2, h2, m2⟩ := rs.covers
        obtain ⟨cs1, h1, m1⟩ := rp.covers
        refine ⟨cs2 ++ cs1, by rw [h2, h1]; simp, ?_⟩
        intro hg p hp
        rcases List.mem_append.1 hp with hp | hp
        · rw [← hlks]; exact m2 hg p hp
        · exact m1 hg p hp
    · rw [if_neg hlt]
      exact { sync := inv, kcur := kc, kpen := kp, gc_same := fun _ _ => rfl, lock_same := fun _ _ => rfl,
              other_same := fun _ _ _ => rfl,
              done := by intro y' i h1 _ h3; omega,
              w_same := rfl, h_same := rfl, style_same := rfl, cursor_same := ⟨rfl, rfl, rfl, rfl⟩, flags_same := ⟨rfl, rfl⟩,
              vis_same := ⟨rfl, rfl⟩, writes := ⟨[], by simp, by simp⟩,
              covers := ⟨[], by simp, by intro _ p hp; simp at hp⟩ }

end Tcell

namespace Tcell
open Buf

/-- every cell of the buffer needs repainting -/
def AllDirty (s : Scr) : Prop := ∀ x y, s.cells.inRange x y → (s.cells.cells x y).lastMain = 0

/-- weakening the recorded default style is always sound -/
theorem SyncInv.weaken {c : DrawCfg} {d : Option Style} {s : Scr} {t : ATerm} (inv : SyncInv c d s t) :
    SyncInv c none s t :=
  { tw := inv.tw, th := inv.th, cw := inv.cw, ch := inv.ch, wok := inv.wok, valid := inv.valid, g2 := inv.g2, wf := inv.wf,
    g3 := inv.g3,
    g1 := fun x y hr hl hm => by
      obtain ⟨st', nl, h1, h2, _, h4⟩ := inv.g1 x y hr hl hm
      exact ⟨st', nl, h1, h2, by intro _ d' hd'; exact absurd hd' (by simp), h4⟩ }

/-- when everything is dirty the invariant does not depend on the recorded default style -/
theorem SyncInv.of_allDirty {c : DrawCfg} {d d' : Option Style} {s : Scr} {t : ATerm} (inv : SyncInv c d s t)
    (hall : AllDirty s) : SyncInv c d' s t :=
  { tw := inv.tw, th := inv.th, cw := inv.cw, ch := inv.ch, wok := inv.wok, valid := inv.valid, g2 := inv.g2, wf := inv.wf,
    g3 := inv.g3,
    g1 := fun x y hr _ hm => absurd (hall x y hr) hm }

/-- the invariant for a terminal about which nothing is known, when everything is dirty -/
theorem SyncInv.fresh {c : DrawCfg} {d : Option Style} {s : Scr} {t : ATerm}
    (tw : t.w = s.w) (th : t.h = s.h) (cw : s.cells.w = s.w) (ch : s.cells.h = s.h)
    (wok : ∀ x y, WOk c.rw (s.cells.cells x y))
    (valid : s.style.attrs ≠ attrInvalid ∧ ∀ x y, (s.cells.cells x y).currStyle.attrs ≠ attrInvalid)
    (hall : AllDirty s) (hg : ∀ x y, t.grid x y = .garbage) : SyncInv c d s t :=
  { tw := tw, th := th, cw := cw, ch := ch, wok := wok, valid := valid,
    g1 := by intro x y hr _ hm; exact absurd (hall x y hr) hm,
    g2 := by intro x y hr _; exact Or.inr (hall x y hr),
    wf := by intro x y _ h; rw [hg] at h; exact absurd h (by simp),
    g3 := by intro x y hr _ hm; exact absurd (hall x y hr) hm }

/-- the part of the invariant that does not speak about the terminal's contents -/
structure BufOk (c : DrawCfg) (s : Scr) (t : ATerm) : Prop where
  tw : t.w = s.w
  th : t.h = s.h
  cw : s.cells.w = s.w
  ch : s.cells.h = s.h
  wok : ∀ x y, WOk c.rw (s.cells.cells x y)
  valid : s.style.attrs ≠ attrInvalid ∧ ∀ x y, (s.cells.cells x y).currStyle.attrs ≠ attrInvalid

theorem SyncInv.bufOk {c : DrawCfg} {d : Option Style} {s : Scr} {t : ATerm} (inv : SyncInv c d s t) : BufOk c s t :=
  { tw := inv.tw, th := inv.th, cw := inv.cw, ch := inv.ch, wok := inv.wok, valid := inv.valid }

/-- what a whole draw guarantees -/
structure DrawPost (c : DrawCfg) (d : Option Style) (s : Scr) (t : ATerm) (s' : Scr) (t' : ATerm) : Prop where
  sync : SyncInv c d s' t'
  gc_same : ∀ i j, s'.cells.getContent i j = s.cells.getContent i j
  lock_same : ∀ i j, (s'.cells.cells i j).lock = (s.cells.cells i j).lock
  done : ∀ x y, s.cells.inRange x y → visitedG c s.cells x y = true → (s.cells.cells x y).lock = false →
    (s'.cells.cells x y).lastMain ≠ 0 ∧ (s'.cells.cells x y).last = (s'.cells.cells x y).content
  w_same : s'.w = s.w
  h_same : s'.h = s.h
  style_same : s'.style = s.style
  cursor_same : s'.cursorx = s.cursorx ∧ s'.cursory = s.cursory ∧ s'.cursorStyle = s.cursorStyle ∧ s'.cursorColor = s.cursorColor
  clear_done : s'.clear = false
  fini_same : s'.fini = s.fini
  /-- the cursor is shown at the requested cell, or hidden / parked bottom-right when that cell is off-screen -/
  cursor :
    (s.cells.inRange s.cursorx s.cursory →
      t'.cur = some (s.cursorx, s.cursory) ∧ t'.visible = some true ∧ t'.shape = some (s.cursorStyle, s.cursorColor)) ∧
    (¬ s.cells.inRange s.cursorx s.cursory →
      (c.hasHide = true → t'.visible = some false) ∧
      (c.hasHide = false → t'.cur = some (t.clampX s.cells.w, t.clampY s.cells.h)))
  /-- payload goes to cells that were dirty and visited — and, with the bottom-right corner trick, to the second to last
  column of the last row and the cell covering it when the corner cell is repainted (`CornerWrite`) -/
  writes : ∃ ws, t'.writes = ws ++ t.writes ∧ ∀ p ∈ ws,
    (s.cells.dirty p.1 p.2 = true ∧ visitedG c s.cells p.1 p.2 = true) ∨ CornerWrite c s.cells p
  /-- with the guard compiled in, no cell a payload of this draw occupies is locked -/
  covers : ∃ cs, t'.covered = cs ++ t.covered ∧ (c.guardLocked = true → ∀ p ∈ cs, s.cells.locked p.1 p.2 = false)

theorem hideCursor_apply (c : DrawCfg) (s : Scr) (t : ATerm) :
    (t.applyAll (s.hideCursor c).2).grid = t.grid ∧ (t.applyAll (s.hideCursor c).2).w = t.w ∧
    (t.applyAll (s.hideCursor c).2).h = t.h ∧ (t.applyAll (s.hideCursor c).2).chaos = t.chaos ∧
    ((t.applyAll (s.hideCursor c).2).writes = t.writes ∧ (t.applyAll (s.hideCursor c).2).covered = t.covered) ∧
    (t.applyAll (s.hideCursor c).2).pen = t.pen ∧
    (s.hideCursor c).1.cells = s.cells ∧ (s.hideCursor c).1.w = s.w ∧ (s.hideCursor c).1.h = s.h ∧
    (s.hideCursor c).1.style = s.style ∧ (s.hideCursor c).1.curstyle = s.curstyle ∧ (s.hideCursor c).1.clear = s.clear ∧
    (s.hideCursor c).1.fini = s.fini ∧
    ((s.hideCursor c).1.cursorx = s.cursorx ∧ (s.hideCursor c).1.cursory = s.cursory ∧
      (s.hideCursor c).1.cursorStyle = s.cursorStyle ∧ (s.hideCursor c).1.cursorColor = s.cursorColor) ∧
    ((c.hasHide = true → (t.applyAll (s.hideCursor c).2).visible = some false ∧ (s.hideCursor c).1.cx = s.cx ∧
        (s.hideCursor c).1.cy = s.cy ∧ (t.applyAll (s.hideCursor c).2).cur = t.cur) ∧
     (c.hasHide = false → (t.applyAll (s.hideCursor c).2).cur = some (t.clampX s.cells.w, t.clampY s.cells.h) ∧
        (s.hideCursor c).1.cx = s.cells.w ∧ (s.hideCursor c).1.cy = s.cells.h)) := by
  unfold Scr.hideCursor
  cases hh : c.hasHide <;> simp [ATerm.applyAll, ATerm.apply]

end Tcell

namespace Tcell
open Buf

theorem showCursor_apply (c : DrawCfg) (s : Scr) (t : ATerm) :
    (t.applyAll (s.showCursor c).2).grid = t.grid ∧ (t.applyAll (s.showCursor c).2).w = t.w ∧
    (t.applyAll (s.showCursor c).2).h = t.h ∧ (t.applyAll (s.showCursor c).2).chaos = t.chaos ∧
    ((t.applyAll (s.showCursor c).2).writes = t.writes ∧ (t.applyAll (s.showCursor c).2).covered = t.covered) ∧
    (s.showCursor c).1.cells = s.cells ∧ (s.showCursor c).1.w = s.w ∧ (s.showCursor c).1.h = s.h ∧
    (s.showCursor c).1.style = s.style ∧ (s.showCursor c).1.clear = s.clear ∧ (s.showCursor c).1.fini = s.fini ∧
    ((s.showCursor c).1.cursorx = s.cursorx ∧ (s.showCursor c).1.cursory = s.cursory ∧
      (s.showCursor c).1.cursorStyle = s.cursorStyle ∧ (s.showCursor c).1.cursorColor = s.cursorColor) := by
  unfold Scr.showCursor
  simp only
  split
  · have := hideCursor_apply c s t
    obtain ⟨a1, a2, a3, a4, a5, _, a7, a8, a9, a10, _, a12, a13, a14, _⟩ := this
    exact ⟨a1, a2, a3, a4, a5, a7, a8, a9, a10, a12, a13, a14⟩
  · simp [ATerm.applyAll, ATerm.apply]

end Tcell

namespace Tcell
open Buf

theorem draw_eq (c : DrawCfg) (s : Scr) :
    s.draw c =
      let s0 : Scr := { s with cx := -1, cy := -1, curstyle := styleInvalid }
      let r1 := s0.hideCursor c
      let r2 := if r1.1.clear then r1.1.clearScreen else (r1.1, [])
      let r3 := Scr.drawRows c r2.1.h.toNat 0 r2.1
      let r4 := r3.1.showCursor c
      (r4.1, r1.2 ++ r2.2 ++ r3.2 ++ r4.2) := by
  simp only [Scr.draw]

theorem draw_post {c : DrawCfg} (hrw : RwOk c.rw) (hct : c.Walk) {d : Option Style} {s : Scr} {t : ATerm}
    (pre : BufOk c s t) (inv : s.clear = false → SyncInv c d s t) (hclear : s.clear = true → AllDirty s)
    (hsafe : CornerSafe c s) :
    DrawPost c (if d = some s.style then d else none) s t (s.draw c).1 (t.applyAll (s.draw c).2) := by
  rw [draw_eq]; simp only
  generalize hd1 : (if d = some s.style then d else none) = d1
  have inv1 : s.clear = false → SyncInv c d1 s t := by
    intro hc
    rw [← hd1]; split
    · exact inv hc
    · exact (inv hc).weaken
  have dc1 : ∀ d', d1 = some d' → d' = s.style := by
    intro d' h; rw [← hd1] at h; split at h
    · rename_i he; rw [he] at h; injection h with h; exact h.symm
    · exact absurd h (by simp)
  -- step 0/1: forget caches, hide the cursor
  generalize hs0 : ({ s with cx := -1, cy := -1, curstyle := styleInvalid } : Scr) = s0
  have e0 : s0.cells = s.cells ∧ s0.w = s.w ∧ s0.h = s.h ∧ s0.style = s.style ∧ s0.clear = s.clear ∧ s0.fini = s.fini ∧
      s0.cx = -1 ∧ s0.cy = -1 ∧ s0.curstyle = styleInvalid ∧ s0.cursorx = s.cursorx ∧ s0.cursory = s.cursory ∧
      s0.cursorStyle = s.cursorStyle ∧ s0.cursorColor = s.cursorColor := by
    rw [← hs0]; exact ⟨rfl, rfl, rfl, rfl, rfl, rfl, rfl, rfl, rfl, rfl, rfl, rfl, rfl⟩
  obtain ⟨e01, e02, e03, e04, e05, e06, e07, e08, e09, e010, e011, e012, e013⟩ := e0
  have hh := hideCursor_apply c s0 t
  generalize hr1 : s0.hideCursor c = r1 at hh
  obtain ⟨g1, g2, g3, g4, g5, g6, g7, g8, g9, g10, g11, g12, g13, g14, g15⟩ := hh
  generalize ht1 : t.applyAll r1.2 = t1 at *
  have inv2 : r1.1.clear = false → SyncInv c d1 r1.1 t1 := by
    intro hc; rw [g12, e05] at hc
    exact (inv1 hc).congr (g7.trans e01) (g8.trans e02) (g9.trans e03) (g10.trans e04) g1 g2 g3
  have pre2 : BufOk c r1.1 t1 :=
    { tw := by rw [g2, g8, e02]; exact pre.tw, th := by rw [g3, g9, e03]; exact pre.th,
      cw := by rw [g7, e01, g8, e02]; exact pre.cw, ch := by rw [g7, e01, g9, e03]; exact pre.ch,
      wok := by rw [g7, e01]; exact pre.wok, valid := by rw [g7, e01, g10, e04]; exact pre.valid }
  have hcs1 : r1.1.curstyle = styleInvalid := g11.trans e09
  have hkc1 : r1.1.cells.inRange r1.1.cx r1.1.cy → t1.cur = some (r1.1.cx, r1.1.cy) := by
    intro hr
    cases hh : c.hasHide
    · obtain ⟨_, k2, k3⟩ := g15.2 hh
      rw [k2, k3, g7] at hr; simp only [inRange_iff] at hr; omega
    · obtain ⟨_, k2, k3, _⟩ := g15.1 hh
      rw [k2, k3, e07, e08, g7] at hr; simp only [inRange_iff] at hr; omega
  -- step 2: optional clear
  have hall1 : r1.1.clear = true → AllDirty r1.1 := by
    intro h; rw [g12, e05] at h
    intro x y hr; rw [g7, e01] at hr ⊢; exact hclear h x y hr
  generalize hr2 : (if r1.1.clear then r1.1.clearScreen else (r1.1, [])) = r2
  generalize ht2 : t1.applyAll r2.2 = t2
  have st2 : SyncInv c d1 r2.1 t2 ∧ r2.1.cells = r1.1.cells ∧ r2.1.w = r1.1.w ∧ r2.1.h = r1.1.h ∧ r2.1.style = r1.1.style ∧
      r2.1.curstyle = r1.1.curstyle ∧ r2.1.clear = false ∧ r2.1.fini = r1.1.fini ∧ r2.1.cx = r1.1.cx ∧ r2.1.cy = r1.1.cy ∧
      (r2.1.cursorx = r1.1.cursorx ∧ r2.1.cursory = r1.1.cursory ∧ r2.1.cursorStyle = r1.1.cursorStyle ∧
        r2.1.cursorColor = r1.1.cursorColor) ∧
      (t2.writes = t1.writes ∧ t2.covered = t1.covered) ∧ t2.visible = t1.visible ∧ t2.shape = t1.shape ∧
      (r1.1.cells.inRange r1.1.cx r1.1.cy → t2.cur = some (r1.1.cx, r1.1.cy)) := by
    cases hcl : r1.1.clear
    · rw [hcl] at hr2; simp only [Bool.false_eq_true, if_false] at hr2
      rw [← hr2] at ht2 ⊢; simp only [applyAll_nil] at ht2; rw [← ht2]
      exact ⟨inv2 hcl, rfl, rfl, rfl, rfl, rfl, hcl, rfl, rfl, rfl, ⟨rfl, rfl, rfl, rfl⟩, ⟨rfl, rfl⟩, rfl, rfl, hkc1⟩
    · rw [hcl] at hr2; simp only [if_true] at hr2
      have e1 : r2.1 = { r1.1 with clear := false } := by rw [← hr2]; rfl
      have e2 : r2.2 = [Cmd.clear r1.1.style] := by rw [← hr2]; rfl
      have e3 : t2 = { t1.allGarbage with cur := none, pen := none } := by rw [← ht2, e2]; rfl
      rw [e1, e3]
      refine ⟨?_, rfl, rfl, rfl, rfl, rfl, rfl, rfl, rfl, rfl, ⟨rfl, rfl, rfl, rfl⟩, ⟨rfl, rfl⟩, rfl, rfl, ?_⟩
      · exact SyncInv.fresh pre2.tw pre2.th pre2.cw pre2.ch pre2.wok pre2.valid (hall1 hcl) (fun _ _ => rfl)
      · intro hr; exfalso
        cases hh : c.hasHide
        · obtain ⟨_, k2, k3⟩ := g15.2 hh
          rw [k2, k3, g7] at hr; simp only [inRange_iff] at hr; omega
        · obtain ⟨_, k2, k3, _⟩ := g15.1 hh
          rw [k2, k3, e07, e08, g7] at hr; simp only [inRange_iff] at hr; omega
  obtain ⟨inv3, f1, f2, f3, f4, f5, f6, f7, f8, f9, f10, f11, f12, f13, f14⟩ := st2
  -- step 3: the double loop
  have hsafe2 : CornerSafe c r2.1 := by
    intro hc
    rw [f2, g8, e02, f3, g9, e03, f1, g7, e01]; exact hsafe hc
  have rp := drawRows_post hrw hct (d := d1) r2.1.h.toNat 0 r2.1 t2 (by omega) inv3 hsafe2
    (by rw [f1, f8, f9]; exact f14)
    (by intro h; rw [f5, hcs1] at h; exact absurd rfl h)
    (by intro d' hd'; rw [f4, g10, e04]; exact dc1 d' hd')
  generalize hr3 : Scr.drawRows c r2.1.h.toNat 0 r2.1 = r3 at rp
  generalize ht3 : t2.applyAll r3.2 = t3 at rp
  -- step 4: restore the cursor
  have hs := showCursor_apply c r3.1 t3
  generalize hr4 : r3.1.showCursor c = r4 at hs
  obtain ⟨k1, k2, k3, k4, k5, k6, k7, k8, k9, k10, k11, k12⟩ := hs
  have happ : t.applyAll (r1.2 ++ r2.2 ++ r3.2 ++ r4.2) = t3.applyAll r4.2 := by
    rw [applyAll_append, applyAll_append, applyAll_append, ht1, ht2, ht3]
  rw [happ]
  have hcells2 : r2.1.cells = s.cells := by rw [f1, g7, e01]
  have hw2 : r2.1.w = s.w := by rw [f2, g8, e02]
  have hh2 : r2.1.h = s.h := by rw [f3, g9, e03]
  refine { sync := ?_, gc_same := ?_, lock_same := ?_, done := ?_, w_same := ?_, h_same := ?_, style_same := ?_,
           cursor_same := ?_, clear_done := ?_, fini_same := ?_, cursor := ?_, writes := ?_, covers := ?_ }
  · exact rp.sync.congr k6 k7 k8 k9 k1 k2 k3
  · intro i j; rw [k6, rp.gc_same, hcells2]
  · intro i j; rw [k6, rp.lock_same, hcells2]
  · intro x y hr hv hl
    rw [k6]
    have hy : 0 ≤ y ∧ y < s.h := by have := pre.ch; simp only [inRange_iff] at hr; omega
    apply rp.done y x (by omega) (by rw [hh2]; omega) (by rw [hh2]; exact hy.2)
    · rw [hcells2, hw2]; simpa [visitedG, pre.cw] using hv
    · rw [hcells2]; exact hl
  · rw [k7, rp.w_same, hw2]
  · rw [k8, rp.h_same, hh2]
  · rw [k9, rp.style_same, f4, g10, e04]
  · obtain ⟨a1, a2, a3, a4⟩ := k12; obtain ⟨b1, b2, b3, b4⟩ := rp.cursor_same; obtain ⟨c1, c2, c3, c4⟩ := f10
    obtain ⟨d1', d2, d3, d4⟩ := g14
    exact ⟨by rw [a1, b1, c1, d1', e010], by rw [a2, b2, c2, d2, e011], by rw [a3, b3, c3, d3, e012], by rw [a4, b4, c4, d4, e013]⟩
  · rw [k10, rp.flags_same.1, f6]
  · rw [k11, rp.flags_same.2, f7, g13, e06]
  · -- cursor
    have hcx : r3.1.cursorx = s.cursorx ∧ r3.1.cursory = s.cursory ∧ r3.1.cursorStyle = s.cursorStyle ∧
        r3.1.cursorColor = s.cursorColor := by
      obtain ⟨b1, b2, b3, b4⟩ := rp.cursor_same; obtain ⟨c1, c2, c3, c4⟩ := f10; obtain ⟨d1', d2, d3, d4⟩ := g14
      exact ⟨by rw [b1, c1, d1', e010], by rw [b2, c2, d2, e011], by rw [b3, c3, d3, e012], by rw [b4, c4, d4, e013]⟩
    have hc3 : r3.1.cells.w = s.cells.w ∧ r3.1.cells.h = s.cells.h := by
      rw [rp.sync.cw, rp.sync.ch, rp.w_same, rp.h_same, hw2, hh2, pre.cw, pre.ch]; exact ⟨rfl, rfl⟩
    have ht3d : t3.w = t.w ∧ t3.h = t.h := by
      rw [rp.sync.tw, rp.sync.th, rp.w_same, rp.h_same, hw2, hh2, pre.tw, pre.th]; exact ⟨rfl, rfl⟩
    rw [← hr4]
    unfold Scr.showCursor
    simp only [hcx.1, hcx.2.1, hcx.2.2.1, hcx.2.2.2, hc3.1, hc3.2]
    constructor
    · intro hr
      have : ¬ (s.cursorx < 0 ∨ s.cursory < 0 ∨ s.cursorx ≥ s.cells.w ∨ s.cursory ≥ s.cells.h) := by
        simp only [inRange_iff] at hr; omega
      rw [if_neg this]
      simp [ATerm.applyAll, ATerm.apply, ATerm.clampX, ATerm.clampY]
      have h1 : ¬ s.cursorx < 0 := by omega
      have h2 : ¬ t3.w ≤ s.cursorx := by rw [ht3d.1, pre.tw, ← pre.cw]; omega
      have h3 : ¬ s.cursory < 0 := by omega
      have h4 : ¬ t3.h ≤ s.cursory := by rw [ht3d.2, pre.th, ← pre.ch]; omega
      simp [h1, h2, h3, h4]
    · intro hr
      have : (s.cursorx < 0 ∨ s.cursory < 0 ∨ s.cursorx ≥ s.cells.w ∨ s.cursory ≥ s.cells.h) := by
        simp only [inRange_iff] at hr; omega
      rw [if_pos this]
      have hh := hideCursor_apply c r3.1 t3
      obtain ⟨_, _, _, _, _, _, _, _, _, _, _, _, _, _, q15⟩ := hh
      constructor
      · intro hhide; exact (q15.1 hhide).1
      · intro hhide
        rw [(q15.2 hhide).1, hc3.1, hc3.2]
        simp only [ATerm.clampX, ATerm.clampY, ht3d.1, ht3d.2]
  · obtain ⟨ws, hws, hm⟩ := rp.writes
    refine ⟨ws, ?_, ?_⟩
    · rw [k5.1, hws, f11.1, g5.1]
    · intro p hp
      rcases hm p hp with ⟨_, p2, p3⟩ | ⟨e1, e2, _, e4, e5, e6⟩
      · left; rw [hcells2] at p2; rw [hcells2, hw2] at p3
        exact ⟨p2, by simpa [visitedG, pre.cw] using p3⟩
      · right
        rw [hcells2, hw2, hh2] at e4 e5 e6; rw [hh2] at e2
        refine ⟨e1, by rw [pre.ch]; exact e2, by rw [pre.cw, pre.ch]; exact e4, ?_, by rw [pre.cw, pre.ch]; exact e6⟩
        rw [pre.cw, pre.ch]; simpa [visitedG, pre.cw] using e5
  · obtain ⟨cs, hcs, hm⟩ := rp.covers
    refine ⟨cs, ?_, ?_⟩
    · rw [k5.2, hcs, f11.2, g5.2]
    · intro hg p hp; have := hm hg p hp; rw [hcells2] at this; exact this

end Tcell
