import Tcell.Lemmas.TextParse
/-
C11: the UTF-8 decoder model `decUtf8` (x/text `UTF8Validator` + `utf8.DecodeRune`) obeys the codec laws for the
encoding `Utf8.encode` (Go `utf8.EncodeRune`) of every scalar value ≥ 0x80 other than U+FFFD.
-/
namespace Tcell.Lemmas.Text
open Tcell Tcell.Model

/-! ### utf8.DecodeRune on well-formed and on truncated input -/

theorem dr2 (b0 b1 : Nat) (t : Bytes) (h0 : 0xC2 ≤ b0) (h0' : b0 < 0xE0) (h1 : 0x80 ≤ b1) (h1' : b1 ≤ 0xBF) :
    utf8DecodeRune (b0 :: b1 :: t) = ((((b0 - 0xC0) * 64 + (b1 - 0x80) : Nat) : Int), 2) := by
  unfold utf8DecodeRune
  have a1 : ¬ b0 < 0x80 := by omega
  have a2 : ¬ b0 < 0xC2 := by omega
  simp [a1, a2, h0', h1, h1']

theorem dr3 (b0 b1 b2 : Nat) (t : Bytes) (h0 : 0xE0 ≤ b0) (h0' : b0 < 0xF0)
    (h1 : (if b0 = 0xE0 then 0xA0 else 0x80) ≤ b1) (h1' : b1 ≤ (if b0 = 0xED then 0x9F else 0xBF))
    (h2 : 0x80 ≤ b2) (h2' : b2 ≤ 0xBF) :
    utf8DecodeRune (b0 :: b1 :: b2 :: t) = ((((b0 - 0xE0) * 4096 + (b1 - 0x80) * 64 + (b2 - 0x80) : Nat) : Int), 3) := by
  unfold utf8DecodeRune
  have a1 : ¬ b0 < 0x80 := by omega
  have a2 : ¬ b0 < 0xC2 := by omega
  have a3 : ¬ b0 < 0xE0 := by omega
  simp [a1, a2, a3, h0', h1, h1', h2, h2']

theorem dr4 (b0 b1 b2 b3 : Nat) (t : Bytes) (h0 : 0xF0 ≤ b0) (h0' : b0 < 0xF5)
    (h1 : (if b0 = 0xF0 then 0x90 else 0x80) ≤ b1) (h1' : b1 ≤ (if b0 = 0xF4 then 0x8F else 0xBF))
    (h2 : 0x80 ≤ b2) (h2' : b2 ≤ 0xBF) (h3 : 0x80 ≤ b3) (h3' : b3 ≤ 0xBF) :
    utf8DecodeRune (b0 :: b1 :: b2 :: b3 :: t) =
      ((((b0 - 0xF0) * 262144 + (b1 - 0x80) * 4096 + (b2 - 0x80) * 64 + (b3 - 0x80) : Nat) : Int), 4) := by
  unfold utf8DecodeRune
  have a1 : ¬ b0 < 0x80 := by omega
  have a2 : ¬ b0 < 0xC2 := by omega
  have a3 : ¬ b0 < 0xE0 := by omega
  have a4 : ¬ b0 < 0xF0 := by omega
  simp [a1, a2, a3, a4, h0', h1, h1', h2, h2', h3, h3']

theorem trunc1 (b0 : Nat) (h : 0x80 ≤ b0) : (utf8DecodeRune [b0]).2 = 1 := by
  unfold utf8DecodeRune
  have a1 : ¬ b0 < 0x80 := by omega
  simp only [a1, if_false]
  repeat' split
  all_goals rfl

theorem trunc2 (b0 b1 : Nat) (h : 0xE0 ≤ b0) : (utf8DecodeRune [b0, b1]).2 = 1 := by
  unfold utf8DecodeRune
  have a1 : ¬ b0 < 0x80 := by omega
  have a2 : ¬ b0 < 0xC2 := by omega
  have a3 : ¬ b0 < 0xE0 := by omega
  simp only [a1, a2, a3, if_false]
  repeat' split
  all_goals rfl

theorem trunc3 (b0 b1 b2 : Nat) (h : 0xF0 ≤ b0) : (utf8DecodeRune [b0, b1, b2]).2 = 1 := by
  unfold utf8DecodeRune
  have a1 : ¬ b0 < 0x80 := by omega
  have a2 : ¬ b0 < 0xC2 := by omega
  have a3 : ¬ b0 < 0xE0 := by omega
  have a4 : ¬ b0 < 0xF0 := by omega
  simp only [a1, a2, a3, a4, if_false]
  repeat' split
  all_goals rfl

/-! ### the validator -/

/-- a buffer that is exactly one well-formed multi-byte character is validated whole -/
theorem decUtf8_full (b0 : Nat) (t : Bytes) (r : Int) (size : Nat) (hb : 0x80 ≤ b0)
    (hd : utf8DecodeRune (b0 :: t) = (r, size)) (h2 : 2 ≤ size) (hlen : (b0 :: t).length = size) (h4 : size ≤ 4) :
    decUtf8 (b0 :: t) = .out r size := by
  unfold decUtf8
  have a1 : ¬ b0 < 0x80 := by omega
  have hmin : min (b0 :: t).length 12 = size := by omega
  have hv : utf8Validate ((b0 :: t).length + 1) 0 (min (b0 :: t).length 12) (b0 :: t) = size := by
    rw [hmin, hlen]
    unfold utf8Validate
    have c1 : ¬ 0 ≥ size := by omega
    have c2 : ¬ size = 1 := by omega
    have c3 : ¬ 0 + size > 12 := by omega
    simp only [c1, a1, hd, c2, c3, if_false]
    cases size with
    | zero => omega
    | succ k => unfold utf8Validate; simp
  simp only [hv, hd]
  have : ¬ size = 0 := by omega
  simp [this]

/-- a buffer that starts with a truncated or malformed character yields nothing -/
theorem decUtf8_trunc (b0 : Nat) (t : Bytes) (hb : 0x80 ≤ b0) (hd : (utf8DecodeRune (b0 :: t)).2 = 1) :
    decUtf8 (b0 :: t) = .nothing := by
  unfold decUtf8
  have a1 : ¬ b0 < 0x80 := by omega
  have hv : utf8Validate ((b0 :: t).length + 1) 0 (min (b0 :: t).length 12) (b0 :: t) = 0 := by
    unfold utf8Validate
    have c0 : (b0 :: t).length ≥ 1 := by simp
    have c1 : ¬ 0 ≥ min (b0 :: t).length 12 := by omega
    simp only [c1, a1, hd, if_false, if_true]
  simp only [hv]
  simp

/-! ### EncodeRune -/

theorem encode_eq (r : Int) (h0 : 0 ≤ r) (h1 : r ≤ 0x10FFFF) (h2 : ¬ (0xD800 ≤ r ∧ r ≤ 0xDFFF)) :
    Utf8.encode r = Utf8.encodeNat r.toNat := by
  unfold Utf8.encode Utf8.validRune
  simp [h0, h1, h2]

/-- the codec laws hold for UTF-8: every scalar value from U+0080 up, except U+FFFD -/
theorem utf8_codecChar (r : Int) (h128 : 128 ≤ r) (hmax : r ≤ 0x10FFFF) (hsur : ¬ (0xD800 ≤ r ∧ r ≤ 0xDFFF))
    (hfffd : r ≠ 0xFFFD) : CodecChar decUtf8 (Utf8.encode r, r) := by
  rw [encode_eq r (by omega) hmax hsur]
  have hn : ((r.toNat : Nat) : Int) = r := by omega
  generalize hnn : r.toNat = n at hn
  have g128 : 128 ≤ n := by omega
  have gmax : n ≤ 0x10FFFF := by omega
  have gsur : ¬ (0xD800 ≤ n ∧ n ≤ 0xDFFF) := by omega
  have hpr : 32 ≤ r ∧ r ≠ 127 ∧ r ≠ runeError := ⟨by omega, by omega, by simpa [runeError] using hfffd⟩
  unfold Utf8.encodeNat
  have e1 : ¬ n < 0x80 := by omega
  simp only [e1, if_false]
  by_cases c2 : n < 0x800
  · -- two bytes
    simp only [c2, if_true]
    have hd := dr2 (0xC0 + n / 64) (0x80 + n % 64) [] (by omega) (by omega) (by omega) (by omega)
    have hval : (((0xC0 + n / 64 - 0xC0) * 64 + (0x80 + n % 64 - 0x80) : Nat) : Int) = r := by omega
    rw [hval] at hd
    refine ⟨⟨_, _, rfl, by omega⟩, by simp, ?_, ?_, hpr⟩
    · exact decUtf8_full _ _ r 2 (by omega) hd (by omega) (by simp) (by omega)
    · intro l h0 hl
      simp at hl
      have : l = 1 := by omega
      subst this
      right
      exact decUtf8_trunc _ _ (by omega) (trunc1 _ (by omega))
  · simp only [c2, if_false]
    by_cases c3 : n < 0x10000
    · -- three bytes
      simp only [c3, if_true]
      have hd := dr3 (0xE0 + n / 4096) (0x80 + n / 64 % 64) (0x80 + n % 64) [] (by omega) (by omega)
        (by split <;> omega) (by split <;> omega) (by omega) (by omega)
      have hval : (((0xE0 + n / 4096 - 0xE0) * 4096 + (0x80 + n / 64 % 64 - 0x80) * 64 + (0x80 + n % 64 - 0x80) : Nat) : Int) = r := by
        omega
      rw [hval] at hd
      refine ⟨⟨_, _, rfl, by omega⟩, by simp, ?_, ?_, hpr⟩
      · exact decUtf8_full _ _ r 3 (by omega) hd (by omega) (by simp) (by omega)
      · intro l h0 hl
        simp at hl
        have : l = 1 ∨ l = 2 := by omega
        right
        rcases this with rfl | rfl
        · exact decUtf8_trunc _ _ (by omega) (trunc1 _ (by omega))
        · exact decUtf8_trunc _ _ (by omega) (trunc2 _ _ (by omega))
    · -- four bytes
      simp only [c3, if_false]
      have hd := dr4 (0xF0 + n / 262144) (0x80 + n / 4096 % 64) (0x80 + n / 64 % 64) (0x80 + n % 64) [] (by omega) (by omega)
        (by split <;> omega) (by split <;> omega) (by omega) (by omega) (by omega) (by omega)
      have hval : (((0xF0 + n / 262144 - 0xF0) * 262144 + (0x80 + n / 4096 % 64 - 0x80) * 4096
          + (0x80 + n / 64 % 64 - 0x80) * 64 + (0x80 + n % 64 - 0x80) : Nat) : Int) = r := by
        omega
      rw [hval] at hd
      refine ⟨⟨_, _, rfl, by omega⟩, by simp, ?_, ?_, hpr⟩
      · exact decUtf8_full _ _ r 4 (by omega) hd (by omega) (by simp) (by omega)
      · intro l h0 hl
        simp at hl
        have : l = 1 ∨ l = 2 ∨ l = 3 := by omega
        right
        rcases this with rfl | rfl | rfl
        · exact decUtf8_trunc _ _ (by omega) (trunc1 _ (by omega))
        · exact decUtf8_trunc _ _ (by omega) (trunc2 _ _ (by omega))
        · exact decUtf8_trunc _ _ (by omega) (trunc3 _ _ _ (by omega))

end Tcell.Lemmas.Text
