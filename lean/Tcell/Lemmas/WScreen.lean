/-
Lemmas about the wScreen model (C19): effect of `drawCell`, monotonicity of dirtiness under drawing, the draw
walk, and the invariant that ties the page grid rebuilt from the JS calls to C08's specification ghost.
-/
import Tcell.Model.WScreen
import Tcell.Lemmas.Cell
import Tcell.Props.C08
namespace Tcell.WScreen
open Tcell Tcell.Buf

variable (p : Pal) (scr : Style)


/-! ### drawCell -/


theorem drawCell_fst (b : Buf) (x y : Int) :
    (drawCell p scr b x y).1 = if b.dirty x y then b.setDirty x y false else b := by
  unfold drawCell; split <;> rfl


theorem drawCell_calls (b : Buf) (x y : Int) :
    (drawCell p scr b x y).2.1 = if b.dirty x y then [JsCall.drawCell x y (view p scr b x y)] else [] := by
  unfold drawCell; split <;> rfl


/-- `b'` has no dirty cell that `b` has not -/
def DirtyLe (b' b : Buf) : Prop := ∀ i j, b'.dirty i j = true → b.dirty i j = true


theorem DirtyLe.refl (b : Buf) : DirtyLe b b := fun _ _ h => h

theorem DirtyLe.trans {a b c : Buf} (h1 : DirtyLe a b) (h2 : DirtyLe b c) : DirtyLe a c := fun i j h => h2 i j (h1 i j h)


theorem setDirty_false_dirtyLe (b : Buf) (x y : Int) : DirtyLe (b.setDirty x y false) b := by
  intro i j h
  by_cases hxy : i = x ∧ j = y
  · obtain ⟨rfl, rfl⟩ := hxy
    rw [Props.C08.clean_after_setDirty_false] at h; exact absurd h (by simp)
  · unfold dirty at h ⊢
    have hr : (b.setDirty x y false).inRange i j ↔ b.inRange i j := by simp [inRange_iff]
    by_cases hin : b.inRange i j
    · rw [if_pos (hr.2 hin)] at h
      rw [if_pos hin]
      rw [setDirty_false_cells] at h
      rw [if_neg (fun hh => hxy ⟨hh.1, hh.2.1⟩)] at h
      exact h
    · rw [if_neg (fun hh => hin (hr.1 hh))] at h; exact absurd h (by simp)


theorem drawCell_dirtyLe (b : Buf) (x y : Int) : DirtyLe (drawCell p scr b x y).1 b := by
  rw [drawCell_fst]; split
  · exact setDirty_false_dirtyLe b x y
  · exact DirtyLe.refl b


theorem drawCell_clean (b : Buf) (x y : Int) : (drawCell p scr b x y).1.dirty x y = false := by
  rw [drawCell_fst]; split
  · exact Props.C08.clean_after_setDirty_false b x y
  · rename_i h; simpa using h


/-! ### frame: only cells dirty at entry are drawn -/


theorem drawRow_frame (w y : Int) : ∀ (fuel : Nat) (x : Int) (b : Buf),
    DirtyLe (drawRow p scr w y fuel x b).1 b ∧
    ∀ c ∈ (drawRow p scr w y fuel x b).2, ∃ x' pc, c = JsCall.drawCell x' y pc ∧ b.dirty x' y = true := by
  intro fuel
  induction fuel with
  | zero => intro x b; exact ⟨DirtyLe.refl b, by simp [drawRow]⟩
  | succ n ih =>
    intro x b
    unfold drawRow
    by_cases hx : x < w
    · simp only [hx, if_true]
      obtain ⟨hle, hc⟩ := ih (x + (drawCell p scr b x y).2.2) (drawCell p scr b x y).1
      refine ⟨DirtyLe.trans hle (drawCell_dirtyLe p scr b x y), ?_⟩
      intro c hcm
      rcases List.mem_append.1 hcm with h1 | h2
      · rw [drawCell_calls] at h1
        by_cases hd : b.dirty x y = true
        · rw [if_pos hd] at h1
          simp only [List.mem_singleton] at h1
          exact ⟨x, _, h1, hd⟩
        · rw [if_neg hd] at h1; simp at h1
      · obtain ⟨x', pc, he, hd⟩ := hc c h2
        exact ⟨x', pc, he, drawCell_dirtyLe p scr b x y _ _ hd⟩
    · simp only [hx, if_false]
      exact ⟨DirtyLe.refl b, by simp⟩


theorem drawRows_frame (w : Int) : ∀ (n : Nat) (y : Int) (b : Buf),
    DirtyLe (drawRows p scr w n y b).1 b ∧
    ∀ c ∈ (drawRows p scr w n y b).2, ∃ x' y' pc, c = JsCall.drawCell x' y' pc ∧ b.dirty x' y' = true := by
  intro n
  induction n with
  | zero => intro y b; exact ⟨DirtyLe.refl b, by simp [drawRows]⟩
  | succ n ih =>
    intro y b
    unfold drawRows
    obtain ⟨hle1, hc1⟩ := drawRow_frame p scr w y w.toNat 0 b
    obtain ⟨hle2, hc2⟩ := ih (y + 1) (drawRow p scr w y w.toNat 0 b).1
    refine ⟨DirtyLe.trans hle2 hle1, ?_⟩
    intro c hcm
    rcases List.mem_append.1 hcm with h1 | h2
    · obtain ⟨x', pc, he, hd⟩ := hc1 c h1
      exact ⟨x', y, pc, he, hd⟩
    · obtain ⟨x', y', pc, he, hd⟩ := hc2 c h2
      exact ⟨x', y', pc, he, hle1 _ _ hd⟩


/-- the cells a `Show` leaves dirty were dirty before it -/
theorem show_dirtyLe (s : WS) : DirtyLe (WScreen.show p s).1.cells s.cells := by
  unfold WScreen.show draw
  exact (drawRows_frame p s.style s.w s.h.toNat 0 s.cells).1


/-! ### the walk: every position the loops stop at is clean afterwards -/


/-- the columns the inner loop stops at (same recursion as `drawRow`) -/
def rowVisits (w y : Int) : Nat → Int → Buf → List Int
  | 0, _, _ => []
  | fuel + 1, x, b =>
    if x < w then x :: rowVisits w y fuel (x + (drawCell p scr b x y).2.2) (drawCell p scr b x y).1 else []


/-- the positions the two loops stop at (same recursion as `drawRows`) -/
def visits (w : Int) : Nat → Int → Buf → List (Int × Int)
  | 0, _, _ => []
  | n + 1, y, b =>
    (rowVisits p scr w y w.toNat 0 b).map (fun x => (x, y)) ++ visits w n (y + 1) (drawRow p scr w y w.toNat 0 b).1


theorem rowVisits_clean (w y : Int) : ∀ (fuel : Nat) (x : Int) (b : Buf),
    ∀ x' ∈ rowVisits p scr w y fuel x b, (drawRow p scr w y fuel x b).1.dirty x' y = false := by
  intro fuel
  induction fuel with
  | zero => intro x b x' h; simp [rowVisits] at h
  | succ n ih =>
    intro x b x' h
    unfold rowVisits at h
    unfold drawRow
    by_cases hx : x < w
    · simp only [hx, if_true] at h ⊢
      rcases List.mem_cons.1 h with h1 | h2
      · subst h1
        have hcl := drawCell_clean p scr b x' y
        have hle := (drawRow_frame p scr w y n (x' + (drawCell p scr b x' y).2.2) (drawCell p scr b x' y).1).1
        cases hd : (drawRow p scr w y n (x' + (drawCell p scr b x' y).2.2) (drawCell p scr b x' y).1).1.dirty x' y
        · rfl
        · rw [hle _ _ hd] at hcl; exact absurd hcl (by simp)
      · exact ih _ _ x' h2
    · simp only [hx, if_false] at h; simp at h


/-! ### faithfulness: the history induction -/


/-- the main rune as the page shows it (`GetContent` turns anything below ' ' into a blank) -/
def shownMain (m : Rune) : Rune := if m < 32 then 32 else m


/-- rendering of a stored content triple -/
def renderRaw (c : Content) : PageCell := render p scr (shownMain c.1) c.2.1 c.2.2


/-- a cell whose main rune is above ' ' has a non-zero width (holds on every reachable buffer as long as no
zero-width rune is stored as the *main* rune of a cell) -/
def W0c (c : Cell) : Prop := c.currMain > 32 → c.width ≠ 0

def W0 (b : Buf) : Prop := ∀ x y, W0c (b.cells x y)


theorem view_eq_renderRaw (b : Buf) (x y : Int) (hr : b.inRange x y) (hw : W0c (b.cells x y)) :
    view p scr b x y = renderRaw p scr (b.cells x y).content := by
  unfold view getContent renderRaw Cell.content shownMain
  rw [if_pos hr]
  by_cases h : (b.cells x y).width = 0 ∨ (b.cells x y).currMain < 32
  · simp only [h, if_true]
    by_cases h2 : (b.cells x y).currMain < 32
    · simp [h2]
    · have hwd : (b.cells x y).width = 0 := by rcases h with h | h; exact h; exact absurd h h2
      have : ¬ (b.cells x y).currMain > 32 := fun hh => hw hh hwd
      have he : (b.cells x y).currMain = 32 := by simp only [Rune] at *; omega
      simp [he]
  · simp only [h, if_false]
    have h2 : ¬ (b.cells x y).currMain < 32 := fun hh => h (Or.inr hh)
    simp [h2]


theorem renderRaw_markClean (c : Cell) : renderRaw p scr c.markClean.content = renderRaw p scr c.content := by
  unfold renderRaw Cell.content Cell.markClean shownMain
  by_cases h : c.currMain = 0 <;> simp [h]


theorem W0c_markClean (c : Cell) (h : W0c c) : W0c c.markClean := by
  unfold W0c at *
  simp only [Cell.markClean_currMain, Cell.markClean_width]
  intro hh; apply h; split at hh <;> (simp only [Rune] at *; omega)

theorem W0c_markDirty (c : Cell) (h : W0c c) : W0c c.markDirty := h

theorem W0c_setLock (c : Cell) (v : Bool) (h : W0c c) : W0c (c.setLock v) := h

theorem W0c_carry (c : Cell) (h : W0c c) : W0c c.carry := h

theorem W0c_default : W0c ({} : Cell) := by intro h; simp at h

theorem W0c_filled (c : Cell) (r : Rune) (s : Style) : W0c (c.filled r s) := by intro _; simp

theorem W0c_store (rw : Rune → Int) (c : Cell) (m : Rune) (cc : List Rune) (s : Style) (h : W0c c) (hm : m ≤ 32 ∨ rw m ≠ 0) :
    W0c (c.store rw m cc s) := by
  unfold W0c at *
  simp only [Cell.store_currMain, Cell.store_width]
  intro hh
  split
  · rcases hm with hm | hm
    · simp only [Rune] at *; omega
    · exact hm
  · rename_i hne
    have : c.currMain = m := by simpa using hne
    exact h (by rw [this]; exact hh)


/-- the page shows the ghost: whatever C08's specification ghost remembers as "content when last marked clean" is
what the page grid holds for that cell -/
def PG (g : Ghost) (pg : Page) : Prop := ∀ x y c, g x y = some c → pg x y = some (renderRaw p scr c)


def PInv (b : Buf) (g : Ghost) (pg : Page) : Prop := Props.C08.GhostInv b g ∧ PG p scr g pg ∧ W0 b


theorem applyAll_append (pg : Page) (a b : List JsCall) : pg.applyAll (a ++ b) = (pg.applyAll a).applyAll b := by
  unfold Page.applyAll; rw [List.foldl_append]


theorem dirty_inRange (b : Buf) (x y : Int) (h : b.dirty x y = true) : b.inRange x y := by
  unfold dirty at h; by_cases hr : b.inRange x y
  · exact hr
  · rw [if_neg hr] at h; exact absurd h (by simp)


theorem drawCell_inv (b : Buf) (g : Ghost) (pg : Page) (x y : Int) (h : PInv p scr b g pg) :
    ∃ g', PInv p scr (drawCell p scr b x y).1 g' (pg.applyAll (drawCell p scr b x y).2.1) := by
  rw [drawCell_fst, drawCell_calls]
  by_cases hd : b.dirty x y = true
  · rw [if_pos hd, if_pos hd]
    have hr := dirty_inRange b x y hd
    obtain ⟨hg, hpg, hw⟩ := h
    refine ⟨g.step b (b.setDirty x y false) (.setDirty x y false), ?_, ?_, ?_⟩
    · exact Props.C08.ghostInv_step (fun _ => 1) b g (.setDirty x y false) hg
    · intro i j c hc
      simp only [Ghost.step, hr, if_true] at hc
      simp only [Page.applyAll, List.foldl, Page.apply]
      by_cases hij : i = x ∧ j = y
      · rw [if_pos hij] at hc ⊢
        obtain ⟨rfl, rfl⟩ := hij
        simp only [Bool.false_eq_true, if_false, Option.some.injEq] at hc
        subst hc
        rw [setDirty_false_cells]
        simp only [hr, and_self, if_true]
        rw [renderRaw_markClean, view_eq_renderRaw p scr b i j hr (hw i j)]
      · rw [if_neg hij] at hc ⊢
        exact hpg i j c hc
    · intro i j
      rw [setDirty_false_cells]
      split
      · exact W0c_markClean _ (hw i j)
      · exact hw i j
  · rw [if_neg hd, if_neg hd]
    exact ⟨g, h⟩


theorem drawRow_inv (w y : Int) : ∀ (fuel : Nat) (x : Int) (b : Buf) (g : Ghost) (pg : Page), PInv p scr b g pg →
    ∃ g', PInv p scr (drawRow p scr w y fuel x b).1 g' (pg.applyAll (drawRow p scr w y fuel x b).2) := by
  intro fuel
  induction fuel with
  | zero => intro x b g pg h; exact ⟨g, by simpa [drawRow, Page.applyAll] using h⟩
  | succ n ih =>
    intro x b g pg h
    unfold drawRow
    by_cases hx : x < w
    · simp only [hx, if_true]
      obtain ⟨g1, h1⟩ := drawCell_inv p scr b g pg x y h
      obtain ⟨g2, h2⟩ := ih (x + (drawCell p scr b x y).2.2) _ g1 _ h1
      exact ⟨g2, by rw [applyAll_append]; exact h2⟩
    · simp only [hx, if_false]
      exact ⟨g, by simpa [Page.applyAll] using h⟩


theorem drawRows_inv (w : Int) : ∀ (n : Nat) (y : Int) (b : Buf) (g : Ghost) (pg : Page), PInv p scr b g pg →
    ∃ g', PInv p scr (drawRows p scr w n y b).1 g' (pg.applyAll (drawRows p scr w n y b).2) := by
  intro n
  induction n with
  | zero => intro y b g pg h; exact ⟨g, by simpa [drawRows, Page.applyAll] using h⟩
  | succ n ih =>
    intro y b g pg h
    unfold drawRows
    obtain ⟨g1, h1⟩ := drawRow_inv p scr w y w.toNat 0 b g pg h
    obtain ⟨g2, h2⟩ := ih (y + 1) _ g1 _ h1
    exact ⟨g2, by rw [applyAll_append]; exact h2⟩


def SInv (sp : WS × Page) : Prop :=
  sp.1.style = scr ∧ sp.1.clear = false ∧ ∃ g, PInv p scr sp.1.cells g sp.2


theorem PG_none (pg : Page) : PG p scr Ghost.none pg := by intro x y c h; simp [Ghost.none] at h


theorem W0_invalidate (b : Buf) (h : W0 b) : W0 b.invalidate := fun x y => W0c_markDirty _ (h x y)


theorem W0_resize (b : Buf) (w hh : Int) (h : W0 b) : W0 (b.resize w hh) := by
  by_cases hs : b.h = hh ∧ b.w = w
  · have : b.resize w hh = b := by unfold resize; rw [if_pos hs]
    rw [this]; exact h
  · intro x y; rw [resize_cells b w hh x y hs]; split
    · exact W0c_carry _ (h x y)
    · exact W0c_default


/-! ### LockRegion (screen.go:424, `Tcell.lockRowsG`) as a composition of LockCell / UnlockCell / SetDirty(true) steps -/

theorem pinv_lockCell (b : Buf) (g : Ghost) (pg : Page) (x y : Int) (h : PInv p scr b g pg) :
    PInv p scr (b.lockCell x y) g pg := by
  obtain ⟨hg, hpg, hw⟩ := h
  refine ⟨?_, hpg, ?_⟩
  · exact Props.C08.ghostInv_step (fun _ => 1) b g (.lockCell x y) hg
  · intro i j; rw [lockCell_cells]; split
    · exact W0c_setLock _ _ (hw i j)
    · exact hw i j

theorem pinv_unlockCell (b : Buf) (g : Ghost) (pg : Page) (x y : Int) (h : PInv p scr b g pg) :
    ∃ g', PInv p scr (b.unlockCell x y) g' pg := by
  obtain ⟨hg, hpg, hw⟩ := h
  refine ⟨g.step b (b.unlockCell x y) (.unlockCell x y), ?_, ?_, ?_⟩
  · exact Props.C08.ghostInv_step (fun _ => 1) b g (.unlockCell x y) hg
  · intro i j cc hc
    apply hpg i j cc
    simp only [Ghost.step] at hc
    split at hc
    · dsimp only at hc
      split at hc
      · exact absurd hc (by simp)
      · exact hc
    · exact hc
  · intro i j; rw [unlockCell_cells]; split
    · exact W0c_markDirty _ (W0c_setLock _ _ (hw i j))
    · exact hw i j

theorem pinv_setDirtyTrue (b : Buf) (g : Ghost) (pg : Page) (x y : Int) (h : PInv p scr b g pg) :
    ∃ g', PInv p scr (b.setDirty x y true) g' pg := by
  obtain ⟨hg, hpg, hw⟩ := h
  refine ⟨g.step b (b.setDirty x y true) (.setDirty x y true), ?_, ?_, ?_⟩
  · exact Props.C08.ghostInv_step (fun _ => 1) b g (.setDirty x y true) hg
  · intro i j cc hc
    apply hpg i j cc
    simp only [Ghost.step] at hc
    split at hc
    · dsimp only at hc
      split at hc
      · simp at hc
      · exact hc
    · exact hc
  · intro i j; rw [setDirty_true_cells]; split
    · exact W0c_markDirty _ (hw i j)
    · exact hw i j

theorem pinv_lockRow (x y : Int) (lock : Bool) (pg : Page) : ∀ (n : Nat) (b : Buf) (g : Ghost), PInv p scr b g pg →
    ∃ g', PInv p scr (lockRow b x y lock n) g' pg := by
  intro n
  induction n with
  | zero => intro b g h; exact ⟨g, h⟩
  | succ n ih =>
    intro b g h
    obtain ⟨g1, h1⟩ := ih b g h
    simp only [lockRow]
    split
    · exact ⟨g1, pinv_lockCell p scr _ g1 pg _ _ h1⟩
    · exact pinv_unlockCell p scr _ g1 pg _ _ h1

theorem pinv_lockRowsG (x y w : Int) (lock : Bool) (pg : Page) : ∀ (m : Nat) (b : Buf) (g : Ghost), PInv p scr b g pg →
    ∃ g', PInv p scr (lockRowsG b x y w lock m) g' pg := by
  intro m
  induction m with
  | zero => intro b g h; exact ⟨g, h⟩
  | succ m ih =>
    intro b g h
    obtain ⟨g1, h1⟩ := ih b g h
    obtain ⟨g2, h2⟩ := pinv_lockRow p scr x (y + m) lock pg w.toNat _ g1 h1
    simp only [lockRowsG]
    split
    · unfold redirtyLeft; split
      · exact pinv_setDirtyTrue p scr _ g2 pg _ _ h2
      · exact ⟨g2, h2⟩
    · exact ⟨g2, h2⟩


theorem stepW_inv (fz : Bool) (rw : Rune → Int) (sp : WS × Page) (op : WOp) (hok : op.ok rw) (h : SInv p scr sp) :
    SInv p scr (stepW p fz rw sp op) := by
  obtain ⟨s, pg⟩ := sp
  obtain ⟨hst, hcl, g, hg, hpg, hw⟩ := h
  simp only at hst hcl hg hpg hw
  cases op with
  | setContent x y m c st =>
    refine ⟨hst, hcl, g.step s.cells (s.cells.setContent rw x y m c st) (.setContent x y m c st), ?_, ?_, ?_⟩
    · exact Props.C08.ghostInv_step rw s.cells g (.setContent x y m c st) hg
    · intro i j cc hc
      apply hpg i j cc
      simp only [Ghost.step] at hc
      split at hc
      · split at hc
        · dsimp only at hc
          split at hc
          · exact absurd hc (by simp)
          · exact hc
        · exact hc
      · exact hc
    · intro i j
      simp only [stepW, WScreen.setContent]
      rw [setContent_cells]
      have hpre : W0c ((s.cells.preDirty x y m c).cells i j) := by
        rcases preDirty_cases s.cells x y m c i j with h1 | h1 <;> rw [h1]
        · exact hw i j
        · exact W0c_markDirty _ (hw i j)
      split
      · split
        · exact W0c_store rw _ m c st hpre hok
        · exact hpre
      · exact hw i j
  | fill r st =>
    simp only [stepW, WScreen.fillV, fillV_eq]
    refine ⟨hst, hcl, g, ?_, hpg, fun i j => W0c_filled _ _ st⟩
    exact Props.C08.ghostInv_step (fun _ => 1) s.cells g (.fill (Cell.fillRune fz rw r) st) hg
  | lockCell x y =>
    refine ⟨hst, hcl, g, ?_, hpg, ?_⟩
    · exact Props.C08.ghostInv_step (fun _ => 1) s.cells g (.lockCell x y) hg
    · intro i j; simp only [stepW]; rw [lockCell_cells]; split
      · exact W0c_setLock _ _ (hw i j)
      · exact hw i j
  | unlockCell x y =>
    refine ⟨hst, hcl, g.step s.cells (s.cells.unlockCell x y) (.unlockCell x y), ?_, ?_, ?_⟩
    · exact Props.C08.ghostInv_step (fun _ => 1) s.cells g (.unlockCell x y) hg
    · intro i j cc hc
      apply hpg i j cc
      simp only [Ghost.step] at hc
      split at hc
      · dsimp only at hc
        split at hc
        · exact absurd hc (by simp)
        · exact hc
      · exact hc
    · intro i j; simp only [stepW]; rw [unlockCell_cells]; split
      · exact W0c_markDirty _ (W0c_setLock _ _ (hw i j))
      · exact hw i j
  | lockRegion x y w hh lock =>
    obtain ⟨g', hg'⟩ := pinv_lockRowsG p scr x y w lock pg hh.toNat s.cells g ⟨hg, hpg, hw⟩
    exact ⟨hst, hcl, g', hg'⟩
  | present =>
    simp only [stepW, WScreen.show, draw, hcl, Bool.false_eq_true, if_false, List.nil_append]
    obtain ⟨g', hg'⟩ := drawRows_inv p s.style s.w s.h.toNat 0 s.cells g pg (by rw [hst]; exact ⟨hg, hpg, hw⟩)
    refine ⟨hst, rfl, g', ?_⟩
    rw [applyAll_append]
    rw [hst] at hg'
    simpa [Page.applyAll, Page.apply, hst] using hg'
  | sync =>
    simp only [stepW, sync, draw, if_true]
    have h0 : PInv p scr s.cells.invalidate Ghost.none Page.blank :=
      ⟨Props.C08.ghostInv_step (fun _ => 1) s.cells g .invalidate hg, PG_none p scr _, W0_invalidate _ hw⟩
    obtain ⟨g', hg'⟩ := drawRows_inv p scr s.w s.h.toNat 0 s.cells.invalidate Ghost.none Page.blank h0
    refine ⟨hst, rfl, g', ?_⟩
    rw [applyAll_append, applyAll_append]
    simpa [Page.applyAll, Page.apply, hst] using hg'
  | setSize w hh =>
    simp only [stepW, setSize]
    by_cases hs : w = s.w ∧ hh = s.h
    · rw [if_pos hs]; exact ⟨hst, hcl, g, hg, hpg, hw⟩
    · rw [if_neg hs]
      refine ⟨hst, hcl, Ghost.none, ?_, ?_, ?_⟩
      · have h1 := Props.C08.ghostInv_step (fun _ => 1) s.cells g .invalidate hg
        have h2 := Props.C08.ghostInv_step (fun _ => 1) s.cells.invalidate (g.step s.cells s.cells.invalidate .invalidate) (.resize w hh) h1
        simp only [Buf.apply, Ghost.step] at h2
        split at h2 <;> exact h2
      · exact PG_none p scr _
      · exact W0_resize _ w hh (W0_invalidate _ hw)


theorem init_inv : SInv p ({} : Style) (WS.init, Page.blank) := by
  refine ⟨rfl, rfl, Ghost.none, ?_, PG_none p _ _, ?_⟩
  · intro x y _ hl
    exfalso; apply hl
    simp only [WS.init]
    rw [resize_cells _ _ _ _ _ (by decide)]
    split <;> rfl
  · intro x y
    simp only [WS.init]
    rw [resize_cells _ _ _ _ _ (by decide)]
    split
    · exact W0c_carry _ W0c_default
    · exact W0c_default


theorem runW_inv (fz : Bool) (rw : Rune → Int) : ∀ (ops : List WOp) (sp : WS × Page), (∀ op ∈ ops, op.ok rw) → SInv p scr sp →
    SInv p scr (runW p fz rw sp ops) := by
  intro ops
  induction ops with
  | nil => intro sp _ h; exact h
  | cons op ops ih =>
    intro sp hok h
    simp only [runW, List.foldl]
    exact ih _ (fun o ho => hok o (List.mem_cons_of_mem _ ho)) (stepW_inv p scr fz rw sp op (hok op (List.mem_cons_self ..)) h)


theorem runW_append (fz : Bool) (rw : Rune → Int) (sp : WS × Page) (ops : List WOp) (op : WOp) :
    runW p fz rw sp (ops ++ [op]) = stepW p fz rw (runW p fz rw sp ops) op := by
  simp [runW, List.foldl_append]


end Tcell.WScreen
