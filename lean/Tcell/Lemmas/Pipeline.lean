import Tcell.Model.Pipeline
/- Helper lemmas about the pipeline transition system (C05, C06). -/
namespace Tcell.Model.Pipeline
variable {Ev PSt : Type}

@[simp] theorem guard_eq_some {b : Bool} {s s' : State Ev PSt} : guard b s = some s' ↔ b = true ∧ s = s' := by
  unfold guard; cases b <;> simp

theorem run_append (P : Parser Ev PSt) (c : Cfg) (s : State Ev PSt) (l1 l2 : List Label) :
    run P c s (l1 ++ l2) = (run P c s l1).bind (fun s' => run P c s' l2) := by
  induction l1 generalizing s with
  | nil => simp [run]
  | cons l ls ih =>
    simp only [List.cons_append, run]
    cases h : step P c s l with
    | none => simp
    | some s' => simp [ih]

/-- a property of the initial state preserved by every step holds in every reachable state -/
theorem reachable_induction (P : Parser Ev PSt) (c : Cfg) (pst0 : PSt) (I : State Ev PSt → Prop)
    (h0 : I (init pst0)) (hstep : ∀ s l s', I s → step P c s l = some s' → I s') :
    ∀ s, Reachable P c pst0 s → I s := by
  intro s ⟨ls, hr⟩
  suffices h : ∀ (ls : List Label) (s0 : State Ev PSt), I s0 → run P c s0 ls = some s → I s from h ls _ h0 hr
  intro ls
  induction ls with
  | nil => intro s0 h0 hr; simp [run] at hr; exact hr ▸ h0
  | cons l ls ih =>
    intro s0 h0 hr
    simp only [run] at hr
    cases h : step P c s0 l with
    | none => simp [h] at hr
    | some s1 => simp only [h] at hr; exact ih s1 (hstep _ _ _ h0 h) hr

def inAlive (s : State Ev PSt) : Nat := if s.inPc = .idle then 0 else 1
def mainAlive (s : State Ev PSt) : Nat := if s.mainPc.isIdle then 0 else 1

/-- shutdown bookkeeping invariant: the WaitGroup counts the live loops; while the caller waits, stopQ is closed, the tty
is draining and `running` is false; inside Fini `quit` is closed -/
structure Inv6 (s : State Ev PSt) : Prop where
  wg : s.wg = inAlive s + mainAlive s
  waiting : ∀ f, s.callPc = .wait f → s.stop = true ∧ s.draining = true ∧ s.running = false
  fini : (s.callPc = .dis true ∨ s.callPc = .wait true ∨ s.callPc = .ret true) → s.quit = true
  quiet : s.running = false → (∀ f, s.callPc ≠ .wait f) → s.wg = 0


theorem inv6_init (pst0 : PSt) : Inv6 (init pst0 : State Ev PSt) := by
  constructor <;> simp [init, inAlive, mainAlive, MainPc.isIdle]

set_option maxHeartbeats 4000000 in
theorem step_inv6 (P : Parser Ev PSt) (c : Cfg) (s : State Ev PSt) (l : Label) (s' : State Ev PSt)
    (hi : Inv6 s) (h : step P c s l = some s') : Inv6 s' := by
  obtain ⟨hwg, hw, hf, hq⟩ := hi
  cases l <;> simp only [step] at h <;> (try split at h) <;>
    (try simp only [guard_eq_some, Option.some.injEq, reduceCtorEq, Bool.and_eq_true] at h) <;>
    (try (obtain ⟨hg, rfl⟩ := h)) <;> (try subst h) <;> (try contradiction)
  all_goals first
    | exact ⟨hwg, hw, hf, hq⟩
    | (constructor <;> (try simp_all [inAlive, mainAlive, MainPc.isIdle, push, engage]) <;> (try omega) <;> done)
    | (cases hm : s.mainPc <;> cases hn : s.inPc <;> constructor <;> (try simp_all [inAlive, mainAlive, MainPc.isIdle, MainPc.isSel, MainPc.isTimerCase, MainPc.isResizing, MainPc.isExiting, push]) <;> (try omega) <;> done)

/-- second part of the bookkeeping: past `wg.Wait()` the screen is not running; inside Fini the Once has fired -/
structure Inv6b (s : State Ev PSt) : Prop where
  retq : ∀ f, s.callPc = .ret f → s.running = false
  once : s.finiOnce = false → s.callPc = .idle ∨ s.callPc = .dis false ∨ s.callPc = .wait false ∨ s.callPc = .ret false

theorem inv6b_init (pst0 : PSt) : Inv6b (init pst0 : State Ev PSt) := by
  constructor
  · intro f h; rfl
  · intro _; exact Or.inl rfl

set_option maxHeartbeats 4000000 in
theorem step_inv6b (P : Parser Ev PSt) (c : Cfg) (s : State Ev PSt) (l : Label) (s' : State Ev PSt)
    (h6 : Inv6 s) (hi : Inv6b s) (h : step P c s l = some s') : Inv6b s' := by
  obtain ⟨hrq, ho⟩ := hi
  have hw := h6.waiting
  cases l <;> simp only [step] at h <;> (try split at h) <;>
    (try simp only [guard_eq_some, Option.some.injEq, reduceCtorEq, Bool.and_eq_true] at h) <;>
    (try (obtain ⟨hg, rfl⟩ := h)) <;> (try subst h) <;> (try contradiction)
  all_goals first
    | exact ⟨hrq, ho⟩
    | (constructor <;> (try simp_all [engage]) <;> done)
    | (cases hc : s.callPc <;> constructor <;> (try simp_all [engage]) <;> done)
    | (cases hc : s.callPc <;> cases hf : s.finiOnce <;> constructor <;> (try simp_all [engage]) <;> done)

theorem reachable_inv6b (P : Parser Ev PSt) (c : Cfg) (pst0 : PSt) (s : State Ev PSt) (h : Reachable P c pst0 s) : Inv6b s :=
  (reachable_induction P c pst0 (fun s => Inv6 s ∧ Inv6b s) ⟨inv6_init pst0, inv6b_init pst0⟩
    (fun s l s' hi hs => ⟨step_inv6 P c s l s' hi.1 hs, step_inv6b P c s l s' hi.1 hi.2 hs⟩) s h).2

theorem reachable_inv6 (P : Parser Ev PSt) (c : Cfg) (pst0 : PSt) (s : State Ev PSt) (h : Reachable P c pst0 s) : Inv6 s :=
  reachable_induction P c pst0 Inv6 (inv6_init pst0) (fun s l s' hi hs => step_inv6 P c s l s' hi hs) s h

end Tcell.Model.Pipeline
