import Tcell.Model.Parser
import Tcell.Lemmas.SgrStrict
import Tcell.Base.Dec
/-
Lemmas about `parseSgrMouse` on rendered reports `intro < b ; x ; y M|m`: the digit loop is `Dec.accDigits wrap64`,
a rendered integer is read back exactly (|z| < 2^63), the parser completes at the final byte and ignores what follows.
A report consists of bytes that have a `case` only, so everything holds for both variants of the loop (`sgrStepV b`).
-/
namespace Tcell.Lemmas.SgrMouse
open Tcell Tcell.Model Tcell.Dec Tcell.Lemmas.SgrStrict

def two63 : Int := 9223372036854775808

theorem wrap64_id (v : Int) (h1 : -two63 ≤ v) (h2 : v < two63) : wrap64 v = v := by
  unfold wrap64; unfold two63 at h1 h2; omega

theorem isDigit_range {c : Nat} (h : isDigit c = true) : 48 ≤ c ∧ c ≤ 57 := by
  unfold isDigit at h; simp at h; exact h

/-- a digit byte in a number state accumulates -/
theorem sgrStep_digit (s : SgrSt) (c : Nat) (hc : isDigit c = true) (hn : inNum s = true) :
    sgrStep s c = .cont { s with val := wrap64 (s.val * 10 + ((c : Int) - 48)), dig := true } := by
  have ⟨h1, h2⟩ := isDigit_range hc
  unfold sgrStep
  have e1 : ¬ c = 27 := by omega
  have e2 : ¬ c = 0x9b := by omega
  have e3 : ¬ c = 91 := by omega
  have e4 : ¬ c = 60 := by omega
  have e5 : ¬ c = 45 := by omega
  simp [e1, e2, e3, e4, e5, h1, h2, hn]

theorem isDigit_known {c : Nat} (h : isDigit c = true) : sgrKnown c = true := by
  have ⟨h1, h2⟩ := isDigit_range h
  simp [sgrKnown, h1, h2]

/-- … in either variant -/
theorem sgrStepV_digit (b : Bool) (s : SgrSt) (c : Nat) (hc : isDigit c = true) (hn : inNum s = true) :
    sgrStepV b s c = .cont { s with val := wrap64 (s.val * 10 + ((c : Int) - 48)), dig := true } := by
  rw [sgrStepV_known b s c (isDigit_known hc)]; exact sgrStep_digit s c hc hn

/-- state after reading a run of digits -/
def afterDigits (s : SgrSt) (ds : List Nat) : SgrSt :=
  { s with val := accDigits wrap64 s.val ds, dig := s.dig || !ds.isEmpty }

theorem inNum_afterDigits (s : SgrSt) (ds : List Nat) : inNum (afterDigits s ds) = inNum s := rfl

theorem sgrRun_digits (cfg : Cfg) (st : PState) (ds rest : List Nat) :
    ∀ (s : SgrSt) (i : Nat), (∀ c ∈ ds, isDigit c = true) → inNum s = true →
      sgrRun cfg st s (ds ++ rest) i = sgrRun cfg st (afterDigits s ds) rest (i + ds.length) := by
  induction ds with
  | nil => intro s i _ _; simp [afterDigits, accDigits]
  | cons d ds ih =>
    intro s i hd hn
    have hd0 : isDigit d = true := hd d (by simp)
    have hds : ∀ c ∈ ds, isDigit c = true := fun c hc => hd c (by simp [hc])
    simp only [List.cons_append, sgrRun, sgrStepV_digit _ s d hd0 hn]
    rw [ih _ (i + 1) hds (by simpa [inNum] using hn)]
    simp [afterDigits, accDigits, Nat.add_assoc, Nat.add_comm 1]

/-- a number starts here: number state, nothing accumulated -/
def Fresh (s : SgrSt) : Prop := inNum s = true ∧ s.val = 0 ∧ s.dig = false ∧ s.neg = false

/-- state after a complete rendered integer `z` -/
def afterInt (s : SgrSt) (z : Int) : SgrSt := { s with val := (z.natAbs : Int), dig := true, neg := decide (z < 0) }

theorem sgrStep_minus (s : SgrSt) (hs : Fresh s) : sgrStep s 45 = .cont { s with neg := true } := by
  obtain ⟨hn, _, hd, hg⟩ := hs
  unfold sgrStep
  simp [hn, hd, hg]

theorem sgrStepV_minus (b : Bool) (s : SgrSt) (hs : Fresh s) : sgrStepV b s 45 = .cont { s with neg := true } := by
  rw [sgrStepV_known b s 45 (by decide)]; exact sgrStep_minus s hs

theorem accDigits_showDec_wrap (n : Nat) (hn : (n : Int) < two63) : accDigits wrap64 0 (showDec n) = n :=
  accDigits_showDec wrap64 n (fun m hm => wrap64_id m (by unfold two63; omega) (by unfold two63 at *; omega))

theorem sgrRun_showInt (cfg : Cfg) (st : PState) (z : Int) (hz1 : -two63 < z) (hz2 : z < two63) (rest : List Nat)
    (s : SgrSt) (i : Nat) (hs : Fresh s) :
    sgrRun cfg st s (showInt z ++ rest) i = sgrRun cfg st (afterInt s z) rest (i + (showInt z).length) := by
  obtain ⟨hn, hv, hd, hg⟩ := hs
  unfold showInt
  by_cases hneg : z < 0
  · simp only [hneg, if_true, List.cons_append, sgrRun, sgrStepV_minus _ s ⟨hn, hv, hd, hg⟩]
    rw [sgrRun_digits cfg st _ rest _ (i + 1) (showDec_allDigits _) (by simpa [inNum] using hn)]
    have hacc := accDigits_showDec_wrap z.natAbs (by unfold two63 at *; omega)
    have hne : (showDec z.natAbs).isEmpty = false := by
      cases h : showDec z.natAbs with
      | nil => exact absurd h (showDec_ne_nil _)
      | cons _ _ => rfl
    have : afterDigits { s with neg := true } (showDec z.natAbs) = afterInt s z := by
      simp [afterDigits, afterInt, hv, hacc, hne, hneg]
    rw [this]
    simp [Nat.add_assoc, Nat.add_comm 1]
  · simp only [hneg, if_false]
    rw [sgrRun_digits cfg st _ rest _ i (showDec_allDigits _) hn]
    have hacc := accDigits_showDec_wrap z.natAbs (by unfold two63 at *; omega)
    have hne : (showDec z.natAbs).isEmpty = false := by
      cases h : showDec z.natAbs with
      | nil => exact absurd h (showDec_ne_nil _)
      | cons _ _ => rfl
    have : afterDigits s (showDec z.natAbs) = afterInt s z := by
      cases s
      simp_all [afterDigits, afterInt]
    rw [this]

/-- the value of the number just read is `z` -/
theorem sgrVal_afterInt (s : SgrSt) (z : Int) (hz1 : -two63 < z) (hz2 : z < two63) : sgrVal (afterInt s z) = z := by
  unfold sgrVal afterInt
  by_cases hneg : z < 0
  · simp only [hneg, decide_true, if_true]
    rw [wrap64_id _ (by unfold two63 at *; omega) (by unfold two63 at *; omega)]; omega
  · simp only [hneg, decide_false]
    simp; omega

/-! ### a whole rendered report -/

/-- `intro < b ; x ; y fin` -/
def render (intro : List Nat) (b x y : Int) (fin : Nat) : List Nat :=
  intro ++ (60 :: (showInt b ++ (59 :: (showInt x ++ (59 :: (showInt y ++ [fin]))))))

def Fits (z : Int) : Prop := -two63 < z ∧ z < two63

def s3 : SgrSt := { state := 3 }
def s4 (b : Int) : SgrSt := { state := 4, btn := b }
def s5 (b x : Int) : SgrSt := { state := 5, btn := b, x := x - 1 }

theorem fresh_s3 : Fresh s3 := by simp [Fresh, s3, inNum]
theorem fresh_s4 (b : Int) : Fresh (s4 b) := by simp [Fresh, s4, inNum]
theorem fresh_s5 (b x : Int) : Fresh (s5 b x) := by simp [Fresh, s5, inNum]

theorem sep3 (b : Int) (hb : Fits b) : sgrStep (afterInt s3 b) 59 = .cont (s4 b) := by
  have hv := sgrVal_afterInt s3 b hb.1 hb.2
  unfold sgrStep
  simp [afterInt, s3, s4] at hv ⊢
  simpa [afterInt, s3] using hv

theorem sep4 (b x : Int) (hx : Fits x) : sgrStep (afterInt (s4 b) x) 59 = .cont (s5 b x) := by
  have hv := sgrVal_afterInt (s4 b) x hx.1 hx.2
  have hw : wrap64 (x - 1) = x - 1 := wrap64_id _ (by unfold Fits two63 at *; omega) (by unfold Fits two63 at *; omega)
  unfold sgrStep
  simp [afterInt, s4, s5] at hv ⊢
  rw [show sgrVal { state := 4, val := ↑x.natAbs, dig := true, neg := decide (x < 0), btn := b, x := 0 } = x by
    simpa [afterInt, s4] using hv]
  exact hw

theorem fin5 (b x y : Int) (hy : Fits y) (fin : Nat) (hf : fin = 77 ∨ fin = 109) :
    sgrStep (afterInt (s5 b x) y) fin = .fin (x - 1) (y - 1) b (fin = 109) := by
  have hv := sgrVal_afterInt (s5 b x) y hy.1 hy.2
  have hw : wrap64 (y - 1) = y - 1 := wrap64_id _ (by unfold Fits two63 at *; omega) (by unfold Fits two63 at *; omega)
  unfold sgrStep
  rcases hf with rfl | rfl <;> simp [afterInt, s5] at hv ⊢ <;>
  (rw [show sgrVal { state := 5, val := ↑y.natAbs, dig := true, neg := decide (y < 0), btn := b, x := x - 1 } = y by
    simpa [afterInt, s5] using hv]; exact hw)

theorem sep3V (v : Bool) (b : Int) (hb : Fits b) : sgrStepV v (afterInt s3 b) 59 = .cont (s4 b) := by
  rw [sgrStepV_known v _ 59 (by decide)]; exact sep3 b hb
theorem sep4V (v : Bool) (b x : Int) (hx : Fits x) : sgrStepV v (afterInt (s4 b) x) 59 = .cont (s5 b x) := by
  rw [sgrStepV_known v _ 59 (by decide)]; exact sep4 b x hx
theorem fin5V (v : Bool) (b x y : Int) (hy : Fits y) (fin : Nat) (hf : fin = 77 ∨ fin = 109) :
    sgrStepV v (afterInt (s5 b x) y) fin = .fin (x - 1) (y - 1) b (fin = 109) := by
  rw [sgrStepV_known v _ fin (by rcases hf with rfl | rfl <;> decide)]; exact fin5 b x y hy fin hf

theorem render_length (intro : List Nat) (b x y : Int) (fin : Nat) :
    (render intro b x y fin).length
      = intro.length + 1 + (showInt b).length + 1 + (showInt x).length + 1 + (showInt y).length + 1 := by
  simp [render]; omega

/-- after the introducer the parser is in state 2 -/
theorem sgrRun_body (cfg : Cfg) (st : PState) (b x y : Int) (hb : Fits b) (hx : Fits x) (hy : Fits y)
    (fin : Nat) (hf : fin = 77 ∨ fin = 109) (rest : List Nat) (i : Nat) :
    sgrRun cfg st { state := 2 } (60 :: (showInt b ++ (59 :: (showInt x ++ (59 :: (showInt y ++ fin :: rest)))))) i
      = sgrFinish cfg st (x - 1) (y - 1) b (fin = 109)
          (i + 1 + (showInt b).length + 1 + (showInt x).length + 1 + (showInt y).length + 1) := by
  have h60 : sgrStepV cfg.sgrStrict { state := 2 } 60 = .cont s3 := by simp [sgrStepV, sgrKnown, sgrStep, s3]
  rw [sgrRun, h60]
  simp only []
  rw [sgrRun_showInt cfg st b hb.1 hb.2 _ s3 _ fresh_s3]
  rw [sgrRun, sep3V _ b hb]
  simp only []
  rw [sgrRun_showInt cfg st x hx.1 hx.2 _ (s4 b) _ (fresh_s4 b)]
  rw [sgrRun, sep4V _ b x hx]
  simp only []
  rw [sgrRun_showInt cfg st y hy.1 hy.2 _ (s5 b x) _ (fresh_s5 b x)]
  rw [sgrRun, fin5V _ b x y hy fin hf]

end Tcell.Lemmas.SgrMouse
