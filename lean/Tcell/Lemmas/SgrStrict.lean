import Tcell.Model.Parser
import Tcell.Spec.SgrGrammar
/-
The two variants of the byte loop of `parseSgrMouse` (`sgrStepV strict`): the strict step (fixes/C02-sgr-strict.patch,
`default: return false, false`) is the pinned step on the bytes that have a `case` and a reject on all others; and the
"no junk" invariant: whatever the strict loop consumes up to the final byte is, position by position, the rest of an
SGR report in the sense of the independent grammar `Spec.SgrGrammar`.
-/
namespace Tcell.Lemmas.SgrStrict
open Tcell Tcell.Model Tcell.Spec.SgrGrammar

theorem sgrStepV_false (s : SgrSt) (c : Nat) : sgrStepV false s c = sgrStep s c := by simp [sgrStepV]

/-- on a byte that has a `case` both variants do the same -/
theorem sgrStepV_known (b : Bool) (s : SgrSt) (c : Nat) (h : sgrKnown c = true) : sgrStepV b s c = sgrStep s c := by
  simp [sgrStepV, h]

/-- the strict step is the pinned step or a reject -/
theorem sgrStepV_cases (b : Bool) (s : SgrSt) (c : Nat) :
    sgrStepV b s c = sgrStep s c ∨ (sgrStepV b s c = .rej ∧ b = true ∧ sgrKnown c = false) := by
  unfold sgrStepV
  cases b <;> cases h : sgrKnown c <;> simp

theorem sgrStepV_cont (b : Bool) (s s' : SgrSt) (c : Nat) (h : sgrStepV b s c = .cont s') : sgrStep s c = .cont s' := by
  rcases sgrStepV_cases b s c with e | ⟨e, _, _⟩
  · rw [← e]; exact h
  · rw [e] at h; cases h

theorem sgrStepV_fin (b : Bool) (s : SgrSt) (c : Nat) (x y btn : Int) (rel : Bool) (h : sgrStepV b s c = .fin x y btn rel) :
    sgrStep s c = .fin x y btn rel := by
  rcases sgrStepV_cases b s c with e | ⟨e, _, _⟩
  · rw [← e]; exact h
  · rw [e] at h; cases h

/-- a strict step that does not reject was taken on a byte with a `case` -/
theorem sgrStepV_strict_known (s : SgrSt) (c : Nat) (h : sgrStepV true s c ≠ .rej) : sgrKnown c = true := by
  cases hk : sgrKnown c
  · exfalso; apply h; simp [sgrStepV, hk]
  · rfl

/-- a pinned reject is a strict reject -/
theorem sgrStepV_rej_of_pinned (b : Bool) (s : SgrSt) (c : Nat) (h : sgrStep s c = .rej) : sgrStepV b s c = .rej := by
  rcases sgrStepV_cases b s c with e | ⟨e, _, _⟩
  · rw [e]; exact h
  · exact e

/-! ### the grammar invariant of the strict loop -/

/-- in a number state: the sign is still allowed only when neither a sign nor a digit was read -/
def okNum (k : Bytes → Bool) (s : SgrSt) (r : Bytes) : Bool :=
  if s.dig || s.neg then k r else k (dropSign r)

/-- `r` is what remains of a report when the loop is in state `s` -/
def okFrom (s : SgrSt) (r : Bytes) : Bool :=
  if s.state = 0 then isSgrReport r
  else if s.state = 1 then afterEsc r
  else if s.state = 2 then afterCsi r
  else if s.state = 3 then okNum tailB s r
  else if s.state = 4 then okNum tailX s r
  else if s.state = 5 then okNum tailY s r
  else false

theorem isDigitB_iff (c : Nat) : isDigitB c = true ↔ 48 ≤ c ∧ c ≤ 57 := by simp [isDigitB]

theorem tailY_digit (c : Nat) (t : Bytes) (h : 48 ≤ c ∧ c ≤ 57) : tailY (c :: t) = tailY t := by
  simp [tailY, List.dropWhile, (isDigitB_iff c).mpr h]
theorem tailX_digit (c : Nat) (t : Bytes) (h : 48 ≤ c ∧ c ≤ 57) : tailX (c :: t) = tailX t := by
  simp [tailX, List.dropWhile, (isDigitB_iff c).mpr h]
theorem tailB_digit (c : Nat) (t : Bytes) (h : 48 ≤ c ∧ c ≤ 57) : tailB (c :: t) = tailB t := by
  simp [tailB, List.dropWhile, (isDigitB_iff c).mpr h]

theorem dropSign_ne (c : Nat) (t : Bytes) (h : c ≠ 45) : dropSign (c :: t) = c :: t := by
  unfold dropSign
  split
  · rename_i heq; injection heq with h1 _; exact absurd h1.symm (by omega)
  · rfl

theorem tailX_sep (t : Bytes) : tailX (59 :: t) = tailY (dropSign t) := by
  simp [tailX, List.dropWhile, isDigitB]
theorem tailB_sep (t : Bytes) : tailB (59 :: t) = tailX (dropSign t) := by
  simp [tailB, List.dropWhile, isDigitB]
theorem tailY_fin (c : Nat) (h : c = 109 ∨ c = 77) : tailY [c] = true := by
  rcases h with rfl | rfl <;> decide

/-- one strict step that continues: if what follows completes the report from the new state, then the byte just read
followed by it completes the report from the old state -/
theorem okFrom_step (s s' : SgrSt) (c : Nat) (t : Bytes) (h : sgrStepV true s c = .cont s')
    (ht : okFrom s' t = true) : okFrom s (c :: t) = true := by
  have hk : sgrKnown c = true := sgrStepV_strict_known s c (by rw [h]; intro h'; cases h')
  have hs : sgrStep s c = .cont s' := sgrStepV_cont true s s' c h
  unfold sgrStep at hs
  by_cases c27 : c = 27
  · subst c27
    simp only [if_true] at hs
    by_cases h0 : s.state = 0
    · simp [h0] at hs; subst hs
      simp [okFrom] at ht
      simp [okFrom, h0, isSgrReport, ht]
    · simp [h0] at hs
  by_cases c9b : c = 0x9b
  · subst c9b
    simp only [c27, if_false, if_true] at hs
    by_cases h0 : s.state = 0
    · simp [h0] at hs; subst hs
      simp [okFrom] at ht
      simp [okFrom, h0, isSgrReport, ht]
    · simp [h0] at hs
  by_cases c91 : c = 91
  · subst c91
    simp only [c27, c9b, if_false, if_true] at hs
    by_cases h1 : s.state = 1
    · simp [h1] at hs; subst hs
      simp [okFrom] at ht
      simp [okFrom, h1, afterEsc, ht]
    · simp [h1] at hs
  by_cases c60 : c = 60
  · subst c60
    simp only [c27, c9b, c91, if_false, if_true] at hs
    by_cases h2 : s.state = 2
    · simp [h2] at hs; subst hs
      simp [okFrom, okNum] at ht
      simp [okFrom, h2, afterCsi, ht]
    · simp [h2] at hs
  by_cases c45 : c = 45
  · subst c45
    simp only [c27, c9b, c91, c60, if_false, if_true] at hs
    by_cases hn : inNum s = true
    · by_cases hd : (s.dig || s.neg) = true
      · simp [hn, hd] at hs
      · simp only [hn, hd, Bool.not_true, Bool.false_eq_true, if_false] at hs
        injection hs with hs; subst hs
        simp only [Bool.not_eq_true] at hd
        simp only [inNum, Bool.or_eq_true, beq_iff_eq] at hn
        rcases hn with (h3 | h4) | h5
        · simp [okFrom, okNum, h3] at ht
          simp [okFrom, okNum, h3, hd, dropSign, ht]
        · simp [okFrom, okNum, h4] at ht
          simp [okFrom, okNum, h4, hd, dropSign, ht]
        · simp [okFrom, okNum, h5] at ht
          simp [okFrom, okNum, h5, hd, dropSign, ht]
    · simp [hn] at hs
  by_cases cdig : 48 ≤ c ∧ c ≤ 57
  · simp only [c27, c9b, c91, c60, c45, cdig, and_self, if_false, if_true] at hs
    by_cases hn : inNum s = true
    · simp only [hn, Bool.not_true, Bool.false_eq_true, if_false] at hs
      injection hs with hs; subst hs
      simp only [inNum, Bool.or_eq_true, beq_iff_eq] at hn
      have hds : dropSign (c :: t) = c :: t := dropSign_ne c t c45
      rcases hn with (h3 | h4) | h5
      · simp [okFrom, okNum, h3] at ht
        simp [okFrom, okNum, h3, hds, tailB_digit c t cdig, ht]
      · simp [okFrom, okNum, h4] at ht
        simp [okFrom, okNum, h4, hds, tailX_digit c t cdig, ht]
      · simp [okFrom, okNum, h5] at ht
        simp [okFrom, okNum, h5, hds, tailY_digit c t cdig, ht]
    · simp [hn] at hs
  by_cases c59 : c = 59
  · subst c59
    simp only [c27, c9b, c91, c60, c45, cdig, if_false, if_true] at hs
    by_cases h3 : s.state = 3
    · simp [h3] at hs; subst hs
      simp [okFrom, okNum] at ht
      simp [okFrom, okNum, h3, dropSign_ne 59 t (by decide), tailB_sep, ht]
    · by_cases h4 : s.state = 4
      · simp [h4] at hs; subst hs
        simp [okFrom, okNum] at ht
        simp [okFrom, okNum, h4, dropSign_ne 59 t (by decide), tailX_sep, ht]
      · simp [h3, h4] at hs
  by_cases cfin : c = 109 ∨ c = 77
  · simp only [c27, c9b, c91, c60, c45, cdig, c59, cfin, if_false, if_true] at hs
    split at hs <;> cases hs
  · exfalso
    simp [sgrKnown] at hk
    omega

/-- the final byte completes a report from state 5 -/
theorem okFrom_fin (s : SgrSt) (c : Nat) (x y btn : Int) (rel : Bool) (h : sgrStepV true s c = .fin x y btn rel) :
    okFrom s [c] = true := by
  have hs := sgrStepV_fin true s c x y btn rel h
  unfold sgrStep at hs
  repeat' split at hs
  all_goals first
    | (cases hs; done)
    | skip
  rename_i c27 c9b c91 c60 c45 cdig c59 cfin h5
  have h5' : s.state = 5 := by omega
  have hds : dropSign [c] = [c] := dropSign_ne c [] c45
  simp [okFrom, okNum, h5', hds, tailY_fin c cfin]

end Tcell.Lemmas.SgrStrict
