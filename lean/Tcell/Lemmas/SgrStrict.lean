import Tcell.Model.Parser
import Tcell.Spec.SgrGrammar
/-
The two variants of the byte loop of `parseSgrMouse` (`sgrStepV strict`): the strict step (fixes/C02-sgr-strict.patch,
`default: return false, false`) is the pinned step on the bytes that have a `case` and a reject on all others; and the
"no junk" invariant: whatever the strict loop consumes up to the final byte is, position by position, the rest of an
SGR report in the sense of the independent grammar `Spec.SgrGrammar`.
-/
namespace Tcell.Lemmas.SgrStrict
open Tcell Tcell.Model Tcell.Spec.SgrGrammar

theorem sgrStepV_false (s : SgrSt) (c : Nat) : sgrStepV false s c = sgrStep s c := by simp [sgrStepV]

/-- on a byte that has a `case` both variants do the same -/
theorem sgrStepV_known (b : Bool) (s : SgrSt) (c : Nat) (h : sgrKnown c = true) : sgrStepV b s c = sgrStep s c := by
  simp [sgrStepV, h]

/-- the strict step is the pinned step or a reject -/
theorem sgrStepV_cases (b : Bool) (s : SgrSt) (c : Nat) :
    sgrStepV b s c = sgrStep s c ∨ (sgrStepV b s c = .rej ∧ b = true ∧ sgrKnown c = false) := by
  unfold sgrStepV
  cases b <;> cases h : sgrKnown c <;> simp

theorem sgrStepV_cont (b : Bool) (s s' : SgrSt) (c : Nat) (h : sgrStepV b s c = .cont s') : sgrStep s c = .cont s' := by
  rcases sgrStepV_cases b s c with e | ⟨e, _, _⟩
  · rw [← e]; exact h
  · rw [e] at h; cases h

theorem sgrStepV_fin (b : Bool) (s : SgrSt) (c : Nat) (x y btn : Int) (rel : Bool) (h : sgrStepV b s c = .fin x y btn rel) :
    sgrStep s c = .fin x y btn rel := by
  rcases sgrStepV_cases b s c with e | ⟨e, _, _⟩
  · rw [← e]; exact h
  · rw [e] at h; cases h

/-- a strict step that does not reject was taken on a byte with a `case` -/
theorem sgrStepV_strict_known (s : SgrSt) (c : Nat) (h : sgrStepV true s c ≠ .rej) : sgrKnown c = true := by
  cases hk : sgrKnown c
  · exfalso; apply h; simp [sgrStepV, hk]
  · rfl

/-- a pinned reject is a strict reject -/
theorem sgrStepV_rej_of_pinned (b : Bool) (s : SgrSt) (c : Nat) (h : sgrStep s c = .rej) : sgrStepV b s c = .rej := by
  rcases sgrStepV_cases b s c with e | ⟨e, _, _⟩
  · rw [e]; exact h
  · exact e

/-! ### the grammar invariant of the strict loop -/

/-- in a number state: the sign is still allowed only when neither a sign nor a digit was read -/
def okNum (k : Bytes → Bool) (s : SgrSt) (r : Bytes) : Bool :=
  if s.dig || s.neg then k r else k (dropSign r)

/-- `r` is what remains of a report when the loop is in state `s` -/
def okFrom (s : SgrSt) (r : Bytes) : Bool :=
  if s.state = 0 then isSgrReport r
  else if s.state = 1 then afterEsc r
  else if s.state = 2 then afterCsi r
  else if s.state = 3 then okNum tailB s r
  else if s.state = 4 then okNum tailX s r
  else if s.state = 5 then okNum tailY s r
  else false

theorem isDigitB_iff (c : Nat) : isDigitB c = true ↔ 48 ≤ c ∧ c ≤ 57 := by simp [isDigitB]

theorem tailY_digit (c : Nat) (t : Bytes) (h : 48 ≤ c ∧ c ≤ 57) : tailY (c :: t) = tailY t := by
  simp [tailY, List.dropWhile, (isDigitB_iff c).mpr h]
theorem tailX_digit (c : Nat) (t : Bytes) (h : 48 ≤ c ∧ c ≤ 57) : tailX (c :: t) = tailX t := by
  simp [tailX, List.dropWhile, (isDigitB_iff c).mpr h]
theorem tailB_digit (c : Nat) (t : Bytes) (h : 48 ≤ c ∧ c ≤ 57) : tailB (c :: t) = tailB t := by
  simp [tailB, List.dropWhile, (isDigitB_iff c).mpr h]

theorem dropSign_ne (c : Nat) (t : Bytes) (h : c ≠ 45) : dropSign (c :: t) = c :: t := by
  unfold dropSign
  split
  · rename_i heq; injection heq with h1 _; exact absurd h1.symm (by omega)
  · rfl

theorem tailX_sep (t : Bytes) : tailX (59 :: t) = tailY (dropSign t) := by
  simp [tailX, List.dropWhile, isDigitB]
theorem tailB_sep (t : Bytes) : tailB (59 :: t) = tailX (dropSign t) := by
  simp [tailB, List.dropWhile, isDigitB]
theorem tailY_fin (c : Nat) (h : c = 109 ∨ c = 77) : tailY [c] = true := by
  rcases h with rfl | rfl <;> decide

/-- one strict step that continues: if what follows completes the report from the new state, then the byte just read
followed by it completes the report from the old state -/
theorem okFrom_step (s s' : SgrSt) (c : Nat) (t : Bytes) (h : sgrStepV true s c = .cont s')
    (ht : okFrom s' t = true) : okFrom s (c :: t) = true := by
  have hk : sgrKnown c = true := sgrStepV_strict_known s c (by rw [h]; intro h'; cases h')
  have hs : sgrStep s c = .cont s' := sgrStepV_cont true s s' c h
  unfold sgrStep at hs
  by_cases c27 : c = 27
  · subst c27
    simp only [if_true] at hs
    by_cases h0 : s.state = 0
    · simp [h0] at hs; subst hs
      simp [okFrom] at ht
      simp [okFrom, h0, isSgrReport, ht]
    · simp [h0] at hs
  by_cases c9b : c = 0x9b
  · subst c9b
    simp only [c27, if_false, if_true] at hs
    by_cases h0 : s.state = 0
    · simp [h0] at hs; subst hs
      simp [okFrom] at ht
      simp [okFrom, h0, isSgrReport, ht]
    · simp [h0] at hs
  by_cases c91 : c = 91
  · subst c91
    simp only [c27, c9b, if_false, if_true] at hs
    by_cases h1 : s.state = 1
    · simp [h1] at hs; subst hs
      simp [okFrom] at ht
      simp [okFrom, h1, afterEsc, ht]
    · simp [h1] at hs
  by_cases c60 : c = 60
  · subst c60
    simp only [c27, c9b, c91, if_false, if_true] at hs
    by_cases h2 : s.state = 2
    · simp [h2] at hs; subst hs
      simp [okFrom, okNum] at ht
      simp [okFrom, h2, afterCsi, ht]
    · simp [h2] at hs
  by_cases c45 : c = 45
  · subst c45
    simp only [c27, c9b, c91, c60, if_false, if_true] at hs
    by_cases hn : inNum s = true
    · by_cases hd : (s.dig || s.neg) = true
      · simp [hn, hd] at hs
      · simp only [hn, hd, Bool.not_true, Bool.false_eq_true, if_false] at hs
        injection hs with hs; subst hs
        simp only [Bool.not_eq_true] at hd
        simp only [inNum, Bool.or_eq_true, beq_iff_eq] at hn
        rcases hn with (h3 | h4) | h5
        · simp [okFrom, okNum, h3] at ht
          simp [okFrom, okNum, h3, hd, dropSign, ht]
        · simp [okFrom, okNum, h4] at ht
          simp [okFrom, okNum, h4, hd, dropSign, ht]
        · simp [okFrom, okNum, h5] at ht
          simp [okFrom, okNum, h5, hd, dropSign, ht]
    · simp [hn] at hs
  by_cases cdig : 48 ≤ c ∧ c ≤ 57
  · simp only [c27, c9b, c91, c60, c45, cdig, and_self, if_false, if_true] at hs
    by_cases hn : inNum s = true
    · simp only [hn, Bool.not_true, Bool.false_eq_true, if_false] at hs
      injection hs with hs; subst hs
      simp only [inNum, Bool.or_eq_true, beq_iff_eq] at hn
      have hds : dropSign (c :: t) = c :: t := dropSign_ne c t c45
      rcases hn with (h3 | h4) | h5
      · simp [okFrom, okNum, h3] at ht
        simp [okFrom, okNum, h3, hds, tailB_digit c t cdig, ht]
      · simp [okFrom, okNum, h4] at ht
        simp [okFrom, okNum, h4, hds, tailX_digit c t cdig, ht]
      · simp [okFrom, okNum, h5] at ht
        simp [okFrom, okNum, h5, hds, tailY_digit c t cdig, ht]
    · simp [hn] at hs
  by_cases c59 : c = 59
  · subst c59
    simp only [c27, c9b, c91, c60, c45, cdig, if_false, if_true] at hs
    by_cases h3 : s.state = 3
    · simp [h3] at hs; subst hs
      simp [okFrom, okNum] at ht
      simp [okFrom, okNum, h3, dropSign_ne 59 t (by decide), tailB_sep, ht]
    · by_cases h4 : s.state = 4
      · simp [h4] at hs; subst hs
        simp [okFrom, okNum] at ht
        simp [okFrom, okNum, h4, dropSign_ne 59 t (by decide), tailX_sep, ht]
      · simp [h3, h4] at hs
  by_cases cfin : c = 109 ∨ c = 77
  · simp only [c27, c9b, c91, c60, c45, cdig, c59, cfin, if_false, if_true] at hs
    split at hs <;> cases hs
  · exfalso
    simp [sgrKnown] at hk
    omega

/-- the final byte completes a report from state 5 -/
theorem okFrom_fin (s : SgrSt) (c : Nat) (x y btn : Int) (rel : Bool) (h : sgrStepV true s c = .fin x y btn rel) :
    okFrom s [c] = true := by
  have hs := sgrStepV_fin true s c x y btn rel h
  unfold sgrStep at hs
  repeat' split at hs
  all_goals first
    | (cases hs; done)
    | skip
  rename_i c27 c9b c91 c60 c45 cdig c59 cfin h5
  have h5' : s.state = 5 := by omega
  have hds : dropSign [c] = [c] := dropSign_ne c [] c45
  simp [okFrom, okNum, h5', hds, tailY_fin c cfin]

/-! ### converse: every report of the grammar is accepted, by either variant of the loop -/

theorem okFrom_nil (s : SgrSt) : okFrom s [] = false := by
  unfold okFrom okNum
  repeat' split
  all_goals simp [isSgrReport, afterEsc, afterCsi, tailB, tailX, tailY, dropSign]

theorem not_digit_drop (c : Nat) (t : Bytes) (h : ¬ (48 ≤ c ∧ c ≤ 57)) : (c :: t).dropWhile isDigitB = c :: t := by
  have : isDigitB c = false := by
    cases hd : isDigitB c
    · rfl
    · exact absurd ((isDigitB_iff c).mp hd) h
  simp [List.dropWhile, this]

theorem tailB_nondigit (c : Nat) (t : Bytes) (h : ¬ (48 ≤ c ∧ c ≤ 57)) (hv : tailB (c :: t) = true) :
    c = 59 ∧ tailX (dropSign t) = true := by
  unfold tailB at hv
  rw [not_digit_drop c t h] at hv
  split at hv
  · rename_i heq; injection heq with h1 h2; subst h1; subst h2; exact ⟨rfl, hv⟩
  · cases hv

theorem tailX_nondigit (c : Nat) (t : Bytes) (h : ¬ (48 ≤ c ∧ c ≤ 57)) (hv : tailX (c :: t) = true) :
    c = 59 ∧ tailY (dropSign t) = true := by
  unfold tailX at hv
  rw [not_digit_drop c t h] at hv
  split at hv
  · rename_i heq; injection heq with h1 h2; subst h1; subst h2; exact ⟨rfl, hv⟩
  · cases hv

theorem tailY_nondigit (c : Nat) (t : Bytes) (h : ¬ (48 ≤ c ∧ c ≤ 57)) (hv : tailY (c :: t) = true) :
    t = [] ∧ (c = 77 ∨ c = 109) := by
  unfold tailY at hv
  rw [not_digit_drop c t h] at hv
  split at hv
  · rename_i f heq; injection heq with h1 h2; subst h1; subst h2
    simp at hv; exact ⟨rfl, hv⟩
  · cases hv

/-- in a number state, a byte of a report remainder that is not the last one: `-` (only as the first byte of the field),
a digit, or – in the first two fields – the separator; the step continues and what follows is a remainder again.
`K` is the tail recogniser of the field. -/
theorem num_step (b : Bool) (s : SgrSt) (c : Nat) (t : Bytes) (K : Bytes → Bool) (hn : inNum s = true)
    (hdig : ∀ c t, 48 ≤ c ∧ c ≤ 57 → K (c :: t) = K t)
    (hv : okNum K s (c :: t) = true) :
    (c = 45 ∧ s.dig = false ∧ s.neg = false ∧ sgrStepV b s c = .cont { s with neg := true } ∧ K t = true)
    ∨ ((48 ≤ c ∧ c ≤ 57) ∧ sgrStepV b s c = .cont { s with val := wrap64 (s.val * 10 + ((c : Int) - 48)), dig := true } ∧ K t = true)
    ∨ (¬ (48 ≤ c ∧ c ≤ 57) ∧ K (c :: t) = true) := by
  by_cases c45 : c = 45
  · subst c45
    by_cases hd : (s.dig || s.neg) = true
    · right; right
      simp only [okNum, hd, if_true] at hv
      exact ⟨by omega, hv⟩
    · left
      simp only [okNum, hd, Bool.false_eq_true, if_false, dropSign] at hv
      simp only [Bool.or_eq_true, not_or, Bool.not_eq_true] at hd
      refine ⟨rfl, hd.1, hd.2, ?_, hv⟩
      simp [sgrStepV, sgrKnown, sgrStep, hn, hd.1, hd.2]
  · have hds : dropSign (c :: t) = c :: t := dropSign_ne c t c45
    have hv' : K (c :: t) = true := by
      unfold okNum at hv; rw [hds] at hv; simpa using hv
    by_cases cdig : 48 ≤ c ∧ c ≤ 57
    · right; left
      refine ⟨cdig, ?_, by rw [← hdig c t cdig]; exact hv'⟩
      have hk : sgrKnown c = true := by simp [sgrKnown, cdig.1, cdig.2]
      rw [sgrStepV_known b s c hk]
      unfold sgrStep
      have e1 : ¬ c = 27 := by omega
      have e2 : ¬ c = 0x9b := by omega
      have e3 : ¬ c = 91 := by omega
      have e4 : ¬ c = 60 := by omega
      simp [e1, e2, e3, e4, c45, cdig.1, cdig.2, hn]
    · right; right; exact ⟨cdig, hv'⟩

/-- a byte of a report remainder that is not its last byte: either variant continues, and what follows is a remainder -/
theorem okFrom_step_conv (b : Bool) (s : SgrSt) (c : Nat) (t : Bytes) (hne : t ≠ []) (h : okFrom s (c :: t) = true) :
    ∃ s', sgrStepV b s c = .cont s' ∧ okFrom s' t = true := by
  unfold okFrom at h
  by_cases h0 : s.state = 0
  · rw [if_pos h0] at h
    unfold isSgrReport at h
    split at h
    · rename_i r heq; injection heq with h1 h2; subst h1; subst h2
      exact ⟨{ s with state := 1 }, by simp [sgrStepV, sgrKnown, sgrStep, h0], by simpa [okFrom] using h⟩
    · rename_i r heq; injection heq with h1 h2; subst h1; subst h2
      exact ⟨{ s with state := 2 }, by simp [sgrStepV, sgrKnown, sgrStep, h0], by simpa [okFrom] using h⟩
    · cases h
  by_cases h1 : s.state = 1
  · rw [if_neg h0, if_pos h1] at h
    unfold afterEsc at h
    split at h
    · rename_i r heq; injection heq with e1 e2; subst e1; subst e2
      exact ⟨{ s with state := 2 }, by simp [sgrStepV, sgrKnown, sgrStep, h1], by simpa [okFrom] using h⟩
    · cases h
  by_cases h2 : s.state = 2
  · rw [if_neg h0, if_neg h1, if_pos h2] at h
    unfold afterCsi at h
    split at h
    · rename_i r heq; injection heq with e1 e2; subst e1; subst e2
      exact ⟨{ s with state := 3, val := 0, dig := false, neg := false }, by simp [sgrStepV, sgrKnown, sgrStep, h2],
        by simpa [okFrom, okNum] using h⟩
    · cases h
  by_cases h3 : s.state = 3
  · rw [if_neg h0, if_neg h1, if_neg h2, if_pos h3] at h
    have hn : inNum s = true := by simp [inNum, h3]
    rcases num_step b s c t tailB hn tailB_digit h with
      ⟨_, _, _, hst, hk⟩ | ⟨_, hst, hk⟩ | ⟨hnd, hk⟩
    · exact ⟨_, hst, by simp [okFrom, okNum, h3, hk]⟩
    · exact ⟨_, hst, by simp [okFrom, okNum, h3, hk]⟩
    · obtain ⟨rfl, hx⟩ := tailB_nondigit c t hnd hk
      exact ⟨{ s with btn := sgrVal s, val := 0, neg := false, dig := false, state := 4 },
        by simp [sgrStepV, sgrKnown, sgrStep, h3], by simp [okFrom, okNum, hx]⟩
  by_cases h4 : s.state = 4
  · rw [if_neg h0, if_neg h1, if_neg h2, if_neg h3, if_pos h4] at h
    have hn : inNum s = true := by simp [inNum, h4]
    rcases num_step b s c t tailX hn tailX_digit h with
      ⟨_, _, _, hst, hk⟩ | ⟨_, hst, hk⟩ | ⟨hnd, hk⟩
    · exact ⟨_, hst, by simp [okFrom, okNum, h4, hk]⟩
    · exact ⟨_, hst, by simp [okFrom, okNum, h4, hk]⟩
    · obtain ⟨rfl, hx⟩ := tailX_nondigit c t hnd hk
      exact ⟨{ s with x := wrap64 (sgrVal s - 1), val := 0, neg := false, dig := false, state := 5 },
        by simp [sgrStepV, sgrKnown, sgrStep, h4], by simp [okFrom, okNum, hx]⟩
  by_cases h5 : s.state = 5
  · rw [if_neg h0, if_neg h1, if_neg h2, if_neg h3, if_neg h4, if_pos h5] at h
    have hn : inNum s = true := by simp [inNum, h5]
    rcases num_step b s c t tailY hn tailY_digit h with
      ⟨_, _, _, hst, hk⟩ | ⟨_, hst, hk⟩ | ⟨hnd, hk⟩
    · exact ⟨_, hst, by simp [okFrom, okNum, h5, hk]⟩
    · exact ⟨_, hst, by simp [okFrom, okNum, h5, hk]⟩
    · exact absurd (tailY_nondigit c t hnd hk).1 hne
  · simp [h0, h1, h2, h3, h4, h5] at h

/-- the last byte of a report remainder is the final byte: either variant finishes -/
theorem okFrom_fin_conv (b : Bool) (s : SgrSt) (c : Nat) (h : okFrom s [c] = true) :
    ∃ x y btn rel, sgrStepV b s c = .fin x y btn rel := by
  by_cases h5 : s.state = 5
  · have hc : c = 77 ∨ c = 109 := by
      simp only [okFrom, h5, if_true, if_false, Nat.succ_ne_zero] at h
      unfold okNum at h
      by_cases c45 : c = 45
      · subst c45; revert h; cases (s.dig || s.neg) <;> simp [dropSign, tailY, List.dropWhile, isDigitB]
      · rw [dropSign_ne c [] c45] at h
        have h' : tailY [c] = true := by simpa using h
        by_cases cdig : 48 ≤ c ∧ c ≤ 57
        · rw [tailY_digit c [] cdig] at h'; simp [tailY] at h'
        · exact (tailY_nondigit c [] cdig h').2
    rcases hc with rfl | rfl
    · exact ⟨s.x, wrap64 (sgrVal s - 1), s.btn, false, by simp [sgrStepV, sgrKnown, sgrStep, h5]⟩
    · exact ⟨s.x, wrap64 (sgrVal s - 1), s.btn, true, by simp [sgrStepV, sgrKnown, sgrStep, h5]⟩
  · exfalso
    unfold okFrom at h
    by_cases h0 : s.state = 0
    · rw [if_pos h0] at h
      unfold isSgrReport at h; split at h <;> simp_all [afterEsc, afterCsi]
    by_cases h1 : s.state = 1
    · rw [if_neg h0, if_pos h1] at h
      unfold afterEsc at h; split at h <;> simp_all [afterCsi]
    by_cases h2 : s.state = 2
    · rw [if_neg h0, if_neg h1, if_pos h2] at h
      unfold afterCsi at h; split at h
      · rename_i r heq; injection heq with e1 e2; subst e2; simp [dropSign, tailB] at h
      · cases h
    by_cases h3 : s.state = 3
    · rw [if_neg h0, if_neg h1, if_neg h2, if_pos h3] at h
      unfold okNum at h
      by_cases c45 : c = 45
      · subst c45; revert h; cases (s.dig || s.neg) <;> simp [dropSign, tailB, List.dropWhile, isDigitB]
      · rw [dropSign_ne c [] c45] at h
        have h' : tailB [c] = true := by simpa using h
        by_cases cdig : 48 ≤ c ∧ c ≤ 57
        · rw [tailB_digit c [] cdig] at h'; simp [tailB] at h'
        · have := (tailB_nondigit c [] cdig h').2; simp [dropSign, tailX] at this
    by_cases h4 : s.state = 4
    · rw [if_neg h0, if_neg h1, if_neg h2, if_neg h3, if_pos h4] at h
      unfold okNum at h
      by_cases c45 : c = 45
      · subst c45; revert h; cases (s.dig || s.neg) <;> simp [dropSign, tailX, List.dropWhile, isDigitB]
      · rw [dropSign_ne c [] c45] at h
        have h' : tailX [c] = true := by simpa using h
        by_cases cdig : 48 ≤ c ∧ c ≤ 57
        · rw [tailX_digit c [] cdig] at h'; simp [tailX] at h'
        · have := (tailX_nondigit c [] cdig h').2; simp [dropSign, tailY] at this
    · simp [h0, h1, h2, h3, h4, h5] at h

end Tcell.Lemmas.SgrStrict
