/-
Layer B of C04, part 2: the control sequences the mode path of the built-in terminal descriptions is made of, as
*tokens* (`Tok`), each with its bytes, a well-formedness test and its effect on the emulator's mode registers given
as DATA (`Eff`: per-register assignments, colour reset, title-stack operations) — and the proof (`Tok.sim`) that the
reference emulator, in ANY state whose parser is in the ground state, fed the token's bytes, ends in the ground state
with exactly that effect on its registers.  `toks_sim` composes over token lists (`feed_append`).
`tokenize` is an (untrusted) parser from bytes to tokens: users re-check `toks l = s` and `l.all Tok.wf` by evaluation.
-/
import Tcell.Lemmas.ModesBEmu
import Tcell.Gen.TerminfoStruct
namespace Tcell.ModesB
open Tcell Tcell.Spec.Ecma48 Tcell.Spec.Ecma48.Term

/-! ## effects as data -/

inductive TOp where
  | push | pop
deriving DecidableEq, Repr

/-- an effect on the mode registers: `some b` assigns, `none` leaves alone -/
structure Eff where
  alt : Option Bool := none
  cv : Option Bool := none
  kp : Option Bool := none
  ck : Option Bool := none
  ss : Option Bool := none
  am : Option Bool := none
  m1000 : Option Bool := none
  m1002 : Option Bool := none
  m1003 : Option Bool := none
  m1006 : Option Bool := none
  paste : Option Bool := none
  focus : Option Bool := none
  shape : Option Nat := none
  colorReset : Bool := false
  ttl : List TOp := []
deriving DecidableEq, Repr

def runTtl (m : MR) : List TOp → MR
  | [] => m
  | .push :: r => runTtl m.push r
  | .pop :: r => runTtl m.pop r

/-- the part of an effect that is not about the title stack -/
def Eff.base (e : Eff) (m : MR) : MR :=
  { m with alt := e.alt.getD m.alt, cv := e.cv.getD m.cv, kpApp := e.kp.getD m.kpApp, ckApp := e.ck.getD m.ckApp,
           smooth := e.ss.getD m.smooth, am := e.am.getD m.am, m1000 := e.m1000.getD m.m1000, m1002 := e.m1002.getD m.m1002,
           m1003 := e.m1003.getD m.m1003, m1006 := e.m1006.getD m.m1006, paste := e.paste.getD m.paste,
           focus := e.focus.getD m.focus, shape := e.shape.getD m.shape,
           color := if e.colorReset then none else m.color, colorName := if e.colorReset then "" else m.colorName }

def Eff.apply (e : Eff) (m : MR) : MR := runTtl (e.base m) e.ttl

/-- `a` then `b` -/
def Eff.seq (a b : Eff) : Eff :=
  { alt := b.alt.orElse fun _ => a.alt, cv := b.cv.orElse fun _ => a.cv, kp := b.kp.orElse fun _ => a.kp,
    ck := b.ck.orElse fun _ => a.ck, ss := b.ss.orElse fun _ => a.ss, am := b.am.orElse fun _ => a.am,
    m1000 := b.m1000.orElse fun _ => a.m1000, m1002 := b.m1002.orElse fun _ => a.m1002,
    m1003 := b.m1003.orElse fun _ => a.m1003, m1006 := b.m1006.orElse fun _ => a.m1006,
    paste := b.paste.orElse fun _ => a.paste, focus := b.focus.orElse fun _ => a.focus,
    shape := b.shape.orElse fun _ => a.shape, colorReset := a.colorReset || b.colorReset, ttl := a.ttl ++ b.ttl }

theorem getD_orElse {α : Type} (a b : Option α) (d : α) : (b.orElse fun _ => a).getD d = b.getD (a.getD d) := by
  cases b <;> simp [Option.orElse]

theorem base_push (e : Eff) (m : MR) : (e.base m).push = e.base m.push := rfl
theorem base_pop (e : Eff) (m : MR) : (e.base m).pop = e.base m.pop := by
  unfold MR.pop
  cases h : m.tstack with
  | nil => simp [Eff.base, h]
  | cons s r => simp [Eff.base, h]

theorem runTtl_base (e : Eff) (l : List TOp) (m : MR) : runTtl (e.base m) l = e.base (runTtl m l) := by
  induction l generalizing m with
  | nil => rfl
  | cons o r ih =>
    cases o
    · simp only [runTtl]; rw [base_push, ih]
    · simp only [runTtl]; rw [base_pop, ih]

theorem runTtl_append (l1 l2 : List TOp) (m : MR) : runTtl m (l1 ++ l2) = runTtl (runTtl m l1) l2 := by
  induction l1 generalizing m with
  | nil => rfl
  | cons o r ih => cases o <;> simp only [List.cons_append, runTtl, ih]

theorem base_base (a b : Eff) (m : MR) : b.base (a.base m) = (a.seq b).base m := by
  cases hc1 : a.colorReset <;> cases hc2 : b.colorReset <;> simp [Eff.base, Eff.seq, hc1, hc2]

theorem seq_ttl (a b : Eff) : (a.seq b).ttl = a.ttl ++ b.ttl := rfl

/-- composition of effects is sequential application -/
theorem Eff.seq_apply (a b : Eff) (m : MR) : (a.seq b).apply m = b.apply (a.apply m) := by
  unfold Eff.apply
  rw [seq_ttl, runTtl_append, ← base_base, runTtl_base b a.ttl]

@[simp] theorem Eff.id_apply (m : MR) : ({} : Eff).apply m = m := rfl

def Eff.seqAll (l : List Eff) : Eff := l.foldl Eff.seq {}

/-! ## simulation of a byte string -/

/-- from ANY emulator state with the parser in the ground state, the string leaves the parser in the ground state
    and changes the mode registers by `f` -/
def Sim (s : Bytes) (f : MR → MR) : Prop :=
  ∀ t : Term, t.st = .ground → (t.feed s).st = .ground ∧ mr (t.feed s) = f (mr t)

theorem Sim.nil : Sim [] id := fun _ h => ⟨h, rfl⟩

theorem Sim.append {s1 s2 : Bytes} {f1 f2 : MR → MR} (h1 : Sim s1 f1) (h2 : Sim s2 f2) : Sim (s1 ++ s2) (f2 ∘ f1) := by
  intro t hst
  obtain ⟨a1, a2⟩ := h1 t hst
  obtain ⟨b1, b2⟩ := h2 _ a1
  rw [← feed_append]
  exact ⟨b1, by rw [b2, a2]; rfl⟩

theorem Sim.congr {s : Bytes} {f g : MR → MR} (h : Sim s f) (e : ∀ m, f m = g m) : Sim s g :=
  fun t hst => ⟨(h t hst).1, by rw [(h t hst).2, e]⟩

/-- a string after which parser state and registers are what they were -/
theorem Sim.of_keep {s : Bytes} (h : ∀ t : Term, t.st = .ground → Keep t (t.feed s)) : Sim s id :=
  fun t hst => ⟨(h t hst).1.trans hst, (h t hst).2⟩

/-! ## tokens -/

inductive Tok where
  | decset (n : Nat)          -- CSI ? n h
  | decrst (n : Nat)          -- CSI ? n l
  | escEq | escGt             -- ESC =  ESC >   (DECKPAM / DECKPNM)
  | esc7 | esc8               -- DECSC / DECRC
  | push0 | pop0              -- CSI 22;0;0 t   CSI 23;0;0 t
  | push2 | pop2              -- CSI 22;2 t     CSI 23;2 t
  | xtTitle                   -- CSI > 2 t
  | scusr (n : Nat)           -- CSI n SP q, n ≤ 6
  | osc112                    -- OSC 112 BEL
  | osc8close                 -- OSC 8 ; ; ST
  | csi (body : Bytes) (final : Nat)   -- any plain CSI sequence but `t`: SGR, CUP, ED, SM/RM, `CSI r` …
  | g0B | g1acs               -- ESC ( B   ESC ) 0
  | si | bel | ff             -- 0x0f 0x07 0x0c
  | linuxCur (n : Nat)        -- CSI ? n c
  | decsca                    -- CSI " q
  | print (b : Nat)           -- one printable ASCII byte
deriving DecidableEq, Repr

def Tok.bytes : Tok → Bytes
  | .decset n => csiSeq (0x3f :: dec n) 0x68
  | .decrst n => csiSeq (0x3f :: dec n) 0x6c
  | .escEq => [27, 61] | .escGt => [27, 62] | .esc7 => [27, 55] | .esc8 => [27, 56]
  | .push0 => [27, 91, 50, 50, 59, 48, 59, 48, 116]
  | .pop0 => [27, 91, 50, 51, 59, 48, 59, 48, 116]
  | .push2 => [27, 91, 50, 50, 59, 50, 116]
  | .pop2 => [27, 91, 50, 51, 59, 50, 116]
  | .xtTitle => [27, 91, 62, 50, 116]
  | .scusr n => [27, 91, 48 + n, 32, 113]
  | .osc112 => [27, 93, 49, 49, 50, 7]
  | .osc8close => [27, 93, 56, 59, 59, 27, 92]
  | .csi body final => csiSeq body final
  | .g0B => [27, 40, 66] | .g1acs => [27, 41, 48]
  | .si => [15] | .bel => [7] | .ff => [12]
  | .linuxCur n => csiSeq (0x3f :: dec n) 0x63
  | .decsca => [27, 91, 34, 113]
  | .print b => [b]

def numByte (b : Nat) : Bool := (decide (48 ≤ b) && decide (b ≤ 57)) || b == 0x3b || b == 0x3a

def Tok.wf : Tok → Bool
  | .scusr n => decide (n < 7)
  | .csi body final => body.all numByte && (parseParams body).isSome && decide (0x40 ≤ final) && decide (final ≤ 0x7e) &&
      decide (final ≠ 0x74)
  | .print b => decide (0x20 ≤ b) && decide (b < 0x7f)
  | _ => true

def decEff (n : Nat) (on : Bool) : Eff :=
  if n = 1 then { ck := some on }
  else if n = 4 then { ss := some on }
  else if n = 7 then { am := some on }
  else if n = 25 then { cv := some on }
  else if n = 47 ∨ n = 1049 then { alt := some on }
  else if n = 1000 then { m1000 := some on }
  else if n = 1002 then { m1002 := some on }
  else if n = 1003 then { m1003 := some on }
  else if n = 1004 then { focus := some on }
  else if n = 1006 then { m1006 := some on }
  else if n = 2004 then { paste := some on }
  else {}

def Tok.eff : Tok → Eff
  | .decset n => decEff n true
  | .decrst n => decEff n false
  | .escEq => { kp := some true }
  | .escGt => { kp := some false }
  | .push0 | .push2 => { ttl := [.push] }
  | .pop0 | .pop2 => { ttl := [.pop] }
  | .scusr n => { shape := some n }
  | .osc112 => { colorReset := true }
  | _ => {}

theorem decEff_apply (m : MR) (n : Nat) (on : Bool) : (decEff n on).apply m = m.dec n on := by
  by_cases h1 : n = 1
  · subst h1; rfl
  by_cases h4 : n = 4
  · subst h4; rfl
  by_cases h7 : n = 7
  · subst h7; rfl
  by_cases h25 : n = 25
  · subst h25; rfl
  by_cases h47 : n = 47
  · subst h47; rfl
  by_cases h1049 : n = 1049
  · subst h1049; rfl
  by_cases h1000 : n = 1000
  · subst h1000; rfl
  by_cases h1002 : n = 1002
  · subst h1002; rfl
  by_cases h1003 : n = 1003
  · subst h1003; rfl
  by_cases h1004 : n = 1004
  · subst h1004; rfl
  by_cases h1006 : n = 1006
  · subst h1006; rfl
  by_cases h2004 : n = 2004
  · subst h2004; rfl
  have h : ¬ (n = 47 ∨ n = 1049) := by omega
  unfold decEff MR.dec
  simp only [if_neg h1, if_neg h4, if_neg h7, if_neg h25, if_neg h, if_neg h1000, if_neg h1002,
    if_neg h1003, if_neg h1004, if_neg h1006, if_neg h2004]
  rfl

/-! ### per-token simulation -/

theorem esc_byte (t : Term) (hst : t.st = .ground) : t.feedByte 0x1b = { t with st := .esc } := by
  simp [feedByte, hst, feedGround, c0]

theorem sim_decset (n : Nat) (on : Bool) :
    Sim (csiSeq (0x3f :: dec n) (if on then 0x68 else 0x6c)) (decEff n on).apply := by
  intro t hst
  have e : t.feed (csiSeq (0x3f :: dec n) (if on then 0x68 else 0x6c)) = t.decMode n on := by
    cases on
    · exact decrst_effect t hst n
    · exact decset_effect t hst n
  rw [e, decMode_st, mr_decMode, decEff_apply]
  exact ⟨hst, rfl⟩

theorem sim_escEq : Sim [27, 61] (Eff.apply { kp := some true }) := by
  intro t hst
  have e : t.feed [27, 61] = { t with modes := { t.modes with keypadApp := true } } := by
    simp only [feed_cons, feed_nil, esc_byte t hst]
    simp [feedByte, feedEsc, hst]
  rw [e]; exact ⟨hst, rfl⟩

theorem sim_escGt : Sim [27, 62] (Eff.apply { kp := some false }) := by
  intro t hst
  have e : t.feed [27, 62] = { t with modes := { t.modes with keypadApp := false } } := by
    simp only [feed_cons, feed_nil, esc_byte t hst]
    simp [feedByte, feedEsc, hst]
  rw [e]; exact ⟨hst, rfl⟩

theorem sim_esc7 : Sim [27, 55] id := by
  intro t hst
  have e : t.feed [27, 55] = t.saveCursor := by
    have e2 : ({ t with st := .esc } : Term).feedByte 55 = ({ t with st := .ground } : Term).saveCursor := by
      simp [feedByte, feedEsc]
    simp only [feed_cons, feed_nil, esc_byte t hst, e2, with_ground t hst]
  rw [e]; exact ⟨hst, rfl⟩

theorem sim_esc8 : Sim [27, 56] id := by
  intro t hst
  have e : t.feed [27, 56] = t.restoreCursor := by
    have e2 : ({ t with st := .esc } : Term).feedByte 56 = ({ t with st := .ground } : Term).restoreCursor := by
      simp [feedByte, feedEsc]
    simp only [feed_cons, feed_nil, esc_byte t hst, e2, with_ground t hst]
  rw [e]; exact ⟨hst, rfl⟩

theorem feed_plain (t : Term) (hst : t.st = .ground) (body : List Nat) (final : Nat) (ps : List Param)
    (hbody : body.all numByte = true) (hfinal : 0x40 ≤ final ∧ final ≤ 0x7e) (hps : parseParams body = some ps) :
    t.feed (csiSeq body final) = dispatchPlain t ps final := by
  refine feed_csi_plain t hst body final ps ?_ hfinal hps
  intro b hb
  have := List.all_eq_true.mp hbody b hb
  simp only [numByte, Bool.or_eq_true, Bool.and_eq_true, decide_eq_true_eq, beq_iff_eq] at this
  rcases this with (h | h) | h
  · exact Or.inl h
  · exact Or.inr (Or.inl h)
  · exact Or.inr (Or.inr h)

theorem sim_push0 : Sim [27, 91, 50, 50, 59, 48, 59, 48, 116] (Eff.apply { ttl := [.push] }) := by
  intro t hst
  have := feed_plain t hst [50, 50, 59, 48, 59, 48] 0x74 [[some 22], [some 0], [some 0]] (by decide) (by omega) (by decide)
  simp only [csiSeq, List.cons_append, List.nil_append] at this
  rw [this]
  have e : dispatchPlain t [[some 22], [some 0], [some 0]] 0x74 = t.pushTitle := by simp [dispatchPlain, windowOp, flat]
  rw [e]; exact ⟨hst, rfl⟩

theorem sim_push2 : Sim [27, 91, 50, 50, 59, 50, 116] (Eff.apply { ttl := [.push] }) := by
  intro t hst
  have := feed_plain t hst [50, 50, 59, 50] 0x74 [[some 22], [some 2]] (by decide) (by omega) (by decide)
  simp only [csiSeq, List.cons_append, List.nil_append] at this
  rw [this]
  have e : dispatchPlain t [[some 22], [some 2]] 0x74 = t.pushTitle := by simp [dispatchPlain, windowOp, flat]
  rw [e]; exact ⟨hst, rfl⟩

theorem sim_pop0 : Sim [27, 91, 50, 51, 59, 48, 59, 48, 116] (Eff.apply { ttl := [.pop] }) := by
  intro t hst
  have := feed_plain t hst [50, 51, 59, 48, 59, 48] 0x74 [[some 23], [some 0], [some 0]] (by decide) (by omega) (by decide)
  simp only [csiSeq, List.cons_append, List.nil_append] at this
  rw [this]
  have e : dispatchPlain t [[some 23], [some 0], [some 0]] 0x74 = t.popTitle := by simp [dispatchPlain, windowOp, flat]
  rw [e, st_popTitle, mr_popTitle]; exact ⟨hst, rfl⟩

theorem sim_pop2 : Sim [27, 91, 50, 51, 59, 50, 116] (Eff.apply { ttl := [.pop] }) := by
  intro t hst
  have := feed_plain t hst [50, 51, 59, 50] 0x74 [[some 23], [some 2]] (by decide) (by omega) (by decide)
  simp only [csiSeq, List.cons_append, List.nil_append] at this
  rw [this]
  have e : dispatchPlain t [[some 23], [some 2]] 0x74 = t.popTitle := by simp [dispatchPlain, windowOp, flat]
  rw [e, st_popTitle, mr_popTitle]; exact ⟨hst, rfl⟩

theorem feed_csi_list (t : Term) (hst : t.st = .ground) (body : List Nat) (final : Nat)
    (hbody : body.all (fun b => decide (0x20 ≤ b) && decide (b ≤ 0x3f)) = true) (hfinal : 0x40 ≤ final ∧ final ≤ 0x7e) :
    t.feed (csiSeq body final) = dispatchCsi t body final := by
  refine feed_csi t hst body final ?_ hfinal
  intro b hb
  have := List.all_eq_true.mp hbody b hb
  simpa using this

theorem sim_xtTitle : Sim [27, 91, 62, 50, 116] id := by
  intro t hst
  have := feed_csi_list t hst [62, 50] 0x74 (by decide) (by omega)
  simp only [csiSeq, List.cons_append, List.nil_append] at this
  rw [this]
  have hp : parseCsiBody [62, 50] = some { priv := 62, params := [[some 2]], inter := [] } := by decide
  have e : dispatchCsi t [62, 50] 0x74 = { t with modes := { t.modes with titleModes2 := true } } := by
    simp [dispatchCsi, hp]
  rw [e]; exact ⟨hst, rfl⟩

theorem sim_decsca : Sim [27, 91, 34, 113] id := by
  intro t hst
  have := feed_csi_list t hst [34] 0x71 (by decide) (by omega)
  simp only [csiSeq, List.cons_append, List.nil_append] at this
  rw [this]
  have hp : parseCsiBody [34] = some { priv := 0, params := [[none]], inter := [34] } := by decide
  have e : dispatchCsi t [34] 0x71 = t := by
    simp [dispatchCsi, hp, flat, arg]
  rw [e]; exact ⟨hst, rfl⟩

theorem sim_scusr (n : Nat) (hn : n < 7) : Sim [27, 91, 48 + n, 32, 113] (Eff.apply { shape := some n }) := by
  intro t hst
  have := feed_csi_list t hst [48 + n, 32] 0x71 (by
    simp only [List.all_cons, List.all_nil, Bool.and_true, Bool.and_eq_true, decide_eq_true_eq]; omega) (by omega)
  simp only [csiSeq, List.cons_append, List.nil_append] at this
  rw [this]
  have hp : parseCsiBody [48 + n, 32] = some { priv := 0, params := [[some n]], inter := [32] } := by
    have : n = 0 ∨ n = 1 ∨ n = 2 ∨ n = 3 ∨ n = 4 ∨ n = 5 ∨ n = 6 := by omega
    rcases this with rfl | rfl | rfl | rfl | rfl | rfl | rfl <;> decide
  have hn' : n ≤ 6 := by omega
  have e : dispatchCsi t [48 + n, 32] 0x71 = { t with modes := { t.modes with cursorShape := n } } := by
    simp [dispatchCsi, hp, flat, arg, hn']
  rw [e]; exact ⟨hst, rfl⟩

theorem sim_osc112 : Sim [27, 93, 49, 49, 50, 7] (Eff.apply { colorReset := true }) := by
  intro t hst
  have := feed_osc_bel t hst [49, 49, 50] (by
    intro b hb
    simp only [List.mem_cons, List.not_mem_nil, or_false] at hb
    rcases hb with h | h | h <;> subst h <;> simp)
  simp only [List.cons_append, List.nil_append] at this
  rw [this]
  have h1 : splitFirst [49, 49, 50] = ([49, 49, 50], none) := by decide
  have e : dispatchOsc t [49, 49, 50] = { t with modes := { t.modes with cursorColor := none, cursorColorName := "" } } := by
    simp [dispatchOsc, h1, isDigit, parseNat]
  rw [e]; exact ⟨hst, rfl⟩

theorem sim_osc8close : Sim [27, 93, 56, 59, 59, 27, 92] id := by
  intro t hst
  rw [osc8_close_effect t hst]; exact ⟨hst, rfl⟩

theorem sim_csi (body : Bytes) (final : Nat) (h : (Tok.csi body final).wf = true) : Sim (csiSeq body final) id := by
  simp only [Tok.wf, Bool.and_eq_true, decide_eq_true_eq] at h
  obtain ⟨⟨⟨⟨h1, h2⟩, h3⟩, h4⟩, h5⟩ := h
  obtain ⟨ps, hps⟩ := Option.isSome_iff_exists.mp h2
  refine Sim.of_keep fun t hst => ?_
  rw [feed_plain t hst body final ps h1 ⟨h3, h4⟩ hps]
  exact keep_dispatchPlain t ps final h5

theorem sim_g0B : Sim [27, 40, 66] id := by
  intro t hst
  have e : t.feed [27, 40, 66] = { t with modes := { t.modes with acsG0 := false } } := by
    simp only [feed_cons, feed_nil, esc_byte t hst]
    simp [feedByte, feedEsc, feedEscInter, hst]
  rw [e]; exact ⟨hst, rfl⟩

theorem sim_g1acs : Sim [27, 41, 48] id := by
  intro t hst
  have e : t.feed [27, 41, 48] = { t with modes := { t.modes with acsG1 := true } } := by
    simp only [feed_cons, feed_nil, esc_byte t hst]
    simp [feedByte, feedEsc, feedEscInter, hst]
  rw [e]; exact ⟨hst, rfl⟩

theorem sim_si : Sim [15] id := by
  intro t hst
  have e : t.feed [15] = { t with modes := { t.modes with shiftOut := false } } := by
    simp [feedByte, hst, feedGround, c0]
  rw [e]; exact ⟨hst, rfl⟩

theorem sim_bel : Sim [7] id := by
  intro t hst
  have e : t.feed [7] = { t with modes := { t.modes with bells := t.modes.bells + 1 } } := by
    simp [feedByte, hst, feedGround, c0]
  rw [e]; exact ⟨hst, rfl⟩

theorem sim_ff : Sim [12] id := by
  refine Sim.of_keep fun t hst => ?_
  have e : t.feed [12] = if t.cfg.ffClears = true then t.clearHome else t.complain ("c0 " ++ hex2 12) := by
    simp [feedByte, hst, feedGround, c0]
  rw [e]; split
  · exact ⟨rfl, rfl⟩
  · exact keep_complain _ _

theorem sim_linuxCur (n : Nat) : Sim (csiSeq (0x3f :: dec n) 0x63) id := by
  intro t hst
  have hps : parseParams (dec n) = some [[some n]] := by
    rw [parseParams_last _ (semi_not_mem_dec _), parseParam_dec]; rfl
  rw [feed_csi t hst _ 0x63 (fun b hb => by
    rcases List.mem_cons.mp hb with h | h
    · omega
    · have := dec_digits n b h; omega) (by omega)]
  have e : dispatchCsi t (0x3f :: dec n) 0x63 = { t with modes := { t.modes with linuxCursor := [n] } } := by
    simp [dispatchCsi, parseCsiBody_private _ (numeric_dec n), hps, flat]
  rw [e]; exact ⟨hst, rfl⟩

theorem sim_print (b : Nat) (h : (Tok.print b).wf = true) : Sim [b] id := by
  simp only [Tok.wf, Bool.and_eq_true, decide_eq_true_eq] at h
  refine Sim.of_keep fun t hst => ?_
  have h1 : ¬ b < 0x20 := by omega
  have h2 : b ≠ 0x7f := by omega
  have h3 : b < 0x80 := by omega
  have e : t.feed [b] = t.printByte b := by simp [feedByte, hst, feedGround, h1, h2, h3]
  rw [e]; exact keep_printByte t b

/-- **every well-formed token does to the emulator's mode registers what its `Eff` says, from any ground state** -/
theorem Tok.sim (k : Tok) (h : k.wf = true) : Sim k.bytes k.eff.apply := by
  cases k with
  | decset n => exact sim_decset n true
  | decrst n => exact sim_decset n false
  | escEq => exact sim_escEq
  | escGt => exact sim_escGt
  | esc7 => exact sim_esc7
  | esc8 => exact sim_esc8
  | push0 => exact sim_push0
  | pop0 => exact sim_pop0
  | push2 => exact sim_push2
  | pop2 => exact sim_pop2
  | xtTitle => exact sim_xtTitle
  | scusr n => exact sim_scusr n (by simpa [Tok.wf] using h)
  | osc112 => exact sim_osc112
  | osc8close => exact sim_osc8close
  | csi body final => exact sim_csi body final h
  | g0B => exact sim_g0B
  | g1acs => exact sim_g1acs
  | si => exact sim_si
  | bel => exact sim_bel
  | ff => exact sim_ff
  | linuxCur n => exact sim_linuxCur n
  | decsca => exact sim_decsca
  | print b => exact sim_print b h

def toks (l : List Tok) : Bytes := l.flatMap Tok.bytes
def effOf (l : List Tok) : Eff := l.foldl (fun (e : Eff) (k : Tok) => e.seq k.eff) {}

theorem foldl_seq_apply (l : List Tok) (e : Eff) (m : MR) :
    (l.foldl (fun (e : Eff) (k : Tok) => e.seq k.eff) e).apply m = (l.foldl (fun (e : Eff) (k : Tok) => e.seq k.eff) {}).apply (e.apply m) := by
  induction l generalizing e m with
  | nil => rfl
  | cons k r ih =>
    simp only [List.foldl_cons]
    rw [ih (e.seq k.eff), ih (Eff.seq {} k.eff), Eff.seq_apply, Eff.seq_apply]
    rfl

/-- **token lists compose** -/
theorem toks_sim : ∀ (l : List Tok), l.all Tok.wf = true → Sim (toks l) (effOf l).apply := by
  intro l
  induction l with
  | nil => intro _; exact Sim.nil
  | cons k r ih =>
    intro h
    simp only [List.all_cons, Bool.and_eq_true] at h
    have h1 := Tok.sim k h.1
    have h2 := ih h.2
    have : toks (k :: r) = k.bytes ++ toks r := by simp [toks]
    rw [this]
    refine (h1.append h2).congr fun m => ?_
    show (effOf r).apply (k.eff.apply m) = (effOf (k :: r)).apply m
    unfold effOf
    rw [List.foldl_cons, foldl_seq_apply r (Eff.seq {} k.eff), Eff.seq_apply]
    rfl

/-! ## an (untrusted) tokenizer -/

def pbyte (b : Nat) : Bool := decide (0x20 ≤ b) && decide (b ≤ 0x3f)

def tokCsi (body : Bytes) (final : Nat) : Option Tok :=
  match body with
  | 63 :: ds =>
    if ds.all isDigit && !ds.isEmpty then
      (if final = 104 then some (.decset (parseNat ds)) else if final = 108 then some (.decrst (parseNat ds))
       else if final = 99 then some (.linuxCur (parseNat ds)) else none)
    else none
  | _ =>
    if body = [62, 50] then (if final = 116 then some .xtTitle else none)
    else if body = [34] then (if final = 113 then some .decsca else none)
    else if body.length = 2 ∧ body.getD 1 0 = 32 then
      (if final = 113 then some (.scusr (body.getD 0 0 - 48)) else none)
    else if final = 116 then
      (if body = [50, 50, 59, 48, 59, 48] then some .push0 else if body = [50, 51, 59, 48, 59, 48] then some .pop0
       else if body = [50, 50, 59, 50] then some .push2 else if body = [50, 51, 59, 50] then some .pop2 else none)
    else some (.csi body final)

def tokenizeAux : Nat → Bytes → Option (List Tok)
  | _, [] => some []
  | 0, _ => none
  | f + 1, b :: rest =>
    if b = 27 then
      match rest with
      | 91 :: r =>
        (match r.dropWhile pbyte with
         | final :: r' => (tokCsi (r.takeWhile pbyte) final).bind fun k => (tokenizeAux f r').map (k :: ·)
         | [] => none)
      | 93 :: 49 :: 49 :: 50 :: 7 :: r => (tokenizeAux f r).map (Tok.osc112 :: ·)
      | 93 :: 56 :: 59 :: 59 :: 27 :: 92 :: r => (tokenizeAux f r).map (Tok.osc8close :: ·)
      | 61 :: r => (tokenizeAux f r).map (Tok.escEq :: ·)
      | 62 :: r => (tokenizeAux f r).map (Tok.escGt :: ·)
      | 55 :: r => (tokenizeAux f r).map (Tok.esc7 :: ·)
      | 56 :: r => (tokenizeAux f r).map (Tok.esc8 :: ·)
      | 40 :: 66 :: r => (tokenizeAux f r).map (Tok.g0B :: ·)
      | 41 :: 48 :: r => (tokenizeAux f r).map (Tok.g1acs :: ·)
      | _ => none
    else if b = 15 then (tokenizeAux f rest).map (Tok.si :: ·)
    else if b = 7 then (tokenizeAux f rest).map (Tok.bel :: ·)
    else if b = 12 then (tokenizeAux f rest).map (Tok.ff :: ·)
    else if 0x20 ≤ b ∧ b < 0x7f then (tokenizeAux f rest).map (Tok.print b :: ·)
    else none

def tokenize (s : Bytes) : Option (List Tok) := tokenizeAux (s.length + 1) s

/-- the checked result of tokenizing: `some e` only if the string IS a list of well-formed tokens with total effect `e` -/
def effOfBytes (s : Bytes) : Option Eff :=
  match tokenize s with
  | some l => if toks l == s && l.all Tok.wf then some (effOf l) else none
  | none => none

/-- **a string that tokenizes has the computed effect on the emulator, from any ground state** -/
theorem effOfBytes_sim (s : Bytes) (e : Eff) (h : effOfBytes s = some e) : Sim s e.apply := by
  unfold effOfBytes at h
  split at h
  · rename_i l _
    split at h
    · rename_i hc
      simp only [Bool.and_eq_true, beq_iff_eq] at hc
      cases h
      rw [← hc.1]
      exact toks_sim l hc.2
    · cases h
  · cases h

end Tcell.ModesB
