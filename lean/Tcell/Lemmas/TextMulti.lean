import Tcell.Lemmas.TextMarkers
/-
C11: the multi-byte decoder model `decMulti atEOF T`.  With `atEOF = false` (the repaired call) every character of a
well-formed, prefix-free table obeys the codec laws; with `atEOF = true` (the pinned call, tscreen.go:1721) the law
`short` fails for EVERY character longer than one byte: the lone lead byte is answered with U+FFFD / one byte consumed.
Single-byte tables (`decTable`) obey the laws trivially.
-/
namespace Tcell.Lemmas.Text
open Tcell Tcell.Model Tcell.Lemmas.PrefixFree

/-- shape of the entries: first byte ≥ 0x80, 1..4 bytes, rune printable and not U+FFFD -/
def mbOk (T : MbTable) : Bool :=
  T.all (fun e => (match e.1 with | b0 :: _ => Nat.ble 128 b0 | [] => false) && Nat.ble e.1.length 4 &&
    decide (32 ≤ e.2 ∧ e.2 ≠ 127 ∧ e.2 ≠ runeError))

/-- no encoding is a prefix of another entry's encoding (in particular encodings are distinct) -/
def MbPrefixFree (T : MbTable) : Prop := ∀ a ∈ T, ∀ b ∈ T, hasPrefix a.1 b.1 = true → a = b

instance (T : MbTable) : Decidable (MbPrefixFree T) := by unfold MbPrefixFree; exact inferInstance

theorem mbOk_entry (T : MbTable) (h : mbOk T = true) (e : Bytes × Int) (he : e ∈ T) :
    (∃ b0 t, e.1 = b0 :: t ∧ 128 ≤ b0) ∧ e.1.length ≤ 4 ∧ (32 ≤ e.2 ∧ e.2 ≠ 127 ∧ e.2 ≠ runeError) := by
  have := (List.all_eq_true.mp h) e he
  simp only [Bool.and_eq_true, decide_eq_true_eq] at this
  obtain ⟨⟨h1, h2⟩, h3⟩ := this
  refine ⟨?_, Nat.le_of_ble_eq_true h2, h3⟩
  cases hs : e.1 with
  | nil => rw [hs] at h1; cases h1
  | cons b0 t => rw [hs] at h1; exact ⟨b0, t, rfl, Nat.le_of_ble_eq_true h1⟩

theorem find_whole (T : MbTable) (hpf : MbPrefixFree T) (e : Bytes × Int) (he : e ∈ T) :
    T.find? (fun x => hasPrefix e.1 x.1) = some e := by
  cases h : T.find? (fun x => hasPrefix e.1 x.1) with
  | none =>
    have := List.find?_eq_none.mp h e he
    simp [hasPrefix_refl] at this
  | some x =>
    have hx : x ∈ T := List.mem_of_find?_eq_some h
    have hp : hasPrefix e.1 x.1 = true := by simpa using List.find?_some h
    rw [hpf e he x hx hp]

theorem find_piece (T : MbTable) (hpf : MbPrefixFree T) (e : Bytes × Int) (he : e ∈ T) (l : Nat) (hl : l < e.1.length) :
    T.find? (fun x => hasPrefix (e.1.take l) x.1) = none := by
  cases h : T.find? (fun x => hasPrefix (e.1.take l) x.1) with
  | none => rfl
  | some x =>
    have hx : x ∈ T := List.mem_of_find?_eq_some h
    have hp : hasPrefix (e.1.take l) x.1 = true := by simpa using List.find?_some h
    have h2 := hasPrefix_trans e.1 (e.1.take l) x.1 (hasPrefix_take _ _) hp
    have := hpf e he x hx h2
    subst this
    have := hasPrefix_length _ _ hp
    simp at this; omega

theorem any_piece (T : MbTable) (e : Bytes × Int) (he : e ∈ T) (l : Nat) :
    T.any (fun x => hasPrefix x.1 (e.1.take l)) = true :=
  List.any_eq_true.mpr ⟨e, he, hasPrefix_take _ _⟩

theorem take_cons_pos (b0 : Nat) (t : Bytes) (l : Nat) (h : 0 < l) : (b0 :: t).take l = b0 :: t.take (l - 1) := by
  cases l with
  | zero => omega
  | succ l' => simp

/-- the repaired call: every character of the table obeys the codec laws -/
theorem decMulti_codecChar (T : MbTable) (hok : mbOk T = true) (hpf : MbPrefixFree T) (e : Bytes × Int) (he : e ∈ T) :
    CodecChar (decMulti false T) e := by
  obtain ⟨⟨b0, t, hs, hb⟩, h4, hpr⟩ := mbOk_entry T hok e he
  refine ⟨⟨b0, t, hs, hb⟩, h4, ?_, ?_, hpr⟩
  · have hne : ¬ b0 < 128 := by omega
    have := find_whole T hpf e he
    unfold decMulti
    rw [hs] at this ⊢
    simp only [hne, if_false, this]
    rw [hs]
  · intro l h0 hl
    left
    have h1 := find_piece T hpf e he l hl
    have h2 := any_piece T e he l
    have hne : ¬ b0 < 128 := by omega
    unfold decMulti
    rw [hs, take_cons_pos b0 t l h0] at h1 h2 ⊢
    simp only [hne, if_false, h1, h2, if_true]
    rfl

/-- the pinned call: for every character of two or more bytes the decoder, given only the lead byte, answers with
U+FFFD and consumes the byte — the law `short` is violated, `parseRune` drops the lead byte -/
theorem decMulti_atEOF_lead (T : MbTable) (hok : mbOk T = true) (hpf : MbPrefixFree T) (e : Bytes × Int) (he : e ∈ T)
    (h2 : 2 ≤ e.1.length) : decMulti true T (e.1.take 1) = .out runeError 1 := by
  obtain ⟨⟨b0, t, hs, hb⟩, _, _⟩ := mbOk_entry T hok e he
  have h1 := find_piece T hpf e he 1 (by omega)
  have h2 := any_piece T e he 1
  have hne : ¬ b0 < 128 := by omega
  unfold decMulti
  rw [hs, take_cons_pos b0 t 1 (by omega)] at h1 h2 ⊢
  simp only [hne, if_false, h1, h2, if_true]

/-- single-byte charsets: a high byte mapped to a printable rune obeys the codec laws -/
theorem decTable_codecChar (tbl : List Int) (b : Nat) (hb : 128 ≤ b)
    (hr : 32 ≤ tbl.getD (b - 128) runeError ∧ tbl.getD (b - 128) runeError ≠ 127 ∧ tbl.getD (b - 128) runeError ≠ runeError) :
    CodecChar (decTable tbl) ([b], tbl.getD (b - 128) runeError) := by
  refine ⟨⟨b, [], rfl, hb⟩, by simp, ?_, ?_, hr⟩
  · have : ¬ b < 128 := by omega
    simp [decTable, this]
  · intro l h0 hl
    simp at hl
    omega

end Tcell.Lemmas.Text
