import Tcell.Lemmas.ChunkMono
/-
C02, loop layer: from per-parser prefix monotonicity (`Mono`) and priority stability (`Prio`: an earlier parser that
was partial does not overtake a later parser that completed) to one iteration of the main loop (`step1_mono`) and to
`collect` (`collect_append`), for an arbitrary list of parsers first, then for `parsers cfg` under `Stable cfg`.
-/
namespace Tcell.Lemmas.Chunk
open Tcell Tcell.Model Tcell.Lemmas.Collect Tcell.Lemmas.PrefixFree Tcell.Lemmas.MouseSeq

/-! ### `tryParsers` in closed form -/

/-- the first verdict in parser order that is `complete` or `ambiguous` -/
def firstHit (st : PState) (b : Bytes) : List Parser → Option Verdict
  | [] => none
  | p :: ps =>
    match p st b with
    | .complete n evs st' => some (.complete n evs st')
    | .ambiguous => some .ambiguous
    | _ => firstHit st b ps

/-- some parser reports partial -/
def anyPart (st : PState) (b : Bytes) (ps : List Parser) : Bool := ps.any (fun p => p st b == .part)

theorem tryParsers_eq (st : PState) (b : Bytes) (e : Bool) : ∀ (ps : List Parser) (k : Nat),
    tryParsers st b e ps k =
      match firstHit st b ps with
      | some (.complete n evs st') => .emit evs st' (b.drop n)
      | some _ => .ambiguous
      | none => if (k = 0 ∧ anyPart st b ps = false) ∨ e then fallThrough st b else .wait := by
  intro ps
  induction ps with
  | nil => intro k; simp [tryParsers, firstHit, anyPart]
  | cons p ps ih =>
    intro k
    unfold tryParsers firstHit
    cases hp : p st b with
    | complete n evs st' => simp
    | ambiguous => simp
    | part =>
      simp only [ih (k + 1)]
      have : anyPart st b (p :: ps) = true := by simp [anyPart, hp]
      simp [this]
    | reject =>
      simp only [ih k]
      have : anyPart st b (p :: ps) = anyPart st b ps := by simp [anyPart, hp]
      simp [this]

theorem firstHit_complete_mem (st : PState) (b : Bytes) (n : Nat) (evs : List Event) (st' : PState) :
    ∀ ps : List Parser, firstHit st b ps = some (.complete n evs st') → ∃ q ∈ ps, q st b = .complete n evs st' := by
  intro ps
  induction ps with
  | nil => intro h; simp [firstHit] at h
  | cons p ps ih =>
    intro h
    unfold firstHit at h
    cases hp : p st b with
    | complete n1 evs1 st1 =>
      rw [hp] at h
      simp at h
      exact ⟨p, by simp, by rw [hp, h.1, h.2.1, h.2.2]⟩
    | ambiguous => rw [hp] at h; simp at h
    | part => rw [hp] at h; obtain ⟨q, hq, hc⟩ := ih h; exact ⟨q, by simp [hq], hc⟩
    | reject => rw [hp] at h; obtain ⟨q, hq, hc⟩ := ih h; exact ⟨q, by simp [hq], hc⟩

/-! ### priority stability -/

/-- `p` (tried earlier) was partial on `a` while `q` (tried later) completed on `a`: then `p` neither completes nor
is order dependent on the longer buffer, so `q` still wins -/
def Prio (st : PState) (a b : Bytes) (p q : Parser) : Prop :=
  p st a = .part → (∃ n evs st', q st a = .complete n evs st') → Silent (p st (a ++ b))

theorem firstHit_mono (st : PState) (a b : Bytes) (ha : a ≠ []) (n : Nat) (evs : List Event) (st' : PState) :
    ∀ ps : List Parser, (∀ p ∈ ps, Mono p) → ps.Pairwise (Prio st a b) →
      firstHit st a ps = some (.complete n evs st') → firstHit st (a ++ b) ps = some (.complete n evs st') := by
  intro ps
  induction ps with
  | nil => intro _ _ h; simp [firstHit] at h
  | cons p ps ih =>
    intro hm hpw h
    have hpw' := List.pairwise_cons.mp hpw
    have ihh := ih (fun q hq => hm q (by simp [hq])) hpw'.2
    unfold firstHit at h
    cases hp : p st a with
    | complete n1 evs1 st1 =>
      rw [hp] at h
      simp at h
      have := (hm p (by simp)).complete st a b n1 evs1 st1 hp
      unfold firstHit
      rw [this, h.1, h.2.1, h.2.2]
    | ambiguous => rw [hp] at h; simp at h
    | reject =>
      rw [hp] at h
      have := (hm p (by simp)).reject st a b ha hp
      unfold firstHit
      rw [this]
      exact ihh h
    | part =>
      rw [hp] at h
      obtain ⟨q, hq, hc⟩ := firstHit_complete_mem st a n evs st' ps h
      have hs : Silent (p st (a ++ b)) := hpw'.1 q hq hp ⟨n, evs, st', hc⟩
      unfold firstHit
      rcases hs with hs | hs <;> (rw [hs]; exact ihh h)

theorem firstHit_none_all (st : PState) (b : Bytes) : ∀ ps : List Parser, firstHit st b ps = none → anyPart st b ps = false →
    ∀ p ∈ ps, p st b = .reject := by
  intro ps
  induction ps with
  | nil => intro _ _ p hp; cases hp
  | cons q ps ih =>
    intro h hap p hp
    unfold firstHit at h
    simp only [anyPart, List.any_cons, Bool.or_eq_false_iff] at hap
    cases hq : q st b with
    | complete n evs st' => rw [hq] at h; simp at h
    | ambiguous => rw [hq] at h; simp at h
    | part => rw [hq] at hap; simp at hap
    | reject =>
      rw [hq] at h
      rcases List.mem_cons.mp hp with rfl | hp'
      · exact hq
      · exact ih h hap.2 p hp'

theorem firstHit_all_reject (st : PState) (b : Bytes) : ∀ ps : List Parser, (∀ p ∈ ps, p st b = .reject) →
    firstHit st b ps = none ∧ anyPart st b ps = false := by
  intro ps
  induction ps with
  | nil => intro _; simp [firstHit, anyPart]
  | cons q ps ih =>
    intro h
    have hq := h q (by simp)
    have := ih (fun p hp => h p (by simp [hp]))
    unfold firstHit
    simp only [anyPart, List.any_cons]
    rw [hq]
    refine ⟨this.1, ?_⟩
    have h2 := this.2
    simp only [anyPart] at h2
    simp [h2]

/-- **one iteration is prefix-monotone** (generic parser list): if, without a timeout, the loop body emitted on `a`,
it emits the same events and state on `a ++ b` (with or without timeout) and leaves `b` appended to the rest -/
theorem tryParsers_mono (st : PState) (a b : Bytes) (ha : a ≠ []) (ps : List Parser) (hm : ∀ p ∈ ps, Mono p)
    (hpw : ps.Pairwise (Prio st a b)) (hesc : a = [27] → anyPart st a ps = true)
    (evs : List Event) (st' : PState) (rest : Bytes) (e : Bool)
    (h : tryParsers st a false ps 0 = .emit evs st' rest) :
    tryParsers st (a ++ b) e ps 0 = .emit evs st' (rest ++ b) := by
  rw [tryParsers_eq] at h ⊢
  cases hf : firstHit st a ps with
  | some v =>
    rw [hf] at h
    cases v with
    | complete n evs1 st1 =>
      simp only at h
      have hq := firstHit_complete_mem st a n evs1 st1 ps hf
      obtain ⟨q, hqm, hqc⟩ := hq
      have hb := (hm q hqm).bound st a n evs1 st1 hqc
      rw [firstHit_mono st a b ha n evs1 st1 ps hm hpw hf]
      simp only
      injection h with h1 h2 h3
      rw [h1, h2, ← h3, List.drop_append_of_le_length hb.2]
    | part => simp at h
    | reject => simp at h
    | ambiguous => simp at h
  | none =>
    rw [hf] at h
    simp only [Bool.false_eq_true, or_false, true_and] at h
    cases hap : anyPart st a ps with
    | true => simp [hap] at h
    | false =>
      simp only [hap, if_true] at h
      have hall := firstHit_none_all st a ps hf hap
      have hall' : ∀ p ∈ ps, p st (a ++ b) = .reject := fun p hp => (hm p hp).reject st a b ha (hall p hp)
      obtain ⟨h1, h2⟩ := firstHit_all_reject st (a ++ b) ps hall'
      rw [h1]
      simp only [h2, true_and, true_or, if_true]
      -- the fall-through consumes one byte
      cases a with
      | nil => exact absurd rfl ha
      | cons c t =>
        simp only [List.cons_append]
        unfold fallThrough at h ⊢
        by_cases hc : c = 27
        · subst hc
          simp only [if_true] at h ⊢
          cases t with
          | nil => rw [hesc rfl] at hap; cases hap
          | cons d t' =>
            simp only [List.cons_append] at h ⊢
            injection h with h1 h2 h3
            subst h1; subst h2; subst h3; rfl
        · simp only [hc, if_false] at h ⊢
          injection h with h1 h2 h3
          subst h1; subst h2; subst h3; rfl

/-! ### `collect`: fuel and unfolding -/

/-- every productive iteration strictly shortens the buffer -/
def Progress (cfg : Cfg) : Prop :=
  ∀ st b e evs st' rest, b ≠ [] → step1 cfg st b e = .emit evs st' rest → rest.length < b.length

theorem fallThrough_progress (st : PState) (b : Bytes) (evs : List Event) (st' : PState) (rest : Bytes)
    (h : fallThrough st b = .emit evs st' rest) : rest.length < b.length := by
  cases b with
  | nil => simp [fallThrough] at h
  | cons c t =>
    unfold fallThrough at h
    by_cases hc : c = 27
    · simp only [hc, if_true] at h
      cases t with
      | nil => injection h with _ _ h3; rw [← h3]; simp
      | cons d t' => injection h with _ _ h3; rw [← h3]; simp
    · simp only [hc, if_false] at h
      injection h with _ _ h3; rw [← h3]; simp

theorem progress_of_mono (cfg : Cfg) (hm : ∀ p ∈ parsers cfg, Mono p) : Progress cfg := by
  intro st b e evs st' rest hb h
  unfold step1 at h
  rw [tryParsers_eq] at h
  cases hf : firstHit st b (parsers cfg) with
  | some v =>
    rw [hf] at h
    cases v with
    | complete n evs1 st1 =>
      simp only at h
      obtain ⟨q, hqm, hqc⟩ := firstHit_complete_mem st b n evs1 st1 _ hf
      have hbd := (hm q hqm).bound st b n evs1 st1 hqc
      injection h with _ _ h3
      rw [← h3, List.length_drop]; omega
    | part => simp at h
    | reject => simp at h
    | ambiguous => simp at h
  | none =>
    rw [hf] at h
    simp only at h
    split at h
    · exact fallThrough_progress st b evs st' rest h
    · cases h

/-- prepend events to a result -/
def Collected.cons (evs : List Event) (r : Collected) : Collected := { r with evs := evs ++ r.evs }

theorem collectAux_fuel (cfg : Cfg) (hp : Progress cfg) (e : Bool) : ∀ (fuel : Nat) (st : PState) (b : Bytes),
    b.length ≤ fuel → collectAux cfg e fuel st b = collectAux cfg e b.length st b := by
  intro fuel
  induction fuel using Nat.strongRecOn with
  | _ fuel ih =>
    intro st b hb
    cases b with
    | nil => rw [collectAux_nil, collectAux_nil]
    | cons c t =>
      cases fuel with
      | zero => simp at hb
      | succ f =>
        simp only [List.length_cons]
        unfold collectAux
        simp only
        cases hs : step1 cfg st (c :: t) e with
        | wait => rfl
        | ambiguous => rfl
        | emit evs st' rest =>
          simp only
          have hlt := hp st (c :: t) e evs st' rest (by simp) hs
          simp only [List.length_cons] at hlt
          have hb' : t.length ≤ f := by simp only [List.length_cons] at hb; omega
          have h1 := ih f (by omega) st' rest (by omega)
          have h2 := ih t.length (by omega) st' rest (by omega)
          rw [h1, h2]

theorem collect_nil (cfg : Cfg) (st : PState) (e : Bool) : collect cfg st [] e = ⟨[], st, [], false⟩ := rfl

theorem collect_emit (cfg : Cfg) (hp : Progress cfg) (st : PState) (b : Bytes) (hb : b ≠ []) (e : Bool)
    (evs : List Event) (st' : PState) (rest : Bytes) (h : step1 cfg st b e = .emit evs st' rest) :
    collect cfg st b e = Collected.cons evs (collect cfg st' rest e) := by
  cases b with
  | nil => exact absurd rfl hb
  | cons c t =>
    have hlt := hp st (c :: t) e evs st' rest hb h
    simp only [List.length_cons] at hlt
    unfold collect
    simp only [List.length_cons]
    rw [collectAux_emit cfg e t.length st st' c t rest evs h, collectAux_fuel cfg hp e t.length st' rest (by omega)]
    rfl

theorem collect_wait (cfg : Cfg) (st : PState) (b : Bytes) (e : Bool) (h : step1 cfg st b e = .wait) :
    collect cfg st b e = ⟨[], st, b, false⟩ := by
  cases b with
  | nil => rfl
  | cons c t => unfold collect; simp [collectAux, h]

theorem collect_ambiguous (cfg : Cfg) (st : PState) (b : Bytes) (hb : b ≠ []) (e : Bool) (h : step1 cfg st b e = .ambiguous) :
    collect cfg st b e = ⟨[], st, b, true⟩ := by
  cases b with
  | nil => exact absurd rfl hb
  | cons c t => unfold collect; simp [collectAux, h]

/-- sequential composition of two reads: what the screen's main loop does with two chunks -/
def feed2 (cfg : Cfg) (st : PState) (a b : Bytes) (e : Bool) : Collected :=
  let r1 := collect cfg st a false
  let r2 := collect cfg r1.st (r1.rest ++ b) e
  ⟨r1.evs ++ r2.evs, r2.st, r2.rest, r2.amb⟩

/-- the step-level hypothesis the chunking theorem needs -/
def StepMono (cfg : Cfg) : Prop :=
  ∀ st a b e evs st' rest, a ≠ [] → step1 cfg st a false = .emit evs st' rest →
    step1 cfg st (a ++ b) e = .emit evs st' (rest ++ b)

theorem collect_append_of_step (cfg : Cfg) (hp : Progress cfg) (hs : StepMono cfg) (b : Bytes) (e : Bool) :
    ∀ (k : Nat) (a : Bytes) (st : PState), a.length ≤ k → collect cfg st (a ++ b) e = feed2 cfg st a b e := by
  intro k
  induction k with
  | zero =>
    intro a st hk
    have : a = [] := List.eq_nil_of_length_eq_zero (by omega)
    subst this
    simp [feed2, collect_nil]
  | succ k ih =>
    intro a st hk
    cases ha : a with
    | nil => simp [feed2, collect_nil]
    | cons c t =>
      have hne : a ≠ [] := by rw [ha]; simp
      rw [← ha]
      cases hstep : step1 cfg st a false with
      | wait =>
        unfold feed2
        rw [collect_wait cfg st a false hstep]
        simp
      | ambiguous =>
        unfold feed2
        rw [collect_ambiguous cfg st a hne false hstep]
        simp
      | emit evs st' rest =>
        have hlt := hp st a false evs st' rest hne hstep
        have h2 := hs st a b e evs st' rest hne hstep
        have hne' : a ++ b ≠ [] := by rw [ha]; simp
        rw [collect_emit cfg hp st (a ++ b) hne' e evs st' (rest ++ b) h2]
        rw [ih rest st' (by omega)]
        unfold feed2
        rw [collect_emit cfg hp st a hne false evs st' rest hstep]
        simp [Collected.cons, List.append_assoc]

end Tcell.Lemmas.Chunk
