/-
The repaired drawCell (`DrawCfg.guardLocked = true`, fixes/C13-wide-left-of-locked.patch): what a draw pass paints,
as a ghost log of (column, row, columns occupied), and the proof that no entry covers a locked cell.
Generic in everything but the switch; no invariant of the history is needed (it holds from every screen state).
-/
import Tcell.Lemmas.World
namespace Tcell
open Buf

/-- ghost log of one row pass (tscreen.go:1077-1090): for every dirty cell the loop visits, the cell it paints and
the number of columns the payload occupies (`drawCell`'s return value), in order -/
def Scr.rowLog (c : DrawCfg) (y : Int) : Nat → Int → Scr → List (Int × Int × Int)
  | 0, _, _ => []
  | fuel + 1, x, s =>
    if x < s.w then
      (if s.cells.dirty x y then [(x, y, (s.visit c x y).2.2)] else []) ++
        Scr.rowLog c y fuel (x + (s.visit c x y).2.2) (s.visit c x y).1
    else []

def Scr.rowsLog (c : DrawCfg) : Nat → Int → Scr → List (Int × Int × Int)
  | 0, _, _ => []
  | fuel + 1, y, s =>
    if y < s.h then
      Scr.rowLog c y s.w.toNat 0 s ++ Scr.rowsLog c fuel (y + 1) (Scr.drawRow c y s.w.toNat 0 s).1
    else []

/-- ghost log of a whole draw (hideCursor / clearScreen / showCursor write no cell payload) -/
def Scr.drawLog (c : DrawCfg) (s : Scr) : List (Int × Int × Int) :=
  let s0 : Scr := { s with cx := -1, cy := -1, curstyle := styleInvalid }
  let r1 := s0.hideCursor c
  let r2 := if r1.1.clear then r1.1.clearScreen else (r1.1, [])
  Scr.rowsLog c r2.1.h.toNat 0 r2.1

theorem paint_width (c : DrawCfg) (s : Scr) (x y : Int) :
    (s.paint c x y).2.2 = (Scr.cellTextG c s.w x (s.cells.getContent x y).1 (s.cells.getContent x y).2.1
      (s.cells.getContent x y).2.2.2 (c.guardLocked && s.cells.locked (x + 1) y)).2 := rfl

/-- with the guard compiled in, a dirty cell whose right neighbour is locked is painted one column wide -/
theorem visit_width_guard {c : DrawCfg} (hct : c.cornerTrick = false) (hg : c.guardLocked = true) (s : Scr) (x y : Int)
    (hd : s.cells.dirty x y = true) (hl : s.cells.locked (x + 1) y = true) : (s.visit c x y).2.2 = 1 := by
  have h1 : (s.visit c x y).2.2 = (s.drawCellPlain c x y).2.2 := by
    simp [Scr.visit, Scr.drawCell, hd, hct]
  rw [h1]
  by_cases hgo : s.cy ≠ y ∨ s.cx ≠ x
  · have : (s.drawCellPlain c x y).2.2 = (Scr.paint c { s with cx := x, cy := y } x y).2.2 := by
      simp only [Scr.drawCellPlain, hd, not_true_eq_false, if_false, hgo, if_true]
    rw [this, paint_width]
    simp only [hg, hl, Bool.and_self]
    exact cellTextG_true_width ..
  · have : (s.drawCellPlain c x y).2.2 = (Scr.paint c s x y).2.2 := by
      simp only [Scr.drawCellPlain, hd, not_true_eq_false, if_false, hgo]
    rw [this, paint_width]
    simp only [hg, hl, Bool.and_self]
    exact cellTextG_true_width ..

theorem ScrRel.locked {s s' : Scr} (r : ScrRel s s') (i j : Int) : s'.cells.locked i j = s.cells.locked i j := by
  simp only [Buf.locked, inRange_iff, r.cw, r.ch, (r.cells i j).2.2.2.1]

/-- what the log entries of a pass guarantee, relative to the locks of a reference state `s0` -/
def LogOk (s0 : Scr) (e : Int × Int × Int) : Prop :=
  s0.cells.locked e.1 e.2.1 = false ∧ (e.2.2 > 1 → s0.cells.locked (e.1 + 1) e.2.1 = false)

theorem rowLog_ok {c : DrawCfg} (hct : c.cornerTrick = false) (hg : c.guardLocked = true) (s0 : Scr) (y : Int) :
    ∀ (fuel : Nat) (x : Int) (s : Scr), (∀ i j, s.cells.locked i j = s0.cells.locked i j) →
      ∀ e ∈ Scr.rowLog c y fuel x s, LogOk s0 e := by
  intro fuel
  induction fuel with
  | zero => intro x s _ e he; simp [Scr.rowLog] at he
  | succ fuel ih =>
    intro x s hs e he
    simp only [Scr.rowLog] at he
    split at he
    · rcases List.mem_append.1 he with h1 | h1
      · cases hd : s.cells.dirty x y
        · simp [hd] at h1
        · simp only [hd, if_true, List.mem_singleton] at h1
          subst h1
          refine ⟨?_, ?_⟩
          · show s0.cells.locked x y = false
            rw [← hs]; exact dirty_unlocked _ _ _ hd
          · intro hw
            show s0.cells.locked (x + 1) y = false
            rw [← hs]
            cases hl : s.cells.locked (x + 1) y
            · rfl
            · have := visit_width_guard hct hg s x y hd hl
              simp only at hw; omega
      · refine ih _ _ ?_ e h1
        intro i j; rw [(visit_rel c s x y).locked]; exact hs i j
    · simp at he

theorem rowsLog_ok {c : DrawCfg} (hct : c.cornerTrick = false) (hg : c.guardLocked = true) (s0 : Scr) :
    ∀ (fuel : Nat) (y : Int) (s : Scr), (∀ i j, s.cells.locked i j = s0.cells.locked i j) →
      ∀ e ∈ Scr.rowsLog c fuel y s, LogOk s0 e := by
  intro fuel
  induction fuel with
  | zero => intro y s _ e he; simp [Scr.rowsLog] at he
  | succ fuel ih =>
    intro y s hs e he
    simp only [Scr.rowsLog] at he
    split at he
    · rcases List.mem_append.1 he with h1 | h1
      · exact rowLog_ok hct hg s0 y _ _ s hs e h1
      · refine ih _ _ ?_ e h1
        intro i j; rw [(drawRow_rel c y _ _ s).locked]; exact hs i j
    · simp at he

/-- **No payload of a draw pass covers a locked cell** (repaired drawCell): every log entry is addressed to an unlocked
cell, and a payload wider than one column is only written when the next column is not locked — whatever the state. -/
theorem drawLog_ok {c : DrawCfg} (hct : c.cornerTrick = false) (hg : c.guardLocked = true) (s : Scr) :
    ∀ e ∈ s.drawLog c, LogOk s e := by
  intro e he
  simp only [Scr.drawLog] at he
  refine rowsLog_ok hct hg s _ _ _ ?_ e he
  intro i j
  have r1 := hideCursor_rel c { s with cx := -1, cy := -1, curstyle := styleInvalid }
  have e1 := r1.locked i j
  split
  · exact e1
  · exact e1

end Tcell
