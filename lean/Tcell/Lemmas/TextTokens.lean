import Tcell.Model.TextInput
import Tcell.Lemmas.Collect
/-
C11, generic part: a stream made of *tokens* each of which the parser (in a fixed state `st`) recognises atomically
(`step1` emits exactly the token's event when the buffer starts with the whole token, and waits on every non-empty
proper prefix) is delivered token by token under EVERY partition into reads (`feedAll`).
Independent of the general chunk-independence theorem of C02.
-/
namespace Tcell.Lemmas.Text
open Tcell Tcell.Model Tcell.Lemmas.Collect

structure Tok where
  bytes : Bytes
  ev : Event

/-- the parser in state `st` recognises the token atomically and stays in `st` -/
structure GoodTok (cfg : Cfg) (st : PState) (k : Tok) : Prop where
  nonempty : k.bytes ≠ []
  hit : ∀ t, step1 cfg st (k.bytes ++ t) false = .emit [k.ev] st t
  wait : ∀ l, 0 < l → l < k.bytes.length → step1 cfg st (k.bytes.take l) false = .wait

def tokBytes (ks : List Tok) : Bytes := ks.flatMap (·.bytes)

@[simp] theorem tokBytes_nil : tokBytes [] = [] := rfl
@[simp] theorem tokBytes_cons (k : Tok) (ks : List Tok) : tokBytes (k :: ks) = k.bytes ++ tokBytes ks := by
  simp [tokBytes]
@[simp] theorem tokBytes_append (a b : List Tok) : tokBytes (a ++ b) = tokBytes a ++ tokBytes b := by
  simp [tokBytes]

/-- `q` is empty or a non-empty proper prefix of the first token of `ks` -/
def Pre (q : Bytes) (ks : List Tok) : Prop :=
  q = [] ∨ ∃ k ks', ks = k :: ks' ∧ 0 < q.length ∧ q.length < k.bytes.length ∧ q = k.bytes.take q.length

/-- one scan of a buffer consisting of whole tokens followed by a piece `q` on which the parser waits -/
theorem collectAux_tokens (cfg : Cfg) (st : PState) :
    ∀ (ks : List Tok), (∀ k ∈ ks, GoodTok cfg st k) → ∀ (q : Bytes), (q = [] ∨ step1 cfg st q false = .wait) →
    ∀ fuel, (tokBytes ks ++ q).length ≤ fuel →
    collectAux cfg false fuel st (tokBytes ks ++ q) = ⟨ks.map (·.ev), st, q, false⟩ := by
  intro ks
  induction ks with
  | nil =>
    intro _ q hq fuel hf
    simp only [tokBytes_nil, List.nil_append, List.map_nil] at *
    cases q with
    | nil => exact collectAux_nil cfg false fuel st
    | cons c t =>
      cases fuel with
      | zero => simp at hf
      | succ f =>
        rcases hq with hq | hq
        · cases hq
        · simp [collectAux, hq]
  | cons k ks ih =>
    intro hg q hq fuel hf
    have hk := hg k (by simp)
    have hne := hk.nonempty
    rw [tokBytes_cons, List.append_assoc] at *
    cases hb : k.bytes with
    | nil => exact absurd hb hne
    | cons c t =>
      cases fuel with
      | zero => rw [hb] at hf; simp at hf
      | succ f =>
        have hhit := hk.hit (tokBytes ks ++ q)
        rw [hb] at hhit hf
        rw [List.cons_append] at hhit ⊢
        rw [collectAux_emit cfg false f st st c _ _ _ hhit]
        have hlen : (tokBytes ks ++ q).length ≤ f := by
          simp only [List.cons_append, List.length_cons, List.length_append] at hf ⊢
          omega
        rw [ih (fun k' hk' => hg k' (by simp [hk'])) q hq f hlen]
        simp

/-- a byte prefix `u` of a token stream is some whole tokens followed by a piece of the next one -/
theorem split_tokens : ∀ (ks : List Tok), (∀ k ∈ ks, k.bytes ≠ []) → ∀ (u v : Bytes), u ++ v = tokBytes ks →
    ∃ ks1 ks2 q, ks = ks1 ++ ks2 ∧ u = tokBytes ks1 ++ q ∧ q ++ v = tokBytes ks2 ∧ Pre q ks2 := by
  intro ks
  induction ks with
  | nil =>
    intro _ u v h
    simp only [tokBytes_nil, List.append_eq_nil_iff] at h
    exact ⟨[], [], [], rfl, by simp [h.1], by simp [h.2], Or.inl rfl⟩
  | cons k ks ih =>
    intro hne u v h
    rw [tokBytes_cons] at h
    rcases List.append_eq_append_iff.mp h with ⟨a', h1, h2⟩ | ⟨c', h1, h2⟩
    · -- the first token is `u ++ a'`
      cases a' with
      | nil =>
        simp only [List.append_nil, List.nil_append] at h1 h2
        obtain ⟨ks1, ks2, q, e1, e2, e3, e4⟩ := ih (fun k' hk' => hne k' (by simp [hk'])) [] v (by simpa using h2)
        refine ⟨k :: ks1, ks2, q, by simp [e1], ?_, e3, e4⟩
        have : tokBytes ks1 ++ q = [] := e2.symm
        rw [tokBytes_cons, List.append_assoc, this, List.append_nil, h1]
      | cons a as =>
        refine ⟨[], k :: ks, u, rfl, by simp, by rw [tokBytes_cons, h1, h2]; simp, ?_⟩
        cases u with
        | nil => exact Or.inl rfl
        | cons x xs =>
          refine Or.inr ⟨k, ks, rfl, by simp, ?_, ?_⟩
          · rw [h1]; simp
          · rw [h1]; simp
    · -- `u` = first token ++ c'
      obtain ⟨ks1, ks2, q, e1, e2, e3, e4⟩ := ih (fun k' hk' => hne k' (by simp [hk'])) c' v h2.symm
      exact ⟨k :: ks1, ks2, q, by simp [e1], by rw [h1, e2, tokBytes_cons, List.append_assoc], e3, e4⟩

/-- **token streams are delivered token by token under every partition into reads** -/
theorem feedAll_tokens (cfg : Cfg) (st : PState) :
    ∀ (chunks : List Bytes) (ks : List Tok), (∀ k ∈ ks, GoodTok cfg st k) → ∀ (q : Bytes), Pre q ks →
    q ++ chunks.flatten = tokBytes ks →
    feedAll cfg st q chunks = ⟨ks.map (·.ev), st, [], false⟩ := by
  intro chunks
  induction chunks with
  | nil =>
    intro ks hg q hq hc
    simp only [List.flatten_nil, List.append_nil] at hc
    rcases hq with hq | ⟨k, ks', e, _, hlt, _⟩
    · subst hq
      cases ks with
      | nil => rfl
      | cons k ks' =>
        have := (hg k (by simp)).nonempty
        rw [tokBytes_cons] at hc
        have h0 : k.bytes = [] := (List.append_eq_nil_iff.mp hc.symm).1
        exact absurd h0 this
    · subst e
      rw [tokBytes_cons] at hc
      have := congrArg List.length hc
      simp only [List.length_append] at this
      omega
  | cons ch cs ih =>
    intro ks hg q hq hc
    have hne : ∀ k ∈ ks, k.bytes ≠ [] := fun k hk => (hg k hk).nonempty
    have hc' : (q ++ ch) ++ cs.flatten = tokBytes ks := by simpa [List.append_assoc] using hc
    obtain ⟨ks1, ks2, q', e1, e2, e3, e4⟩ := split_tokens ks hne (q ++ ch) cs.flatten hc'
    subst e1
    have hg1 : ∀ k ∈ ks1, GoodTok cfg st k := fun k hk => hg k (by simp [hk])
    have hg2 : ∀ k ∈ ks2, GoodTok cfg st k := fun k hk => hg k (by simp [hk])
    have hq' : q' = [] ∨ step1 cfg st q' false = .wait := by
      rcases e4 with h | ⟨k, ks', e, hpos, hlt, htake⟩
      · exact Or.inl h
      · right
        rw [htake]
        exact (hg2 k (by simp [e])).wait _ hpos hlt
    have hcol : collect cfg st (q ++ ch) false = ⟨ks1.map (·.ev), st, q', false⟩ := by
      unfold collect
      rw [e2]
      exact collectAux_tokens cfg st ks1 hg1 q' hq' _ (Nat.le_refl _)
    have hrec := ih ks2 hg2 q' e4 e3
    simp only [feedAll, hcol, hrec]
    simp

end Tcell.Lemmas.Text
