/-
Layer B of C01/C13/C09, part 4: simulation of every abstract command and of command lists.

`CapsFx dc rc` collects what the simulation needs to know about the terminal description: the *effect on the
reference emulator* of the bytes rendered for each kind of command.  `Lemmas/LayerBXterm.lean` + `Lemmas/LayerBXtermFx.lean`
prove `CapsFx` for every description in the class `XtermLike` (`xl_capsFx`).  `Admit` is the side condition under which a command is simulated
(`Lemmas/LayerBAdmit.lean` proves it for every command the draw path emits over any history).
-/
import Tcell.Lemmas.LayerBSim
namespace Tcell.LayerB
open Tcell Tcell.Spec.Ecma48 Tcell.Spec.Ecma48.Term

/-- styles covered by the pen simulation: no hyperlink (`_partial`: OSC 8 with a URL is validated, not proved) -/
def StyleOk (s : Style) : Prop := s.url = ""

/-- a mode change that the draw invariant does not care about -/
structure ModesOk (m m' : Modes) : Prop where
  font : m'.altFont = m.altFont
  g0 : m'.acsG0 = m.acsG0
  so : m'.shiftOut = m.shiftOut
  irm : m'.insertMode = m.insertMode
  am : m'.autoMargin = m.autoMargin

/-- effect on the emulator of the bytes of each command kind -/
structure CapsFx (dc : DrawCfg) (rc : RenderCfg) : Prop where
  goto : ∀ (t : Term) (x y : Nat), Good dc.rw t → (x : Int) + 1 < TParm.maxInt64 → (y : Int) + 1 < TParm.maxInt64 →
    t.feed (Render.render rc (.goto x y)) =
      { t with cx := min x (t.w - 1), cy := min y (t.h - 1), pendingWrap := false, cursorKnown := true }
  pen : ∀ (t : Term) (s : Style), Good dc.rw t → Quiet rc t → StyleOk s →
    t.feed (Render.render rc (.setPen s)) = { t with pen := penOf rc s, penKnown := true, linkKnown := true }
  /-- the hide-cursor string, when the description has one (otherwise hideCursor moves the cursor instead) -/
  hide : ∀ (t : Term), Good dc.rw t → dc.hasHide = true →
    ∃ m', t.feed (Render.render rc .hideCursor) = { t with modes := m' } ∧ ModesOk t.modes m' ∧
      m'.cursorVisible = false ∧ m'.cursorShape = t.modes.cursorShape
  /-- a description without a hide-cursor string is one the draw configuration knows to have none -/
  hideEq : dc.hasHide = false → rc.ti.hideCursor = []
  show_ : ∀ (t : Term) (cs cc : Nat), Good dc.rw t → Quiet rc t → Color.valid cc = false → cc ≠ colorReset →
    ∃ m', t.feed (Render.render rc (.showCursor cs cc)) = { t with modes := m' } ∧ ModesOk t.modes m' ∧
      m'.cursorVisible = true ∧ (cs < 7 → rc.d.cursorStyles ≠ none → m'.cursorShape = cs)
  clear : ∀ (t : Term) (s : Style), Good dc.rw t → Quiet rc t →
    ∃ t', t.feed (Render.render rc (.clear s)) = t' ∧ Good dc.rw t' ∧ Quiet rc t' ∧ t'.grid.w = t.grid.w ∧ t'.grid.h = t.grid.h ∧
      t'.modes.cursorVisible = t.modes.cursorVisible ∧ t'.modes.cursorShape = t.modes.cursorShape

/-- side condition of the simulation of one command in abstract state `a` -/
def Admit (dc : DrawCfg) (a : ATerm) : Cmd → Prop
  | .goto x y => 0 ≤ x ∧ 0 ≤ y ∧ x + 1 < TParm.maxInt64 ∧ y + 1 < TParm.maxInt64
  | .setPen s => StyleOk s
  | .put bytes width => ∃ x y st, a.cur = some (x, y) ∧ a.pen = some st ∧ a.inGrid x y ∧ x + width ≤ a.w ∧
      PayloadOk dc.rw bytes width
  | .hideCursor => dc.hasHide = true
  | .showCursor _ cc => Color.valid cc = false ∧ cc ≠ colorReset
  | .clear _ => True
  | .insertChar => False

/-- every command of the list is admissible in the state it is applied to -/
def AdmitAll (dc : DrawCfg) : ATerm → List Cmd → Prop
  | _, [] => True
  | a, c :: cs => Admit dc a c ∧ AdmitAll dc (a.apply c) cs

theorem admitAll_append (dc : DrawCfg) (a : ATerm) (l1 l2 : List Cmd) :
    AdmitAll dc a (l1 ++ l2) ↔ AdmitAll dc a l1 ∧ AdmitAll dc (a.applyAll l1) l2 := by
  induction l1 generalizing a with
  | nil => simp [AdmitAll, ATerm.applyAll]
  | cons c cs ih =>
    simp only [List.cons_append, AdmitAll, ih, ATerm.applyAll, List.foldl_cons, and_assoc]

/-! ## one command -/

theorem good_of_eq {rw} {t t' : Term} (g : Good rw t) (h1 : t'.st = t.st) (h2 : t'.cfg = t.cfg)
    (h3 : ModesOk t.modes t'.modes) (h4 : t'.malformed = t.malformed) : Good rw t' :=
  { st := h1.trans g.st, utf8 := by rw [h2]; exact g.utf8, font := h3.font.trans g.font, g0 := h3.g0.trans g.g0,
    so := h3.so.trans g.so, irm := h3.irm.trans g.irm, mal := h4.trans g.mal, rw := by rw [h2]; exact g.rw }

theorem ModesOk.refl (m : Modes) : ModesOk m m := ⟨rfl, rfl, rfl, rfl, rfl⟩

theorem curRep_modes {t : Term} {m' : Modes} (hm : ModesOk t.modes m') {x y : Int} (h : CurRep t x y) :
    CurRep { t with modes := m' } x y := by
  obtain ⟨a, b, c, d⟩ := h
  refine ⟨a, b, c, ?_⟩
  intro hx; have := d hx
  exact ⟨this.1, by show t.pendingWrap = m'.autoMargin; rw [hm.am]; exact this.2⟩

/-- **simulation of one command** -/
theorem sim_cmd {dc : DrawCfg} {rc : RenderCfg} (hrw : RwB dc.rw) (fx : CapsFx dc rc) {t : Term} {a : ATerm}
    (R : Rep dc rc t a) (cmd : Cmd) (had : Admit dc a cmd) :
    Rep dc rc (t.feed (Render.render rc cmd)) (a.apply cmd) := by
  cases cmd with
  | goto x y =>
    obtain ⟨hx0, hy0, hx1, hy1⟩ := had
    have ex : x = ((x.toNat : Nat) : Int) := by omega
    have ey : y = ((y.toNat : Nat) : Int) := by omega
    have e := fx.goto t x.toNat y.toNat R.good (by omega) (by omega)
    rw [← ex, ← ey] at e
    rw [e]
    have hw := R.w; have hh := R.h
    exact {
      good := good_of_eq R.good rfl rfl (ModesOk.refl _) rfl
      quiet := ⟨R.quiet.link, R.quiet.vis⟩
      w := R.w, h := R.h, cells := R.cells, conts := R.conts
      cur := by
        intro x' y' hc hx' hy'
        simp only [ATerm.apply, Option.some.injEq, Prod.mk.injEq] at hc
        obtain ⟨rfl, rfl⟩ := hc
        simp only [ATerm.clampX, ATerm.clampY] at hx' hy' ⊢
        refine ⟨rfl, ?_, ?_, ?_⟩
        · show min y.toNat (t.grid.h - 1) = _
          split <;> (try split) <;> omega
        · intro hlt
          refine ⟨?_, rfl⟩
          show min x.toNat (t.grid.w - 1) = _
          split <;> (try split) <;> omega
        · intro heq; exfalso
          revert heq hx'; show _ → (_ = (t.grid.w : Int)) → False
          split <;> (try split) <;> omega
      pen := R.pen, vis := R.vis, shape := R.shape }
  | setPen s =>
    rw [fx.pen t s R.good R.quiet had]
    exact {
      good := good_of_eq R.good rfl rfl (ModesOk.refl _) rfl
      quiet := ⟨fun _ => ⟨rfl, by show (penOf rc s).link = none; simp [penOf, show s.url = "" from had]⟩, R.quiet.vis⟩
      w := R.w, h := R.h, cells := R.cells, conts := R.conts, cur := R.cur
      pen := by
        intro s' h
        simp only [ATerm.apply, Option.some.injEq] at h
        subst h; exact ⟨rfl, rfl, rfl⟩
      vis := R.vis, shape := R.shape }
  | put bytes width =>
    obtain ⟨x, y, st, hcur, hpen, hin, hfit, m, comb, rfl, hv, h32, hc, hw, hw12, hcomb⟩ := had
    have e : a.apply (.put (Utf8.encode m ++ comb.flatMap Utf8.encode) width) =
        a.putAt x y (Utf8.encode m ++ comb.flatMap Utf8.encode) width st := by
      simp only [ATerm.apply, hcur, hpen, if_pos hin]
    rw [e]
    show Rep dc rc (t.feed (Utf8.encode m ++ comb.flatMap Utf8.encode)) _
    rcases hw12 with rfl | rfl
    · exact sim_put_narrow hrw R m comb st x y hv h32 hc hw hcomb hcur hpen hin
    · exact sim_put_wide hrw R m comb st x y hv h32 hc hw hcomb hcur hpen hin hfit
  | hideCursor =>
    obtain ⟨m', e, mo, hv, hs⟩ := fx.hide t R.good had
    rw [e]
    exact {
      good := good_of_eq R.good rfl rfl mo rfl
      quiet := ⟨R.quiet.link, fun h => by
        -- a terminal with a hide string: the premise is false
        exfalso
        have : Render.render rc .hideCursor = [] := by simp [Render.render, h]
        rw [this] at e
        have : t.modes = m' := by simpa [Term.feed] using congrArg Term.modes e
        have h1 := R.quiet.vis h
        rw [this, hv] at h1; cases h1⟩
      w := R.w, h := R.h, cells := R.cells, conts := R.conts
      cur := fun x y h hx hy => curRep_modes mo (R.cur x y h hx hy)
      pen := R.pen
      vis := by intro b h; simp only [ATerm.apply, Option.some.injEq] at h; subst h; exact hv
      shape := by intro cs cc h h7 hn; show m'.cursorShape = cs; rw [hs]; exact R.shape cs cc h h7 hn }
  | showCursor cs cc =>
    obtain ⟨m', e, mo, hv, hs⟩ := fx.show_ t cs cc R.good R.quiet had.1 had.2
    rw [e]
    exact {
      good := good_of_eq R.good rfl rfl mo rfl
      quiet := ⟨R.quiet.link, fun _ => hv⟩
      w := R.w, h := R.h, cells := R.cells, conts := R.conts
      cur := fun x y h hx hy => curRep_modes mo (R.cur x y h hx hy)
      pen := R.pen
      vis := by intro b h; simp only [ATerm.apply, Option.some.injEq] at h; subst h; exact hv
      shape := by
        intro cs' cc' h h7 hn
        simp only [ATerm.apply, Option.some.injEq, Prod.mk.injEq] at h
        obtain ⟨rfl, rfl⟩ := h
        exact hs h7 hn }
  | clear s =>
    obtain ⟨t', e, g', q', hw, hh, hv, hs⟩ := fx.clear t s R.good R.quiet
    rw [e]
    exact {
      good := g'
      quiet := q'
      w := by rw [hw]; exact R.w
      h := by rw [hh]; exact R.h
      cells := fun _ _ _ _ => trivial
      conts := fun _ _ _ => Or.inr rfl
      cur := by intro x y h; simp [ATerm.apply] at h
      pen := by intro s' h; simp [ATerm.apply] at h
      vis := by intro b h; rw [hv]; exact R.vis b h
      shape := by intro cs cc h h7 hn; rw [hs]; exact R.shape cs cc h h7 hn }
  | insertChar => exact absurd had id

/-- **simulation of a command list**: the bytes of the whole list, fed to an emulator representing `a`, give an
    emulator representing `a.applyAll cmds` -/
theorem sim_all {dc : DrawCfg} {rc : RenderCfg} (hrw : RwB dc.rw) (fx : CapsFx dc rc) :
    ∀ (cmds : List Cmd) {t : Term} {a : ATerm}, Rep dc rc t a → AdmitAll dc a cmds →
      Rep dc rc (t.feed (Render.renderAll rc cmds)) (a.applyAll cmds) := by
  intro cmds
  induction cmds with
  | nil => intro t a R _; simpa [Render.renderAll, ATerm.applyAll] using R
  | cons c cs ih =>
    intro t a R had
    have R1 := sim_cmd hrw fx R c had.1
    have R2 := ih R1 had.2
    simp only [Render.renderAll, List.flatMap_cons, ATerm.applyAll, List.foldl_cons] at R2 ⊢
    rw [← feed_append]; exact R2

end Tcell.LayerB
