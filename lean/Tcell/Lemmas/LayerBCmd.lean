/-
Layer B of C01/C13/C09, part 4: simulation of every abstract command and of command lists.

`CapsFx dc rc` collects what the simulation needs to know about the terminal description: the *effect on the
reference emulator* of the bytes rendered for each kind of command (`IchFx`: the same for the insert-character string of the
bottom-right corner trick, asked only of terminals that use the trick; `sim_insertChar` is its simulation step in the situation
the trick creates, `AdmitIch`).  `Lemmas/LayerBXterm.lean` + `Lemmas/LayerBXtermFx.lean`
prove `CapsFx` for every description in the class `XtermLike` (`xl_capsFx`).  `Admit` is the side condition under which a command is simulated
(`Lemmas/LayerBAdmit.lean` proves it for every command the draw path emits over any history).
-/
import Tcell.Lemmas.LayerBSim
namespace Tcell.LayerB
open Tcell Tcell.Spec.Ecma48 Tcell.Spec.Ecma48.Term

/-- styles covered by the pen simulation: no hyperlink (`_partial`: OSC 8 with a URL is validated, not proved) -/
def StyleOk (s : Style) : Prop := s.url = ""

/-- a mode change that the draw invariant does not care about -/
structure ModesOk (m m' : Modes) : Prop where
  font : m'.altFont = m.altFont
  g0 : m'.acsG0 = m.acsG0
  so : m'.shiftOut = m.shiftOut
  irm : m'.insertMode = m.insertMode
  am : m'.autoMargin = m.autoMargin

/-- effect on the emulator of the bytes of each command kind -/
structure CapsFx (dc : DrawCfg) (rc : RenderCfg) : Prop where
  goto : ∀ (t : Term) (x y : Nat), Good dc.rw t → (x : Int) + 1 < TParm.maxInt64 → (y : Int) + 1 < TParm.maxInt64 →
    t.feed (Render.render rc (.goto x y)) =
      { t with cx := min x (t.w - 1), cy := min y (t.h - 1), pendingWrap := false, cursorKnown := true }
  pen : ∀ (t : Term) (s : Style), Good dc.rw t → Quiet rc t → StyleOk s →
    t.feed (Render.render rc (.setPen s)) = { t with pen := penOf rc s, penKnown := true, linkKnown := true }
  /-- the hide-cursor string, when the description has one (otherwise hideCursor moves the cursor instead) -/
  hide : ∀ (t : Term), Good dc.rw t → dc.hasHide = true →
    ∃ m', t.feed (Render.render rc .hideCursor) = { t with modes := m' } ∧ ModesOk t.modes m' ∧
      m'.cursorVisible = false ∧ m'.cursorShape = t.modes.cursorShape
  /-- a description without a hide-cursor string is one the draw configuration knows to have none -/
  hideEq : dc.hasHide = false → rc.ti.hideCursor = []
  show_ : ∀ (t : Term) (cs cc : Nat), Good dc.rw t → Quiet rc t → Color.valid cc = false → cc ≠ colorReset →
    ∃ m', t.feed (Render.render rc (.showCursor cs cc)) = { t with modes := m' } ∧ ModesOk t.modes m' ∧
      m'.cursorVisible = true ∧ (cs < 7 → rc.d.cursorStyles ≠ none → m'.cursorShape = cs)
  clear : ∀ (t : Term) (s : Style), Good dc.rw t → Quiet rc t →
    ∃ t', t.feed (Render.render rc (.clear s)) = t' ∧ Good dc.rw t' ∧ Quiet rc t' ∧ t'.grid.w = t.grid.w ∧ t'.grid.h = t.grid.h ∧
      t'.modes.cursorVisible = t.modes.cursorVisible ∧ t'.modes.cursorShape = t.modes.cursorShape

/-- the effect asked of the insert-character string -/
def IchFx (dc : DrawCfg) (rc : RenderCfg) : Prop :=
  ∀ t : Term, Good dc.rw t → t.feed (Render.render rc .insertChar) = t.insertChars 1

/-- the situation in which the corner trick inserts: cursor known, in the grid, in the last-but-one column, on a narrow
    glyph the terminal is known to show; the last cell is not known to be a right half -/
def AdmitIch (a : ATerm) : Prop :=
  ∃ x y b st, a.cur = some (x, y) ∧ a.inGrid x y ∧ a.grid x y = .shown b false st ∧ a.grid (x + 1) y ≠ .cont ∧ x + 2 = a.w

/-- side condition of the simulation of one command in abstract state `a` -/
def Admit (dc : DrawCfg) (a : ATerm) : Cmd → Prop
  | .goto x y => 0 ≤ x ∧ 0 ≤ y ∧ x + 1 < TParm.maxInt64 ∧ y + 1 < TParm.maxInt64
  | .setPen s => StyleOk s
  | .put bytes width => ∃ x y st, a.cur = some (x, y) ∧ a.pen = some st ∧ a.inGrid x y ∧ x + width ≤ a.w ∧
      PayloadOk dc.rw bytes width
  | .hideCursor => dc.hasHide = true
  | .showCursor _ cc => Color.valid cc = false ∧ cc ≠ colorReset
  | .clear _ => True
  | .insertChar => dc.cornerTrick = true ∧ AdmitIch a

/-- every command of the list is admissible in the state it is applied to -/
def AdmitAll (dc : DrawCfg) : ATerm → List Cmd → Prop
  | _, [] => True
  | a, c :: cs => Admit dc a c ∧ AdmitAll dc (a.apply c) cs

theorem admitAll_append (dc : DrawCfg) (a : ATerm) (l1 l2 : List Cmd) :
    AdmitAll dc a (l1 ++ l2) ↔ AdmitAll dc a l1 ∧ AdmitAll dc (a.applyAll l1) l2 := by
  induction l1 generalizing a with
  | nil => simp [AdmitAll, ATerm.applyAll]
  | cons c cs ih =>
    simp only [List.cons_append, AdmitAll, ih, ATerm.applyAll, List.foldl_cons, and_assoc]

/-! ## one command -/

theorem good_of_eq {rw} {t t' : Term} (g : Good rw t) (h1 : t'.st = t.st) (h2 : t'.cfg = t.cfg)
    (h3 : ModesOk t.modes t'.modes) (h4 : t'.malformed = t.malformed) : Good rw t' :=
  { st := h1.trans g.st, utf8 := by rw [h2]; exact g.utf8, font := h3.font.trans g.font, g0 := h3.g0.trans g.g0,
    so := h3.so.trans g.so, irm := h3.irm.trans g.irm, mal := h4.trans g.mal, rw := by rw [h2]; exact g.rw }

theorem ModesOk.refl (m : Modes) : ModesOk m m := ⟨rfl, rfl, rfl, rfl, rfl⟩

theorem curRep_modes {t : Term} {m' : Modes} (hm : ModesOk t.modes m') {x y : Int} (h : CurRep t x y) :
    CurRep { t with modes := m' } x y := by
  obtain ⟨a, b, c, d⟩ := h
  refine ⟨a, b, c, ?_⟩
  intro hx; have := d hx
  exact ⟨this.1, by show t.pendingWrap = m'.autoMargin; rw [hm.am]; exact this.2⟩

/-- ICH on the abstract terminal in the corner-trick situation: the glyph under the cursor moves into the last column, the
    cell under the cursor becomes an erased cell (nothing claimed), nothing else changes -/
theorem insertAt_corner_grid (a : ATerm) (x y : Int) (b : List Nat) (st : Style) (hsh : a.grid x y = .shown b false st)
    (hw2 : x + 2 = a.w) (i j : Int) :
    (a.insertAt x y).grid i j =
      if j = y ∧ i = x then .garbage else if j = y ∧ i = x + 1 then .shown b false st else a.grid i j := by
  simp only [ATerm.insertAt]
  by_cases h1 : j = y ∧ i = x
  · rw [if_pos h1, if_pos h1]
  · rw [if_neg h1, if_neg h1, if_neg (by rw [hsh]; intro h; cases h.2.2)]
    by_cases h2 : j = y ∧ i = x + 1
    · rw [if_pos ⟨h2.1, by omega, by omega⟩, if_pos h2]
      obtain ⟨rfl, rfl⟩ := h2
      rw [show x + 1 - 1 = x by omega, hsh]
    · rw [if_neg h2, if_neg (by intro h; exact h2 ⟨h.1, by omega⟩)]

/-- **simulation of `insertChar`** (ICH) in the corner-trick situation -/
theorem sim_insertChar {dc : DrawCfg} {rc : RenderCfg} (hich : IchFx dc rc) {t : Term} {a : ATerm} (R : Rep dc rc t a)
    (had : AdmitIch a) : Rep dc rc (t.feed (Render.render rc .insertChar)) (a.apply .insertChar) := by
  obtain ⟨x, y, b, st, hcur, hin, hsh, hnc, hw2⟩ := had
  obtain ⟨hx0, hxw, hy0, hyh⟩ := hin
  obtain ⟨ck, ccy, c1, _⟩ := R.cur x y hcur hx0 hy0
  have hgw := R.w; have hgh := R.h
  obtain ⟨ccx, cpw⟩ := c1 (by omega)
  have ea : a.apply .insertChar = a.insertAt x y := by
    simp only [ATerm.apply, hcur]; rw [if_pos ⟨hx0, hxw, hy0, hyh⟩]
  have exi : ((t.cx : Nat) : Int) = x := by omega
  have eyi : ((t.cy : Nat) : Int) = y := by omega
  have hcxw : t.cx + 2 = t.grid.w := by omega
  have hcyh : t.cy < t.grid.h := by omega
  have cr := R.cells t.cx t.cy (by omega) hcyh
  rw [exi, eyi, hsh] at cr
  obtain ⟨cr1, cr2, cr3, cr4⟩ := cr
  have hc1 : (t.grid.get (t.cx + 1) t.cy).cont = false := by
    cases h : (t.grid.get (t.cx + 1) t.cy).cont
    · rfl
    · rcases R.conts t.cx t.cy h with h' | h'
      · rw [exi, eyi] at h'; exact absurd h' hnc
      · rw [exi, eyi, hsh] at h'; cases h'
  -- the emulator side in closed form
  have eg : t.insertChars 1 =
      { t with grid := Grid.build t.grid.w t.grid.h (fun x' y' =>
                 if y' = t.cy ∧ t.cx ≤ x' then (if x' < t.cx + 1 then t.blankCell else Grid.touch (t.grid.get (x' - 1) y') t.blocks)
                 else t.grid.get x' y'),
               pendingWrap := false } := by
    have hlast : t.grid.w - 1 = t.cx + 1 := by omega
    simp [insertChars, ck, Grid.insertBlanks, cr1, hlast, hc1]
  rw [ea, hich t R.good, eg]
  have hget : ∀ i j, i < t.grid.w → j < t.grid.h →
      (Grid.build t.grid.w t.grid.h (fun x' y' =>
         if y' = t.cy ∧ t.cx ≤ x' then (if x' < t.cx + 1 then t.blankCell else Grid.touch (t.grid.get (x' - 1) y') t.blocks)
         else t.grid.get x' y')).get i j =
      if j = t.cy ∧ t.cx ≤ i then (if i < t.cx + 1 then t.blankCell else Grid.touch (t.grid.get (i - 1) j) t.blocks)
      else t.grid.get i j := fun i j hi hj => Grid.get_build _ _ _ _ _ hi hj
  have hagrid := insertAt_corner_grid a x y b st hsh hw2
  exact {
    good := ⟨R.good.st, R.good.utf8, R.good.font, R.good.g0, R.good.so, R.good.irm, R.good.mal, R.good.rw⟩
    quiet := ⟨R.quiet.link, R.quiet.vis, R.quiet.ff⟩
    w := R.w, h := R.h
    cells := by
      intro i j hi hj
      have hi' : i < t.grid.w := hi
      have hj' : j < t.grid.h := hj
      clear hi hj
      show CellRep rc (Grid.get _ i j) _
      rw [hget i j hi' hj', hagrid]
      by_cases h1 : j = t.cy ∧ i = t.cx
      · rw [if_pos (show (j : Int) = y ∧ (i : Int) = x from ⟨by omega, by omega⟩)]; trivial
      · rw [if_neg (show ¬ ((j : Int) = y ∧ (i : Int) = x) from by omega)]
        by_cases h2 : j = t.cy ∧ i = t.cx + 1
        · obtain ⟨rfl, rfl⟩ := h2
          rw [if_pos (show ((t.cy : Nat) : Int) = y ∧ ((t.cx + 1 : Nat) : Int) = x + 1 from ⟨by omega, by omega⟩),
            if_pos (show t.cy = t.cy ∧ t.cx ≤ t.cx + 1 from ⟨rfl, by omega⟩), if_neg (show ¬ t.cx + 1 < t.cx + 1 by omega),
            show t.cx + 1 - 1 = t.cx by omega]
          exact ⟨cr1, cr2, cr3, cr4⟩
        · rw [if_neg (show ¬ ((j : Int) = y ∧ (i : Int) = x + 1) from by omega),
            if_neg (show ¬ (j = t.cy ∧ t.cx ≤ i) from by omega)]
          exact R.cells i j hi' hj'
    conts := by
      intro i j hc
      have hc' : (Grid.get (Grid.build t.grid.w t.grid.h (fun x' y' =>
         if y' = t.cy ∧ t.cx ≤ x' then (if x' < t.cx + 1 then t.blankCell else Grid.touch (t.grid.get (x' - 1) y') t.blocks)
         else t.grid.get x' y')) (i + 1) j).cont = true := hc
      clear hc
      by_cases hr : i + 1 < t.grid.w ∧ j < t.grid.h
      · rw [hget (i + 1) j hr.1 hr.2] at hc'
        by_cases h1 : j = t.cy ∧ t.cx ≤ i + 1
        · rw [if_pos h1] at hc'
          by_cases h2 : i + 1 < t.cx + 1
          · rw [if_pos h2] at hc'; simp [blankCell] at hc'
          · rw [if_neg h2] at hc'
            have : i + 1 - 1 = t.cx := by omega
            obtain ⟨rfl, _⟩ := h1
            rw [this] at hc'
            simp [Grid.touch, cr1] at hc'
        · rw [if_neg h1] at hc'
          rw [hagrid, hagrid]
          rcases R.conts i j hc' with h | h
          · left
            rw [if_neg (show ¬ ((j : Int) = y ∧ (i : Int) + 1 = x) from by omega),
              if_neg (show ¬ ((j : Int) = y ∧ (i : Int) + 1 = x + 1) from by omega)]; exact h
          · right
            by_cases h3 : (j : Int) = y ∧ (i : Int) = x
            · rw [if_pos h3]
            · rw [if_neg h3, if_neg (show ¬ ((j : Int) = y ∧ (i : Int) = x + 1) from by omega)]; exact h
      · exfalso
        have : (Grid.build t.grid.w t.grid.h (fun x' y' =>
           if y' = t.cy ∧ t.cx ≤ x' then (if x' < t.cx + 1 then t.blankCell else Grid.touch (t.grid.get (x' - 1) y') t.blocks)
           else t.grid.get x' y')).get (i + 1) j = {} := Grid.get_out _ _ _ (by simpa [Grid.build] using hr)
        rw [this] at hc'; cases hc'
    cur := by
      intro x' y' hc hx' hy'
      have : (a.insertAt x y).cur = a.cur := rfl
      rw [this, hcur] at hc
      simp only [Option.some.injEq, Prod.mk.injEq] at hc
      obtain ⟨rfl, rfl⟩ := hc
      exact ⟨ck, ccy, fun _ => ⟨ccx, rfl⟩, fun h => by exfalso; have h' : x = ((t.grid.w : Nat) : Int) := h; omega⟩
    pen := R.pen, vis := R.vis, shape := R.shape }

/-- **simulation of one command**; `hich`: on a terminal that needs the bottom-right corner trick the insert-character string
    is ICH (nothing is asked on other terminals: the draw path never emits `Cmd.insertChar` there) -/
theorem sim_cmd {dc : DrawCfg} {rc : RenderCfg} (hrw : RwB dc.rw) (fx : CapsFx dc rc)
    (hich : dc.cornerTrick = true → IchFx dc rc) {t : Term} {a : ATerm}
    (R : Rep dc rc t a) (cmd : Cmd) (had : Admit dc a cmd) :
    Rep dc rc (t.feed (Render.render rc cmd)) (a.apply cmd) := by
  cases cmd with
  | goto x y =>
    obtain ⟨hx0, hy0, hx1, hy1⟩ := had
    have ex : x = ((x.toNat : Nat) : Int) := by omega
    have ey : y = ((y.toNat : Nat) : Int) := by omega
    have e := fx.goto t x.toNat y.toNat R.good (by omega) (by omega)
    rw [← ex, ← ey] at e
    rw [e]
    have hw := R.w; have hh := R.h
    exact {
      good := good_of_eq R.good rfl rfl (ModesOk.refl _) rfl
      quiet := ⟨R.quiet.link, R.quiet.vis, R.quiet.ff⟩
      w := R.w, h := R.h, cells := R.cells, conts := R.conts
      cur := by
        intro x' y' hc hx' hy'
        simp only [ATerm.apply, Option.some.injEq, Prod.mk.injEq] at hc
        obtain ⟨rfl, rfl⟩ := hc
        simp only [ATerm.clampX, ATerm.clampY] at hx' hy' ⊢
        refine ⟨rfl, ?_, ?_, ?_⟩
        · show min y.toNat (t.grid.h - 1) = _
          split <;> (try split) <;> omega
        · intro hlt
          refine ⟨?_, rfl⟩
          show min x.toNat (t.grid.w - 1) = _
          split <;> (try split) <;> omega
        · intro heq; exfalso
          revert heq hx'; show _ → (_ = (t.grid.w : Int)) → False
          split <;> (try split) <;> omega
      pen := R.pen, vis := R.vis, shape := R.shape }
  | setPen s =>
    rw [fx.pen t s R.good R.quiet had]
    exact {
      good := good_of_eq R.good rfl rfl (ModesOk.refl _) rfl
      quiet := ⟨fun _ => ⟨rfl, by show (penOf rc s).link = none; simp [penOf, show s.url = "" from had]⟩, R.quiet.vis, R.quiet.ff⟩
      w := R.w, h := R.h, cells := R.cells, conts := R.conts, cur := R.cur
      pen := by
        intro s' h
        simp only [ATerm.apply, Option.some.injEq] at h
        subst h; exact ⟨rfl, rfl, rfl⟩
      vis := R.vis, shape := R.shape }
  | put bytes width =>
    obtain ⟨x, y, st, hcur, hpen, hin, hfit, m, comb, rfl, hv, h32, hc, hw, hw12, hcomb⟩ := had
    have e : a.apply (.put (Utf8.encode m ++ comb.flatMap Utf8.encode) width) =
        a.putAt x y (Utf8.encode m ++ comb.flatMap Utf8.encode) width st := by
      simp only [ATerm.apply, hcur, hpen, if_pos hin]
    rw [e]
    show Rep dc rc (t.feed (Utf8.encode m ++ comb.flatMap Utf8.encode)) _
    rcases hw12 with rfl | rfl
    · exact sim_put_narrow hrw R m comb st x y hv h32 hc hw hcomb hcur hpen hin
    · exact sim_put_wide hrw R m comb st x y hv h32 hc hw hcomb hcur hpen hin hfit
  | hideCursor =>
    obtain ⟨m', e, mo, hv, hs⟩ := fx.hide t R.good had
    rw [e]
    exact {
      good := good_of_eq R.good rfl rfl mo rfl
      quiet := ⟨R.quiet.link, (fun h => by
        -- a terminal with a hide string: the premise is false
        exfalso
        have : Render.render rc .hideCursor = [] := by simp [Render.render, h]
        rw [this] at e
        have : t.modes = m' := by simpa [Term.feed] using congrArg Term.modes e
        have h1 := R.quiet.vis h
        rw [this, hv] at h1
        cases h1),
        R.quiet.ff⟩
      w := R.w, h := R.h, cells := R.cells, conts := R.conts
      cur := fun x y h hx hy => curRep_modes mo (R.cur x y h hx hy)
      pen := R.pen
      vis := by intro b h; simp only [ATerm.apply, Option.some.injEq] at h; subst h; exact hv
      shape := by intro cs cc h h7 hn; show m'.cursorShape = cs; rw [hs]; exact R.shape cs cc h h7 hn }
  | showCursor cs cc =>
    obtain ⟨m', e, mo, hv, hs⟩ := fx.show_ t cs cc R.good R.quiet had.1 had.2
    rw [e]
    exact {
      good := good_of_eq R.good rfl rfl mo rfl
      quiet := ⟨R.quiet.link, fun _ => hv, R.quiet.ff⟩
      w := R.w, h := R.h, cells := R.cells, conts := R.conts
      cur := fun x y h hx hy => curRep_modes mo (R.cur x y h hx hy)
      pen := R.pen
      vis := by intro b h; simp only [ATerm.apply, Option.some.injEq] at h; subst h; exact hv
      shape := by
        intro cs' cc' h h7 hn
        simp only [ATerm.apply, Option.some.injEq, Prod.mk.injEq] at h
        obtain ⟨rfl, rfl⟩ := h
        exact hs h7 hn }
  | clear s =>
    obtain ⟨t', e, g', q', hw, hh, hv, hs⟩ := fx.clear t s R.good R.quiet
    rw [e]
    exact {
      good := g'
      quiet := q'
      w := by rw [hw]; exact R.w
      h := by rw [hh]; exact R.h
      cells := fun _ _ _ _ => trivial
      conts := fun _ _ _ => Or.inr rfl
      cur := by intro x y h; simp [ATerm.apply] at h
      pen := by intro s' h; simp [ATerm.apply] at h
      vis := by intro b h; rw [hv]; exact R.vis b h
      shape := by intro cs cc h h7 hn; rw [hs]; exact R.shape cs cc h h7 hn }
  | insertChar => exact sim_insertChar (hich had.1) R had.2

/-- **simulation of a command list**: the bytes of the whole list, fed to an emulator representing `a`, give an
    emulator representing `a.applyAll cmds` -/
theorem sim_all {dc : DrawCfg} {rc : RenderCfg} (hrw : RwB dc.rw) (fx : CapsFx dc rc)
    (hich : dc.cornerTrick = true → IchFx dc rc) :
    ∀ (cmds : List Cmd) {t : Term} {a : ATerm}, Rep dc rc t a → AdmitAll dc a cmds →
      Rep dc rc (t.feed (Render.renderAll rc cmds)) (a.applyAll cmds) := by
  intro cmds
  induction cmds with
  | nil => intro t a R _; simpa [Render.renderAll, ATerm.applyAll] using R
  | cons c cs ih =>
    intro t a R had
    have R1 := sim_cmd hrw fx hich R c had.1
    have R2 := ih R1 had.2
    simp only [Render.renderAll, List.flatMap_cons, ATerm.applyAll, List.foldl_cons] at R2 ⊢
    rw [← feed_append]; exact R2

end Tcell.LayerB
