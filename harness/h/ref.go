package h

import (
	"bufio"
	"io"
	"os"
	"os/exec"
	"path/filepath"
	"strings"
	"sync"
)

// Ref gives engines synchronous access to the reference definitions that live in Lean (the ECMA-48
// emulator, the terminfo(5) evaluator, …): it pipes one line to a persistent instance of the Lean driver
// and returns its one-line answer.  The driver binary is the one ./check built (VERIF_ROOT), reading the
// regenerated tables from VERIF_GEN.
type refProc struct {
	mu  sync.Mutex
	cmd *exec.Cmd
	in  io.WriteCloser
	out *bufio.Reader
}

var ref refProc

func Ref(line string) string {
	ref.mu.Lock()
	defer ref.mu.Unlock()
	if ref.cmd == nil {
		root := os.Getenv("VERIF_ROOT")
		if root == "" {
			root = "/verif"
		}
		gen := os.Getenv("VERIF_GEN")
		if gen == "" {
			gen = filepath.Join(root, "gen")
		}
		cmd := exec.Command(filepath.Join(root, "lean", ".lake", "build", "bin", "driver"), gen)
		in, err := cmd.StdinPipe()
		if err != nil {
			return "ref-error " + err.Error()
		}
		out, err := cmd.StdoutPipe()
		if err != nil {
			return "ref-error " + err.Error()
		}
		if err := cmd.Start(); err != nil {
			return "ref-error " + err.Error()
		}
		ref.cmd, ref.in, ref.out = cmd, in, bufio.NewReaderSize(out, 1<<20)
	}
	if _, err := io.WriteString(ref.in, strings.ReplaceAll(line, "\n", " ")+"\n"); err != nil {
		ref.cmd = nil
		return "ref-error " + err.Error()
	}
	ans, err := ref.out.ReadString('\n')
	if err != nil {
		ref.cmd = nil
		return "ref-error " + err.Error()
	}
	return strings.TrimRight(ans, "\n")
}
