// Package h holds what every engine of the correspondence harness shares: the seeded PRNG, the
// case/observation/finding plumbing and a few parsing helpers for the line protocol.
package h

import (
	"encoding/hex"
	"fmt"
	"sort"
	"strconv"
	"strings"
)

// Rand is splitmix64; every random choice of a run derives from one VERIF_SEED.
type Rand struct{ s uint64 }

// NewRand hashes the seed (one splitmix64 finaliser).  The state advances by the golden-ratio increment on every draw, so
// the former seeding `seed*increment + c` made the stream of seed k+1 the stream of seed k shifted by one draw: runs with
// VERIF_SEED=1,2,3… explored almost the same cases.
func NewRand(seed uint64) *Rand {
	z := seed + 0x9E3779B97F4A7C15
	z = (z ^ (z >> 30)) * 0xBF58476D1CE4E5B9
	z = (z ^ (z >> 27)) * 0x94D049BB133111EB
	return &Rand{s: (z ^ (z >> 31)) + 0x1234567}
}

func (r *Rand) U64() uint64 {
	r.s += 0x9E3779B97F4A7C15
	z := r.s
	z = (z ^ (z >> 30)) * 0xBF58476D1CE4E5B9
	z = (z ^ (z >> 27)) * 0x94D049BB133111EB
	return z ^ (z >> 31)
}
func (r *Rand) Intn(n int) int {
	if n <= 0 {
		return 0
	}
	return int(r.U64() % uint64(n))
}
func (r *Rand) Range(lo, hi int) int { return lo + r.Intn(hi-lo+1) } // inclusive
func (r *Rand) Bool() bool          { return r.U64()&1 == 1 }
func (r *Rand) Chance(pct int) bool { return r.Intn(100) < pct }
func Pick[T any](r *Rand, xs []T) T { return xs[r.Intn(len(xs))] }

// Finding is a concrete failure of the property statement on the real code, found by the oracle.
type Finding struct {
	Class string `json:"class"` // stable identifier of the failure class (matched against known_findings.json)
	Msg   string `json:"msg"`
}

// Result of executing one case on the implementation.
type Result struct {
	Obs        string    // canonical observation, compared with the Lean model's reply
	Findings   []Finding // oracle verdicts
	Nontrivial bool      // the case reached a state-changing branch named in the engine's rule
	Tags       []string  // branches / kinds hit, for the input-distribution statistics
	// Derived are further driver lines ("engine payload") built from what the implementation actually did
	// (e.g. the bytes it wrote), to be judged by a reference that lives in Lean: the driver must answer "ok";
	// any other answer is an oracle finding whose class is "ref:" + the first word of the answer.
	Derived []string
}

// Gen collects the cases an engine generates.
type Gen struct {
	R     *Rand
	Tier  string
	Lines []string
}

func (g *Gen) Emit(format string, a ...interface{}) {
	g.Lines = append(g.Lines, fmt.Sprintf(format, a...))
}
func (g *Gen) Thorough() bool { return g.Tier == "thorough" }

// N picks the number of cases for the tier.
func (g *Gen) N(quick, thorough int) int {
	if g.Thorough() {
		return thorough
	}
	return quick
}

type Engine struct {
	Name string
	Rule string // what makes a case non-trivial / distinct
	Gen  func(g *Gen)
	Exec func(line string) Result
}

var Engines = map[string]*Engine{}

func Register(e *Engine) { Engines[e.Name] = e }

func Hex(b []byte) string {
	if len(b) == 0 {
		return "-"
	}
	return hex.EncodeToString(b)
}
func Unhex(s string) []byte {
	if s == "-" || s == "" {
		return nil
	}
	b, _ := hex.DecodeString(s)
	return b
}
func Atoi(s string) int { n, _ := strconv.Atoi(s); return n }
func Atou(s string) uint64 {
	n, _ := strconv.ParseUint(s, 10, 64)
	return n
}
func IntList(s string) []int {
	if s == "-" || s == "" {
		return nil
	}
	var out []int
	for _, t := range strings.Split(s, ",") {
		out = append(out, Atoi(t))
	}
	return out
}
func ShowIntList(l []int) string {
	if len(l) == 0 {
		return "-"
	}
	ss := make([]string, len(l))
	for i, v := range l {
		ss[i] = strconv.Itoa(v)
	}
	return strings.Join(ss, ",")
}
func SplitTrim(s, sep string) []string {
	var out []string
	for _, t := range strings.Split(s, sep) {
		t = strings.TrimSpace(t)
		if t != "" {
			out = append(out, t)
		}
	}
	return out
}
func SortedKeys(m map[string]int) []string {
	ks := make([]string, 0, len(m))
	for k := range m {
		ks = append(ks, k)
	}
	sort.Strings(ks)
	return ks
}
