// racebin — the race-detector side of property C10.  Built with `go build -race -tags verif` against the same
// replace of tcell as the rest of the harness and started once per case by the `race` engine
// (harness/engines/race.go) with GORACE="halt_on_error=0 log_path=…".
//
//	racebin -mode pair  -screen tscreen|sim -a A -b B -cs CHARSET -ms N -seed S
//	    runs Screen methods A and B in tight loops from two goroutines on ONE live screen (terminfo screen on a
//	    FakeTty with the xterm-256color entry, or a SimulationScreen) while the library's own goroutines are fed:
//	    an injector pushes key/mouse/paste bytes into the tty and resizes it, a poller drains PollEvent.
//	-mode block  (terminfo screen only): no traffic; Sync alone gives the reference block B0 and B alone its own
//	    blocks; then Sync and B run concurrently and every Write the tty saw must be B0 or one of B's blocks.
//
//	pair mode ends with a WATCHDOG: once the stop flag is set both method loops must come back (events keep being
//	posted so that a blocked PollEvent wakes up); a loop that is still inside its call after 4 s is reported as
//	`stuck` with the tcell frames of the goroutines that are parked (a deadlock between two Screen calls, e.g. a
//	lock-order inversion between the screen mutex and a second mutex, is invisible to the race detector).
//
// stdout: one JSON object (iterations, block verdict, stuck).  The data-race reports go to the GORACE log.
package main

import (
	"bytes"
	"encoding/hex"
	"encoding/json"
	"flag"
	"fmt"
	"os"
	"regexp"
	"runtime"
	"strings"
	"sync"
	"sync/atomic"
	"time"

	"github.com/gdamore/tcell/v2"
	tenc "github.com/gdamore/tcell/v2/encoding"
	"github.com/gdamore/tcell/v2/terminfo"
	_ "github.com/gdamore/tcell/v2/terminfo/x/xterm"

	"verif/harness/engines"
)

// probeTty makes unsynchronised concurrent Write calls visible to the race detector: the counter stands for the
// output stream (pseudo-field `tty.out` of the facts).  FakeTty itself is internally locked.
type probeTty struct {
	*engines.FakeTty
	out int
}

func (p *probeTty) Write(b []byte) (int, error) {
	p.out++
	return p.FakeTty.Write(b)
}

type rnd struct{ s uint64 }

func (r *rnd) next() uint64 {
	r.s += 0x9E3779B97F4A7C15
	z := r.s
	z = (z ^ (z >> 30)) * 0xBF58476D1CE4E5B9
	z = (z ^ (z >> 27)) * 0x94D049BB133111EB
	return z ^ (z >> 31)
}
func (r *rnd) n(k int) int { return int(r.next() % uint64(k)) }

type env struct {
	s    tcell.Screen
	sim  tcell.SimulationScreen
	tty  *probeTty
	ti   *terminfo.Terminfo
	stop int32
	// quiet pauses the injected key traffic: Fini with keys in flight can strand inputLoop on `keychan <-` once mainLoop
	// has left (a liveness defect that belongs to property C06, not to this one)
	quiet   int32
	simFini int32
	// other: a second screen of the same kind in the same process (op OtherScreen): "concurrent use of one Screen" must not
	// reach the state of another one (package-level tables shared between screens)
	other     tcell.Screen
	otherOnce sync.Once
}

func (e *env) stopped() bool { return atomic.LoadInt32(&e.stop) != 0 }

var runes = []rune{'a', 'Z', ' ', 'é', 'ß', '世', '界', '€', 0x2500, 0x2592, 0x2190, 0x03b1, 0x0301}

type op func(e *env, r *rnd, i int)

var ops = map[string]op{
	"Clear":      func(e *env, r *rnd, i int) { e.s.Clear() },
	"Fill":       func(e *env, r *rnd, i int) { e.s.Fill(runes[r.n(len(runes))], tcell.StyleDefault.Bold(i&1 == 0)) },
	"SetCell":    func(e *env, r *rnd, i int) { e.s.SetCell(r.n(90), r.n(30), tcell.StyleDefault, runes[r.n(len(runes))]) },
	"GetContent": func(e *env, r *rnd, i int) { e.s.GetContent(r.n(90), r.n(30)) },
	"SetContent": func(e *env, r *rnd, i int) {
		e.s.SetContent(r.n(90), r.n(30), runes[r.n(len(runes))], nil, tcell.StyleDefault.Foreground(tcell.Color(r.n(300))|tcell.ColorValid))
	},
	"SetStyle":        func(e *env, r *rnd, i int) { e.s.SetStyle(tcell.StyleDefault.Reverse(i&1 == 0)) },
	"ShowCursor":      func(e *env, r *rnd, i int) { e.s.ShowCursor(r.n(80), r.n(24)) },
	"HideCursor":      func(e *env, r *rnd, i int) { e.s.HideCursor() },
	"SetCursorStyle":  func(e *env, r *rnd, i int) { e.s.SetCursorStyle(tcell.CursorStyle(r.n(7)), tcell.ColorRed) },
	"Size":            func(e *env, r *rnd, i int) { e.s.Size() },
	"HasPendingEvent": func(e *env, r *rnd, i int) { e.s.HasPendingEvent() },
	"PostEvent":       func(e *env, r *rnd, i int) { _ = e.s.PostEvent(tcell.NewEventInterrupt(i)) },
	"PostEventWait":   func(e *env, r *rnd, i int) { e.s.PostEventWait(tcell.NewEventInterrupt(i)) },
	"PollEvent":       func(e *env, r *rnd, i int) { e.s.PollEvent() },
	"ChannelEvents": func(e *env, r *rnd, i int) {
		ch := make(chan tcell.Event, 4)
		quit := make(chan struct{})
		go e.s.ChannelEvents(ch, quit)
		for k := 0; k < 3; k++ {
			select {
			case <-ch:
			case <-time.After(2 * time.Millisecond):
			}
		}
		close(quit)
	},
	"EnableMouse":   func(e *env, r *rnd, i int) { e.s.EnableMouse(tcell.MouseFlags(1 + r.n(7))) },
	"DisableMouse":  func(e *env, r *rnd, i int) { e.s.DisableMouse() },
	"EnablePaste":   func(e *env, r *rnd, i int) { e.s.EnablePaste() },
	"DisablePaste":  func(e *env, r *rnd, i int) { e.s.DisablePaste() },
	"EnableFocus":   func(e *env, r *rnd, i int) { e.s.EnableFocus() },
	"DisableFocus":  func(e *env, r *rnd, i int) { e.s.DisableFocus() },
	"HasMouse":      func(e *env, r *rnd, i int) { e.s.HasMouse() },
	"Colors":        func(e *env, r *rnd, i int) { e.s.Colors() },
	"Show":          func(e *env, r *rnd, i int) { e.s.Show() },
	"Sync":          func(e *env, r *rnd, i int) { e.s.Sync() },
	"CharacterSet":  func(e *env, r *rnd, i int) { e.s.CharacterSet() },
	"RegisterRuneFallback": func(e *env, r *rnd, i int) {
		e.s.RegisterRuneFallback(runes[r.n(len(runes))], "x")
	},
	"UnregisterRuneFallback": func(e *env, r *rnd, i int) {
		if i%2 == 0 { // also fallbacks the package registers by default (a screen that never registered anything itself)
			e.s.UnregisterRuneFallback([]rune{tcell.RuneHLine, tcell.RuneRArrow, tcell.RuneBullet, tcell.RuneDegree}[r.n(4)])
			return
		}
		e.s.UnregisterRuneFallback(runes[r.n(len(runes))])
	},
	// a second screen created in the same process (same charset), drawing runes that need the fallback table and asking
	// CanDisplay: it is never touched by the other loop
	"OtherScreen": func(e *env, r *rnd, i int) {
		e.otherOnce.Do(func() {
			if e.sim != nil {
				o := tcell.NewSimulationScreen(e.sim.CharacterSet())
				if o.Init() == nil {
					e.other = o
				}
				return
			}
			ti := *e.ti
			o, err := tcell.NewTerminfoScreenFromTtyTerminfo(engines.NewFakeTty(20, 4), &ti)
			if err == nil && o.Init() == nil {
				e.other = o
				go func() {
					for o.PollEvent() != nil {
					}
				}()
			}
		})
		if e.other == nil {
			return
		}
		rr := []rune{tcell.RuneHLine, tcell.RuneRArrow, tcell.RuneBullet, tcell.RuneDegree, 0x2190, 0x2592}[r.n(6)]
		e.other.SetContent(r.n(20), r.n(4), rr, nil, tcell.StyleDefault)
		e.other.CanDisplay(rr, true)
		e.other.Show()
	},
	"CanDisplay":             func(e *env, r *rnd, i int) { e.s.CanDisplay(runes[r.n(len(runes))], true) },
	"Resize":                 func(e *env, r *rnd, i int) { e.s.Resize(0, 0, 10, 10) },
	"HasKey":                 func(e *env, r *rnd, i int) { e.s.HasKey(tcell.Key(256 + r.n(80))) },
	"Suspend": func(e *env, r *rnd, i int) {
		_ = e.s.Suspend()
		_ = e.s.Resume()
		time.Sleep(200 * time.Microsecond)
	},
	"Resume": func(e *env, r *rnd, i int) { _ = e.s.Resume() },
	// a PRIVATE terminfo screen per iteration: Init (engage) … then Suspend;Resume on one goroutine against Fini on
	// another — the lifecycle calls of a whole screen life, loops started by Init included
	"InitFini": func(e *env, r *rnd, i int) {
		if e.ti == nil {
			return
		}
		// its own copy of the description: the constructor amends the entry it is given (ti.XTermLike, tscreen.go:514), and
		// constructing two screens at once from one shared entry is not "concurrent use of ONE Screen"
		ti := *e.ti
		tty := engines.NewFakeTty(80, 24)
		s, err := tcell.NewTerminfoScreenFromTtyTerminfo(tty, &ti)
		if err != nil || s.Init() != nil {
			return
		}
		tty.Inject([]byte("ab\x1b[A"))
		s.SetContent(1, 1, 'x', nil, tcell.StyleDefault)
		s.Show()
		tty.Resize(70+r.n(20), 20+r.n(8))
		var wg sync.WaitGroup
		wg.Add(2)
		go func() { defer wg.Done(); _ = s.Suspend(); _ = s.Resume(); s.Show() }()
		go func() {
			defer wg.Done()
			if i&1 == 0 {
				time.Sleep(time.Duration(r.n(300)) * time.Microsecond)
			}
			s.Fini()
		}()
		wg.Wait()
		s.Fini()
	},
	"Beep":   func(e *env, r *rnd, i int) { _ = e.s.Beep() },
	"SetSize": func(e *env, r *rnd, i int) {
		e.s.SetSize(60+r.n(30), 20+r.n(10))
	},
	"LockRegion":   func(e *env, r *rnd, i int) { e.s.LockRegion(r.n(10), r.n(10), 3, 3, i&1 == 0) },
	"Tty":          func(e *env, r *rnd, i int) { e.s.Tty() },
	"SetTitle":     func(e *env, r *rnd, i int) { e.s.SetTitle("t" + fmt.Sprint(i&7)) },
	"SetClipboard": func(e *env, r *rnd, i int) { e.s.SetClipboard([]byte{byte(i), 'x'}) },
	"GetClipboard": func(e *env, r *rnd, i int) { e.s.GetClipboard() },
	// Fini can only run once: it is issued after a third of the run, the partner keeps going on the finished screen
	"Fini": func(e *env, r *rnd, i int) {
		if i == 0 && e.sim != nil && !atomic.CompareAndSwapInt32(&e.simFini, 0, 1) {
			// simscreen.Fini is not idempotent (simulation.go:152 closes s.quit again: "close of closed channel" on a second
			// call, sequentially too — not a concurrency matter); the pair (Fini, Fini) finishes a SimulationScreen once.
			// tScreen.Fini goes through finiOnce and IS called from both loops.
			time.Sleep(time.Millisecond)
			return
		}
		if i == 0 {
			time.Sleep(20 * time.Millisecond)
			atomic.StoreInt32(&e.quiet, 1)
			time.Sleep(20 * time.Millisecond) // let mainLoop drain keychan even when it is starved of the lock
			e.s.Fini()
		} else {
			time.Sleep(time.Millisecond)
		}
	},
	// SimulationScreen extras
	"InjectKeyBytes":   func(e *env, r *rnd, i int) { e.sim.InjectKeyBytes([]byte{'a', 0xc3, 0xa9, 0x1b, 'b'}) },
	"InjectKey":        func(e *env, r *rnd, i int) { e.sim.InjectKey(tcell.KeyRune, 'k', tcell.ModNone) },
	"InjectMouse":      func(e *env, r *rnd, i int) { e.sim.InjectMouse(r.n(80), r.n(25), tcell.Button1, tcell.ModNone) },
	"GetContents":      func(e *env, r *rnd, i int) { e.sim.GetContents() },
	"GetCursor":        func(e *env, r *rnd, i int) { e.sim.GetCursor() },
	"GetTitle":         func(e *env, r *rnd, i int) { e.sim.GetTitle() },
	"GetClipboardData": func(e *env, r *rnd, i int) { e.sim.GetClipboardData() },
}

func newEnv(screen, cs string) (*env, error) {
	e := &env{}
	if screen == "sim" {
		e.sim = tcell.NewSimulationScreen(cs)
		e.s = e.sim
		return e, e.s.Init()
	}
	lang := "en_US." + cs
	os.Setenv("LC_ALL", lang)
	os.Setenv("LANG", lang)
	os.Unsetenv("LINES")
	os.Unsetenv("COLUMNS")
	os.Unsetenv("TCELL_TRUECOLOR")
	os.Unsetenv("TCELL_ALTSCREEN")
	ti, err := terminfo.LookupTerminfo("xterm-256color")
	if err != nil {
		return nil, err
	}
	e.ti = ti
	e.tty = &probeTty{FakeTty: engines.NewFakeTty(80, 24)}
	s, err := tcell.NewTerminfoScreenFromTtyTerminfo(e.tty, ti)
	if err != nil {
		return nil, err
	}
	e.s = s
	return e, s.Init()
}

// touch reads every field of a delivered event through its accessors
func touch(x tcell.Event) {
	switch v := x.(type) {
	case nil:
	case *tcell.EventResize:
		v.Size()
		v.PixelSize()
		v.When()
	case *tcell.EventKey:
		v.Key()
		v.Rune()
		v.Modifiers()
		v.When()
	case *tcell.EventMouse:
		v.Position()
		v.Buttons()
		v.Modifiers()
		v.When()
	case *tcell.EventPaste:
		v.Start()
		v.When()
	default:
		x.When()
	}
}

func paint(e *env) {
	for y := 0; y < 24; y++ {
		for x := 0; x < 80; x++ {
			e.s.SetContent(x, y, runes[(x+y)%len(runes)], nil, tcell.StyleDefault.Foreground(tcell.Color((x*y)%200)|tcell.ColorValid))
		}
	}
}

func runLoop(e *env, name string, seed uint64, cnt *int64, done chan struct{}) {
	if done != nil {
		defer close(done)
	}
	f := ops[name]
	r := &rnd{s: seed}
	for i := 0; !e.stopped(); i++ {
		f(e, r, i)
		atomic.AddInt64(cnt, 1)
	}
}

var stackFnRe = regexp.MustCompile(`^github\.com/gdamore/tcell/v2\.\(\*(tScreen|baseScreen|simscreen)\)\.([A-Za-z]+)`)

// parkedIn: for every goroutine of the dump that is inside a screen method, "outermost<-…<-innermost [state]"
func parkedIn(dump string) []string {
	var out []string
	for _, g := range strings.Split(dump, "\n\n") {
		lines := strings.Split(g, "\n")
		if len(lines) == 0 || !strings.HasPrefix(lines[0], "goroutine ") {
			continue
		}
		state := lines[0]
		if i := strings.Index(state, "["); i >= 0 {
			state = strings.TrimSuffix(strings.TrimSpace(state[i:]), ":")
		}
		var fns []string
		for _, l := range lines[1:] {
			if m := stackFnRe.FindStringSubmatch(l); m != nil {
				fns = append(fns, m[2])
			}
		}
		if len(fns) == 0 {
			continue
		}
		for a, b := 0, len(fns)-1; a < b; a, b = a+1, b-1 {
			fns[a], fns[b] = fns[b], fns[a]
		}
		out = append(out, strings.Join(fns, ">")+" "+state)
	}
	return out
}

var inputs = [][]byte{
	[]byte("a"), []byte("hello"), []byte("\x1b[A"), []byte("\x1b[<0;5;5M"), []byte("\x1b[<0;5;5m"), []byte("\x1b[I"), []byte("\x1b[O"),
	[]byte("\x1b[200~"), []byte("pasted"), []byte("\x1b[201~"), []byte("\x1b"), []byte("\xc3\xa9"), []byte("\x1bOP"), []byte("\x1b[M !!"),
}

func main() {
	mode := flag.String("mode", "pair", "pair|block")
	screen := flag.String("screen", "tscreen", "tscreen|sim")
	a := flag.String("a", "Show", "")
	b := flag.String("b", "Beep", "")
	cs := flag.String("cs", "UTF-8", "")
	ms := flag.Int("ms", 1000, "")
	seed := flag.Uint64("seed", 1, "")
	flag.Parse()
	tenc.Register()
	out := map[string]interface{}{"mode": *mode, "a": *a, "b": *b}
	fail := func(msg string) {
		out["error"] = msg
		j, _ := json.Marshal(out)
		fmt.Println(string(j))
		os.Exit(3)
	}
	if ops[*a] == nil || ops[*b] == nil {
		fail("unknown op")
	}
	e, err := newEnv(*screen, *cs)
	if err != nil {
		fail("init: " + err.Error())
	}
	out["charset"] = e.s.CharacterSet()
	if e.sim == nil && (*a == "InjectKey" || *a == "InjectKeyBytes" || *a == "InjectMouse" || *a == "GetContents" || *a == "GetCursor" || *a == "GetTitle" || *a == "GetClipboardData" ||
		*b == "InjectKey" || *b == "InjectKeyBytes" || *b == "InjectMouse" || *b == "GetContents" || *b == "GetCursor" || *b == "GetTitle" || *b == "GetClipboardData") {
		fail("simulation-only op on terminfo screen")
	}
	if *a == "Fini" || *b == "Fini" {
		// no key traffic at all in runs that finish the screen (resize traffic stays): see env.quiet
		atomic.StoreInt32(&e.quiet, 1)
	}
	paint(e)
	e.s.Show()
	var ca, cb, ev int64
	dur := time.Duration(*ms) * time.Millisecond
	if *mode == "block" {
		if e.tty == nil {
			fail("block mode needs the terminfo screen")
		}
		e.tty.TakeWrites()
		e.s.Sync()
		w1 := e.tty.TakeWrites()
		e.s.Sync()
		w2 := e.tty.TakeWrites()
		if len(w1) != 1 || len(w2) != 1 || !bytes.Equal(w1[0], w2[0]) {
			out["block_skipped"] = fmt.Sprintf("Sync alone is not one reproducible block (%d, %d writes)", len(w1), len(w2))
			j, _ := json.Marshal(out)
			fmt.Println(string(j))
			return
		}
		b0 := w1[0]
		alone := map[string]bool{}
		// B is made deterministic here (same arguments on every call) so that the blocks it emits alone are ALL the
		// blocks it can legitimately emit
		detB := func(e *env, _ *rnd, _ int) { ops[*b](e, &rnd{s: *seed}, 0) }
		ops["<B>"] = detB
		for i := 0; i < 8; i++ {
			detB(e, nil, 0)
			for _, w := range e.tty.TakeWrites() {
				alone[string(w)] = true
			}
		}
		// B may have changed the block (cursor, style …): only ops that leave Sync's block alone are meaningful here
		e.s.Sync()
		w3 := e.tty.TakeWrites()
		if len(w3) != 1 || !bytes.Equal(w3[0], b0) {
			out["block_skipped"] = "op changes the Sync block"
			j, _ := json.Marshal(out)
			fmt.Println(string(j))
			return
		}
		go runLoop(e, "Sync", *seed+1, &ca, nil)
		go runLoop(e, "<B>", *seed, &cb, nil)
		time.Sleep(dur)
		atomic.StoreInt32(&e.stop, 1)
		time.Sleep(20 * time.Millisecond)
		bad, first := 0, ""
		ws := e.tty.TakeWrites()
		nb0 := 0
		for _, w := range ws {
			if bytes.Equal(w, b0) {
				nb0++
				continue
			}
			if alone[string(w)] {
				continue
			}
			bad++
			if first == "" {
				k := 0
				for k < len(w) && k < len(b0) && w[k] == b0[k] {
					k++
				}
				lo, hi := k-8, k+8
				if lo < 0 {
					lo = 0
				}
				if hi > len(w) {
					hi = len(w)
				}
				first = fmt.Sprintf("write of %d bytes (Sync block alone: %d) departs at offset %d: …%s…", len(w), len(b0), k, hex.EncodeToString(w[lo:hi]))
			}
		}
		out["writes"], out["whole_sync_blocks"], out["block_bad"], out["first_bad"] = len(ws), nb0, bad, first
		out["iters"] = map[string]int64{"Sync": atomic.LoadInt64(&ca), *b: atomic.LoadInt64(&cb)}
		j, _ := json.Marshal(out)
		fmt.Println(string(j))
		return
	}
	// ---- pair mode ----
	// poller
	var held [6]tcell.Event
	nheld := 0
	go func() {
		for {
			x := e.s.PollEvent()
			if x == nil {
				// after Fini PollEvent returns nil at once
				time.Sleep(time.Millisecond)
				if e.stopped() {
					return
				}
				continue
			}
			atomic.AddInt64(&ev, 1)
			// an application HOLDS the events it was handed and reads them later, while other goroutines call the screen:
			// the last few events are read again at every delivery
			held[nheld%len(held)] = x
			nheld++
			for _, hx := range held {
				touch(hx)
			}
		}
	}()
	// traffic into the library's own goroutines
	if e.tty != nil {
		go func() {
			r := &rnd{s: *seed ^ 0xabcdef}
			for i := 0; !e.stopped(); i++ {
				if atomic.LoadInt32(&e.quiet) == 0 {
					e.tty.Inject(inputs[r.n(len(inputs))])
				}
				e.tty.TakeWrites() // keep the recording tty small
				e.tty.TakeLog()
				if i%3 == 0 {
					e.tty.Resize(70+r.n(20), 20+r.n(8))
				}
				time.Sleep(time.Duration(300+r.n(1200)) * time.Microsecond)
			}
		}()
	}
	da, db := make(chan struct{}), make(chan struct{})
	go runLoop(e, *a, *seed, &ca, da)
	go runLoop(e, *b, *seed+7, &cb, db)
	time.Sleep(dur)
	atomic.StoreInt32(&e.stop, 1)
	// watchdog: both loops must return from the call they are in
	deadline := time.After(4 * time.Second)
	tick := time.NewTicker(time.Millisecond)
	var stuck []string
wait:
	for da != nil || db != nil {
		select {
		case <-da:
			da = nil
		case <-db:
			db = nil
		case <-tick.C:
			_ = e.s.PostEvent(tcell.NewEventInterrupt(nil)) // wakes a PollEvent that is waiting for traffic
		case <-deadline:
			if da != nil {
				stuck = append(stuck, *a)
			}
			if db != nil {
				stuck = append(stuck, *b)
			}
			break wait
		}
	}
	tick.Stop()
	if len(stuck) > 0 {
		buf := make([]byte, 1<<20)
		buf = buf[:runtime.Stack(buf, true)]
		out["stuck"] = stuck
		out["parked"] = parkedIn(string(buf))
	}
	time.Sleep(10 * time.Millisecond)
	out["iters"] = map[string]int64{"a": atomic.LoadInt64(&ca), "b": atomic.LoadInt64(&cb)}
	out["events"] = atomic.LoadInt64(&ev)
	j, _ := json.Marshal(out)
	fmt.Println(string(j))
}
