// sched — the schedule-controlled side of properties C05 and C06.  Built with `-tags "verif verifsched"` against the
// same replace of tcell as the rest of the harness; started once per case by engine `pipe` (harness/engines/pipe.go).
//
//	sched -line '<case payload>'      prints one JSON object {obs, trace, findings, tags, info}
//
// The real terminfo screen (NewTerminfoScreenFromTtyTerminfo over an in-memory tty) runs with the schedule points
// of verif_sched.go routed to a *serialising controller*: every goroutine of the library and of the test (feeder,
// consumer, posters, drawer, director) stops at its next blocking operation ("parking point"); when all are parked
// the controller picks — with the case's PRNG — one whose operation is enabled in the tracked channel state and lets
// it run to its next parking point.  So exactly one goroutine runs at a time, the log of points is the exact order of
// the channel operations (the trace the Lean model replays), queue fill levels at the moment of Fini/Suspend are
// chosen, not hoped for, and a state in which nothing is enabled while Fini/Suspend has not returned is a structural
// deadlock.  The verdict on a hang is never the controller's opinion: all goroutines are then released to run
// freely, and only if the call has still not returned after VERIF_HANG_MS (default 6000 ms) is the goroutine dump
// taken and the finding `hang:<call>:<parked tcell frame>` reported.
package main

import (
	"encoding/hex"
	"encoding/json"
	"errors"
	"flag"
	"fmt"
	"io"
	"os"
	"regexp"
	"runtime"
	"sort"
	"strconv"
	"strings"
	"sync"
	"sync/atomic"
	"time"

	"github.com/gdamore/tcell/v2"
	"github.com/gdamore/tcell/v2/terminfo"
	_ "github.com/gdamore/tcell/v2/terminfo/x/xterm"
)

// ---------------------------------------------------------------------------------------------------- PRNG

type rnd struct{ s uint64 }

func (r *rnd) next() uint64 {
	r.s += 0x9E3779B97F4A7C15
	z := r.s
	z = (z ^ (z >> 30)) * 0xBF58476D1CE4E5B9
	z = (z ^ (z >> 27)) * 0x94D049BB133111EB
	return z ^ (z >> 31)
}
func (r *rnd) n(k int) int {
	if k <= 0 {
		return 0
	}
	return int(r.next() % uint64(k))
}

// ---------------------------------------------------------------------------------------------------- tty

// stty is the in-memory tty (same contract as engines.FakeTty: Read blocks until a chunk, a fault, Drain, Stop or
// Close; "Drain ensures that the reader will wake up").  Under the controller Read is a parking point that is only
// granted when it would not block.
type stty struct {
	mu       sync.Mutex
	cond     *sync.Cond
	w, h     int
	chunks   [][]byte
	readErr  error
	draining bool
	stopped  bool
	closed   bool
	cb       func()
	calls    []string
	c        *ctl
	failStart bool // the next Start fails (the terminal is temporarily unavailable), one shot
}

func newTty(c *ctl, w, h int) *stty {
	t := &stty{w: w, h: h, stopped: true, c: c}
	t.cond = sync.NewCond(&t.mu)
	return t
}
func (t *stty) call(s string) { t.calls = append(t.calls, s) }
func (t *stty) Start() error {
	t.mu.Lock()
	defer t.mu.Unlock()
	t.call("Start")
	if t.failStart {
		t.failStart = false
		return errors.New("tty: temporarily unavailable")
	}
	t.stopped, t.draining = false, false
	return nil
}
func (t *stty) Stop() error {
	t.mu.Lock()
	defer t.mu.Unlock()
	t.call("Stop")
	t.stopped = true
	t.cond.Broadcast()
	return nil
}
func (t *stty) Drain() error {
	t.mu.Lock()
	defer t.mu.Unlock()
	t.call("Drain")
	t.draining = true
	t.cond.Broadcast()
	return nil
}
func (t *stty) Close() error {
	t.mu.Lock()
	defer t.mu.Unlock()
	t.call("Close")
	t.closed = true
	t.cond.Broadcast()
	return nil
}
func (t *stty) NotifyResize(cb func()) {
	t.mu.Lock()
	defer t.mu.Unlock()
	t.cb = cb
}
func (t *stty) WindowSize() (tcell.WindowSize, error) {
	t.mu.Lock()
	defer t.mu.Unlock()
	return tcell.WindowSize{Width: t.w, Height: t.h}, nil
}
func (t *stty) Write(b []byte) (int, error) {
	t.mu.Lock()
	defer t.mu.Unlock()
	if t.stopped {
		t.call("Write-after-Stop")
	}
	return len(b), nil
}
func (t *stty) readable() bool { // caller holds t.mu
	return t.closed || t.readErr != nil || len(t.chunks) > 0 || t.draining || t.stopped
}
func (t *stty) Read(b []byte) (int, error) {
	t.c.point("tty-read")
	t.mu.Lock()
	defer t.mu.Unlock()
	for {
		if t.closed {
			return 0, io.EOF
		}
		if t.readErr != nil {
			e := t.readErr
			t.readErr = nil
			return 0, e
		}
		if len(t.chunks) > 0 {
			c := t.chunks[0]
			n := copy(b, c)
			if n < len(c) {
				t.chunks[0] = c[n:]
			} else {
				t.chunks = t.chunks[1:]
			}
			return n, nil
		}
		if t.draining || t.stopped {
			return 0, nil
		}
		t.cond.Wait()
	}
}
func (t *stty) inject(b []byte) {
	t.mu.Lock()
	t.chunks = append(t.chunks, append([]byte(nil), b...))
	t.cond.Broadcast()
	t.mu.Unlock()
}
func (t *stty) fail() {
	t.mu.Lock()
	t.readErr = errors.New("injected read error")
	t.cond.Broadcast()
	t.mu.Unlock()
}
func (t *stty) resize(w, h int) {
	t.mu.Lock()
	t.w, t.h = w, h
	cb := t.cb
	t.mu.Unlock()
	if cb != nil {
		cb()
	}
}
func (t *stty) ncalls() int {
	t.mu.Lock()
	defer t.mu.Unlock()
	return len(t.calls)
}

// ---------------------------------------------------------------------------------------------------- controller

type gor struct {
	name   string
	id     int64
	parked bool
	point  string
	vals   []int
	cond   func() bool // enabledness of an actor-level parking point (nil = always)
	stall  bool        // if cond does not hold, still granted when nothing else can move (a stall)
	must   bool        // consumer: HasPendingEvent was true, the next poll must be enabled
	grant  chan struct{}
	done   bool
	weight int
}

type ctl struct {
	mu      sync.Mutex
	gs      map[int64]*gor
	order   []*gor
	running int
	wake    chan struct{}
	free    atomic.Bool
	freeCh  chan struct{}
	onPoll  func(g *gor, qlen int)
	hooks   bool
	trace   []string
	r       rnd
	weights map[string]int
	steps   int
	tty     *stty
	errs    []string
	// tracked channel state (cross-checked against the len/cap values the points report)
	eq, eqCap, kc, kcCap, rq int
	quit, stop               bool
	wg                       int
	timer                    bool
	chLen, chCap             int
	chClosed, userQuit       bool
	epoch                    int
	unplannedExpire          bool
	shutdownIn               string // "" | fini | suspend : the director is inside that call
	inErrRunning             map[int64]bool
	feedPending              int
	lastGrant, lastPoint     string
	freeConds                bool // (unused: conditions on tracked state mean nothing once the points are off)
	fixed                    bool // variant=stopq: scanInput and inputLoop also select on stopQ (fixes/C06-shutdown-selects-stopq.patch)
	tagf                     func(string) // situation tags (evidence: the boundary situations do occur); never takes c.mu
	postAtEdge               map[string]bool // posters that called PostEvent with the queue at cap-1 or cap
}

var goidRe = regexp.MustCompile(`^goroutine (\d+) `)

func goid() int64 {
	var b [64]byte
	n := runtime.Stack(b[:], false)
	m := goidRe.FindSubmatch(b[:n])
	if m == nil {
		return -1
	}
	v, _ := strconv.ParseInt(string(m[1]), 10, 64)
	return v
}

var parking = map[string]bool{
	"tty-read": true, "in-top": true, "in-send": true, "in-err": true, "main-select": true, "scan-send": true,
	"dis-enter": true, "dis-wait": true, "fin-enter": true, "poll": true, "post": true, "postw": true,
	"ce-select": true, "ce-fwd": true,
}
var exitPoint = map[string]bool{"in-exit": true, "main-exit": true, "ce-close": true}

func libName(id string) string {
	switch {
	case strings.HasPrefix(id, "in-") || id == "tty-read":
		return "in"
	case strings.HasPrefix(id, "main-") || strings.HasPrefix(id, "scan-"):
		return "main"
	case strings.HasPrefix(id, "ce-"):
		return "ce"
	}
	return "ext"
}

func (c *ctl) signal() {
	select {
	case c.wake <- struct{}{}:
	default:
	}
}

func (c *ctl) errf(f string, a ...interface{}) {
	if len(c.errs) < 20 {
		c.errs = append(c.errs, fmt.Sprintf(f, a...))
	}
}

// register makes the calling convention explicit for test goroutines: call before `go`, with the lock NOT held.
func (c *ctl) spawn(name string, f func()) {
	c.mu.Lock()
	c.running++
	c.mu.Unlock()
	go func() {
		id := goid()
		c.mu.Lock()
		g := &gor{name: name, id: id, grant: make(chan struct{}, 1), weight: c.weightOf(name)}
		c.gs[id] = g
		c.order = append(c.order, g)
		c.mu.Unlock()
		f()
		c.mu.Lock()
		g.done = true
		if !c.free.Load() {
			c.running--
			c.signal()
		}
		c.mu.Unlock()
	}()
}

func (c *ctl) weightOf(name string) int {
	base := strings.TrimRight(name, "0123456789")
	if w, ok := c.weights[base]; ok && w > 0 {
		return w
	}
	return 3
}

func (c *ctl) tok(g *gor, id string, vals []int) {
	s := g.name + "." + id
	if len(vals) > 0 {
		ss := make([]string, len(vals))
		for i, v := range vals {
			ss[i] = strconv.Itoa(v)
		}
		s += ":" + strings.Join(ss, ",")
	}
	c.trace = append(c.trace, s)
}

// env logs an environment/test action (already performed or about to be performed by the running goroutine)
func (c *ctl) env(s string) {
	if c.free.Load() {
		return
	}
	c.mu.Lock()
	g := c.gs[goid()]
	n := "ext"
	if g != nil {
		n = g.name
	}
	c.trace = append(c.trace, n+"."+s)
	c.mu.Unlock()
}

func (c *ctl) check(id string, what string, got, want int) {
	if got != want {
		c.errf("desync at %s: %s reported %d, controller tracked %d", id, what, got, want)
	}
}

// track updates the channel state from a point (lock held)
func (c *ctl) track(g *gor, id string, v []int) {
	at := func(i int) int {
		if i < len(v) {
			return v[i]
		}
		return -1
	}
	tag := func(t string) {
		if c.tagf != nil {
			c.tagf(t)
		}
	}
	switch id { // situation tags only (no effect on the tracked state)
	case "resize-post":
		if at(1) > 0 && at(0) == at(1) {
			tag("resize-at-full-queue")
		} else if at(1) > 0 && at(0) == at(1)-1 {
			tag("resize-takes-last-slot")
		}
		if c.shutdownIn != "" {
			tag("resize-post-during-" + c.shutdownIn)
		}
	case "resize-drop":
		tag("resize-dropped")
	case "notify":
		if c.shutdownIn != "" {
			tag("notify-during-" + c.shutdownIn)
		}
		if c.eqCap > 0 && c.eq == c.eqCap {
			tag("notify-at-full-queue")
		}
	case "main-resize":
		if c.stop {
			tag("main-resize-after-stopq-closed")
		}
	case "post":
		if at(1) > 0 && (at(0) == at(1)-1 || at(0) == at(1)) {
			if at(0) == at(1) {
				tag("post-at-cap")
			} else {
				tag("post-at-cap-1")
			}
			c.postAtEdge[g.name] = true
			if len(c.postAtEdge) >= 2 {
				tag("post-boundary-multi")
			}
		}
	case "post-sent":
		if c.eqCap > 0 && at(0) == c.eqCap {
			tag("post-filled-last-slot")
		}
	case "scan-send":
		if at(1) > 0 && at(0) == at(1) && c.rq > 0 {
			tag("resize-pending-while-scan-blocked")
		}
	}
	switch id {
	case "fin-closed":
		c.quit = true
	case "resize-post", "scan-send", "poll", "pending", "post", "postw", "ce-select":
		c.check(id, "len(eventQ)", at(0), c.eq)
		c.eqCap = at(1)
	case "resize-sent", "scan-sent", "in-err-sent", "post-sent", "postw-sent":
		c.eq++
		c.check(id, "len(eventQ)", at(0), c.eq)
	case "resize-drop", "post-full":
		c.check(id, "len(eventQ)", at(0), c.eq)
		if c.eq != c.eqCap {
			c.errf("%s with eventQ %d/%d", id, c.eq, c.eqCap)
		}
	case "poll-ev", "ce-ev":
		c.eq--
		c.check(id, "len(eventQ)", at(0), c.eq)
	case "scan-evs":
		if at(2) == 1 && at(0) > 0 {
			// the escape timer decoded buffered bytes on their own.  That is the documented behaviour for input that
			// arrives slowly; it voids the exact sequence expectation unless no further input was outstanding.
			c.tty.mu.Lock()
			out := len(c.tty.chunks) > 0
			c.tty.mu.Unlock()
			for _, o := range c.order {
				if o.name == "in" && !o.done && o.parked && o.point == "in-send" {
					out = true
				}
			}
			if out || c.kc > 0 || c.feedPending > 0 {
				c.unplannedExpire = true
			}
		}
	case "main-select":
		c.check(id, "len(keychan)", at(0), c.kc)
		c.kcCap = at(1)
		c.check(id, "len(resizeQ)", at(2), c.rq)
	case "main-resize":
		c.rq--
		c.check(id, "len(resizeQ)", at(0), c.rq)
	case "main-timer":
		c.timer = false
	case "main-timer-end", "main-chunk-end":
		c.timer = at(0) > 0
	case "main-chunk":
		c.kc--
		c.check(id, "len(keychan)", at(1), c.kc)
	case "in-err":
		c.check(id, "len(eventQ)", at(1), c.eq)
		c.inErrRunning[g.id] = at(0) == 1
	case "in-send":
		c.check(id, "len(keychan)", at(0), c.kc)
		c.kcCap = at(1)
	case "in-sent":
		c.kc++
		c.check(id, "len(keychan)", at(0), c.kc)
	case "in-exit", "main-exit":
		c.wg--
	case "notify":
		c.check(id, "len(resizeQ)", at(0), c.rq)
		if c.rq < at(1) {
			c.rq++
		}
	case "eng-spawn":
		c.wg += at(0)
		c.running += at(0)
		c.stop = false
		c.epoch++
	case "dis-stopped":
		c.stop = true
	case "ce-fwd":
		c.check(id, "len(ch)", at(0), c.chLen)
		c.chCap = at(1)
	case "ce-fwd-sent":
		c.chLen++
		c.check(id, "len(ch)", at(0), c.chLen)
	case "ce-close":
		c.chClosed = true
	}
}

// what mainLoop reports about its input buffer, recorded in both modes (plain atomics: the only observation of the points
// that is kept once the goroutines run freely): bytes taken out of keychan so far, and buf.Len() at the end of the last
// chunk / timer branch (-1 while a chunk is being scanned)
var mainRecv, mainBuf atomic.Int64

// mainHeldSince: when mainLoop last went back to its select holding an incomplete sequence (0: holds nothing);
// mainWorstGap: the longest time such a held sequence had to wait for the next chunk (op `tailwait` judges only runs in
// which that stayed well below the 50 ms escape timeout: a longer wait is a legitimate timeout, not a defect)
var mainHeldSince, mainWorstGap atomic.Int64

// mainChunkStart / mainLongestScan: how long the main loop took over one chunk (scanInput blocked on a full event queue)
var mainChunkStart, mainLongestScan atomic.Int64

// mainFirstHeld: when the main loop FIRST went back to its select holding an incomplete sequence; firstInjAt: when the
// director first handed real-time input to the tty (op `inj`)
var mainFirstHeld, firstInjAt atomic.Int64

func (c *ctl) point(id string, vals ...int) {
	switch id {
	case "main-chunk":
		if len(vals) > 0 {
			mainBuf.Store(-1)
			mainRecv.Add(int64(vals[0]))
		}
		if t0 := mainHeldSince.Load(); t0 != 0 {
			if gap := time.Now().UnixNano() - t0; gap > mainWorstGap.Load() {
				mainWorstGap.Store(gap)
			}
		}
		mainChunkStart.Store(time.Now().UnixNano())
	case "main-chunk-end", "main-timer-end":
		if t0 := mainChunkStart.Load(); id == "main-chunk-end" && t0 != 0 {
			if d := time.Now().UnixNano() - t0; d > mainLongestScan.Load() {
				mainLongestScan.Store(d)
			}
		}
		if len(vals) > 0 {
			mainBuf.Store(int64(vals[0]))
			if vals[0] > 0 {
				if id == "main-chunk-end" || mainHeldSince.Load() == 0 {
					mainHeldSince.Store(time.Now().UnixNano())
				}
				mainFirstHeld.CompareAndSwap(0, time.Now().UnixNano())
			} else {
				mainHeldSince.Store(0)
			}
		}
	}
	if c.free.Load() {
		return
	}
	gid := goid()
	c.mu.Lock()
	if c.free.Load() {
		c.mu.Unlock()
		return
	}
	g := c.gs[gid]
	if g == nil { // first point of a goroutine the library started (counted as running since eng-spawn / ce start)
		g = &gor{name: libName(id), id: gid, grant: make(chan struct{}, 1)}
		g.weight = c.weightOf(g.name)
		c.gs[gid] = g
		c.order = append(c.order, g)
	}
	c.tok(g, id, vals)
	c.track(g, id, vals)
	if id == "poll" && c.onPoll != nil && len(vals) > 0 {
		c.onPoll(g, vals[0])
	}
	if exitPoint[id] {
		g.done = true
		c.running--
		c.signal()
		c.mu.Unlock()
		return
	}
	if !parking[id] {
		c.mu.Unlock()
		return
	}
	g.parked, g.point, g.vals, g.cond, g.stall = true, id, vals, nil, false
	c.running--
	c.signal()
	c.mu.Unlock()
	<-g.grant
}

// park is the actor-level parking point: the goroutine waits until cond holds (and, with stall, until nothing else
// can move) and the controller picks it.
func (c *ctl) park(id string, cond func() bool, stall bool) {
	if c.free.Load() {
		c.freeWait(cond)
		return
	}
	gid := goid()
	c.mu.Lock()
	if c.free.Load() {
		c.mu.Unlock()
		c.freeWait(cond)
		return
	}
	g := c.gs[gid]
	g.parked, g.point, g.vals, g.cond, g.stall = true, id, nil, cond, stall
	c.running--
	c.signal()
	c.mu.Unlock()
	<-g.grant
	if c.free.Load() {
		c.freeWait(cond)
	}
}

// freeWait: after the switch to free running there is no scheduler; a condition is then awaited by polling the
// tracked state (which no longer changes) — it only matters for pause flags, which are plain atomics.
func (c *ctl) freeWait(cond func() bool) {
	if cond == nil || !c.freeConds {
		return
	}
	for i := 0; i < 20000; i++ {
		c.mu.Lock()
		ok := cond()
		c.mu.Unlock()
		if ok {
			return
		}
		time.Sleep(time.Millisecond)
	}
}

// enabled: would the operation behind the parking point complete without waiting for another goroutine? (lock held)
func (c *ctl) enabled(g *gor) bool {
	switch g.point {
	case "tty-read":
		c.tty.mu.Lock()
		r := c.tty.readable()
		c.tty.mu.Unlock()
		return r
	case "in-send":
		return c.kc < c.kcCap || (c.fixed && c.stop)
	case "in-err":
		if !c.inErrRunning[g.id] {
			return true
		}
		return c.eq < c.eqCap || c.quit || (c.fixed && c.stop)
	case "main-select":
		return c.stop || c.quit || c.rq > 0 || c.kc > 0 || c.timer
	case "scan-send":
		return c.eq < c.eqCap || c.quit || (c.fixed && c.stop)
	case "postw":
		return c.eq < c.eqCap || c.quit
	case "dis-wait":
		return c.wg == 0
	case "poll":
		return c.eq > 0 || c.quit
	case "ce-select":
		return c.eq > 0 || c.quit || c.userQuit
	case "ce-fwd":
		return c.chLen < c.chCap || c.quit || c.userQuit
	case "in-top", "dis-enter", "fin-enter", "post":
		return true
	}
	if g.cond != nil {
		return g.cond()
	}
	return true
}

func never() bool { return false }

// timerOnly: main-select that only the escape timer can complete (costs up to 50 ms of wall time)
func (c *ctl) timerOnly(g *gor) bool {
	return g.point == "main-select" && !(c.stop || c.quit || c.rq > 0 || c.kc > 0)
}

type schedResult int

const (
	resDone schedResult = iota
	resDeadlock
	resTimeout
	resFree
)

// run is the scheduler loop; it returns when stop() holds at a quiescent moment, on deadlock, or on a timeout.
func (c *ctl) run(stop func() bool) schedResult {
	for {
		// wait for quiescence
		deadline := time.After(25 * time.Second)
		for {
			c.mu.Lock()
			q := c.running == 0
			c.mu.Unlock()
			if q {
				break
			}
			select {
			case <-c.wake:
			case <-c.freeCh:
				return resFree
			case <-deadline:
				return resTimeout
			}
		}
		c.mu.Lock()
		if c.free.Load() {
			c.mu.Unlock()
			return resFree
		}
		if stop() {
			c.mu.Unlock()
			return resDone
		}
		var cand, stallers, slow []*gor
		for _, g := range c.order {
			if g.done || !g.parked {
				continue
			}
			if !c.enabled(g) {
				if g.stall {
					stallers = append(stallers, g)
				}
				continue
			}
			switch {
			case c.timerOnly(g):
				slow = append(slow, g)
			default:
				cand = append(cand, g)
			}
		}
		if len(cand) == 0 {
			cand = slow // nothing else can move: let the escape timer fire
		} else if len(slow) > 0 && c.r.n(16) == 0 {
			cand = slow
		}
		if len(cand) == 0 {
			cand = stallers
			if len(cand) > 1 {
				cand = cand[:1]
			}
		}
		if len(cand) == 0 {
			c.mu.Unlock()
			return resDeadlock
		}
		tot := 0
		for _, g := range cand {
			tot += g.weight
		}
		k := c.r.n(tot)
		var pick *gor
		for _, g := range cand {
			if k < g.weight {
				pick = g
				break
			}
			k -= g.weight
		}
		pick.parked = false
		c.lastGrant = pick.name + "@" + pick.point
		c.lastPoint = pick.point
		c.running++
		c.steps++
		c.mu.Unlock()
		pick.grant <- struct{}{}
	}
}

// release switches to free running: every parked goroutine continues, later points return at once.
func (c *ctl) release() {
	c.mu.Lock()
	if c.free.Load() {
		c.mu.Unlock()
		return
	}
	c.free.Store(true)
	close(c.freeCh)
	for _, g := range c.order {
		if g.parked {
			g.parked = false
			select {
			case g.grant <- struct{}{}:
			default:
			}
		}
	}
	c.mu.Unlock()
}

// ---------------------------------------------------------------------------------------------------- scenario

type finding struct {
	Class string `json:"class"`
	Msg   string `json:"msg"`
}

type delivered struct {
	desc   string
	when   time.Time
	whenOK bool
	typ    string
	at     time.Time // delivery time
	epoch  int
	ev     tcell.Event // the application holds on to what it was handed: read again at the end of the case
}

type scenario struct {
	c        *ctl
	s        tcell.Screen
	tty      *stty
	hdr      map[string]string
	ops      []string
	findings []finding
	tags     map[string]bool
	fmu      sync.Mutex
	gmu      sync.Mutex // guards got once the goroutines run freely (op `free`)

	// feeder
	feed            []string
	injectAt        map[int]time.Time // index of expected key event -> time its last byte was handed to the tty
	exp             []string
	expChunk        []int // expected event i is complete once feeder step expChunk[i] is injected
	exp2            []string
	in2             []string
	inject2At       time.Time
	readErrInjected bool
	resizes         []time.Time

	// consumer
	got       []delivered
	paused    atomic.Bool
	stopAfter int
	consDone  atomic.Bool
	feedDone  atomic.Bool
	errCutoff int // feeder step from which on injected chunks are not owed (a read error overtook them); -1 = none
	chanMode  bool
	ch        chan tcell.Event
	userQuit  chan struct{}
	pendCheck bool

	// posters
	postRes  [][]bool // poster -> seq -> enqueued (returned nil)
	postTime [][]time.Time

	suspended     bool // a Suspend happened at some point (relaxes the exact sequence oracle)
	finiDone      bool
	baseline      int
	hangMs        int
	t0            time.Time
	callRet       chan struct{}
	resumeAt      int // index in got of the first event delivered after the (last) Resume
	postAt        int      // posters start posting once the event queue holds this many events (boundary cases)
	inMid, expMid []string // input injected between Suspend and Resume (op `mid`)
	midDone       atomic.Bool
	midInjected   bool
	suspendedNow  bool // between the return of Suspend and the next Resume
	resumed       bool
	traceAtResume int

	userQuitClosed atomic.Bool // op `userquit`: the quit channel handed to ChannelEvents was closed on a live screen
	timed          bool        // ops `inj` / `esccheck` / `keycheck` were used: real-time input, judged by those ops only
	injBytes       int         // bytes handed to the tty by `inj`
	escOK          bool        // the last `esccheck` / `keycheck` passed
}

func (sc *scenario) find(class, f string, a ...interface{}) {
	sc.fmu.Lock()
	for _, x := range sc.findings {
		if x.Class == class {
			sc.fmu.Unlock()
			return
		}
	}
	sc.findings = append(sc.findings, finding{class, fmt.Sprintf(f, a...)})
	sc.fmu.Unlock()
}
func (sc *scenario) tag(t string) { sc.fmu.Lock(); sc.tags[t] = true; sc.fmu.Unlock() }

func describe(ev tcell.Event) (string, string) {
	switch e := ev.(type) {
	case *tcell.EventKey:
		return fmt.Sprintf("K%d.%d.%d", int(e.Key()), int(e.Rune()), int(e.Modifiers())), "EventKey"
	case *tcell.EventMouse:
		x, y := e.Position()
		return fmt.Sprintf("M%d.%d.%d.%d", x, y, int(e.Buttons()), int(e.Modifiers())), "EventMouse"
	case *tcell.EventPaste:
		if e.Start() {
			return "P1", "EventPaste"
		}
		return "P0", "EventPaste"
	case *tcell.EventFocus:
		if e.Focused {
			return "F1", "EventFocus"
		}
		return "F0", "EventFocus"
	case *tcell.EventInterrupt:
		if d, ok := e.Data().([2]int); ok {
			return fmt.Sprintf("I%d.%d", d[0], d[1]), "EventInterrupt"
		}
		return "I?", "EventInterrupt"
	case *tcell.EventResize:
		w, h := e.Size()
		return fmt.Sprintf("R%d.%d", w, h), "EventResize"
	case *tcell.EventError:
		return "E", "EventError"
	}
	return fmt.Sprintf("?%T", ev), fmt.Sprintf("%T", ev)
}

func (sc *scenario) record(ev tcell.Event) {
	now := time.Now()
	d, typ := func() (d, typ string) {
		defer func() { // a typed nil (a non-nil Event whose pointer is nil) blows up in its own accessors
			if p := recover(); p != nil {
				d, typ = fmt.Sprintf("!%T", ev), fmt.Sprintf("%T", ev)
				sc.find("when-nil:"+typ, "a delivered event is not a complete Event: %T whose accessors panic (%v)", ev, p)
			}
		}()
		return describe(ev)
	}()
	rec := delivered{desc: d, typ: typ, at: now, ev: ev}
	func() {
		defer func() {
			if p := recover(); p != nil {
				sc.find("when-panic:"+typ, "When() on a delivered %s (%s) panicked: %v", typ, d, p)
			}
		}()
		rec.when = ev.When()
		rec.whenOK = true
	}()
	sc.c.mu.Lock()
	rec.epoch = sc.c.epoch
	sc.c.mu.Unlock()
	sc.gmu.Lock()
	sc.got = append(sc.got, rec)
	sc.gmu.Unlock()
}

func parseHdr(s string) map[string]string {
	m := map[string]string{}
	for _, t := range strings.Fields(s) {
		if i := strings.Index(t, "="); i > 0 {
			m[t[:i]] = t[i+1:]
		}
	}
	return m
}
func atoi(s string) int { n, _ := strconv.Atoi(s); return n }
func split(s string) []string {
	if s == "" || s == "-" {
		return nil
	}
	return strings.Split(s, ",")
}

// ---- actors

func (sc *scenario) feeder(steps []string, second bool) {
	sc.feederN(steps, second, false)
}

func (sc *scenario) feederN(steps []string, second, mid bool) {
	c := sc.c
	c.mu.Lock()
	for _, st := range steps {
		if strings.HasPrefix(st, "c:") {
			c.feedPending++
		}
	}
	c.mu.Unlock()
	var injected []int
	for i, st := range steps {
		c.park("feed-step", nil, false)
		if strings.HasPrefix(st, "c:") {
			injected = append(injected, i)
		}
		switch {
		case strings.HasPrefix(st, "c:"):
			b, _ := hex.DecodeString(st[2:])
			now := time.Now()
			if mid {
				// input that arrives while the screen is suspended: its When() lower bound is the start of the run
			} else if second {
				if sc.inject2At.IsZero() {
					sc.inject2At = now
				}
			} else {
				sc.fmu.Lock()
				sc.injectAt[i] = now
				sc.fmu.Unlock()
			}
			c.env("inject:" + st[2:])
			sc.tty.inject(b)
			c.mu.Lock()
			c.feedPending--
			c.mu.Unlock()
		case st == "e":
			c.env("readerr")
			sc.readErrInjected = true
			// the tty reports a pending fault before data that is still unread (as a failing device would): the
			// chunks not yet read at this moment are not owed to the application
			sc.tty.mu.Lock()
			k := len(sc.tty.chunks)
			sc.tty.mu.Unlock()
			if !second && sc.errCutoff < 0 {
				sc.errCutoff = i
				if k > 0 && k <= len(injected) {
					sc.errCutoff = injected[len(injected)-k]
				}
			}
			sc.tty.fail()
		case strings.HasPrefix(st, "z:"):
			wh := strings.Split(st[2:], "x")
			sc.fmu.Lock()
			sc.resizes = append(sc.resizes, time.Now())
			sc.fmu.Unlock()
			c.env("size:" + wh[0] + "," + wh[1])
			sc.tty.resize(atoi(wh[0]), atoi(wh[1]))
		}
	}
}

func (sc *scenario) pauseCheck(n int) {
	if sc.stopAfter >= 0 && n == sc.stopAfter {
		sc.paused.Store(true)
		sc.tag("consumer-paused")
	}
	if sc.paused.Load() {
		sc.c.park("cons-paused", func() bool { return !sc.paused.Load() }, false)
		for i := 0; sc.paused.Load() && i < 60000; i++ { // free running: wait for the director's unpause (an atomic)
			time.Sleep(time.Millisecond)
		}
	}
}

func (sc *scenario) consumerPoll() {
	sc.pollLoop(0)
	sc.consDone.Store(true)
}

// pollLoop: PollEvent until it returns nil; n = events consumed so far (for the pause rule)
func (sc *scenario) pollLoop(n int) {
	c := sc.c
	for {
		sc.pauseCheck(n)
		must := false
		if sc.pendCheck {
			c.park("cons-step", nil, false)
			must = sc.s.HasPendingEvent()
		}
		if !c.free.Load() {
			// single consumer: after a true HasPendingEvent the poll below must find the queue non-empty (checked at
			// the `poll` point, see onPoll) — a statement about the schedule, not about wall time
			c.mu.Lock()
			c.gs[goid()].must = must
			c.mu.Unlock()
		}
		ev := sc.s.PollEvent()
		if ev == nil {
			break
		}
		sc.record(ev)
		n++
	}
}

func (sc *scenario) consumerChan() {
	c := sc.c
	n := 0
	for {
		sc.pauseCheck(n)
		c.park("cons-recv", func() bool { return c.chLen > 0 || c.chClosed }, false)
		ev, ok := <-sc.ch
		if !ok {
			c.env("recv-closed")
			if sc.userQuitClosed.Load() && !sc.finiDone {
				// the application closed ITS quit channel (the screen lives on) and goes on consuming with PollEvent
				sc.tag("poll-after-userquit")
				sc.pollLoop(n)
			}
			break
		}
		c.mu.Lock()
		c.chLen--
		c.mu.Unlock()
		c.env("recv")
		sc.record(ev)
		n++
	}
	sc.consDone.Store(true)
}

func (sc *scenario) poster(p, n int, wait bool) {
	c := sc.c
	var gate func() bool
	if sc.postAt > 0 {
		// boundary cases: the posters wait until the queue is (nearly) full, then compete for the last slots
		gate = func() bool { return c.eq >= sc.postAt }
	}
	for i := 0; i < n; i++ {
		c.park("post-step", gate, false)
		sc.postTime[p][i] = time.Now()
		ev := tcell.NewEventInterrupt([2]int{p, i})
		if wait {
			sc.s.PostEventWait(ev)
			// PostEventWait has no result: whether it enqueued is read off the trace (postw-sent / postw-stop)
			sc.postRes[p][i] = true
			sc.tag("postwait")
		} else {
			err := sc.s.PostEvent(ev)
			sc.postRes[p][i] = err == nil
			if err != nil {
				if err != tcell.ErrEventQFull {
					sc.find("post-error", "PostEvent returned %v", err)
				}
				sc.tag("post-full")
			}
		}
	}
}

func (sc *scenario) drawer(m int) {
	for i := 0; i < m; i++ {
		sc.c.park("draw-step", nil, false)
		sc.s.SetContent(i%20, i%5, rune('a'+i%26), nil, tcell.StyleDefault)
		if i%3 == 2 {
			sc.c.env("sync")
			sc.s.Sync()
		} else {
			sc.c.env("show")
			sc.s.Show()
		}
	}
}

// ---- shutdown with deadline

// guarded runs f (Fini or Suspend) on the director goroutine.  The scheduler keeps going; if it reports a structural
// deadlock while f has not returned, everything is released and f gets hangMs to return.
type callState struct {
	done atomic.Bool
}

// ---- goroutine dump analysis

var frameRe = regexp.MustCompile(`github\.com/gdamore/tcell/v2\.\(\*?(\w+)\)\.(\w+)`)

type parkedG struct {
	state string
	funcs []string // tcell frames, innermost first
}

func dump() (string, []parkedG) {
	buf := make([]byte, 1<<20)
	n := runtime.Stack(buf, true)
	txt := string(buf[:n])
	var out []parkedG
	for _, blk := range strings.Split(txt, "\n\n") {
		lines := strings.Split(blk, "\n")
		if len(lines) == 0 || !strings.HasPrefix(lines[0], "goroutine ") {
			continue
		}
		st := ""
		if i := strings.Index(lines[0], "["); i >= 0 {
			st = strings.TrimSuffix(strings.TrimSpace(lines[0][i+1:]), "]:")
			if j := strings.Index(st, ","); j >= 0 {
				st = st[:j]
			}
		}
		var fs []string
		for _, l := range lines[1:] {
			if strings.HasPrefix(l, "created by") {
				continue
			}
			if m := frameRe.FindStringSubmatch(l); m != nil {
				fs = append(fs, m[2])
			}
		}
		if len(fs) > 0 {
			out = append(out, parkedG{st, fs})
		}
	}
	return txt, out
}

func tcellGoroutines() []string {
	_, gs := dump()
	var out []string
	for _, g := range gs {
		out = append(out, g.funcs[len(g.funcs)-1]+"/"+g.funcs[0]+"["+g.state+"]")
	}
	sort.Strings(out)
	return out
}

func (sc *scenario) hangFinding(call string) {
	txt, gs := dump()
	var parts []string
	for _, g := range gs {
		root := g.funcs[len(g.funcs)-1]
		if root != "inputLoop" && root != "mainLoop" {
			continue
		}
		st := strings.ReplaceAll(g.state, " ", "-")
		parts = append(parts, g.funcs[0]+"."+st)
	}
	sort.Strings(parts)
	if len(parts) == 0 {
		parts = []string{"unknown"}
	}
	// stable class: one root cause at a time — the main loop's parked frame if it is parked, else the input loop's
	cls := parts[0]
	for _, p := range parts {
		if strings.HasPrefix(p, "scanInput") || strings.HasPrefix(p, "mainLoop") {
			cls = p
		}
	}
	// keep the dump short: only goroutines with tcell frames
	var keep []string
	for _, blk := range strings.Split(txt, "\n\n") {
		if strings.Contains(blk, "gdamore/tcell/v2.") {
			l := strings.Split(blk, "\n")
			if len(l) > 9 {
				l = l[:9]
			}
			keep = append(keep, strings.Join(l, "\n"))
		}
	}
	c := sc.c
	c.mu.Lock()
	state := fmt.Sprintf("eventQ %d/%d keychan %d/%d quit=%v stopQ-closed=%v consumer-paused=%v", c.eq, c.eqCap, c.kc, c.kcCap, c.quit, c.stop, sc.paused.Load())
	c.mu.Unlock()
	sc.find("hang:"+call+":"+cls,
		"%s did not return within %d ms after every goroutine was released (parked library goroutines: %s; state at the structural deadlock: %s); goroutine dump:\n%s",
		call, sc.hangMs, strings.Join(parts, " + "), state, strings.Join(keep, "\n\n"))
}

// ---------------------------------------------------------------------------------------------------- main

type output struct {
	Obs      string    `json:"obs"`
	Trace    string    `json:"trace"`
	Findings []finding `json:"findings"`
	Tags     []string  `json:"tags"`
	Info     string    `json:"info"`
}

func main() {
	line := flag.String("line", "", "case payload")
	flag.Parse()
	out := runCase(*line)
	b, _ := json.Marshal(out)
	os.Stdout.Write(b)
	os.Stdout.WriteString("\n")
	os.Exit(0)
}

func runCase(line string) output {
	parts := strings.Split(line, ";")
	hdr := parseHdr(parts[0])
	var ops []string
	for _, p := range parts[1:] {
		p = strings.TrimSpace(p)
		if p != "" {
			ops = append(ops, p)
		}
	}
	c := &ctl{gs: map[int64]*gor{}, wake: make(chan struct{}, 1), freeCh: make(chan struct{}), weights: map[string]int{}, inErrRunning: map[int64]bool{}, postAtEdge: map[string]bool{}}
	c.r = rnd{s: uint64(atoi(hdr["seed"]))*0x9E3779B97F4A7C15 + 77}
	for _, w := range split(hdr["w"]) {
		kv := strings.Split(w, ":")
		if len(kv) == 2 {
			c.weights[kv[0]] = atoi(kv[1])
		}
	}
	if _, ok := c.weights["rz"]; !ok {
		c.weights["rz"] = 20 // the window in which a Suspend call is in progress is short
	}
	c.fixed = hdr["variant"] == "stopq"
	c.timer = true // Init arms the 50 ms timer (tscreen.go:192)
	sc := &scenario{c: c, hdr: hdr, ops: ops, tags: map[string]bool{}, injectAt: map[int]time.Time{}, t0: time.Now(), callRet: make(chan struct{}, 8)}
	sc.hangMs = 6000
	if v := atoi(os.Getenv("VERIF_HANG_MS")); v > 0 {
		sc.hangMs = v
	}
	sc.tty = newTty(c, 80, 24)
	c.tty = sc.tty
	c.tagf = sc.tag
	c.onPoll = func(g *gor, qlen int) {
		if g.must && qlen == 0 && !c.quit {
			sc.find("pending-then-blocks", "HasPendingEvent returned true but the event queue was empty when the same (only) consumer called PollEvent next")
		}
		g.must = false
	}
	c.hooks = installSched(c.point)
	if !c.hooks {
		return output{Obs: "NOHOOKS the tree under test has no schedule points (apply hooks/C05C06-sched-points.patch)", Tags: []string{"nohooks"}}
	}
	sc.feed = split(hdr["feed"])
	sc.exp = split(hdr["exp"])
	for _, s := range split(hdr["expat"]) {
		sc.expChunk = append(sc.expChunk, atoi(s))
	}
	sc.in2 = split(hdr["feed2"])
	sc.exp2 = split(hdr["exp2"])
	sc.inMid = split(hdr["feedm"])
	sc.expMid = split(hdr["expm"])
	sc.postAt = atoi(hdr["postat"])
	sc.errCutoff = -1
	sc.stopAfter = -1
	if v, ok := hdr["stop"]; ok {
		sc.stopAfter = atoi(v)
	}
	sc.pendCheck = hdr["pend"] == "1"
	if strings.HasPrefix(hdr["cons"], "chan") {
		sc.chanMode = true
		capn := 1
		if i := strings.Index(hdr["cons"], ":"); i > 0 {
			capn = atoi(hdr["cons"][i+1:])
		}
		if capn < 1 {
			capn = 1
		}
		sc.ch = make(chan tcell.Event, capn)
		sc.userQuit = make(chan struct{})
	}
	nPost, perPost, postWait := 0, 0, false
	if p := hdr["post"]; p != "" && p != "0" {
		if strings.HasSuffix(p, "w") {
			postWait = true
			p = strings.TrimSuffix(p, "w")
		}
		xy := strings.Split(p, "x")
		if len(xy) == 2 {
			nPost, perPost = atoi(xy[0]), atoi(xy[1])
		}
	}
	sc.postRes = make([][]bool, nPost)
	sc.postTime = make([][]time.Time, nPost)
	for i := range sc.postRes {
		sc.postRes[i] = make([]bool, perPost)
		sc.postTime[i] = make([]time.Time, perPost)
	}
	sc.baseline = runtime.NumGoroutine()

	ti, err := terminfo.LookupTerminfo("xterm-256color")
	if err != nil {
		return output{Obs: "ERROR lookup: " + err.Error()}
	}
	s, err := tcell.NewTerminfoScreenFromTtyTerminfo(sc.tty, ti)
	if err != nil {
		return output{Obs: "ERROR screen: " + err.Error()}
	}
	sc.s = s

	dirDone := make(chan struct{})
	var dirPanic interface{}
	c.spawn("dir", func() {
		defer close(dirDone)
		defer func() {
			if p := recover(); p != nil {
				dirPanic = p
				buf := make([]byte, 4096)
				n := runtime.Stack(buf, false)
				sc.find("panic", "director: %v\n%s", p, buf[:n])
			}
		}()
		sc.director(nPost, perPost, postWait)
	})

	res := c.run(func() bool {
		select {
		case <-dirDone:
			return true
		default:
			return false
		}
	})
	obs := "ok"
	switch res {
	case resDeadlock:
		call := c.shutdownIn
		c.release()
		if call == "" {
			// no shutdown call in progress: the scenario itself cannot continue — a harness problem, not a verdict
			select {
			case <-dirDone:
			case <-time.After(time.Duration(sc.hangMs) * time.Millisecond):
				obs = "ERROR controller deadlock outside a shutdown call: " + sc.whoParked()
			}
		} else {
			sc.tag("structural-deadlock")
			c.mu.Lock()
			c.trace = append(c.trace, "DEADLOCK")
			c.mu.Unlock()
			select {
			case <-sc.callRet:
				// the call returned once everything ran freely: the tracked state was wrong
				obs = "ERROR controller saw a deadlock in " + call + " but the call returned when released"
				select {
				case <-dirDone:
				case <-time.After(60 * time.Second):
				}
			case <-time.After(time.Duration(sc.hangMs) * time.Millisecond):
				sc.hangFinding(call)
			}
		}
	case resFree, resDone:
		select {
		case <-dirDone:
		case <-time.After(90 * time.Second):
			obs = "ERROR the director did not finish: " + sc.whoParked()
		}
	case resTimeout:
		// a goroutine was granted an operation that is enabled under Go's channel/WaitGroup semantics for the state
		// the points reported, and 25 s later it has still not come back: the operation blocks in the real code
		c.mu.Lock()
		lg, lp := c.lastGrant, c.lastPoint
		c.mu.Unlock()
		txt, _ := dump()
		var keep []string
		for _, blk := range strings.Split(txt, "\n\n") {
			if strings.Contains(blk, "gdamore/tcell/v2.") {
				l := strings.Split(blk, "\n")
				if len(l) > 9 {
					l = l[:9]
				}
				keep = append(keep, strings.Join(l, "\n"))
			}
		}
		sc.find("blocks:"+lp, "%s was let go at an operation that cannot block in the tracked state (eventQ %d/%d keychan %d/%d quit=%v stopQ-closed=%v wg=%d) but did not reach its next schedule point within 25 s; goroutines inside tcell:\n%s", lg, c.eq, c.eqCap, c.kc, c.kcCap, c.quit, c.stop, c.wg, strings.Join(keep, "\n\n"))
		sc.fmu.Lock()
		finiCalled := sc.tags["fini"]
		sc.fmu.Unlock()
		if strings.HasPrefix(lp, "ce-") && finiCalled {
			// the forwarding goroutine of ChannelEvents is parked for good although Fini has been called: its channel is never closed
			sc.find("channel-not-closed-after-fini", "Fini was called (eventQ %d/%d, quit=%v in the tracked state) but the ChannelEvents goroutine stays parked at %s: the channel it was given is never closed", c.eq, c.eqCap, c.quit, lp)
		}
		c.release()
	}
	_ = dirPanic
	c.mu.Lock()
	if len(c.errs) > 0 && obs == "ok" {
		obs = "ERROR " + strings.Join(c.errs, " | ")
	}
	trace := "variant=" + map[bool]string{false: "pinned", true: "stopq"}[c.fixed] + " " + strings.Join(c.trace, " ")
	c.mu.Unlock()
	if obs == "ok" {
		sc.finalOracles()
	}
	var tags []string
	for t := range sc.tags {
		tags = append(tags, t)
	}
	sort.Strings(tags)
	return output{Obs: obs, Trace: trace, Findings: sc.findings, Tags: tags}
}

func (sc *scenario) whoParked() string {
	c := sc.c
	c.mu.Lock()
	defer c.mu.Unlock()
	var ss []string
	for _, g := range c.order {
		if !g.done {
			ss = append(ss, fmt.Sprintf("%s@%s(parked=%v)", g.name, g.point, g.parked))
		}
	}
	return strings.Join(ss, " ")
}

func (sc *scenario) director(nPost, perPost int, postWait bool) {
	c := sc.c
	s := sc.s
	c.env("init")
	if err := s.Init(); err != nil {
		sc.find("init-error", "Init: %v", err)
		return
	}
	s.EnableMouse()
	s.EnablePaste()
	s.EnableFocus()
	// start the actors
	c.spawn("feed", func() { sc.feeder(sc.feed, false); sc.feedDone.Store(true) })
	if sc.chanMode {
		c.mu.Lock()
		c.running++ // the ChannelEvents goroutine, registered at its first point
		c.mu.Unlock()
		go s.ChannelEvents(sc.ch, sc.userQuit)
		c.spawn("cons", sc.consumerChan)
	} else {
		c.spawn("cons", sc.consumerPoll)
	}
	for p := 0; p < nPost; p++ {
		p := p
		c.spawn(fmt.Sprintf("post%d", p), func() { sc.poster(p, perPost, postWait) })
	}
	if m := atoi(sc.hdr["draw"]); m > 0 {
		c.spawn("draw", func() { sc.drawer(m) })
	}
	if rz := sc.hdr["rzs"]; rz != "" {
		wh := strings.Split(rz, "x")
		if len(wh) == 2 {
			c.spawn("rz", func() {
				// enabled only while the director is inside Suspend(): the notification races with disengage
				c.park("rz-step", func() bool { return c.shutdownIn == "suspend" }, false)
				if c.free.Load() {
					return
				}
				c.mu.Lock()
				during := c.shutdownIn == "suspend"
				stopClosed := c.stop
				c.mu.Unlock()
				if during {
					sc.tag("resize-during-suspend")
					if stopClosed {
						sc.tag("resize-during-suspend-after-stopq-closed")
					}
				}
				sc.fmu.Lock()
				sc.resizes = append(sc.resizes, time.Now())
				sc.fmu.Unlock()
				c.env("size:" + wh[0] + "," + wh[1])
				sc.tty.resize(atoi(wh[0]), atoi(wh[1]))
			})
		}
	}
	ops := append([]string{}, sc.ops...)
	if len(ops) == 0 || ops[len(ops)-1] != "fini" {
		ops = append(ops, "fini")
	}
	for _, op := range ops {
		f := strings.Fields(op)
		switch f[0] {
		case "wait":
			switch {
			case len(f) >= 2 && f[1] == "stall":
				c.park("wait-stall", never, true)
			case len(f) >= 4 && f[1] == "fill":
				e, k := atoi(f[2]), atoi(f[3])
				hit := false
				c.park("wait-fill", func() bool {
					if c.eq == e && c.kc == k {
						hit = true
					}
					return hit
				}, true) // falls back to a stall if that fill level is never reached
			case len(f) >= 3 && f[1] == "steps":
				target := -1
				c.park("wait-steps", func() bool {
					if target < 0 {
						target = c.steps + atoi(f[2])
					}
					return c.steps >= target
				}, true)
			}
		case "unpause":
			c.park("dir-step", nil, false)
			sc.stopAfter = -1
			sc.paused.Store(false)
		case "check":
			c.park("wait-stall", never, true)
			sc.steadyCheck()
		case "suspend":
			sc.shutdown("suspend")
		case "free":
			// from here on no serialising controller: the goroutines of the library and of the test run under the real Go
			// scheduler.  (Under the controller an operation at a parking point is only started when it cannot block, so a
			// change that makes a blocking send non-blocking — drop, or hand over to a helper goroutine — never shows.)
			c.park("dir-step", nil, false)
			sc.tag("free-running")
			c.release()
		case "sleep":
			if len(f) >= 2 && c.free.Load() {
				time.Sleep(time.Duration(atoi(f[1])) * time.Millisecond)
			}
		case "freecheck":
			sc.freeCheck()
		case "resize":
			// a window-size change + SIGWINCH-style notification at this point of the script (op `resize W H`)
			if len(f) >= 3 {
				c.park("dir-step", nil, false)
				sc.fmu.Lock()
				sc.resizes = append(sc.resizes, time.Now())
				sc.fmu.Unlock()
				c.env("size:" + f[1] + "," + f[2])
				sc.tty.resize(atoi(f[1]), atoi(f[2]))
			}
		case "userquit":
			// the application closes the quit channel it gave to ChannelEvents; the screen is NOT finished
			if sc.chanMode && !sc.userQuitClosed.Load() {
				c.park("dir-step", nil, false)
				c.mu.Lock()
				c.userQuit = true
				held := false
				for _, g := range c.order {
					if g.name == "ce" && !g.done && g.parked && g.point == "ce-fwd" {
						held = true
					}
				}
				full := c.eqCap > 0 && c.eq >= c.eqCap
				c.mu.Unlock()
				sc.tag("userquit")
				if held {
					sc.tag("userquit-while-forward-blocked")
					if !full {
						sc.tag("userquit-while-forward-blocked-queue-has-room")
					}
				}
				c.env("userquit")
				sc.userQuitClosed.Store(true)
				close(sc.userQuit)
			}
		case "disablepaste":
			c.park("dir-step", nil, false)
			sc.tag("disablepaste")
			s.DisablePaste()
		case "enablepaste":
			c.park("dir-step", nil, false)
			s.EnablePaste()
		case "enablemouse":
			// EnableMouse(flags) on the live screen (bit 1 buttons, 2 drag, 4 motion; no argument = all)
			c.park("dir-step", nil, false)
			sc.tag("enablemouse")
			if len(f) >= 2 {
				s.EnableMouse(tcell.MouseFlags(atoi(f[1])))
			} else {
				s.EnableMouse()
			}
		case "disablemouse":
			c.park("dir-step", nil, false)
			sc.tag("disablemouse")
			s.DisableMouse()
		case "checktail":
			c.park("wait-stall", never, true)
			sc.tailCheck()
		case "inj":
			// real-time input (free running only): the bytes go to the tty now
			if len(f) >= 2 && c.free.Load() {
				b, _ := hex.DecodeString(f[1])
				sc.timed = true
				firstInjAt.CompareAndSwap(0, time.Now().UnixNano())
				sc.injBytes += len(b)
				sc.tag("timed-input")
				sc.tty.inject(b)
			}
		case "esccheck":
			if c.free.Load() {
				sc.escCheck()
			}
		case "keycheck":
			if len(f) >= 2 && c.free.Load() {
				sc.keyCheck(f[1])
			}
		case "tailwait":
			if len(f) >= 2 && c.free.Load() {
				sc.tailWait(strings.Split(f[1], ","))
			}
		case "mid":
			// input arriving between Suspend and Resume (after the first batch is completely in the tty)
			if len(sc.inMid) > 0 && !sc.midInjected {
				c.park("dir-mid", func() bool { return sc.feedDone.Load() }, false)
				sc.midInjected = true
				if sc.suspendedNow {
					sc.tag("input-while-suspended")
				}
				c.spawn("feed", func() { sc.feederN(sc.inMid, true, true); sc.midDone.Store(true) })
				c.park("dir-mid-done", func() bool { return sc.midDone.Load() }, false)
			}
		case "resume":
			c.park("dir-step", nil, false)
			c.env("resume")
			sc.suspendedNow = false
			if err := s.Resume(); err != nil {
				sc.tag("resume-error")
			} else {
				sc.resumed = true
				sc.resumeAt = len(sc.got)
				c.mu.Lock()
				sc.traceAtResume = len(c.trace)
				c.mu.Unlock()
			}
		case "resumefail":
			// a Resume during which Tty.Start fails: the call reports the error, the screen stays suspended and everything that
			// follows — another Resume, Suspend, Fini — behaves as if this call had not been made
			c.park("dir-step", nil, false)
			sc.tty.mu.Lock()
			sc.tty.failStart = true
			sc.tty.mu.Unlock()
			c.env("resume")
			if err := s.Resume(); err == nil {
				sc.tag("resumefail-no-error")
				sc.suspendedNow = false
			} else {
				sc.tag("resume-start-error")
			}
			sc.tty.mu.Lock()
			sc.tty.failStart = false
			sc.tty.mu.Unlock()
		case "check2":
			c.park("wait-stall", never, true)
			sc.resumeCheck()
		case "more":
			// the second batch is injected after the first one is completely in the tty (else the two interleave)
			c.park("dir-more", func() bool { return sc.feedDone.Load() && (!sc.midInjected || sc.midDone.Load()) }, false)
			c.spawn("feed", func() { sc.feeder(sc.in2, true) })
		case "fini":
			sc.shutdown("fini")
			sc.afterFini()
			return
		}
	}
}

func (sc *scenario) shutdown(kind string) {
	c := sc.c
	c.park("dir-step", nil, false)
	c.mu.Lock()
	c.shutdownIn = kind
	fill := fmt.Sprintf("fill-eq%d-kc%d", c.eq, c.kc)
	c.mu.Unlock()
	sc.tag(kind)
	sc.tag(kind + "-" + fill)
	c.env(kind + "-call")
	if kind == "fini" {
		sc.s.Fini()
	} else {
		sc.suspended = true
		sc.s.Suspend()
		sc.suspendedNow = true
	}
	sc.callRet <- struct{}{}
	c.env(kind + "-ret")
	c.mu.Lock()
	c.shutdownIn = ""
	c.mu.Unlock()
	select {
	case <-sc.callRet:
	default:
	}
}
