package main

// Oracles written from the property text of C05 / C06 (they do not consult the Lean model).

import (
	"fmt"
	"runtime"
	"strings"
	"time"

	"github.com/gdamore/tcell/v2"
)

func isInput(desc string) bool {
	return desc != "" && (desc[0] == 'K' || desc[0] == 'M' || desc[0] == 'P' || desc[0] == 'F')
}

// inputDelivered: the delivered events that come from terminal input, with their index in got
func (sc *scenario) inputDelivered() ([]string, []int) {
	var ds []string
	var idx []int
	for i, d := range sc.got {
		if isInput(d.desc) {
			ds = append(ds, d.desc)
			idx = append(idx, i)
		}
	}
	return ds, idx
}

// match greedily embeds got into exp (order preserved); returns for every element of got the matched index or -1
func match(got, exp []string) []int {
	out := make([]int, len(got))
	j := 0
	for i, g := range got {
		k := j
		for k < len(exp) && exp[k] != g {
			k++
		}
		if k < len(exp) {
			out[i] = k
			j = k + 1
		} else {
			out[i] = -1
		}
	}
	return out
}

func contains(l []string, s string) bool {
	for _, x := range l {
		if x == s {
			return true
		}
	}
	return false
}

func clipList(l []string, n int) string {
	if len(l) > n {
		return strings.Join(l[:n], ",") + fmt.Sprintf(",…(%d)", len(l))
	}
	return strings.Join(l, ",")
}

func (sc *scenario) expire() bool {
	sc.c.mu.Lock()
	defer sc.c.mu.Unlock()
	return sc.c.unplannedExpire
}

// expectedBeforeError: the expected input events whose bytes were all handed to the tty before the injected read error
func (sc *scenario) expectedSteady() []string {
	if sc.errCutoff < 0 {
		return sc.exp
	}
	var out []string
	for i, e := range sc.exp {
		if i < len(sc.expChunk) && sc.expChunk[i] < sc.errCutoff {
			out = append(out, e)
		}
	}
	return out
}

// steadyCheck (op `check`): nothing can move any more, the consumer is polling, nothing was shut down: every input
// event and every accepted posted event must have been delivered by now — exactly once, in order.
func (sc *scenario) steadyCheck() {
	if sc.suspended || sc.paused.Load() || sc.c.free.Load() {
		sc.tag("check-skipped")
		return
	}
	if sc.expire() {
		sc.tag("check-skipped-escape-timeout")
		return
	}
	sc.tag("steady-check")
	got, _ := sc.inputDelivered()
	exp := sc.expectedSteady()
	if len(got) < len(exp) || strings.Join(got[:len(exp)], ",") != strings.Join(exp, ",") {
		// classify: lost (a proper subsequence) is the back-pressure failure; the rest is reported by finalOracles
		m := match(got, exp)
		ok := true
		for _, k := range m {
			if k < 0 {
				ok = false
			}
		}
		// an event ChannelEvents had already taken out of the queue when the application closed its quit channel may be
		// dropped (the model marks the run lossy at that step, label ceFwdQuit); nothing else may
		allowed := sc.inFlightAtUserQuit()
		if ok && len(got) < len(exp) && len(got) >= len(exp)-allowed {
			sc.tag("in-flight-event-dropped-at-userquit")
		}
		if ok && len(got) < len(exp)-allowed {
			missing := ""
			seen := map[int]bool{}
			for _, k := range m {
				seen[k] = true
			}
			for i, e := range exp {
				if !seen[i] {
					missing = fmt.Sprintf("#%d %s", i, e)
					break
				}
			}
			sc.find("input-event-lost", "%d of %d input events were delivered although the consumer polled until nothing could move; first missing: %s; delivered: %s", len(got), len(exp), missing, clipList(got, 40))
		}
	}
	// posted events that were accepted
	have := map[string]bool{}
	for _, d := range sc.got {
		if d.desc[0] == 'I' {
			have[d.desc] = true
		}
	}
	for p := range sc.postRes {
		for i, ok := range sc.postRes[p] {
			if ok && !sc.postTime[p][i].IsZero() && !have[fmt.Sprintf("I%d.%d", p, i)] {
				sc.find("post-accepted-but-lost", "PostEvent #%d of poster %d returned nil but the event was never delivered although the consumer polled until nothing could move", i, p)
			}
		}
	}
}

// inFlightAtUserQuit: 1 when the trace shows ChannelEvents leaving through the quit case of its forwarding select
// (it then held one event it had dequeued), else 0
func (sc *scenario) inFlightAtUserQuit() int {
	if !sc.userQuitClosed.Load() {
		return 0
	}
	sc.c.mu.Lock()
	defer sc.c.mu.Unlock()
	for _, t := range sc.c.trace {
		if strings.HasSuffix(t, ".ce-fwd-quit") {
			return 1
		}
	}
	return 0
}

// freeCheck (op `freecheck`, free-running cases only: single-byte input, so no escape sequence can be cut by the
// escape timer): the consumer polls again and nothing was shut down, so every injected input event must arrive —
// the check waits for the expected number of events (at most the hang deadline) and then compares the sequences:
// exactly once, in order.  Posted events that were accepted must arrive too.
func (sc *scenario) freeCheck() {
	if !sc.c.free.Load() || sc.suspended || sc.readErrInjected || sc.paused.Load() || sc.stopAfter >= 0 {
		// (stopAfter >= 0: the consumer is still going to stop polling — `unpause` was not executed, e.g. in a shrunk line)
		sc.tag("freecheck-skipped")
		return
	}
	sc.tag("free-check")
	want := len(sc.exp)
	accepted := func() int {
		n := 0
		for p := range sc.postRes {
			for i, ok := range sc.postRes[p] {
				if ok && !sc.postTime[p][i].IsZero() {
					n++
				}
			}
		}
		return n
	}
	count := func() (int, int) {
		sc.gmu.Lock()
		defer sc.gmu.Unlock()
		k, pi := 0, 0
		for _, d := range sc.got {
			if isInput(d.desc) {
				k++
			} else if d.desc[0] == 'I' {
				pi++
			}
		}
		return k, pi
	}
	dl := time.Now().Add(time.Duration(sc.hangMs) * time.Millisecond)
	for time.Now().Before(dl) {
		if k, pi := count(); k >= want && pi >= accepted() && sc.feedDone.Load() {
			break
		}
		time.Sleep(time.Millisecond)
	}
	time.Sleep(5 * time.Millisecond) // anything that would arrive twice gets its chance
	sc.gmu.Lock()
	var got []string
	have := map[string]bool{}
	for _, d := range sc.got {
		if isInput(d.desc) {
			got = append(got, d.desc)
		} else if d.desc[0] == 'I' {
			have[d.desc] = true
		}
	}
	sc.gmu.Unlock()
	if strings.Join(got, ",") != strings.Join(sc.exp, ",") {
		m := match(got, sc.exp)
		sub := true
		for _, k := range m {
			if k < 0 {
				sub = false
			}
		}
		switch {
		case sub && len(got) < len(sc.exp):
			sc.find("input-event-lost", "free running: %d of %d input events were delivered within %d ms although the consumer polls and nothing was shut down; delivered: %s", len(got), len(sc.exp), sc.hangMs, clipList(got, 60))
		default:
			// duplicated / reordered / spurious: classified by finalOracles on the complete run
		}
	}
	for p := range sc.postRes {
		for i, ok := range sc.postRes[p] {
			if ok && !sc.postTime[p][i].IsZero() && !have[fmt.Sprintf("I%d.%d", p, i)] {
				sc.find("post-accepted-but-lost", "free running: PostEvent #%d of poster %d returned nil but the event was not delivered within %d ms although the consumer polls", i, p, sc.hangMs)
			}
		}
	}
}

// resumeCheck (op `check2`): after Suspend + Resume the input injected after Resume must arrive, and a resize too
func (sc *scenario) resumeCheck() {
	if !sc.resumed || sc.paused.Load() || sc.c.free.Load() || sc.readErrInjected {
		sc.tag("check2-skipped")
		return
	}
	if sc.expire() {
		sc.tag("check-skipped-escape-timeout")
		return
	}
	sc.tag("resume-check")
	got, _ := sc.inputDelivered()
	if sc.midInjected && len(sc.expMid) > 0 {
		have := 0
		for _, e := range sc.expMid {
			if contains(got, e) {
				have++
			}
		}
		switch {
		case have == len(sc.expMid):
			sc.tag("input-while-suspended-delivered-after-resume")
		case have == 0:
			sc.tag("input-while-suspended-not-delivered")
		default:
			sc.tag("input-while-suspended-partly-delivered")
		}
	}
	n := len(sc.exp2)
	if n > 0 {
		if len(got) < n || strings.Join(got[len(got)-n:], ",") != strings.Join(sc.exp2, ",") {
			tail := got
			if len(tail) > n+3 {
				tail = tail[len(tail)-n-3:]
			}
			cls := "input-lost-after-resume"
			if len(got) == 0 || !contains(sc.exp2, got[len(got)-1]) {
				cls = "input-dead-after-resume"
			} else if pasteMarkersOnly(got, sc.exp2) {
				cls = "paste-marker-lost-after-resume"
			} else if mousePositionsOnly(got, sc.exp2) {
				cls = "mouse-position-after-resume"
			}
			sc.find(cls, "after Suspend+Resume %d input events were injected (%s) but the delivered tail is %s", n, clipList(sc.exp2, 20), clipList(tail, 40))
		}
	}
	// resize after resume: a size change notified after Resume must produce an EventResize, unless the library
	// itself logged that it dropped one (non-blocking post on a full queue is the documented behaviour)
	wantSize := ""
	for _, st := range sc.in2 {
		if strings.HasPrefix(st, "z:") {
			wh := strings.Split(st[2:], "x")
			wantSize = "R" + wh[0] + "." + wh[1]
		}
	}
	if wantSize != "" {
		found := false
		for _, d := range sc.got[sc.resumeAt:] {
			if d.desc == wantSize {
				found = true
			}
		}
		dropped := false
		sc.c.mu.Lock()
		for _, t := range sc.c.trace[sc.traceAtResume:] {
			if strings.Contains(t, ".resize-drop") {
				dropped = true
			}
		}
		sc.c.mu.Unlock()
		if !found && !dropped {
			sc.find("resize-dead-after-resume", "after Suspend+Resume the tty was resized (%s) but no such EventResize was delivered", wantSize)
		}
	}
}

// pasteMarkersOnly: the delivered tail is the expected batch minus paste-start / paste-end events only
func pasteMarkersOnly(got, exp []string) bool {
	var e []string
	nm := 0
	for _, x := range exp {
		if x == "P1" || x == "P0" {
			nm++
		} else {
			e = append(e, x)
		}
	}
	if nm == 0 {
		return false
	}
	// walk back over got: the non-marker events of exp must be the non-marker tail of got
	var g []string
	for i := len(got) - 1; i >= 0 && len(g) < len(e); i-- {
		if got[i] != "P1" && got[i] != "P0" {
			g = append([]string{got[i]}, g...)
		}
	}
	return strings.Join(g, ",") == strings.Join(e, ",")
}

// mouseButtonsOnly: the delivered tail has the events of want, in order, and differs only in the button mask of mouse events
// (C12: motion while a button is held keeps that button, a release carries none — whatever mode-changing calls came between)
func mouseButtonsOnly(got, want []string) bool {
	n := len(want)
	if len(got) < n {
		return false
	}
	diff := false
	for i, w := range want {
		g := got[len(got)-n+i]
		if g == w {
			continue
		}
		gp, wp := strings.Split(g, "."), strings.Split(w, ".")
		if !strings.HasPrefix(g, "M") || !strings.HasPrefix(w, "M") || len(gp) != 4 || len(wp) != 4 || gp[0] != wp[0] || gp[1] != wp[1] || gp[3] != wp[3] {
			return false
		}
		diff = true
	}
	return diff
}

// mousePositionsOnly: the delivered tail has the events of want, in order, and differs only in the position of mouse events
// (C12: the reported cell converted to 0-based and clipped into THE SCREEN — the one the terminal has now)
func mousePositionsOnly(got, want []string) bool {
	n := len(want)
	if len(got) < n {
		return false
	}
	diff := false
	for i, w := range want {
		g := got[len(got)-n+i]
		if g == w {
			continue
		}
		gp, wp := strings.Split(g, "."), strings.Split(w, ".")
		if !strings.HasPrefix(g, "M") || !strings.HasPrefix(w, "M") || len(gp) != 4 || len(wp) != 4 || gp[2] != wp[2] || gp[3] != wp[3] {
			return false
		}
		diff = true
	}
	return diff
}

// tailCheck (op `checktail`): nothing was shut down; the second batch (op `more`) was injected after the first one had been
// consumed completely, so its events are the tail of what was delivered (C11: pasted text arrives between ONE paste-start
// and ONE paste-end, whatever came before)
func (sc *scenario) tailCheck() {
	if sc.suspended || sc.paused.Load() || sc.c.free.Load() || sc.readErrInjected || len(sc.exp2) == 0 {
		sc.tag("checktail-skipped")
		return
	}
	if sc.expire() {
		sc.tag("check-skipped-escape-timeout")
		return
	}
	sc.tag("tail-check")
	got, _ := sc.inputDelivered()
	n := len(sc.exp2)
	if len(got) < n || strings.Join(got[len(got)-n:], ",") != strings.Join(sc.exp2, ",") {
		tail := got
		if len(tail) > n+3 {
			tail = tail[len(tail)-n-3:]
		}
		cls := "input-lost"
		if pasteMarkersOnly(got, sc.exp2) {
			cls = "paste-marker-lost"
		} else if mouseButtonsOnly(got, sc.exp2) {
			cls = "mouse-button-state-lost"
		}
		sc.find(cls, "%d input events were injected (%s) after the earlier input had been consumed, but the delivered tail is %s", n, clipList(sc.exp2, 20), clipList(tail, 40))
	}
}

// ---- real-time input (ops `inj`, `esccheck`, `keycheck`; free running only) — C02: "once the escape timeout has expired no
// byte remains buffered".  Only a LOWER bound on the flush is checked, with a deadline of 60 escape timeouts.

const escDeadline = 3 * time.Second

func (sc *scenario) inputDescs() []string {
	sc.gmu.Lock()
	defer sc.gmu.Unlock()
	var ds []string
	for _, d := range sc.got {
		if isInput(d.desc) {
			ds = append(ds, d.desc)
		}
	}
	return ds
}

func (sc *scenario) nGot() int {
	sc.gmu.Lock()
	defer sc.gmu.Unlock()
	return len(sc.got)
}

// escCheck: the input so far ended in an incomplete sequence and nothing more is coming.  Observed where the statement speaks:
// mainLoop's own reports (schedule points main-chunk / main-chunk-end / main-timer-end, which stay readable when the
// goroutines run freely) — within the deadline it must have taken every byte out of keychan and its buffer must be empty.
// How the bytes were decoded is not judged (ESC ESC is one Esc key; ESC [ is Alt-[; …).
func (sc *scenario) escCheck() {
	sc.tag("esc-check")
	dl := time.Now().Add(escDeadline)
	for {
		if mainRecv.Load() >= int64(sc.injBytes) && mainBuf.Load() == 0 {
			break
		}
		if time.Now().After(dl) {
			sc.escOK = false
			sc.find("escape-timeout-bytes-stuck", "%d bytes were read from the terminal, the last of them an incomplete sequence, and nothing more arrived for %v (the escape timeout is 50 ms): the main loop has received %d of them and still holds %d byte(s) in its buffer; delivered events: [%s]", sc.injBytes, escDeadline, mainRecv.Load(), mainBuf.Load(), clipList(sc.inputDescs(), 30))
			return
		}
		time.Sleep(2 * time.Millisecond)
	}
	sc.escOK = true
}

// keyCheck: a complete key arrived after the silence: it decodes on its own — the main loop consumes it completely and the
// event it stands for is the last input event delivered (a lower bound again: waited for up to the deadline; the events of
// the earlier flush may still be on their way when the check starts, so nothing is concluded from counts).
func (sc *scenario) keyCheck(want string) {
	if !sc.escOK {
		sc.tag("keycheck-skipped")
		return
	}
	sc.tag("key-check")
	dl := time.Now().Add(escDeadline)
	for {
		ds := sc.inputDescs()
		if mainRecv.Load() >= int64(sc.injBytes) && mainBuf.Load() == 0 && len(ds) > 0 && ds[len(ds)-1] == want {
			return
		}
		if time.Now().After(dl) {
			sc.escOK = false
			sc.find("escape-timeout-stale-state", "after an incomplete sequence had timed out, a complete key was read: it must decode on its own as %s; %v later the main loop has received %d of %d bytes and holds %d in its buffer, delivered events: [%s]", want, escDeadline, mainRecv.Load(), sc.injBytes, mainBuf.Load(), clipList(ds, 30))
			return
		}
		time.Sleep(2 * time.Millisecond)
	}
}

// tailWait (op `tailwait d1,d2,…`; free running): the input of the header has been injected in full while the consumer was
// not polling (the event queue filled up, scanInput blocked for longer than the escape timeout), its last read ended inside a
// multi-byte character (or a marker), the consumer has resumed and the rest has been injected (op `inj`): everything must come
// out as header events ++ d1,d2,… — "however the bytes are split across reads" (C11), "back-pressure, not loss" (C05).
// Judged only when the main loop itself reports that the incomplete bytes never waited 35 ms or more for the next read
// (mainWorstGap): beyond 50 ms the escape timeout legitimately delivers them as they are.
func (sc *scenario) tailWait(tail []string) {
	sc.tag("tail-wait")
	want := append(append([]string{}, sc.exp...), tail...)
	dl := time.Now().Add(escDeadline)
	var ds []string
	for {
		ds = sc.inputDescs()
		if len(ds) >= len(want) || time.Now().After(dl) {
			break
		}
		time.Sleep(2 * time.Millisecond)
	}
	time.Sleep(10 * time.Millisecond)
	ds = sc.inputDescs()
	if strings.Join(ds, ",") == strings.Join(want, ",") {
		sc.tag("tail-wait-ok")
		return
	}
	if gap := time.Duration(mainWorstGap.Load()); gap >= 35*time.Millisecond {
		sc.tag("tail-wait-timing-missed")
		return
	}
	if fi, fh := firstInjAt.Load(), mainFirstHeld.Load(); fi == 0 || fh == 0 || time.Duration(fi-fh) >= 35*time.Millisecond {
		// the rest was never injected (a shrunk line), or reached the tty too long after the main loop was ready for it
		sc.tag("tail-wait-timing-missed")
		return
	}
	if time.Duration(mainLongestScan.Load()) < 60*time.Millisecond {
		// the premise did not materialise: the queue took everything, the main loop was back at its select at once and the
		// incomplete bytes then waited for the whole pause — a legitimate escape timeout
		sc.tag("tail-wait-not-blocked")
		return
	}
	sc.find("text-garbled-after-backpressure", "a read ended inside a multi-byte character while the application was not polling (event queue full for longer than the escape timeout); the main loop was blocked for %v on that read and the rest arrived %v after it was ready again (escape timeout: 50 ms): expected the events %s, delivered %s", time.Duration(mainLongestScan.Load()), time.Duration(mainWorstGap.Load()), clipList(want, 40), clipList(ds, 40))
}

// finalOracles: what holds in every run, whatever was shut down when.
func (sc *scenario) finalOracles() {
	got, gidx := sc.inputDelivered()
	exp := append(append([]string{}, sc.exp...), sc.expMid...)
	exp = append(exp, sc.exp2...)
	m := match(got, exp)
	if sc.timed {
		sc.tag("timed-input-judged-by-its-own-checks")
	} else if !sc.expire() {
		for i, k := range m {
			if k < 0 {
				cls := "input-event-spurious"
				if contains(exp, got[i]) {
					cls = "input-event-duplicated-or-reordered"
				}
				sc.find(cls, "delivered input event #%d (%s) does not continue the injected sequence; delivered: %s; injected: %s", i, got[i], clipList(got, 40), clipList(exp, 40))
				break
			}
		}
	} else {
		sc.tag("escape-timeout-fired")
	}
	// posted events
	seen := map[string]bool{}
	last := map[int]int{}
	for _, d := range sc.got {
		if d.desc[0] != 'I' {
			continue
		}
		var p, i int
		if _, err := fmt.Sscanf(d.desc, "I%d.%d", &p, &i); err != nil || p >= len(sc.postRes) || i >= len(sc.postRes[p]) {
			sc.find("post-spurious", "delivered interrupt %s was never posted", d.desc)
			continue
		}
		if seen[d.desc] {
			sc.find("post-duplicated", "posted event %s was delivered twice", d.desc)
		}
		seen[d.desc] = true
		if !sc.postRes[p][i] {
			sc.find("post-full-but-delivered", "PostEvent #%d of poster %d returned ErrEventQFull but the event was delivered", i, p)
		}
		if l, ok := last[p]; ok && i < l {
			sc.find("post-reordered", "poster %d: event #%d delivered after #%d", p, i, l)
		}
		last[p] = i
	}
	// error events: never more than injected faults (+ the EOF of a closed tty is not delivered after Fini)
	nerr, ninj := 0, 0
	for _, d := range sc.got {
		if d.desc == "E" {
			nerr++
		}
	}
	for _, st := range append(append([]string{}, sc.feed...), sc.in2...) {
		if st == "e" {
			ninj++
		}
	}
	if nerr > ninj {
		sc.find("error-event-duplicated", "%d EventError delivered for %d injected read errors", nerr, ninj)
	}
	// a delivered event belongs to the application: the object is not handed out a second time and what it says does not change
	// afterwards ("delivered exactly once", "a complete Event whose When() …")
	seenPtr := map[tcell.Event]int{}
	for j, d := range sc.got {
		if d.ev == nil || !d.whenOK {
			continue
		}
		if k, dup := seenPtr[d.ev]; dup && d.typ != "EventInterrupt" {
			sc.find("when-shared-object:"+d.typ, "delivered events #%d and #%d (%s, %s) are one and the same %s object", k, j, sc.got[k].desc, d.desc, d.typ)
		} else {
			seenPtr[d.ev] = j
		}
		func() {
			defer func() { _ = recover() }()
			if w := d.ev.When(); !w.Equal(d.when) {
				sc.find("when-changed:"+d.typ, "When() of delivered %s (%s) was %v at its delivery and is %v later at the end of the case", d.typ, d.desc, d.when.Sub(sc.t0), w.Sub(d.when))
			}
			if nd, _ := describe(d.ev); nd != d.desc {
				sc.find("when-changed:"+d.typ, "delivered %s read %s at its delivery and reads %s at the end of the case", d.typ, d.desc, nd)
			}
		}()
	}
	// When(): between the arrival of the cause and the delivery
	for j, d := range sc.got {
		if !d.whenOK {
			continue
		}
		if d.when.IsZero() {
			sc.find("when-zero:"+d.typ, "When() of delivered %s (%s) is the zero time", d.typ, d.desc)
			continue
		}
		if d.when.After(d.at) {
			sc.find("when-range:"+d.typ, "When() of delivered %s (%s) is %v after its delivery", d.typ, d.desc, d.when.Sub(d.at))
		}
		lower := sc.t0
		switch d.desc[0] {
		case 'I':
			var p, i int
			if _, err := fmt.Sscanf(d.desc, "I%d.%d", &p, &i); err == nil && p < len(sc.postTime) && i < len(sc.postTime[p]) {
				lower = sc.postTime[p][i]
			}
		case 'K', 'M', 'P', 'F':
			if sc.expire() {
				break
			}
			for x, gi := range gidx {
				if gi == j && m[x] >= 0 {
					k := m[x]
					if k >= len(sc.exp) && k < len(sc.exp)+len(sc.expMid) {
						// arrived while suspended: no tighter lower bound than the start of the run
					} else if k < len(sc.exp) {
						if k < len(sc.expChunk) {
							sc.fmu.Lock()
							if t, ok := sc.injectAt[sc.expChunk[k]]; ok {
								lower = t
							}
							sc.fmu.Unlock()
						}
					} else if !sc.inject2At.IsZero() {
						lower = sc.inject2At
					}
				}
			}
		}
		if d.when.Before(lower) {
			sc.find("when-range:"+d.typ, "When() of delivered %s (%s) is %v before the arrival of its cause", d.typ, d.desc, lower.Sub(d.when))
		}
	}
}

// withDeadline runs f on its own goroutine and reports whether it returned within the hang deadline
func (sc *scenario) withDeadline(f func()) (returned bool, panicked interface{}) {
	done := make(chan interface{}, 1)
	go func() {
		defer func() { done <- recover() }()
		f()
	}()
	select {
	case p := <-done:
		return true, p
	case <-time.After(time.Duration(sc.hangMs) * time.Millisecond):
		return false, nil
	}
}

// afterFini: the screen is inert after Fini (runs on the director goroutine, right after Fini returned)
func (sc *scenario) afterFini() {
	c := sc.c
	s := sc.s
	sc.finiDone = true
	wasPaused := sc.paused.Load()
	// let everything that can finish do so (the consumer sees nil / the closed channel)
	sc.stopAfter = -1
	sc.paused.Store(false)
	if !c.free.Load() {
		c.park("wait-stall", never, true)
	}
	_ = wasPaused
	consDone := sc.consDone.Load()
	c.release()
	if !consDone {
		// give the freely running consumer the hang deadline
		dl := time.Now().Add(time.Duration(sc.hangMs) * time.Millisecond)
		for !sc.consDone.Load() && time.Now().Before(dl) {
			time.Sleep(2 * time.Millisecond)
		}
		if !sc.consDone.Load() {
			if sc.chanMode {
				sc.find("channel-not-closed-after-fini", "the ChannelEvents channel was not closed after Fini returned (reader still waiting after %d ms)", sc.hangMs)
			} else {
				sc.find("poll-blocks-after-fini", "a PollEvent in progress did not return nil after Fini returned (still waiting after %d ms)", sc.hangMs)
			}
		}
	}
	// PollEvent returns nil at once
	var ev tcell.Event
	ret, p := sc.withDeadline(func() {
		for i := 0; i < 30; i++ { // events still queued may be handed out or not; nil must come without blocking
			ev = s.PollEvent()
			if ev == nil {
				return
			}
		}
	})
	switch {
	case p != nil:
		sc.find("panic-after-fini:PollEvent", "PollEvent after Fini panicked: %v", p)
	case !ret:
		sc.find("poll-blocks-after-fini", "PollEvent after Fini did not return within %d ms", sc.hangMs)
	case ev != nil:
		sc.find("poll-not-nil-after-fini", "PollEvent after Fini kept returning events (%T)", ev)
	}
	// goroutine census: every goroutine the library started is gone (wait up to the deadline for exits in progress)
	dl := time.Now().Add(time.Duration(sc.hangMs) * time.Millisecond)
	var left []string
	for {
		left = nil
		for _, g := range tcellGoroutines() {
			if strings.Contains(g, "director") || strings.HasPrefix(g, "Fini/") {
				continue
			}
			left = append(left, g)
		}
		if len(left) == 0 || time.Now().After(dl) {
			break
		}
		time.Sleep(5 * time.Millisecond)
	}
	if len(left) > 0 {
		sc.find("goroutine-leak:"+strings.Split(left[0], "[")[0], "goroutines still inside tcell %d ms after Fini returned: %s (baseline %d, now %d)", sc.hangMs, strings.Join(left, " "), sc.baseline, runtime.NumGoroutine())
	}
	// second Fini is a no-op
	before := sc.tty.ncalls()
	ret, p = sc.withDeadline(func() { s.Fini() })
	switch {
	case p != nil:
		sc.find("panic-after-fini:Fini", "second Fini panicked: %v", p)
	case !ret:
		sc.find("hang:second-fini", "second Fini did not return within %d ms", sc.hangMs)
	case sc.tty.ncalls() != before:
		sc.tty.mu.Lock()
		extra := strings.Join(sc.tty.calls[before:], ",")
		sc.tty.mu.Unlock()
		sc.find("second-fini-not-noop", "second Fini touched the tty again: %s", extra)
	}
	// further Screen calls do not panic
	calls := []struct {
		name string
		f    func()
	}{
		{"Show", func() { s.Show() }}, {"Sync", func() { s.Sync() }}, {"Clear", func() { s.Clear() }},
		{"SetContent", func() { s.SetContent(1, 1, 'x', nil, tcell.StyleDefault) }},
		{"GetContent", func() { s.GetContent(1, 1) }}, {"Size", func() { s.Size() }},
		{"ShowCursor", func() { s.ShowCursor(1, 1) }}, {"HideCursor", func() { s.HideCursor() }},
		{"SetCursorStyle", func() { s.SetCursorStyle(tcell.CursorStyleSteadyBar) }},
		{"EnableMouse", func() { s.EnableMouse() }}, {"DisableMouse", func() { s.DisableMouse() }},
		{"EnablePaste", func() { s.EnablePaste() }}, {"DisablePaste", func() { s.DisablePaste() }},
		{"EnableFocus", func() { s.EnableFocus() }}, {"DisableFocus", func() { s.DisableFocus() }},
		{"SetTitle", func() { s.SetTitle("t") }}, {"SetStyle", func() { s.SetStyle(tcell.StyleDefault) }},
		{"Fill", func() { s.Fill(' ', tcell.StyleDefault) }}, {"Colors", func() { s.Colors() }},
		{"HasPendingEvent", func() { s.HasPendingEvent() }}, {"Beep", func() { s.Beep() }},
		{"PostEvent", func() { _ = s.PostEvent(tcell.NewEventInterrupt(nil)) }},
		{"PostEventWait", func() { s.PostEventWait(tcell.NewEventInterrupt(nil)) }},
		{"HasMouse", func() { s.HasMouse() }}, {"CharacterSet", func() { s.CharacterSet() }},
		{"Suspend", func() { _ = s.Suspend() }},
	}
	for _, cl := range calls {
		ret, p := sc.withDeadline(cl.f)
		if p != nil {
			sc.find("panic-after-fini:"+cl.name, "%s after Fini panicked: %v", cl.name, p)
		} else if !ret {
			sc.find("hang-after-fini:"+cl.name, "%s after Fini did not return within %d ms", cl.name, sc.hangMs)
		}
	}
}
