//go:build !verifsched

package main

// the tree under test has no schedule points: the binary still builds, and reports that it cannot control anything
func installSched(f func(string, ...int)) bool { return false }
