//go:build verifsched

package main

import "github.com/gdamore/tcell/v2"

// built with -tags "verif verifsched" when $VERIF_REPO has the schedule points (verif_sched.go)
func installSched(f func(string, ...int)) bool {
	tcell.VerifSetScheduler(f)
	return true
}
