package engines

import (
	"strconv"
	"errors"
	"fmt"
	"os"
	"path/filepath"
	"reflect"
	"regexp"
	"sort"
	"strings"
	"sync"

	"github.com/gdamore/tcell/v2"
	"github.com/gdamore/tcell/v2/terminfo"
	_ "github.com/gdamore/tcell/v2/terminfo/base"
	_ "github.com/gdamore/tcell/v2/terminfo/extended"
	"verif/harness/h"
)

// Engine lookup — C14: the built-in terminal database and terminfo.LookupTerminfo.
//
// line:  lookup <op>; <op>; …
//   E <COLORTERM> <TCELL_TRUECOLOR>    set the two environment variables (token syntax below)
//   A <name> <aliases|-> <colors> <flags>   terminfo.AddTerminfo of a small synthetic entry (flags: t=TrueColor,
//                                       r=all three RGB strings, f=only SetFgRGB, n=none; aliases comma separated)
//   L <name>                           terminfo.LookupTerminfo(name)
//   LT <name>                          tcell.LookupTerminfo(name), the root package's wrapper (same function on names the database resolves)
//   D <name>                           database obligations of the entry registered under <name> (pristine registry)
//   S <name> <Name>                    a shipped name (terminfo/models.txt, Name:/Aliases: of terminfo/*/*/term.go)
//                                       must resolve to the entry called <Name>
//   token: the text itself if it matches [A-Za-z0-9._+-]+ , otherwise '=' followed by the hex of its bytes ('=' alone: empty)
// Every case starts from the registry as it was at process start (VerifSnapshot / VerifRestore) and an empty environment.
//
// reply: one item per L/D/S op, joined by " | ":  "nf" | "ok <Name> <Colors> <tc> <hash>" | "db nf" | "db <Name> <hash>",
//        then "chg=<Name>:<hash>,…" — the registered entries whose value differs from what was registered (canonical
//        order: pristine entries by Name, then entries added by A in order).  <hash> is FNV-1a/64 of a canonical dump of
//        every field (lkHash), computed the same way by lean/Driver/Lookup.lean.
//
// Oracle (from the property text; reference = lkSpec, a pure function over registry *values*):
//   lookup-order-dependent  the value returned by a lookup in the history differs from the value the same lookup (same
//                           environment, same AddTerminfo calls) returns in a pristine registry
//   lookup-found-mismatch / lookup-error-kind   known names resolve, unknown names and "" fail with ErrTermNotFound
//   synth-256 / synth-base / env-truecolor      the pristine result differs from the reference in the 256-colour
//                           strings / in inherited fields / in the 24-bit strings (COLORTERM, TCELL_TRUECOLOR table)
//   name-256color-not-256   NAME-256color of a known base (NAME-88color / NAME-color registered) resolves to an entry with
//                           fewer than 256 colours or whose SetFg/SetBg do not select the 256 palette indices (built-in database only)
//   db-unresolved db-alias-unresolved db-no-cursor db-colors-inconsistent db-color-string-wrong db-key-prefix   database obligations;
//   parameterised strings are judged by the Lean reference (Derived "lookup T <arity> <field> <hex>" lines → class ref:illformed).

var (
	lkOnce     sync.Once
	lkSnap     interface{}
	lkPristine []*terminfo.Terminfo // distinct registered pointers, by Name
	lkPrisVal  map[*terminfo.Terminfo]terminfo.Terminfo
	lkNames    []string // registered names, sorted
	lkTokRe    = regexp.MustCompile(`^[A-Za-z0-9._+-]+$`)
)

func lkInit() {
	lkOnce.Do(func() {
		lkSnap = terminfo.VerifSnapshot()
		ents := terminfo.VerifEntries()
		seen := map[*terminfo.Terminfo]bool{}
		lkPrisVal = map[*terminfo.Terminfo]terminfo.Terminfo{}
		for n, p := range ents {
			lkNames = append(lkNames, n)
			if !seen[p] {
				seen[p] = true
				lkPristine = append(lkPristine, p)
				lkPrisVal[p] = *p
			}
		}
		sort.Strings(lkNames)
		sort.Slice(lkPristine, func(i, j int) bool { return lkPristine[i].Name < lkPristine[j].Name })
	})
}

func lkTok(s string) string {
	if lkTokRe.MatchString(s) {
		return s
	}
	return "=" + fmt.Sprintf("%x", s)
}
func lkUntok(s string) string {
	if strings.HasPrefix(s, "=") {
		return string(h.Unhex(s[1:]))
	}
	return s
}

// lkHash: FNV-1a/64 over Name 0xff, every other string field in declaration order each followed by 0xff, then
// Columns Lines Colors Modifiers in decimal each followed by 0xff, then AutoMargin TrueColor XTermLike as '0'/'1'.
func lkHash(t *terminfo.Terminfo) string {
	hh := uint64(14695981039346656037)
	put := func(b byte) { hh ^= uint64(b); hh *= 1099511628211 }
	puts := func(s string) {
		for i := 0; i < len(s); i++ {
			put(s[i])
		}
		put(0xff)
	}
	v := reflect.ValueOf(*t)
	rt := v.Type()
	puts(t.Name)
	for i := 0; i < rt.NumField(); i++ {
		if rt.Field(i).Type.Kind() == reflect.String && rt.Field(i).Name != "Name" {
			puts(v.Field(i).String())
		}
	}
	for _, n := range []int{t.Columns, t.Lines, t.Colors, t.Modifiers} {
		puts(fmt.Sprintf("%d", n))
	}
	for _, b := range []bool{t.AutoMargin, t.TrueColor, t.XTermLike} {
		if b {
			put('1')
		} else {
			put('0')
		}
	}
	return fmt.Sprintf("%016x", hh)
}

func lkSynthetic(name, aliases string, colors int, flags string) *terminfo.Terminfo {
	t := &terminfo.Terminfo{Name: name, Columns: 80, Lines: 24, Colors: colors, SetCursor: "\x1b[%i%p1%d;%p2%dH"}
	if aliases != "-" && aliases != "" {
		for _, a := range strings.Split(aliases, ",") {
			t.Aliases = append(t.Aliases, lkUntok(a))
		}
	}
	if colors > 0 {
		t.SetFg, t.SetBg, t.SetFgBg, t.ResetFgBg = "\x1b[3%p1%dm", "\x1b[4%p1%dm", "\x1b[3%p1%d;4%p2%dm", "\x1b[m"
	}
	if strings.Contains(flags, "t") {
		t.TrueColor = true
	}
	if strings.Contains(flags, "r") {
		t.SetFgRGB, t.SetBgRGB, t.SetFgBgRGB = "\x1b[38:2:%p1%d:%p2%d:%p3%dm", "\x1b[48:2:%p1%d:%p2%d:%p3%dm", "\x1b[38:2:%p1%d:%p2%d:%p3%d;48:2:%p4%d:%p5%d:%p6%dm"
	}
	if strings.Contains(flags, "f") {
		t.SetFgRGB = "\x1b[38:2:%p1%d:%p2%d:%p3%dm"
	}
	return t
}

// ---- reference: what a lookup must return, as a pure function of the registry values and the environment.
// Written from the property text and the doc comments of LookupTerminfo: a registered name yields its entry; NAME-truecolor
// is fabricated from the corresponding -256color, -88color, -color or bare terminal (first that resolves) with 24-bit
// colour; NAME-256color from NAME-88color or NAME-color with the xterm 256-colour sequences; COLORTERM=truecolor|24bit|24-bit
// and the entry's TrueColor flag request 24-bit colour, TCELL_TRUECOLOR=disable vetoes it, any other non-empty value forces
// it; 24-bit colour means: if the entry has no RGB string at all, the ISO 8613-6 ones are supplied.

type lkEnv struct{ ct, tt string }

const (
	lkFgRGB    = "\x1b[38;2;%p1%d;%p2%d;%p3%dm"
	lkBgRGB    = "\x1b[48;2;%p1%d;%p2%d;%p3%dm"
	lkFgBgRGB  = "\x1b[38;2;%p1%d;%p2%d;%p3%d;48;2;%p4%d;%p5%d;%p6%dm"
	lkFg256    = "\x1b[%?%p1%{8}%<%t3%p1%d%e%p1%{16}%<%t9%p1%{8}%-%d%e38;5;%p1%d%;m"
	lkBg256    = "\x1b[%?%p1%{8}%<%t4%p1%d%e%p1%{16}%<%t10%p1%{8}%-%d%e48;5;%p1%d%;m"
	lkFgBg256  = "\x1b[%?%p1%{8}%<%t3%p1%d%e%p1%{16}%<%t9%p1%{8}%-%d%e38;5;%p1%d%;;%?%p2%{8}%<%t4%p2%d%e%p2%{16}%<%t10%p2%{8}%-%d%e48;5;%p2%d%;m"
	lkReset256 = "\x1b[39;49m"
)

func lkSpec(P map[string]terminfo.Terminfo, env lkEnv, name string) (terminfo.Terminfo, bool) {
	var t terminfo.Terminfo
	if name == "" {
		return t, false
	}
	wantTC := env.ct == "truecolor" || env.ct == "24bit" || env.ct == "24-bit"
	want256 := false
	found := false
	if e, ok := P[name]; ok {
		t, found = e, true
		if e.TrueColor {
			wantTC = true
		}
	} else if strings.HasSuffix(name, "-truecolor") {
		base := strings.TrimSuffix(name, "-truecolor")
		for _, s := range []string{"-256color", "-88color", "-color", ""} {
			if r, ok := lkSpec(P, env, base+s); ok {
				t, found, wantTC = r, true, true
				break
			}
		}
	} else if strings.HasSuffix(name, "-256color") {
		base := strings.TrimSuffix(name, "-256color")
		for _, s := range []string{"-88color", "-color"} {
			if r, ok := lkSpec(P, env, base+s); ok {
				t, found, want256 = r, true, true
				break
			}
		}
	}
	if !found {
		return t, false
	}
	switch env.tt {
	case "":
	case "disable":
		wantTC = false
	default:
		wantTC = true
	}
	if wantTC && t.SetFgRGB == "" && t.SetBgRGB == "" && t.SetFgBgRGB == "" {
		t.SetFgRGB, t.SetBgRGB, t.SetFgBgRGB = lkFgRGB, lkBgRGB, lkFgBgRGB
	}
	if want256 {
		t.Colors, t.SetFg, t.SetBg, t.SetFgBg, t.ResetFgBg = 256, lkFg256, lkBg256, lkFgBg256, lkReset256
	}
	return t, true
}

// first differing field of two entry values ("" if deep-equal)
func lkDiff(a, b *terminfo.Terminfo) (string, string, string) {
	va, vb := reflect.ValueOf(*a), reflect.ValueOf(*b)
	for i := 0; i < va.NumField(); i++ {
		if !reflect.DeepEqual(va.Field(i).Interface(), vb.Field(i).Interface()) {
			return va.Type().Field(i).Name, fmt.Sprintf("%q", fmt.Sprint(va.Field(i).Interface())), fmt.Sprintf("%q", fmt.Sprint(vb.Field(i).Interface()))
		}
	}
	return "", "", ""
}

// lkSame: deep equality of two entry values (one reflect walk; lkDiff is only used to name the difference)
func lkSame(a, b *terminfo.Terminfo) bool { return reflect.DeepEqual(a, b) }

func lkDiffFields(a, b *terminfo.Terminfo) []string {
	if lkSame(a, b) {
		return nil
	}
	var out []string
	va, vb := reflect.ValueOf(*a), reflect.ValueOf(*b)
	for i := 0; i < va.NumField(); i++ {
		if !reflect.DeepEqual(va.Field(i).Interface(), vb.Field(i).Interface()) {
			out = append(out, va.Type().Field(i).Name)
		}
	}
	return out
}

func lkSetEnv(e lkEnv) {
	if e.ct == "" {
		os.Unsetenv("COLORTERM")
	} else {
		os.Setenv("COLORTERM", e.ct)
	}
	if e.tt == "" {
		os.Unsetenv("TCELL_TRUECOLOR")
	} else {
		os.Setenv("TCELL_TRUECOLOR", e.tt)
	}
}

// lkNeutral: on lines that open a screen (op SC) the field XTermLike is taken from the pristine value (see execLookup)
func lkNeutral(t, pris *terminfo.Terminfo, sc bool) *terminfo.Terminfo {
	if t == nil || !sc {
		return t
	}
	c := *t
	c.XTermLike = pris.XTermLike
	return &c
}

type lkOp struct {
	kind string
	args []string
	root bool // "LT": the lookup goes through the root package's wrapper tcell.LookupTerminfo (what NewTerminfoScreen uses)
}

func lkParse(line string) []lkOp {
	rest := strings.TrimSpace(strings.TrimPrefix(strings.TrimSpace(line), "lookup"))
	var ops []lkOp
	for _, o := range h.SplitTrim(rest, ";") {
		f := strings.Fields(o)
		if len(f) == 0 {
			continue
		}
		if f[0] == "LT" {
			ops = append(ops, lkOp{"L", f[1:], true})
			continue
		}
		ops = append(ops, lkOp{f[0], f[1:], false})
	}
	return ops
}

func lkArg(o lkOp, i int) string {
	if i < len(o.args) {
		return o.args[i]
	}
	return "="
}

func lkValues() map[string]terminfo.Terminfo {
	m := map[string]terminfo.Terminfo{}
	for n, p := range terminfo.VerifEntries() {
		m[n] = *p
	}
	return m
}

// parameterised capabilities and the number of parameters tcell passes (tscreen.go / terminfo.go call sites of TParm)
var lkParamFields = []struct {
	name  string
	arity int
}{{"SetCursor", 2}, {"SetFg", 1}, {"SetBg", 1}, {"SetFgBg", 2}, {"SetFgRGB", 3}, {"SetBgRGB", 3}, {"SetFgBgRGB", 6},
	{"UnderlineColor", 1}, {"UnderlineColorRGB", 3}, {"EnterUrl", 2}, {"CursorColor", 1}, {"CursorColorRGB", 3},
	{"SetWindowSize", 2}, {"SetWindowTitle", 1}}

func lkDBChecks(name string, e *terminfo.Terminfo, ents map[string]*terminfo.Terminfo, res *h.Result) {
	add := func(cls, msg string) { res.Findings = append(res.Findings, h.Finding{Class: cls, Msg: msg}) }
	for _, a := range append([]string{e.Name}, e.Aliases...) {
		if ents[a] == nil {
			add("db-alias-unresolved", fmt.Sprintf("entry %q (registered as %q) declares name/alias %q which is not registered", e.Name, name, a))
		}
	}
	if e.SetCursor == "" {
		add("db-no-cursor", fmt.Sprintf("entry %q (registered as %q) has no cursor addressing (SetCursor empty)", e.Name, name))
	}
	// colour count consistent with colour strings
	hasFgBg := e.SetFg != "" && e.SetBg != ""
	switch {
	case e.Colors < 0:
		add("db-colors-inconsistent", fmt.Sprintf("entry %q: Colors=%d is negative", e.Name, e.Colors))
	case e.Colors > 0 && !hasFgBg:
		add("db-colors-inconsistent", fmt.Sprintf("entry %q: Colors=%d but SetFg=%q SetBg=%q", e.Name, e.Colors, e.SetFg, e.SetBg))
	case e.Colors == 0 && (e.SetFg != "" || e.SetBg != "" || e.SetFgBg != ""):
		add("db-colors-inconsistent", fmt.Sprintf("entry %q: Colors=0 but colour strings present (SetFg=%q SetBg=%q SetFgBg=%q)", e.Name, e.SetFg, e.SetBg, e.SetFgBg))
	}
	if e.Colors == 0 && (e.SetFgRGB != "" || e.SetBgRGB != "" || e.SetFgBgRGB != "" || e.TrueColor) {
		add("db-colors-inconsistent", fmt.Sprintf("entry %q: Colors=0 but direct-colour capability present", e.Name))
	}
	// colour count consistent with what the colour strings DO: every palette index below the count (capped at 256, the
	// largest index TColor passes) must be selected by SetFg / SetBg / SetFgBg (ECMA-48 family only; reading of the
	// output by lkSgr, written from ECMA-48 / xterm ctlseqs)
	if strings.HasPrefix(e.SetCursor, "\x1b[") && hasFgBg && e.Colors > 0 {
		n := e.Colors
		if n > 256 {
			n = 256
		}
		bad := 0
		for i := 0; i < n && bad < 2; i++ {
			j := (i + 1) % n
			if fg, bg, ok := lkSgr(e.TParm(e.SetFg, i)); !ok || fg != i || bg != -1 {
				add("db-color-string-wrong", fmt.Sprintf("entry %q: Colors=%d but SetFg(%d) = %q selects fg=%d bg=%d (well-formed=%v), want fg=%d", e.Name, e.Colors, i, e.TParm(e.SetFg, i), fg, bg, ok, i))
				bad++
			}
			if fg, bg, ok := lkSgr(e.TParm(e.SetBg, i)); !ok || bg != i || fg != -1 {
				add("db-color-string-wrong", fmt.Sprintf("entry %q: Colors=%d but SetBg(%d) = %q selects fg=%d bg=%d (well-formed=%v), want bg=%d", e.Name, e.Colors, i, e.TParm(e.SetBg, i), fg, bg, ok, i))
				bad++
			}
			if e.SetFgBg != "" {
				if fg, bg, ok := lkSgr(e.TParm(e.SetFgBg, i, j)); !ok || fg != i || bg != j {
					add("db-color-string-wrong", fmt.Sprintf("entry %q: Colors=%d but SetFgBg(%d,%d) = %q selects fg=%d bg=%d (well-formed=%v)", e.Name, e.Colors, i, j, e.TParm(e.SetFgBg, i, j), fg, bg, ok))
					bad++
				}
			}
		}
	}
	// parameterised strings: judged by the Lean reference (Tcell.TermSyntax.wellFormed)
	v := reflect.ValueOf(*e)
	for _, pf := range lkParamFields {
		f := v.FieldByName(pf.name)
		if f.IsValid() && f.String() != "" {
			res.Derived = append(res.Derived, fmt.Sprintf("lookup T %d %s %s", pf.arity, pf.name, h.Hex([]byte(f.String()))))
		}
	}
	// key sequences: no capability string is a proper prefix of another
	type kv struct{ k, s string }
	var keys []kv
	rt := v.Type()
	for i := 0; i < rt.NumField(); i++ {
		if rt.Field(i).Type.Kind() == reflect.String && strings.HasPrefix(rt.Field(i).Name, "Key") && v.Field(i).String() != "" {
			keys = append(keys, kv{rt.Field(i).Name, v.Field(i).String()})
		}
	}
	sort.Slice(keys, func(i, j int) bool { return keys[i].s < keys[j].s })
	for i := 0; i+1 < len(keys); i++ {
		// sorted: if any string is a proper prefix of another, some adjacent (distinct) pair is
		j := i + 1
		if keys[i].s != keys[j].s && strings.HasPrefix(keys[j].s, keys[i].s) {
			add("db-key-prefix", fmt.Sprintf("entry %q: %s=%q is a proper prefix of %s=%q", e.Name, keys[i].k, keys[i].s, keys[j].k, keys[j].s))
			break
		}
	}
}

// lk256: "Looking up NAME-256color … for a known base synthesizes an entry with the standard 256-colour … sequences".
// Judged on the built-in database only (no AddTerminfo in the case): whenever NAME-256color resolves and NAME-88color or
// NAME-color is a registered name, what comes back must offer at least 256 colours and its SetFg / SetBg must select
// every palette index 0..255 (read by lkSgr; entries of the ECMA-48 family, which all such entries are).
func lk256(name string, t *terminfo.Terminfo, reg map[string]bool, how string, res *h.Result) {
	if t == nil || !strings.HasSuffix(name, "-256color") {
		return
	}
	base := strings.TrimSuffix(name, "-256color")
	if !reg[base+"-88color"] && !reg[base+"-color"] {
		return
	}
	add := func(msg string) {
		res.Findings = append(res.Findings, h.Finding{Class: "name-256color-not-256", Msg: msg})
	}
	if t.Colors < 256 {
		add(fmt.Sprintf("%s: %q resolves to entry %q with Colors=%d (SetFg=%q): NAME-256color of a known base must have the 256-colour sequences", how, name, t.Name, t.Colors, t.SetFg))
		return
	}
	if !strings.HasPrefix(t.SetCursor, "\x1b[") {
		return
	}
	for _, i := range []int{0, 1, 7, 8, 9, 15, 16, 17, 87, 88, 200, 231, 232, 255} {
		if fg, bg, ok := lkSgr(t.TParm(t.SetFg, i)); !ok || fg != i || bg != -1 {
			add(fmt.Sprintf("%s: %q (entry %q): SetFg(%d) = %q selects fg=%d bg=%d (well-formed=%v)", how, name, t.Name, i, t.TParm(t.SetFg, i), fg, bg, ok))
			return
		}
		if fg, bg, ok := lkSgr(t.TParm(t.SetBg, i)); !ok || bg != i || fg != -1 {
			add(fmt.Sprintf("%s: %q (entry %q): SetBg(%d) = %q selects fg=%d bg=%d (well-formed=%v)", how, name, t.Name, i, t.TParm(t.SetBg, i), fg, bg, ok))
			return
		}
	}
}

func lkRegNames() map[string]bool {
	m := map[string]bool{}
	for n := range terminfo.VerifEntries() {
		m[n] = true
	}
	return m
}

func execLookup(line string) h.Result {
	lkInit()
	var res h.Result
	ops := lkParse(line)
	add := func(cls, msg string) { res.Findings = append(res.Findings, h.Finding{Class: cls, Msg: msg}) }
	tag := map[string]bool{}
	defer func() {
		lkSetEnv(lkEnv{})
		terminfo.VerifRestore(lkSnap)
	}()

	// phase 1: for every L op, the same lookup in a pristine registry (same AddTerminfo calls, same environment)
	type pris struct {
		found bool
		err   error
		val   terminfo.Terminfo
	}
	prisRes := make([]pris, len(ops))
	hasAdd := false
	scLine := false
	for _, o := range ops {
		hasAdd = hasAdd || o.kind == "A"
		scLine = scLine || o.kind == "SC"
	}
	for i, o := range ops {
		if o.kind != "L" {
			continue
		}
		terminfo.VerifRestore(lkSnap)
		env := lkEnv{}
		for _, p := range ops[:i] {
			switch p.kind {
			case "E":
				env = lkEnv{lkUntok(lkArg(p, 0)), lkUntok(lkArg(p, 1))}
			case "A":
				terminfo.AddTerminfo(lkSynthetic(lkUntok(lkArg(p, 0)), lkArg(p, 1), h.Atoi(lkArg(p, 2)), lkArg(p, 3)))
			}
		}
		name := lkUntok(lkArg(o, 0))
		P := lkValues()
		lkSetEnv(env)
		t, err := terminfo.LookupTerminfo(name)
		pr := pris{found: t != nil, err: err}
		if t != nil {
			pr.val = *t
		}
		prisRes[i] = pr
		if !hasAdd {
			reg := map[string]bool{}
			for n := range P {
				reg[n] = true
			}
			lk256(name, t, reg, "LookupTerminfo in a pristine registry", &res)
		}
		// reference verdicts on the pristine result
		want, wok := lkSpec(P, env, name)
		envs := fmt.Sprintf("COLORTERM=%q TCELL_TRUECOLOR=%q", env.ct, env.tt)
		switch {
		case wok && t == nil:
			add("lookup-found-mismatch", fmt.Sprintf("LookupTerminfo(%q) [%s] fails (%v) but the name resolves (expected entry based on %q)", name, envs, err, want.Name))
		case !wok && t != nil:
			add("lookup-found-mismatch", fmt.Sprintf("LookupTerminfo(%q) [%s] returns entry %q for a name that is neither registered nor a -256color/-truecolor variant of a registered one", name, envs, t.Name))
		case !wok && !errors.Is(err, terminfo.ErrTermNotFound):
			add("lookup-error-kind", fmt.Sprintf("LookupTerminfo(%q) fails with %v, want ErrTermNotFound", name, err))
		case wok && err != nil:
			add("lookup-error-kind", fmt.Sprintf("LookupTerminfo(%q) returns an entry and the error %v", name, err))
		case wok:
			if fs := lkDiffFields(&pr.val, &want); len(fs) > 0 {
				cls := "synth-base"
				rgb := map[string]bool{"SetFgRGB": true, "SetBgRGB": true, "SetFgBgRGB": true}
				c256 := map[string]bool{"Colors": true, "SetFg": true, "SetBg": true, "SetFgBg": true, "ResetFgBg": true}
				allRGB, all256 := true, true
				for _, f := range fs {
					allRGB = allRGB && rgb[f]
					all256 = all256 && c256[f]
				}
				if allRGB {
					cls = "env-truecolor"
				} else if all256 && strings.HasSuffix(name, "-256color") {
					cls = "synth-256"
				}
				f, got, exp := lkDiff(&pr.val, &want)
				add(cls, fmt.Sprintf("LookupTerminfo(%q) [%s] in a pristine registry: field %s = %s, expected %s (differing fields: %s)", name, envs, f, got, exp, strings.Join(fs, ",")))
			}
		}
	}

	// phase 2: the history itself
	terminfo.VerifRestore(lkSnap)
	env := lkEnv{}
	lkSetEnv(env)
	var obs []string
	type added struct {
		p   *terminfo.Terminfo
		val terminfo.Terminfo
	}
	var adds []added
	var prev []string
	for i, o := range ops {
		switch o.kind {
		case "E":
			env = lkEnv{lkUntok(lkArg(o, 0)), lkUntok(lkArg(o, 1))}
			lkSetEnv(env)
			tag["env"] = true
			if env.ct != "" {
				tag["colorterm"] = true
			}
			if env.tt != "" {
				tag["tcell_truecolor"] = true
			}
		case "A":
			t := lkSynthetic(lkUntok(lkArg(o, 0)), lkArg(o, 1), h.Atoi(lkArg(o, 2)), lkArg(o, 3))
			terminfo.AddTerminfo(t)
			adds = append(adds, added{t, *t})
			tag["add"] = true
		case "SC":
			// an application opens a screen on this terminal (constructor, Init, a draw, Fini) between two lookups: the
			// database is not an argument of that — what later lookups return must not change (a no-op for the model)
			name := lkUntok(lkArg(o, 0))
			if t, _ := terminfo.LookupTerminfo(name); t != nil {
				if scr, err := tcell.NewTerminfoScreenFromTtyTerminfo(NewFakeTty(20, 4), t); err == nil && scr.Init() == nil {
					scr.SetContent(0, 0, tcell.RuneHLine, nil, tcell.StyleDefault)
					scr.Show()
					scr.Fini()
				}
				tag["screen-opened"] = true
			}
		case "L":
			name := lkUntok(lkArg(o, 0))
			var t *terminfo.Terminfo
			if o.root && prisRes[i].found {
				// the wrapper falls back to running infocmp(1) when the name is unknown: outside the model, so LT is only
				// used for names the database resolves; with PATH emptied a (wrong) fallback fails instead of forking
				path := os.Getenv("PATH")
				os.Setenv("PATH", "")
				t, _ = tcell.LookupTerminfo(name)
				os.Setenv("PATH", path)
				tag["root-wrapper"] = true
			} else {
				t, _ = terminfo.LookupTerminfo(name)
			}
			if t == nil {
				obs = append(obs, "nf")
				tag["notfound"] = true
			} else {
				tc := 0
				if t.TrueColor {
					tc = 1
				}
				obs = append(obs, fmt.Sprintf("ok %s %d %d %s", lkTok(t.Name), t.Colors, tc, lkHash(t)))
				tag["found"] = true
				if strings.HasSuffix(name, "-256color") {
					tag["name-256color"] = true
				}
				if strings.HasSuffix(name, "-truecolor") {
					tag["name-truecolor"] = true
				}
			}
			pr := prisRes[i]
			envs := fmt.Sprintf("COLORTERM=%q TCELL_TRUECOLOR=%q", env.ct, env.tt)
			if (t != nil) != pr.found {
				add("lookup-order-dependent", fmt.Sprintf("after looking up %s, LookupTerminfo(%q) [%s] found=%v, but found=%v in a pristine registry", strings.Join(prev, ", "), name, envs, t != nil, pr.found))
			} else if tv := lkNeutral(t, &pr.val, scLine); t != nil && !lkSame(tv, &pr.val) {
				if f, got, exp := lkDiff(tv, &pr.val); f != "" {
					add("lookup-order-dependent", fmt.Sprintf("after looking up %s, LookupTerminfo(%q) [%s] returns %s = %s, but %s = %s when looked up in a pristine registry", strings.Join(prev, ", "), name, envs, f, got, f, exp))
					tag["order-dependent"] = true
				}
			}
			prev = append(prev, fmt.Sprintf("%q", name))
		case "D", "S":
			// database obligations on the pristine registry (no lookups before: these ops come alone in a case)
			name := lkUntok(lkArg(o, 0))
			ents := terminfo.VerifEntries()
			e := ents[name]
			if e == nil {
				obs = append(obs, "db nf")
			} else {
				obs = append(obs, fmt.Sprintf("db %s %s", lkTok(e.Name), lkHash(e)))
			}
			tag["db"] = true
			if o.kind == "S" {
				wantName := lkUntok(lkArg(o, 1))
				t, err := terminfo.LookupTerminfo(name)
				if t == nil {
					add("db-unresolved", fmt.Sprintf("shipped terminal name %q (entry %q) does not resolve: %v", name, wantName, err))
				} else if t.Name != wantName {
					add("db-unresolved", fmt.Sprintf("shipped terminal name %q resolves to entry %q, declared for entry %q", name, t.Name, wantName))
				}
				if !hasAdd {
					lk256(name, t, lkRegNames(), "shipped name", &res)
				}
				terminfo.VerifRestore(lkSnap)
			} else if e != nil {
				t, err := terminfo.LookupTerminfo(name)
				if t == nil || t.Name != e.Name {
					add("db-unresolved", fmt.Sprintf("registered name %q does not resolve to its entry %q: %v", name, e.Name, err))
				}
				if !hasAdd {
					lk256(name, t, lkRegNames(), "registered name", &res)
				}
				terminfo.VerifRestore(lkSnap)
				lkDBChecks(name, ents[name], ents, &res)
			}
		}
	}
	// registered entries that no longer have the value that was registered
	var chg []string
	for _, p := range lkPristine {
		v := lkPrisVal[p]
		if !lkSame(p, &v) {
			chg = append(chg, lkTok(v.Name)+":"+lkHash(p))
		}
	}
	for _, a := range adds {
		if !lkSame(a.p, &a.val) {
			chg = append(chg, lkTok(a.val.Name)+":"+lkHash(a.p))
		}
	}
	if len(chg) == 0 {
		obs = append(obs, "chg=-")
	} else {
		obs = append(obs, "chg="+strings.Join(chg, ","))
		tag["registry-edited"] = true
	}
	res.Obs = strings.Join(obs, " | ")
	if scLine {
		// the pinned constructor writes ti.XTermLike into the description it is given (tscreen.go prepareKeys), which for a
		// looked-up name is the registered entry: outside what the statement constrains (it speaks of lookups), so that field
		// is neutralised above and the hashes of such lines are not compared with the model
		res.Obs = "SKIP a screen was opened between the lookups: judged by the oracle only"
	}
	res.Nontrivial = tag["found"] || tag["db"]
	for t := range tag {
		res.Tags = append(res.Tags, t)
	}
	sort.Strings(res.Tags)
	return res
}

// shipped names: terminfo/models.txt and the Name:/Aliases: literals of terminfo/*/*/term.go in the tree under test
func lkShipped() [][2]string {
	repo := os.Getenv("VERIF_REPO")
	if repo == "" {
		repo = "/repo"
	}
	var out [][2]string
	seen := map[string]bool{}
	put := func(n, nm string) {
		if n != "" && !seen[n+"\x00"+nm] {
			seen[n+"\x00"+nm] = true
			out = append(out, [2]string{n, nm})
		}
	}
	if b, err := os.ReadFile(filepath.Join(repo, "terminfo", "models.txt")); err == nil {
		for _, l := range strings.Split(string(b), "\n") {
			l = strings.TrimSpace(l)
			if i := strings.Index(l, "|"); i >= 0 {
				l = l[:i]
			}
			for _, n := range strings.Split(l, ",") {
				n = strings.TrimSpace(n)
				put(n, n)
			}
		}
	}
	files, _ := filepath.Glob(filepath.Join(repo, "terminfo", "*", "*", "term.go"))
	sort.Strings(files)
	reName := regexp.MustCompile(`(?m)^\s*Name:\s*"([^"]*)"`)
	reAli := regexp.MustCompile(`(?m)^\s*Aliases:\s*\[\]string\{([^}]*)\}`)
	reStr := regexp.MustCompile(`"([^"]*)"`)
	reAdd := regexp.MustCompile(`terminfo\.AddTerminfo\(`)
	for _, f := range files {
		b, err := os.ReadFile(f)
		if err != nil {
			continue
		}
		// one block per AddTerminfo call
		src := string(b)
		idx := reAdd.FindAllStringIndex(src, -1)
		for k, ix := range idx {
			end := len(src)
			if k+1 < len(idx) {
				end = idx[k+1][0]
			}
			blk := src[ix[0]:end]
			m := reName.FindStringSubmatch(blk)
			if m == nil {
				continue
			}
			put(m[1], m[1])
			if a := reAli.FindStringSubmatch(blk); a != nil {
				for _, s := range reStr.FindAllStringSubmatch(a[1], -1) {
					put(s[1], m[1])
				}
			}
		}
	}
	return out
}

func genLookup(g *h.Gen) {
	lkInit()
	r := g.R
	// database obligations: every registered name, every shipped name
	for _, n := range lkNames {
		g.Emit("lookup D %s", lkTok(n))
	}
	for _, s := range lkShipped() {
		g.Emit("lookup S %s %s", lkTok(s[0]), lkTok(s[1]))
	}
	g.Emit("lookup D nosuchterm")
	// name pool: registered names, their bases, every suffix variant, stacked suffixes, unknown names, ""
	sfx := []string{"-color", "-88color", "-256color", "-truecolor"}
	baseSet := map[string]bool{}
	for _, n := range lkNames {
		b := n
		baseSet[b] = true
		for changed := true; changed; {
			changed = false
			for _, s := range sfx {
				if strings.HasSuffix(b, s) {
					b = strings.TrimSuffix(b, s)
					baseSet[b] = true
					changed = true
				}
			}
		}
	}
	for _, u := range []string{"nosuch", "zz", "XTERM", "xterm ", "", "x"} {
		baseSet[u] = true
	}
	var bases []string
	for b := range baseSet {
		bases = append(bases, b)
	}
	sort.Strings(bases)
	poolSet := map[string]bool{}
	for _, b := range bases {
		poolSet[b] = true
		for _, s := range sfx {
			poolSet[b+s] = true
		}
	}
	var core []string // bases and their single-suffix variants: the thorough tier runs all ordered pairs of these
	for n := range poolSet {
		core = append(core, n)
	}
	sort.Strings(core)
	for _, b := range []string{"xterm", "eterm", "screen", "rxvt", "sun", "nosuch", "st", "vt100"} {
		for _, s1 := range sfx {
			for _, s2 := range sfx {
				poolSet[b+s1+s2] = true
			}
		}
	}
	poolSet["xterm-truecolor-truecolor-truecolor"] = true
	poolSet["eterm-256color-truecolor-truecolor"] = true
	var pool []string
	for n := range poolSet {
		pool = append(pool, n)
	}
	sort.Strings(pool)
	cts := []string{"", "truecolor", "24bit", "24-bit", "TRUECOLOR", "1", "yes", "truecolor "}
	tts := []string{"", "disable", "enable", "1", "DISABLE", "0"}
	envOp := func() string {
		ct, tt := "", ""
		if r.Chance(70) {
			ct = h.Pick(r, cts)
		}
		if r.Chance(60) {
			tt = h.Pick(r, tts)
		}
		return fmt.Sprintf("E %s %s", lkTok(ct), lkTok(tt))
	}
	// biased picker: names that exercise synthesis are more likely
	var synth []string
	for _, n := range pool {
		if strings.HasSuffix(n, "-256color") || strings.HasSuffix(n, "-truecolor") {
			synth = append(synth, n)
		}
	}
	pick := func() string {
		if r.Chance(40) {
			return h.Pick(r, synth)
		}
		if r.Chance(50) {
			return h.Pick(r, lkNames)
		}
		return h.Pick(r, pool)
	}
	addOp := func() string {
		base := h.Pick(r, []string{"zz", "zq", "xterm", "eterm", "nosuch", "screen", "vt100"})
		name := base + h.Pick(r, []string{"", "-color", "-88color", "-256color", "-truecolor"})
		ali := "-"
		if r.Chance(40) {
			ali = lkTok(base + h.Pick(r, []string{"-color", "-88color", "-alias", "-256color"}))
			if r.Chance(30) {
				ali += "," + lkTok(base+h.Pick(r, []string{"-color", "-88color", "-other"}))
			}
		}
		return fmt.Sprintf("A %s %s %d %s", lkTok(name), ali, h.Pick(r, []int{0, 8, 16, 88, 256}), h.Pick(r, []string{"n", "n", "t", "r", "tr", "f", "tf"}))
	}
	// env table on single lookups (every setting of the matrix on a few names)
	for _, ct := range cts {
		for _, tt := range tts {
			for _, n := range []string{"xterm", "xterm-kitty", "xterm-direct", "vt100", "eterm-256color", "screen-truecolor", "nosuch-truecolor"} {
				g.Emit("lookup E %s %s; L %s", lkTok(ct), lkTok(tt), lkTok(n))
			}
		}
	}
	// single lookups of the whole pool in the neutral environment
	for _, n := range pool {
		g.Emit("lookup L %s", lkTok(n))
	}
	if g.Thorough() {
		// all ordered pairs in the neutral environment
		for _, a := range core {
			for _, b := range core {
				g.Emit("lookup L %s; L %s", lkTok(a), lkTok(b))
			}
		}
	}
	// the environment changes BETWEEN two lookups of one family's synthesized names: what a lookup returns is a function of
	// (registry, environment at the time of that lookup); every ordered pair of the four documented settings
	// (COLORTERM=truecolor on/off x TCELL_TRUECOLOR=disable on/off), same name twice and the two variants of one base
	env4 := [][2]string{{"", ""}, {"truecolor", ""}, {"", "disable"}, {"truecolor", "disable"}}
	hb := []string{"vt220", "sun", "eterm", "xterm", "screen", "rxvt"}
	if g.Thorough() {
		hb = bases
	} else {
		for k := 0; k < 4; k++ {
			hb = append(hb, h.Pick(r, bases))
		}
	}
	for _, b := range hb {
		for _, n1 := range []string{"-256color", "-truecolor"} {
			for _, n2 := range []string{"-256color", "-truecolor"} {
				for i, e1 := range env4 {
					for j, e2 := range env4 {
						if i == j {
							continue
						}
						l := fmt.Sprintf("lookup E %s %s; L %s; E %s %s; L %s", lkTok(e1[0]), lkTok(e1[1]), lkTok(b+n1), lkTok(e2[0]), lkTok(e2[1]), lkTok(b+n2))
						if n1 == n2 && r.Chance(50) { // and back again
							l += fmt.Sprintf("; E %s %s; L %s", lkTok(e1[0]), lkTok(e1[1]), lkTok(b+n1))
						}
						if (i+j)%2 == 0 { // half of them through the root package's wrapper
							l = strings.ReplaceAll(l, "; L ", "; LT ")
						}
						g.Emit("%s", l)
					}
				}
			}
		}
		// other spellings and values of the two variables
		for k := 0; k < 4; k++ {
			n := b + h.Pick(r, []string{"-256color", "-truecolor"})
			g.Emit("lookup %s; L %s; %s; L %s; %s; L %s", envOp(), lkTok(n), envOp(), lkTok(n), envOp(), lkTok(n))
		}
	}
	n := g.N(2500, 30000)
	for i := 0; i < n; i++ {
		var ops []string
		k := r.Intn(100)
		if k >= 35 {
			ops = append(ops, envOp())
		}
		if k >= 80 {
			for j := r.Range(1, 3); j > 0; j-- {
				ops = append(ops, addOp())
			}
		}
		if k >= 88 {
			// a synthetic family: a random subset of zz, zz-color, zz-88color, zz-256color is registered (distinguishable
			// colour counts), then variants of zz are looked up — exercises the sibling preference orders
			ops = ops[:0]
			if r.Chance(50) {
				ops = append(ops, envOp())
			}
			fb := h.Pick(r, []string{"zz", "zq-1", "xterm", "eterm"})
			cols := map[string]int{"": 2, "-color": 8, "-88color": 88, "-256color": 255}
			any := false
			for _, sx := range []string{"", "-color", "-88color", "-256color"} {
				if r.Chance(55) {
					ops = append(ops, fmt.Sprintf("A %s - %d %s", lkTok(fb+sx), cols[sx], h.Pick(r, []string{"n", "n", "n", "t", "r", "f"})))
					any = true
				}
			}
			if !any {
				ops = append(ops, fmt.Sprintf("A %s - 8 n", lkTok(fb+"-color")))
			}
			for j := r.Range(1, 3); j > 0; j-- {
				ops = append(ops, "L "+lkTok(fb+h.Pick(r, []string{"-256color", "-truecolor", "-truecolor", "-256color-truecolor", "", "-color", "-88color"})))
			}
			g.Emit("lookup %s", strings.Join(ops, "; "))
			continue
		}
		nl := 2
		if r.Chance(25) {
			nl = r.Range(3, 5)
		}
		fam := ""
		if r.Chance(55) { // names of one family: variants of the same base interfere with each other
			fam = h.Pick(r, bases)
		}
		for j := 0; j < nl; j++ {
			if j > 0 && r.Chance(4) {
				ops = append(ops, envOp())
			}
			if fam != "" {
				nm := fam + h.Pick(r, []string{"", "", "-color", "-88color", "-256color", "-256color", "-truecolor", "-truecolor"})
				if r.Chance(8) {
					nm += h.Pick(r, sfx)
				}
				ops = append(ops, "L "+lkTok(nm))
			} else {
				ops = append(ops, "L "+lkTok(pick()))
			}
		}
		if r.Chance(15) { // a screen is opened on one of the names in between
			for j, o := range ops {
				if strings.HasPrefix(o, "L ") && j+1 < len(ops) && r.Chance(50) {
					ops = append(ops[:j+1], append([]string{"SC " + o[2:]}, ops[j+1:]...)...)
					break
				}
			}
		}
		if r.Chance(35) { // through the root package's wrapper tcell.LookupTerminfo (what NewTerminfoScreen calls)
			for j, o := range ops {
				if strings.HasPrefix(o, "L ") && r.Chance(60) {
					ops[j] = "LT " + o[2:]
				}
			}
		}
		g.Emit("lookup %s", strings.Join(ops, "; "))
	}
	// a screen opened on the terminal between two lookups of it (entries with padding in their ACS strings first)
	for _, n := range []string{"vt220", "vt200", "vt420", "vt100", "xterm", "xterm-256color", "linux", "sun-color", "wy60"} {
		g.Emit("lookup L %s; SC %s; L %s", lkTok(n), lkTok(n), lkTok(n))
		g.Emit("lookup SC %s; L %s; D %s", lkTok(n), lkTok(n), lkTok(n))
	}
	// malformed stream
	g.Emit("lookup L")
	g.Emit("lookup E; L xterm")
}

func init() {
	h.Register(&h.Engine{Name: "lookup",
		Rule: "database obligations for every registered/shipped name; lookup histories (1-5 lookups, optional environment settings and synthetic AddTerminfo calls; directed: environment changed between two lookups of the same / sibling synthesized names, all ordered pairs of the four documented settings) over registered names, their -color/-88color/-256color/-truecolor variants (also stacked), unknown names and \"\"; distinct = distinct case line; non-trivial = some lookup succeeds or a database entry is examined",
		Gen:  genLookup, Exec: execLookup})
}

// lkSgr reads a string that must consist of SGR control sequences only (CSI Pm m, padding $<..> ignored) and returns
// the palette indices it leaves selected as foreground / background (-1 = not set, -2 = something else such as the
// default colour or an RGB colour), following ECMA-48 §8.3.117 and xterm ctlseqs: 30-37 / 40-47 colours 0-7, 90-97 /
// 100-107 colours 8-15, 38;5;n / 48;5;n and the colon forms 38:5:n / 48:5:n colour n, 39 / 49 default, 0 reset.
func lkSgr(s string) (fg, bg int, ok bool) {
	fg, bg = -1, -1
	for len(s) > 0 {
		if strings.HasPrefix(s, "$<") {
			k := strings.IndexByte(s, '>')
			if k < 0 {
				return fg, bg, false
			}
			s = s[k+1:]
			continue
		}
		if !strings.HasPrefix(s, "\x1b[") {
			return fg, bg, false
		}
		k := 2
		for k < len(s) && (s[k] >= '0' && s[k] <= '9' || s[k] == ';' || s[k] == ':') {
			k++
		}
		if k >= len(s) || s[k] != 'm' {
			return fg, bg, false
		}
		var ps [][]int
		for _, f := range strings.Split(s[2:k], ";") {
			var sub []int
			for _, g := range strings.Split(f, ":") {
				v := 0
				if g == "" {
					v = -1
				} else if len(g) > 9 {
					return fg, bg, false
				} else {
					v, _ = strconv.Atoi(g)
				}
				sub = append(sub, v)
			}
			ps = append(ps, sub)
		}
		s = s[k+1:]
		for i := 0; i < len(ps); i++ {
			p := ps[i]
			set := func(which, v int) {
				if which == 38 {
					fg = v
				} else {
					bg = v
				}
			}
			switch v := p[0]; {
			case v == 38 || v == 48:
				if len(p) >= 3 && p[1] == 5 { // colon form
					set(v, p[2])
				} else if len(p) == 1 && i+2 < len(ps) && len(ps[i+1]) == 1 && ps[i+1][0] == 5 && len(ps[i+2]) == 1 && ps[i+2][0] >= 0 {
					set(v, ps[i+2][0])
					i += 2
				} else if len(p) == 1 && i+4 < len(ps) && ps[i+1][0] == 2 {
					set(v, -2)
					i += 4
				} else if len(p) >= 2 && p[1] == 2 {
					set(v, -2)
				} else {
					return fg, bg, false // incomplete extended colour selector
				}
			case len(p) != 1:
				return fg, bg, false
			case v >= 30 && v <= 37:
				fg = v - 30
			case v >= 40 && v <= 47:
				bg = v - 40
			case v >= 90 && v <= 97:
				fg = v - 90 + 8
			case v >= 100 && v <= 107:
				bg = v - 100 + 8
			case v == 39:
				fg = -2
			case v == 49:
				bg = -2
			case v == 0 || v == -1:
				fg, bg = -2, -2
			default:
				// other attributes do not select a colour; a colour string has no business setting them
				return fg, bg, false
			}
		}
	}
	return fg, bg, true
}
