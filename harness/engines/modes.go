package engines

import (
	"fmt"
	"os"
	"strconv"
	"strings"
	"time"

	"github.com/gdamore/tcell/v2"
	"github.com/gdamore/tcell/v2/terminfo"
	"verif/harness/h"
)

// Engine modes — C04: histories of mode-changing, drawing and life-cycle calls on a real terminfo screen over a FakeTty.
//
// line:  modes <entry> <tc> <alt> <w> <h> <op>; <op>; …
//   entry, tc, w, h as for engine draw; alt = 1 normal, 0 = TCELL_ALTSCREEN=disable
//   ops:  ME f (EnableMouse with the flags or-ed to f) | MD (DisableMouse) | PE | PD (Enable/DisablePaste) |
//         FE | FD (Enable/DisableFocus) | T hex (SetTitle) | Z (Suspend) | R (Resume) | Q (Fini) | B (Beep) |
//         the draw ops S F Y C K L W N RQ of engine draw (RN is ignored) | FIT / FIT0 pseudo-ops (colour fitting values)
//   After the last op the harness always calls Fini (tag z), whether or not the history contained one.
// reply: for Init (tag i), every op (tag = index) and the final Fini (tag z) that made the screen touch the tty:
//        "<tag>=<item>,<item>,…" where an item is a Tty call (Start Stop Drain NR1 NR0 WS Close; NR1/NR0 =
//        NotifyResize(fn)/(nil), WS = WindowSize) or "W:<hex>" = a maximal run of Write calls with the bytes they carried.
//
// Oracle (from the property text; does not look at the model):
//   * every byte the implementation wrote is replayed into the Lean ECMA-48 reference emulator (h.Ref); when a Suspend
//     or Fini returns its mode registers must be the defaults (class mode-left-on:<mode>), when a Resume returns the
//     mouse / paste / focus registers must be exactly what the application last requested (resume-missing:<mode>,
//     resume-extra:<mode>);
//   * the raw call log of the FakeTty must follow the Tty contract (tty-order:<rule>);
//   * a call that does not return within 5 s is class hang:<op> (after 10 hangs the rest of the run is skipped), a panic is class panic:<op>.

const modesInitialTitle = "shell" // what the user's terminal shows before the application starts

type modesShadow struct {
	mouse    int
	paste    bool
	focus    bool
	finished bool
}

// modesHangs counts the calls that never returned in this process.  A hung call keeps spinning (or blocking) in its own
// goroutine, possibly holding the screen lock; after a few of them the verdict is clear and the remaining cases of the
// run are skipped instead of each paying the watchdog.
var modesHangs int

const modesMaxHangs = 10

// guard runs one API call with a watchdog; a panic or a hang becomes a finding instead of taking the run down.
func guard(res *h.Result, name string, f func()) bool {
	done := make(chan interface{}, 1)
	go func() {
		defer func() { done <- recover() }()
		f()
	}()
	select {
	case p := <-done:
		if p != nil {
			res.Findings = append(res.Findings, h.Finding{Class: "panic:" + name, Msg: fmt.Sprintf("%s panicked: %v", name, p)})
			return false
		}
		return true
	case <-time.After(5 * time.Second):
		modesHangs++
		res.Findings = append(res.Findings, h.Finding{Class: "hang:" + name, Msg: name + " did not return within 5 s"})
		return false
	}
}

type ttyOrder struct {
	started, drained, nrNil, closed bool
	seenStart                       bool
}

// check applies the Tty contract of the property statement to the raw log entries of one API call.
func (o *ttyOrder) check(kind string, tag string, raw []string, add func(class, format string, a ...interface{})) {
	disengaging := kind == "Z" || kind == "Q"
	closedHere := false
	for _, e := range raw {
		if closedHere {
			add("tty-order:call-after-close", "op %s (%s): %s after Close in the same call", tag, kind, e)
		}
		switch {
		case e == "Start":
			if o.started {
				add("tty-order:start-twice", "op %s (%s): Start on a tty that is already started", tag, kind)
			}
			o.started, o.drained, o.seenStart = true, false, true
		case e == "Start(failed)":
			// the tty refused to start: nothing is started, and the library must leave it at that (no writes, no Close)
			if o.started {
				add("tty-order:start-twice", "op %s (%s): Start on a tty that is already started", tag, kind)
			}
		case e == "Drain":
			if !o.started {
				add("tty-order:drain-after-stop", "op %s (%s): Drain on a stopped tty", tag, kind)
			}
			o.drained = true
		case e == "NotifyResize(nil)":
			o.nrNil = true
		case e == "NotifyResize(fn)":
			o.nrNil = false
		case e == "Stop":
			if !o.started {
				add("tty-order:stop-twice", "op %s (%s): Stop on a tty that is not started", tag, kind)
			} else {
				if !o.drained {
					add("tty-order:stop-before-drain", "op %s (%s): Stop without a preceding Drain in this session", tag, kind)
				}
				if !o.nrNil {
					add("tty-order:resize-cb-registered-at-stop", "op %s (%s): the resize callback is still registered when the tty is stopped", tag, kind)
				}
			}
			o.started = false
		case strings.HasPrefix(e, "Write-after-Stop"):
			if disengaging {
				add("tty-order:write-after-stop", "op %s (%s): %s — a write of the tear-down reaches the tty after Stop", tag, kind, e)
			} else if !o.seenStart {
				add("tty-order:write-before-start", "op %s (%s): %s before the tty was ever started", tag, kind, e)
			}
		case e == "WindowSize":
			if disengaging && !o.started {
				add("tty-order:io-after-stop", "op %s (%s): WindowSize after Stop", tag, kind)
			}
		case e == "Read-after-Stop":
			add("tty-order:read-after-stop", "op %s (%s): the input loop reads from the stopped tty", tag, kind)
		case e == "Close":
			if kind != "Q" {
				add("tty-order:close-outside-fini", "op %s (%s): Close outside Fini", tag, kind)
			}
			if o.started {
				add("tty-order:close-before-stop", "op %s (%s): Close on a tty that has not been stopped", tag, kind)
			}
			if o.closed {
				add("tty-order:close-twice", "op %s (%s): Close called twice", tag, kind)
			}
			o.closed, closedHere = true, true
		}
	}
}

// canonLog merges the raw log of one call with the write blocks into the canonical items of the reply.
func canonLog(raw []string, blocks [][]byte) ([]string, [][]byte) {
	var items []string
	var writes [][]byte
	bi := 0
	var cur []byte
	inW := false
	flush := func() {
		if inW {
			items = append(items, "W:"+h.Hex(cur))
			writes = append(writes, cur)
			cur, inW = nil, false
		}
	}
	for _, e := range raw {
		if strings.HasPrefix(e, "Write") {
			if bi < len(blocks) {
				cur = append(cur, blocks[bi]...)
				bi++
			}
			inW = true
			continue
		}
		flush()
		switch e {
		case "NotifyResize(nil)":
			items = append(items, "NR0")
		case "NotifyResize(fn)":
			items = append(items, "NR1")
		case "WindowSize":
			items = append(items, "WS")
		case "Read-after-Stop":
			items = append(items, "RAS")
		default:
			items = append(items, e)
		}
	}
	flush()
	return items, writes
}

func execModes(line string) (res h.Result) {
	f := strings.SplitN(strings.TrimPrefix(line, "modes "), " ", 6)
	if len(f) < 5 {
		return h.Result{Obs: "bad-line"}
	}
	name, tc, alt, w, hh := f[0], f[1] == "1", f[2] == "1", h.Atoi(f[3]), h.Atoi(f[4])
	name, staleVariant := splitLockGuard(name)
	var ops []string
	if len(f) == 6 {
		ops = h.SplitTrim(f[5], ";")
	}
	ti := drawTi(name, tc)
	if ti == nil {
		return h.Result{Obs: "no-entry"}
	}
	if modesHangs >= modesMaxHangs {
		return h.Result{Obs: "SKIP not executed: earlier calls of this run never returned (hang findings above)"}
	}
	os.Setenv("LC_ALL", "en_US.UTF-8")
	if alt {
		os.Setenv("TCELL_ALTSCREEN", "")
	} else {
		os.Setenv("TCELL_ALTSCREEN", "disable")
	}
	defer os.Setenv("TCELL_ALTSCREEN", "")
	if tc {
		os.Unsetenv("TCELL_TRUECOLOR")
	} else {
		os.Setenv("TCELL_TRUECOLOR", "disable")
	}
	tty := NewFakeTty(w, hh)
	tty.LogWS = true
	scr, err := tcell.NewTerminfoScreenFromTtyTerminfo(tty, ti)
	if err != nil {
		return h.Result{Obs: "new-error " + err.Error()}
	}
	addF := func(class, format string, a ...interface{}) {
		for _, x := range res.Findings {
			if x.Class == class {
				return // one finding per class and case
			}
		}
		if len(res.Findings) < 6 {
			res.Findings = append(res.Findings, h.Finding{Class: class, Msg: fmt.Sprintf(format, a...)})
		}
	}
	der := tcell.VerifDerived(ti)
	hasMouse := ti.Mouse != ""
	var obs []string
	emuOps := []string{"A " + h.Hex([]byte("\x1b]2;"+modesInitialTitle+"\x07"))}
	if strings.Contains(ti.Clear, "\x0c") {
		emuOps = append(emuOps, "C ff")
	}
	order := &ttyOrder{}
	tags := map[string]bool{}
	if !alt {
		tags["altscreen-disabled"] = true
	}
	take := func(tag, kind string) {
		raw, blocks := tty.TakeLog(), tty.TakeWrites()
		order.check(kind, tag, raw, addF)
		items, writes := canonLog(raw, blocks)
		if len(items) > 0 {
			obs = append(obs, tag+"="+strings.Join(items, ","))
		}
		for _, b := range writes {
			if len(b) > 0 {
				emuOps = append(emuOps, "W "+h.Hex(b))
			}
		}
	}
	emuModes := func() (map[string]string, bool) {
		d := h.Ref(fmt.Sprintf("emu %d %d 1 1 acs:- %s", w, hh, strings.Join(emuOps, "; ")))
		if strings.HasPrefix(d, "ref-error") || strings.HasPrefix(d, "bad-") || !strings.Contains(d, "modes=") {
			addF("ref-unavailable", "reference emulator: %.200s", d)
			return nil, false
		}
		kv, _ := parseEmuDump(d)
		return kv, true
	}
	titleSaved := false // some title was pushed on the terminal's title stack during the current session
	sh := &modesShadow{}
	// the property's end state, judged on the reference emulator's registers
	checkRestored := func(tag, what string) {
		kv, ok := emuModes()
		if !ok {
			return
		}
		m := kv["modes"]
		bad := func(mode, format string, a ...interface{}) {
			addF("mode-left-on:"+mode, "after op %s (%s returned) on %s: %s", tag, what, name, fmt.Sprintf(format, a...))
		}
		if modeOf(m, "alt") != "0" {
			bad("altscreen", "the terminal is still on the alternate screen")
		}
		if modeOf(m, "cv") != "1" {
			bad("cursor-hidden", "the cursor is still invisible")
		}
		if s := modeOf(m, "shape"); s != "0" {
			bad("cursor-shape", "cursor shape is DECSCUSR %s, not the default", s)
		}
		if c := modeOf(m, "ccol"); c != "-" || modeOf(m, "cname") != "-" {
			bad("cursor-color", "cursor colour is still %s%s", c, modeOf(m, "cname"))
		}
		if p := strings.Split(kv["pen"], ","); len(p) == 6 {
			if p[0] != "d" || p[1] != "d" || p[2] != "-" || p[3] != "0" || p[4] != "d" {
				bad("sgr", "colours / attributes are not reset: pen=%s", kv["pen"])
			}
			if p[5] != "-" {
				bad("hyperlink", "a hyperlink (OSC 8) is still open: pen=%s", kv["pen"])
			}
		}
		if modeOf(m, "kp") != "0" || modeOf(m, "ck") != "0" || modeOf(m, "ss") != "0" {
			bad("keypad", "keypad-transmit mode is still on (kp=%s ck=%s ss=%s)", modeOf(m, "kp"), modeOf(m, "ck"), modeOf(m, "ss"))
		}
		for _, k := range []string{"m0", "m2", "m3", "m6"} {
			if modeOf(m, k) != "0" {
				bad("mouse", "mouse tracking mode %s is still on", map[string]string{"m0": "1000", "m2": "1002", "m3": "1003", "m6": "1006"}[k])
			}
		}
		if modeOf(m, "bp") != "0" {
			bad("paste", "bracketed paste (2004) is still on")
		}
		if modeOf(m, "fo") != "0" {
			bad("focus", "focus reporting (1004) is still on")
		}
		if modeOf(m, "am") != "1" {
			bad("automargin", "auto-margin is still off")
		}
		if ts := modeOf(m, "tstack"); !strings.HasPrefix(ts, "0") {
			bad("title", "a saved title is still on the title stack (tstack:%s)", ts)
		} else if titleSaved && modeOf(m, "title") != h.Hex([]byte(modesInitialTitle)) {
			bad("title", "the title was saved but the terminal shows %q, not the saved %q", string(h.Unhex(modeOf(m, "title"))), modesInitialTitle)
		}
		titleSaved = false
	}
	checkResumed := func(tag string) {
		kv, ok := emuModes()
		if !ok {
			return
		}
		m := kv["modes"]
		if ts := modeOf(m, "tstack"); !strings.HasPrefix(ts, "0") {
			titleSaved = true
		}
		want := map[string]bool{}
		if hasMouse {
			want["m0"], want["m2"], want["m3"] = sh.mouse&1 != 0, sh.mouse&2 != 0, sh.mouse&4 != 0
			want["m6"] = sh.mouse&7 != 0
		}
		want["bp"] = sh.paste && der["enablePaste"] != ""
		want["fo"] = sh.focus && der["enableFocus"] != ""
		names := map[string]string{"m0": "mouse-1000", "m2": "mouse-1002", "m3": "mouse-1003", "m6": "mouse-1006", "bp": "paste", "fo": "focus"}
		for _, k := range []string{"m0", "m2", "m3", "m6", "bp", "fo"} {
			got := modeOf(m, k) == "1"
			if want[k] && !got {
				addF("resume-missing:"+names[k], "after op %s (Resume returned) on %s: the application has %s enabled (mouse flags %d, paste %v, focus %v) but the terminal has it off", tag, name, names[k], sh.mouse, sh.paste, sh.focus)
			}
			if !want[k] && got {
				addF("resume-extra:"+names[k], "after op %s (Resume returned) on %s: %s is on although the application does not have it enabled (mouse flags %d, paste %v, focus %v)", tag, name, names[k], sh.mouse, sh.paste, sh.focus)
			}
		}
	}

	if !guard(&res, "Init", func() {
		if e := scr.Init(); e != nil {
			panic("Init failed: " + e.Error())
		}
	}) {
		res.Obs = "SKIP Init did not complete"
		return res
	}
	done := make(chan struct{})
	go func() {
		for scr.PollEvent() != nil {
		}
		close(done)
	}()
	take("i", "I")
	checkResumed("i") // nothing is requested yet: nothing may be on; also notes whether a title was saved
	suspended := false
	alive := true
	oracleOnly := false
	for i, op := range ops {
		t := strings.Fields(op)
		if len(t) == 0 {
			continue
		}
		tag := strconv.Itoa(i)
		kind := t[0]
		if suspended && !sh.finished && kind != "R" && kind != "Z" && kind != "Q" && kind != "FIT" && kind != "FIT0" {
			tags["op-while-suspended"] = true
		}
		if sh.finished && kind != "FIT" && kind != "FIT0" {
			tags["op-after-fini"] = true
		}
		call := func(f func()) {
			if alive && !guard(&res, kind, f) {
				alive = false
			}
		}
		// `ZN <op>` / `QN <op>`: Suspend / Fini during which the application makes the call <op> (ME f | MD | PE | PD | FE | FD)
		// — it lands after the library has stopped its loops and before it restores the terminal (from the tty's
		// NotifyResize(nil) callback; the library holds no screen lock there).  Same history as `Z ; <op>` for the model.
		if (kind == "ZN" || kind == "QN") && len(t) >= 2 {
			inner := t[1:]
			tags["call-during-"+map[string]string{"ZN": "suspend", "QN": "fini"}[kind]] = true
			tty.OnUnnotify = func() {
				switch inner[0] {
				case "ME":
					if len(inner) > 1 {
						scr.EnableMouse(tcell.MouseFlags(h.Atoi(inner[1])))
					}
				case "MD":
					scr.DisableMouse()
				case "PE":
					scr.EnablePaste()
				case "PD":
					scr.DisablePaste()
				case "FE":
					scr.EnableFocus()
				case "FD":
					scr.DisableFocus()
				}
			}
			if !sh.finished && !suspended { // otherwise the callback never runs: nothing changes
				switch inner[0] {
				case "ME":
					if len(inner) > 1 {
						sh.mouse = h.Atoi(inner[1])
					}
				case "MD":
					sh.mouse = 0
				case "PE":
					sh.paste = true
				case "PD":
					sh.paste = false
				case "FE":
					sh.focus = true
				case "FD":
					sh.focus = false
				}
			}
			kind = kind[:1]
		}
		switch kind {
		case "ME":
			fl := h.Atoi(t[1])
			sh.mouse = fl
			call(func() { scr.EnableMouse(tcell.MouseFlags(fl)) })
			res.Nontrivial = true
		case "MD":
			sh.mouse = 0
			call(func() { scr.DisableMouse() })
		case "PE":
			sh.paste = true
			call(func() { scr.EnablePaste() })
			res.Nontrivial = true
		case "PD":
			sh.paste = false
			call(func() { scr.DisablePaste() })
		case "FE":
			sh.focus = true
			call(func() { scr.EnableFocus() })
			res.Nontrivial = true
		case "FD":
			sh.focus = false
			call(func() { scr.DisableFocus() })
		case "T":
			title := string(h.Unhex(t[1]))
			call(func() { scr.SetTitle(title) })
			tags["title"] = true
		case "B":
			call(func() { _ = scr.Beep() })
		case "Z":
			call(func() { _ = scr.Suspend() })
			if suspended {
				tags["double-suspend"] = true
			}
			suspended = true
		case "RF":
			// Resume during which Tty.Start fails.  The screen stays suspended; the Tty contract (no write, no Close outside
			// Fini) and everything after it — a retried Resume, Suspend, Fini — are judged by the oracles; the model has no
			// failing tty, so the line is oracle-only.
			oracleOnly = true
			if suspended && !sh.finished {
				tty.FailStart = true
				tags["resume-start-fails"] = true
			}
			call(func() { _ = scr.Resume() })
			tty.FailStart = false
		case "R":
			if !suspended {
				tags["resume-while-running"] = true
			} else if !sh.finished {
				tags["suspend-resume-cycle"] = true
			}
			call(func() { _ = scr.Resume() })
			if !sh.finished {
				suspended = false
			}
		case "Q":
			if sh.finished {
				tags["double-fini"] = true
			}
			call(func() { scr.Fini() })
			sh.finished, suspended = true, true
		case "S":
			x, y, m, comb, st := h.Atoi(t[1]), h.Atoi(t[2]), h.Atoi(t[3]), h.IntList(t[4]), ParseStyleF(t[5])
			call(func() { scr.SetContent(x, y, rune(m), toRunes(comb), st.ToStyle()) })
			if st.Url != "" {
				tags["url"] = true
			}
		case "F":
			r, st := h.Atoi(t[1]), ParseStyleF(t[2])
			call(func() { scr.Fill(rune(r), st.ToStyle()) })
		case "Y":
			st := ParseStyleF(t[1])
			call(func() { scr.SetStyle(st.ToStyle()) })
		case "C":
			x, y := h.Atoi(t[1]), h.Atoi(t[2])
			call(func() { scr.ShowCursor(x, y) })
		case "K":
			cs, cc := h.Atou(t[1]), h.Atou(t[2])
			call(func() { scr.SetCursorStyle(tcell.CursorStyle(cs), tcell.Color(cc)) })
			tags["cursor-style"] = true
		case "L":
			x, y, lw, lh, lock := h.Atoi(t[1]), h.Atoi(t[2]), h.Atoi(t[3]), h.Atoi(t[4]), t[5] == "1"
			call(func() { scr.LockRegion(x, y, lw, lh, lock) })
		case "W":
			call(func() { scr.Show() })
		case "N":
			call(func() { scr.Sync() })
		case "RQ":
			tty.SetSizeQuiet(h.Atoi(t[1]), h.Atoi(t[2]))
			emuOps = append(emuOps, fmt.Sprintf("R %d %d", h.Atoi(t[1]), h.Atoi(t[2])))
		default:
			continue // FIT, FIT0, RN, unknown
		}
		if !alive {
			break
		}
		tty.OnUnnotify = nil
		take(tag, kind)
		switch kind {
		case "Z":
			checkRestored(tag, "Suspend")
		case "Q":
			checkRestored(tag, "Fini")
		case "R":
			if !sh.finished {
				checkResumed(tag)
			}
		}
	}
	if alive {
		if guard(&res, "Fini", func() { scr.Fini() }) {
			select {
			case <-done:
			case <-time.After(5 * time.Second):
				addF("hang:PollEvent", "PollEvent does not return nil after Fini")
			}
			take("z", "Q")
			checkRestored("z", "Fini")
		}
	}
	res.Obs = strings.Join(obs, " ")
	if oracleOnly {
		res.Obs = "SKIP history with a failing Tty.Start: judged by the oracles only"
	}
	if staleVariant {
		res.Obs = "SKIP line recorded on a tree of the other locked-neighbour variant: judged by the oracle only"
	}
	if !alive {
		res.Obs = "SKIP a call panicked or hung: " + res.Obs
	}
	for t := range tags {
		res.Tags = append(res.Tags, t)
	}
	return res
}

// ---- generator ----

var modesTitles = []string{"t", "tcell demo", "vi /etc/passwd", "café 世界", "a;b", "100%", ""}

// innerCall: the call an application goroutine makes while a Suspend / Fini is in progress (ops ZN / QN)
func innerCall(r *h.Rand) string {
	return h.Pick(r, []string{"FD", "FD", "FE", "MD", "PD", "PE", fmt.Sprintf("ME %d", h.Pick(r, []int{1, 3, 7}))})
}

func genModes(g *h.Gen) {
	r := g.R
	ents := ecmaEntries()
	fixed := []string{"xterm-256color", "linux", "vt100", "screen-256color", "xterm-kitty", "tmux"}
	// quick: six entries rotating with the seed besides the fixed ones; thorough: every ECMA-family entry in turn
	rot := make([]string, 0, 6)
	for len(rot) < 6 {
		rot = append(rot, h.Pick(r, ents))
	}
	// fixed teardown matrix (every tier, every seed): every ECMA-family entry, alternate screen on and off, a history that turns
	// everything on, draws coloured / attributed cells, suspends, resumes, draws again and finishes — a description-specific
	// teardown string (op, sgr0, rmkx, smam, …) is exercised for EVERY entry, not only for the ones a seed happens to pick
	for _, name := range ents {
		if terminfo.VerifEntries()[name] == nil {
			continue
		}
		for alt := 1; alt >= 0; alt-- {
			cols := map[uint64]bool{}
			st := func(fg, bg tcell.Color, attrs uint64) string {
				f := StyleF{Fg: uint64(fg), Bg: uint64(bg), Attrs: attrs}
				cols[f.Fg], cols[f.Bg] = true, true
				return f.String()
			}
			ops := []string{"ME 7", "PE", "FE", "T " + h.Hex([]byte("tcell demo")), fmt.Sprintf("K 3 %d", uint64(tcell.ColorRed)), "C 1 0",
				"S 0 0 65 - " + st(tcell.ColorMaroon, tcell.ColorNavy, 1), "S 1 0 66 - " + st(tcell.ColorWhite, tcell.ColorBlack, 4), "W", "Z", "R",
				"S 2 0 67 - " + st(tcell.ColorYellow, tcell.ColorGreen, 2|8), "S 0 1 68 - " + st(tcell.ColorRed, 0, 0), "W", "Q"}
			ops = append(ops, fitOps(name, cols)...)
			g.Emit("modes %s%s 0 %d 4 2 %s", name, drawVariantSuffix(), alt, strings.Join(ops, "; "))
		}
		if name == "xterm-256color" || name == "linux" || name == "vt100" {
			g.Emit("modes %s%s 0 1 4 2 ME 7; PE; W; Z; RF; R; W; Z; RF; Q", name, drawVariantSuffix())
			g.Emit("modes %s%s 0 1 4 2 FE; W; Z; RF; RF; R; W; Q", name, drawVariantSuffix())
		}
		// … and application calls that land while the Suspend / Fini is in progress
		g.Emit("modes %s%s 0 1 4 2 ME 7; PE; FE; W; ZN FD; R; W; ZN MD; R; FE; ME 3; W; ZN PD; R; W; QN FD", name, drawVariantSuffix())
	}
	n := g.N(2400, 45*1500)
	for i := 0; i < n; i++ {
		var name string
		switch {
		case g.Thorough():
			name = ents[i%len(ents)]
		case i%3 == 0:
			name = fixed[(i/3)%len(fixed)]
		default:
			name = rot[i%len(rot)]
		}
		if terminfo.VerifEntries()[name] == nil {
			name = "xterm-256color"
		}
		w, hh := r.Range(2, 6), r.Range(1, 3)
		alt := 1
		if r.Chance(35) {
			alt = 0
		}
		cols := map[uint64]bool{}
		style := func() StyleF {
			f := drawStyle(r)
			cols[f.Fg], cols[f.Bg], cols[f.UlColor] = true, true, true
			return f
		}
		var ops []string
		nops := r.Range(3, 30)
		finished := false
		for j := 0; j < nops; j++ {
			x, y := r.Range(-1, w), r.Range(-1, hh)
			switch k := r.Intn(100); {
			case k < 9:
				ops = append(ops, fmt.Sprintf("ME %d", h.Pick(r, []int{1, 2, 3, 4, 5, 6, 7, 7, 0})))
			case k < 13:
				ops = append(ops, "MD")
			case k < 19:
				ops = append(ops, "PE")
			case k < 22:
				ops = append(ops, "PD")
			case k < 28:
				ops = append(ops, "FE")
			case k < 31:
				ops = append(ops, "FD")
			case k < 37:
				ops = append(ops, "T "+h.Hex([]byte(h.Pick(r, modesTitles))))
			case k < 44:
				ops = append(ops, fmt.Sprintf("K %d %d", r.Intn(8), h.Pick(r, genColors)))
			case k < 51:
				ops = append(ops, fmt.Sprintf("C %d %d", x, y))
			case k < 59:
				ops = append(ops, fmt.Sprintf("S %d %d %d - %s", x, y, r.Range('!', '~'), style()))
			case k < 61:
				ops = append(ops, "Y "+style().String())
			case k < 72:
				ops = append(ops, "W")
			case k < 75:
				ops = append(ops, "N")
			case k < 84:
				if r.Chance(25) { // an application call lands while the Suspend is in progress
					ops = append(ops, "ZN "+innerCall(r))
				} else {
					ops = append(ops, "Z")
				}
			case k < 93:
				if !finished { // Resume after Fini is outside the property's histories (see lib/props/C04.py)
					if r.Chance(8) {
						ops = append(ops, "RF") // the tty refuses to start; usually retried
						if r.Chance(70) {
							ops = append(ops, "R")
						}
					} else {
						ops = append(ops, "R")
					}
				}
			case k < 94:
				if j > nops/2 {
					ops = append(ops, "Q")
					finished = true
				}
			case k < 97:
				ops = append(ops, "B")
			default:
				ops = append(ops, fmt.Sprintf("RQ %d %d", r.Range(2, 6), r.Range(1, 3)))
			}
		}
		last := h.Pick(r, []string{"Z", "Q", "Q"})
		if r.Chance(20) {
			last += "N " + innerCall(r)
		}
		ops = append(ops, last)
		if r.Chance(25) {
			ops = append(ops, h.Pick(r, []string{"Q", "Z", "ME 7", "W", "B", "PE"}), h.Pick(r, []string{"Q", "Z"}))
		}
		ops = append(ops, fitOps(name, cols)...)
		g.Emit("modes %s%s %d %d %d %d %s", name, drawVariantSuffix(), r.Intn(2), alt, w, hh, strings.Join(ops, "; "))
	}
}

func init() {
	h.Register(&h.Engine{Name: "modes",
		Rule: "histories (3-32 ops) of EnableMouse/DisableMouse/EnablePaste/DisablePaste/EnableFocus/DisableFocus/SetTitle/SetCursorStyle/ShowCursor/SetContent/SetStyle/Show/Sync/Beep/quiet resize interleaved with Suspend/Resume (also doubled, also Resume while running, calls while suspended) and Fini (also doubled, calls after Fini), ending in Suspend or Fini, on a real terminfo screen over a fake tty; ECMA-family entries (quick: 6 fixed + 6 rotating with the seed; thorough: all), TCELL_ALTSCREEN=disable in 35%, direct colour on/off; non-trivial = at least one mode enabled",
		Gen:  genModes, Exec: execModes})
}
