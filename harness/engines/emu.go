package engines

import (
	"fmt"
	"os"
	"reflect"
	"sort"
	"strings"
	"unicode/utf8"

	"github.com/gdamore/tcell/v2"
	"github.com/gdamore/tcell/v2/terminfo"
	_ "github.com/gdamore/tcell/v2/terminfo/base"
	_ "github.com/gdamore/tcell/v2/terminfo/extended"
	"verif/harness/h"
)

// Engine emu — self-test of the Lean ECMA-48 reference emulator (lean/Tcell/Spec/Ecma48.lean, driver engine
// lean/Driver/Emu.lean).  The emulator is the independent reference of C01/C13/C09/C04; there is no second emulator
// to compare it with, so this engine checks properties that need none, on byte streams made from the *real*
// capability strings of the terminal database expanded by the real TParm/TGoto/TColor/TPuts:
//
//   caps      every capability string the draw / engage / disengage paths can emit (database fields plus the strings
//             tscreen.go synthesises: tcell.VerifDerived), for every ECMA-48-family entry, expanded with sample
//             parameters, must be accepted with an empty `malformed` list, end in the ground state and leave the cursor
//             in range                                            (Derived: emucheck … ;; expect malformed=0 ground=1 inrange=1)
//   split     feed (a ++ b) = feed b ∘ feed a on random splits, also inside sequences and UTF-8 characters
//                                                                 (Derived: emusame <one W block> || <W a; A b; A c …>)
//   screen    the bytes the real tScreen writes to a fake Tty (Init, mouse/paste/focus/title, styled content with wide and
//             combining runes and the bottom-right cell, Show, edits, Show, Sync, Fini) for every ECMA entry: accepted without
//             complaint; after the last Show the plainly styled cells show what SetContent put there and the cursor is where
//             ShowCursor put it; after Fini the alternate screen, mouse, paste, focus and keypad modes are off again
//             (Derived: emucheck at both points; a smoke test of the emulator against real output, the properties
//             themselves are C01/C04/C09)
//   mix/bad   random mixes of expanded capabilities, printable payload (ASCII, wide, combining), C0, corruption and
//             resize ops; unexpanded capability strings (with %), truncated sequences and random bytes: the emulator
//             answers (never crashes) and the cursor stays in range  (Derived: emucheck … ;; expect inrange=1)
//
// line:  emu <w> <h> <utf8> <am> acs:<hex of acsc|-> <op>; …      ops W/A <hex> | X | R w h | F | C ff | C c1 | N <note>
//        (the syntax of lean/Driver/Emu.lean; `N kind:…` carries what Exec must derive)
// The implementation-side observation is always SKIP (nothing to compare line by line): the Lean side is judged through
// the Derived lines, which must all answer `ok`.

type emuCap struct {
	entry string
	name  string
	bytes string
}

func isEcma(ti *terminfo.Terminfo) bool { return strings.HasPrefix(ti.SetCursor, "\x1b[") }

func emuEntries() []*terminfo.Terminfo {
	seen := map[*terminfo.Terminfo]bool{}
	var out []*terminfo.Terminfo
	for _, ti := range terminfo.VerifEntries() {
		if !seen[ti] {
			seen[ti] = true
			out = append(out, ti)
		}
	}
	sort.Slice(out, func(i, j int) bool { return out[i].Name < out[j].Name })
	return out
}

// noPad returns a copy whose TPuts does not sleep on $<n> padding
func noPad(ti *terminfo.Terminfo) *terminfo.Terminfo {
	c := *ti
	c.PadChar = ""
	return &c
}

func tputs(ti *terminfo.Terminfo, s string) string {
	var sb strings.Builder
	noPad(ti).TPuts(&sb, s)
	return sb.String()
}

var emuNoParam = []string{"Bell", "Clear", "EnterCA", "ExitCA", "ShowCursor", "HideCursor", "AttrOff", "Underline", "Bold",
	"Blink", "Reverse", "Dim", "Italic", "EnterKeypad", "ExitKeypad", "ResetFgBg", "CursorBack1", "CursorUp1", "EnterAcs",
	"ExitAcs", "EnableAcs", "StrikeThrough", "EnablePaste", "DisablePaste", "InsertChar", "CursorDefault",
	"CursorBlinkingBlock", "CursorSteadyBlock", "CursorBlinkingUnderline", "CursorSteadyUnderline", "CursorBlinkingBar",
	"CursorSteadyBar", "CursorColorReset", "ExitUrl", "EnableFocusReporting", "DisableFocusReporting", "DisableAutoMargin",
	"EnableAutoMargin", "DoubleUnderline", "CurlyUnderline", "DottedUnderline", "DashedUnderline", "UnderlineColorReset"}

var emuDerivedNoParam = []string{"enablePaste", "disablePaste", "exitUrl", "enableFocus", "disableFocus", "doubleUnder",
	"curlyUnder", "dottedUnder", "dashedUnder", "underFg", "cursorFg", "saveTitle", "restoreTitle",
	"cursorStyleDefault", "cursorStyleBlinkingBlock", "cursorStyleSteadyBlock", "cursorStyleBlinkingUnderline",
	"cursorStyleSteadyUnderline", "cursorStyleBlinkingBar", "cursorStyleSteadyBar"}

var emuMouse = []string{"\x1b[?1000l\x1b[?1002l\x1b[?1003l\x1b[?1006l", "\x1b[?1000h", "\x1b[?1002h", "\x1b[?1003h", "\x1b[?1006h"}

func tiField(ti *terminfo.Terminfo, name string) string {
	f := reflect.ValueOf(ti).Elem().FieldByName(name)
	if !f.IsValid() || f.Kind() != reflect.String {
		return ""
	}
	return f.String()
}

// emuExpand: every capability of one entry expanded with the parameters chosen by pick (sample index → value)
func emuCaps(ti *terminfo.Terminfo, colors []int, rgbs [][3]int, gotos [][2]int, strs []string) []emuCap {
	var out []emuCap
	add := func(name, raw string) {
		if raw != "" {
			out = append(out, emuCap{ti.Name, name, tputs(ti, raw)})
		}
	}
	for _, n := range emuNoParam {
		add(n, tiField(ti, n))
	}
	d := tcell.VerifDerived(ti)
	for _, n := range emuDerivedNoParam {
		add("d."+n, d[n])
	}
	for i, m := range emuMouse {
		add(fmt.Sprintf("mouse%d", i), m)
	}
	for _, c := range colors {
		if c < ti.Colors {
			add(fmt.Sprintf("SetFg(%d)", c), ti.TParm(ti.SetFg, c))
			add(fmt.Sprintf("SetBg(%d)", c), ti.TParm(ti.SetBg, c))
			add(fmt.Sprintf("TColor(%d,-1)", c), ti.TColor(c, -1))
			for _, c2 := range colors {
				if c2 < ti.Colors {
					add(fmt.Sprintf("SetFgBg(%d,%d)", c, c2), ti.TParm(ti.SetFgBg, c, c2))
					add(fmt.Sprintf("TColor(%d,%d)", c, c2), ti.TColor(c, c2))
				}
			}
		}
		if d["underColor"] != "" && c < 256 {
			add(fmt.Sprintf("d.underColor(%d)", c), ti.TParm(d["underColor"], c))
		}
	}
	for _, c := range rgbs {
		add("SetFgRGB", ti.TParm(ti.SetFgRGB, c[0], c[1], c[2]))
		add("SetBgRGB", ti.TParm(ti.SetBgRGB, c[0], c[1], c[2]))
		add("SetFgBgRGB", ti.TParm(ti.SetFgBgRGB, c[0], c[1], c[2], c[2], c[1], c[0]))
		if d["underRGB"] != "" {
			add("d.underRGB", ti.TParm(d["underRGB"], c[0], c[1], c[2]))
		}
		if d["cursorRGB"] != "" {
			add("d.cursorRGB", ti.TParm(d["cursorRGB"], c[0], c[1], c[2]))
		}
	}
	for _, g := range gotos {
		add(fmt.Sprintf("TGoto(%d,%d)", g[0], g[1]), ti.TGoto(g[0], g[1]))
		if d["setWinSize"] != "" {
			add("d.setWinSize", ti.TParm(d["setWinSize"], g[0]+1, g[1]+1))
		}
	}
	for _, s := range strs {
		if d["enterUrl"] != "" {
			add("d.enterUrl", ti.TParm(d["enterUrl"], "http://example.com/"+s, s))
		}
		if d["setTitle"] != "" {
			add("d.setTitle", ti.TParm(d["setTitle"], s))
		}
		if d["setClipboard"] != "" {
			add("d.setClipboard", ti.TParm(d["setClipboard"], "aGVsbG8gd29ybGQ="))
		}
	}
	return out
}

func emuHead(ti *terminfo.Terminfo, w, hh int, utf bool, am bool) string {
	u, a := 0, 0
	if utf {
		u = 1
	}
	if am {
		a = 1
	}
	head := fmt.Sprintf("emu %d %d %d %d acs:%s", w, hh, u, a, h.Hex([]byte(ti.AltChars)))
	if strings.Contains(ti.Clear, "\x0c") {
		head += " C ff;"
	}
	return head
}

var emuRunes = []rune{'a', 'Z', ' ', '~', '0', 'q', 'x', 'é', 'ß', '世', '界', 'ｱ', '😀', '́', '⃝', '─', '│', '​', '€'}

func emuPayload(r *h.Rand, utf bool, n int) string {
	var sb strings.Builder
	for i := 0; i < n; i++ {
		if utf {
			var b [4]byte
			k := utf8.EncodeRune(b[:], h.Pick(r, emuRunes))
			sb.Write(b[:k])
		} else {
			c := byte(r.Range(0x20, 0xff))
			if c == 0x7f {
				c = 'x'
			}
			sb.WriteByte(c)
		}
	}
	return sb.String()
}

// emuStream: a random well-formed stream for one entry
func emuStream(r *h.Rand, ti *terminfo.Terminfo, caps []emuCap, w, hh int, utf bool, n int) string {
	var sb strings.Builder
	for i := 0; i < n; i++ {
		switch k := r.Intn(10); {
		case k < 4:
			sb.WriteString(h.Pick(r, caps).bytes)
		case k < 6:
			sb.WriteString(ti.TGoto(r.Range(0, w), r.Range(0, hh)))
		case k < 9:
			sb.WriteString(emuPayload(r, utf, r.Range(1, 6)))
		default:
			sb.WriteString(h.Pick(r, []string{"\r", "\n", "\r\n", "\b", "\a", "\t"}))
		}
	}
	return sb.String()
}

// emuBad: a stream with malformed parts
func emuBad(r *h.Rand, ti *terminfo.Terminfo, caps []emuCap, utf bool, n int) string {
	raw := []string{ti.SetCursor, ti.SetFg, ti.SetBg, ti.SetFgBg, ti.SetFgRGB, ti.SetFgBgRGB, "\x1b[%i%p1%d;%p2%dH", "\x1b]8;%p2%s;%p1%s\x1b\\"}
	var sb strings.Builder
	for i := 0; i < n; i++ {
		switch r.Intn(8) {
		case 0:
			sb.WriteString(h.Pick(r, raw)) // unexpanded parameter string
		case 1:
			c := h.Pick(r, caps).bytes // truncated sequence
			if len(c) > 1 {
				c = c[:r.Range(1, len(c)-1)]
			}
			sb.WriteString(c)
		case 2:
			for j := r.Range(1, 5); j > 0; j-- { // random bytes
				sb.WriteByte(byte(r.Intn(256)))
			}
		case 3:
			sb.WriteString(h.Pick(r, []string{"\x1b[-1m", "\x1b[1;-5H", "\x1b[?m", "\x1b[1:2:3H", "\x1b[38;5m", "\x1b[38:2:1m", "\x1b]", "\x1b]2;t",
				"\x1bP", "\x1b_x\x1b\\", "\x1b[999999999999999999999999;1H", "\x1b[;;;;;;;;;m", "\x1b[4:9m", "\x1b[58:5m", "\x7f", "\x00", "\x0b", "\x0c",
				"\x1b\x1b", "\x1b(", "\x1b(Z", "\x1b#8", "\x1b[!p", "\x1b[>c", "\x1b[6n", "\xc2\x9b1m", "\xff\xfe", "\xe4\xb8", "\xf4\x90\x80\x80", "\xed\xa0\x80"}))
		case 4:
			sb.WriteString(h.Pick(r, caps).bytes)
		default:
			sb.WriteString(emuPayload(r, utf, r.Range(1, 4)))
		}
	}
	return sb.String()
}

func emuSize(r *h.Rand) (int, int) {
	switch r.Intn(6) {
	case 0:
		return 1, 1
	case 1:
		return r.Range(1, 3), r.Range(1, 2)
	case 2:
		return 80, 24
	default:
		return r.Range(2, 12), r.Range(1, 6)
	}
}

func genEmu(g *h.Gen) {
	r := g.R
	var ecma []*terminfo.Terminfo
	for _, ti := range emuEntries() {
		if isEcma(ti) {
			ecma = append(ecma, ti)
		}
	}
	colors := []int{0, 1, 7, 8, 15, 16, 87, 255}
	rgbs := [][3]int{{0, 0, 0}, {255, 255, 255}, {1, 2, 30}}
	gotos := [][2]int{{0, 0}, {3, 1}, {79, 23}, {0, 250}, {300, 0}}
	strs := []string{"", "id1", "hello world", "héllo 世界", "a;b=c"}
	allCaps := map[string][]emuCap{}
	// 1. every capability of every ECMA entry, one case each (deduplicated per entry by bytes)
	for _, ti := range ecma {
		caps := emuCaps(ti, colors, rgbs, gotos, strs)
		allCaps[ti.Name] = caps
		seen := map[string]bool{}
		for _, c := range caps {
			if seen[c.bytes] {
				continue
			}
			seen[c.bytes] = true
			g.Emit("%s N caps:%s:%s; W %s; F", emuHead(ti, 10, 4, true, ti.AutoMargin), ti.Name, strings.ReplaceAll(c.name, " ", ""), h.Hex([]byte(c.bytes)))
		}
		// and all of them in one stream, in a random order, with text in between (still no complaint allowed)
		var sb strings.Builder
		for _, i := range permEmu(r, len(caps)) {
			sb.WriteString(caps[i].bytes)
			if r.Chance(30) {
				sb.WriteString(emuPayload(r, true, 2))
			}
		}
		g.Emit("%s N caps:%s:all; W %s; F", emuHead(ti, 10, 4, true, ti.AutoMargin), ti.Name, h.Hex([]byte(sb.String())))
	}
	// 1b. the real screen over a fake Tty, every ECMA entry
	os.Setenv("LC_ALL", "en_US.UTF-8")
	os.Unsetenv("TCELL_ALTSCREEN")
	for _, ti := range ecma {
		w, hh := 14, 4
		if ops, expect, ok := emuScreen(r, ti, w, hh); ok {
			g.Emit("%s N screen:%s:%s; %s", emuHead(ti, w, hh, true, ti.AutoMargin), ti.Name, strings.ReplaceAll(expect, " ", "^"), strings.Join(ops, "; "))
		}
	}
	// 2. compositionality on random splits
	for i := 0; i < g.N(400, 6000); i++ {
		ti := h.Pick(r, ecma)
		w, hh := emuSize(r)
		utf := r.Chance(80)
		var s string
		if r.Chance(70) {
			s = emuStream(r, ti, allCaps[ti.Name], w, hh, utf, r.Range(2, 25))
		} else {
			s = emuBad(r, ti, allCaps[ti.Name], utf, r.Range(2, 15))
		}
		if len(s) < 2 {
			continue
		}
		var cuts []string
		last := 0
		for k := r.Range(1, 4); k > 0 && last < len(s)-1; k-- {
			last = r.Range(last+1, len(s)-1)
			cuts = append(cuts, fmt.Sprint(last))
		}
		g.Emit("%s N split:%s; W %s", emuHead(ti, w, hh, utf, r.Chance(70)), strings.Join(cuts, ","), h.Hex([]byte(s)))
	}
	// 3. histories: write blocks, corruption, resize; malformed streams
	for i := 0; i < g.N(600, 8000); i++ {
		ti := h.Pick(r, ecma)
		w, hh := emuSize(r)
		utf := r.Chance(80)
		bad := r.Chance(40)
		kind := "mix"
		if bad {
			kind = "bad"
		}
		var ops []string
		ops = append(ops, "N "+kind+":"+ti.Name)
		if r.Chance(10) {
			ops = append(ops, "C c1")
		}
		for k := r.Range(1, 6); k > 0; k-- {
			switch x := r.Intn(12); {
			case x == 0:
				ops = append(ops, "X")
			case x == 1:
				w, hh = emuSize(r)
				ops = append(ops, fmt.Sprintf("R %d %d", w, hh))
			case bad && x < 8:
				ops = append(ops, "W "+h.Hex([]byte(emuBad(r, ti, allCaps[ti.Name], utf, r.Range(1, 12)))))
			default:
				ops = append(ops, "W "+h.Hex([]byte(emuStream(r, ti, allCaps[ti.Name], w, hh, utf, r.Range(1, 20)))))
			}
		}
		if r.Chance(30) {
			ops = append(ops, "F")
		}
		g.Emit("%s %s", emuHead(ti, w, hh, utf, r.Chance(70)), strings.Join(ops, "; "))
	}
}

// emuScreen drives the real terminfo screen over a fake Tty and returns the op list (one W per Tty.Write, `N fin`
// before the bytes of Fini) and the expectation tokens for the state after the last Show.
func emuScreen(r *h.Rand, ti *terminfo.Terminfo, w, hh int) (ops []string, expect string, ok bool) {
	tty := NewFakeTty(w, hh)
	s, err := tcell.NewTerminfoScreenFromTtyTerminfo(tty, noPad(ti))
	if err != nil || s.Init() != nil {
		return nil, "", false
	}
	flush := func() {
		for _, b := range tty.TakeWrites() {
			if len(b) > 0 {
				ops = append(ops, "W "+h.Hex(b))
			}
		}
	}
	s.EnableMouse()
	s.EnablePaste()
	s.EnableFocus()
	s.SetTitle("t€st")
	plain := map[[2]int]string{}
	put := func(x, y int, main rune, comb []rune, st tcell.Style, want string) {
		s.SetContent(x, y, main, comb, st)
		delete(plain, [2]int{x, y})
		delete(plain, [2]int{x + 1, y})
		if want != "" && x < w && y < hh {
			plain[[2]int{x, y}] = want
		}
	}
	def := tcell.StyleDefault
	for i, c := range "Hi!" {
		put(1+i, 0, c, nil, def, fmt.Sprintf("%d/d,d,-,0,d,-/-", c))
	}
	if w >= 12 {
		put(5, 0, '世', nil, def, "19990/d,d,-,0,d,-/-")
		plain[[2]int{6, 0}] = "-/?/c"
		put(8, 0, 'e', []rune{0x301}, def, "101,769/d,d,-,0,d,-/-")
	}
	styles := []tcell.Style{
		def.Foreground(tcell.PaletteColor(r.Intn(256))).Background(tcell.PaletteColor(r.Intn(16))),
		def.Foreground(tcell.NewRGBColor(10, 200, 30)).Bold(true).Italic(true),
		def.Background(tcell.NewRGBColor(1, 2, 3)).Reverse(true).Dim(true).Blink(true).StrikeThrough(true),
		def.Underline(true), def.Underline(tcell.UnderlineStyleCurly, tcell.PaletteColor(r.Intn(256))),
		def.Underline(tcell.UnderlineStyleDouble, tcell.NewRGBColor(9, 8, 7)), def.Url("http://example.com/x").UrlId("u1"),
	}
	for i := 0; i < 12; i++ {
		x, y := r.Intn(w), 1+r.Intn(hh-1)
		put(x, y, rune('a'+r.Intn(26)), nil, h.Pick(r, styles), "")
	}
	put(w-1, hh-1, 'Z', nil, def, "90/d,d,-,0,d,-/-") // bottom-right cell
	s.ShowCursor(2, 1)
	s.Show()
	flush()
	put(2, 0, 'o', nil, def, "111/d,d,-,0,d,-/-")
	put(0, hh-1, '世', nil, h.Pick(r, styles), "")
	s.Show()
	flush()
	s.Sync()
	flush()
	var cells []string
	for y := 0; y < hh; y++ {
		for x := 0; x < w; x++ {
			if c, found := plain[[2]int{x, y}]; found {
				cells = append(cells, c)
			} else {
				cells = append(cells, "?")
			}
		}
	}
	d := tcell.VerifDerived(ti)
	b01 := func(b bool) string {
		if b {
			return "1"
		}
		return "0"
	}
	expect = "malformed=0 ground=1 inrange=1 cursor=2,1 mode.alt=" + b01(ti.EnterCA != "") + " mode.m0=" + b01(ti.Mouse != "") +
		" mode.m6=" + b01(ti.Mouse != "") + " mode.bp=" + b01(d["enablePaste"] != "") + " mode.fo=" + b01(d["enableFocus"] != "") +
		" cells=" + strings.Join(cells, " ")
	ops = append(ops, "N fin")
	s.Fini()
	flush()
	return ops, expect, true
}

func permEmu(r *h.Rand, n int) []int {
	p := make([]int, n)
	for i := range p {
		p[i] = i
	}
	for i := n - 1; i > 0; i-- {
		j := r.Intn(i + 1)
		p[i], p[j] = p[j], p[i]
	}
	return p
}

func execEmu(line string) h.Result {
	payload := strings.TrimPrefix(line, "emu ")
	res := h.Result{Obs: "SKIP", Nontrivial: true}
	kind, arg := "plain", ""
	for _, op := range h.SplitTrim(payload, ";") {
		// the first op still carries the head: look at the last fields
		if i := strings.Index(op, "N "); i >= 0 && (i == 0 || op[i-1] == ' ') {
			note := strings.TrimSpace(op[i+2:])
			if j := strings.Index(note, ":"); j >= 0 {
				kind, arg = note[:j], note[j+1:]
			}
		}
	}
	res.Tags = append(res.Tags, "kind:"+kind)
	expect := "inrange=1"
	switch kind {
	case "caps":
		expect = "malformed=0 ground=1 inrange=1"
		if j := strings.Index(arg, ":"); j >= 0 {
			res.Tags = append(res.Tags, "entry:"+arg[:j])
		}
	case "screen":
		j := strings.Index(arg, ":")
		if j < 0 {
			break
		}
		res.Tags = append(res.Tags, "entry:"+arg[:j])
		fin := strings.Index(payload, "; N fin")
		if fin >= 0 {
			res.Derived = append(res.Derived, "emucheck "+payload[:fin]+" ;; expect "+strings.ReplaceAll(arg[j+1:], "^", " "))
		}
		am := "0"
		if f := strings.Fields(payload); len(f) > 3 {
			am = f[3]
		}
		expect = "malformed=0 ground=1 inrange=1 mode.alt=0 mode.cv=1 mode.kp=0 mode.m0=0 mode.m2=0 mode.m3=0 mode.m6=0 mode.bp=0 mode.fo=0 mode.am=" + am
	case "mix":
		// a well-formed stream in a UTF-8 locale must not raise a complaint either
		if f := strings.Fields(payload); len(f) > 2 && f[2] == "1" {
			expect = "malformed=0 inrange=1"
		}
	case "split":
		// rebuild the payload with the single W block cut at the given offsets
		i := strings.LastIndex(payload, "W ")
		if i >= 0 {
			bs := h.Unhex(strings.TrimSpace(payload[i+2:]))
			var parts []string
			last := 0
			for _, c := range h.IntList(arg) {
				if c > last && c < len(bs) {
					parts = append(parts, h.Hex(bs[last:c]))
					last = c
				}
			}
			parts = append(parts, h.Hex(bs[last:]))
			split := payload[:i] + "W " + strings.Join(parts, "; A ")
			res.Derived = append(res.Derived, "emusame "+payload+" || "+split)
			res.Tags = append(res.Tags, fmt.Sprintf("pieces:%d", len(parts)))
		}
	}
	res.Derived = append(res.Derived, "emucheck "+payload+" ;; expect "+expect)
	return res
}

func init() {
	h.Register(&h.Engine{
		Name: "emu",
		Rule: "distinct (entry, capability, parameters) accepted silently; distinct streams / split points / op histories",
		Gen:  genEmu,
		Exec: execEmu,
	})
}
