package engines

import (
	"strings"

	gencoding "github.com/gdamore/encoding"
	xenc "golang.org/x/text/encoding"
	"golang.org/x/text/encoding/charmap"
	"golang.org/x/text/encoding/japanese"
	"golang.org/x/text/encoding/korean"
	"golang.org/x/text/encoding/simplifiedchinese"
	"golang.org/x/text/encoding/traditionalchinese"
)

// The harness's OWN table charset name → encoding (properties C11, C17, C18).
//
// The reference decoder / encoder of the oracles must not come from the code under test: tcell.GetEncoding(name) answers
// with whatever encoding/all.go registered under that name, so a name registered with the wrong code page (ISO8859-9 with
// the Latin-1 table, KOI8-U with the KOI8-R table) would be judged against itself.  This table is written from the names
// themselves (IANA character-set registry / the POSIX locale codeset spellings, as implemented by golang.org/x/text and
// github.com/gdamore/encoding): ISO8859-n / ISO-8859-n / 8859-n = ISO/IEC 8859 part n, KOI8-R = RFC 1489, KOI8-U = RFC 2319,
// EUC-JP / EUCJP, Shift_JIS / SJIS, EUC-KR / EUCKR, GBK, GB18030, Big5, US-ASCII / ASCII / ISO646 / 646 (the 1991 IRV),
// UTF-8 / UTF8.  It lists every name and alias encoding/all.go and encoding.go register except the escape-driven 7-bit
// coders the properties exclude (ISO2022JP / ISO-2022-JP / 2022-JP, and the HZ coder registered as GB2312).
// Lookup is case-insensitive like tcell.GetEncoding.
//
// Part 1 and part 9 of ISO 8859 and US-ASCII use gdamore/encoding's charmaps (the repertoire is the standard's; their
// encoders answer a rune outside it with the substitute byte 0x1A and no error, which the draw path and the oracles treat
// like an encoder error), UTF-8 gdamore/encoding's validating pass-through; every other part x/text's.

type refCharset struct {
	canon string // the spelling the cluster lists use for the charset (one per code page)
	enc   xenc.Encoding
	multi bool
}

var refCharsets = map[string]refCharset{}

// refCharsetNames: every name of the table in a fixed order, canonical names first
var refCharsetNames []string

// refAliases: the names that are not the canonical spelling of their code page
var refAliases []string

func refAdd(enc xenc.Encoding, multi bool, canon string, aliases ...string) {
	for i, n := range append([]string{canon}, aliases...) {
		refCharsets[strings.ToLower(n)] = refCharset{canon, enc, multi}
		refCharsetNames = append(refCharsetNames, n)
		if i > 0 {
			refAliases = append(refAliases, n)
		}
	}
}

func init() {
	part := func(n string, enc xenc.Encoding, alias bool) {
		if alias {
			refAdd(enc, false, "ISO8859-"+n, "8859-"+n, "ISO-8859-"+n)
		} else {
			refAdd(enc, false, "ISO8859-"+n)
		}
	}
	part("1", gencoding.ISO8859_1, true)
	part("2", charmap.ISO8859_2, true)
	part("3", charmap.ISO8859_3, true)
	part("4", charmap.ISO8859_4, true)
	part("5", charmap.ISO8859_5, true)
	part("6", charmap.ISO8859_6, true)
	part("7", charmap.ISO8859_7, true)
	part("8", charmap.ISO8859_8, true)
	part("9", gencoding.ISO8859_9, true)
	part("10", charmap.ISO8859_10, false) // all.go registers no alias for part 10
	part("13", charmap.ISO8859_13, true)
	part("14", charmap.ISO8859_14, true)
	part("15", charmap.ISO8859_15, true)
	part("16", charmap.ISO8859_16, true)
	refAdd(charmap.KOI8R, false, "KOI8-R")
	refAdd(charmap.KOI8U, false, "KOI8-U")
	refAdd(japanese.EUCJP, true, "EUC-JP", "EUCJP")
	refAdd(japanese.ShiftJIS, true, "SHIFT_JIS", "SJIS")
	refAdd(korean.EUCKR, true, "EUC-KR", "EUCKR")
	refAdd(simplifiedchinese.GBK, true, "GBK")
	refAdd(simplifiedchinese.GB18030, true, "GB18030")
	refAdd(traditionalchinese.Big5, true, "Big5")
	refAdd(gencoding.ASCII, false, "US-ASCII", "ASCII", "ISO646", "646")
	refAdd(gencoding.UTF8, false, "UTF-8", "UTF8")
}

// refEncoding: the encoding the NAME denotes (nil for a name the table does not have)
func refEncoding(name string) xenc.Encoding {
	if c, ok := refCharsets[strings.ToLower(name)]; ok {
		return c.enc
	}
	return nil
}

// refCanon: the canonical spelling of the code page the name denotes ("" for an unknown name)
func refCanon(name string) string { return refCharsets[strings.ToLower(name)].canon }

func refIsUTF8(name string) bool  { return refCanon(name) == "UTF-8" }
func refIsASCII(name string) bool { return refCanon(name) == "US-ASCII" }
func refIsMulti(name string) bool { return refCharsets[strings.ToLower(name)].multi }

// refAliasesOf: the alias spellings whose canonical name is in the list
func refAliasesOf(canon []string) []string {
	var out []string
	for _, a := range refAliases {
		for _, c := range canon {
			if refCanon(a) == c {
				out = append(out, a)
			}
		}
	}
	return out
}

// refSingleRepertoire: every rune ≥ U+00A0 that some single-byte charset of the table has (sorted): the runes in which two
// single-byte code pages can differ at all.
var refSingleRep []int

func refSingleRepertoire() []int {
	if refSingleRep != nil {
		return refSingleRep
	}
	seen := map[rune]bool{}
	for _, n := range refCharsetNames {
		c := refCharsets[strings.ToLower(n)]
		if c.multi || c.canon == "UTF-8" || c.canon != n {
			continue
		}
		d := c.enc.NewDecoder()
		for b := 0x80; b < 0x100; b++ {
			out, err := d.Bytes([]byte{byte(b)})
			if err != nil {
				continue
			}
			if rs := []rune(string(out)); len(rs) == 1 && rs[0] >= 0xA0 && rs[0] != 0xFFFD {
				seen[rs[0]] = true
			}
		}
	}
	for r := range seen {
		refSingleRep = append(refSingleRep, int(r))
	}
	sortInts(refSingleRep)
	return refSingleRep
}

// refRepertoire: the runes ≥ U+00A0 of one single-byte charset of the table (sorted by byte)
func refRepertoire(name string) []int {
	enc := refEncoding(name)
	if enc == nil || refIsMulti(name) {
		return nil
	}
	var out []int
	d := enc.NewDecoder()
	for b := 0x80; b < 0x100; b++ {
		o, err := d.Bytes([]byte{byte(b)})
		if err != nil {
			continue
		}
		if rs := []rune(string(o)); len(rs) == 1 && rs[0] >= 0xA0 && rs[0] != 0xFFFD {
			out = append(out, int(rs[0]))
		}
	}
	return out
}

func sortInts(l []int) {
	for i := 1; i < len(l); i++ {
		for j := i; j > 0 && l[j] < l[j-1]; j-- {
			l[j], l[j-1] = l[j-1], l[j]
		}
	}
}
