package engines

// Engine "race" (property C10): validates the extracted lockset model against the Go race detector, in both
// directions, and is the oracle of the property on the real code.
//
// One case = one subprocess of harness/race (built with -race): two Screen methods A and B hammered from two
// goroutines on one live screen, with the library's own goroutines fed by an injector and a poller.
//
//	race confirm <impl> A B cs=… ms=… seed=…   a pair the facts predict to race (chosen from gen/lockfacts.txt):
//	     observation `expect <flagged entry points among A,B that the detector reproduced>`; the Lean driver prints
//	     the flagged entry points of `Tcell.Gen.LockFacts.flagged` — a difference means the extraction flags
//	     something the detector cannot reproduce (a false alarm of the machinery) and breaks the correspondence.
//	race pair    <impl> A B …                    sampled (quick) / all (thorough) pairs; observation SKIP.
//	race life    tscreen A B …                   the lifecycle pairs (Suspend/Resume/Fini/Init against each other), always
//	     generated whatever the facts say, with input and resize traffic; observation SKIP (oracle only).
//	race pair    tscreen SetClipboard {Show,Sync,SetTitle,SetSize,GetClipboard}   always generated: the shared description's
//	     evaluator (ti.eval) under a payload-carrying expansion against every other kind of expansion.
//	race block   tscreen Sync B …               tokenizer check: every Write seen while Sync and B run concurrently is
//	     the Sync block or one of B's own blocks (class show-block-interleaved).
//
// Findings (all kinds of lines): every data-race report is canonicalised to (entry point, source line) per side and
// mapped through the facts to a field; if an involved entry point is flagged on that field the class is
// race-<entry> (race-sim-<entry>, race-disengage-tail); a report the facts do not predict is race-unpredicted.
// A runtime fault of the subprocess (concurrent map access, panic) is attributed the same way (fault-… otherwise).
// Watchdog (pair/confirm/life lines): a method call that has not returned 4 s after the run was stopped is class
// lifecycle-deadlock — unless the facts flag `wg.state` (wg.Add not excluded from wg.Wait: the Wait of a Suspend then
// also waits for loops a concurrent Resume started, which nobody stops), in which case it is the known
// race-loops-overlap.
//
// The facts carry the SET of mutexes held at each access (`locks=` of gen/lockfacts.txt); two accesses can only race
// if their sets are disjoint, which is what the choice of confirmation partners uses.

import (
	"bufio"
	"bytes"
	"context"
	"crypto/sha1"
	"encoding/json"
	"fmt"
	"os"
	"os/exec"
	"path/filepath"
	"regexp"
	"runtime"
	"sort"
	"strconv"
	"strings"
	"sync"
	"time"

	"verif/harness/h"
)

type rcFact struct {
	impl, entry, field string
	wr, held, conc     bool
	noloops            bool
	lines              map[int]bool
	locks              map[string]bool // names of the mutexes held (of the fact's own implementation)
}

func rcDisjoint(a, b map[string]bool) bool {
	for k := range a {
		if b[k] {
			return false
		}
	}
	return true
}

type rcFacts struct {
	entries  map[string][]string        // impl -> entry names (api kind only, in order)
	kind     map[string]string          // impl/entry -> kind
	facts    map[string][]rcFact        // impl/entry -> facts
	flagged  map[string]map[string]bool // impl/entry -> field -> true
	flagNL   map[string]bool            // impl/entry -> all flagged facts are after wg.Wait
	flagWr   map[string]map[string]bool // impl/entry -> field -> a flagged write exists
	flagFx   map[string][]rcFact        // impl/entry -> the flagged facts (field, wr, locks)
	mutexes  map[string][]string        // impl -> mutex names
	warnings []string
	err      error
}

var rcOnce sync.Once
var rcF *rcFacts

func rcLoad() *rcFacts {
	rcOnce.Do(func() {
		f := &rcFacts{entries: map[string][]string{}, kind: map[string]string{}, facts: map[string][]rcFact{}, flagged: map[string]map[string]bool{}, flagNL: map[string]bool{}, flagWr: map[string]map[string]bool{}, flagFx: map[string][]rcFact{}, mutexes: map[string][]string{}}
		rcF = f
		gen := os.Getenv("VERIF_GEN")
		if gen == "" {
			gen = "gen"
		}
		fh, err := os.Open(filepath.Join(gen, "lockfacts.txt"))
		if err != nil {
			f.err = err
			return
		}
		defer fh.Close()
		sc := bufio.NewScanner(fh)
		sc.Buffer(make([]byte, 1<<20), 1<<24)
		for sc.Scan() {
			t := strings.Fields(sc.Text())
			if len(t) == 0 {
				continue
			}
			switch t[0] {
			case "entry":
				f.kind[t[1]+"/"+t[2]] = t[3]
				if t[3] == "api" {
					f.entries[t[1]] = append(f.entries[t[1]], t[2])
				}
			case "fact":
				x := rcFact{impl: t[1], entry: t[2], field: t[3], wr: t[4] == "wr", held: t[5] == "locked", conc: t[6] == "conc", lines: map[int]bool{}, locks: map[string]bool{}}
				for _, u := range t[7:] {
					if strings.HasPrefix(u, "locks=") && u != "locks=-" {
						for _, l := range strings.Split(u[6:], ",") {
							x.locks[l] = true
						}
					}
					if strings.HasPrefix(u, "lines=") {
						for _, l := range strings.Split(u[6:], ",") {
							n, _ := strconv.Atoi(l)
							x.lines[n] = true
						}
					}
					if u == "noloops" {
						x.noloops = true
					}
				}
				k := t[1] + "/" + t[2]
				f.facts[k] = append(f.facts[k], x)
			case "flagged":
				k := t[1] + "/" + t[2]
				if f.flagged[k] == nil {
					f.flagged[k] = map[string]bool{}
					f.flagWr[k] = map[string]bool{}
					f.flagNL[k] = true
				}
				f.flagged[k][t[3]] = true
				if t[4] == "wr" {
					f.flagWr[k][t[3]] = true
				}
				if t[len(t)-1] != "noloops" {
					f.flagNL[k] = false
				}
				fx := rcFact{impl: t[1], entry: t[2], field: t[3], wr: t[4] == "wr", locks: map[string]bool{}}
				for _, u := range t[5:] {
					if strings.HasPrefix(u, "locks=") && u != "locks=-" {
						for _, l := range strings.Split(u[6:], ",") {
							fx.locks[l] = true
						}
					}
				}
				f.flagFx[k] = append(f.flagFx[k], fx)
			case "mutex":
				f.mutexes[t[2]] = append(f.mutexes[t[2]], t[3])
			case "warning":
				f.warnings = append(f.warnings, strings.Join(t[1:], " "))
			}
		}
	})
	return rcF
}

// ---- building / locating the race binary -------------------------------------------------------------------

var rcBinOnce sync.Once
var rcBin string
var rcBinErr string

func rcBinary() (string, string) {
	rcBinOnce.Do(func() {
		root := os.Getenv("VERIF_ROOT")
		if root == "" {
			root, _ = os.Getwd()
		}
		repo := os.Getenv("VERIF_REPO")
		dir := filepath.Join(root, ".build", "race", fmt.Sprintf("%x", sha1.Sum([]byte(repo)))[:12])
		os.MkdirAll(dir, 0o755)
		// a binary of this process's own: always ask the go tool (its content-addressed build cache makes this a ~2 s no-op on
		// an unchanged tree and guarantees the binary is never stale with respect to any .go file of $VERIF_REPO); another check
		// of the same tree may be running its binary right now, so nothing shared is removed or replaced
		cleanStaleBins(dir, "racebin.")
		out := filepath.Join(dir, fmt.Sprintf("racebin.%d", os.Getpid()))
		cmd := exec.Command("go", "build", "-race", "-tags", "verif", "-o", out, "./race")
		cmd.Dir = filepath.Join(root, "harness")
		env := os.Environ()
		env = append(env, "GOFLAGS=-mod=mod", "GOPROXY=off", "GOSUMDB=off", "GOTOOLCHAIN=local", "CGO_ENABLED=1")
		cmd.Env = env
		o, err := cmd.CombinedOutput()
		if err != nil {
			rcBinErr = "building harness/race with -race failed: " + err.Error() + "\n" + string(o)
			return
		}
		rcBin = out
	})
	return rcBin, rcBinErr
}

// ---- generation ---------------------------------------------------------------------------------------------

var rcSkipOps = map[string]bool{"Init": true}
var rcPartnerPref = []string{"SetContent", "Fill", "RegisterRuneFallback", "UnregisterRuneFallback", "SetTitle", "SetClipboard", "EnableMouse", "EnablePaste", "Sync", "Show", "Suspend", "Resume"}

// rcCanRace: entry point p has a concurrent-phase access of field fld that conflicts with the flagged fact x (one of the
// two writes) and shares no mutex with it — the only accesses x can race with
func rcCanRace(f *rcFacts, impl, p string, x rcFact) bool {
	for _, pf := range f.facts[impl+"/"+p] {
		if pf.conc && pf.field == x.field && (pf.wr || x.wr) && rcDisjoint(pf.locks, x.locks) {
			return true
		}
	}
	return false
}

func rcGroup(field string) string {
	switch {
	case field == "fallback":
		return "ISO8859-1"
	case field == "encoder.state" || field == "decoder.state":
		return "ISO-2022-JP"
	}
	return "UTF-8"
}

// rcConfirmPairs: for every flagged entry point and charset group, the partner most likely to reproduce it
func rcConfirmPairs(f *rcFacts) [][4]string { // impl, A, B, charset
	var out [][4]string
	var keys []string
	for k := range f.flagged {
		keys = append(keys, k)
	}
	sort.Strings(keys)
	for _, k := range keys {
		impl, e := k[:strings.Index(k, "/")], k[strings.Index(k, "/")+1:]
		if f.kind[k] != "api" {
			continue // an unguarded access in mainLoop/inputLoop: reproduced by any pair (traffic is always on)
		}
		groups := map[string][]string{}
		for fld := range f.flagged[k] {
			if e == "Fini" && fld == "wg.state" {
				// Fini runs once per process, and the detector instruments a WaitGroup only at the first Add from zero and the
				// first blocked Wait: one shot does not reproduce Add-vs-Wait reliably (measured 1 in 8).  The same source
				// lines are flagged for Suspend (disengage is inlined into both), which repeats and is demanded below; the
				// `life` lines still run Fini against Resume/Suspend and report whatever the detector sees.
				continue
			}
			g := rcGroup(fld)
			groups[g] = append(groups[g], fld)
		}
		var gs []string
		for g := range groups {
			gs = append(gs, g)
		}
		sort.Strings(gs)
		for _, g := range gs {
			inGroup := map[string]bool{}
			for _, fld := range groups[g] {
				inGroup[fld] = true
			}
			// two instances of the entry point itself race when one of its own accesses conflicts with the flagged one and
			// shares no mutex with it
			selfOK := false
			for _, x := range f.flagFx[k] {
				if inGroup[x.field] && rcCanRace(f, impl, e, x) {
					selfOK = true
				}
			}
			if selfOK && e != "Fini" {
				out = append(out, [4]string{impl, e, e, g})
				continue
			}
			// a partner with a conflicting concurrent-phase fact under a disjoint lock set
			cand := map[string]bool{}
			for _, p := range f.entries[impl] {
				if p == e || rcSkipOps[p] || p == "Fini" {
					continue
				}
				for _, x := range f.flagFx[k] {
					if inGroup[x.field] && rcCanRace(f, impl, p, x) {
						cand[p] = true
					}
				}
			}
			partner := ""
			for _, p := range rcPartnerPref {
				if cand[p] {
					partner = p
					break
				}
			}
			if partner == "" {
				var cs []string
				for p := range cand {
					cs = append(cs, p)
				}
				sort.Strings(cs)
				if len(cs) > 0 {
					partner = cs[0]
				}
			}
			if partner == "Resume" && e != "Suspend" && e != "Resume" {
				// a bare Resume on a running screen returns at once ("already engaged") and never reaches the accesses of engage
				// that made it a partner; the op `Suspend` of the race binary runs Suspend;Resume cycles and does
				partner = "Suspend"
			}
			if partner != "" {
				out = append(out, [4]string{impl, e, partner, g})
			}
		}
	}
	return out
}

var rcStash []string

func rcGen(g *h.Gen) {
	f := rcLoad()
	if f.err != nil {
		g.Emit("race confirm tscreen Beep Beep cs=UTF-8 ms=300 seed=1")
		return
	}
	ms := g.N(700, 1500)
	for _, p := range rcConfirmPairs(f) {
		g.Emit("race confirm %s %s %s cs=%s ms=%d seed=%d", p[0], p[1], p[2], p[3], ms, g.R.Intn(1<<30))
	}
	// the pairs the property's anchor talks about: each flagged terminfo entry point against a drawing partner
	for _, k := range h.SortedKeys(func() map[string]int {
		m := map[string]int{}
		for k := range f.flagged {
			m[k] = 1
		}
		return m
	}()) {
		if strings.HasPrefix(k, "tscreen/") && f.kind[k] == "api" {
			e := k[len("tscreen/"):]
			cs := "UTF-8"
			if e == "CanDisplay" {
				cs = "ISO8859-1"
			}
			g.Emit("race pair tscreen %s Show cs=%s ms=%d seed=%d", e, cs, ms, g.R.Intn(1<<30))
		}
	}
	// the evaluator of the shared terminal description (pseudo-field ti.eval of the facts: TParm / TGoto / TColor / TPuts on
	// t.ti), whatever the facts say: SetClipboard expands a parameterised string with a payload of its own; it runs
	// against every kind of method that expands parameterised strings — a redraw, a full repaint, a title, a window-size
	// request, the clipboard query — on the XTermLike entry the race binary obtains through LookupTerminfo.  A race inside
	// package terminfo is attributed through the tscreen.go call site of the evaluator (rcCanon / rcFieldsAt).
	for _, p := range []string{"Show", "Sync", "SetTitle", "SetSize", "GetClipboard"} {
		g.Emit("race pair tscreen SetClipboard %s cs=UTF-8 ms=%d seed=%d", p, ms, g.R.Intn(1<<30))
	}
	// a SECOND screen in the same process (op OtherScreen: its own goroutine draws runes that need the fallback table and asks
	// CanDisplay) against the calls of the first one that touch tables a screen is meant to own: nothing one screen does may
	// reach the other (package-level defaults shared instead of copied).  Non-UTF-8 charset: the fallback table is consulted.
	for _, p := range []string{"UnregisterRuneFallback", "RegisterRuneFallback", "SetStyle", "Fill"} {
		g.Emit("race pair tscreen %s OtherScreen cs=ISO8859-1 ms=%d seed=%d", p, ms, g.R.Intn(1<<30))
	}
	g.Emit("race pair sim UnregisterRuneFallback OtherScreen cs=ISO8859-1 ms=%d seed=%d", ms, g.R.Intn(1<<30))
	// the lifecycle pairs, whatever the facts say (a tree that serialises engage/disengage must be clean here and must
	// not deadlock; the pinned tree shows race-disengage-tail / race-loops-overlap): input and resize traffic is on
	life := [][2]string{{"Suspend", "Resume"}, {"Fini", "Resume"}, {"Suspend", "Suspend"}, {"Fini", "Suspend"}, {"Resume", "Resume"},
		{"InitFini", "InitFini"}, {"InitFini", "Suspend"}, {"Suspend", "Sync"}, {"Suspend", "SetContent"}, {"Fini", "Show"}}
	if g.Thorough() {
		life = append(life, [2]string{"Suspend", "PollEvent"}, [2]string{"Suspend", "SetSize"}, [2]string{"Suspend", "EnableMouse"},
			[2]string{"Fini", "PostEventWait"}, [2]string{"Fini", "Sync"}, [2]string{"InitFini", "Fini"}, [2]string{"Suspend", "ChannelEvents"})
	}
	lms := g.N(1200, 2500)
	for rep := 0; rep < g.N(1, 3); rep++ {
		for _, p := range life {
			g.Emit("race life tscreen %s %s cs=UTF-8 ms=%d seed=%d", p[0], p[1], lms, g.R.Intn(1<<30))
		}
	}
	// block check: unlocked tty writers and some locked controls
	blockOps := []string{}
	for _, e := range f.entries["tscreen"] {
		k := "tscreen/" + e
		if f.flagged[k]["tty.out"] && !f.flagNL[k] {
			blockOps = append(blockOps, e)
		}
	}
	blockOps = append(blockOps, "EnableMouse", "SetTitle", "EnablePaste")
	if g.Thorough() {
		blockOps = append(blockOps, "DisableMouse", "EnableFocus", "DisableFocus", "DisablePaste", "SetClipboard", "GetClipboard", "HasKey", "Colors", "PostEvent")
	}
	for _, e := range blockOps {
		g.Emit("race block tscreen Sync %s cs=UTF-8 ms=%d seed=%d", e, ms, g.R.Intn(1<<30))
	}
	// pairs: all (thorough) or a seeded sample (quick)
	css := []string{"UTF-8", "UTF-8", "ISO8859-1", "ISO-2022-JP"}
	for _, impl := range []string{"tscreen", "sim"} {
		var es []string
		for _, e := range f.entries[impl] {
			if !rcSkipOps[e] {
				es = append(es, e)
			}
		}
		if g.Thorough() {
			for i := 0; i < len(es); i++ {
				for j := i; j < len(es); j++ {
					g.Emit("race pair %s %s %s cs=%s ms=%d seed=%d", impl, es[i], es[j], css[g.R.Intn(len(css))], 600, g.R.Intn(1<<30))
				}
			}
		} else {
			n := 10
			if impl == "sim" {
				n = 6
			}
			for k := 0; k < n && len(es) > 0; k++ {
				g.Emit("race pair %s %s %s cs=%s ms=%d seed=%d", impl, es[g.R.Intn(len(es))], es[g.R.Intn(len(es))], css[g.R.Intn(len(css))], ms, g.R.Intn(1<<30))
			}
		}
	}
	rcStash = append([]string{}, g.Lines...)
}

// ---- execution ------------------------------------------------------------------------------------------------

type rcSide struct {
	entry string
	file  string
	line  int
	fn    string
}

type rcOut struct {
	res h.Result
}

var rcPool struct {
	once sync.Once
	mu   sync.Mutex
	done map[string]chan h.Result
}

func rcExec(line string) h.Result {
	// first call: run everything that was generated through a worker pool; Exec then only collects
	rcPool.once.Do(func() {
		rcPool.done = map[string]chan h.Result{}
		if len(rcStash) == 0 {
			return
		}
		if _, e := rcBinary(); e != "" {
			return
		}
		jobs := make(chan string, len(rcStash))
		for _, l := range rcStash {
			if _, dup := rcPool.done[l]; dup {
				continue
			}
			rcPool.done[l] = make(chan h.Result, 1)
			jobs <- l
		}
		close(jobs)
		nw := runtime.NumCPU() / 2
		if nw < 1 {
			nw = 1
		}
		if nw > 8 {
			nw = 8
		}
		for w := 0; w < nw; w++ {
			go func() {
				for l := range jobs {
					rcPool.done[l] <- rcRun(l)
				}
			}()
		}
	})
	if ch, ok := rcPool.done[line]; ok {
		r := <-ch
		ch <- r // a duplicated line collects the same result
		return r
	}
	return rcRun(line)
}

var rcFrameRe = regexp.MustCompile(`^\s+(\S+)\(\)$`)
var rcLocRe = regexp.MustCompile(`^\s+(\S+):(\d+)( \+0x[0-9a-f]+)?$`)

// rcParse splits a GORACE log into reports, each a pair of access stacks (frames innermost first)
func rcParse(log string) [][2][]rcSide {
	var reports [][2][]rcSide
	for _, blk := range strings.Split(log, "WARNING: DATA RACE")[1:] {
		var stacks [][]rcSide
		var cur []rcSide
		inAccess := false
		lines := strings.Split(blk, "\n")
		for i := 0; i < len(lines); i++ {
			l := lines[i]
			t := strings.TrimSpace(l)
			if strings.HasPrefix(t, "Read at") || strings.HasPrefix(t, "Write at") || strings.HasPrefix(t, "Previous ") ||
				strings.HasPrefix(t, "Atomic ") {
				if inAccess {
					stacks = append(stacks, cur)
				}
				cur, inAccess = nil, true
				continue
			}
			if strings.HasPrefix(t, "Goroutine ") || strings.HasPrefix(t, "====") {
				if inAccess {
					stacks = append(stacks, cur)
				}
				inAccess = false
				if strings.HasPrefix(t, "====") {
					break
				}
				continue
			}
			if !inAccess {
				continue
			}
			if m := rcFrameRe.FindStringSubmatch(l); m != nil && i+1 < len(lines) {
				s := rcSide{fn: m[1]}
				if m2 := rcLocRe.FindStringSubmatch(lines[i+1]); m2 != nil {
					s.file = m2[1]
					s.line, _ = strconv.Atoi(m2[2])
					i++
				}
				cur = append(cur, s)
			}
		}
		if len(stacks) >= 2 {
			reports = append(reports, [2][]rcSide{stacks[0], stacks[1]})
		}
	}
	return reports
}

var rcFaultLocRe = regexp.MustCompile(`/(tscreen|screen|simulation)\.go:(\d+)`)

// the Screen entry points behind the composite ops of the race binary
var rcOpEntries = map[string][]string{"InitFini": {"Fini", "Suspend", "Resume", "Init"}, "Suspend": {"Suspend", "Resume"}}

var rcMethRe = regexp.MustCompile(`tcell/v2\.\(\*(tScreen|baseScreen|simscreen)\)\.([A-Za-z]+)(\.func\d+)?`)

// rcCanon: the entry point (outermost frame in package tcell that is a method of the screen types) and the site
// (innermost frame in tscreen.go / screen.go / simulation.go)
func rcCanon(st []rcSide) (entry string, site rcSide) {
	for _, s := range st { // innermost first
		b := filepath.Base(s.file)
		if (b == "tscreen.go" || b == "screen.go" || b == "simulation.go") && strings.Contains(s.fn, "tcell/v2.") {
			if site.fn == "" {
				site = s
			}
		}
		if strings.Contains(s.fn, ".gowrap") {
			continue // the wrapper of `go t.mainLoop(stopQ)` inside engage is not an entry point
		}
		if m := rcMethRe.FindStringSubmatch(s.fn); m != nil {
			entry = m[2]
			if m[3] != "" && m[2] == "engage" {
				entry = "resizeCb"
			}
		}
	}
	return
}

func rcClassName(f *rcFacts, impl, e string) string {
	if impl == "sim" {
		return "race-sim-" + e
	}
	if f.flagNL[impl+"/"+e] && (e == "Suspend" || e == "Fini") {
		return "race-disengage-tail"
	}
	return "race-" + e
}

func rcFieldsAt(f *rcFacts, impl, e string, line int) map[string][2]bool { // field -> (read seen, write seen)
	out := map[string][2]bool{}
	for _, x := range f.facts[impl+"/"+e] {
		if !x.conc {
			continue
		}
		hit := x.lines[line] || x.lines[line-1] || x.lines[line+1]
		if hit {
			v := out[x.field]
			if x.wr {
				v[1] = true
			} else {
				v[0] = true
			}
			out[x.field] = v
		}
	}
	return out
}

// rcRun: a `confirm` line whose flagged entry points were not all reproduced is given two more runs with other seeds
// (schedules are sampled; the findings of all attempts are kept)
func rcRun(line string) h.Result {
	res := rcRunOnce(line, 0)
	if !strings.Contains(line, " confirm ") || !strings.HasPrefix(res.Obs, "expect") {
		return res
	}
	want := func(r h.Result) int { // number of flagged entry points among A, B still missing
		f := rcLoad()
		t := strings.Fields(line)
		if len(t) < 5 {
			return 0
		}
		miss := 0
		seen := map[string]bool{}
		for _, e := range []string{t[3], t[4]} {
			if seen[e] {
				continue
			}
			seen[e] = true
			if len(f.flagged[t[2]+"/"+e]) > 0 && !strings.Contains(","+strings.TrimPrefix(r.Obs, "expect ")+",", ","+e+",") {
				miss++
			}
		}
		return miss
	}
	for attempt := 1; attempt <= 2 && want(res) > 0; attempt++ {
		r2 := rcRunOnce(line, attempt)
		if !strings.HasPrefix(r2.Obs, "expect") {
			break
		}
		// union of the reproduced entry points (in A, B order) and of the findings (one per class)
		t := strings.Fields(line)
		var got []string
		for _, e := range []string{t[3], t[4]} {
			in := func(o string) bool { return strings.Contains(","+strings.TrimPrefix(o, "expect ")+",", ","+e+",") }
			dup := false
			for _, g := range got {
				dup = dup || g == e
			}
			if !dup && (in(res.Obs) || in(r2.Obs)) {
				got = append(got, e)
			}
		}
		have := map[string]bool{}
		for _, fd := range res.Findings {
			have[fd.Class] = true
		}
		for _, fd := range r2.Findings {
			if !have[fd.Class] {
				res.Findings = append(res.Findings, fd)
			}
		}
		res.Tags = append(res.Tags, "retried")
		if len(got) == 0 {
			res.Obs = "expect -"
		} else {
			res.Obs = "expect " + strings.Join(got, ",")
		}
	}
	return res
}

func rcRunOnce(line string, attempt int) h.Result {
	f := rcLoad()
	t := strings.Fields(line)
	res := h.Result{Obs: "SKIP", Nontrivial: true}
	if len(t) < 4 {
		res.Obs = "bad-line"
		return res
	}
	kind, impl, a, b := t[0], t[1], t[2], t[3]
	if t[0] == "race" && len(t) >= 5 {
		kind, impl, a, b = t[1], t[2], t[3], t[4]
	}
	cs, ms, seed := "UTF-8", 700, 1
	for _, u := range t {
		switch {
		case strings.HasPrefix(u, "cs="):
			cs = u[3:]
		case strings.HasPrefix(u, "ms="):
			ms = h.Atoi(u[3:])
		case strings.HasPrefix(u, "seed="):
			seed = h.Atoi(u[5:])
		}
	}
	if ms <= 0 || ms > 60000 {
		ms = 700
	}
	seed += attempt * 1000003
	res.Tags = []string{"kind:" + kind, "impl:" + impl}
	if f.err != nil {
		res.Obs = "no-facts"
		res.Findings = append(res.Findings, h.Finding{Class: "harness", Msg: "gen/lockfacts.txt unreadable: " + f.err.Error()})
		return res
	}
	bin, berr := rcBinary()
	if berr != "" {
		res.Obs = "no-binary"
		res.Findings = append(res.Findings, h.Finding{Class: "harness", Msg: berr})
		return res
	}
	tmp, _ := os.MkdirTemp("", "race")
	defer os.RemoveAll(tmp)
	ctx, cancel := context.WithTimeout(context.Background(), time.Duration(ms)*time.Millisecond+25*time.Second)
	defer cancel()
	mode := "pair"
	if kind == "block" {
		mode = "block"
	}
	cmd := exec.CommandContext(ctx, bin, "-mode", mode, "-screen", impl, "-a", a, "-b", b, "-cs", cs, "-ms", strconv.Itoa(ms), "-seed", strconv.Itoa(seed))
	cmd.Env = append(os.Environ(), "GORACE=halt_on_error=0 history_size=3 log_path="+filepath.Join(tmp, "log"))
	var so, se bytes.Buffer
	cmd.Stdout, cmd.Stderr = &so, &se
	err := cmd.Run()
	var logs strings.Builder
	fs, _ := filepath.Glob(filepath.Join(tmp, "log.*"))
	for _, p := range fs {
		bts, _ := os.ReadFile(p)
		logs.Write(bts)
	}
	exit := 0
	if err != nil {
		if ee, ok := err.(*exec.ExitError); ok {
			exit = ee.ExitCode()
		} else {
			exit = -1
		}
	}
	if ctx.Err() != nil {
		res.Tags = append(res.Tags, "hang")
		res.Obs = "SKIP hang (the subprocess did not finish: a liveness matter, property C06)"
		return res
	}
	if exit == 3 {
		res.Tags = append(res.Tags, "not-applicable")
		res.Obs = "SKIP " + strings.TrimSpace(so.String())
		res.Nontrivial = false
		return res
	}
	reproduced := map[string]bool{}
	classes := map[string]string{}
	add := func(cls, msg string) {
		if _, ok := classes[cls]; !ok {
			classes[cls] = msg
		}
	}
	reports := rcParse(logs.String())
	for _, rp := range reports {
		e1, s1 := rcCanon(rp[0])
		e2, s2 := rcCanon(rp[1])
		desc := fmt.Sprintf("%s (%s:%d) vs %s (%s:%d)", e1, filepath.Base(s1.file), s1.line, e2, filepath.Base(s2.file), s2.line)
		if e1 == "" || e2 == "" || s1.fn == "" || s2.fn == "" {
			// a race outside the screen types (harness internal?) — report it, never hide it
			top := ""
			if len(rp[0]) > 0 {
				top = rp[0][0].fn
			}
			add("race-unpredicted", "data race the canonicaliser cannot attribute to two Screen entry points: "+desc+" innermost "+top)
			continue
		}
		f1 := rcFieldsAt(f, impl, e1, s1.line)
		f2 := rcFieldsAt(f, impl, e2, s2.line)
		var conflict, flaggedFields []string
		for fld, v1 := range f1 {
			v2, ok := f2[fld]
			if !ok || !(v1[1] || v2[1]) {
				continue
			}
			conflict = append(conflict, fld)
			if f.flagged[impl+"/"+e1][fld] || f.flagged[impl+"/"+e2][fld] {
				flaggedFields = append(flaggedFields, fld)
			}
		}
		sort.Strings(conflict)
		sort.Strings(flaggedFields)
		if len(flaggedFields) > 0 {
			for _, e := range []string{e1, e2} {
				hit := false
				for _, fld := range flaggedFields {
					if f.flagged[impl+"/"+e][fld] {
						hit = true
					}
				}
				if hit {
					reproduced[e] = true
					add(rcClassName(f, impl, e), fmt.Sprintf("data race on %s: %s — %s accesses it without the mutex that guards it (%s)", strings.Join(flaggedFields, ","), desc, e, rcHeldAt(f, impl, e, flaggedFields)))
				}
			}
			continue
		}
		if len(conflict) > 0 && e1 == e2 && f.kind[impl+"/"+e1] == "loop" {
			// the facts exempt these fields as confined to ONE live instance of the goroutine (axiom); the detector
			// saw two instances alive at once
			add("race-loops-overlap", fmt.Sprintf("two instances of %s are alive at once and race on %s (%s): Resume re-engaged while the loops of the previous engagement had not exited — disengage clears `running` and releases the lock before wg.Wait", e1, strings.Join(conflict, ","), desc))
			continue
		}
		if len(conflict) > 0 {
			add("race-unpredicted", fmt.Sprintf("data race on %s which the facts call guarded/init-only/confined: %s", strings.Join(conflict, ","), desc))
		} else {
			add("race-unpredicted", "data race at sites the facts do not relate to a common field: "+desc)
		}
	}
	if exit != 0 && exit != 66 {
		// runtime fault: concurrent map access, panic from a corrupted buffer …
		txt := se.String() + logs.String()
		what := "exit code " + strconv.Itoa(exit)
		for _, l := range strings.Split(txt, "\n") {
			if strings.HasPrefix(l, "fatal error:") || strings.HasPrefix(l, "panic:") {
				what = strings.TrimSpace(l)
				break
			}
		}
		attributed := false
		// the fields accessed at the source lines of the faulting goroutine's stack (any entry point's facts)
		faultFields := map[string]bool{}
		ftxt := se.String() // the panic / fatal error trace (the race reports go to the GORACE log files)
		if i := strings.Index(ftxt, "panic:"); i >= 0 {
			ftxt = ftxt[i:]
		} else if i := strings.Index(ftxt, "fatal error:"); i >= 0 {
			ftxt = ftxt[i:]
		}
		for _, m := range rcFaultLocRe.FindAllStringSubmatch(ftxt, -1) {
			n, _ := strconv.Atoi(m[2])
			for k, xs := range f.facts {
				if !strings.HasPrefix(k, impl+"/") {
					continue
				}
				for _, x := range xs {
					if x.conc && x.lines[n] {
						faultFields[x.field] = true
					}
				}
			}
		}
		var involved []string // the entry points the two ops call
		for _, o := range []string{a, b} {
			if es, ok := rcOpEntries[o]; ok {
				involved = append(involved, es...)
			} else {
				involved = append(involved, o)
			}
		}
		for _, e := range involved {
			fl := f.flagged[impl+"/"+e]
			if len(fl) == 0 || attributed {
				continue
			}
			var hit []string
			for fld := range fl {
				if faultFields[fld] {
					hit = append(hit, fld)
				}
			}
			sort.Strings(hit)
			if len(hit) == 0 && !strings.Contains(txt, ")."+e+"(") {
				continue
			}
			if e == a || e == b {
				reproduced[e] = true
			}
			cls := rcClassName(f, impl, e)
			if strings.Contains(what, "WaitGroup") && fl["wg.state"] {
				cls = "race-loops-overlap" // wg.Add (engage) concurrent with wg.Wait (disengage)
			}
			add(cls, fmt.Sprintf("runtime fault while %s and %s run concurrently: %s — the faulting goroutine is at a site that accesses %s, which %s touches without the mutex that guards it (flagged: %s)", a, b, what, strings.Join(hit, ","), e, strings.Join(sortedKeysB(fl), ",")))
			attributed = true
		}
		if !attributed {
			cls := "fault-panic"
			if strings.Contains(what, "concurrent map") {
				cls = "fault-concurrent-map"
			}
			add(cls, fmt.Sprintf("runtime fault while %s and %s run concurrently: %s", a, b, what))
		}
		res.Tags = append(res.Tags, "fault")
	}
	if kind != "block" {
		var o map[string]interface{}
		_ = json.Unmarshal(so.Bytes(), &o)
		if st, ok := o["stuck"].([]interface{}); ok && len(st) > 0 {
			var names, parked []string
			for _, x := range st {
				names = append(names, fmt.Sprint(x))
			}
			if pk, ok := o["parked"].([]interface{}); ok {
				for _, x := range pk {
					parked = append(parked, fmt.Sprint(x))
				}
			}
			sort.Strings(parked)
			res.Tags = append(res.Tags, "stuck")
			wgFlagged := false
			for k, m := range f.flagged {
				if strings.HasPrefix(k, impl+"/") && m["wg.state"] {
					wgFlagged = true
				}
			}
			msg := fmt.Sprintf("while %s and %s run concurrently the call of %s never returns (4 s after the run was stopped); goroutines inside the screen: %s", a, b, strings.Join(names, " and "), strings.Join(parked, " | "))
			if wgFlagged {
				add("race-loops-overlap", msg+" — the facts flag wg.state: wg.Add (engage) is not excluded from wg.Wait (disengage), so a Wait also waits for loops a concurrent Resume started and nobody stops")
			} else {
				add("lifecycle-deadlock", msg)
			}
		}
	}
	if kind == "block" {
		var o map[string]interface{}
		_ = json.Unmarshal(so.Bytes(), &o)
		if o != nil {
			if nb, _ := o["block_bad"].(float64); nb > 0 {
				add("show-block-interleaved", fmt.Sprintf("while Sync and %s run concurrently %d of %v tty writes are neither the whole Sync block nor a block of %s: %v", b, int(nb), o["writes"], b, o["first_bad"]))
			}
			if s, ok := o["block_skipped"].(string); ok {
				res.Tags = append(res.Tags, "block-skipped")
				_ = s
			} else {
				res.Tags = append(res.Tags, "block-checked")
			}
		}
	}
	var cl []string
	for c := range classes {
		cl = append(cl, c)
	}
	sort.Strings(cl)
	for _, c := range cl {
		res.Findings = append(res.Findings, h.Finding{Class: c, Msg: classes[c]})
		res.Tags = append(res.Tags, c)
	}
	if len(reports) > 0 {
		res.Tags = append(res.Tags, "racy")
	} else {
		res.Tags = append(res.Tags, "clean")
	}
	if kind == "confirm" {
		var got []string
		for _, e := range []string{a, b} {
			if reproduced[e] && len(f.flagged[impl+"/"+e]) > 0 {
				dup := false
				for _, g := range got {
					if g == e {
						dup = true
					}
				}
				if !dup {
					got = append(got, e)
				}
			}
		}
		if len(got) == 0 {
			res.Obs = "expect -"
		} else {
			res.Obs = "expect " + strings.Join(got, ",")
		}
	}
	return res
}

// rcHeldAt: what the flagged accesses of e on these fields do hold
func rcHeldAt(f *rcFacts, impl, e string, fields []string) string {
	seen := map[string]bool{}
	for _, x := range f.flagFx[impl+"/"+e] {
		for _, fld := range fields {
			if x.field == fld {
				l := strings.Join(sortedKeysB(x.locks), "+")
				if l == "" {
					l = "no mutex"
				}
				seen["holding "+l] = true
			}
		}
	}
	return strings.Join(sortedKeysB(seen), "; ")
}

func sortedKeysB(m map[string]bool) []string {
	var ks []string
	for k := range m {
		ks = append(ks, k)
	}
	sort.Strings(ks)
	return ks
}

func init() {
	h.Register(&h.Engine{
		Name: "race",
		Rule: "one case = one -race subprocess running two Screen methods concurrently with input/resize traffic; distinct = distinct (screen, A, B, charset)",
		Gen:  rcGen,
		Exec: rcExec,
	})
}
