package engines

import (
	"fmt"
	"os"
	"reflect"
	"regexp"
	"unicode"
	"sort"
	"strconv"
	"strings"
	"time"

	"github.com/gdamore/tcell/v2"
	"github.com/gdamore/tcell/v2/terminfo"
	runewidth "github.com/mattn/go-runewidth"
	"verif/harness/h"
)

// Engine draw — C01 / C13 / C09: draw histories on a real terminfo screen over a FakeTty.
//
// line:  draw <entry> <tc> <w> <h> <op>; <op>; …
//   entry = name of a built-in terminal description (`name%pad=<hex of a padding form>`: the same description with every
//   `$<…>` of its strings rewritten to that padding form, e.g. `10/`, `2.5*`: judged by the oracle only), tc = 1 direct colour on (standard RGB strings added if the
//   entry has none, as LookupTerminfo does for COLORTERM=truecolor) / 0 off (TCELL_TRUECOLOR=disable)
//   ops:  S x y main comb style (SetContent; comb `-` = nil slice, `=` = empty NON-nil slice, else r,r,…) |
//         SC x y style r [r…] (Screen.SetCell: primary rune then combining runes) |
//         F r style | Y style (SetStyle) | C x y (ShowCursor) | K cs cc (SetCursorStyle) |
//         L x y w h 0|1 (LockRegion) | W (Show) | N (Sync) | RQ w h (window resized, no notification) |
//         RN w h (window resized, notification delivered) | X (something else scribbles over the terminal)
// reply: for every op that made the screen write: "<op#>:<hex of the bytes written>", space separated
//        (the bytes of Init are op# "i", those of Fini "z").
//
// Oracle: the bytes the implementation wrote are replayed into the Lean reference emulator (Tcell.Spec.Ecma48, through
// h.Ref) and its final grid / cursor / write stamps / complaints are compared with a shadow of what the application set.

type drawCell struct {
	main  int
	comb  []int
	style StyleF
	fill  bool // content last written by Fill (diagnostics only: named in the finding message)
	set   bool // the application has stored content here (SetContent or Fill) since the cell came into being
	// fillSub: Fill stored a rune here that the library keeps as a blank (zero-width / control / invalid primary rune), and
	// the application has since stored that same rune with the same style again through SetContent: for the application
	// nothing changed, for the library the stored rune changed from the substituted blank to the rune itself
	fillSub bool
}

// byFill: a note appended to a finding's message when the cell's content was stored by Fill; the judgement itself
// never depends on it.
func (c *drawCell) byFill() string {
	if !c.fill {
		return ""
	}
	return fmt.Sprintf(" [cell written by Fill(%d), a rune of width %d]", c.main, runewidth.RuneWidth(rune(c.main)))
}

type drawShadow struct {
	w, h      int // size the library works with (updated when it notices a resize)
	ttyw, ttyh int
	cells     map[[2]int]*drawCell
	locked    map[[2]int]bool
	style     StyleF
	cx, cy    int
	cs, cc    uint64
	trusted   bool
	dflt      *StyleF // default style every clean StyleDefault cell was painted with; nil = unknown
	fresh     bool
	changed   map[[2]int]bool // cells whose appearance may legitimately be repainted by the next draw
	allowed   map[[2]int]map[int]bool // block ids in which the cell may receive payload
}

// lockGuardSuffix probes the tree under test once per process: "+lg" when a wide rune stored in the column left of a
// locked cell is no longer written as a two-column glyph (fixes/C13-wide-left-of-locked.patch), "" for the pinned
// drawCell.  The suffix is appended to the entry name on generated `draw` / `modes` case lines so that the Lean driver
// runs the matching model variant (DrawCfg.guardLocked); the oracle never looks at it.
var lockGuardVariant *string

func lockGuardSuffix() string {
	if lockGuardVariant != nil {
		return *lockGuardVariant
	}
	s := ""
	if ti := drawTi("xterm-256color", false); ti != nil {
		os.Setenv("LC_ALL", "en_US.UTF-8")
		tty := NewFakeTty(3, 1)
		if scr, err := tcell.NewTerminfoScreenFromTtyTerminfo(tty, ti); err == nil && scr.Init() == nil {
			scr.SetContent(1, 0, 'b', nil, tcell.StyleDefault)
			scr.Show()
			scr.LockRegion(1, 0, 1, 1, true)
			scr.SetContent(0, 0, 0x4e16, nil, tcell.StyleDefault)
			tty.TakeWrites()
			scr.Show()
			if out := string(joinBlocks(tty.TakeWrites())); len(out) > 0 && !strings.Contains(out, "\xe4\xb8\x96") {
				s = "+lg"
			}
			scr.Fini()
		}
		if s == "+lg" {
			// second probe: "+lw" when, in addition, the width drawCell returns for a wide rune left of a locked cell does
			// not depend on the cell being dirty (fixes/C13-locked-wide-walk.patch): an idle Show after the witness
			// history of finding C13-locked-wide-walk writes no cell
			tty := NewFakeTty(5, 1)
			if scr, err := tcell.NewTerminfoScreenFromTtyTerminfo(tty, ti); err == nil && scr.Init() == nil {
				scr.SetContent(1, 0, 0x754c, nil, tcell.StyleDefault)
				scr.LockRegion(1, 0, 1, 1, true)
				scr.SetContent(0, 0, 0x4e16, nil, tcell.StyleDefault)
				scr.Show()
				tty.TakeWrites()
				scr.Show()
				if out := string(joinBlocks(tty.TakeWrites())); !strings.Contains(out, " ") {
					s = "+lw"
				}
				scr.Fini()
			}
		}
	}
	lockGuardVariant = &s
	return s
}

// splitLockGuard strips the variant suffix from an entry token; stale = the line was recorded on a tree of the other
// variant (a replay): the oracle still runs, the model comparison is skipped.
func splitLockGuard(tok string) (name string, stale bool) {
	name, flag := tok, ""
	if i := strings.Index(name, "+lg"); i >= 0 {
		name, flag = name[:i]+name[i+3:], "+lg"
	} else if i := strings.Index(name, "+lw"); i >= 0 {
		name, flag = name[:i]+name[i+3:], "+lw"
	}
	if i := strings.Index(name, "+fz"); i >= 0 { // Fill variant, see fillZWSuffix in cb.go
		name, flag = name[:i]+name[i+3:], flag+"+fz"
	}
	return name, flag != drawVariantSuffix()
}

// drawVariantSuffix: the flags the `draw` / `drawcp` / `modes` case lines carry after the entry name: `+lg` (locked-neighbour
// guard in drawCell) then `+fz` (Fill stores a blank for zero-width runes), each present when the tree under test has the repair.
func drawVariantSuffix() string { return lockGuardSuffix() + fillZWSuffix() }

// withVariant appends the variant flags of the tree under test to an entry token, before any `@charset`:
// `xterm-256color@ISO8859-1` -> `xterm-256color+lg+fz@ISO8859-1`.
func withVariant(tok string) string {
	if i := strings.Index(tok, "@"); i >= 0 {
		return tok[:i] + drawVariantSuffix() + tok[i:]
	}
	return tok + drawVariantSuffix()
}

// cornerNeighbour: on auto-margin terminals painted with the insert-character trick, the cells of the last row that the trick
// itself writes: the corner, the column left of it, and — when that column is the right half of a wide rune — the wide rune's
// own cell, which the repaired trick repaints ("the neighbour used to paint the bottom-right corner" of the C13 statement)
func cornerNeighbour(w, h, x, y int, wideAt func(x, y int) bool) bool {
	if y != h-1 {
		return false
	}
	return x >= w-2 || (x == w-3 && wideAt(x, y))
}

func ecmaEntries() []string {
	var out []string
	seen := map[*terminfo.Terminfo]bool{}
	for _, ti := range terminfo.VerifEntries() {
		if seen[ti] {
			continue
		}
		seen[ti] = true
		if strings.HasPrefix(ti.SetCursor, "\x1b[") {
			out = append(out, ti.Name)
		}
	}
	sort.Strings(out)
	return out
}

func drawTi(name string, tc bool) *terminfo.Terminfo {
	src := terminfo.VerifEntries()[name]
	if src == nil {
		return nil
	}
	ti := *src
	ti.PadChar = "" // no sleeping in TPuts; the bytes are the same (C15 covers delays)
	if tc && ti.SetFgBgRGB == "" && ti.SetFgRGB == "" && ti.SetBgRGB == "" {
		ti.SetFgRGB = "\x1b[38;2;%p1%d;%p2%d;%p3%dm"
		ti.SetBgRGB = "\x1b[48;2;%p1%d;%p2%d;%p3%dm"
		ti.SetFgBgRGB = "\x1b[38;2;%p1%d;%p2%d;%p3%d;48;2;%p4%d;%p5%d;%p6%dm"
	}
	return &ti
}

// padSpecRe: a well-formed terminfo(5) padding specification: `$<` number with at most one decimal place, then the
// flags `*` (proportional) and `/` (mandatory) in either order, `>`.
var padSpecRe = regexp.MustCompile(`\$<[0-9]+(\.[0-9])?(\*/?|/\*?)?>`)
var padAnyRe = regexp.MustCompile(`\$<[^>]*>`)

// drawPadForms: the padding forms terminfo(5) allows (the built-in database itself only has plain integers and one `/`)
var drawPadForms = []string{"5", "50", "200", "2.5", "0.5", "10*", "10/", "10*/", "10/*", "2.5*", "2.5/", "1.5*/"}

// withPadForm: a copy of the description in which every padding specification carries the given form
func withPadForm(ti *terminfo.Terminfo, form string) *terminfo.Terminfo {
	c := *ti
	v := reflect.ValueOf(&c).Elem()
	for i := 0; i < v.NumField(); i++ {
		if f := v.Field(i); f.Kind() == reflect.String && f.CanSet() && strings.Contains(f.String(), "$<") {
			f.SetString(padAnyRe.ReplaceAllLiteralString(f.String(), "$<"+form+">"))
		}
	}
	return &c
}

// paddedEcmaEntries: the ECMA entries with a padding specification in any capability other than the key strings
func paddedEcmaEntries() []string {
	var out []string
	for _, name := range ecmaEntries() {
		v := reflect.ValueOf(*terminfo.VerifEntries()[name])
		for i := 0; i < v.NumField(); i++ {
			if f := v.Field(i); f.Kind() == reflect.String && !strings.HasPrefix(v.Type().Field(i).Name, "Key") && padAnyRe.MatchString(f.String()) {
				out = append(out, name)
				break
			}
		}
	}
	return out
}

func cornerTrick(ti *terminfo.Terminfo) bool {
	return ti.AutoMargin && ti.DisableAutoMargin == "" && ti.InsertChar != ""
}

// ---- expected pen in the emulator's dump syntax ----

func colSel(c tcell.Color, ti *terminfo.Terminfo, truecolor bool, palette []tcell.Color) string {
	if c == tcell.ColorReset || !c.Valid() {
		return "d"
	}
	if c.IsRGB() {
		if truecolor {
			r, g, b := c.RGB()
			return fmt.Sprintf("r%02x%02x%02x", r, g, b)
		}
	}
	if len(palette) == 0 {
		return "?"
	}
	if !c.IsRGB() && int(c&0xffffff) < len(palette) && c&tcell.ColorIsRGB == 0 && uint64(c&^tcell.ColorValid) < uint64(len(palette)) {
		return fmt.Sprintf("i%d", int(c&0xff))
	}
	v := tcell.FindColor(c, palette)
	return fmt.Sprintf("i%d", int(v&0xff))
}

var opPenCache = map[string][2]string{}

// opPen asks the reference what colours the entry's `op` (ResetFgBg) selects after `sgr0`: "39;49" gives the
// defaults, but a few entries (pcansi, …) select explicit colours.
func opPen(ti *terminfo.Terminfo) (string, string) {
	if v, ok := opPenCache[ti.Name]; ok {
		return v[0], v[1]
	}
	fg, bg := "d", "d"
	if ti.ResetFgBg != "" {
		d := h.Ref("emu 2 1 1 1 acs:- W " + h.Hex([]byte(ti.AttrOff+ti.ResetFgBg)))
		kv, _ := parseEmuDump(d)
		if p := strings.Split(kv["pen"], ","); len(p) == 6 {
			fg, bg = p[0], p[1]
		}
	}
	opPenCache[ti.Name] = [2]string{fg, bg}
	return fg, bg
}

func expectPen(st StyleF, ti *terminfo.Terminfo, der map[string]string, truecolor bool) string {
	nc := ti.Colors
	if nc > 256 {
		nc = 256
	}
	palette := make([]tcell.Color, nc)
	for i := range palette {
		palette[i] = tcell.Color(i) | tcell.ColorValid
	}
	fg, bg := "d", "d"
	attrs := ""
	mono := ti.Colors == 0
	if mono {
		fg, bg = "?", "?"
	} else {
		f, b := tcell.Color(st.Fg), tcell.Color(st.Bg)
		// separate RGB strings may be missing: then an RGB colour falls back to the palette
		fgRGB := truecolor && f.IsRGB() && (ti.SetFgRGB != "" || (ti.SetFgBgRGB != "" && b.IsRGB()))
		bgRGB := truecolor && b.IsRGB() && (ti.SetBgRGB != "" || (ti.SetFgBgRGB != "" && f.IsRGB()))
		fg = colSel(f, ti, fgRGB, palette)
		bg = colSel(b, ti, bgRGB, palette)
		if f == tcell.ColorReset || b == tcell.ColorReset {
			// `op` was sent: whatever it selects stays for the components that are not set afterwards
			ofg, obg := opPen(ti)
			if fg == "d" {
				fg = ofg
			}
			if bg == "d" {
				bg = obg
			}
		}
		if ti.SetFg == "" && ti.SetFgBg == "" && strings.HasPrefix(fg, "i") {
			fg = "?"
		}
		if ti.SetBg == "" && ti.SetFgBg == "" && strings.HasPrefix(bg, "i") {
			bg = "?"
		}
	}
	a := st.Attrs
	add := func(bit tcell.AttrMask, cap string, letter string) {
		if a&uint64(bit) != 0 && cap != "" {
			attrs += letter
		}
	}
	add(tcell.AttrBold, ti.Bold, "b")
	add(tcell.AttrDim, ti.Dim, "d")
	add(tcell.AttrItalic, ti.Italic, "i")
	add(tcell.AttrBlink, ti.Blink, "k")
	add(tcell.AttrReverse, ti.Reverse, "r")
	add(tcell.AttrStrikeThrough, ti.StrikeThrough, "s")
	if attrs == "" {
		attrs = "-"
	}
	if mono {
		attrs = "?" // monochrome entries turn colours into reverse video (outside the statement)
	}
	ul, ulc := "0", "d"
	if st.UlStyle != 0 {
		ul = "0"
		if ti.Underline != "" {
			ul = "1"
		}
		ext := map[int]string{2: der["doubleUnder"], 3: der["curlyUnder"], 4: der["dottedUnder"], 5: der["dashedUnder"]}
		if st.UlStyle >= 2 && ext[st.UlStyle] != "" {
			ul = strconv.Itoa(st.UlStyle)
		}
		if der["underColor"] != "" || der["underRGB"] != "" {
			uc := tcell.Color(st.UlColor)
			switch {
			case uc == tcell.ColorReset:
				ulc = "d"
			case uc.IsRGB():
				if der["underRGB"] != "" {
					r, g, b := uc.RGB()
					ulc = fmt.Sprintf("r%02x%02x%02x", r, g, b)
				} else if len(palette) > 0 {
					ulc = fmt.Sprintf("i%d", int(tcell.FindColor(uc, palette)&0xff))
				} else {
					ulc = "?"
				}
			case uc.Valid():
				ulc = fmt.Sprintf("i%d", int(uc&0xff))
			}
		}
	}
	link := "-"
	if der["enterUrl"] != "" && st.Url != "" {
		link = h.Hex([]byte(st.UrlId)) + ":" + h.Hex([]byte(st.Url))
	}
	return strings.Join([]string{fg, bg, attrs, ul, ulc, link}, ",")
}

// obsRune mirrors the property text: zero-width / control / invalid primary runes are shown as blanks
func drawObsRune(m int) int {
	if runewidth.RuneWidth(rune(m)) == 0 || m < ' ' {
		return ' '
	}
	return m
}

func penMatch(exp, got string) bool {
	e, g := strings.Split(exp, ","), strings.Split(got, ",")
	if len(e) != len(g) {
		return false
	}
	for i := range e {
		if e[i] != "?" && e[i] != g[i] {
			return false
		}
	}
	return true
}

type emuCell struct {
	runes string
	pen   string
	flags string
	stamp int
}

func parseEmuDump(d string) (map[string]string, []emuCell) {
	kv := map[string]string{}
	var cells []emuCell
	i := strings.Index(d, " cells=")
	head := d
	if i >= 0 {
		head = d[:i]
		for _, c := range strings.Fields(d[i+7:]) {
			if c == "." {
				cells = append(cells, emuCell{runes: "-", pen: "d,d,-,0,d,-", flags: "-"})
				continue
			}
			p := strings.Split(c, "/")
			if len(p) != 4 {
				cells = append(cells, emuCell{runes: "bad"})
				continue
			}
			cells = append(cells, emuCell{runes: p[0], pen: p[1], flags: p[2], stamp: h.Atoi(p[3])})
		}
	}
	for _, f := range strings.Fields(head) {
		if j := strings.Index(f, "="); j > 0 {
			kv[f[:j]] = f[j+1:]
		}
	}
	return kv, cells
}

func modeOf(modes, key string) string {
	for _, m := range strings.Split(modes, ",") {
		if strings.HasPrefix(m, key+":") {
			return m[len(key)+1:]
		}
	}
	return ""
}

func waitWrites(tty *FakeTty, atLeast int, d time.Duration) [][]byte {
	deadline := time.Now().Add(d)
	var all [][]byte
	last := time.Now()
	for time.Now().Before(deadline) {
		w := tty.TakeWrites()
		if len(w) > 0 {
			all = append(all, w...)
			last = time.Now()
		} else if len(all) >= atLeast && time.Since(last) > 30*time.Millisecond {
			break
		}
		time.Sleep(2 * time.Millisecond)
	}
	return all
}

func joinBlocks(bs [][]byte) []byte {
	var out []byte
	for _, b := range bs {
		out = append(out, b...)
	}
	return out
}

func execDraw(line string) (res h.Result) {
	f := strings.SplitN(strings.TrimPrefix(line, "draw "), " ", 5)
	if len(f) < 5 {
		return h.Result{Obs: "bad-line"}
	}
	name, tc, w, hh := f[0], f[1] == "1", h.Atoi(f[2]), h.Atoi(f[3])
	name, staleVariant := splitLockGuard(name)
	ops := h.SplitTrim(f[4], ";")
	charset := "UTF-8"
	if i := strings.Index(name, "@"); i >= 0 {
		name, charset = name[:i], name[i+1:]
	}
	utf8loc := charset == "UTF-8"
	padForm := ""
	if i := strings.Index(name, "%pad="); i >= 0 {
		name, padForm = name[:i], string(h.Unhex(name[i+5:]))
	}
	ti := drawTi(name, tc)
	if ti == nil {
		return h.Result{Obs: "no-entry"}
	}
	if padForm != "" {
		ti = withPadForm(ti, padForm)
	}
	os.Setenv("LC_ALL", "en_US."+charset)
	os.Setenv("TCELL_ALTSCREEN", "")
	if tc {
		os.Unsetenv("TCELL_TRUECOLOR")
	} else {
		os.Setenv("TCELL_TRUECOLOR", "disable")
	}
	tty := NewFakeTty(w, hh)
	scr, err := tcell.NewTerminfoScreenFromTtyTerminfo(tty, ti)
	if err != nil {
		return h.Result{Obs: "new-error " + err.Error()}
	}
	if err := scr.Init(); err != nil {
		return h.Result{Obs: "init-error " + err.Error()}
	}
	done := make(chan struct{})
	go func() { // discard events (resize events are posted by draws)
		for scr.PollEvent() != nil {
		}
		close(done)
	}()
	der := tcell.VerifDerived(ti)
	truecolor := tc && (ti.SetFgBgRGB != "" || ti.SetFgRGB != "" || ti.SetBgRGB != "")
	var obs []string
	emuOps := []string{}
	block := 0
	var written [][2]string // (tag, bytes) of everything the screen wrote: Init, every op, Fini
	appDollar := false      // the application itself supplied a '$' (cell content, hyperlink): see padding-residue below
	supplied := func(st StyleF, rs ...int) {
		for _, r := range rs {
			if r == '$' {
				appDollar = true
			}
		}
		if strings.Contains(st.Url, "$") || strings.Contains(st.UrlId, "$") {
			appDollar = true
		}
	}
	record := func(tag string, bs [][]byte) bool {
		b := joinBlocks(bs)
		if len(b) == 0 {
			return false
		}
		written = append(written, [2]string{tag, string(b)})
		obs = append(obs, tag+":"+h.Hex(b))
		emuOps = append(emuOps, "W "+h.Hex(b))
		block++
		return true
	}
	if strings.Contains(ti.Clear, "\x0c") {
		emuOps = append(emuOps, "C ff") // this terminal clears the screen on form feed
	}
	// a terminal without hyperlink support has no hyperlink state to lose: after corruption / resize tell the
	// reference (whose hyperlink becomes "unknown") that none is open
	noLink := func() {
		if der["enterUrl"] == "" {
			emuOps = append(emuOps, "A 1b5d383b3b1b5c")
		}
	}
	record("i", tty.TakeWrites())
	sh := &drawShadow{w: w, h: hh, ttyw: w, ttyh: hh, cells: map[[2]int]*drawCell{}, locked: map[[2]int]bool{}, cx: -1, cy: -1,
		trusted: true, fresh: true, changed: map[[2]int]bool{}, allowed: map[[2]int]map[int]bool{}}
	get := func(x, y int) *drawCell {
		c := sh.cells[[2]int{x, y}]
		if c == nil {
			c = &drawCell{}
			sh.cells[[2]int{x, y}] = c
		}
		return c
	}
	inr := func(x, y int) bool { return x >= 0 && y >= 0 && x < sh.w && y < sh.h }
	widthOf := func(m int) int {
		w := runewidth.RuneWidth(rune(m))
		if w == 0 || m < ' ' {
			return 1
		}
		return w
	}
	markAllChanged := func() {
		for y := 0; y < sh.h; y++ {
			for x := 0; x < sh.w; x++ {
				sh.changed[[2]int{x, y}] = true
			}
		}
	}
	resizeShadow := func() {
		if sh.ttyw == sh.w && sh.ttyh == sh.h {
			return
		}
		nc := map[[2]int]*drawCell{}
		for k, c := range sh.cells {
			if k[0] < sh.ttyw && k[1] < sh.ttyh && k[0] < sh.w && k[1] < sh.h {
				nc[k] = c
			}
		}
		sh.cells, sh.w, sh.h = nc, sh.ttyw, sh.ttyh
		sh.locked = map[[2]int]bool{}
	}
	markAllChanged() // nothing has been painted yet
	acs := "-"
	if ti.AltChars != "" {
		acs = h.Hex([]byte(ti.AltChars))
	}
	u8 := 1
	if !utf8loc {
		u8 = 0
		if strings.HasPrefix(charset, "ISO8859") || charset == "US-ASCII" {
			// ISO 8859-x (and ASCII) terminals: the bytes 0x80-0x9f are C1 controls.  In other 8-bit charsets
			// (KOI8-R, CP125x, …) they are graphic characters of the terminal's character set.
			emuOps = append([]string{"C c1"}, emuOps...)
		}
	}
	emuNow := func() (map[string]string, []emuCell, string) {
		d := h.Ref(fmt.Sprintf("emu %d %d %d 1 acs:%s %s", w, hh, u8, acs, strings.Join(emuOps, "; ")))
		kv, cells := parseEmuDump(d)
		return kv, cells, d
	}
	epoch := 0 // bumped by anything that legitimately repaints or destroys the whole display
	lockSnap := map[[2]int]emuCell{}
	lockEpoch := map[[2]int]int{}
	lockLead := map[[2]int]bool{} // when it was locked the cell showed the left half of a wide glyph
	lastDraw := false
	oracleOnly := ""
	tags := map[string]bool{}
	// C13 "repainted by the first Show() after being unlocked": cells that were locked and have been unlocked since the
	// last draw
	pendingUnlock := map[[2]int]bool{}
	afterDraw := func(full bool) {
		// every cell that may have been repainted in this block
		if full {
			markAllChanged()
		}
		for k := range sh.changed {
			if sh.allowed[k] == nil {
				sh.allowed[k] = map[int]bool{}
			}
			sh.allowed[k][block] = true
			// a column that may be written is written by writing the glyph it shows: when that is a wide rune, both of its
			// columns (a wide rune at x+1 laid bare by a change of the hidden wide rune at x is repainted whole)
			if k[0]+1 < sh.w && widthOf(get(k[0], k[1]).main) > 1 {
				r := [2]int{k[0] + 1, k[1]}
				if sh.allowed[r] == nil {
					sh.allowed[r] = map[int]bool{}
				}
				sh.allowed[r][block] = true
			}
		}
		sh.changed = map[[2]int]bool{}
	}
	// dispRow: what row y of the logical screen displays, column by column, in the property's own terms: a cell shows its
	// content; a wide rune that fits covers the next column too ("R:" = right half of …); a column so covered shows
	// nothing of its own.  Two rows differ in a column exactly when that column's appearance differs.
	dispRow := func(y int) []string {
		out := make([]string, sh.w)
		cov := ""
		for x := 0; x < sh.w; x++ {
			if cov != "" {
				out[x], cov = "R:"+cov, ""
				continue
			}
			c := get(x, y)
			key := fmt.Sprintf("%d/%v/%s", c.main, c.comb, c.style)
			if wd := widthOf(c.main); wd > 1 && x+wd <= sh.w {
				cov, key = key, "W:"+key
			}
			out[x] = key
		}
		return out
	}
	// heads: the columns of row y that are cells of their own on the display (not the right half of a wide rune), in
	// the logical layout and — narrow = true — in the layout in which a wide rune whose right neighbour is locked
	// occupies one column only (how such a rune is shown, see `cut` below)
	heads := func(y int, narrow bool) map[int]bool {
		out := map[int]bool{}
		for x := 0; x < sh.w; x++ {
			out[x] = true
			if wd := widthOf(get(x, y).main); wd > 1 && x+wd <= sh.w && !(narrow && sh.locked[[2]int{x + 1, y}]) {
				x++
			}
		}
		return out
	}
	for i, op := range ops {
		t := strings.Fields(op)
		if len(t) > 0 && (t[0] == "FIT" || t[0] == "FIT0") {
			continue // pseudo-ops for the Lean driver (colour-fitting values); they must not reset lastDraw
		}
		lastDraw = false
		tag := strconv.Itoa(i)
		switch t[0] {
		case "S", "SC":
			var x, y, m int
			var comb []int
			var st StyleF
			if t[0] == "SC" {
				// Screen.SetCell(x, y, style, r…): the public variadic route (it hands SetContent the tail of its own
				// argument slice: an empty NON-nil combining slice when there is a single rune)
				if len(t) < 5 {
					obs = append(obs, "bad-op")
					continue
				}
				x, y, st = h.Atoi(t[1]), h.Atoi(t[2]), ParseStyleF(t[3])
				var rs []rune
				for _, f := range t[4:] {
					rs = append(rs, rune(h.Atoi(f)))
				}
				m = int(rs[0])
				for _, c := range rs[1:] {
					comb = append(comb, int(c))
				}
				scr.SetCell(x, y, st.ToStyle(), rs...)
				tags["setcell"] = true
			} else {
				x, y, m, st = h.Atoi(t[1]), h.Atoi(t[2]), h.Atoi(t[3]), ParseStyleF(t[5])
				cr := combRunes(t[4])
				comb = fromRunes(cr)
				if len(comb) == 0 {
					comb = nil
				}
				if cr != nil && len(cr) == 0 {
					tags["comb-empty-non-nil"] = true
				}
				scr.SetContent(x, y, rune(m), cr, st.ToStyle())
			}
			supplied(st, append([]int{m}, comb...)...)
			if inr(x, y) {
				c := get(x, y)
				if st.Fg == ColorNoneU {
					st.Fg = c.style.Fg
				}
				if st.Bg == ColorNoneU {
					st.Bg = c.style.Bg
				}
				before := dispRow(y)
				old := *c
				*c = drawCell{main: m, comb: comb, style: st, set: true}
				if (old.fill || old.fillSub) && old.main == m && len(comb) == 0 && len(old.comb) == 0 && old.style == st && mustBeBlank(m) {
					c.fillSub = true
					tags["fill-substituted-rune-restored"] = true
				}
				// C13 "only cells whose rune, combining runes or style changed, plus the columns covered or uncovered by a
				// changed wide rune": the cell itself when the store changed its content (a first store counts as a change),
				// and every column of the row whose displayed appearance this store changed (see dispRow).  A store of
				// identical content allows nothing.
				if !old.set || old.main != m || !sameInts(old.comb, comb) || old.style != st {
					sh.changed[[2]int{x, y}] = true
					if widthOf(old.main) > 1 || widthOf(m) > 1 {
						// "the columns covered or uncovered by a changed wide rune", read on the cell buffer: the column right of
						// a changed cell that held / holds a wide rune, even where another wide rune hides that cell itself
						sh.changed[[2]int{x + 1, y}] = true
					}
				} else {
					tags["restore-identical"] = true
				}
				for i, a := range dispRow(y) {
					if a != before[i] {
						sh.changed[[2]int{i, y}] = true
					}
				}
				if widthOf(m) > 1 {
					tags["wide"] = true
				}
				res.Nontrivial = true
			}
		case "F":
			r, st := h.Atoi(t[1]), ParseStyleF(t[2])
			supplied(st, r)
			scr.Fill(rune(r), st.ToStyle())
			for y := 0; y < sh.h; y++ {
				for x := 0; x < sh.w; x++ {
					c := get(x, y)
					ns := st
					if ns.Fg == ColorNoneU {
						ns.Fg = c.style.Fg
					}
					if ns.Bg == ColorNoneU {
						ns.Bg = c.style.Bg
					}
					*c = drawCell{main: r, style: ns, fill: true, set: true}
				}
			}
			markAllChanged()
		case "Y":
			st := ParseStyleF(t[1])
			supplied(st)
			scr.SetStyle(st.ToStyle())
			sh.style = st
		case "C":
			sh.cx, sh.cy = h.Atoi(t[1]), h.Atoi(t[2])
			scr.ShowCursor(sh.cx, sh.cy)
		case "K":
			sh.cs, sh.cc = h.Atou(t[1]), h.Atou(t[2])
			scr.SetCursorStyle(tcell.CursorStyle(sh.cs), tcell.Color(sh.cc))
		case "L":
			x, y, lw, lh, lock := h.Atoi(t[1]), h.Atoi(t[2]), h.Atoi(t[3]), h.Atoi(t[4]), t[5] == "1"
			scr.LockRegion(x, y, lw, lh, lock)
			var lcells []emuCell
			var lkv map[string]string
			if lock && lw > 0 && lh > 0 {
				lkv, lcells, _ = emuNow()
			}
			for j := y; j < y+lh; j++ {
				for k := x; k < x+lw; k++ {
					if inr(k, j) {
						if lock {
							if !sh.locked[[2]int{k, j}] && lkv["size"] == fmt.Sprintf("%dx%d", sh.w, sh.h) && len(lcells) == sh.w*sh.h {
								lockSnap[[2]int{k, j}] = lcells[j*sh.w+k]
								lockEpoch[[2]int{k, j}] = epoch
								lockLead[[2]int{k, j}] = k+1 < sh.w && strings.Contains(lcells[j*sh.w+k+1].flags, "c")
							}
							if sh.locked[[2]int{k, j}] {
								tags["lock-again"] = true
							}
							sh.locked[[2]int{k, j}] = true
							delete(pendingUnlock, [2]int{k, j})
						} else {
							wasLocked := sh.locked[[2]int{k, j}]
							if wasLocked {
								pendingUnlock[[2]int{k, j}] = true
							} else {
								tags["unlock-not-locked"] = true
							}
							delete(sh.locked, [2]int{k, j})
							sh.changed[[2]int{k, j}] = true
							// an unlocked cell that holds a wide rune is repainted two columns wide: its right half is
							// necessarily written again (the oracle used to flag that column: a false alarm of the
							// machinery, found with the directed cases of genDrawLockedWide)
							if widthOf(get(k, j).main) > 1 {
								sh.changed[[2]int{k + 1, j}] = true
							}
							// a cell that was really locked and is the right half of a wide rune: that rune is repainted (what it
							// may display depended on the lock of this cell).  "Unlocking" a cell that was not locked changes
							// nothing about its left neighbour.
							if wasLocked && k > 0 && widthOf(get(k-1, j).main) > 1 {
								sh.changed[[2]int{k - 1, j}] = true
								tags["unlock-right-of-wide"] = true
							}
						}
					}
				}
			}
			tags["lock"] = true
		case "W":
			scr.Show()
			noticed := sh.ttyw != sh.w || sh.ttyh != sh.h
			resizeShadow()
			if noticed {
				sh.trusted, sh.fresh = true, true
				epoch++
			}
			if sh.fresh {
				s := sh.style
				sh.dflt = &s
			} else if sh.dflt != nil && *sh.dflt != sh.style {
				sh.dflt = nil
			}
			sh.fresh = false
			wrote := record(tag, tty.TakeWrites())
			afterDraw(noticed)
			lastDraw = true
			var ukv map[string]string
			var ucells []emuCell
			if !noticed && (wrote || len(pendingUnlock) > 0) {
				ukv, ucells, _ = emuNow()
			}
			if wrote && !noticed && sh.trusted && ukv["size"] == fmt.Sprintf("%dx%d", sh.w, sh.h) && len(ucells) == sh.w*sh.h {
				// C13, judged after EVERY Show (a later repaint of the same cell would otherwise hide the write): payload
				// written in this block only went to cells whose appearance changed since the previous draw
				for y := 0; y < sh.h; y++ {
					for x := 0; x < sh.w; x++ {
						k := [2]int{x, y}
						if ucells[y*sh.w+x].stamp != block || block <= 1 || sh.allowed[k][block] {
							continue
						}
						if cornerTrick(ti) && cornerNeighbour(sh.w, sh.h, x, y, func(a, b int) bool { return widthOf(get(a, b).main) > 1 }) {
							continue // the neighbour used to paint the bottom-right corner (the property's own exception)
						}
						if orphanErased(ucells, sh.w, x, y) {
							tags["orphan-half-erased"] = true
							continue
						}
						if len(res.Findings) < 4 {
							cls := "unchanged-cell-written"
							if get(x, y).fillSub {
								cls = "unchanged-cell-written:fill-substitution"
							}
							res.Findings = append(res.Findings, h.Finding{Class: cls, Msg: fmt.Sprintf(
								"cell (%d,%d) was written by the Show of op %d (block %d) although it had not changed since the previous draw (locked=%v)%s", x, y, i, block, sh.locked[k], get(x, y).byFill())})
						}
					}
				}
			}
			if len(pendingUnlock) > 0 && !noticed {
				// the first Show after an unlock: every unlocked cell that is a cell of its own on the display must have
				// received payload in this very block (write stamps of the reference emulator)
				if ukv["size"] == fmt.Sprintf("%dx%d", sh.w, sh.h) && len(ucells) == sh.w*sh.h {
					var ks [][2]int
					for k := range pendingUnlock {
						ks = append(ks, k)
					}
					sort.Slice(ks, func(a, b int) bool { return ks[a][1] < ks[b][1] || (ks[a][1] == ks[b][1] && ks[a][0] < ks[b][0]) })
					for _, k := range ks {
						if inr(k[0], k[1]) && !sh.locked[k] && k[0] > 0 && !heads(k[1], false)[k[0]] && !heads(k[1], true)[k[0]] {
							// the unlocked cell is the right half of a wide rune: it is repainted by repainting that rune — judge
							// the cell that shows it (unless that one is locked itself or layout-ambiguous)
							k = [2]int{k[0] - 1, k[1]}
						}
						if !inr(k[0], k[1]) || sh.locked[k] || !heads(k[1], false)[k[0]] || !heads(k[1], true)[k[0]] {
							continue
						}
						if cornerTrick(ti) && cornerNeighbour(sh.w, sh.h, k[0], k[1], func(a, b int) bool { return widthOf(get(a, b).main) > 1 }) {
							continue // painted through the insert-character trick: the stamps there are the terminal's shifting
						}
						tags["unlock-repaint-judged"] = true
						if st := ucells[k[1]*sh.w+k[0]].stamp; !wrote || st != block {
							if len(res.Findings) < 4 {
								res.Findings = append(res.Findings, h.Finding{Class: "unlocked-cell-not-repainted", Msg: fmt.Sprintf(
									"cell (%d,%d) was locked and has been unlocked; the first Show after that (op %d, block %d) did not write it (last written in block %d, wrote=%v)",
									k[0], k[1], i, block, st, wrote)})
							}
						}
					}
				}
			}
			pendingUnlock = map[[2]int]bool{}
		case "N":
			scr.Sync()
			epoch++
			resizeShadow()
			sh.trusted, sh.fresh = true, false
			s := sh.style
			sh.dflt = &s
			record(tag, tty.TakeWrites())
			afterDraw(true)
			lastDraw = true
			pendingUnlock = map[[2]int]bool{}
			tags["sync"] = true
		case "RQ":
			sh.ttyw, sh.ttyh = h.Atoi(t[1]), h.Atoi(t[2])
			tty.SetSizeQuiet(sh.ttyw, sh.ttyh)
			epoch++
			emuOps = append(emuOps, fmt.Sprintf("R %d %d", sh.ttyw, sh.ttyh))
			noLink()
			sh.trusted = false
			tags["resize-quiet"] = true
		case "RN":
			sh.ttyw, sh.ttyh = h.Atoi(t[1]), h.Atoi(t[2])
			emuOps = append(emuOps, fmt.Sprintf("R %d %d", sh.ttyw, sh.ttyh))
			noLink()
			epoch++
			tty.Resize(sh.ttyw, sh.ttyh)
			bs := waitWrites(tty, 1, 2*time.Second)
			resizeShadow()
			sh.trusted, sh.fresh = true, false
			s := sh.style
			sh.dflt = &s
			record(tag, bs)
			afterDraw(true)
			lastDraw = true
			pendingUnlock = map[[2]int]bool{}
			tags["resize-notify"] = true
		case "X":
			emuOps = append(emuOps, "X")
			epoch++
			noLink()
			sh.trusted = false
			tags["corrupt"] = true
		case "RF", "UF":
			// RegisterRuneFallback(r, s) / UnregisterRuneFallback(r) between two Shows: in a UTF-8 locale the fallback table is
			// never consulted, and in any locale a change of it changes no cell's rune, combining runes or style — nothing may
			// be written because of it (C13); a no-op for the model
			if t[0] == "RF" && len(t) >= 3 {
				scr.RegisterRuneFallback(rune(h.Atoi(t[1])), string(h.Unhex(t[2])))
			} else if len(t) >= 2 {
				scr.UnregisterRuneFallback(rune(h.Atoi(t[1])))
			}
			tags["fallback-change"] = true
		case "ZR":
			// Suspend(); Resume() — the terminal is handed back (modes reset, alternate screen left) and taken over again
			// (alternate screen entered, cleared).  The library drops the logical content at Suspend (the cell buffer is
			// resized to 0x0 and re-created at Resume from the tty's size): the application starts from a blank screen,
			// and whatever it draws then must be what the terminal displays after the next Show (C01) — byte-exact
			// correspondence for such histories is the business of engine `modes` (C04); here the oracle alone judges.
			_ = scr.Suspend()
			_ = scr.Resume()
			record(tag, tty.TakeWrites())
			sh.cells, sh.locked = map[[2]int]*drawCell{}, map[[2]int]bool{}
			sh.w, sh.h = sh.ttyw, sh.ttyh
			sh.trusted, sh.fresh = true, true
			epoch++
			afterDraw(true)  // the clear of the take-over legitimately wrote every cell in this block …
			markAllChanged() // … and the next Show repaints every cell (the buffer was re-created)
			pendingUnlock = map[[2]int]bool{}
			lockSnap, lockEpoch, lockLead = map[[2]int]emuCell{}, map[[2]int]int{}, map[[2]int]bool{}
			oracleOnly = "SKIP suspend/resume history: judged by the oracle only (byte-exact correspondence of such histories: engine modes)"
			tags["suspend-resume"] = true
		}
	}
	// ---- oracle on the emulator's view of what was written, before Fini ----
	kv, cells, dump := emuNow()
	addF := func(class, format string, a ...interface{}) {
		if len(res.Findings) < 4 {
			res.Findings = append(res.Findings, h.Finding{Class: class, Msg: fmt.Sprintf(format, a...)})
		}
	}
	if strings.HasPrefix(dump, "ref-error") || strings.HasPrefix(dump, "bad-") {
		addF("ref-unavailable", "reference emulator: %s", dump)
	} else {
		// C09: the stream is well-formed
		if m := kv["malformed"]; m != "" && !strings.HasPrefix(m, "0") {
			addF("malformed-output", "reference tokenizer complains: %s", m)
		}
		if kv["ground"] == "0" {
			addF("incomplete-sequence", "output ends inside a control sequence")
		}
		trick := cornerTrick(ti)
		if utf8loc && lastDraw && sh.trusted && kv["size"] == fmt.Sprintf("%dx%d", sh.w, sh.h) && len(cells) == sh.w*sh.h {
			tags["judged"] = true
			// C01: display = logical screen
			for y := 0; y < sh.h; y++ {
				covered := false
				// Overlapping wide runes beside a locked cell: which of them "owns" a column is not fixed by the statement
				// (a wide rune left of a locked cell is shown one column wide, so the locked cell's own wide rune then
				// covers the next column).  Only cells that are a cell of their own in BOTH readings are judged.
				ownNarrow := heads(y, true)
				for x := 0; x < sh.w; x++ {
					k := [2]int{x, y}
					c := get(x, y)
					ec := cells[y*sh.w+x]
					wd := widthOf(c.main)
					if covered {
						covered = false
						continue // hidden right half of a wide rune: not a cell of its own on the display
					}
					if !ownNarrow[x] {
						tags["layout-ambiguous-skipped"] = true
						if wd > 1 && x+wd <= sh.w {
							covered = true
						}
						continue
					}
					wide := wd > 1 && x+wd <= sh.w
					if wide {
						covered = true
					}
					if sh.locked[k] {
						continue
					}
					st := c.style
					pen := ""
					if st == (StyleF{}) {
						if sh.dflt == nil {
							pen = "?,?,?,?,?,?"
						} else {
							pen = expectPen(*sh.dflt, ti, der, truecolor)
						}
					} else {
						pen = expectPen(st, ti, der, truecolor)
					}
					var want []string
					// a wide rune whose right half is a locked cell cannot be shown without writing to the locked cell:
					// it is shown as a blank (the policy of the last column) — or still as the glyph painted before
					// the cell was locked
					cut := wide && sh.locked[[2]int{x + 1, y}]
					if cut {
						tags["wide-left-of-locked"] = true
					}
					if wd > 1 && !wide {
						want = []string{"32"} // wide rune in the last column: a blank
					} else {
						m := drawObsRune(c.main)
						if !validScalar(m) {
							m = 0xFFFD
						}
						want = []string{strconv.Itoa(m)}
						for _, r := range c.comb {
							want = append(want, strconv.Itoa(r))
						}
					}
					got := ec.runes
					if got == "-" {
						got = "32"
					}
					if cut && got == "32" && !strings.Contains(ec.flags, "g") && penMatch(pen, ec.pen) {
						tags["wide-left-of-locked-blank"] = true
						continue
					}
					if strings.Contains(ec.flags, "g") || got != strings.Join(want, ",") || !penMatch(pen, ec.pen) {
						addF("display-mismatch", "cell (%d,%d): terminal shows %s/%s/%s, application set rune %d comb %v style %s (want %s/%s)%s",
							x, y, ec.runes, ec.pen, ec.flags, c.main, c.comb, c.style, strings.Join(want, ","), pen, c.byFill())
					}
					// shown as a blank: the base glyph is a space (the cell's own zero-width combining marks may follow it)
					if mustBeBlank(c.main) && strings.SplitN(got, ",", 2)[0] != "32" {
						addF("payload-format-char-shown", "cell (%d,%d) holds U+%04X (control / bidi / invisible format character) as primary rune; the terminal shows %s instead of a blank%s", x, y, c.main, ec.runes, c.byFill())
					}
					if wide && x+1 < sh.w && !sh.locked[[2]int{x + 1, y}] && !strings.Contains(cells[y*sh.w+x+1].flags, "c") {
						addF("wide-not-two-columns", "cell (%d,%d) holds a wide rune but (%d,%d) is not its right half on the terminal", x, y, x+1, y)
					}
				}
			}
			// cursor
			if sh.cx >= 0 && sh.cy >= 0 && sh.cx < sh.w && sh.cy < sh.h {
				if kv["cursor"] != fmt.Sprintf("%d,%d", sh.cx, sh.cy) || modeOf(kv["modes"], "cv") == "0" {
					addF("cursor-wrong", "cursor requested at (%d,%d): terminal has cursor=%s visible=%s", sh.cx, sh.cy, kv["cursor"], modeOf(kv["modes"], "cv"))
				}
			} else if ti.HideCursor != "" {
				if modeOf(kv["modes"], "cv") != "0" {
					addF("cursor-not-hidden", "cursor requested off-screen but the terminal shows it at %s", kv["cursor"])
				}
			} else if kv["cursor"] != fmt.Sprintf("%d,%d", sh.w-1, sh.h-1) {
				addF("cursor-not-parked", "cursor cannot be hidden and is at %s instead of the bottom-right corner", kv["cursor"])
			}
		}
		// C13: a locked cell keeps what the terminal showed when it was locked
		if len(cells) == sh.w*sh.h && kv["size"] == fmt.Sprintf("%dx%d", sh.w, sh.h) {
			for k := range sh.locked {
				snap, ok := lockSnap[k]
				if !ok || lockEpoch[k] != epoch || !inr(k[0], k[1]) {
					continue
				}
				ec := cells[k[1]*sh.w+k[0]]
				if strings.Contains(snap.flags, "c") && !strings.Contains(ec.flags, "c") && ec.runes == "-" {
					// when it was locked the cell was the right half of its neighbour's wide glyph; the neighbour has been
					// repainted with something narrower and the terminal itself erased the orphaned half: no payload
					// was written to the locked cell
					tags["locked-orphan-half-erased"] = true
					continue
				}
				if lockLead[k] && !sh.locked[[2]int{k[0] + 1, k[1]}] && ec.runes == "-" && !strings.Contains(ec.flags, "c") {
					// the mirror image: the locked cell showed the left half of a wide glyph whose right half lies in an
					// unlocked cell; that cell has been painted (as it must be) and the terminal erased the orphaned half
					tags["locked-orphan-half-erased"] = true
					continue
				}
				if ec.runes != snap.runes || ec.pen != snap.pen || strings.Contains(ec.flags, "c") != strings.Contains(snap.flags, "c") {
					addF("locked-cell-overpainted", "cell (%d,%d) is locked and showed %s/%s/%s when it was locked; the terminal now shows %s/%s/%s (block %d)",
						k[0], k[1], snap.runes, snap.pen, snap.flags, ec.runes, ec.pen, ec.flags, ec.stamp)
				}
			}
		}
		// C13: only changed cells receive payload (write stamps of the reference emulator)
		if len(cells) == sh.w*sh.h && kv["size"] == fmt.Sprintf("%dx%d", sh.w, sh.h) && sh.trusted {
			for y := 0; y < sh.h; y++ {
				for x := 0; x < sh.w; x++ {
					k := [2]int{x, y}
					ec := cells[y*sh.w+x]
					if ec.stamp <= 1 || sh.allowed[k][ec.stamp] {
						continue
					}
					if trick && cornerNeighbour(sh.w, sh.h, x, y, func(a, b int) bool { return widthOf(get(a, b).main) > 1 }) {
						continue // the neighbour used to paint the bottom-right corner (the property's own exception)
					}
					if orphanErased(cells, sh.w, x, y) {
						tags["orphan-half-erased"] = true
						continue
					}
					cls := "unchanged-cell-written"
					if get(x, y).fillSub {
						cls = "unchanged-cell-written:fill-substitution"
					}
					addF(cls, "cell (%d,%d) was last written in block %d although it had not changed before that draw (locked=%v)", x, y, ec.stamp, sh.locked[k])
				}
			}
		}
	}
	scr.Fini()
	<-done
	record("z", tty.TakeWrites())
	// C09 "no stray parameter-language residue": padding specifications are instructions to the output routine (delays),
	// never bytes for the terminal; a tokenizer accepts `$<10/>` as five printable characters, so this is judged on the
	// bytes themselves, over everything the screen wrote (Init, every draw, Sync, Fini).  Sound because the application
	// supplied no '$' in this case (otherwise the same bytes could be legitimate cell content: not judged).
	if appDollar {
		tags["padding-residue-not-judged"] = true
	} else {
		for _, wb := range written {
			if m := padSpecRe.FindString(wb[1]); m != "" && len(res.Findings) < 6 {
				res.Findings = append(res.Findings, h.Finding{Class: "padding-residue", Msg: fmt.Sprintf(
					"the bytes written by op %q contain the terminfo padding specification %q (entry %s%s): it was sent to the terminal instead of being consumed by the output routine",
					wb[0], m, name, map[bool]string{true: ", padding form " + padForm, false: ""}[padForm != ""])})
				break
			}
		}
		if strings.Contains(ti.Clear+ti.AttrOff+ti.SetCursor+ti.EnterAcs+ti.ExitAcs+ti.Bold+ti.Reverse+ti.CursorBack1, "$<") {
			tags["padding-entry-judged"] = true
		}
	}
	res.Obs = strings.Join(obs, " ")
	if padForm != "" {
		res.Obs = "SKIP description with rewritten padding forms: judged by the oracle only"
	}
	if !utf8loc {
		res.Obs = "SKIP 8-bit locale: judged by the oracle only (the byte-level model is instantiated for UTF-8)"
	}
	if oracleOnly != "" {
		res.Obs = oracleOnly
	}
	if staleVariant {
		res.Obs = "SKIP line recorded on a tree of another variant (locked-neighbour guard / Fill width): judged by the oracle only"
	}
	for t := range tags {
		res.Tags = append(res.Tags, t)
	}
	return res
}

// mustBeBlank: primary runes the property says are shown as blanks, decided from the Go standard library's Unicode
// tables (independent of go-runewidth): C0, DEL, C1, invalid code points, bidi controls, zero-width and invisible format
// characters, line / paragraph separators, tag characters.
func mustBeBlank(r int) bool {
	if r < 0x20 || r == 0x7f || (r >= 0x80 && r <= 0x9f) || !validScalar(r) {
		return true
	}
	rr := rune(r)
	if unicode.Is(unicode.Bidi_Control, rr) || unicode.Is(unicode.Zl, rr) || unicode.Is(unicode.Zp, rr) {
		return true
	}
	switch {
	case r == 0xAD, r >= 0x200B && r <= 0x200D, r >= 0x2060 && r <= 0x2064, r == 0xFEFF, r == 0xE0001, r >= 0xE0020 && r <= 0xE007F:
		return true
	}
	return false
}

// orphanErased: the cell received no payload: it was one half of a two-column glyph whose other half has just been
// overwritten (payload in the neighbouring column, same block), and the terminal itself erased the orphaned half — the
// cell is empty, is not the right half of anything, and carries the neighbour's stamp.  "Writes cell content only to …"
// (C13) speaks of the payload the library sends, not of that side effect inside the terminal.
func orphanErased(cells []emuCell, w, x, y int) bool {
	ec := cells[y*w+x]
	if ec.runes != "-" || strings.Contains(ec.flags, "c") {
		return false
	}
	for _, nx := range []int{x - 1, x + 1} {
		if nx >= 0 && nx < w {
			if n := cells[y*w+nx]; n.stamp == ec.stamp && n.runes != "-" {
				return true
			}
		}
	}
	return false
}

func sameInts(a, b []int) bool {
	if len(a) != len(b) {
		return false
	}
	for i := range a {
		if a[i] != b[i] {
			return false
		}
	}
	return true
}

func validScalar(r int) bool { return r >= 0 && r <= 0x10FFFF && !(r >= 0xD800 && r <= 0xDFFF) }

// ---- generator ----

var drawRunes = []int{'a', 'b', 'z', '#', ' ', 0x4e16, 0x754c, 0xff21, 0x1f600, 0xe9, 0x2500, 0x25c6, 0, 7, 27, 0x7f, 0x85, 0x9b, 0x200b, 0x202e, 0xad, -1, 0x110000, 0xfffd, 0xd800}
var drawComb = []int{0x301, 0x308, 0x20dd, 0x200d} // zero-width, non-control marks (by the library's width table)

func drawStyle(r *h.Rand) StyleF {
	f := RandStyle(r)
	if f.Attrs&(1<<31) != 0 {
		f.Attrs &^= 1 << 31
	}
	return f
}

// fitOps renders the values of the external colour fitting (go-colorful through tcell.FindColor, called directly)
// for the colours a case uses, as two pseudo-ops the Lean driver reads and the implementation ignores.
func fitOps(name string, cols map[uint64]bool) []string {
	ti := terminfo.VerifEntries()[name]
	nc := ti.Colors
	if nc > 256 {
		nc = 256
	}
	palette := make([]tcell.Color, nc)
	for i := range palette {
		palette[i] = tcell.Color(i) | tcell.ColorValid
	}
	var keys []uint64
	for c := range cols {
		if tcell.Color(c).Valid() {
			keys = append(keys, c)
		}
	}
	sort.Slice(keys, func(i, j int) bool { return keys[i] < keys[j] })
	var a, b []string
	for _, c := range keys {
		a = append(a, fmt.Sprintf("%d:%d", c, uint64(tcell.FindColor(tcell.Color(c), palette))))
		b = append(b, fmt.Sprintf("%d:%d", c, uint64(tcell.FindColor(tcell.Color(c), []tcell.Color{tcell.ColorBlack, tcell.ColorWhite}))))
	}
	if len(a) == 0 {
		return nil
	}
	return []string{"FIT " + strings.Join(a, ","), "FIT0 " + strings.Join(b, ",")}
}

// genDrawMatrix: one fixed case per ECMA entry and colour mode that paints a cell in each underline style (with palette,
// RGB and default underline colour), with each attribute alone and all together, with palette / bright / 256 / RGB
// colours, and with a hyperlink (with and without id) followed by a plain cell, then Shows twice.  A slip in one
// per-entry capability string (or in the code that picks it) is then judged by the emulator oracle on a concrete
// input, in every tier, whatever the seed.
// genDrawPadding: fixed cases (every tier, every seed) on the ECMA entries that carry padding in a capability the draw /
// engage / disengage paths emit (enumerated from the database: vt100, vt102, vt220, vt400, vt420, wy99…): the entry as it
// is AND with every padding form of terminfo(5) (drawPadForms: integer, one decimal, `*`, `/`, both) — attributes,
// colours, cursor motion, a line-drawing rune (ACS in the 8-bit locale), Show, Sync (clear), Show, Fini.
func genDrawPadding(g *h.Gen) {
	forms := append([]string{""}, drawPadForms...)
	for fi, form := range forms { // the built-in descriptions as they are first, then the rewritten forms
		for ei, name := range paddedEcmaEntries() {
			if form != "" && (fi+ei)%3 != 0 && !strings.Contains(form, []string{"/", "*", "."}[ei%3]) {
				continue // every form on a third of the entries in rotation; `/`, `*`, decimal forms on one more entry each
			}
			tok := name
			if form != "" {
				tok += "%pad=" + h.Hex([]byte(form))
			}
			for _, cs := range []string{"", "@ISO8859-1"} {
				ops := []string{
					"S 0 0 97 - " + StyleF{Attrs: 1}.String(), "S 1 0 98 - " + StyleF{Attrs: 4}.String(), "S 2 0 9472 - " + StyleF{Attrs: 2}.String(),
					"S 3 1 99 - " + StyleF{Attrs: 16, UlStyle: 1}.String(), "S 0 1 9474 - 0,0,0,0,0,-,-", "C 1 1", "W",
					"S 2 1 100 - 0,0,0,0,0,-,-", "W", "N", "S 0 0 101 - 0,0,0,0,0,-,-", "C -1 -1", "W"}
				g.Emit("draw %s 0 5 2 %s", withVariant(tok+cs), strings.Join(ops, "; "))
			}
		}
	}
}

func genDrawMatrix(g *h.Gen) {
	genDrawPadding(g)
	for _, name := range ecmaEntries() {
		for tc := 0; tc < 2; tc++ {
			var ops []string
			cols := map[uint64]bool{}
			put := func(x, y, m int, f StyleF) {
				cols[f.Fg], cols[f.Bg], cols[f.UlColor] = true, true, true
				ops = append(ops, fmt.Sprintf("S %d %d %d - %s", x, y, m, f))
			}
			val := func(i int) uint64 { return uint64(tcell.PaletteColor(i)) }
			rgb := uint64(tcell.NewRGBColor(18, 52, 86))
			for ul := 0; ul <= 5; ul++ { // row 0: underline styles, coloured three ways
				put(ul, 0, 'a'+ul, StyleF{Fg: val(2), Bg: val(0), UlStyle: ul, UlColor: []uint64{val(1), rgb, uint64(tcell.ColorReset), val(9), val(200), 0}[ul]})
			}
			for b := 0; b < 7; b++ { // row 1: each attribute alone, then all
				put(b, 1, 'A'+b, StyleF{Fg: val(7), Bg: val(4), Attrs: 1 << uint(b)})
			}
			put(7, 1, 'H', StyleF{Fg: val(7), Bg: val(4), Attrs: 127})
			for i, c := range []uint64{val(1), val(9), val(15), val(16), val(87), val(255), rgb, uint64(tcell.ColorReset)} { // row 2: colours
				put(i, 2, '0'+i, StyleF{Fg: c, Bg: val(0)})
			}
			for i, c := range []uint64{val(1), val(9), val(15), val(16), val(87), val(255), rgb, uint64(tcell.ColorReset)} { // row 3: backgrounds
				put(i, 3, 'p'+i, StyleF{Fg: val(7), Bg: c})
			}
			put(0, 4, 'u', StyleF{Fg: val(3), Bg: val(0), Url: "https://example.com/x"})
			put(1, 4, 'v', StyleF{Fg: val(3), Bg: val(0), Url: "https://example.com/x", UrlId: "id=k"})
			put(2, 4, 'w', StyleF{Fg: val(3), Bg: val(0)})
			put(7, 4, 'z', StyleF{Fg: val(3), Bg: val(0), Url: "http://last"}) // the frame ends inside a hyperlink
			ops = append(ops, "W", "S 0 0 98 - "+StyleF{Fg: val(2), Bg: val(0)}.String(), "W", "W")
			ops = append(ops, fitOps(name, cols)...)
			g.Emit("draw %s %d 8 5 %s", withVariant(name), tc, strings.Join(ops, "; "))
			genDrawColourSweep(g, name, tc)
		}
	}
}

// drawSweepPalette: every basic / bright palette index and a sample of the 256-colour table (cube corners, cube interior,
// both ends of the grey ramp, the entries either side of every boundary 15|16, 87|88, 231|232).
var drawSweepPalette = []int{16, 17, 21, 46, 51, 59, 87, 88, 100, 124, 145, 196, 201, 226, 231, 232, 233, 240, 244, 250, 254, 255}

// drawSweepRGB: direct colours: the primaries, black / white, the exact values of palette entries 1, 8, 9 and 244
// (so that fitting to the table has an exact answer), and values between entries.
var drawSweepRGB = [][3]int32{{0, 0, 0}, {255, 255, 255}, {255, 0, 0}, {0, 255, 0}, {0, 0, 255}, {128, 0, 0}, {128, 128, 128}, {192, 192, 192},
	{127, 127, 127}, {1, 2, 3}, {250, 128, 114}, {95, 135, 175}, {8, 8, 8}, {238, 238, 238}, {18, 52, 86}, {254, 254, 1}}

// genDrawColourSweep: one fixed case per ECMA entry and colour mode in which the foreground, the background and the
// underline colour each run over ALL of palette 0..15, the sample drawSweepPalette of 16..255 and the direct colours
// drawSweepRGB, one cell per colour.  On an entry whose colour table holds 8, 16 or 88 entries every index at or above
// the table size has to be fitted to the nearest table entry (property C01: "nearest palette entry otherwise"); the
// oracle computes that entry with tcell.FindColor on a palette of its own (colSel), never through the screen.
func genDrawColourSweep(g *h.Gen, name string, tc int) {
	var colours []uint64
	for i := 0; i < 16; i++ {
		colours = append(colours, uint64(tcell.PaletteColor(i)))
	}
	for _, i := range drawSweepPalette {
		colours = append(colours, uint64(tcell.PaletteColor(i)))
	}
	for _, c := range drawSweepRGB {
		colours = append(colours, uint64(tcell.NewRGBColor(c[0], c[1], c[2])))
	}
	const w = 18
	rows := (len(colours) + w - 1) / w
	var ops []string
	cols := map[uint64]bool{}
	put := func(x, y, m int, f StyleF) {
		cols[f.Fg], cols[f.Bg], cols[f.UlColor] = true, true, true
		ops = append(ops, fmt.Sprintf("S %d %d %d - %s", x, y, m, f))
	}
	black, silver := uint64(tcell.PaletteColor(0)), uint64(tcell.PaletteColor(7))
	for i, c := range colours {
		x, y := i%w, i/w
		put(x, y, 'a'+i%26, StyleF{Fg: c, Bg: black})
		put(x, rows+y, 'A'+i%26, StyleF{Fg: silver, Bg: c})
		put(x, 2*rows+y, '0'+i%10, StyleF{Fg: silver, Bg: black, UlStyle: 1 + i%5, UlColor: c})
	}
	// the same colours again after the first frame (a colour fitted once may be remembered: the second use must agree)
	ops = append(ops, "W")
	for i, c := range colours {
		if i%3 == 0 {
			put(i%w, i/w, 'z', StyleF{Fg: colours[(i+1)%len(colours)], Bg: c})
		}
	}
	ops = append(ops, "W")
	ops = append(ops, fitOps(name, cols)...)
	g.Emit("draw %s %d %d %d %s", withVariant(name), tc, w, 3*rows, strings.Join(ops, "; "))
}

// genDrawLockedWide: directed histories for the locked clause of C13 — a wide rune left of a locked cell that itself holds
// a wide rune (or a narrow one), followed by idle Shows, an unlock and more Shows.  The loop of draw() skips by the width
// drawCell returns; these cases make that width differ between the Show that paints the left rune and the idle ones.
func genDrawLockedWide(g *h.Gen) {
	for _, name := range []string{"xterm-256color", "linux", "sun-color"} {
		for _, inner := range []int{30028, 98} { // what the locked cell holds: wide / narrow
			for _, x := range []int{0, 1} {
				ops := []string{
					fmt.Sprintf("S %d 0 %d - 0,0,0,0,0,-,-", x+1, inner),
					fmt.Sprintf("S %d 0 97 - 0,0,0,0,0,-,-", x+3),
					"W",
					fmt.Sprintf("L %d 0 1 1 1", x+1),
					fmt.Sprintf("S %d 0 19990 - 0,0,0,0,0,-,-", x),
					"W", "W", "W",
					fmt.Sprintf("L %d 0 1 1 0", x+1),
					"W", "W",
				}
				g.Emit("draw %s 1 6 2 %s", withVariant(name), strings.Join(ops, "; "))
				// the same, but the lock is released through a LARGER region (the whole row / the whole screen / a region that
				// starts left of the locked cell): every cell of it is repainted by the next Show, the wide rune included
				for k, un := range []string{"L 0 0 6 1 0", "L 0 0 6 2 0", fmt.Sprintf("L %d 0 3 1 0", x)} {
					ops2 := append(append([]string{}, ops[:8]...), un, "W", "W")
					if (k+x)%2 == 0 {
						ops2 = append(ops2, fmt.Sprintf("S %d 0 19990 - 0,0,0,0,0,-,-", x), "W")
					}
					g.Emit("draw %s 1 6 2 %s", withVariant(name), strings.Join(ops2, "; "))
				}
			}
		}
	}
}

// genDrawWideCover: directed multi-frame histories around a column that is covered by a wide rune and later uncovered
// (C01: the display equals the logical screen after every Show; C13: nothing else is written).  Frame 1 paints a narrow
// cell at x+1; frame 2 puts a wide rune at x (x+1 is now hidden) ; frame 3 makes the wide rune go away or stores into the
// hidden column, by every route the API offers:
//   fill-same   Fill with exactly the rune and style x+1 held           clear-blank  x+1 held a blank: Clear()
//   wide-left   another wide rune at x-1 (it covers x, x+1 reappears)    narrow       SetContent of a narrow rune at x
//   hid-same / hid-diff   SetContent at x+1 only, identical / different content (the wide rune stays: nothing to paint)
//   row-same    every column of the row stored again with what it holds (an application redrawing the line)
//   wide-same   the wide rune itself stored again
// then Shows twice; some variants go on to remove the wide rune after the store into the hidden column.  Every x up to
// the last two columns, first and last row, with a locked cell elsewhere in the row / the hidden column locked meanwhile.
func genDrawWideCover(g *h.Gen) {
	const w, hh = 6, 2
	d := "0,0,0,0,0,-,-"
	st1 := StyleF{Fg: uint64(tcell.PaletteColor(2)), Bg: uint64(tcell.PaletteColor(4))}.String()
	st2 := StyleF{Fg: uint64(tcell.PaletteColor(3)), Bg: uint64(tcell.PaletteColor(0)), Attrs: 1}.String()
	n := 0
	var ents []string
	for _, name := range []string{"xterm-256color", "linux", "sun-color", "vt220", "screen"} {
		if terminfo.VerifEntries()[name] != nil {
			ents = append(ents, name)
		}
	}
	for pass := 0; pass < 2; pass++ { // every combination on two of the entries, in rotation
		for _, x := range []int{0, 1, 2, w - 3, w - 2} {
			for _, variant := range []string{"fill-same", "clear-blank", "wide-left", "narrow", "hid-same", "hid-diff", "row-same", "wide-same"} {
				for _, lock := range []string{"", "other", "hidden"} {
					n++
					name := ents[(n+2*pass)%len(ents)]
					if lock != "" && (n+pass)%3 != 0 { // the lock variants on a third of the combinations
						continue
					}
					y := (n / 3) % hh
					under, ust := 'q', st1
					if variant == "clear-blank" {
						under, ust = ' ', d
					}
					var ops []string
					route := 0 // the stores of frame 3 go through SetContent(nil) / SetContent([]rune{}) / SetCell in rotation
					S := func(x, m int, st string) { ops = append(ops, drawStoreOp(route, x, y, m, nil, st)) }
					if variant == "clear-blank" {
						ops = append(ops, "F 32 "+d)
					}
					if x > 0 {
						S(x-1, 'p', st2)
					}
					S(x+1, int(under), ust)
					if x+2 < w {
						S(x+2, 'r', st2)
					}
					ops = append(ops, "W")
					S(x, 0x4e16, st2)
					ops = append(ops, "W")
					lx := -1
					switch lock {
					case "other":
						lx = (x + 3) % w
					case "hidden":
						lx = x + 1
					}
					if lx >= 0 {
						ops = append(ops, fmt.Sprintf("L %d %d 1 1 1", lx, y))
					}
					route = n + pass
					switch variant {
					case "fill-same":
						ops = append(ops, fmt.Sprintf("F %d %s", under, ust))
					case "clear-blank":
						ops = append(ops, "F 32 "+d)
					case "wide-left":
						if x == 0 {
							continue
						}
						S(x-1, 0x754c, st1)
					case "narrow":
						S(x, 'n', st2)
					case "hid-same":
						S(x+1, int(under), ust)
					case "hid-diff":
						S(x+1, 'D', st2)
					case "row-same":
						for c := 0; c < w; c++ {
							switch {
							case c == x:
								S(c, 0x4e16, st2)
							case c == x+1:
								S(c, int(under), ust)
							case c == x-1 && x > 0:
								S(c, 'p', st2)
							case c == x+2:
								S(c, 'r', st2)
							}
						}
					case "wide-same":
						S(x, 0x4e16, st2)
					}
					ops = append(ops, "W", "W")
					if lx >= 0 {
						ops = append(ops, fmt.Sprintf("L %d %d 1 1 0", lx, y), "W")
					}
					if strings.HasPrefix(variant, "hid-") || variant == "row-same" || variant == "wide-same" {
						// … and now the wide rune goes: the hidden column has to show what was stored there
						if n%2 == 0 {
							S(x, 'n', st2)
						} else {
							ops = append(ops, fmt.Sprintf("F %d %s", under, ust))
						}
						ops = append(ops, "W", "W")
					}
					cols := map[uint64]bool{}
					for _, f := range []string{st1, st2} {
						sf := ParseStyleF(f)
						cols[sf.Fg], cols[sf.Bg] = true, true
					}
					ops = append(ops, fitOps(name, cols)...)
					g.Emit("draw %s %d %d %d %s", withVariant(name), n%2, w, hh, strings.Join(ops, "; "))
				}
			}
		}
	}
}

// genDrawLockHistories: directed lock / unlock region sequences (C13 "never written while locked and repainted by the
// first Show() after being unlocked"; the statement knows one lock state per cell, not a nesting depth): the same region
// locked twice then unlocked once, overlapping regions locked one after the other then unlocked by one call covering
// both, an unlock of cells that were never locked, lock - unlock - lock, an unlock of part of a region; content changes
// while locked; narrow and wide runes inside, and a wide rune just left of the region.
func genDrawLockHistories(g *h.Gen) {
	const w, hh = 6, 2
	d := "0,0,0,0,0,-,-"
	st := StyleF{Fg: uint64(tcell.PaletteColor(6)), Bg: uint64(tcell.PaletteColor(0))}.String()
	n := 0
	var ents []string
	for _, name := range []string{"xterm-256color", "linux", "sun-color", "vt220"} {
		if terminfo.VerifEntries()[name] != nil {
			ents = append(ents, name)
		}
	}
	for pass := 0; pass < 2; pass++ { // every combination on two of the entries, in rotation
		for _, x := range []int{0, 1, 3, w - 2} {
			for _, variant := range []string{"twice", "overlap", "never", "relock", "partial", "thrice-two-unlocks"} {
				for _, inner := range []int{'k', 0x4e16} { // what the region's first cell holds
					for _, left := range []int{'l', 0x754c} { // what the cell left of the region holds
						n++
						name := ents[(n+2*pass+1)%len(ents)]
						if left != 'l' && (x == 0 || n%2 == 0) {
							continue
						}
						y := n % hh
						var ops []string
						S := func(x, m int, s string) { ops = append(ops, fmt.Sprintf("S %d %d %d - %s", x, y, m, s)) }
						L := func(x, lw, lock int) { ops = append(ops, fmt.Sprintf("L %d %d %d 1 %d", x, y, lw, lock)) }
						if x > 0 {
							S(x-1, left, d)
						}
						S(x, inner, d)
						if x+2 < w {
							S(x+2, 'm', st)
						}
						ops = append(ops, "W")
						change := func() { // content changes inside (and beside) the region
							S(x, 'K', st)
							S(x+1, 'J', st)
						}
						switch variant {
						case "twice":
							L(x, 2, 1)
							change()
							ops = append(ops, "W")
							L(x, 2, 1)
							L(x, 2, 0)
						case "overlap":
							L(x, 2, 1)
							L(x+1, 2, 1)
							change()
							ops = append(ops, "W")
							L(x, 3, 0)
						case "never":
							change()
							ops = append(ops, "W")
							L(x, 2, 0)
						case "relock":
							L(x, 2, 1)
							L(x, 2, 0)
							L(x, 2, 1)
							change()
							ops = append(ops, "W", "W")
							L(x, 2, 0)
						case "partial":
							L(x, 2, 1)
							L(x, 2, 1)
							change()
							ops = append(ops, "W")
							L(x+1, 1, 0)
							ops = append(ops, "W")
							L(x, 1, 0)
						case "thrice-two-unlocks":
							L(x, 2, 1)
							L(x, 1, 1)
							L(x, 2, 1)
							change()
							L(x, 2, 0)
							ops = append(ops, "W")
							L(x, 2, 0)
						}
						ops = append(ops, "W", "W")
						cols := map[uint64]bool{}
						sf := ParseStyleF(st)
						cols[sf.Fg], cols[sf.Bg] = true, true
						ops = append(ops, fitOps(name, cols)...)
						g.Emit("draw %s %d %d %d %s", withVariant(name), n%2, w, hh, strings.Join(ops, "; "))
					}
				}
			}
		}
	}
}

// drawStoreOp renders one store of (main, comb, style) at (x,y) through one of the routes the public API offers:
//   0  SetContent with a nil combining slice for the empty list        (`S … - …`)
//   1  SetContent with an empty slice that is not nil                  (`S … = …`)
//   2  Screen.SetCell(x, y, style, main, comb…)                        (`SC …`)
// The stored content is the same list of runes on every route (the property speaks of "rune, combining runes or style").
func drawStoreOp(route, x, y, m int, comb []int, st string) string {
	switch route % 3 {
	case 2:
		rs := []string{strconv.Itoa(m)}
		for _, c := range comb {
			rs = append(rs, strconv.Itoa(c))
		}
		return fmt.Sprintf("SC %d %d %s %s", x, y, st, strings.Join(rs, " "))
	case 1:
		return fmt.Sprintf("S %d %d %d %s %s", x, y, m, showComb(comb, true), st)
	}
	return fmt.Sprintf("S %d %d %d %s %s", x, y, m, h.ShowIntList(comb), st)
}

// genDrawRestoreIdentical: C13 "including sets that re-store identical content": a cell (narrow / wide / with combining
// runes, first / last column) is painted through one route of the API and stored again, unchanged, through every route
// (drawStoreOp), then shown, stored again, shown twice.  No Show after the first may write anything.
func genDrawRestoreIdentical(g *h.Gen) {
	const w, hh = 5, 2
	st := StyleF{Fg: uint64(tcell.PaletteColor(5)), Bg: uint64(tcell.PaletteColor(0))}
	n := 0
	var ents []string
	for _, name := range []string{"xterm-256color", "linux", "vt220", "sun-color", "screen-256color"} {
		if terminfo.VerifEntries()[name] != nil {
			ents = append(ents, name)
		}
	}
	for _, cell := range []struct {
		m    int
		comb []int
	}{{'a', nil}, {0x4e16, nil}, {'e', []int{0x301}}, {0xe9, nil}, {' ', nil}} {
		for _, x := range []int{0, w - 1} {
			for first := 0; first < 3; first++ {
				for again := 0; again < 3; again++ {
					n++
					name := ents[n%len(ents)]
					y := n % hh
					sty := []string{"0,0,0,0,0,-,-", st.String()}[(n/2)%2]
					ops := []string{drawStoreOp(first, x, y, cell.m, cell.comb, sty), fmt.Sprintf("S %d %d 113 - %s", (x+2)%w, 1-y, sty), "W",
						drawStoreOp(again, x, y, cell.m, cell.comb, sty), "W",
						drawStoreOp(again+1, x, y, cell.m, cell.comb, sty), drawStoreOp(again, x, y, cell.m, cell.comb, sty), "W", "W"}
					cols := map[uint64]bool{st.Fg: true, st.Bg: true}
					ops = append(ops, fitOps(name, cols)...)
					g.Emit("draw %s %d %d %d %s", withVariant(name), n%2, w, hh, strings.Join(ops, "; "))
				}
			}
		}
	}
}

// genDrawRevisit: a cell is painted, then stored again with exactly ONE component minimally changed — one combining rune
// replaced (same count), the list reordered, shortened or extended, one style field (MutateStyle), the primary rune, or
// nothing at all — and shown again, then an idle Show.  Redraw shortcuts that compare or alias the remembered content
// wrongly only fail on such near-identical rewrites; C01 judges the display, C13 the writes of the idle / identical case.
func genDrawRevisit(g *h.Gen) {
	r := g.R
	ents := []string{"xterm-256color", "xterm-kitty", "linux", "vt220", "screen-256color", "sun-color"}
	n := g.N(160, 4000)
	for i := 0; i < n; i++ {
		name := ents[i%len(ents)]
		if terminfo.VerifEntries()[name] == nil {
			continue
		}
		w, hh := 6, 2
		x, y := r.Range(0, w-1), r.Range(0, hh-1)
		main := h.Pick(r, []int{'e', 'a', 0x4e16, 0xe9, 'Z'})
		comb := [][]int{nil, {0x301}, {0x301, 0x308}, {0x308, 0x20dd, 0x301}}[r.Intn(4)]
		st := drawStyle(r)
		if r.Chance(30) {
			st.Url, st.UrlId = "http://a", "id=1"
		}
		cols := map[uint64]bool{}
		var ops []string
		set := func(m int, c []int, f StyleF) {
			cols[f.Fg], cols[f.Bg], cols[f.UlColor] = true, true, true
			// through SetContent with a nil / an empty non-nil combining slice, or through SetCell (drawStoreOp)
			ops = append(ops, drawStoreOp(r.Intn(3), x, y, m, c, f.String()))
		}
		set(main, comb, st)
		ops = append(ops, "W")
		for k := r.Range(1, 3); k > 0; k-- {
			c2 := append([]int{}, comb...)
			m2, st2 := main, st
			switch r.Intn(8) {
			case 0:
				if len(c2) > 0 {
					c2[r.Intn(len(c2))] = h.Pick(r, []int{0x300, 0x302, 0x303, 0x308, 0x301})
				}
			case 1:
				if len(c2) > 1 {
					c2[0], c2[len(c2)-1] = c2[len(c2)-1], c2[0]
				}
			case 2:
				if len(c2) > 0 {
					c2 = c2[:len(c2)-1]
				}
			case 3:
				c2 = append(c2, 0x302)
			case 4, 5:
				st2 = MutateStyle(r, st)
			case 6:
				m2 = h.Pick(r, []int{'e', 'a', 0x4e16, 0xe9, 'Z', 'q'})
			}
			set(m2, c2, st2)
			ops = append(ops, "W")
			main, comb, st = m2, c2, st2
		}
		ops = append(ops, "W")
		ops = append(ops, fitOps(name, cols)...)
		g.Emit("draw %s %d %d %d %s", withVariant(name), i%2, w, hh, strings.Join(ops, "; "))
	}
}

// genDrawCornerCover: the bottom-right-corner path of drawCell (auto-margin terminals with an insert-character string: the
// corner cell is written one column early and pushed right, then the cell that OWNS column w-2 is repainted) over layered
// wide / narrow content in the last columns of the last row: which cell owns column w-2 depends on the whole row (a wide rune
// at w-3 covers it; a stale wide rune stored under the right half of a newer one does not count), so every combination of
// wide / narrow stores at columns w-5 … w-2 is built up over two frames, then only the corner changes (C13: only the corner
// and the neighbour used to paint it may be written; C01: the row still reads as the application stored it).
func genDrawCornerCover(g *h.Gen) {
	r := g.R
	var ents []string
	for _, name := range []string{"sun-color", "cygwin", "beterm", "sun"} {
		if terminfo.VerifEntries()[name] != nil {
			ents = append(ents, name)
		}
	}
	if len(ents) == 0 {
		return
	}
	sts := []string{"0,0,0,0,0,-,-", StyleF{Fg: uint64(tcell.PaletteColor(2)), Bg: uint64(tcell.PaletteColor(4))}.String(),
		StyleF{Fg: uint64(tcell.PaletteColor(3)), Attrs: 1}.String()}
	cols := map[uint64]bool{uint64(tcell.PaletteColor(2)): true, uint64(tcell.PaletteColor(4)): true, uint64(tcell.PaletteColor(3)): true}
	n := 0
	emit := func(w, hh int, ops []string) {
		name := ents[n%len(ents)]
		n++
		ops = append(ops, fitOps(name, cols)...)
		g.Emit("draw %s %d %d %d %s", withVariant(name), n%2, w, hh, strings.Join(ops, "; "))
	}
	wides, narrows := []int{0x4e16, 0x754c, 0x3042}, []int{'a', 'b', 'c', 'd'}
	// exhaustive over (frame-1 kind, frame-2 kind) ∈ {none, narrow, wide}² at the three columns w-4, w-3, w-2 of the last row
	for code := 0; code < 729; code++ {
		if !g.Thorough() && code%3 != int(r.Intn(3)) { // a third of the combinations per quick run, rotating with the seed
			continue
		}
		w, hh := 6, 2
		y := hh - 1
		var ops []string
		c := code
		for frame := 0; frame < 2; frame++ {
			order := []int{w - 4, w - 3, w - 2}
			if frame == 1 { // the newer stores from the right, so that a wide rune at w-4 lands over an older one at w-3
				order = []int{w - 2, w - 3, w - 4}
			}
			for _, x := range order {
				k := c % 3
				c /= 3
				switch k {
				case 1:
					ops = append(ops, drawStoreOp(0, x, y, narrows[(x+frame)%len(narrows)], nil, sts[(x+frame)%len(sts)]))
				case 2:
					ops = append(ops, drawStoreOp(0, x, y, wides[(x+frame)%len(wides)], nil, sts[(x+frame+1)%len(sts)]))
				}
			}
			ops = append(ops, "W")
		}
		ops = append(ops, drawStoreOp(0, w-1, y, 'Z', nil, sts[1]), "W", "W", drawStoreOp(0, w-1, y, 'Y', nil, sts[2]), "W")
		emit(w, hh, ops)
	}
	// random layered histories on other widths
	for i := g.N(60, 2000); i > 0; i-- {
		w, hh := r.Range(3, 8), r.Range(1, 3)
		y := hh - 1
		var ops []string
		for frame := r.Range(2, 4); frame > 0; frame-- {
			for k := r.Range(1, 4); k > 0; k-- {
				x := r.Range(0, w-1)
				if r.Chance(70) && w > 4 {
					x = r.Range(w-5, w-1)
				}
				m := h.Pick(r, narrows)
				if r.Chance(50) {
					m = h.Pick(r, wides)
				}
				ops = append(ops, drawStoreOp(r.Intn(3), x, y, m, nil, h.Pick(r, sts)))
			}
			ops = append(ops, "W")
		}
		ops = append(ops, drawStoreOp(0, w-1, y, 'Z', nil, sts[1]), "W", "W")
		emit(w, hh, ops)
	}
}

// genDrawSuspendResume: the display after a Suspend/Resume cycle (op ZR).  The library drops the logical content at Suspend;
// what the application draws afterwards — the SAME content as before, other content, nothing — is what the terminal must show
// after the next Show, at the same window size and after a quiet size change during the suspension.
func genDrawSuspendResume(g *h.Gen) {
	r := g.R
	ents := []string{"xterm-256color", "linux", "vt100", "sun-color", "screen-256color", "xterm-kitty", "ansi", "vt220"}
	sts := []string{"0,0,0,0,0,-,-", StyleF{Fg: uint64(tcell.PaletteColor(2)), Bg: uint64(tcell.PaletteColor(4))}.String(), StyleF{Fg: uint64(tcell.PaletteColor(3)), Attrs: 1}.String()}
	cols := map[uint64]bool{uint64(tcell.PaletteColor(2)): true, uint64(tcell.PaletteColor(4)): true, uint64(tcell.PaletteColor(3)): true}
	n := 0
	for _, after := range []string{"same", "other", "nothing", "same-sync", "resized"} {
		for _, name := range ents {
			if terminfo.VerifEntries()[name] == nil {
				continue
			}
			n++
			w, hh := 5, 2
			frame := func(shift int) []string {
				return []string{drawStoreOp(0, 0, 0, 'a'+shift, nil, sts[1]), drawStoreOp(0, 2, 0, 0x4e16, nil, sts[2]), drawStoreOp(0, w-1, hh-1, 'z'-shift, nil, sts[0]),
					drawStoreOp(0, 1, 1, 'q', []int{0x301}, sts[(1+shift)%3])}
			}
			ops := append([]string{}, frame(0)...)
			ops = append(ops, "C 1 0", "W")
			if after == "resized" {
				ops = append(ops, "RQ 6 3")
			}
			ops = append(ops, "ZR")
			switch after {
			case "same", "resized":
				ops = append(ops, frame(0)...)
				ops = append(ops, "W")
			case "other":
				ops = append(ops, frame(1)...)
				ops = append(ops, "W")
			case "nothing":
				ops = append(ops, "W")
			case "same-sync":
				ops = append(ops, frame(0)...)
				ops = append(ops, "N")
			}
			ops = append(ops, "W")
			ops = append(ops, fitOps(name, cols)...)
			g.Emit("draw %s %d %d %d %s", withVariant(name), n%2, w, hh, strings.Join(ops, "; "))
		}
	}
	_ = r
}

// genDrawUnencodable: 8-bit locales — cells whose rune the charset cannot encode (shown as '?', as an ACS glyph or through a
// fallback string) are painted once: the idle Shows after it and an identical re-store write nothing (C13), and the display keeps
// showing the substitute (judged by the oracle only, like every 8-bit case)
func genDrawUnencodable(g *h.Gen) {
	d := "0,0,0,0,0,-,-"
	bold := StyleF{Attrs: 1}.String()
	n := 0
	for _, cs := range []string{"US-ASCII", "ISO8859-1", "KOI8-R"} {
		for _, name := range []string{"xterm-256color", "linux", "vt100", "sun-color"} {
			if terminfo.VerifEntries()[name] == nil {
				continue
			}
			n++
			rs := []int{0x2603, 0x2500, 0x4e16, 0xe9, 0x20ac, 0x2192}
			var ops []string
			for i, m := range rs {
				ops = append(ops, drawStoreOp(0, i, 0, m, nil, []string{d, bold}[i%2]))
			}
			ops = append(ops, "W", "W")
			ops = append(ops, drawStoreOp(n, 0, 0, rs[0], nil, d), drawStoreOp(n+1, 2, 0, rs[2], nil, d), "W", "W", drawStoreOp(0, 1, 1, 'x', nil, d), "W")
			g.Emit("draw %s 0 8 2 %s", withVariant(name+"@"+cs), strings.Join(ops, "; "))
		}
	}
}

func genDraw(g *h.Gen) {
	genDrawMatrix(g)
	genDrawUnencodable(g)
	genDrawSuspendResume(g)
	genDrawCornerCover(g)
	genDrawRestoreIdentical(g)
	genDrawRevisit(g)
	genDrawLockedWide(g)
	genDrawWideCover(g)
	genDrawLockHistories(g)
	r := g.R
	ents := ecmaEntries()
	n := g.N(1200, 40000)
	fixed := []string{"xterm-256color", "linux", "vt100", "sun-color", "xterm-kitty", "screen-256color"}
	for i := 0; i < n; i++ {
		name := h.Pick(r, ents)
		if i%3 == 0 {
			name = fixed[(i/3)%len(fixed)]
		}
		w, hh := r.Range(2, 7), r.Range(1, 4)
		var ops []string
		nops := r.Range(4, 36)
		cols := map[uint64]bool{}
		lastLock := ""
		drawStyle := func(r *h.Rand) StyleF {
			f := drawStyle(r)
			cols[f.Fg], cols[f.Bg], cols[f.UlColor] = true, true, true
			return f
		}
		if r.Chance(40) {
			ops = append(ops, "Y "+drawStyle(r).String())
		}
		for j := 0; j < nops; j++ {
			x, y := r.Range(-1, w), r.Range(-1, hh)
			switch k := r.Intn(100); {
			case k < 45:
				m := r.Range('!', '~')
				if r.Chance(45) {
					m = h.Pick(r, drawRunes)
				}
				var comb []int
				if r.Chance(15) {
					comb = []int{h.Pick(r, drawComb)}
					if r.Chance(30) {
						comb = append(comb, h.Pick(r, drawComb))
					}
				}
				route := 0
				if r.Chance(30) {
					route = r.Range(1, 2)
				}
				ops = append(ops, drawStoreOp(route, x, y, m, comb, drawStyle(r).String()))
			case k < 49:
				fr := h.Pick(r, []int{' ', '.', 'x', 0x2500})
				if r.Chance(12) { // Fill is one more way to supply primary cell content (C09): controls, zero-width, format, invalid
					fr = h.Pick(r, fillSpecial)
				}
				ops = append(ops, fmt.Sprintf("F %d %s", fr, drawStyle(r)))
			case k < 52:
				ops = append(ops, "Y "+drawStyle(r).String())
			case k < 58:
				ops = append(ops, fmt.Sprintf("C %d %d", x, y))
			case k < 61:
				ops = append(ops, fmt.Sprintf("K %d %d", r.Intn(7), h.Pick(r, genColors)))
			case k < 68:
				lk := r.Intn(2)
				if lk == 0 && lastLock != "" && r.Chance(50) { // unlock exactly what was locked last
					ops = append(ops, lastLock+" 0")
					lastLock = ""
					continue
				}
				lw, lh := r.Range(0, 3), r.Range(0, 2)
				beside := lk == 1 && r.Chance(40)
				if beside && r.Chance(70) { // … and the region is not empty, inside the screen, not in column 0
					if lw == 0 {
						lw = 1
					}
					if lh == 0 {
						lh = 1
					}
					if x < 1 {
						x = 1
					}
					if y < 0 {
						y = 0
					}
				}
				reg := fmt.Sprintf("L %d %d %d %d", x, y, lw, lh)
				ops = append(ops, fmt.Sprintf("%s %d", reg, lk))
				if lk == 1 {
					lastLock = reg
				}
				if beside { // a wide rune right beside the locked region
					ops = append(ops, fmt.Sprintf("S %d %d %d - %s", x-1, y, h.Pick(r, []int{0x4e16, 0x754c, 0xff21}), drawStyle(r)))
				}
			case k < 86:
				ops = append(ops, "W")
			case k < 90:
				ops = append(ops, "N")
			case k < 93:
				w, hh = r.Range(2, 7), r.Range(1, 4)
				ops = append(ops, fmt.Sprintf("RQ %d %d", w, hh))
			case k < 96:
				w, hh = r.Range(2, 7), r.Range(1, 4)
				ops = append(ops, fmt.Sprintf("RN %d %d", w, hh))
			default:
				if r.Chance(30) {
					fr := h.Pick(r, []int{0x2500, 0x2192, 0x2022, 0xb0, 'x', 0x4e16}) // HLine, RArrow, Bullet, Degree have default fallbacks
					if r.Bool() {
						ops = append(ops, fmt.Sprintf("UF %d", fr))
					} else {
						ops = append(ops, fmt.Sprintf("RF %d %s", fr, h.Hex([]byte(h.Pick(r, []string{"-", "+", "o"})))))
					}
				} else if r.Chance(40) {
					ops = append(ops, "ZR") // Suspend; Resume
					lastLock = ""
				} else {
					ops = append(ops, "X")
				}
			}
		}
		ops = append(ops, h.Pick(r, []string{"W", "W", "W", "N"}))
		if r.Chance(30) {
			ops = append(ops, "W") // an idle Show
		}
		ops = append(ops, fitOps(name, cols)...)
		w0, h0 := r.Range(2, 7), r.Range(1, 4)
		g.Emit("draw %s %d %d %d %s", withVariant(name), r.Intn(2), w0, h0, strings.Join(ops, "; "))
	}
}

// genDrawCP: every code point (and out-of-range rune values) as primary content, in the first, a middle and the last
// column, UTF-8 and an 8-bit locale.
func genDrawCP(g *h.Gen) {
	// history dependence: a non-printing code point drawn AFTER printable code points that share its low 16 / low 8
	// bits or differ from it by a power of two (these cases come FIRST in the run: first-lookup-wins per-process caches of widths or encodings keyed too coarsely only
	// misbehave in that order; every case of a run executes in one process, and so does each of these)
	var npr []int
	for c := 0x7f; c <= 0x9f; c++ {
		npr = append(npr, c)
	}
	npr = append(npr, 0xad, 0x61c, 0x200b, 0x200c, 0x200d, 0x200e, 0x200f, 0x202a, 0x202e, 0x2060, 0x2066, 0x2069, 0xfeff, 0xfff9, 1, 7, 27)
	for i := 0; i < len(npr); i += 4 {
		var ops []string
		for k := 0; k < 4 && i+k < len(npr); k++ {
			c := npr[i+k]
			ops = append(ops, fmt.Sprintf("S 0 %d %d - 0,0,0,0,0,-,-", k, 0x10000+c), fmt.Sprintf("S 2 %d %d - 0,0,0,0,0,-,-", k, 0x20000+c),
				fmt.Sprintf("S 4 %d %d - 0,0,0,0,0,-,-", k, c+0x100), "W", fmt.Sprintf("S 6 %d %d - 0,0,0,0,0,-,-", k, c), "W")
		}
		g.Emit("draw %s 0 8 4 %s", withVariant("xterm-256color"), strings.Join(ops, "; "))
	}
	var cps []int
	if g.Thorough() {
		for c := 0; c <= 0x10FFFF; c++ {
			cps = append(cps, c)
		}
	} else {
		for c := 0; c < 0x3000; c++ {
			cps = append(cps, c)
		}
		for c := 0x3000; c <= 0x10FFFF; c += 61 {
			cps = append(cps, c)
		}
		for _, c := range []int{0xd7ff, 0xd800, 0xdfff, 0xe000, 0xfffd, 0xfffe, 0xffff, 0x10000, 0x1f600, 0xe0001, 0xe0100, 0x10ffff} {
			cps = append(cps, c)
		}
	}
	cps = append(cps, -1, -2, -0x80000000, 0x110000, 0x110001, 0x7fffffff)
	targets := []string{"xterm-256color", "xterm-256color@ISO8859-1", "linux", "vt100@ISO8859-1"}
	const per = 12
	for ti, tgt := range targets {
		if !g.Thorough() && ti >= 2 {
			// the two extra targets see a thinner sample in the quick tier
			continue
		}
		for i := 0; i < len(cps); i += per {
			var ops []string
			for k := 0; k < per && i+k < len(cps); k++ {
				x := []int{0, 3, 7}[k%3]
				y := k / 3
				ops = append(ops, fmt.Sprintf("S %d %d %d - 0,0,0,0,0,-,-", x, y, cps[i+k]))
			}
			ops = append(ops, "W")
			g.Emit("draw %s 0 8 4 %s", withVariant(tgt), strings.Join(ops, "; "))
		}
	}
	// Fill as the supplier of primary content (CellBuffer.Fill gives every cell the rune with a width of its own choosing,
	// cell.go:231): one rune per case on a 3x1 screen, UTF-8 and ISO8859-1; controls, DEL, C1, zero-width / format /
	// combining runes, surrogates, non-characters, negative and out-of-range values
	var fcps []int
	if g.Thorough() {
		for c := 0; c <= 0x10FFFF; c++ {
			if c < 0x3000 || c%61 == 0 || mustBeBlank(c) || runewidth.RuneWidth(rune(c)) == 0 {
				fcps = append(fcps, c)
			}
		}
	} else {
		for _, rg := range [][2]int{{0, 0x2ff}, {0x300, 0x36f}, {0x600, 0x61f}, {0x2000, 0x206f}, {0x20d0, 0x20ef}, {0xfe00, 0xfe0f}, {0xfff0, 0xffff}} {
			for c := rg[0]; c <= rg[1]; c++ {
				fcps = append(fcps, c)
			}
		}
		fcps = append(fcps, 0x4e16, 0xd7ff, 0xd800, 0xdfff, 0xe000, 0xfeff, 0x1f600, 0xe0001, 0xe0020, 0xe007f, 0xe0100, 0x10ffff)
	}
	fcps = append(fcps, -1, -2, -0x80000000, 0x110000, 0x110001, 0x7fffffff)
	for _, tgt := range []string{"xterm-256color", "xterm-256color@ISO8859-1"} {
		for _, c := range fcps {
			g.Emit("draw %s 0 3 1 F %d 0,0,0,0,0,-,-; W", withVariant(tgt), c)
		}
	}
	// combining lists in UTF-8 and in 8-bit locales, including charmaps that answer an unencodable rune with the SUB
	// byte 0x1A and no error (gdamore/encoding: US-ASCII, ISO8859-1, ISO8859-9) and ones that return an error
	// (x/text: ISO8859-2, KOI8-R): an unencodable combining rune must be elided, never sent as a control byte
	bases := []int{'e', 'a', 0xe9, 0x4e16, 0x2500, 0x3b1, 0x416}
	// candidates; only marks the library's own width table calls zero-width are in the property's domain ("combining
	// lists being limited to zero-width non-control marks"): go-runewidth v0.0.16 gives width 1 to U+FE0F, U+093E, U+05B0
	var marks []int
	for _, m := range []int{0x301, 0x308, 0x20dd, 0xfe0f, 0x200d, 0x93e, 0x1f3fd, 0x483, 0x5b0, 0x1ab0, 0x302, 0x36f} {
		if runewidth.RuneWidth(rune(m)) == 0 {
			marks = append(marks, m)
		}
	}
	for _, tgt := range []string{"xterm-256color", "xterm-256color@ISO8859-1", "xterm-256color@US-ASCII", "xterm-256color@ISO8859-9",
		"xterm-256color@ISO8859-2", "xterm-256color@KOI8-R", "vt100@ISO8859-1"} {
		var ops []string
		k := 0
		flush := func() {
			if len(ops) > 0 {
				g.Emit("draw %s 0 8 4 %s", withVariant(tgt), strings.Join(append(ops, "W"), "; "))
			}
			ops, k = nil, 0
		}
		for bi, b := range bases {
			for mi, m := range marks {
				comb := fmt.Sprintf("%d", m)
				if (bi+mi)%3 == 0 {
					comb = fmt.Sprintf("%d,%d", m, marks[(mi+1)%len(marks)])
				}
				ops = append(ops, fmt.Sprintf("S %d %d %d %s 0,0,0,0,0,-,-", []int{0, 3, 6}[k%3], k/3, b, comb))
				if k++; k == 12 {
					flush()
				}
			}
		}
		flush()
	}
}

func init() {
	h.Register(&h.Engine{Name: "drawcp",
		Rule: "every code point (quick: all below U+3000, every 61st above, boundary values; thorough: all 0x110000) and out-of-range rune values as primary cell content in the first, a middle and the last column; UTF-8 and ISO8859-1 locales; the same through Fill, one rune per 3x1 screen (quick: all below U+0370, the format/control blocks, boundary and out-of-range values; thorough: all below U+3000, every zero-width or must-be-blank code point, every 61st); plus base x combining-mark cells in UTF-8 and five 8-bit charsets (SUB-answering and error-answering charmaps); 12 cells per case; every case is non-trivial",
		Gen:  genDrawCP, Exec: execDraw})
	h.Register(&h.Engine{Name: "draw",
		Rule: "fixed cases on every ECMA entry that carries padding, as it is and with every terminfo(5) padding form; stores go through SetContent (nil or empty non-nil combining slice) or Screen.SetCell; a fixed attribute/underline/colour/hyperlink matrix and a colour sweep (fg, bg, underline colour over all of palette 0..15, 22 indices of 16..255, 16 direct colours) for every ECMA-family entry x direct colour on/off; directed histories: wide rune beside a locked cell, a column covered by a wide rune and uncovered again by Fill / Clear / another wide rune / a narrow store, stores of identical and different content into the hidden column, lock regions locked twice / overlapping / never locked / re-locked / partly unlocked, identical content re-stored through every store route; then random draw histories (4-36 ops) on a real terminfo screen over a fake tty, every ECMA-family entry, direct colour on/off, sizes 2..7 x 1..4; distinct = distinct line; non-trivial = at least one in-range SetContent",
		Gen:  genDraw, Exec: execDraw})
}
