package engines

import (
	"errors"
	"fmt"
	"os"
	"sort"
	"strings"

	"github.com/gdamore/tcell/v2"
	"github.com/gdamore/tcell/v2/terminfo"
	"verif/harness/h"
)

// Engine locale — C17, head of the statement ("When the locale selects a non-UTF-8 character set …"): WHICH character set
// the POSIX locale variables select (charset_unix.go getCharset; model lean/Tcell/Model/Locale.lean, theorems Props/C17Locale).
//
//	locale <LC_ALL> <LC_CTYPE> <LANG> <registered>
//
// variable token: `-` = not in the environment, `=`+hex = set to these bytes (`=` alone: set to the empty string).
// registered = the lower-cased names, among the candidates of the case, that tcell.GetEncoding knows (hex, comma separated).
// A real terminfo screen is created over a fake tty and Init()ed: reply `cs=<hex of Screen.CharacterSet()>`, or `nocharset`
// when Init fails with ErrNoCharset.
//
// Oracle (POSIX XBD 8.2 + the library's documented default, written independently of the model): the first of LC_ALL,
// LC_CTYPE, LANG that is set to a non-empty string decides; C / POSIX → US-ASCII; language[_territory][.codeset][@modifier]
// → codeset; no codeset → UTF-8.  Class locale-charset-wrong.

func lcRef(vals [3]*string) string {
	loc := ""
	for _, v := range vals {
		if v != nil && *v != "" {
			loc = *v
			break
		}
	}
	if loc == "C" || loc == "POSIX" {
		return "US-ASCII"
	}
	if i := strings.Index(loc, "@"); i >= 0 {
		loc = loc[:i]
	}
	i := strings.Index(loc, ".")
	if i < 0 {
		return "UTF-8"
	}
	return loc[i+1:]
}

func lcVar(tok string) *string {
	if tok == "-" {
		return nil
	}
	s := string(h.Unhex(strings.TrimPrefix(tok, "=")))
	return &s
}

func lcTokOf(v *string) string {
	if v == nil {
		return "-"
	}
	return "=" + h.Hex([]byte(*v))
}

var lcNames = [3]string{"LC_ALL", "LC_CTYPE", "LANG"}

func execLocale(line string) h.Result {
	f := strings.Fields(line)
	if len(f) != 5 || f[0] != "locale" {
		return h.Result{Obs: "bad-line"}
	}
	var vals [3]*string
	for i := 0; i < 3; i++ {
		vals[i] = lcVar(f[1+i])
		if vals[i] == nil {
			os.Unsetenv(lcNames[i])
		} else {
			os.Setenv(lcNames[i], *vals[i])
		}
	}
	defer func() {
		os.Setenv("LC_ALL", "en_US.UTF-8")
		os.Unsetenv("LC_CTYPE")
		os.Unsetenv("LANG")
	}()
	res := h.Result{Nontrivial: true}
	ti := *terminfo.VerifEntries()["xterm-256color"]
	scr, err := tcell.NewTerminfoScreenFromTtyTerminfo(NewFakeTty(10, 3), &ti)
	if err != nil {
		return h.Result{Obs: "new-failed"}
	}
	got, ok := "", false
	switch err := scr.Init(); {
	case err == nil:
		got, ok = scr.CharacterSet(), true
		scr.Fini()
		res.Obs = "cs=" + h.Hex([]byte(got))
	case errors.Is(err, tcell.ErrNoCharset):
		res.Obs = "nocharset"
	default:
		res.Obs = "init-error"
	}
	want := lcRef(vals)
	known := tcell.GetEncoding(want) != nil
	env := fmt.Sprintf("LC_ALL=%s LC_CTYPE=%s LANG=%s", lcShow(vals[0]), lcShow(vals[1]), lcShow(vals[2]))
	switch {
	case ok && got != want:
		res.Findings = append(res.Findings, h.Finding{Class: "locale-charset-wrong", Msg: fmt.Sprintf("%s selects %q, the screen reports CharacterSet() = %q", env, want, got)})
	case !ok && known:
		res.Findings = append(res.Findings, h.Finding{Class: "locale-charset-wrong", Msg: fmt.Sprintf("%s selects %q, a registered character set, but Init failed (%s)", env, want, res.Obs)})
	}
	tags := []string{"selects:" + strings.ToLower(want)}
	for i, v := range vals {
		switch {
		case v == nil:
			tags = append(tags, lcNames[i]+":unset")
		case *v == "":
			tags = append(tags, lcNames[i]+":empty")
		default:
			tags = append(tags, lcNames[i]+":set")
		}
	}
	if !known {
		tags = append(tags, "unregistered")
	}
	res.Tags = tags
	return res
}

func lcShow(v *string) string {
	if v == nil {
		return "(unset)"
	}
	return fmt.Sprintf("%q", *v)
}

func genLocale(g *h.Gen) {
	pool := []string{"", "C", "POSIX", "en_US", "en_US.UTF-8", "de_DE.ISO8859-15@euro", "ru_RU.KOI8-R", "ja_JP.EUC-JP", "xx_XX.NOSUCH", "C.UTF-8", "POSIX.ISO8859-1"}
	if g.Thorough() {
		pool = append(pool, "zh_CN.GBK", "de_DE.ISO8859-1", "en_US.utf8", "de_DE@euro", "POSIX.UTF-8", "C.KOI8-R", ".KOI8-R", "a.b.c", "x@y.z",
			"en_US.", "en_US.@euro", "c", "posix", "ja_JP.SJIS", "zh_TW.Big5", "en_US.US-ASCII", "C@x", "@", ".", "tr_TR.ISO8859-9", "el_GR.ISO8859-7@euro")
	}
	var states []*string
	states = append(states, nil)
	for i := range pool {
		states = append(states, &pool[i])
	}
	emit := func(a, b, c *string) {
		cand := map[string]bool{"utf-8": true, "us-ascii": true}
		for _, v := range []*string{a, b, c} {
			if v != nil {
				cand[strings.ToLower(lcRef([3]*string{v, nil, nil}))] = true
				// what a wrong reading of this value could select is a candidate too: the registry is an INPUT of the model
				if i := strings.Index(*v, "."); i >= 0 {
					cand[strings.ToLower((*v)[i+1:])] = true
				}
			}
		}
		var reg []string
		for n := range cand {
			if tcell.GetEncoding(n) != nil {
				reg = append(reg, n)
			}
		}
		sort.Strings(reg)
		for i := range reg {
			reg[i] = h.Hex([]byte(reg[i]))
		}
		rs := strings.Join(reg, ",")
		if rs == "" {
			rs = "-"
		}
		g.Emit("locale %s %s %s %s", lcTokOf(a), lcTokOf(b), lcTokOf(c), rs)
	}
	// every combination of unset / empty / pool values of the three variables
	for _, a := range states {
		for _, b := range states {
			for _, c := range states {
				emit(a, b, c)
			}
		}
	}
}

func init() {
	h.Register(&h.Engine{Name: "locale",
		Rule: "every combination of unset / set-but-empty / a pool of locale strings (C, POSIX, with and without territory, codeset, modifier, unregistered codesets, odd separators) for LC_ALL, LC_CTYPE, LANG; a real terminfo screen is Init()ed and reports its character set; distinct = distinct line; non-trivial = all",
		Gen:  genLocale, Exec: execLocale})
}
