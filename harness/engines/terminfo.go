package engines

import (
	"sync/atomic"
	"bytes"
	"fmt"
	"reflect"
	"regexp"
	"runtime/debug"
	"sort"
	"strconv"
	"strings"
	"time"

	"github.com/gdamore/tcell/v2/terminfo"
	_ "github.com/gdamore/tcell/v2/terminfo/base"
	_ "github.com/gdamore/tcell/v2/terminfo/extended"
	"verif/harness/h"
)

// Engines tparm (C07), tputs, tgoto, tcolor (C15): differential runs of terminfo.TParm / TPuts / TGoto / TColor.
// The reference (terminfo(5) evaluator, stripPadding, cup/colour closed forms) lives in Lean: every case hands it a
// Derived line `<engine>ref <payload> => <what the implementation produced>`, to which it must answer `ok`.
//
//	tparm  <proghex> <param>…; <proghex> <param>…; …      param = i:<int> | s:<hex>     reply: hex of each result, ' '-joined
//	tputs  <padcharhex> <strhex> [<min_ms>]                                             reply: hex of the bytes written
//	tgoto  <entry> <row> <cols>         cols = ints and inclusive ranges a-b, ','-joined  reply: hex of each result, ','-joined
//	tcolor <entry> <fg> <bgs>           bgs  = same list syntax (negatives never in a range)
//
// History form of tputs / tgoto / tcolor (C15: the string for a position / a colour pair / the written bytes are a function of
// the arguments alone, whatever the process evaluated before):  `<line as above>; <proghex> <param>…; <proghex> <param>…`
// — the TParm calls listed after the first `;` are made, in order, BEFORE the calls of the line (static variables reset
// first, as in tparm lines).  They come from the tparm generators (database strings, grammar-directed programs, random
// byte strings) and from programs cut in the middle (unterminated conditionals, a `%` at the very end).

// ---------------------------------------------------------------------------------------------- shared helpers

type tiEntry struct {
	name string
	t    *terminfo.Terminfo
}

// tiEntries: the distinct registered entries, sorted by the name they are looked up with (their Name, or an alias
// if the Name now maps to another entry).
func tiEntries() []tiEntry {
	m := terminfo.VerifEntries()
	keys := make([]string, 0, len(m))
	for k := range m {
		keys = append(keys, k)
	}
	sort.Strings(keys)
	seen := map[*terminfo.Terminfo]bool{}
	var out []tiEntry
	for pass := 0; pass < 2; pass++ {
		for _, k := range keys {
			if t := m[k]; !seen[t] && (pass == 1 || t.Name == k) && !strings.ContainsAny(k, " \t") {
				seen[t] = true
				out = append(out, tiEntry{k, t})
			}
		}
	}
	sort.Slice(out, func(i, j int) bool { return out[i].name < out[j].name })
	return out
}

// tiList parses "0-40,50,-1,63" (inclusive ranges only between non-negative numbers).
func tiList(s string) []int {
	var out []int
	for _, tok := range strings.Split(s, ",") {
		if tok == "" {
			continue
		}
		if i := strings.IndexByte(tok[1:], '-'); i >= 0 {
			for a, b := h.Atoi(tok[:i+1]), h.Atoi(tok[i+2:]); a <= b; a++ {
				out = append(out, a)
			}
		} else {
			out = append(out, h.Atoi(tok))
		}
	}
	return out
}

func tiShowList(l []int) string {
	ss := make([]string, len(l))
	for i, v := range l {
		ss[i] = strconv.Itoa(v)
	}
	return strings.Join(ss, ",")
}

func tiTagList(tags map[string]bool) []string {
	out := make([]string, 0, len(tags))
	for t := range tags {
		out = append(out, t)
	}
	sort.Strings(out)
	return out
}

// ---------------------------------------------------------------------------------------------- tparm: Exec

var (
	tpSkipDots   = regexp.MustCompile(`(?s)%:?[-+# ]*[0-9]*\.[0-9]*\.`)
	tpSkipDigits = regexp.MustCompile(`(?s)%:?[-+# ]*[0-9.]*[0-9]{5}`)
	tpSkipStrFmt = regexp.MustCompile(`(?s)%:?[-+# ]*[0-9.]+s`)
	tpClass      = map[string]string{} // case line -> generator class (filled by Gen; absent when replaying)
)

const tpResetProg = "%p1%PA%p1%PB%p1%PC%p1%PD%p1%PE%p1%PF%p1%PG%p1%PH%p1%PI%p1%PJ%p1%PK%p1%PL%p1%PM" +
	"%p1%PN%p1%PO%p1%PP%p1%PQ%p1%PR%p1%PS%p1%PT%p1%PU%p1%PV%p1%PW%p1%PX%p1%PY%p1%PZ"

func tpIsDigit(c byte) bool { return c >= '0' && c <= '9' }

// tpTags scans one program token by token (the way the implementation tokenises it) and records the constructs.
func tpTags(p []byte, tags map[string]bool) {
	open, sawE := 0, false
	for i := 0; i+1 < len(p); i++ {
		if p[i] != '%' {
			continue
		}
		i++
		switch c := p[i]; {
		case c == '?':
			tags["cond"] = true
			if open > 0 {
				tags["nested"] = true
			}
			open++
			sawE = false
		case c == 'e':
			sawE = true
		case c == 't':
			if sawE {
				tags["elif"] = true
			}
		case c == ';':
			if open > 0 {
				open--
			}
			sawE = false
		case c == 'P' || c == 'g':
			if i+1 < len(p) {
				i++
				if p[i] >= 'A' && p[i] <= 'Z' {
					tags["svar"] = true
				} else if p[i] >= 'a' && p[i] <= 'z' {
					tags["dvar"] = true
				}
			}
		case c == 'p':
			i++
		case c == '\'':
			i += 2
		case c == '{':
			for i+1 < len(p) && tpIsDigit(p[i+1]) {
				i++
			}
			i++
		case c == 'l':
			tags["len"] = true
		case c == 'c':
			tags["chr"] = true
		case c == 'A' || c == 'O':
			tags["logAO"] = true
		case c == '#' || c == ' ':
			tags["fmtnocolon"] = true
			tags["fmt"] = true
		case c == ':' || tpIsDigit(c) || c == 'x' || c == 'X' || c == 'o':
			tags["fmt"] = true
			if c == ':' {
				i++
			}
			for i < len(p) && strings.IndexByte("+-# ", p[i]) >= 0 {
				i++
			}
			for i < len(p) && (tpIsDigit(p[i]) || p[i] == '.') {
				i++
			}
		}
	}
}

func tparmBody(line string) h.Result {
	payload := strings.TrimSpace(strings.TrimPrefix(line, "tparm"))
	var res h.Result
	tags := map[string]bool{}
	ti := &terminfo.Terminfo{}
	ti.TParm(tpResetProg, "")
	calls := h.SplitTrim(payload, ";")
	if len(calls) > 1 {
		tags["multi-call"] = true
	}
	var outs []string
	skip := false
	hiStr := false
	for _, c := range calls {
		f := strings.Fields(c)
		if strings.HasPrefix(f[0], "@") {
			// a registry operation between two evaluations: terminfo.LookupTerminfo(name).  "A TParm result is a function of
			// (string, parameters, static variables at the time of the call) and of nothing else" — the database is something else
			_, _ = terminfo.LookupTerminfo(string(h.Unhex(f[0][1:])))
			tags["lookup-between-calls"] = true
			continue
		}
		prog := h.Unhex(f[0])
		var params []interface{}
		// hiStr is sticky for the rest of the line: a string stored in a static variable reaches later calls
		for _, p := range f[1:] {
			if strings.HasPrefix(p, "s:") {
				s := h.Unhex(p[2:])
				for _, b := range s {
					if b >= 0x80 {
						hiStr = true
					}
				}
				params = append(params, string(s))
				tags["strparam"] = true
			} else {
				n, _ := strconv.ParseInt(strings.TrimPrefix(p, "i:"), 10, 64)
				params = append(params, int(n))
			}
		}
		ps := string(prog)
		if tpSkipDots.MatchString(ps) || tpSkipDigits.MatchString(ps) || (hiStr && tpSkipStrFmt.MatchString(ps)) {
			skip = true
		}
		if bytes.IndexByte(prog, '%') >= 0 {
			res.Nontrivial = true
		}
		tpTags(prog, tags)
		outs = append(outs, h.Hex([]byte(ti.TParm(ps, params...))))
	}
	res.Obs = strings.Join(outs, " ")
	if skip {
		res.Obs = "SKIP " + res.Obs
		tags["skip"] = true
	} else {
		res.Derived = []string{"tparmref " + payload + " => " + res.Obs}
	}
	if c := tpClass[line]; c != "" {
		tags["gen:"+c] = true
	}
	res.Tags = tiTagList(tags)
	return res
}

// execTParm runs the body under a 5 s watchdog (a panic in the worker is reported the way the driver reports one).
// tiHangs: calls of this process that never returned.  Each of them is a goroutine spinning at full speed for the rest of the
// process; once a handful have been reported (each a concrete finding) the remaining cases are not run any more.
var tiHangs int32

const tiHangBudget = 5

func tiHangSkip() (h.Result, bool) {
	if atomic.LoadInt32(&tiHangs) >= tiHangBudget {
		return h.Result{Obs: "SKIP hang budget exhausted: not run", Tags: []string{"hang-budget-exhausted"}}, true
	}
	return h.Result{}, false
}

func execTParm(line string) h.Result {
	if r, skip := tiHangSkip(); skip {
		return r
	}
	ch := make(chan h.Result, 1)
	go func() {
		defer func() {
			if p := recover(); p != nil {
				frame := ""
				for _, l := range strings.Split(string(debug.Stack()), "\n") {
					if strings.Contains(l, "gdamore/tcell") && !strings.Contains(l, "verif") {
						frame = strings.TrimSpace(l)
						break
					}
				}
				ch <- h.Result{Obs: "PANIC", Findings: []h.Finding{{Class: "panic", Msg: fmt.Sprintf("%v at %s", p, frame)}}, Nontrivial: true, Tags: []string{"panic"}}
			}
		}()
		ch <- tparmBody(line)
	}()
	tm := time.NewTimer(5 * time.Second)
	defer tm.Stop()
	select {
	case r := <-ch:
		return r
	case <-tm.C:
		atomic.AddInt32(&tiHangs, 1)
		return h.Result{Obs: "HANG", Findings: []h.Finding{{Class: "hang", Msg: "TParm did not return within 5s"}}, Nontrivial: true, Tags: []string{"hang"}}
	}
}

// ---------------------------------------------------------------------------------------------- tparm: Gen

func tpI(v int) string    { return "i:" + strconv.Itoa(v) }
func tpS(s string) string { return "s:" + h.Hex([]byte(s)) }
func tpCall(prog string, params ...string) string {
	return strings.TrimSpace(h.Hex([]byte(prog)) + " " + strings.Join(params, " "))
}
func tpEmit(g *h.Gen, class string, calls ...string) {
	l := "tparm " + strings.Join(calls, "; ")
	tpClass[l] = class
	g.Emit("%s", l)
}

// tpPack emits the calls four to a line.
func tpPack(g *h.Gen, class string, calls []string) {
	for len(calls) > 0 {
		n := 4
		if len(calls) < n {
			n = len(calls)
		}
		tpEmit(g, class, calls[:n]...)
		calls = calls[n:]
	}
}

var tpB = []int{0, 1, 7, 8, 15, 16, 255, 256, 1023}

type tpDBStr struct {
	s     string
	arity int
	str   bool // string parameters
}

// tpDBStrings: every parameterised string of every entry plus the ones hard-coded in tscreen.go, deduplicated.
func tpDBStrings() []tpDBStr {
	var out []tpDBStr
	seen := map[string]bool{}
	add := func(s string, arity int, str bool) {
		k := fmt.Sprintf("%d/%v/%s", arity, str, s)
		if s != "" && !seen[k] {
			seen[k] = true
			out = append(out, tpDBStr{s, arity, str})
		}
	}
	for _, e := range tiEntries() {
		t := e.t
		add(t.SetFg, 1, false)
		add(t.SetBg, 1, false)
		add(t.SetFgBg, 2, false)
		add(t.SetFgRGB, 3, false)
		add(t.SetBgRGB, 3, false)
		add(t.SetFgBgRGB, 6, false)
		add(t.SetCursor, 2, false)
		add(t.UnderlineColor, 1, false)
		add(t.UnderlineColorRGB, 3, false)
		add(t.EnterUrl, 2, true)
		add(strings.Replace(t.CursorColorRGB, "%p1%s", "#%p1%02x%p2%02x%p3%02x", 1), 3, false)
		add(t.SetWindowSize, 2, false)
		add(t.SetWindowTitle, 1, true)
	}
	// tscreen.go prepare*: the fallbacks used when the entry has no capability of its own
	add("\x1b[58:5:%p1%dm", 1, false)
	add("\x1b[58:2::%p1%d:%p2%d:%p3%dm", 3, false)
	add("\x1b]8;%p2%s;%p1%s\x1b\\", 2, true)
	add("\x1b[8;%p1%p2%d;%dt", 2, false)
	add("\x1b[>2t\x1b]2;%p1%s\x1b\\", 1, true)
	add("\x1b]52;c;%p1%s\x1b\\", 1, true)
	add("\x1b]12;#%p1%02x%p2%02x%p3%02x\x07", 3, false)
	return out
}

func tpPrintable(r *h.Rand, lo, hi int) string {
	b := make([]byte, r.Range(lo, hi))
	for i := range b {
		b[i] = byte(r.Range(0x20, 0x7e))
	}
	return string(b)
}

func genTParmDB(g *h.Gen) {
	r := g.R
	for _, d := range tpDBStrings() {
		var calls []string
		if d.str {
			vals := []string{"", "abc", "https://example.com/a?b=c", "a%b", "x$<5>y", "héllo ☃", tpPrintable(r, 20, 20)}
			for _, a := range vals {
				if d.arity == 1 {
					calls = append(calls, tpCall(d.s, tpS(a)))
					continue
				}
				for _, b := range vals {
					calls = append(calls, tpCall(d.s, tpS(a), tpS(b)))
				}
			}
			tpPack(g, "db", calls)
			continue
		}
		B := append(append([]int{}, tpB...), r.Intn(1024), r.Intn(1024), r.Intn(1024))
		switch d.arity {
		case 1:
			if g.Thorough() {
				for v := 0; v < 1024; v++ {
					calls = append(calls, tpCall(d.s, tpI(v)))
				}
			} else {
				for _, v := range B {
					calls = append(calls, tpCall(d.s, tpI(v)))
				}
			}
		case 2:
			for _, a := range B {
				for _, b := range B {
					calls = append(calls, tpCall(d.s, tpI(a), tpI(b)))
				}
			}
			for i := 0; i < 10; i++ {
				calls = append(calls, tpCall(d.s, tpI(r.Intn(1024)), tpI(r.Intn(1024))))
			}
			if g.Thorough() {
				for v := 0; v < 1024; v++ {
					for _, b := range B {
						calls = append(calls, tpCall(d.s, tpI(v), tpI(b)), tpCall(d.s, tpI(b), tpI(v)))
					}
				}
			}
		default:
			for i, n := 0, g.N(30, 2000); i < n; i++ {
				ps := make([]string, d.arity)
				for j := range ps {
					if r.Bool() {
						ps[j] = tpI(h.Pick(r, B))
					} else {
						ps[j] = tpI(r.Intn(256))
					}
				}
				calls = append(calls, tpCall(d.s, ps...))
			}
		}
		tpPack(g, "db", calls)
	}
}

var (
	tpIntPool = append(append([]int{}, tpB...), -1, -2, 31, 32, 127, 128, 300, 65535, 2147483647, -2147483648, 9223372036854775807, -9223372036854775808)
	tpStrPool = []string{"", "abc", "four", "12", "-7", "+3", "12x", "99999999999999999999", "héllo"}
	tpConsts  = []int{0, 1, 2, 7, 8, 9, 10, 16, 31, 32, 255, 256, 1000, 65535, 2147483647, 9223372036854775807}
	tpLetters = []byte("abzABZ")
	tpBinops  = []byte("+-*/m&|^=><")
)

// tpParams draws 0..9 parameters; boolBias makes most integers 0/1 (so that %pN tests go both ways).
func tpParams(r *h.Rand, n int, boolBias bool) (shown []string, kinds []byte) {
	for i := 0; i < n; i++ {
		if r.Chance(35) {
			s := ""
			if r.Chance(15) {
				s = tpPrintable(r, 0, 6)
			} else {
				s = h.Pick(r, tpStrPool)
			}
			shown, kinds = append(shown, tpS(s)), append(kinds, 's')
			continue
		}
		v := 0
		switch {
		case boolBias && r.Chance(60):
			v = r.Intn(2)
		case r.Chance(30):
			v = r.Range(-1000, 1000)
		default:
			v = h.Pick(r, tpIntPool)
		}
		shown, kinds = append(shown, tpI(v)), append(kinds, 'i')
	}
	return
}

// tpG writes one grammar-directed program for a call whose parameter kinds are known.
type tpG struct {
	r     *h.Rand
	kinds []byte
	b     bytes.Buffer
	// history programs (genTParmHistories): plain = only %d / %s outputs (every run is inside the domain the reference
	// specifies, so the judge follows the whole line); noStore = no %P token; lets = the variable letters to draw from
	plain   bool
	noStore bool
	lets    []byte
}

func (q *tpG) w(s string) { q.b.WriteString(s) }

// pk picks a parameter number, mostly one that is supplied and of the wanted kind.
func (q *tpG) pk(want byte) int {
	var c []int
	for i, k := range q.kinds {
		if k == want {
			c = append(c, i+1)
		}
	}
	switch {
	case len(c) > 0 && q.r.Chance(80):
		return h.Pick(q.r, c)
	case len(q.kinds) > 0 && q.r.Chance(70):
		return q.r.Range(1, len(q.kinds))
	}
	return q.r.Range(1, 9)
}

func (q *tpG) letter() string {
	if len(q.lets) > 0 {
		return string(rune(h.Pick(q.r, q.lets)))
	}
	return string(rune(h.Pick(q.r, tpLetters)))
}

func (q *tpG) strExpr() {
	has := bytes.IndexByte(q.kinds, 's') >= 0
	if has && q.r.Chance(75) {
		for {
			if k := q.pk('s'); k <= len(q.kinds) && q.kinds[k-1] == 's' {
				q.w("%p" + strconv.Itoa(k))
				return
			}
		}
	}
	q.w("%g" + q.letter())
}

func (q *tpG) intExpr(d int) {
	r := q.r
	k := r.Intn(100)
	if d <= 0 && k >= 62 && k < 93 {
		k = r.Intn(62)
	}
	switch {
	case k < 30:
		q.w("%p" + strconv.Itoa(q.pk('i')))
	case k < 45:
		n := r.Intn(301)
		if r.Chance(70) {
			n = h.Pick(r, tpConsts)
		}
		q.w("%{" + strconv.Itoa(n) + "}")
	case k < 52:
		c := byte(r.Range(1, 255))
		if (c == '%' || c == ';') && !r.Chance(30) {
			c = 'a'
		}
		if r.Chance(2) {
			c = h.Pick(r, []byte("%;"))
		}
		q.b.WriteString("%'")
		q.b.WriteByte(c)
		q.b.WriteByte('\'')
	case k < 62:
		q.w("%g" + q.letter())
	case k < 84:
		q.intExpr(d - 1)
		q.intExpr(d - 1)
		op := h.Pick(r, tpBinops)
		if r.Chance(5) {
			op = h.Pick(r, []byte("AO"))
		}
		q.b.WriteByte('%')
		q.b.WriteByte(op)
	case k < 89:
		q.intExpr(d - 1)
		q.w("%!")
	case k < 93:
		q.intExpr(d - 1)
		q.w("%~")
	default:
		q.strExpr()
		q.w("%l")
	}
}

// fmtSpec writes % [:] flags width [.prec] conv.
func (q *tpG) fmtSpec(conv byte) {
	r := q.r
	allowed := "-+ #"
	if conv == 'c' || conv == 's' {
		allowed = "-"
	}
	flags := ""
	if r.Chance(30) {
		for flags == "" {
			for i := 0; i < len(allowed); i++ {
				if r.Chance(45) {
					flags += allowed[i : i+1]
				}
			}
		}
	}
	colon := r.Chance(20)
	if flags != "" {
		colon = flags[0] == '-' || flags[0] == '+' || r.Chance(80)
	}
	width, prec := "", ""
	if r.Chance(50) {
		width = strconv.Itoa(r.Range(1, 12))
		if strings.IndexByte("doxX", conv) >= 0 && !strings.Contains(flags, "-") && r.Chance(25) {
			width = "0" + width
		}
	}
	if conv != 'c' && r.Chance(25) {
		prec = "." + strconv.Itoa(r.Range(0, 8))
	}
	if !colon && flags == "" && width == "" && prec == "" && strings.IndexByte("dsc", conv) >= 0 {
		width = strconv.Itoa(r.Range(1, 12))
	}
	q.w("%")
	if colon {
		q.w(":")
	}
	q.w(flags + width + prec + string(rune(conv)))
}

func (q *tpG) out() {
	if q.plain {
		if q.r.Chance(70) {
			q.intExpr(3)
			q.w("%d")
		} else {
			q.strExpr()
			q.w("%s")
		}
		return
	}
	switch k := q.r.Intn(100); {
	case k < 30:
		q.intExpr(3)
		q.w("%d")
	case k < 40:
		q.intExpr(3)
		q.w("%c")
	case k < 55:
		q.strExpr()
		q.w("%s")
	case k < 80:
		q.intExpr(3)
		q.fmtSpec(h.Pick(q.r, []byte("doxX")))
	case k < 92:
		q.strExpr()
		q.fmtSpec('s')
	default:
		q.intExpr(3)
		q.fmtSpec('c')
	}
}

func (q *tpG) test() {
	if q.r.Chance(50) {
		q.w("%p" + strconv.Itoa(q.pk('i')))
	} else {
		q.intExpr(2)
	}
}

func (q *tpG) cond(d int) {
	q.w("%?")
	q.test()
	q.w("%t")
	q.prog(d - 1)
	for n := h.Pick(q.r, []int{0, 0, 0, 0, 0, 0, 1, 1, 1, 2}); n > 0; n-- {
		q.w("%e")
		q.test()
		q.w("%t")
		q.prog(d - 1)
	}
	if q.r.Chance(60) {
		q.w("%e")
		q.prog(d - 1)
	}
	q.w("%;")
}

func (q *tpG) item(d int) {
	r := q.r
	k := r.Intn(100)
	if d <= 0 && k >= 84 {
		k = 30 + r.Intn(40)
	}
	switch {
	case k < 27:
		for n := r.Range(1, 4); n > 0; n-- {
			c := byte(r.Range(0x20, 0x7e))
			if c == '%' {
				c = '_'
			}
			q.b.WriteByte(c)
		}
		if r.Chance(12) {
			if r.Chance(30) {
				q.b.WriteByte(byte(r.Range(0x80, 0xff)))
			} else {
				q.b.WriteByte(h.Pick(r, []byte("$<>;")))
			}
		}
	case k < 30:
		q.w("%%")
	case k < 70:
		q.out()
	case k < 72:
		q.w("%i")
	case k < 84:
		if q.noStore {
			q.out()
			break
		}
		if r.Chance(70) {
			q.intExpr(3)
		} else {
			q.strExpr()
		}
		q.w("%P" + q.letter())
	default:
		q.cond(d)
	}
}

func (q *tpG) prog(d int) {
	for n := q.r.Range(1, 4); n > 0; n-- {
		q.item(d)
	}
}

func tpGrammarCall(r *h.Rand) string {
	n := r.Range(1, 4)
	if r.Chance(30) {
		n = r.Range(0, 9)
	}
	shown, kinds := tpParams(r, n, r.Bool())
	q := &tpG{r: r, kinds: kinds}
	d := 4
	if r.Chance(50) {
		d = r.Range(0, 3)
	}
	q.prog(d)
	return tpCall(q.b.String(), shown...)
}

const tpAlphabet = "%?te;pPg12905{}'+-*/m&|^~!=<>lcdsxXo:.# iAaZz$"

func tpRandomCall(r *h.Rand) string {
	b := make([]byte, r.Range(1, 40))
	for i := range b {
		switch k := r.Intn(100); {
		case k < 35:
			b[i] = '%'
		case k < 42:
			b[i] = byte(r.Intn(256))
		default:
			b[i] = tpAlphabet[r.Intn(len(tpAlphabet))]
		}
	}
	shown, _ := tpParams(r, r.Range(0, 3), r.Bool())
	return tpCall(string(b), shown...)
}

// ---- call histories on one Terminfo value (C07: "per-call dynamic and cross-call static variables")
//
// A TParm result is a function of (string, parameters, static variables at the time of the call) and of nothing else:
// not of which strings were expanded before, not of whether the same call was made earlier.  A history draws its
// calls from a small set of call templates (program + parameters), so identical calls recur with other calls between
// them: readers (%g<static>, no %P), writers (%P<static>), read-modify-write programs, all over the same two static
// letters.  The reference threads the static variables along the line.

type tpTemplate struct {
	call   string
	reader bool
	writer bool
}

func tpHistoryTemplate(r *h.Rand, lets []byte, kind int) tpTemplate {
	statics := lets[:2]
	n := r.Range(0, 2)
	if kind == 1 && n == 0 {
		n = 1
	}
	shown, kinds := tpParams(r, n, r.Chance(30))
	q := &tpG{r: r, kinds: kinds, plain: true, lets: lets, noStore: kind == 0}
	var prog string
	L := string(rune(h.Pick(r, statics)))
	switch {
	case r.Chance(35): // the canonical shapes
		switch kind {
		case 0:
			prog = h.Pick(r, []string{"%g" + L + "%d", "<%g" + L + "%s>", "%?%g" + L + "%tY%eN%;", "%g" + L + "%{1}%+%d", "%p1%d:%g" + L + "%d"})
		case 1:
			prog = h.Pick(r, []string{"%p1%P" + L, "%p1%P" + L + "ok", "%p1%{1}%+%P" + L, "%p1%p2%+%P" + L + "%p1%d"})
		default:
			prog = h.Pick(r, []string{"%g" + L + "%{1}%+%P" + L + "%g" + L + "%d", "%g" + L + "%d%p1%P" + L, "%g" + L + "%Pa%p1%P" + L + "%ga%d"})
		}
	default:
		d := r.Range(0, 2)
		q.prog(d)
		prog = q.b.String()
		hasG, hasP := false, false
		for _, c := range statics {
			hasG = hasG || strings.Contains(prog, "%g"+string(rune(c)))
			hasP = hasP || strings.Contains(prog, "%P"+string(rune(c)))
		}
		if kind != 1 && !hasG {
			prog += "%g" + L + h.Pick(r, []string{"%d", "%s"})
		}
		if kind != 0 && !hasP {
			if r.Bool() {
				prog += "%p1%P" + L
			} else {
				prog = "%p1%P" + L + prog
			}
		}
	}
	return tpTemplate{call: tpCall(prog, shown...), reader: kind != 1, writer: kind != 0}
}

func genTParmHistories(g *h.Gen) {
	r := g.R
	// (1) store in one string, read in another, for every static letter, with the reader repeated
	for c := byte('A'); c <= 'Z'; c++ {
		L := string(rune(c))
		rd, rd2 := tpCall("%g"+L+"%d"), tpCall("[%g"+L+"%s]")
		v1, v2 := r.Range(1, 999), r.Range(1000, 1999)
		tpEmit(g, "history", rd, tpCall("%p1%P"+L, tpI(v1)), rd, rd, tpCall("%p1%P"+L, tpI(v2)), rd, rd2, tpCall("%p1%P"+L, tpS("s"+L)), rd2, rd)
	}
	// (2) random histories over call templates
	for i, n := 0, g.N(1500, 40000); i < n; i++ {
		up := []byte("ABCDEFGHIJKLMNOPQRSTUVWXYZ")
		a := r.Intn(26)
		b := (a + 1 + r.Intn(25)) % 26
		lets := []byte{up[a], up[b], byte('a' + r.Intn(26))}
		ts := []tpTemplate{tpHistoryTemplate(r, lets, 0), tpHistoryTemplate(r, lets, 1)}
		for k := r.Range(1, 3); k > 0; k-- {
			ts = append(ts, tpHistoryTemplate(r, lets, r.Intn(3)))
		}
		var calls []string
		if r.Chance(50) { // read, store, read again (the same call)
			calls = append(calls, ts[0].call, ts[1].call, ts[0].call)
		}
		for k := r.Range(3, 7); k > 0; k-- {
			if len(calls) > 0 && r.Chance(20) {
				calls = append(calls, calls[len(calls)-1]) // the identical call twice in a row
			} else {
				calls = append(calls, h.Pick(r, ts).call)
			}
		}
		if r.Chance(30) { // the terminal database is looked at between the evaluations (another screen is opened, a tool walks the database)
			at := r.Range(1, len(calls)-1)
			lk := "@" + h.Hex([]byte(h.Pick(r, []string{"xterm", "vt100", "xterm-256color", "sun-256color", "linux", "no-such-terminal", "", "vt220", "rxvt-truecolor"})))
			calls = append(calls[:at], append([]string{lk}, calls[at:]...)...)
			if r.Chance(30) {
				calls = append(calls[:at], append([]string{"@" + h.Hex([]byte("ansi"))}, calls[at:]...)...)
			}
		}
		tpEmit(g, "history", calls...)
	}
	// (1') store, look other terminals up, read back — for a few letters
	for _, c := range []byte("AQZ") {
		L := string(rune(c))
		for _, name := range []string{"xterm", "vt100", "sun-256color", "no-such-terminal"} {
			tpEmit(g, "history", tpCall("%p1%P"+L, tpI(r.Range(1, 999))), tpCall("%g"+L+"%d"), "@"+h.Hex([]byte(name)), tpCall("%g"+L+"%d"), "@"+h.Hex([]byte("linux")), tpCall("[%g"+L+"%d]"))
		}
	}
	// (3) database strings: identical calls repeated and interleaved with calls of other entries' strings
	db := tpDBStrings()
	dbCall := func(d tpDBStr) string {
		ps := make([]string, d.arity)
		for j := range ps {
			if d.str {
				ps[j] = tpS(h.Pick(r, []string{"", "abc", "https://example.com/a?b=c", "a%b"}))
			} else if r.Bool() {
				ps[j] = tpI(h.Pick(r, tpB))
			} else {
				ps[j] = tpI(r.Intn(256))
			}
		}
		return tpCall(d.s, ps...)
	}
	for i, n := 0, g.N(400, 10000); i < n; i++ {
		var ts []string
		for k := r.Range(2, 4); k > 0; k-- {
			d := h.Pick(r, db)
			ts = append(ts, dbCall(d))
			if r.Chance(50) {
				ts = append(ts, dbCall(d)) // same string, other parameters
			}
		}
		var calls []string
		for k := r.Range(4, 8); k > 0; k-- {
			if len(calls) > 0 && r.Chance(25) {
				calls = append(calls, calls[len(calls)-1])
			} else {
				calls = append(calls, h.Pick(r, ts))
			}
		}
		tpEmit(g, "dbhistory", calls...)
	}
}

func genTParm(g *h.Gen) {
	r := g.R
	// (w) fixed witnesses
	nest := "%?%p1%t%?%p2%tA%eB%;%eC%;"
	for _, p := range [][2]int{{0, 1}, {1, 0}, {1, 1}, {0, 0}} {
		tpEmit(g, "witness", tpCall(nest, tpI(p[0]), tpI(p[1])))
	}
	for _, w := range []struct {
		prog string
		ps   []int
	}{{"%p1%p2%A%d", []int{1, 1}}, {"%p1%p2%A%d", []int{1, 0}}, {"%p1%p2%O%d", []int{0, 0}}, {"%p1%p2%O%d", []int{0, 1}},
		{"%p1%#x", []int{255}}, {"%p1% d", []int{5}}} {
		var ps []string
		for _, v := range w.ps {
			ps = append(ps, tpI(v))
		}
		tpEmit(g, "witness", tpCall(w.prog, ps...))
	}
	tpEmit(g, "witness", tpCall("%p1%PA", tpI(5)), tpCall("%gA%d"))
	// (a) the database and the hard-coded strings over their parameter domains
	genTParmDB(g)
	// (h) call histories: static variables across calls, identical calls repeated
	genTParmHistories(g)
	// (b) grammar-directed well-formed programs; (c) random / malformed byte strings
	n := g.N(6000, 300000)
	for i := 0; i < n; i++ {
		k := 1
		if r.Chance(30) {
			k = r.Range(2, 3)
		}
		calls := make([]string, k)
		for j := range calls {
			calls[j] = tpGrammarCall(r)
		}
		tpEmit(g, "grammar", calls...)
	}
	for i := 0; i < n; i++ {
		k := 1
		if r.Chance(20) {
			k = r.Range(2, 3)
		}
		calls := make([]string, k)
		for j := range calls {
			calls[j] = tpRandomCall(r)
		}
		tpEmit(g, "random", calls...)
	}
}

// ---------------------------------------------------------------------------------------------- history prefix

// tiSplitHistory: "<main>; <call>; <call>" → the fields of the main part and the calls that precede it
func tiSplitHistory(line string) (f []string, calls []string) {
	parts := h.SplitTrim(line, ";")
	if len(parts) == 0 {
		return nil, nil
	}
	return strings.Fields(parts[0]), parts[1:]
}

// tiRunHistory makes the TParm calls of a history prefix on a fresh Terminfo value (the static variables are process
// state: they are reset first, like at the start of every tparm line).
func tiRunHistory(calls []string, tags map[string]bool) {
	if len(calls) == 0 {
		return
	}
	tags["history"] = true
	ti := &terminfo.Terminfo{}
	ti.TParm(tpResetProg, "")
	for _, c := range calls {
		f := strings.Fields(c)
		if len(f) == 0 {
			continue
		}
		if strings.HasPrefix(f[0], "@") { // a registry lookup made before the calls of the line (what it returns is not used)
			_, _ = terminfo.LookupTerminfo(string(h.Unhex(f[0][1:])))
			tags["lookup-before-call"] = true
			continue
		}
		prog := h.Unhex(f[0])
		var params []interface{}
		for _, p := range f[1:] {
			if strings.HasPrefix(p, "s:") {
				params = append(params, string(h.Unhex(p[2:])))
			} else {
				n, _ := strconv.ParseInt(strings.TrimPrefix(p, "i:"), 10, 64)
				params = append(params, int(n))
			}
		}
		tpTags(prog, tags)
		ti.TParm(string(prog), params...)
	}
}

// tiSiblingLookups: lookups of the names the database synthesizes from this entry's family (NAME-256color, NAME-truecolor of the
// base of NAME-color / NAME-88color / NAME): what TColor / TGoto of the entry itself yield is no function of them
func tiSiblingLookups(r *h.Rand, name string) []string {
	base := name
	for _, sfx := range []string{"-256color", "-88color", "-16color", "-color", "-truecolor"} {
		base = strings.TrimSuffix(base, sfx)
	}
	var out []string
	for k := r.Range(1, 2); k > 0; k-- {
		out = append(out, "@"+h.Hex([]byte(base+h.Pick(r, []string{"-256color", "-256color", "-truecolor", "-88color", ""}))))
	}
	return out
}

func tiHistorySuffix(calls []string) string {
	if len(calls) == 0 {
		return ""
	}
	return "; " + strings.Join(calls, "; ")
}

// tiWatchdog runs body under a 5 s watchdog (a panic in the worker is reported the way the driver reports one).
func tiWatchdog(what string, body func() h.Result) h.Result {
	if r, skip := tiHangSkip(); skip {
		return r
	}
	ch := make(chan h.Result, 1)
	go func() {
		defer func() {
			if p := recover(); p != nil {
				frame := ""
				for _, l := range strings.Split(string(debug.Stack()), "\n") {
					if strings.Contains(l, "gdamore/tcell") && !strings.Contains(l, "verif") {
						frame = strings.TrimSpace(l)
						break
					}
				}
				ch <- h.Result{Obs: "PANIC", Findings: []h.Finding{{Class: "panic", Msg: fmt.Sprintf("%v at %s", p, frame)}}, Nontrivial: true, Tags: []string{"panic"}}
			}
		}()
		ch <- body()
	}()
	tm := time.NewTimer(5 * time.Second)
	defer tm.Stop()
	select {
	case r := <-ch:
		return r
	case <-tm.C:
		atomic.AddInt32(&tiHangs, 1)
		return h.Result{Obs: "HANG", Findings: []h.Finding{{Class: "hang", Msg: what + " did not return within 5s"}}, Nontrivial: true, Tags: []string{"hang"}}
	}
}

// tpCutCall: a well-formed program of the grammar generator cut somewhere in the middle (so that it may end inside a
// conditional: after `%?`, inside a then-part that is or is not taken, inside an else-part, or on a lone `%`), or one of
// the plain conditional shapes without its closing `%;`
func tpCutCall(r *h.Rand) string {
	if r.Chance(40) {
		a, b := tpPrintable(r, 0, 3), tpPrintable(r, 0, 3)
		shapes := []string{"%?%p1%t" + a, "%?%p1%t" + a + "%e" + b, "%?%p1%t" + a + "%e%p2%t" + b, "%?%p1%t%?%p2%t" + a + "%;" + b,
			"%?%p1%t" + a + "%e%?%p2%t" + b + "%e", "%?%p1%p2%=%t" + a + "%e" + b, "%?%p1%{8}%<%t3%p1%d%e%p1%{16}%<%t9%p1%{8}%-%d", "%?"}
		return tpCall(h.Pick(r, shapes), tpI(h.Pick(r, []int{0, 1, 0, 1, 7, 8, 300})), tpI(h.Pick(r, []int{0, 1, 9})))
	}
	for try := 0; try < 20; try++ {
		c := tpGrammarCall(r)
		f := strings.Fields(c)
		prog := h.Unhex(f[0])
		if len(prog) < 4 {
			continue
		}
		cut := r.Range(1, len(prog)-1)
		return strings.TrimSpace(h.Hex(prog[:cut]) + " " + strings.Join(f[1:], " "))
	}
	return tpCall("%?%p1%t", tpI(0))
}

// tiHistoryCalls: 1..4 preceding TParm calls
func tiHistoryCalls(r *h.Rand, dbs []tpDBStr) []string {
	var calls []string
	for k := r.Range(1, 4); k > 0; k-- {
		switch x := r.Intn(10); {
		case x < 4:
			calls = append(calls, tpCutCall(r))
		case x < 6:
			calls = append(calls, tpGrammarCall(r))
		case x < 8:
			calls = append(calls, tpRandomCall(r))
		default:
			d := h.Pick(r, dbs)
			var ps []string
			for i := 0; i < d.arity; i++ {
				if d.str {
					ps = append(ps, tpS(tpPrintable(r, 0, 6)))
				} else {
					ps = append(ps, tpI(h.Pick(r, tpB)))
				}
			}
			calls = append(calls, tpCall(d.s, ps...))
		}
	}
	return calls
}

// ---------------------------------------------------------------------------------------------- tputs

var (
	tputsMarker = regexp.MustCompile(`(?s)\$<([^>]*)>`)
	tputsSpec   = regexp.MustCompile(`^[0-9]+(\.[0-9]*)?[*/]*$`)
)

var tputsSlow int32

func execTPuts(line string) h.Result {
	return tiWatchdog("TPuts", func() h.Result { return tputsBody(line) })
}

func tputsBody(line string) h.Result {
	f, hist := tiSplitHistory(line)
	for len(f) < 3 {
		f = append(f, "-")
	}
	pad, s := h.Unhex(f[1]), string(h.Unhex(f[2]))
	tags := map[string]bool{}
	tiRunHistory(hist, tags)
	ti := &terminfo.Terminfo{PadChar: string(pad)}
	// TPuts runs under a deadline: a tree that sleeps where it must not (or far longer than the string asks) would otherwise
	// turn the run into hours of sleeping.  The call that overran is abandoned (it owns its buffer) and reported.
	budget := 400 * time.Millisecond
	if len(pad) > 0 {
		budget = 3 * time.Second
	} else if atomic.LoadInt32(&tputsSlow) >= 8 {
		budget = 60 * time.Millisecond
	}
	done := make(chan []byte, 1)
	t0 := time.Now()
	go func() {
		var buf bytes.Buffer
		ti.TPuts(&buf, s)
		done <- buf.Bytes()
	}()
	var out []byte
	overran := false
	select {
	case out = <-done:
	case <-time.After(budget):
		overran = true
		atomic.AddInt32(&tputsSlow, 1)
	}
	el := time.Since(t0)
	res := h.Result{Obs: h.Hex(out)}
	if overran {
		res.Obs = "TIMEOUT"
	}
	res.Derived = []string{"tputsref " + f[2] + " => " + res.Obs}
	has := strings.Contains(s, "$<")
	res.Nontrivial = has
	if has {
		tags["marker"] = true
		for _, m := range tputsMarker.FindAllStringSubmatch(s, -1) {
			tags["terminated"] = true
			if !tputsSpec.MatchString(m[1]) {
				tags["nonspec"] = true
			}
		}
		if strings.Contains(tputsMarker.ReplaceAllString(s, ""), "$<") {
			tags["unterminated"] = true
		}
	} else {
		tags["nomarker"] = true
	}
	if len(pad) == 0 && has && el > 40*time.Millisecond {
		res.Findings = append(res.Findings, h.Finding{Class: "slept-without-padchar", Msg: fmt.Sprintf("TPuts took %v although PadChar is empty", el)})
	}
	if len(f) > 3 && len(pad) > 0 {
		tags["timed"] = true
		if min := time.Duration(h.Atoi(f[3])) * time.Millisecond; el < min {
			res.Findings = append(res.Findings, h.Finding{Class: "no-delay-with-padchar", Msg: fmt.Sprintf("TPuts took %v, the string asks for at least %v of padding", el, min)})
		}
	}
	res.Tags = tiTagList(tags)
	return res
}

func genTPuts(g *h.Gen) {
	r := g.R
	seen := map[string]bool{}
	emit := func(pad, s string, extra string) {
		l := "tputs " + pad + " " + h.Hex([]byte(s)) + extra
		if !seen[l] {
			seen[l] = true
			g.Emit("%s", l)
		}
	}
	// every capability string of the database that carries a padding marker
	dbs := map[string]int{}
	for _, e := range tiEntries() {
		v := reflect.ValueOf(e.t).Elem()
		for i := 0; i < v.NumField(); i++ {
			if fv := v.Field(i); fv.Kind() == reflect.String && strings.Contains(fv.String(), "$<") {
				dbs[fv.String()]++
			}
		}
	}
	for _, s := range h.SortedKeys(dbs) {
		emit("-", s, "")
	}
	const alpha = "$$$$$<<<<<>>>>.*/0159ab\x1b[m "
	fixed := []string{"$<>", "$<abc>", "$<5", "$<5x>", "$<.5>", "$<5.>", "$<5..2>", "$<5*/>", "$<5/*>", "$<5**>", "$$<5>", "$<$<5>>", "<5>", "$ <5>"}
	digits := func() string {
		b := make([]byte, r.Range(1, 4))
		for i := range b {
			b[i] = byte('0' + r.Intn(10))
		}
		return string(b)
	}
	n := len(g.Lines) + g.N(20000, 500000)
	for i := 0; len(g.Lines) < n && i < 4*n; i++ {
		var sb strings.Builder
		if i%2 == 0 {
			for k := r.Range(0, 24); k > 0; k-- {
				sb.WriteByte(alpha[r.Intn(len(alpha))])
			}
		} else {
			for k := r.Range(1, 4); k > 0; k-- {
				switch r.Intn(6) {
				case 0, 1:
					for j := r.Range(1, 4); j > 0; j-- {
						sb.WriteByte("ab \x1b[m019"[r.Intn(9)])
					}
				case 2:
					sb.WriteString("$<" + digits() + ">")
				case 3:
					sb.WriteString("$<" + digits() + "." + digits() + ">")
				case 4:
					sb.WriteString("$<" + digits() + h.Pick(r, []string{"", "*", "/", "*/"}) + ">")
				default:
					sb.WriteString(h.Pick(r, fixed))
				}
			}
		}
		emit("-", sb.String(), "")
	}
	// histories: arbitrary TParm calls precede the TPuts call in the same process
	hdbs := tpDBStrings()
	hs := h.SortedKeys(dbs)
	for i := g.N(150, 5000); i > 0 && len(hs) > 0; i-- {
		emit("-", h.Pick(r, hs), tiHistorySuffix(tiHistoryCalls(r, hdbs)))
	}
	// the Go-side timing oracle in every tier (about 0.2 s): PadChar set => every delay of the string is honoured, whatever
	// specifications precede it in the same string
	for _, t := range []struct {
		s  string
		ms int
	}{{"A$<0.5>B$<40>C", 40}, {"$<1.5>$<25>$<10>", 36}, {"$<2.>x$<30>", 32}, {"$<12>$<0.9>$<20>", 32}} {
		emit("00", t.s, " "+strconv.Itoa(t.ms))
	}
	if g.Thorough() { // the Go-side timing oracle: PadChar set => the delay is honoured; PadChar empty => no sleep
		for _, t := range []struct {
			s  string
			ms int
		}{{"$<20>", 20}, {"a$<15>b$<10/>c", 25}, {"$<1.5>", 1}, {"$<30*>", 30}, {"$<5>$<5>$<5>", 15}, {"$<0>", 0},
			{"$<10.0>", 10}, {"$<2.50>", 2}, {"x$<12*/>y", 12}, {"$<7/>", 7}, {"$<25>tail", 25}, {"head$<9>", 9},
			{"$<3>$<4.5>", 7}, {"$<40>", 40}, {"$<1>", 1}, {"$<05>", 5}, {"$<16*>$<4>", 20}, {"\x1b[H$<11/>\x1b[J", 11}} {
			emit("00", t.s, " "+strconv.Itoa(t.ms))
		}
		emit("-", "$<300>", "")
		emit("-", "a$<200>b$<150>", "")
	}
}

// ---------------------------------------------------------------------------------------------- tgoto, tcolor

func tiLookup(name string) *terminfo.Terminfo { return terminfo.VerifEntries()[name] }

func execTGoto(line string) h.Result {
	return tiWatchdog("TGoto", func() h.Result { return tgotoBody(line) })
}

func tgotoBody(line string) h.Result {
	f, hist := tiSplitHistory(line)
	if len(f) != 4 {
		return h.Result{Obs: "bad-line"}
	}
	ti, row := tiLookup(f[1]), h.Atoi(f[2])
	if ti == nil {
		return h.Result{Obs: "no-entry", Tags: []string{"no-entry"}}
	}
	tags := map[string]bool{"tgoto": true}
	tiRunHistory(hist, tags)
	var outs []string
	for _, c := range tiList(f[3]) {
		outs = append(outs, h.Hex([]byte(ti.TGoto(c, row))))
	}
	obs := strings.Join(outs, ",")
	return h.Result{Obs: obs, Nontrivial: true, Tags: tiTagList(tags),
		Derived: []string{"tgotoref " + f[1] + " " + f[2] + " " + f[3] + tiHistorySuffix(hist) + " => " + obs}}
}

func genTGoto(g *h.Gen) {
	var S []int
	for i := 0; i <= 40; i++ {
		S = append(S, i)
	}
	tail := []int{50, 63, 64, 79, 80, 94, 95, 96, 99, 100, 127, 128, 131, 132, 199, 200, 222, 223, 224, 225, 254, 255, 256, 299, 300}
	S = append(S, tail...)
	cols := "0-40," + tiShowList(tail)
	if g.Thorough() {
		S = S[:0]
		for i := 0; i <= 300; i++ {
			S = append(S, i)
		}
		cols = "0-300"
	}
	ents := tiEntries()
	for _, e := range ents {
		for _, row := range S {
			g.Emit("tgoto %s %d %s", e.name, row, cols)
		}
	}
	// histories: arbitrary TParm calls precede the TGoto calls in the same process (emitted last: what a history leaves
	// behind in a defective tree must not reach the plain lines above)
	dbs := tpDBStrings()
	for i := g.N(300, 8000); i > 0; i-- {
		var cs []int
		for k := g.R.Range(1, 5); k > 0; k-- {
			cs = append(cs, h.Pick(g.R, S))
		}
		g.Emit("tgoto %s %d %s%s", h.Pick(g.R, ents).name, h.Pick(g.R, S), tiShowList(cs), tiHistorySuffix(tiHistoryCalls(g.R, dbs)))
	}
}

func execTColor(line string) h.Result {
	return tiWatchdog("TColor", func() h.Result { return tcolorBody(line) })
}

func tcolorBody(line string) h.Result {
	f, hist := tiSplitHistory(line)
	if len(f) != 4 {
		return h.Result{Obs: "bad-line"}
	}
	ti, fg := tiLookup(f[1]), h.Atoi(f[2])
	if ti == nil {
		return h.Result{Obs: "no-entry", Tags: []string{"no-entry"}}
	}
	tags := map[string]bool{"tcolor": true, "colors:" + strconv.Itoa(ti.Colors): true}
	tiRunHistory(hist, tags)
	var outs []string
	for _, bg := range tiList(f[3]) {
		outs = append(outs, h.Hex([]byte(ti.TColor(fg, bg))))
	}
	obs := strings.Join(outs, ",")
	return h.Result{Obs: obs, Nontrivial: true, Tags: tiTagList(tags),
		Derived: []string{"tcolorref " + f[1] + " " + f[2] + " " + f[3] + tiHistorySuffix(hist) + " => " + obs}}
}

func genTColor(g *h.Gen) {
	C := []int{-2, -1, 0, 1, 7, 8, 9, 15, 16, 17, 87, 88, 89, 255, 256, 257, 300}
	bgs := tiShowList(C)
	if g.Thorough() {
		C = C[:0]
		for i := -1; i <= 300; i++ {
			C = append(C, i)
		}
		bgs = "-1,0-300"
	}
	ents := tiEntries()
	for _, e := range ents {
		for _, fg := range C {
			g.Emit("tcolor %s %d %s", e.name, fg, bgs)
		}
	}
	// histories: arbitrary TParm calls precede the TColor calls in the same process (emitted last, see genTGoto)
	dbs := tpDBStrings()
	for i := g.N(300, 8000); i > 0; i-- {
		var bs []int
		for k := g.R.Range(1, 4); k > 0; k-- {
			bs = append(bs, h.Pick(g.R, C))
		}
		en := h.Pick(g.R, ents).name
		hist := tiHistoryCalls(g.R, dbs)
		if g.R.Chance(40) {
			hist = append(tiSiblingLookups(g.R, en), hist...)
		}
		g.Emit("tcolor %s %d %s%s", en, h.Pick(g.R, C), tiShowList(bs), tiHistorySuffix(hist))
	}
	// every entry once more after the lookups of its family's synthesized names
	for _, e := range ents {
		g.Emit("tcolor %s %d %s%s", e.name, h.Pick(g.R, []int{-1, 1, 9, 200}), tiShowList([]int{-1, 1, 9, 12, 100, 255}), tiHistorySuffix(tiSiblingLookups(g.R, e.name)))
	}
}

func init() {
	h.Register(&h.Engine{Name: "tparm",
		Rule: "TParm call sequences (1-10 calls per line on one Terminfo value, static variables reset first): fixed witnesses, call histories over a few call templates sharing two static variables (readers, writers, read-modify-write; identical calls recur) and over database strings, every parameterised string of every database entry and of tscreen.go over a stratified parameter domain, grammar-directed well-formed programs (depth<=4), random/malformed byte strings; distinct = distinct line; non-trivial = some program contains '%'",
		Gen:  genTParm, Exec: execTParm})
	h.Register(&h.Engine{Name: "tputs",
		Rule: "TPuts on strings over a padding-marker alphabet, structured marker pieces and every database string with a marker; distinct = distinct line; non-trivial = the string contains \"$<\"",
		Gen:  genTPuts, Exec: execTPuts})
	h.Register(&h.Engine{Name: "tgoto",
		Rule: "TGoto of every distinct database entry over a row x column grid (boundaries of the offset-32 and decimal conventions); distinct = distinct (entry,row,cols) line; every case is non-trivial",
		Gen:  genTGoto, Exec: execTGoto})
	h.Register(&h.Engine{Name: "tcolor",
		Rule: "TColor of every distinct database entry over fg x bg around the 8/16/88/256 boundaries and negatives; distinct = distinct (entry,fg,bgs) line; every case is non-trivial",
		Gen:  genTColor, Exec: execTColor})
}
