package engines

import (
	"fmt"
	"math"
	"math/big"
	"sort"
	"strconv"
	"strings"

	"github.com/gdamore/tcell/v2"
	"github.com/gdamore/tcell/v2/views"
	"verif/harness/h"
)

// Engines vp and box — C20: ViewPort and BoxLayout geometry.
//
// vp line:  vp <op>; <op>; …     (the recording parent View starts 0x0, see op Q)
//   ops: N x y w h (NewViewPort)  S x y ch k (SetContent, k = style tag, k==2 adds a combining rune)
//        F ch k (Fill)  C (Clear)  X (Reset)  M x y (MakeVisible)  E x y (Center)
//        U n | D n | L n | R n (Scroll Up/Down/Left/Right)  Z w h (SetSize)  T w h 0|1 (SetContentSize)
//        P x y w h (Resize)  V 0|1 (SetView nil / parent)  Q pw ph (parent changes its size)
//   reply, per op:  <forwarded calls or ->|vx,vy,vx2,vy2|px,py,px2,py2|limx,limy|w,h   joined by " ; "
//
// box line: box <op>; <op>; …  widget 0 is the root BoxLayout (horizontal), the recording root View starts 0x0 (op Z)
//   ops: L id w h (new leaf widget with preferred size)  B id o (new BoxLayout, o: 0 horizontal 1 vertical)
//        A p c f (box p .AddWidget(widget c, fill f))  I p idx c f (InsertWidget)  R p c (RemoveWidget)
//        O p o (SetOrientation)  V (box 0 .SetView(root))  Z w h (root size changes, box 0 .Resize())
//        D (box 0 .Draw())  P c w h (leaf c changes its preferred size and posts EventWidgetContent)
//        K 0|1 (first op, optional: the line was generated for the cached / computed BoxLayout.Size() variant)
//   fill factors are float64 bit patterns in decimal.
//   reply, per op: for every widget in id order  id:<view geometry px,py,w,h | root | nil>:<prefw>,<prefh>
//
// The oracles are written from the property text (see lib/props/C20.py), not from view.go / boxlayout.go.

// ---------- recording parent View

type recCall struct {
	x, y  int
	ch    rune
	comb  []rune
	style tcell.Style
}

type recView struct {
	w, h    int
	calls   []recCall
	fills   int
	resizes int
}

func (r *recView) SetContent(x, y int, ch rune, comb []rune, st tcell.Style) {
	r.calls = append(r.calls, recCall{x, y, ch, append([]rune(nil), comb...), st})
}
func (r *recView) Size() (int, int)        { return r.w, r.h }
func (r *recView) Resize(x, y, w, h int)   { r.resizes++ }
func (r *recView) Fill(rune, tcell.Style)  { r.fills++ }
func (r *recView) Clear()                  { r.fills++ }

var vpStyles = []tcell.Style{
	tcell.StyleDefault,
	tcell.StyleDefault.Foreground(tcell.ColorRed),
	tcell.StyleDefault.Background(tcell.ColorBlue).Bold(true),
}

func styleTag(st tcell.Style) int {
	for i, s := range vpStyles {
		if s == st {
			return i
		}
	}
	return 99
}

func showCalls(cs []recCall) string {
	if len(cs) == 0 {
		return "-"
	}
	var sb strings.Builder
	for i, c := range cs {
		if i > 0 {
			sb.WriteByte(' ')
		}
		fmt.Fprintf(&sb, "%d,%d,%d,%s,%d", c.x, c.y, int(c.ch), strings.ReplaceAll(h.ShowIntList(fromRunes(c.comb)), ",", "+"), styleTag(c.style))
	}
	return sb.String()
}

func vpGeom(v *views.ViewPort) string {
	a, b, c, d := v.GetVisible()
	e, f, g, i := v.GetPhysical()
	lx, ly := v.GetContentSize()
	w, hh := v.Size()
	return fmt.Sprintf("%d,%d,%d,%d|%d,%d,%d,%d|%d,%d|%d,%d", a, b, c, d, e, f, g, i, lx, ly, w, hh)
}

type vpGeo struct{ viewx, viewy, physx, physy, limx, limy, w, h int }

func geoOf(v *views.ViewPort) vpGeo {
	a, b, _, _ := v.GetVisible()
	e, f, _, _ := v.GetPhysical()
	lx, ly := v.GetContentSize()
	w, hh := v.Size()
	return vpGeo{a, b, e, f, lx, ly, w, hh}
}

func clampedAxis(off, size, lim int) bool {
	// property text: offset >= 0, and offset + view size <= content size whenever the content is larger than the view
	if off < 0 {
		return false
	}
	if lim > size && off+size > lim {
		return false
	}
	return true
}

func execVP(line string) h.Result {
	rest := strings.TrimPrefix(line, "vp ")
	ops := h.SplitTrim(rest, ";")
	var res h.Result
	parent := &recView{}
	vp := views.NewViewPort(parent, 0, 0, 0, 0)
	hasView := true
	tags := map[string]bool{}
	var obs []string
	add := func(class, format string, a ...interface{}) {
		if len(res.Findings) < 4 {
			res.Findings = append(res.Findings, h.Finding{Class: class, Msg: fmt.Sprintf(format, a...)})
		}
	}
	for _, op := range ops {
		f := strings.Fields(op)
		arg := func(i int) int {
			if i < len(f) {
				return h.Atoi(f[i])
			}
			return 0
		}
		parent.calls = nil
		pre := geoOf(vp)
		switch f[0] {
		case "N":
			vp = views.NewViewPort(parent, arg(1), arg(2), arg(3), arg(4))
			hasView = true
		case "S":
			x, y, ch, k := arg(1), arg(2), arg(3), arg(4)
			var comb []rune
			if k == 2 {
				comb = []rune{0x301}
			}
			vp.SetContent(x, y, rune(ch), comb, vpStyles[k%3])
			g := geoOf(vp)
			inWin := x >= g.viewx && x < g.viewx+g.w && y >= g.viewy && y < g.viewy+g.h
			if len(parent.calls) > 1 {
				add("vp-dup", "after %q: one SetContent forwarded %d calls", op, len(parent.calls))
			}
			for _, c := range parent.calls {
				if !(c.x >= g.physx && c.x < g.physx+g.w && c.y >= g.physy && c.y < g.physy+g.h) {
					add("vp-escape", "after %q: parent received (%d,%d) outside the ViewPort rectangle [%d,%d)x[%d,%d)", op, c.x, c.y, g.physx, g.physx+g.w, g.physy, g.physy+g.h)
				}
				if c.x != x-g.viewx+g.physx || c.y != y-g.viewy+g.physy {
					add("vp-translate", "after %q: parent received (%d,%d), want (%d,%d) = content - offset(%d,%d) + origin(%d,%d)", op, c.x, c.y, x-g.viewx+g.physx, y-g.viewy+g.physy, g.viewx, g.viewy, g.physx, g.physy)
				}
				if int(c.ch) != ch || styleTag(c.style) != k%3 || len(c.comb) != len(comb) {
					add("vp-payload", "after %q: payload changed on the way to the parent", op)
				}
				if !inWin {
					add("vp-escape", "after %q: content (%d,%d) outside the visible window [%d,%d)x[%d,%d) was forwarded", op, x, y, g.viewx, g.viewx+g.w, g.viewy, g.viewy+g.h)
				}
			}
			if inWin && hasView {
				tags["set-visible"] = true
				res.Nontrivial = true
				if len(parent.calls) == 0 {
					add("vp-lost", "after %q: content (%d,%d) inside the visible window [%d,%d)x[%d,%d) did not reach the parent", op, x, y, g.viewx, g.viewx+g.w, g.viewy, g.viewy+g.h)
				}
			} else {
				tags["set-clipped"] = true
			}
			if g.limx != pre.limx || g.limy != pre.limy {
				tags["autogrow"] = true
			}
		case "F", "C":
			if f[0] == "F" {
				vp.Fill(rune(arg(1)), vpStyles[arg(2)%3])
			} else {
				vp.Clear()
			}
			g := geoOf(vp)
			seen := map[[2]int]int{}
			for _, c := range parent.calls {
				if !(c.x >= g.physx && c.x < g.physx+g.w && c.y >= g.physy && c.y < g.physy+g.h) {
					add("vp-fill-escape", "after %q: Fill reached (%d,%d) outside the ViewPort rectangle [%d,%d)x[%d,%d)", op, c.x, c.y, g.physx, g.physx+g.w, g.physy, g.physy+g.h)
				}
				seen[[2]int{c.x, c.y}]++
			}
			if hasView && g.w > 0 && g.h > 0 {
				tags["fill"] = true
				if len(seen) != g.w*g.h {
					add("vp-fill-lost", "after %q: Fill covered %d of the %d cells of the ViewPort", op, len(seen), g.w*g.h)
				}
			}
		case "X":
			vp.Reset()
		case "M":
			vp.MakeVisible(arg(1), arg(2))
			tags["makevisible"] = true
		case "E":
			vp.Center(arg(1), arg(2))
			tags["center"] = true
		case "U":
			vp.ScrollUp(arg(1))
		case "D":
			vp.ScrollDown(arg(1))
		case "L":
			vp.ScrollLeft(arg(1))
		case "R":
			vp.ScrollRight(arg(1))
		case "Z":
			vp.SetSize(arg(1), arg(2))
		case "T":
			vp.SetContentSize(arg(1), arg(2), arg(3) == 1)
		case "P":
			vp.Resize(arg(1), arg(2), arg(3), arg(4))
			tags["resize"] = true
		case "V":
			if arg(1) == 1 {
				vp.SetView(parent)
				hasView = true
			} else {
				vp.SetView(nil)
				hasView = false
				tags["nilview"] = true
			}
		case "Q":
			parent.w, parent.h = arg(1), arg(2)
		default:
			obs = append(obs, "bad-op")
			continue
		}
		g := geoOf(vp)
		// clamping: scrolling, centring and make-visible never move the window outside the content limits
		switch f[0] {
		case "M", "E", "U", "D", "L", "R":
			if g.viewx != pre.viewx && !clampedAxis(g.viewx, g.w, g.limx) {
				add("vp-clamp", "after %q: x offset moved %d -> %d, outside the limits (width %d, content %d)", op, pre.viewx, g.viewx, g.w, g.limx)
			}
			if g.viewy != pre.viewy && !clampedAxis(g.viewy, g.h, g.limy) {
				add("vp-clamp", "after %q: y offset moved %d -> %d, outside the limits (height %d, content %d)", op, pre.viewy, g.viewy, g.h, g.limy)
			}
			if g.viewx != pre.viewx || g.viewy != pre.viewy {
				tags["moved"] = true
				res.Nontrivial = true
			}
			if g.physx != pre.physx || g.physy != pre.physy || g.w != pre.w || g.h != pre.h || g.limx != pre.limx || g.limy != pre.limy {
				add("vp-clamp", "after %q: a scrolling op changed placement, size or content size", op)
			}
		}
		obs = append(obs, showCalls(parent.calls)+"|"+vpGeom(vp))
	}
	res.Obs = strings.Join(obs, " ; ")
	for t := range tags {
		res.Tags = append(res.Tags, t)
	}
	sort.Strings(res.Tags)
	return res
}

func genVP(g *h.Gen) {
	r := g.R
	n := g.N(5000, 400000)
	for i := 0; i < n; i++ {
		pw, ph := r.Range(0, 14), r.Range(0, 8)
		if r.Chance(85) {
			pw, ph = r.Range(4, 14), r.Range(2, 8)
		}
		ops := []string{fmt.Sprintf("Q %d %d", pw, ph)}
		sz := func(m int) int { // sizes incl. negative / oversized
			switch k := r.Intn(20); {
			case k == 0:
				return -1
			case k == 1:
				return r.Range(-3, -1)
			case k == 2:
				return m + r.Range(1, 4)
			default:
				return r.Range(0, m)
			}
		}
		org := func(m int) int {
			switch k := r.Intn(12); {
			case k == 0:
				return r.Range(-3, -1)
			case k == 1:
				return m + r.Range(0, 2)
			default:
				return r.Range(0, m)
			}
		}
		ops = append(ops, fmt.Sprintf("N %d %d %d %d", org(pw), org(ph), sz(pw), sz(ph)))
		if r.Chance(70) {
			ops = append(ops, fmt.Sprintf("T %d %d %d", r.Range(0, 30), r.Range(0, 16), r.Intn(2)))
		}
		cx := func() int {
			if r.Chance(55) {
				return r.Range(-1, pw)
			}
			return r.Range(-3, 32)
		}
		cy := func() int {
			if r.Chance(55) {
				return r.Range(-1, ph)
			}
			return r.Range(-3, 18)
		}
		nops := r.Range(4, 40)
		for j := 0; j < nops; j++ {
			switch k := r.Intn(100); {
			case k < 30:
				ops = append(ops, fmt.Sprintf("S %d %d %d %d", cx(), cy(), r.Range(33, 126), r.Intn(3)))
			case k < 34:
				ops = append(ops, fmt.Sprintf("F %d %d", r.Range(33, 126), r.Intn(3)))
			case k < 35:
				ops = append(ops, "C")
			case k < 37:
				ops = append(ops, "X")
			case k < 47:
				ops = append(ops, fmt.Sprintf("M %d %d", cx(), cy()))
			case k < 55:
				ops = append(ops, fmt.Sprintf("E %d %d", cx(), cy()))
			case k < 75:
				ops = append(ops, fmt.Sprintf("%s %d", h.Pick(r, []string{"U", "D", "L", "R"}), h.Pick(r, []int{0, 1, 1, 2, 3, 5, 40, -1, -4, r.Range(-20, 20)})))
			case k < 80:
				ops = append(ops, fmt.Sprintf("Z %d %d", sz(pw), sz(ph)))
			case k < 86:
				ops = append(ops, fmt.Sprintf("T %d %d %d", r.Range(-2, 30), r.Range(-2, 16), r.Intn(2)))
			case k < 93:
				ops = append(ops, fmt.Sprintf("P %d %d %d %d", org(pw), org(ph), sz(pw), sz(ph)))
			case k < 95:
				ops = append(ops, fmt.Sprintf("V %d", r.Intn(2)))
			case k < 97:
				pw, ph = r.Range(0, 14), r.Range(0, 8)
				ops = append(ops, fmt.Sprintf("Q %d %d", pw, ph))
			default:
				ops = append(ops, fmt.Sprintf("N %d %d %d %d", org(pw), org(ph), sz(pw), sz(ph)))
			}
		}
		g.Emit("vp %s", strings.Join(ops, "; "))
	}
}

// ---------- BoxLayout

type recWidget interface {
	views.Widget
	curView() views.View
}

type recLeaf struct {
	views.WidgetWatchers
	id      int
	w, h    int
	view    views.View
	lastRep [2]int // Size() as last reported to a caller
}

func (l *recLeaf) Draw() {
	if l.view == nil {
		return
	}
	vw, vh := l.view.Size()
	for y := -1; y <= vh; y++ {
		for x := -1; x <= vw; x++ {
			l.view.SetContent(x, y, rune('a'+l.id), []rune{rune(x + 1000), rune(y + 1000)}, tcell.StyleDefault)
		}
	}
}
func (l *recLeaf) Resize()                          {}
func (l *recLeaf) HandleEvent(ev tcell.Event) bool  { return false }
func (l *recLeaf) SetView(v views.View)             { l.view = v }
func (l *recLeaf) Size() (int, int)                 { l.lastRep = [2]int{l.w, l.h}; return l.w, l.h }
func (l *recLeaf) curView() views.View              { return l.view }

type recBox struct {
	*views.BoxLayout
	id      int
	view    views.View
	lastRep [2]int
}

func (b *recBox) SetView(v views.View) { b.view = v; b.BoxLayout.SetView(v) }
func (b *recBox) Size() (int, int) {
	w, hh := b.BoxLayout.Size()
	b.lastRep = [2]int{w, hh}
	return w, hh
}
func (b *recBox) curView() views.View { return b.view }

type boxShadow struct { // the harness's own bookkeeping of the op history (children and fills per box)
	kids  map[int][]int
	fills map[int][]float64
	orient map[int]int
	parent map[int]int // widget -> box it is attached to (absent = detached)
}

type boxWorld struct {
	root    *recView
	grid    map[[2]int]recCall
	widgets map[int]recWidget
	ids     []int
	sh      boxShadow
	rootSet bool
}

func (w *boxWorld) box(id int) *recBox {
	if b, ok := w.widgets[id].(*recBox); ok {
		return b
	}
	return nil
}

func (w *boxWorld) ancestorOrSelf(a, id int) bool {
	for k := 0; k < 1000; k++ {
		if a == id {
			return true
		}
		p, ok := w.sh.parent[id]
		if !ok {
			return false
		}
		id = p
	}
	return true
}

func fbits(s string) float64 {
	u, _ := strconv.ParseUint(s, 10, 64)
	return math.Float64frombits(u)
}

func (w *boxWorld) obs() string {
	var sb strings.Builder
	for i, id := range w.ids {
		if i > 0 {
			sb.WriteByte(' ')
		}
		wd := w.widgets[id]
		geo := "nil"
		switch v := wd.curView().(type) {
		case *views.ViewPort:
			px, py, _, _ := v.GetPhysical()
			vw, vh := v.Size()
			geo = fmt.Sprintf("%d,%d,%d,%d", px, py, vw, vh)
		case *recView:
			geo = "root"
		}
		var pw, ph int
		switch x := wd.(type) { // do not disturb lastRep
		case *recLeaf:
			pw, ph = x.w, x.h
		case *recBox:
			pw, ph = x.BoxLayout.Size()
		}
		fmt.Fprintf(&sb, "%d:%s:%d,%d", id, geo, pw, ph)
	}
	return sb.String()
}

// subtree lists box p and every box below it (through the shadow's child lists)
func (w *boxWorld) subtreeBoxes(p int, out *[]int) {
	if w.box(p) == nil {
		return
	}
	*out = append(*out, p)
	for _, c := range w.sh.kids[p] {
		w.subtreeBoxes(c, out)
	}
}

// checkBox is the oracle for one BoxLayout whose layout has just been (re)done.
func (w *boxWorld) checkBox(p int, after string, add func(class, format string, a ...interface{}), tags map[string]bool) {
	b := w.box(p)
	if b == nil || b.view == nil {
		return
	}
	vw, vh := b.view.Size()
	horizontal := w.sh.orient[p] == 0
	avail, cross := vw, vh
	if !horizontal {
		avail, cross = vh, vw
	}
	if avail < 0 || cross < 0 {
		return
	}
	kids := w.sh.kids[p]
	fills := w.sh.fills[p]
	n := len(kids)
	if ws := b.Widgets(); len(ws) != n {
		add("box-children", "after %q: box %d has %d widgets, history says %d", after, p, len(ws), n)
		return
	}
	type rect struct{ s, e, cs, ce int }
	rs := make([]rect, n)
	pref := make([]int, n)
	stale := false
	used := 0
	for i, c := range kids {
		wd := w.widgets[c]
		vp, ok := wd.curView().(*views.ViewPort)
		if !ok {
			return
		}
		px, py, _, _ := vp.GetPhysical()
		cw, ch := vp.Size()
		var pw, ph int
		var rep [2]int
		switch x := wd.(type) {
		case *recLeaf:
			pw, ph, rep = x.w, x.h, x.lastRep
		case *recBox:
			pw, ph = x.BoxLayout.Size()
			rep = x.lastRep
		}
		if rep != [2]int{pw, ph} {
			stale = true
		}
		if horizontal {
			rs[i] = rect{px, px + cw, py, py + ch}
			pref[i] = pw
		} else {
			rs[i] = rect{py, py + ch, px, px + cw}
			pref[i] = ph
		}
		used += pref[i]
	}
	nonempty := func(r rect) bool { return r.e > r.s && r.ce > r.cs }
	for i := 0; i < n; i++ {
		if !nonempty(rs[i]) {
			continue
		}
		if rs[i].s < 0 || rs[i].e > avail || rs[i].cs < 0 || rs[i].ce > cross {
			add("box-outside", "after %q: box %d (%dx%d) child #%d occupies [%d,%d)x[%d,%d) (axis x cross), outside the layout's view", after, p, vw, vh, i, rs[i].s, rs[i].e, rs[i].cs, rs[i].ce)
		}
		for j := i + 1; j < n; j++ {
			if nonempty(rs[j]) && rs[i].e > rs[j].s {
				add("box-order", "after %q: box %d children #%d [%d,%d) and #%d [%d,%d) are not in order / overlap", after, p, i, rs[i].s, rs[i].e, j, rs[j].s, rs[j].e)
			}
		}
	}
	if used > avail {
		tags["box-tight"] = true
		return
	}
	if n > 0 {
		tags["box-fits"] = true
	}
	sfx := ""
	if stale {
		sfx = "-stale"
		tags["box-stale-pref"] = true
	}
	extra := avail - used
	totf := new(big.Rat)
	anyFill := false
	for _, f := range fills {
		if f > 0 {
			anyFill = true
			fr := new(big.Rat)
			fr.SetFloat64(f)
			totf.Add(totf, fr)
		}
	}
	sumPad := 0
	for i := 0; i < n; i++ {
		ext := rs[i].e - rs[i].s
		if ext < pref[i] {
			add("box-lt-pref"+sfx, "after %q: box %d (%dx%d, children prefer %d in total) child #%d got extent %d < preferred %d", after, p, vw, vh, used, i, ext, pref[i])
			return
		}
		pad := ext - pref[i]
		sumPad += pad
		if fills[i] == 0 && pad != 0 {
			add("box-share"+sfx, "after %q: box %d child #%d has fill 0 but received %d extra cells", after, p, i, pad)
		}
		if anyFill && fills[i] > 0 {
			fr := new(big.Rat)
			fr.SetFloat64(fills[i])
			share := new(big.Rat).Mul(big.NewRat(int64(extra), 1), fr)
			share.Quo(share, totf)
			sf, _ := share.Float64()
			if d := math.Abs(float64(pad) - sf); d >= 1+1e-9*math.Max(1, sf) {
				add("box-share"+sfx, "after %q: box %d child #%d received %d extra cells, proportional share is %.6f (extra %d)", after, p, i, pad, sf, extra)
			}
			if pad > 0 {
				tags["box-padded"] = true
			}
		}
	}
	want := 0
	if anyFill {
		want = extra
	}
	if sumPad != want {
		add("box-surplus"+sfx, "after %q: box %d distributed %d extra cells, surplus is %d (view %dx%d, preferred total %d, anyfill=%v)", after, p, sumPad, want, vw, vh, used, anyFill)
	}
	if anyFill && extra > 0 {
		tags["box-surplus"] = true
	}
}

// absolute rectangle of a widget's view = intersection of the rectangles up the chain, and its origin
func (w *boxWorld) absRect(id int) (ox, oy, x0, y0, x1, y1 int, ok bool) {
	wd := w.widgets[id]
	switch v := wd.curView().(type) {
	case *recView:
		return 0, 0, 0, 0, v.w, v.h, true
	case *views.ViewPort:
		p, has := w.sh.parent[id]
		if !has {
			return 0, 0, 0, 0, 0, 0, false
		}
		pox, poy, px0, py0, px1, py1, pok := w.absRect(p)
		if !pok {
			return 0, 0, 0, 0, 0, 0, false
		}
		px, py, _, _ := v.GetPhysical()
		vw, vh := v.Size()
		ox, oy = pox+px, poy+py
		x0, y0, x1, y1 = ox, oy, ox+vw, oy+vh
		if x0 < px0 {
			x0 = px0
		}
		if y0 < py0 {
			y0 = py0
		}
		if x1 > px1 {
			x1 = px1
		}
		if y1 > py1 {
			y1 = py1
		}
		return ox, oy, x0, y0, x1, y1, true
	}
	return 0, 0, 0, 0, 0, 0, false
}

func execBox(line string) h.Result {
	rest := strings.TrimPrefix(line, "box ")
	ops := h.SplitTrim(rest, ";")
	var res h.Result
	w := &boxWorld{root: &recView{}, widgets: map[int]recWidget{}, sh: boxShadow{kids: map[int][]int{}, fills: map[int][]float64{}, orient: map[int]int{}, parent: map[int]int{}}}
	w.widgets[0] = &recBox{BoxLayout: views.NewBoxLayout(views.Horizontal), id: 0}
	w.sh.orient[0] = 0
	w.ids = []int{0}
	tags := map[string]bool{}
	add := func(class, format string, a ...interface{}) {
		if len(res.Findings) < 4 {
			res.Findings = append(res.Findings, h.Finding{Class: class, Msg: fmt.Sprintf(format, a...)})
		}
	}
	var obs []string
	skip := false
	for _, op := range ops {
		f := strings.Fields(op)
		arg := func(i int) int {
			if i < len(f) {
				return h.Atoi(f[i])
			}
			return 0
		}
		var settled []int // boxes whose layout this op has just redone
		switch f[0] {
		case "K": // declares which BoxLayout.Size() variant the line was generated for (see boxSizeComputed)
			if (arg(1) == 1) != boxSizeComputed() {
				skip = true
			}
		case "L":
			id := arg(1)
			if _, dup := w.widgets[id]; dup {
				obs = append(obs, "bad-op")
				continue
			}
			w.widgets[id] = &recLeaf{id: id, w: arg(2), h: arg(3)}
			w.ids = append(w.ids, id)
		case "B":
			id := arg(1)
			if _, dup := w.widgets[id]; dup {
				obs = append(obs, "bad-op")
				continue
			}
			w.widgets[id] = &recBox{BoxLayout: views.NewBoxLayout(views.Orientation(arg(2))), id: id}
			w.sh.orient[id] = arg(2)
			w.ids = append(w.ids, id)
		case "A", "I":
			p := arg(1)
			b := w.box(p)
			ci, fi := 2, 3
			if f[0] == "I" {
				ci, fi = 3, 4
			}
			c, okc := w.widgets[arg(ci)]
			if b == nil || !okc || len(f) <= fi {
				obs = append(obs, "bad-op")
				continue
			}
			if _, att := w.sh.parent[arg(ci)]; att || arg(ci) == 0 || w.ancestorOrSelf(arg(ci), p) {
				obs = append(obs, "bad-op") // only detached widgets are attached, never below themselves (no aliasing, no cycles)
				continue
			}
			fill := fbits(f[fi])
			if f[0] == "A" {
				b.AddWidget(c, fill)
				w.sh.kids[p] = append(w.sh.kids[p], arg(ci))
				w.sh.fills[p] = append(w.sh.fills[p], fill)
				tags["add"] = true
			} else {
				idx := arg(2)
				b.InsertWidget(idx, c, fill)
				if idx < 0 {
					idx = 0
				}
				if idx > len(w.sh.kids[p]) {
					idx = len(w.sh.kids[p])
				}
				ks := append([]int(nil), w.sh.kids[p][:idx]...)
				ks = append(ks, arg(ci))
				ks = append(ks, w.sh.kids[p][idx:]...)
				fs := append([]float64(nil), w.sh.fills[p][:idx]...)
				fs = append(fs, fill)
				fs = append(fs, w.sh.fills[p][idx:]...)
				w.sh.kids[p], w.sh.fills[p] = ks, fs
				tags["insert"] = true
			}
			w.sh.parent[arg(ci)] = p
			if b.view != nil { // layout() does nothing without a view
				w.subtreeBoxes(p, &settled)
			}
		case "R":
			p := arg(1)
			b := w.box(p)
			c, okc := w.widgets[arg(2)]
			if b == nil || !okc {
				obs = append(obs, "bad-op")
				continue
			}
			b.RemoveWidget(c)
			if pp, att := w.sh.parent[arg(2)]; att && pp == p {
				ks, fs := []int{}, []float64{}
				for i, k := range w.sh.kids[p] {
					if k != arg(2) {
						ks = append(ks, k)
						fs = append(fs, w.sh.fills[p][i])
					}
				}
				w.sh.kids[p], w.sh.fills[p] = ks, fs
				delete(w.sh.parent, arg(2))
				tags["remove"] = true
				if b.view != nil {
					w.subtreeBoxes(p, &settled)
				}
			}
		case "O":
			b := w.box(arg(1))
			if b == nil {
				obs = append(obs, "bad-op")
				continue
			}
			b.SetOrientation(views.Orientation(arg(2)))
			w.sh.orient[arg(1)] = arg(2)
			tags["orient"] = true
		case "V":
			w.box(0).SetView(w.root)
			w.rootSet = true
		case "Z":
			w.root.w, w.root.h = arg(1), arg(2)
			w.box(0).Resize()
			tags["resize"] = true
			if w.rootSet {
				w.subtreeBoxes(0, &settled)
			}
		case "D":
			w.root.calls = nil
			w.box(0).Draw()
			tags["draw"] = true
			if w.rootSet {
				w.subtreeBoxes(0, &settled)
				w.checkDraw(op, add, tags)
			}
		case "P":
			l, ok := w.widgets[arg(1)].(*recLeaf)
			if !ok {
				obs = append(obs, "bad-op")
				continue
			}
			l.w, l.h = arg(2), arg(3)
			l.PostEventWidgetContent(l)
			tags["pref-change"] = true
		default:
			obs = append(obs, "bad-op")
			continue
		}
		for _, p := range settled {
			if b := w.box(p); b != nil && b.view != nil {
				w.checkBox(p, op, add, tags)
				res.Nontrivial = res.Nontrivial || len(w.sh.kids[p]) > 1
			}
		}
		obs = append(obs, w.obs())
	}
	res.Obs = strings.Join(obs, " ; ")
	if skip {
		res.Obs = "SKIP variant " + res.Obs // a replay generated for the other Size() variant: oracle only
	}
	for t := range tags {
		res.Tags = append(res.Tags, t)
	}
	sort.Strings(res.Tags)
	return res
}

// boxSizeComputed probes the linked tcell: does BoxLayout.Size() reflect its children before any layout has
// run (computed on demand) or is it the value cached by the last layout() (pinned tree)?  The Lean model has
// both variants; a case line starts with "K 1" when it was generated for the computed variant.
var boxSizeProbe = -1

func boxSizeComputed() bool {
	if boxSizeProbe < 0 {
		b := views.NewBoxLayout(views.Horizontal)
		b.AddWidget(&recLeaf{id: 0, w: 3, h: 1}, 0)
		pw, _ := b.Size()
		boxSizeProbe = 0
		if pw == 3 {
			boxSizeProbe = 1
		}
	}
	return boxSizeProbe == 1
}

// checkDraw: after box0.Draw(), every root cell painted by a leaf lies inside that leaf's rectangle (the
// intersection of the rectangles up the chain) at origin + local position.
func (w *boxWorld) checkDraw(after string, add func(class, format string, a ...interface{}), tags map[string]bool) {
	for _, c := range w.root.calls {
		if c.ch < 'a' || len(c.comb) != 2 {
			continue // the layouts' own background Fill
		}
		id := int(c.ch - 'a')
		lx, ly := int(c.comb[0])-1000, int(c.comb[1])-1000
		ox, oy, x0, y0, x1, y1, ok := w.absRect(id)
		if !ok {
			add("box-draw-detached", "after %q: widget %d which is not attached below the root drew at (%d,%d)", after, id, c.x, c.y)
			continue
		}
		tags["draw-leaf"] = true
		if c.x < x0 || c.x >= x1 || c.y < y0 || c.y >= y1 {
			add("box-draw-escape", "after %q: leaf %d drew root cell (%d,%d) outside its rectangle [%d,%d)x[%d,%d)", after, id, c.x, c.y, x0, x1, y0, y1)
		}
		if c.x != ox+lx || c.y != oy+ly {
			add("box-draw-translate", "after %q: leaf %d local (%d,%d) arrived at root (%d,%d), want (%d,%d)", after, id, lx, ly, c.x, c.y, ox+lx, oy+ly)
		}
	}
}

func genBox(g *h.Gen) {
	r := g.R
	n := g.N(5000, 300000)
	maxDepth := 2
	if g.Thorough() {
		maxDepth = 3
	}
	fillVals := []float64{0, 0, 0, 1, 1, 1, 2, 3, 0.5, 0.25, 0.1, 0.2, 0.3, 1.0 / 3, 2.0 / 3, 0.7, 1e-9, 1e15, 9007199254740992, 7, 0.1 + 0.2, 1e300, 5e-324}
	for i := 0; i < n; i++ {
		W, H := r.Range(0, 40), r.Range(0, 12)
		if r.Chance(15) {
			W, H = r.Range(0, 6), r.Range(0, 3)
		}
		ops := []string{fmt.Sprintf("Z %d %d", W, H)}
		if boxSizeComputed() {
			ops = append([]string{"K 1"}, ops...)
		}
		if r.Bool() {
			ops = append(ops, "O 0 1")
		}
		type node struct {
			box      bool
			depth    int
			parent   int // -1 detached
			nk       int
		}
		nodes := map[int]*node{0: {box: true, depth: 0, parent: -1}}
		next := 1
		viewSet := false
		if r.Chance(60) {
			ops = append(ops, "V")
			viewSet = true
		}
		tie := r.Chance(25) // equal fills: exact ties in the largest-remainder pass
		tieFill := h.Pick(r, []float64{1, 0.1, 3, 1.0 / 3, 1e15})
		pickFill := func() float64 {
			if tie && r.Chance(80) {
				return tieFill
			}
			if r.Chance(5) {
				return float64(r.Range(1, 1000)) / float64(r.Range(1, 1000))
			}
			return h.Pick(r, fillVals)
		}
		boxes := func() []int {
			var bs []int
			for id, nd := range nodes {
				if nd.box {
					bs = append(bs, id)
				}
			}
			sort.Ints(bs)
			return bs
		}
		detached := func() []int {
			var ds []int
			for id, nd := range nodes {
				if id != 0 && nd.parent < 0 {
					ds = append(ds, id)
				}
			}
			sort.Ints(ds)
			return ds
		}
		var subDepth func(id int) int
		subDepth = func(id int) int {
			d := 0
			for c, nd := range nodes {
				if nd.parent == id {
					if x := 1 + subDepth(c); x > d {
						d = x
					}
				}
			}
			return d
		}
		depthOf := func(id int) int {
			d := 0
			for nodes[id].parent >= 0 {
				id = nodes[id].parent
				d++
			}
			return d
		}
		rootOf := func(id int) int {
			for nodes[id].parent >= 0 {
				id = nodes[id].parent
			}
			return id
		}
		nops := r.Range(4, 30)
		for j := 0; j < nops; j++ {
			k := r.Intn(100)
			switch {
			case k < 22: // new leaf, usually attached right away
				id := next
				next++
				pw, ph := r.Range(0, 9), r.Range(0, 3)
				if r.Chance(15) {
					pw, ph = h.Pick(r, []int{0, 0, 1, 20, 45}), h.Pick(r, []int{0, 1, 5, 14})
				}
				ops = append(ops, fmt.Sprintf("L %d %d %d", id, pw, ph))
				nodes[id] = &node{parent: -1}
				fallthrough
			case k < 50: // attach a detached widget
				ds := detached()
				bs := boxes()
				if len(ds) == 0 {
					continue
				}
				c := ds[r.Intn(len(ds))]
				p := bs[r.Intn(len(bs))]
				if rootOf(p) == c || nodes[p].nk >= 8 {
					continue
				}
				if nodes[c].box && depthOf(p)+1+subDepth(c) > maxDepth {
					continue
				}
				fb := math.Float64bits(pickFill())
				if r.Chance(70) {
					ops = append(ops, fmt.Sprintf("A %d %d %d", p, c, fb))
				} else {
					ops = append(ops, fmt.Sprintf("I %d %d %d %d", p, r.Range(-1, nodes[p].nk+1), c, fb))
				}
				nodes[c].parent = p
				nodes[p].nk++
			case k < 58:
				id := next
				next++
				ops = append(ops, fmt.Sprintf("B %d %d", id, r.Intn(2)))
				nodes[id] = &node{box: true, parent: -1}
			case k < 66:
				bs := boxes()
				p := bs[r.Intn(len(bs))]
				var cs []int
				for c, nd := range nodes {
					if nd.parent == p {
						cs = append(cs, c)
					}
				}
				sort.Ints(cs)
				if len(cs) == 0 || r.Chance(10) {
					ops = append(ops, fmt.Sprintf("R %d %d", p, r.Intn(next))) // usually not a child: no-op
					continue
				}
				c := cs[r.Intn(len(cs))]
				ops = append(ops, fmt.Sprintf("R %d %d", p, c))
				nodes[c].parent = -1
				nodes[p].nk--
			case k < 72:
				bs := boxes()
				ops = append(ops, fmt.Sprintf("O %d %d", bs[r.Intn(len(bs))], r.Intn(2)))
			case k < 76:
				if !viewSet || r.Chance(20) {
					ops = append(ops, "V")
					viewSet = true
				}
			case k < 86:
				W, H = r.Range(0, 40), r.Range(0, 12)
				ops = append(ops, fmt.Sprintf("Z %d %d", W, H))
			case k < 95:
				ops = append(ops, "D")
			default:
				var ls []int
				for id, nd := range nodes {
					if !nd.box {
						ls = append(ls, id)
					}
				}
				sort.Ints(ls)
				if len(ls) > 0 {
					ops = append(ops, fmt.Sprintf("P %d %d %d", ls[r.Intn(len(ls))], r.Range(0, 9), r.Range(0, 3)))
				}
			}
		}
		if !viewSet {
			ops = append(ops, "V")
		}
		ops = append(ops, fmt.Sprintf("Z %d %d", W, H), "D")
		g.Emit("box %s", strings.Join(ops, "; "))
	}
}

func init() {
	h.Register(&h.Engine{Name: "vp",
		Rule: "random ViewPort histories (4-40 ops) against a recording parent View: origins/sizes incl. negative and oversized, locked and growing content sizes, nil view; distinct = distinct op line; non-trivial = a SetContent inside the window was forwarded or a scroll/centre/make-visible moved the window",
		Gen:  genVP, Exec: execVP})
	h.Register(&h.Engine{Name: "box",
		Rule: "random BoxLayout histories (4-30 ops, <= 8 children per box, nested to depth 2 quick / 3 thorough, fills incl. 0, ties, huge and tiny values, preferred sizes incl. 0 and oversized); distinct = distinct op line; non-trivial = a layout with >= 2 children was redone and checked",
		Gen:  genBox, Exec: execBox})
}
