package engines

import (
	"fmt"
	"sort"
	"strings"
	"sync"
	"sync/atomic"
	"time"
	"unicode/utf8"

	"github.com/gdamore/tcell/v2"
	runewidth "github.com/mattn/go-runewidth"
	"verif/harness/h"
)

// Engine sim — C18: histories on tcell.NewSimulationScreen(charset).
//
// line:  sim cfg <pppppp|rrrrrr|…> <charset> <enc table r=hex[!],…>; op; op; …
//   S x y main comb style | F r style | Y style (SetStyle) | C x y (ShowCursor) | D (HideCursor) | W (Show) | N (Sync) | Z w h (SetSize)
//   L x y w h 0|1 (LockRegion: screen.go:424 is shared by every backend; a locked cell is not judged while locked)
//   K key rune mod (InjectKey) | M x y buttons mod (InjectMouse) | B hex dectable (InjectKeyBytes → b:0|1)
//   R r hex | U r (Register/UnregisterRuneFallback) | Q r flag (CanDisplay → q:0|1)
//   G (observe GetContents + GetCursor) | P (observe the events polled so far) | T (observe Size())
//   A … E   burst bracket: the K / M / B ops between A and E (and a Z, which ends the bracket) are injected back to back by one
//           goroutine while NOBODY polls (the application is busy); polling resumes when the injector has finished or has
//           been standing still for a few ms (an injection that waits for room in the event queue), then everything
//           injected must come out, in order, exactly as injected.  For the model A and E are no-ops.
// reply: observations in order, then "H <GetContents/GetCursor> ev=<remaining events>".
// The enc table and the dec tables carry what the charset's encoder/decoder report when called directly (they are the
// function values the Lean model is evaluated with); the letters (five, or six: the sixth is the Fill variant, see fillZWSuffix in cb.go) say on which side of the known defect sites
// (InjectKeyBytes `l < len(b)`, U+FFFD prefixes consumed, SetSize without resize event, last-column cell left dirty,
// combining fallback not elided) the tree under test is, found by probing.
//
// Oracle = shadow of what the application set (written from the property text):
//   after Show/Sync every visible cell (not covered by a wide rune on its left) reports Runes = main::comb, Style = the
//   style set (StyleDefault → the screen style), a wide rune in the last column blank, Bytes = encoding of the runes in the
//   charset under the real screen's fallback rules (no ACS: the simulator has no terminal description);
//   SetSize preserves the overlap and a resize event with the new size arrives (at the latest after the next Show);
//   GetCursor reflects ShowCursor; injected keys/mouse/bytes come out of PollEvent in order exactly as injected.

type simShadowCell struct {
	main    rune
	comb    []rune
	style   StyleF
	setAt   int      // op index of the last content change
	lastCol bool     // was shown as "wide rune in the last column" since the last Sync/SetSize
	defStys []StyleF // screen styles in effect at the Shows since then (a clean cell is not redrawn when SetStyle changes)
}

type simRun struct {
	scr      tcell.SimulationScreen
	cd       *codec
	gate     sync.Mutex // held while a burst is injected: the poller does not start another PollEvent
	mu       sync.Mutex
	events   []tcell.Event
	syncCh   chan int
	syncN    int
	res      *h.Result
	tags     map[string]bool
	cells    map[[2]int]*simShadowCell
	locked   map[[2]int]bool // cells inside a locked region: not drawn, hence not judged, until unlocked
	fb       map[rune]string
	fbAt     map[rune]int
	scrStyle StyleF
	opIdx    int
	polled   int // events already reported by P
	// a cell whose content is changed and changed back between two Shows is (rightly) not redrawn, so what a clean cell shows
	// may date from any Show since the last full redraw (Sync, or the first Show after Init/SetSize):
	lastFull    int      // op index of the last full redraw
	fullPending bool     // the next Show redraws everything
	styles      []StyleF // screen styles in effect at the Shows since the last full redraw
}

func (s *simRun) finding(class, format string, a ...interface{}) {
	if len(s.res.Findings) < 4 {
		s.res.Findings = append(s.res.Findings, h.Finding{Class: class, Msg: fmt.Sprintf(format, a...)})
	}
}

type simSentinel struct{ n int }

func (s *simRun) poller() {
	for {
		s.gate.Lock()
		s.gate.Unlock()
		ev := s.scr.PollEvent()
		if ev == nil {
			return
		}
		if iv, ok := ev.(*tcell.EventInterrupt); ok {
			if sn, ok := iv.Data().(simSentinel); ok {
				s.syncCh <- sn.n
				continue
			}
		}
		s.mu.Lock()
		s.events = append(s.events, ev)
		s.mu.Unlock()
	}
}

// syncEvents waits until everything posted so far has been polled.
func (s *simRun) syncEvents() {
	s.syncN++
	s.scr.PostEventWait(tcell.NewEventInterrupt(simSentinel{s.syncN}))
	select {
	case <-s.syncCh:
	case <-time.After(3 * time.Second):
		s.finding("poll-timeout", "sentinel event not delivered within 3s")
	}
}

// ---- bursts (ops A … E)

type simBurst struct {
	acts    []func()
	want    []string // expected key / mouse events in order; "k*" = some key event (documented normalisation: no verdict on its fields)
	unknown bool     // an injection whose outcome the statement does not fix (malformed bytes): order and count are not judged
	desc    []string
}

// runBurst injects everything of the burst from one goroutine while the poller is held, then lets the poller go and compares
// what PollEvent delivered with what was injected (resize events are judged by the SetSize bookkeeping, not here).
func (s *simRun) runBurst(b *simBurst) {
	if len(b.acts) == 0 {
		return
	}
	from := s.nEvents() // everything earlier has been polled: the queue is empty
	s.tags["burst"] = true
	if len(b.want) > 10 {
		s.tags["burst>10"] = true
	}
	s.gate.Lock()
	var progress int32
	started, done := make(chan struct{}), make(chan struct{})
	go func() {
		defer close(done)
		close(started)
		for _, a := range b.acts {
			a()
			atomic.AddInt32(&progress, 1)
		}
	}()
	select {
	case <-started:
	case <-time.After(time.Second):
	}
	// wait until the injector is through, or stands still (it waits for room in the queue: back-pressure, not loss)
	last, lastT := int32(-1), time.Now()
wait:
	for {
		select {
		case <-done:
			break wait
		case <-time.After(300 * time.Microsecond):
		}
		if p := atomic.LoadInt32(&progress); p != last {
			last, lastT = p, time.Now()
		} else if time.Since(lastT) > 4*time.Millisecond {
			s.tags["burst-backpressure"] = true
			break wait
		}
	}
	s.gate.Unlock()
	select {
	case <-done:
	case <-time.After(3 * time.Second):
		s.finding("inject-blocks", "a burst of %d injections (%s) did not finish within 3 s although PollEvent is being called", len(b.acts), strings.Join(b.desc, " "))
		return
	}
	var evs []string
	for _, e := range s.eventsFrom(from) {
		if !strings.HasPrefix(e, "r") {
			evs = append(evs, e)
		}
	}
	if b.unknown {
		s.tags["burst-unjudged"] = true
		return
	}
	same := len(evs) == len(b.want)
	for i := 0; same && i < len(evs); i++ {
		if b.want[i] != evs[i] && !(b.want[i] == "k*" && strings.HasPrefix(evs[i], "k")) {
			same = false
		}
	}
	if same {
		return
	}
	cls := "inject-burst"
	if len(evs) < len(b.want) {
		cls = "inject-burst-lost"
	}
	s.finding(cls, "injected without polling in between: %s; then polled: %d event(s) %v came out, expected the %d injected ones in order %v", strings.Join(b.desc, " "), len(evs), evs, len(b.want), b.want)
}

func showSimEv(ev tcell.Event) string {
	switch e := ev.(type) {
	case *tcell.EventResize:
		w, hh := e.Size()
		return fmt.Sprintf("r%dx%d", w, hh)
	case *tcell.EventKey:
		return fmt.Sprintf("k%d/%d/%d", int(e.Key()), int(e.Rune()), int(e.Modifiers()))
	case *tcell.EventMouse:
		x, y := e.Position()
		return fmt.Sprintf("m%d/%d/%d/%d", x, y, int(e.Buttons()), int(e.Modifiers()))
	}
	return fmt.Sprintf("?%T", ev)
}

func (s *simRun) eventsFrom(i int) []string {
	s.syncEvents()
	s.mu.Lock()
	defer s.mu.Unlock()
	var out []string
	for _, e := range s.events[i:] {
		out = append(out, showSimEv(e))
	}
	return out
}

func (s *simRun) nEvents() int {
	s.syncEvents()
	s.mu.Lock()
	defer s.mu.Unlock()
	return len(s.events)
}

func showSimCell(c tcell.SimCell) string {
	return fmt.Sprintf("%s/%s/%s", h.Hex(c.Bytes), FromStyle(c.Style).String(), h.ShowIntList(fromRunes(c.Runes)))
}

func (s *simRun) dump() string {
	cells, w, hh := s.scr.GetContents()
	var sb strings.Builder
	fmt.Fprintf(&sb, "%dx%d:", w, hh)
	for i := 0; i < w*hh && i < len(cells); i++ {
		if i > 0 {
			sb.WriteByte(' ')
		}
		sb.WriteString(showSimCell(cells[i]))
	}
	cx, cy, vis := s.scr.GetCursor()
	fmt.Fprintf(&sb, " cur=%d,%d,%s", cx, cy, b01(vis))
	return sb.String()
}

func (s *simRun) shadowAt(x, y int) *simShadowCell {
	c := s.cells[[2]int{x, y}]
	if c == nil {
		c = &simShadowCell{main: ' ', setAt: -1}
		s.cells[[2]int{x, y}] = c
	}
	return c
}

// expectedBytes: the real screen's rules without ACS — encoder if representable, else registered fallback, else '?';
// combining runes are elided when not encodable.  ok=false: no verdict (library-ambiguous rune, or a fallback for one of
// the runes changed after the cell was set and the cell may legitimately not have been redrawn).
func (s *simRun) expectedBytes(c *simShadowCell, main rune, strict bool) (want []string, ok bool) {
	rs := append([]rune{main}, c.comb...)
	for _, r := range rs {
		if s.cd.ambiguous(r) || r > 0x10ffff || (r >= 0xd800 && r < 0xe000) || r < ' ' {
			return nil, false
		}
		if at, ch := s.fbAt[r]; ch && at > s.lastFull && !strict {
			return nil, false
		}
	}
	var head string
	if out, rep := s.cd.representable(main); rep {
		head = string(out)
	} else if fb, has := s.fb[main]; has {
		head = fb
	} else {
		head = "?"
	}
	tail := ""
	for _, r := range c.comb {
		if out, rep := s.cd.representable(r); rep {
			tail += string(out)
		}
	}
	want = []string{head + tail}
	if head == "?" && runewidth.RuneWidth(main) > 1 {
		want = append(want, "? "+tail) // the real screen pads a wide '?'; either is accepted
	}
	return want, true
}

// checkFront judges GetContents after Show (strict=false) or Sync (strict=true).
func (s *simRun) checkFront(after string, strict bool) {
	cells, pw, ph := s.scr.GetContents()
	lw, lh := s.scr.Size()
	for y := 0; y < ph && y < lh; y++ {
		for x := 0; x < pw && x < lw; {
			c := s.shadowAt(x, y)
			main, width := c.main, runewidth.RuneWidth(c.main)
			if width == 0 || main < ' ' {
				main, width = ' ', 1
			}
			if s.locked[[2]int{x, y}] {
				s.tags["locked-cell-skipped"] = true
				x += width
				continue
			}
			got := cells[y*pw+x]
			// the resolved style last set: the cell's own style, StyleDefault → the screen style (at this Sync; after a Show
			// the one in effect at some Show since the last full redraw, because a clean cell is not repainted)
			gs := FromStyle(got.Style)
			okStyle := false
			if c.style != (StyleF{}) {
				okStyle = gs == c.style
			} else if strict {
				okStyle = gs == s.scrStyle
			} else {
				for _, d := range s.styles {
					if gs == d {
						okStyle = true
					}
				}
			}
			if x > pw-width {
				if string(got.Bytes) != " " || len(got.Runes) != 1 || got.Runes[0] != ' ' {
					s.finding("sim-last-column", "after %s: cell (%d,%d) holds the wide rune U+%04X in the last column but shows %s, expected a blank", after, x, y, main, showSimCell(got))
				}
				// "the runes and resolved style last set (a wide rune in the last column shown blank)": blank, in the style set
				if !okStyle {
					s.finding("sim-last-column-style", "after %s: cell (%d,%d) holds the wide rune U+%04X in the last column and is shown blank, but with Style=%s; the style last set for it is %s (screen style %s)", after, x, y, main, gs, c.style, s.scrStyle)
				}
				s.tags["judged-last-column-style"] = true
				c.lastCol = true
				x += width
				continue
			}
			if strict {
				c.lastCol = false
			}
			stale := func(cls string) string {
				if c.lastCol {
					return "sim-last-column-stale"
				}
				return cls
			}
			wantRunes := h.ShowIntList(fromRunes(append([]rune{main}, c.comb...)))
			if h.ShowIntList(fromRunes(got.Runes)) != wantRunes {
				s.finding(stale("sim-runes"), "after %s: cell (%d,%d) Runes=%s, last set %s", after, x, y, h.ShowIntList(fromRunes(got.Runes)), wantRunes)
			}
			if !okStyle {
				s.finding(stale("sim-style"), "after %s: cell (%d,%d) Style=%s, set %s (screen style %s)", after, x, y, gs, c.style, s.scrStyle)
			}
			if want, ok := s.expectedBytes(c, main, strict); ok {
				match := false
				for _, w := range want {
					if string(got.Bytes) == w {
						match = true
					}
				}
				if !match {
					cls := "sim-bytes"
					// the one deviation from the real screen's rules known on the pinned tree: a combining rune that is not
					// encodable but has a registered fallback is appended instead of elided
					for _, r := range c.comb {
						if _, rep := s.cd.representable(r); !rep {
							if _, has := s.fb[r]; has {
								cls = "sim-comb-fallback-not-elided"
							}
						}
					}
					s.finding(stale(cls), "after %s: cell (%d,%d) runes %s Bytes=%q, expected %q (charset %s)", after, x, y, wantRunes, got.Bytes, want, s.scr.CharacterSet())
				}
			}
			x += width
		}
	}
}

func noColorNone(f StyleF) StyleF {
	if f.Fg == ColorNoneU {
		f.Fg = 0
	}
	if f.Bg == ColorNoneU {
		f.Bg = 0
	}
	return f
}

func execSim(line string) h.Result {
	var res h.Result
	ops := h.SplitTrim(strings.TrimPrefix(line, "sim "), ";")
	if len(ops) == 0 {
		res.Obs = "bad-case"
		return res
	}
	cf := strings.Fields(ops[0])
	if len(cf) != 4 || cf[0] != "cfg" {
		res.Obs = "bad-case"
		return res
	}
	charset := cf[2]
	cd := newCodec(charset)
	if cd == nil {
		res.Obs = "no-charset"
		return res
	}
	scr := tcell.NewSimulationScreen(charset)
	if scr.Init() != nil {
		res.Obs = "init-failed"
		return res
	}
	s := &simRun{scr: scr, cd: cd, syncCh: make(chan int, 4), res: &res, tags: map[string]bool{}, cells: map[[2]int]*simShadowCell{},
		fb: map[rune]string{}, fbAt: map[rune]int{}, lastFull: -1, fullPending: true, locked: map[[2]int]bool{}}
	for k, v := range defaultRuneFallbacks { // the package's defaults as they were before any screen existed
		s.fb[k] = v
	}
	pollerDone := make(chan struct{})
	go func() { s.poller(); close(pollerDone) }()
	// `I2` as the FIRST op: the object is finished and initialised again before anything else happens — a SimulationScreen
	// that a test suite reuses.  The second life is a fresh screen (Init sets every field up again): a no-op for the model.
	if len(ops) > 1 && strings.TrimSpace(ops[1]) == "I2" {
		scr.SetContent(1, 1, 'x', nil, tcell.StyleDefault.Bold(true))
		scr.Show()
		scr.Fini()
		select {
		case <-pollerDone:
		case <-time.After(2 * time.Second):
		}
		if scr.Init() != nil {
			res.Obs = "init-failed"
			return res
		}
		go s.poller()
		s.tags["second-life"] = true
	}
	defer func() {
		if p := recover(); p != nil {
			// the screen may have panicked holding its lock: do not wait for Fini, let the driver record the panic
			go scr.Fini()
			panic(p)
		}
		scr.Fini()
	}()

	var obs []string
	lw, lh := 80, 25 // logical size as the application last learnt it
	pendingResize := ""   // "WxH" a SetSize asked for and no resize event has confirmed yet
	pendingFrom := 0      // event index from which to look for it
	cursorSet, cursorValid := [2]int{-1, -1}, true
	var burst *simBurst
	flushBurst := func() {
		if burst != nil {
			b := burst
			burst = nil
			s.runBurst(b)
		}
	}
	for i, op := range ops[1:] {
		s.opIdx = i
		f := strings.Fields(op)
		if len(f) == 0 {
			continue
		}
		if burst != nil && !(f[0] == "K" || f[0] == "M" || f[0] == "B" || f[0] == "Z") {
			flushBurst() // E, or any other op: the bracket ends here
		}
		switch {
		case f[0] == "I2" && len(f) == 1:
			// handled before the loop (only as the first op)
		case f[0] == "A" && len(f) == 1:
			burst = &simBurst{}
		case f[0] == "E" && len(f) == 1:
			// (flushed above)
		case f[0] == "S" && len(f) == 6:
			x, y, m, comb, st := h.Atoi(f[1]), h.Atoi(f[2]), rune(h.Atoi(f[3])), toRunes(h.IntList(f[4])), ParseStyleF(f[5])
			scr.SetContent(x, y, m, comb, st.ToStyle())
			w, hh := scr.Size()
			if x >= 0 && y >= 0 && x < w && y < hh {
				c := s.shadowAt(x, y)
				if c.main != m || h.ShowIntList(fromRunes(c.comb)) != h.ShowIntList(fromRunes(comb)) || c.style != st {
					// (setting the same content again does not count as a change: the cell need not be redrawn)
					c.main, c.comb, c.style, c.setAt, c.defStys = m, comb, st, i, nil
				}
				res.Nontrivial = true
				if runewidth.RuneWidth(m) > 1 {
					s.tags["wide"] = true
					if x == w-1 {
						s.tags["wide-last-column"] = true
					}
				}
				if len(comb) > 0 {
					s.tags["combining"] = true
				}
			}
		case f[0] == "F" && len(f) == 3:
			r, st := rune(h.Atoi(f[1])), ParseStyleF(f[2])
			scr.Fill(r, st.ToStyle())
			w, hh := scr.Size()
			for y := 0; y < hh; y++ {
				for x := 0; x < w; x++ {
					c := s.shadowAt(x, y)
					if c.main != r || len(c.comb) != 0 || c.style != st {
						c.main, c.comb, c.style, c.setAt, c.defStys = r, nil, st, i, nil
					}
				}
			}
			s.tags["fill"] = true
		case f[0] == "L" && len(f) == 6:
			x, y, lw, lh, on := h.Atoi(f[1]), h.Atoi(f[2]), h.Atoi(f[3]), h.Atoi(f[4]), f[5] == "1"
			scr.LockRegion(x, y, lw, lh, on)
			w, hh := scr.Size()
			for j := y; j < y+lh; j++ {
				for k := x; k < x+lw; k++ {
					if k >= 0 && j >= 0 && k < w && j < hh {
						if on {
							s.locked[[2]int{k, j}] = true
						} else {
							delete(s.locked, [2]int{k, j})
						}
					}
				}
			}
			s.tags["lock"] = true
		case f[0] == "Y" && len(f) == 2:
			st := ParseStyleF(f[1])
			scr.SetStyle(st.ToStyle())
			s.scrStyle = st
			s.tags["setstyle"] = true
		case f[0] == "C" && len(f) == 3:
			x, y := h.Atoi(f[1]), h.Atoi(f[2])
			scr.ShowCursor(x, y)
			cursorSet, cursorValid = [2]int{x, y}, true
			s.checkCursor("ShowCursor", cursorSet)
		case f[0] == "D" && len(f) == 1:
			// screen.go: "HideCursor is used to hide the cursor. It's an alias for ShowCursor(-1, -1)."
			scr.HideCursor()
			cursorSet, cursorValid = [2]int{-1, -1}, true
			s.checkCursor("HideCursor", cursorSet)
			s.tags["hidecursor"] = true
		case f[0] == "W" || f[0] == "N":
			before := s.nEvents()
			if f[0] == "W" {
				scr.Show()
			} else {
				scr.Sync()
			}
			nw, nh := scr.Size()
			if nw != lw || nh != lh {
				// the logical buffer was resized: cells outside are gone
				for k := range s.cells {
					if k[0] >= nw || k[1] >= nh {
						delete(s.cells, k)
					}
				}
				lw, lh = nw, nh
			}
			if f[0] == "N" || s.fullPending {
				s.lastFull, s.fullPending, s.styles = i, false, nil
			}
			s.styles = append(s.styles, s.scrStyle)
			s.checkFront(op, f[0] == "N")
			if cursorValid {
				s.checkCursor(op, cursorSet)
			}
			if pendingResize != "" {
				evs := s.eventsFrom(pendingFrom)
				found := false
				for _, e := range evs {
					if e == "r"+pendingResize {
						found = true
					}
				}
				if !found {
					s.finding("setsize-no-resize-event", "SetSize to %s and a following %s produced no resize event with the new size (events since: %v)", pendingResize, op, evs)
				}
				pendingResize = ""
			}
			_ = before
			s.tags["show"] = true
		case f[0] == "Z" && len(f) == 3:
			w, hh := h.Atoi(f[1]), h.Atoi(f[2])
			oc, ow, oh := scr.GetContents()
			old := make([]string, len(oc))
			for k := range oc {
				old[k] = showSimCell(oc[k])
			}
			olw, olh := scr.Size()
			from := s.nEvents()
			if burst != nil { // the SetSize is the last injection of the burst
				burst.acts = append(burst.acts, func() { scr.SetSize(w, hh) })
				burst.desc = append(burst.desc, fmt.Sprintf("SetSize(%d,%d)", w, hh))
				s.tags["burst-setsize"] = true
				flushBurst()
			} else {
				scr.SetSize(w, hh)
			}
			if w != olw || hh != olh {
				s.locked = map[[2]int]bool{} // CellBuffer.Resize makes new cells: no lock survives
			}
			nc, nw, nh := scr.GetContents()
			if nw != w || nh != hh || len(nc) != w*hh {
				s.finding("setsize-size", "SetSize(%d,%d): GetContents reports %dx%d with %d cells", w, hh, nw, nh, len(nc))
			} else {
				for y := 0; y < hh && y < oh; y++ {
					for x := 0; x < w && x < ow; x++ {
						if showSimCell(nc[y*w+x]) != old[y*ow+x] {
							s.finding("setsize-overlap", "SetSize(%d,%d) from %dx%d: cell (%d,%d) was %s, now %s", w, hh, ow, oh, x, y, old[y*ow+x], showSimCell(nc[y*w+x]))
						}
					}
				}
			}
			if w != olw || hh != olh || pendingResize != "" {
				if pendingResize == "" {
					pendingFrom = from
				}
				pendingResize = fmt.Sprintf("%dx%d", w, hh)
			}
			if w == lw && hh == lh && pendingResize != "" && fmt.Sprintf("%dx%d", olw, olh) == pendingResize {
				pendingResize = "" // back to the size the application knows: nothing to announce
			}
			// the pinned SetSize resizes the logical buffer at once
			if a, b := scr.Size(); a != lw || b != lh {
				for k := range s.cells {
					if k[0] >= a || k[1] >= b {
						delete(s.cells, k)
					}
				}
				lw, lh = a, b
			}
			for _, c := range s.cells {
				c.lastCol = false
			}
			if w != olw || hh != olh {
				s.fullPending = true // the logical buffer is (or will be) resized: every cell is redrawn by the next Show
			}
			cursorValid = false // SetSize resets the cursor; the statement does not say what the query reports then
			s.tags["setsize"] = true
			res.Nontrivial = true
		case f[0] == "K" && len(f) == 4:
			k, r, m := h.Atoi(f[1]), rune(h.Atoi(f[2])), h.Atoi(f[3])
			if burst != nil {
				burst.acts = append(burst.acts, func() { scr.InjectKey(tcell.Key(k), r, tcell.ModMask(m)) })
				burst.desc = append(burst.desc, fmt.Sprintf("InjectKey(%d,%d,%d)", k, r, m))
				if k == int(tcell.KeyRune) && (r < ' ' || r == 0x7f) {
					burst.want = append(burst.want, "k*")
				} else {
					burst.want = append(burst.want, fmt.Sprintf("k%d/%d/%d", k, int(r), m))
				}
				s.tags["key"] = true
				continue
			}
			from := s.nEvents()
			scr.InjectKey(tcell.Key(k), r, tcell.ModMask(m))
			evs := s.eventsFrom(from)
			want := fmt.Sprintf("k%d/%d/%d", k, int(r), m)
			if k == int(tcell.KeyRune) && (r < ' ' || r == 0x7f) {
				s.tags["key-control-rune"] = true // NewEventKey documents a normalisation for these: no verdict
			} else if len(evs) != 1 || evs[0] != want {
				s.finding("inject-key", "InjectKey(%d,%d,%d) came out as %v", k, r, m, evs)
			}
			s.tags["key"] = true
		case f[0] == "M" && len(f) == 5:
			x, y, b, m := h.Atoi(f[1]), h.Atoi(f[2]), h.Atoi(f[3]), h.Atoi(f[4])
			if burst != nil {
				burst.acts = append(burst.acts, func() { scr.InjectMouse(x, y, tcell.ButtonMask(b), tcell.ModMask(m)) })
				burst.desc = append(burst.desc, fmt.Sprintf("InjectMouse(%d,%d,%d,%d)", x, y, b, m))
				burst.want = append(burst.want, fmt.Sprintf("m%d/%d/%d/%d", x, y, b, m))
				s.tags["mouse"] = true
				continue
			}
			from := s.nEvents()
			scr.InjectMouse(x, y, tcell.ButtonMask(b), tcell.ModMask(m))
			evs := s.eventsFrom(from)
			if want := fmt.Sprintf("m%d/%d/%d/%d", x, y, b, m); len(evs) != 1 || evs[0] != want {
				s.finding("inject-mouse", "InjectMouse(%d,%d,%d,%d) came out as %v", x, y, b, m, evs)
			}
			s.tags["mouse"] = true
		case f[0] == "B" && len(f) == 3:
			b := h.Unhex(f[1])
			if burst != nil {
				want, valid := s.bytesWant(b)
				bu := burst
				if !valid {
					bu.unknown = true
				}
				bu.want = append(bu.want, want...)
				bu.desc = append(bu.desc, fmt.Sprintf("InjectKeyBytes(%x)", b))
				slot := len(obs)
				obs = append(obs, "b:?")
				bu.acts = append(bu.acts, func() {
					ok := scr.InjectKeyBytes(b)
					obs[slot] = "b:" + b01(ok)
					if valid && !ok {
						s.finding("inject-bytes", "InjectKeyBytes(%x), valid text in %s, returned false", b, s.scr.CharacterSet())
					}
				})
				res.Nontrivial = true
				continue
			}
			from := s.nEvents()
			ok := scr.InjectKeyBytes(b)
			evs := s.eventsFrom(from)
			obs = append(obs, "b:"+b01(ok))
			s.judgeBytes(b, ok, evs)
			res.Nontrivial = true
		case (f[0] == "OU" && len(f) == 2) || (f[0] == "OR" && len(f) == 3):
			// ANOTHER SimulationScreen of the same process (same charset, created and finished right here) changes ITS
			// fallback table: nothing this screen reports may change (a no-op for the model)
			o := tcell.NewSimulationScreen(charset)
			if o.Init() == nil {
				if f[0] == "OU" {
					o.UnregisterRuneFallback(rune(h.Atoi(f[1])))
				} else {
					o.RegisterRuneFallback(rune(h.Atoi(f[1])), string(h.Unhex(f[2])))
				}
				o.SetContent(0, 0, rune(h.Atoi(f[1])), nil, tcell.StyleDefault)
				o.Show()
				o.Fini()
			}
			s.tags["other-screen-fallback-change"] = true
		case f[0] == "R" && len(f) == 3:
			r, sub := rune(h.Atoi(f[1])), string(h.Unhex(f[2]))
			scr.RegisterRuneFallback(r, sub)
			s.fb[r] = sub
			s.fbAt[r] = i
			s.tags["register"] = true
		case f[0] == "U" && len(f) == 2:
			r := rune(h.Atoi(f[1]))
			scr.UnregisterRuneFallback(r)
			delete(s.fb, r)
			s.fbAt[r] = i
		case f[0] == "Q" && len(f) == 3:
			r, flag := rune(h.Atoi(f[1])), f[2] == "1"
			got := scr.CanDisplay(r, flag)
			obs = append(obs, "q:"+b01(got))
			if !(r < ' ' || r > 0x10ffff || (r >= 0xd800 && r < 0xe000) || cd.ambiguous(r)) {
				_, want := cd.representable(r)
				if _, has := s.fb[r]; has && flag {
					want = true
				}
				if got != want {
					s.finding("sim-candisplay", "CanDisplay(U+%04X,%v)=%v expected %v", r, flag, got, want)
				}
			}
		case f[0] == "G":
			obs = append(obs, "g:"+s.dump())
		case f[0] == "T":
			w, hh := scr.Size()
			obs = append(obs, fmt.Sprintf("t:%d,%d", w, hh))
		case f[0] == "P":
			evs := s.eventsFrom(s.polled)
			s.polled += len(evs)
			if len(evs) == 0 {
				obs = append(obs, "p:-")
			} else {
				obs = append(obs, "p:"+strings.Join(evs, ","))
			}
		default:
			obs = append(obs, "bad-op")
		}
	}
	flushBurst()
	evs := s.eventsFrom(s.polled)
	es := "-"
	if len(evs) > 0 {
		es = strings.Join(evs, ",")
	}
	res.Obs = strings.Join(obs, " ") + " H " + s.dump() + " ev=" + es
	for t := range s.tags {
		res.Tags = append(res.Tags, t)
	}
	res.Tags = append(res.Tags, "cs:"+charset)
	return res
}

func (s *simRun) checkCursor(after string, set [2]int) {
	x, y, vis := s.scr.GetCursor()
	_, pw, ph := s.scr.GetContents()
	wantVis := set[0] >= 0 && set[1] >= 0 && set[0] < pw && set[1] < ph
	if set == [2]int{-1, -1} {
		// hidden (HideCursor / ShowCursor(-1,-1)): the statement fixes that the cursor is not shown, not which position a
		// hidden cursor reports
		if vis {
			s.finding("sim-cursor", "after %s: GetCursor()=(%d,%d,%v) but the cursor was hidden (HideCursor / ShowCursor(-1,-1)) and not shown again", after, x, y, vis)
		}
		return
	}
	if x != set[0] || y != set[1] || vis != wantVis {
		s.finding("sim-cursor", "after %s: GetCursor()=(%d,%d,%v), ShowCursor(%d,%d) on a %dx%d display expects visible=%v", after, x, y, vis, set[0], set[1], pw, ph, wantVis)
	}
}

// bytesWant: the key events valid text stands for (valid as in judgeBytes); ok=false when the bytes are not valid text
func (s *simRun) bytesWant(b []byte) (want []string, ok bool) {
	str, valid := s.cd.decodeAll(b)
	if !valid || !utf8.ValidString(str) {
		return nil, false
	}
	var re []byte
	for _, r := range str {
		if r < ' ' || r == 0x7f || r == utf8.RuneError {
			return nil, false
		}
		out, rep := s.cd.representable(r)
		if !rep {
			return nil, false
		}
		re = append(re, out...)
		want = append(want, fmt.Sprintf("k%d/%d/0", int(tcell.KeyRune), int(r)))
	}
	return want, string(re) == string(b)
}

// judgeBytes: when the injected bytes are valid text in the charset (each character ≥ U+0020, not DEL, re-encodes to
// exactly these bytes), one KeyRune event per character must come out in order and the call must return true.
func (s *simRun) judgeBytes(b []byte, ok bool, evs []string) {
	str, valid := s.cd.decodeAll(b)
	if !valid || !utf8.ValidString(str) {
		s.tags["bytes-malformed"] = true
		return
	}
	var want []string
	var sizes []int
	var re []byte
	for _, r := range str {
		if r < ' ' || r == 0x7f || r == utf8.RuneError {
			s.tags["bytes-malformed"] = true
			return
		}
		out, rep := s.cd.representable(r)
		if !rep {
			s.tags["bytes-malformed"] = true
			return
		}
		re = append(re, out...)
		sizes = append(sizes, len(out))
		want = append(want, fmt.Sprintf("k%d/%d/0", int(tcell.KeyRune), int(r)))
	}
	if string(re) != string(b) {
		s.tags["bytes-malformed"] = true
		return
	}
	s.tags["bytes-valid-text"] = true
	multi := false
	for _, n := range sizes {
		if n > 1 {
			multi = true
		}
	}
	if multi {
		s.tags["bytes-multibyte"] = true
	}
	if ok && strings.Join(evs, ",") == strings.Join(want, ",") {
		return
	}
	desc := fmt.Sprintf("InjectKeyBytes(%x) = %q in %s returned %v and delivered %v, expected true and %v", b, str, s.scr.CharacterSet(), ok, evs, want)
	n := len(want)
	if n > 0 && b[len(b)-sizes[n-1]] >= 0x80 && strings.Join(evs, ",") == strings.Join(want[:n-1], ",") {
		s.finding("inject-last-multibyte", "%s — the non-ASCII character at the end of the input is never decoded (the prefix loop stops before the whole buffer) and is dropped", desc)
		return
	}
	// are the delivered events exactly the single-byte characters (every multi-byte one dropped)?
	var singles []string
	for i, w := range want {
		if sizes[i] == 1 {
			singles = append(singles, w)
		}
	}
	multiInside := false
	for i, n := range sizes {
		if n > 1 && i < len(sizes)-1 {
			multiInside = true
		}
	}
	_ = singles
	if (multiInside || multi) && !s.cd.utf8 {
		s.finding("inject-multibyte-dropped", "%s — multi-byte characters of a legacy charset are consumed without an event (the decoder reports U+FFFD for the one-byte prefix)", desc)
		return
	}
	s.finding("inject-bytes", "%s", desc)
}

// ---- generation ----

// simVariant probes which side of each known defect site the tree under test is on.  A probe that panics (a mutant)
// counts as "pinned": the case lines then exhibit the panic through the driver's recover.
func simVariant() (v string) {
	defer func() {
		if recover() != nil {
			for len(v) < 6 {
				v += "p"
			}
		}
	}()
	v = ""
	poll1 := func(scr tcell.SimulationScreen) tcell.Event {
		ch := make(chan tcell.Event, 1)
		go func() { ch <- scr.PollEvent() }()
		select {
		case e := <-ch:
			return e
		case <-time.After(200 * time.Millisecond):
			return nil
		}
	}
	a := tcell.NewSimulationScreen("UTF-8")
	a.Init()
	if a.InjectKeyBytes([]byte("€")) {
		v += "r"
	} else {
		v += "p"
	}
	a.Fini()
	b := tcell.NewSimulationScreen("GBK")
	b.Init()
	b.InjectKeyBytes([]byte{0xc4, 0xe3, 'a'})
	if e, ok := poll1(b).(*tcell.EventKey); ok && e.Rune() == 0x4f60 {
		v += "r"
	} else {
		v += "p"
	}
	b.Fini()
	c := tcell.NewSimulationScreen("UTF-8")
	c.Init()
	c.SetSize(10, 5)
	if c.HasPendingEvent() {
		v += "r"
	} else {
		v += "p"
	}
	c.Fini()
	// wide rune in the last column: is the cell marked clean?  (then restoring the previous content is a change again)
	d := tcell.NewSimulationScreen("UTF-8")
	d.Init()
	d.SetSize(1, 1)
	d.Show()
	d.SetContent(0, 0, 0x4e16, nil, tcell.StyleDefault.Bold(true))
	d.Show()
	d.Clear()
	d.Show()
	if cs, _, _ := d.GetContents(); len(cs) == 1 && cs[0].Style == tcell.StyleDefault {
		v += "r"
	} else {
		v += "p"
	}
	d.Fini()
	// unencodable combining rune with a registered fallback: elided?
	e := tcell.NewSimulationScreen("US-ASCII")
	e.Init()
	e.SetSize(1, 1)
	e.SetContent(0, 0, 'a', []rune{tcell.RuneHLine}, tcell.StyleDefault)
	e.Show()
	if cs, _, _ := e.GetContents(); len(cs) == 1 && string(cs[0].Bytes) == "a" {
		v += "r"
	} else {
		v += "p"
	}
	e.Fini()
	// sixth letter: CellBuffer.Fill stores a blank for a zero-width rune (fixes/C09-fill-zero-width.patch)
	if fillZWSuffix() != "" {
		v += "r"
	} else {
		v += "p"
	}
	return v
}

var simCharsets = []string{"UTF-8", "ISO8859-1", "GBK", "US-ASCII", "EUC-JP", "KOI8-R", "SHIFT_JIS", "Big5", "EUC-KR", "GB18030", "ISO8859-7", "ISO8859-15"}

func decTable(cd *codec, b []byte) string {
	seen := map[string]bool{}
	var items []string
	for i := 0; i < len(b); i++ {
		if b[i] < 0x80 {
			continue
		}
		for l := 1; i+l <= len(b); l++ {
			p := b[i : i+l]
			if seen[string(p)] {
				continue
			}
			seen[string(p)] = true
			utfb := make([]byte, len(b)*4+8)
			cd.dec.Reset()
			nout, nin, _ := cd.dec.Transform(utfb, p, true)
			r, _ := utf8.DecodeRune(utfb[:nout])
			items = append(items, fmt.Sprintf("%s:%d:%d:%d", h.Hex(p), nout, nin, int(r)))
		}
	}
	if len(items) == 0 {
		return "-"
	}
	return strings.Join(items, ",")
}

// sample text characters per charset: runes the charset can represent, multi-byte ones included
func textPool(cd *codec) []rune {
	cands := []rune{'a', 'Z', ' ', '~', 0xe9, 0xa3, 0xff, 0x20ac, 0x4f60, 0x4e16, 0x3042, 0xac00, 0x416, 0x3b1, 0x5d0, 0xff21, 0x2500, 0x1f600, 0xb7, 0x2022, 0x100, 0x30a2, 0xff71}
	var out []rune
	for _, r := range cands {
		if _, ok := cd.representable(r); ok {
			out = append(out, r)
		}
	}
	return out
}

func genSim(g *h.Gen) {
	r := g.R
	v := simVariant()
	n := g.N(1000, 40000)
	runePool := []int{'a', 'b', 'Z', ' ', '~', 0xe9, 0x20ac, 0x4e16, 0x754c, 0xff21, 0x2500, 0x2502, 0x25c6, 0xb7, 0x3042, 0x416, 0x1f600, 0, 7, 0x301, 0xa0}
	combPool := []int{0x301, 0x308, 0x200d, 0x2500, 0x64b, 0xfe0f}
	for i := 0; i < n; i++ {
		cs := simCharsets[i%len(simCharsets)]
		if r.Chance(30) {
			cs = h.Pick(r, simCharsets)
		}
		cd := newCodec(cs)
		pool := textPool(cd)
		var ops []string
		used := map[rune]bool{' ': true}
		w, hh := r.Range(1, 6), r.Range(1, 3)
		if r.Chance(92) {
			ops = append(ops, fmt.Sprintf("Z %d %d", w, hh))
		} else {
			w, hh = 80, 25
		}
		style := func() StyleF { return noColorNone(RandStyle(r)) }
		nops := r.Range(4, 30)
		for j := 0; j < nops; j++ {
			switch k := r.Intn(100); {
			case k < 30:
				m := h.Pick(r, runePool)
				if r.Chance(30) {
					m = r.Range('!', '~')
				}
				var comb []int
				if r.Chance(20) {
					for q := r.Range(1, 2); q > 0; q-- {
						comb = append(comb, h.Pick(r, combPool))
					}
				}
				x, y := r.Range(-1, w), r.Range(-1, hh)
				if r.Chance(25) {
					x = w - 1
				}
				used[visibleMain(rune(m))] = true
				for _, c := range comb {
					used[rune(c)] = true
				}
				ops = append(ops, fmt.Sprintf("S %d %d %d %s %s", x, y, m, h.ShowIntList(comb), style()))
			case k < 33:
				fr := h.Pick(r, []int{' ', 'x', '.', 0x2500, 0xe9})
				if r.Chance(20) { // runes that cannot be shown in a cell of their own: such cells show blanks (C18 via C08's width rule)
					fr = h.Pick(r, []int{0x200b, 0x200d, 0x301, 0x7f, 0x9b, 0xad, 0x2060, 0xfeff})
				}
				used[rune(fr)] = true
				ops = append(ops, fmt.Sprintf("F %d %s", fr, style()))
				if r.Chance(15) {
					lx, ly := r.Range(0, w), r.Range(0, hh)
					ops = append(ops, fmt.Sprintf("L %d %d %d %d 1", lx, ly, r.Range(1, 2), r.Range(1, 2)))
					if r.Chance(60) { // a wide rune just left of the region, a change inside, a Show, the unlock
						used[0x4e16] = true
						ops = append(ops, fmt.Sprintf("S %d %d %d - %s", lx-1, ly, 0x4e16, style()), "W", fmt.Sprintf("L %d %d 2 2 0", lx, ly))
					}
				}
			case k < 37:
				ops = append(ops, fmt.Sprintf("Y %s", style()))
			case k < 43:
				if r.Chance(30) {
					ops = append(ops, "D")
				} else {
					ops = append(ops, fmt.Sprintf("C %d %d", r.Range(-1, w), r.Range(-1, hh)))
				}
			case k < 58:
				ops = append(ops, "W")
			case k < 63:
				ops = append(ops, "N")
			case k < 68:
				w, hh = r.Range(0, 6), r.Range(0, 3)
				if r.Chance(80) {
					w, hh = r.Range(1, 6), r.Range(1, 3)
				}
				ops = append(ops, fmt.Sprintf("Z %d %d", w, hh))
			case k < 74:
				key := int(tcell.KeyRune)
				ru := h.Pick(r, []int{'a', 'Z', 0xe9, 0x4e16, 0x1f600, ' ', 13, 0x7f})
				if r.Chance(40) {
					key = h.Pick(r, []int{int(tcell.KeyUp), int(tcell.KeyF1), int(tcell.KeyEnter), int(tcell.KeyEsc), int(tcell.KeyCtrlA), int(tcell.KeyDelete)})
					ru = 0
				}
				ops = append(ops, fmt.Sprintf("K %d %d %d", key, ru, r.Intn(16)))
			case k < 78:
				ops = append(ops, fmt.Sprintf("M %d %d %d %d", r.Range(-1, 90), r.Range(-1, 30), h.Pick(r, []int{0, 1, 2, 4, 256, 512, 3}), r.Intn(16)))
			case k < 90:
				var b []byte
				if r.Chance(80) && len(pool) > 0 {
					for q := r.Range(1, 4); q > 0; q-- {
						out, _ := cd.encode(h.Pick(r, pool))
						b = append(b, out...)
					}
				} else {
					for q := r.Range(1, 5); q > 0; q-- {
						b = append(b, byte(h.Pick(r, []int{'a', 0x1b, 1, 0x7f, 0x80, 0xc4, 0xe3, 0xe2, 0x82, 0xac, 0xff, 0x8f, 0xa4, 0x0d})))
					}
				}
				ops = append(ops, fmt.Sprintf("B %s %s", h.Hex(b), decTable(cd, b)))
			case k < 93:
				m := h.Pick(r, []int{0x2500, 0x4e16, 0x20ac, 0x301, 0x25c6})
				ops = append(ops, fmt.Sprintf("R %d %s", m, h.Hex([]byte(h.Pick(r, []string{"*", "+", "eu"})))))
			case k < 95:
				if r.Chance(40) { // another screen of the process changes its own table
					if r.Bool() {
						ops = append(ops, fmt.Sprintf("OU %d", h.Pick(r, []int{0x2500, 0x25c6, 0x2502, 0x2192})))
					} else {
						ops = append(ops, fmt.Sprintf("OR %d %s", h.Pick(r, []int{0x2500, 0x4e16, 0x25c6}), h.Hex([]byte("#"))))
					}
				} else {
					ops = append(ops, fmt.Sprintf("U %d", h.Pick(r, []int{0x2500, 0x4e16, 0x25c6, 0x2502})))
				}
			case k < 97:
				m := h.Pick(r, runePool)
				used[rune(m)] = true
				ops = append(ops, fmt.Sprintf("Q %d %d", m, r.Intn(2)))
			case k < 99:
				ops = append(ops, "P")
			default:
				ops = append(ops, "T")
			}
		}
		if r.Chance(70) {
			ops = append(ops, h.Pick(r, []string{"W", "N"}))
		}
		var us []int
		for u := range used {
			us = append(us, int(u))
		}
		sort.Ints(us)
		var tbl []string
		for _, u := range us {
			tbl = append(tbl, fmt.Sprintf("%d=%s", u, cd.encStr(rune(u))))
		}
		if r.Chance(15) { // the history runs in the object's second life (Init, Fini, Init)
			ops = append([]string{"I2"}, ops...)
		}
		g.Emit("sim cfg %s %s %s; %s", v, cs, strings.Join(tbl, ","), strings.Join(ops, "; "))
	}
	genSimDirected(g, v)
	genSimBursts(g, v)
	// codec laws behind inject_bytes_text, validated exhaustively in the thorough tier: see genCodecLaws
	genCodecLaws(g, v)
}

// genSimBursts: more injections than the event queue holds (11..40 keys / mouse events / characters of one InjectKeyBytes / a
// SetSize behind ten pending events) made while the application does not poll; it polls afterwards.  From the statement:
// "injected keys/mouse/bytes come out of PollEvent in order exactly as injected".
func genSimBursts(g *h.Gen, v string) {
	r := g.R
	for i, n := 0, g.N(150, 4000); i < n; i++ {
		cs := simCharsets[i%len(simCharsets)]
		cd := newCodec(cs)
		pool := textPool(cd)
		var ops []string
		if r.Chance(60) {
			ops = append(ops, fmt.Sprintf("Z %d %d", r.Range(1, 6), r.Range(1, 3)))
		}
		key := func() string {
			if r.Chance(40) {
				return fmt.Sprintf("K %d 0 %d", h.Pick(r, []int{int(tcell.KeyUp), int(tcell.KeyF1), int(tcell.KeyEnter), int(tcell.KeyEsc), int(tcell.KeyCtrlA), int(tcell.KeyDelete)}), r.Intn(16))
			}
			return fmt.Sprintf("K %d %d %d", int(tcell.KeyRune), h.Pick(r, []int{'a', 'Z', 0xe9, 0x4e16, 0x1f600, ' ', r.Range('!', '~')}), r.Intn(16))
		}
		mouse := func() string {
			return fmt.Sprintf("M %d %d %d %d", r.Range(-1, 90), r.Range(-1, 30), h.Pick(r, []int{0, 1, 2, 4, 256, 512, 3}), r.Intn(16))
		}
		text := func(n int) string {
			var b []byte
			for q := 0; q < n; q++ {
				if len(pool) == 0 || r.Chance(30) {
					b = append(b, byte(r.Range(' ', '~')))
				} else {
					out, _ := cd.encode(h.Pick(r, pool))
					b = append(b, out...)
				}
			}
			return fmt.Sprintf("B %s %s", h.Hex(b), decTable(cd, b))
		}
		for rounds := r.Range(1, 2); rounds > 0; rounds-- {
			for k := r.Intn(3); k > 0; k-- { // some events delivered one by one first
				ops = append(ops, key())
			}
			ops = append(ops, "A")
			n := h.Pick(r, []int{11, 12, 13, 20, 30, 40, r.Range(9, 40)})
			switch r.Intn(5) {
			case 0:
				for k := 0; k < n; k++ {
					ops = append(ops, key())
				}
			case 1:
				for k := 0; k < n; k++ {
					ops = append(ops, mouse())
				}
			case 2:
				ops = append(ops, text(n))
			case 3:
				for k := 0; k < n; {
					switch r.Intn(3) {
					case 0:
						ops = append(ops, key())
						k++
					case 1:
						ops = append(ops, mouse())
						k++
					default:
						m := r.Range(1, 6)
						ops = append(ops, text(m))
						k += m
					}
				}
			default: // a SetSize behind 10 (9, 11, …) pending events
				for k := h.Pick(r, []int{10, 10, 9, 11, 15}); k > 0; k-- {
					ops = append(ops, key())
				}
				ops = append(ops, fmt.Sprintf("Z %d %d", r.Range(1, 6), r.Range(1, 3)))
			}
			ops = append(ops, "E")
			if r.Chance(60) {
				ops = append(ops, "P")
			}
			if r.Chance(50) {
				ops = append(ops, h.Pick(r, []string{"W", "N"}))
			}
		}
		g.Emit("sim cfg %s %s %d=%s; %s", v, cs, ' ', cd.encStr(' '), strings.Join(ops, "; "))
	}
}

// genSimDirected: (a) the last column: rounds of [SetStyle] SetContent(w-1, y, wide|narrow, explicit style|StyleDefault)
// Show|Sync, so that the cell shown blank for a wide rune was painted before in another style (explicit, or the screen
// style of an earlier SetStyle); (b) cursor lifecycles: ShowCursor (in and out of range) / HideCursor / Show / Sync /
// SetSize in every short order, the query observed after each step.
func genSimDirected(g *h.Gen, v string) {
	r := g.R
	def := StyleF{}.String()
	style := func() string {
		if r.Chance(35) {
			return def
		}
		return noColorNone(RandStyle(r)).String()
	}
	wide := []int{0x4e16, 0x754c, 0xff21, 0x3042, 0x1f600}
	narrow := []int{'a', 'Z', ' ', 0xe9, '#'}
	// another screen of the process changes ITS fallback table (before / after this screen's own changes), then this screen
	// draws the rune and asks CanDisplay; also in the object's second life
	for _, cs := range []string{"US-ASCII", "ISO8859-1", "KOI8-R"} {
		cd := newCodec(cs)
		if cd == nil {
			continue
		}
		for k, m := range []int{0x2500, 0x25c6, 0x2192, 0x2502} {
			tbl := fmt.Sprintf("%d=%s,32=%s", m, cd.encStr(rune(m)), cd.encStr(' '))
			pre := ""
			if k%2 == 1 {
				pre = "I2; "
			}
			g.Emit("sim cfg %s %s %s; %sOU %d; S 0 0 %d - %s; W; Q %d 1; G", v, cs, tbl, pre, m, m, def, m)
			g.Emit("sim cfg %s %s %s; %sS 0 0 %d - %s; W; OU %d; OR %d 23; N; Q %d 1; G", v, cs, tbl, pre, m, def, m, m, m)
		}
	}
	// styles that differ from StyleDefault ONLY in the hyperlink or the underline colour/style: they are the cell's own style (the
	// screen style stands in for StyleDefault alone), with and without a screen style set
	{
		cd := newCodec("UTF-8")
		tbl := fmt.Sprintf("97=%s,32=%s", cd.encStr('a'), cd.encStr(' '))
		only := []string{
			StyleF{Url: "https://example.com/x", UrlId: "id=7"}.String(), StyleF{Url: "https://example.com/y"}.String(),
			StyleF{UlStyle: 1, UlColor: uint64(tcell.ColorGreen)}.String(), StyleF{UlColor: uint64(tcell.ColorRed)}.String(), StyleF{UlStyle: 3}.String(),
		}
		scrSt := StyleF{Fg: uint64(tcell.ColorYellow), Bg: uint64(tcell.ColorNavy), Attrs: 1}.String()
		for k, st := range only {
			g.Emit("sim cfg %s UTF-8 %s; S %d 0 97 - %s; S 5 1 97 - %s; W; G", v, tbl, k, st, def)
			g.Emit("sim cfg %s UTF-8 %s; Y %s; S %d 0 97 - %s; S 5 1 97 - %s; W; G; N; G", v, tbl, scrSt, k, st, def)
		}
	}
	for i, n := 0, g.N(120, 3000); i < n; i++ {
		cs := simCharsets[i%len(simCharsets)]
		cd := newCodec(cs)
		w, hh := r.Range(1, 5), r.Range(1, 2)
		ops := []string{fmt.Sprintf("Z %d %d", w, hh)}
		used := map[rune]bool{' ': true}
		if r.Chance(50) {
			ops = append(ops, "Y "+noColorNone(RandStyle(r)).String())
		}
		if r.Chance(30) {
			ops = append(ops, h.Pick(r, []string{"W", "N"}))
		}
		for k := r.Range(2, 5); k > 0; k-- {
			if r.Chance(35) {
				ops = append(ops, "Y "+noColorNone(RandStyle(r)).String())
			}
			m := h.Pick(r, wide)
			if r.Chance(25) {
				m = h.Pick(r, narrow)
			}
			used[rune(m)] = true
			x := w - 1
			if r.Chance(15) {
				x = r.Range(0, w-1)
			}
			ops = append(ops, fmt.Sprintf("S %d %d %d - %s", x, r.Range(0, hh-1), m, style()))
			if r.Chance(85) {
				ops = append(ops, h.Pick(r, []string{"W", "W", "N"}))
			}
		}
		ops = append(ops, h.Pick(r, []string{"W", "N"}), "G")
		var us []int
		for u := range used {
			us = append(us, int(u))
		}
		sort.Ints(us)
		var tbl []string
		for _, u := range us {
			tbl = append(tbl, fmt.Sprintf("%d=%s", u, cd.encStr(rune(u))))
		}
		g.Emit("sim cfg %s %s %s; %s", v, cs, strings.Join(tbl, ","), strings.Join(ops, "; "))
	}
	for i, n := 0, g.N(120, 3000); i < n; i++ {
		w, hh := r.Range(1, 6), r.Range(1, 3)
		ops := []string{fmt.Sprintf("Z %d %d", w, hh)}
		if r.Chance(50) {
			ops = append(ops, "W")
		}
		for k := r.Range(2, 6); k > 0; k-- {
			switch q := r.Intn(100); {
			case q < 45:
				x, y := r.Range(0, w-1), r.Range(0, hh-1)
				if r.Chance(25) { // out of range: hidden
					x, y = h.Pick(r, []int{-1, w, w + 3, x}), h.Pick(r, []int{-1, hh, hh + 2, y})
				}
				ops = append(ops, fmt.Sprintf("C %d %d", x, y))
			case q < 80:
				ops = append(ops, "D")
			case q < 85:
				ops = append(ops, "C -1 -1")
			default:
				w, hh = r.Range(1, 6), r.Range(1, 3)
				ops = append(ops, fmt.Sprintf("Z %d %d", w, hh))
			}
			for q := r.Range(0, 2); q > 0; q-- {
				ops = append(ops, h.Pick(r, []string{"W", "W", "N", "G"}))
			}
		}
		ops = append(ops, h.Pick(r, []string{"W", "N"}), "G")
		g.Emit("sim cfg %s UTF-8 32=20; %s", v, strings.Join(ops, "; "))
	}
}

// genCodecLaws emits, per charset, InjectKeyBytes cases with every encodable BMP rune (quick: a stride) as the last
// character of a short text: this exercises `dec` on every proper prefix of every character's encoding.
func genCodecLaws(g *h.Gen, v string) {
	stride := 97
	if g.Thorough() {
		stride = 1
	}
	for ci, cs := range simCharsets {
		cd := newCodec(cs)
		var ops []string
		flush := func() {
			if len(ops) > 0 {
				g.Emit("sim cfg %s %s 32=20; %s", v, cs, strings.Join(ops, "; "))
				ops = nil
			}
		}
		for c := 0x80 + ci%stride; c < 0x10000; c += stride {
			if c >= 0xd800 && c < 0xe000 {
				continue
			}
			out, ok := cd.representable(rune(c))
			if !ok || len(out) < 2 {
				continue
			}
			b := append([]byte{'a'}, out...)
			ops = append(ops, fmt.Sprintf("B %s %s", h.Hex(b), decTable(cd, b)))
			if len(ops) >= 32 {
				flush()
			}
		}
		flush()
	}
}

func init() {
	h.Register(&h.Engine{Name: "sim",
		Rule: "random histories (4-30 ops) on NewSimulationScreen(charset) for 12 charsets: drawing, styles, cursor (ShowCursor/HideCursor), Show/Sync, SetSize, injected keys/mouse/bytes, fallback registration; directed last-column histories (wide/narrow runes at x=w-1 in explicit styles and StyleDefault under changing SetStyle) and cursor lifecycles (ShowCursor in/out of range, HideCursor, Show, Sync, SetSize); plus every (quick: every 97th) multi-byte BMP character of each charset injected as the last character of a text; distinct = distinct line; non-trivial = an in-range SetContent, a SetSize or an InjectKeyBytes",
		Gen:  genSim, Exec: execSim})
}
