package engines

// Engine `wasm` (C19): the native side only *generates* the case lines.  The cases are executed by the js/wasm
// program harness/wasm (built with GOOS=js GOARCH=wasm and run under Node by lib/props/C19.py); natively the
// backend does not exist, so Exec only answers SKIP.
//
//	wasm draw <op>; …   size W H | sc X Y MAIN COMB STYLE | fill R STYLE | variant fz | ss STYLE | show | sync | lock X Y W H 0|1
//	                    | cur X Y | hide | cs N COLOR | clear | beep | title HEX
//	wasm ev <op>; …     em F|- | dm | ep | dp | ef | df | suspend | resume | key HEXNAME sh al ct me
//	                    | click X Y B sh al ct | move X Y B sh al ct | paste 0|1 | focus 0|1 | burst N (N key callbacks back to back)
//	wasm life <op>; …   suspend | resume | size W H | fini          (every order up to length 4)

import (
	"bufio"
	"encoding/hex"
	"fmt"
	"os"
	"path/filepath"
	"strings"

	"github.com/gdamore/tcell/v2"
	"verif/harness/h"
)

func wasmKeyNames() []string {
	var out []string
	f, err := os.Open(filepath.Join(os.Getenv("VERIF_GEN"), "webkeys.txt"))
	if err != nil {
		return []string{"Enter", "ArrowUp", "F1", "Ctrl-a"}
	}
	defer f.Close()
	sc := bufio.NewScanner(f)
	for sc.Scan() {
		p := strings.Fields(sc.Text())
		if len(p) == 3 && p[0] == "key" {
			b, _ := hex.DecodeString(p[1])
			out = append(out, string(b))
		}
	}
	return out
}

func wb01(b bool) int {
	if b {
		return 1
	}
	return 0
}

func wasmGen(g *h.Gen) {
	// bursts of callbacks in one JS task while the application is not polling (below, at and well above the queue's capacity)
	for _, n := range []int{3, 10, 11, 28, 64} {
		g.Emit("wasm ev burst %d", n)
		g.Emit("wasm ev ep; paste 1; burst %d; paste 0", n)
	}
	r := g.R
	// ---- lifecycle: every order of Suspend/Resume/SetSize/Fini up to length 4 (exhaustive)
	kinds := []string{"suspend", "resume", "size", "fini"}
	var rec func(prefix []string, depth int)
	rec = func(prefix []string, depth int) {
		ops := make([]string, len(prefix))
		nsz := 0
		for i, k := range prefix {
			if k == "size" {
				nsz++
				ops[i] = fmt.Sprintf("size %d %d", 10+nsz, 5)
			} else {
				ops[i] = k
			}
		}
		g.Emit("wasm life %s", strings.Join(ops, "; "))
		if depth == 4 {
			return
		}
		for _, k := range kinds {
			rec(append(append([]string{}, prefix...), k), depth+1)
		}
	}
	rec(nil, 0)
	for i := 0; i < g.N(10, 500); i++ { // longer random orders, including a SetSize that does not change the size
		n := r.Range(5, 9)
		var ops []string
		for j := 0; j < n; j++ {
			switch r.Intn(5) {
			case 0:
				ops = append(ops, "suspend")
			case 1:
				ops = append(ops, "resume")
			case 2:
				ops = append(ops, fmt.Sprintf("size %d %d", r.Range(1, 90), r.Range(1, 30)))
			case 3:
				ops = append(ops, "size 80 24")
			case 4:
				ops = append(ops, "fini")
			}
		}
		g.Emit("wasm life %s", strings.Join(ops, "; "))
	}

	// ---- keys: every name of the table x the 16 modifier sets (exhaustive), plus other key strings
	names := wasmKeyNames()
	others := []string{"a", "A", "z", "h", "i", "m", "H", " ", "_", "]", "\\", "^", "1", "é", "世", "😀", "", "PageUp", "Dead", "Control", "Alt", "Meta", "Shift",
		"\x01", "\x1b", "\x7f", "\t", "Ctrl-h", "enter", "ß"}
	for _, n := range append(append([]string{}, names...), others...) {
		var ops []string
		for m := 0; m < 16; m++ {
			ops = append(ops, fmt.Sprintf("key %s %d %d %d %d", h.Hex([]byte(n)), m&1, (m>>1)&1, (m>>2)&1, (m>>3)&1))
		}
		g.Emit("wasm ev %s", strings.Join(ops, "; "))
	}
	// ---- mouse: every enabled-flag set x callback x button code x modifier set (exhaustive)
	flagSets := []string{"never", "-", "0", "1", "2", "3", "4", "5", "6", "7", "dm"}
	for _, fs := range flagSets {
		var ops []string
		switch fs {
		case "never":
		case "dm":
			ops = append(ops, "em 7", "dm")
		default:
			ops = append(ops, "em "+fs)
		}
		for _, via := range []string{"click", "move"} {
			for b := 0; b <= 4; b++ {
				for m := 0; m < 8; m++ {
					ops = append(ops, fmt.Sprintf("%s %d %d %d %d %d %d", via, r.Range(0, 79), r.Range(0, 23), b, m&1, (m>>1)&1, (m>>2)&1))
				}
			}
		}
		g.Emit("wasm ev %s", strings.Join(ops, "; "))
	}
	// ---- random event histories (modes toggled, suspend/resume in between)
	for i := 0; i < g.N(150, 6000); i++ {
		n := r.Range(3, 25)
		var ops []string
		for j := 0; j < n; j++ {
			switch r.Intn(16) {
			case 0:
				ops = append(ops, h.Pick(r, []string{"em -", "em 1", "em 2", "em 4", "em 3", "em 6", "em 7", "em 0"}))
			case 1:
				ops = append(ops, "dm")
			case 2:
				ops = append(ops, "ep")
			case 3:
				ops = append(ops, "dp")
			case 4:
				ops = append(ops, "ef")
			case 5:
				ops = append(ops, "df")
			case 6:
				ops = append(ops, "suspend")
			case 7:
				ops = append(ops, "resume")
			case 8, 9, 10:
				var n string
				if r.Chance(50) {
					n = h.Pick(r, names)
				} else {
					n = h.Pick(r, others)
				}
				m := r.Intn(16)
				if r.Chance(30) {
					m = 4
				}
				ops = append(ops, fmt.Sprintf("key %s %d %d %d %d", h.Hex([]byte(n)), m&1, (m>>1)&1, (m>>2)&1, (m>>3)&1))
			case 11, 12:
				ops = append(ops, fmt.Sprintf("click %d %d %d %d %d %d", r.Range(-1, 80), r.Range(-1, 24), r.Intn(5), wb01(r.Chance(20)), wb01(r.Chance(20)), wb01(r.Chance(20))))
			case 13:
				ops = append(ops, fmt.Sprintf("move %d %d %d %d %d %d", r.Range(0, 79), r.Range(0, 23), r.Intn(4), wb01(r.Chance(20)), wb01(r.Chance(20)), wb01(r.Chance(20))))
			case 14:
				ops = append(ops, fmt.Sprintf("paste %d", r.Intn(2)))
			case 15:
				ops = append(ops, fmt.Sprintf("focus %d", r.Intn(2)))
			}
		}
		g.Emit("wasm ev %s", strings.Join(ops, "; "))
	}

	// ---- the 16 basic colours as foreground, background and underline colour (exhaustive), then all 256 palette entries
	{
		ops := []string{"size 16 3"}
		for i := 0; i < 16; i++ {
			c := uint64(tcell.ColorBlack) + uint64(i)
			ops = append(ops, fmt.Sprintf("sc %d 0 65 - %d,0,0,0,0,-,-", i, c), fmt.Sprintf("sc %d 1 66 - 0,%d,0,0,0,-,-", i, c),
				fmt.Sprintf("sc %d 2 67 - 0,0,0,1,%d,-,-", i, c))
		}
		g.Emit("wasm draw %s; show", strings.Join(ops, "; "))
		ops = []string{"size 16 16"}
		for i := 0; i < 256; i++ {
			ops = append(ops, fmt.Sprintf("sc %d %d 65 - %d,%d,0,0,0,-,-", i%16, i/16, uint64(tcell.PaletteColor(i)), uint64(tcell.PaletteColor(255-i))))
		}
		g.Emit("wasm draw %s; show", strings.Join(ops, "; "))
		// every attribute bit and underline style
		ops = []string{"size 8 2"}
		for i := 0; i < 7; i++ {
			ops = append(ops, fmt.Sprintf("sc %d 0 65 - 0,0,%d,0,0,-,-", i, 1<<i))
		}
		for i := 0; i < 6; i++ {
			ops = append(ops, fmt.Sprintf("sc %d 1 66 - 0,0,0,%d,%d,-,-", i, i, uint64(tcell.NewRGBColor(1, 2, 3))))
		}
		g.Emit("wasm draw %s; show", strings.Join(ops, "; "))
	}

	// ---- directed: LockRegion beside wide runes (screen.go:424 is shared by every backend): a wide rune just left of a region
	// that is locked and unlocked again / unlocked without ever having been locked / locked twice and unlocked once; the
	// wide rune inside the region; content changed while locked; then Shows (the page must equal the logical contents and
	// only changed cells may be touched)
	{
		d := "0,0,0,0,0,-,-"
		n := 0
		for _, x := range []int{1, 2, 4} {
			for _, left := range []int{0x4e16, 'l'} {
				for _, variant := range []string{"lock-unlock", "never", "twice", "partial", "change"} {
					n++
					y := n % 2
					ops := []string{}
					if fillZWSuffix() != "" {
						ops = append(ops, "variant fz")
					}
					ops = append(ops, "size 6 2", fmt.Sprintf("sc %d %d %d - %s", x-1, y, left, d), fmt.Sprintf("sc %d %d 107 - %s", x, y, d),
						fmt.Sprintf("sc %d %d 19990 - %s", 0, 1-y, d), "show")
					L := func(x, w, on int) string { return fmt.Sprintf("lock %d 0 %d 2 %d", x, w, on) }
					switch variant {
					case "lock-unlock":
						ops = append(ops, L(x, 2, 1), "show", L(x, 2, 0))
					case "never":
						ops = append(ops, L(x, 2, 0), "show", L(1, 1, 0))
					case "twice":
						ops = append(ops, L(x, 2, 1), L(x, 2, 1), "show", L(x, 2, 0))
					case "partial":
						ops = append(ops, L(x, 2, 1), "show", L(x+1, 1, 0), "show", L(x, 1, 0))
					case "change":
						ops = append(ops, L(x, 2, 1), fmt.Sprintf("sc %d %d 30028 - %s", x, y, d), fmt.Sprintf("sc %d %d 120 - %s", x-1, y, d),
							fmt.Sprintf("sc %d %d %d - %s", x-1, y, left, d), "show", L(x, 2, 0))
					}
					ops = append(ops, "show", "show")
					g.Emit("wasm draw %s", strings.Join(ops, "; "))
				}
			}
		}
		// Fill with runes that cannot be displayed in a cell of their own (C19 "leave the page grid equal to the logical
		// contents"; the logical content of such a cell is what GetContent reports: a blank on the repaired Fill)
		for _, fr := range fillSpecial {
			ops := []string{}
			if fillZWSuffix() != "" {
				ops = append(ops, "variant fz")
			}
			ops = append(ops, "size 3 2", fmt.Sprintf("sc 1 0 65 769 %s", d), "show", fmt.Sprintf("fill %d %s", fr, d), "show",
				fmt.Sprintf("sc 0 1 %d - %s", fr, d), fmt.Sprintf("fill %d 4294967297,4294967298,0,0,0,-,-", fr), "show")
			g.Emit("wasm draw %s", strings.Join(ops, "; "))
		}
	}

	// ---- draw histories
	for i := 0; i < g.N(220, 12000); i++ {
		var ops []string
		if fillZWSuffix() != "" { // model variant marker for the Lean driver (no effect on the screen), see cb.go
			ops = append(ops, "variant fz")
		}
		w, hh := 80, 24
		if !r.Chance(3) {
			w, hh = r.Range(1, 8), r.Range(1, 4)
			ops = append(ops, fmt.Sprintf("size %d %d", w, hh))
		}
		n := r.Range(4, 40)
		lastLock := ""
		for j := 0; j < n; j++ {
			x, y := r.Range(0, w-1), r.Range(0, hh-1)
			if r.Chance(6) {
				x, y = r.Range(-1, w), r.Range(-1, hh)
			}
			switch c := r.Intn(100); {
			case c < 50:
				ru := RandRune(r)
				if r.Chance(25) {
					ru = h.Pick(r, []int{0x4e16, 0x754c, 0x1f600, 0xff21})
				}
				ops = append(ops, fmt.Sprintf("sc %d %d %d %s %s", x, y, ru, h.ShowIntList(RandComb(r)), RandStyle(r)))
			case c < 68:
				ops = append(ops, "show")
			case c < 72:
				ops = append(ops, "sync")
			case c < 76:
				fr := h.Pick(r, []int{' ', 'x', '.', 0x4e16, 0, 0x301})
				if r.Chance(25) {
					fr = h.Pick(r, fillSpecial)
				}
				ops = append(ops, fmt.Sprintf("fill %d %s", fr, RandStyle(r)))
			case c < 79:
				ops = append(ops, "clear")
			case c < 83:
				ops = append(ops, "ss "+RandStyle(r).String())
			case c < 87:
				if r.Chance(30) {
					ops = append(ops, fmt.Sprintf("size %d %d", w, hh))
				} else {
					w, hh = r.Range(1, 8), r.Range(1, 4)
					ops = append(ops, fmt.Sprintf("size %d %d", w, hh))
				}
			case c < 91:
				lk := r.Intn(2)
				reg := fmt.Sprintf("lock %d %d %d %d", x, y, r.Range(0, 3), r.Range(0, 2))
				if lk == 0 && lastLock != "" && r.Chance(60) { // unlock exactly what was locked last
					reg, lastLock = lastLock, ""
				}
				ops = append(ops, fmt.Sprintf("%s %d", reg, lk))
				if lk == 1 {
					lastLock = reg
					if r.Chance(40) { // a wide rune just left of the locked region
						ops = append(ops, fmt.Sprintf("sc %d %d %d - %s", x-1, y, h.Pick(r, []int{0x4e16, 0x754c, 0xff21}), RandStyle(r)))
					}
				}
			case c < 94:
				ops = append(ops, fmt.Sprintf("cur %d %d", x, y))
			case c < 95:
				ops = append(ops, "hide")
			case c < 97:
				col := "-"
				if r.Bool() {
					col = fmt.Sprint(h.Pick(r, genColors))
				}
				ops = append(ops, fmt.Sprintf("cs %d %s", r.Intn(7), col))
			case c < 98:
				ops = append(ops, "beep")
			default:
				ops = append(ops, "title "+h.Hex([]byte(h.Pick(r, []string{"", "t", "héllo", "a b"}))))
			}
		}
		ops = append(ops, "show")
		g.Emit("wasm draw %s", strings.Join(ops, "; "))
	}
}

func init() {
	h.Register(&h.Engine{
		Name: "wasm",
		Rule: "distinct canonical case line; non-trivial = a draw history with at least one drawCell call, an event case with a delivered or refused callback, or a lifecycle order (all orders up to length 4 are enumerated)",
		Gen:  wasmGen,
		Exec: func(line string) h.Result {
			return h.Result{Obs: "SKIP js/wasm cases are executed under Node by lib/props/C19.py", Tags: []string{"native-skip"}}
		},
	})
}
