package engines

import (
	"fmt"
	"strings"

	"github.com/gdamore/tcell/v2"
	runewidth "github.com/mattn/go-runewidth"
	"verif/harness/h"
)

// Engine cb — C08: histories over the exported CellBuffer API.
//
// line:  cb <op>; <op>; …     ops: S x y main comb style (comb: `-` nil slice, `=` empty non-nil slice, else r,r,…) |
//                                  F r style | R w h | I | D x y 0|1 | L x y | U x y |
//                                  G x y (observe GetContent) | Q x y (observe Dirty) | Z (observe Size)
// reply: the observations in order, then "H <w>x<h>:<GetContent/Dirty of every cell>".
//
// Oracle (written from the property text, not from cell.go): a shadow W×H array of what was stored, a
// snapshot per cell of what GetContent reported when it was last marked clean, the set of locked cells.

// fillSpecial: rune values Fill is exercised with besides ordinary width-1 runes (cb, draw): DEL, C1 controls, soft
// hyphen, zero-width / bidi / format characters, combining marks, a tag character, a surrogate, non-characters, negative
// and out-of-range values.  Fill's documentation excludes only combining characters and wide runes; the property
// statements (C08 "a blank of width 1 for zero-width or control runes", C09 "no rune supplied as primary cell content")
// quantify over all of them.
var fillSpecial = []int{0x7f, 0x80, 0x85, 0x9b, 0x9f, 0xad, 0x200b, 0x200d, 0x200e, 0x202e, 0x2060, 0xfeff, 0x301, 0x20dd,
	0xe0001, 0xd800, 0xfffe, -1, -0x80000000, 0x110000, 0x7fffffff}

// fillZWSuffix probes the tree under test once per process (public CellBuffer API only): "+fz" when Fill replaces a
// zero-width rune by a blank, so that GetContent shows a blank exactly as after SetContent
// (fixes/C09-fill-zero-width.patch); "" for the pinned Fill (width 1 for every rune, cell.go:244).  The flag travels on
// the case lines (after the entry name for draw / modes, as the pseudo-op `V fz` for cb, as the sixth variant letter
// for sim, as the pseudo-op `variant fz` for wasm draw) and selects the model variant in the Lean driver; no oracle
// looks at it.
var fillZWVariant *string

func fillZWSuffix() string {
	if fillZWVariant != nil {
		return *fillZWVariant
	}
	s := ""
	func() {
		defer func() { _ = recover() }()
		var cb tcell.CellBuffer
		cb.Resize(1, 1)
		cb.Fill(0x200b, tcell.StyleDefault)
		if m, _, _, w := cb.GetContent(0, 0); m == ' ' && w == 1 {
			s = "+fz"
		}
	}()
	fillZWVariant = &s
	return s
}

// combRunes decodes the combining-list token of an `S` op (cb, draw).  Callers hand SetContent a nil slice, an empty
// slice that is not nil (Screen.SetCell passes ch[1:]; an application may pass []rune{}) or a list of runes: the
// property statements know "combining runes" as a list, so the three spellings of the empty list are the same input.
func combRunes(tok string) []rune {
	if tok == "=" {
		return []rune{}
	}
	return toRunes(h.IntList(tok))
}

// showComb renders a combining list for a generated `S` op; emptyNonNil picks `=` for the empty list.
func showComb(l []int, emptyNonNil bool) string {
	if len(l) == 0 && emptyNonNil {
		return "="
	}
	return h.ShowIntList(l)
}

type cbContent struct {
	main  int
	comb  string
	style StyleF
}
type cbShadow struct {
	w, h    int
	cells   map[[2]int]*cbContent // what was stored (raw)
	snap    map[[2]int]*cbContent // observable content when last marked clean; absent = must be dirty
	locked  map[[2]int]bool
	wideFil map[[2]int]bool // cell last written by Fill (its reported width is 1 by documentation)
}

func showGet(m rune, c []rune, st tcell.Style, w int) string {
	return fmt.Sprintf("%d/%s/%s/%d", int(m), h.ShowIntList(fromRunes(c)), FromStyle(st).String(), w)
}

func dumpCB(cb *tcell.CellBuffer) string {
	w, hh := cb.Size()
	var sb strings.Builder
	fmt.Fprintf(&sb, "%dx%d:", w, hh)
	first := true
	for y := 0; y < hh; y++ {
		for x := 0; x < w; x++ {
			if !first {
				sb.WriteByte(' ')
			}
			first = false
			m, c, st, wd := cb.GetContent(x, y)
			sb.WriteString(showGet(m, c, st, wd))
			if cb.Dirty(x, y) {
				sb.WriteByte('!')
			} else {
				sb.WriteByte('.')
			}
		}
	}
	return sb.String()
}

func observable(main int) int {
	if runewidth.RuneWidth(rune(main)) == 0 || main < ' ' {
		return ' '
	}
	return main
}

func (s *cbShadow) in(x, y int) bool { return x >= 0 && y >= 0 && x < s.w && y < s.h }

// check compares the real buffer with the shadow after an op; returns findings.
func (s *cbShadow) check(cb *tcell.CellBuffer, after string) []h.Finding {
	var fs []h.Finding
	add := func(class, format string, a ...interface{}) {
		if len(fs) < 3 {
			fs = append(fs, h.Finding{Class: class, Msg: "after " + after + ": " + fmt.Sprintf(format, a...)})
		}
	}
	w, hh := cb.Size()
	if w != s.w || hh != s.h {
		add("size", "Size()=%dx%d want %dx%d", w, hh, s.w, s.h)
		return fs
	}
	for y := -1; y <= s.h; y++ {
		for x := -1; x <= s.w; x++ {
			m, c, st, wd := cb.GetContent(x, y)
			got := cbContent{int(m), h.ShowIntList(fromRunes(c)), FromStyle(st)}
			if !s.in(x, y) {
				if m != 0 || len(c) != 0 || st != tcell.StyleDefault {
					add("oob-read", "GetContent(%d,%d) out of range = %v", x, y, got)
				}
				if cb.Dirty(x, y) {
					add("oob-dirty", "Dirty(%d,%d) out of range is true", x, y)
				}
				continue
			}
			want := s.cells[[2]int{x, y}]
			wobs := cbContent{observable(want.main), want.comb, want.style}
			if got != wobs {
				add("stored", "GetContent(%d,%d)=%v want %v", x, y, got, wobs)
			}
			if !s.wideFil[[2]int{x, y}] {
				ww := runewidth.RuneWidth(rune(want.main))
				if ww == 0 || want.main < ' ' {
					ww = 1
				}
				if wd != ww {
					add("width", "GetContent(%d,%d) width=%d want %d for rune %d", x, y, wd, ww, want.main)
				}
			}
			d := cb.Dirty(x, y)
			if s.locked[[2]int{x, y}] {
				if d {
					add("locked-dirty", "Dirty(%d,%d) true while locked", x, y)
				}
				continue
			}
			sn := s.snap[[2]int{x, y}]
			if !d && (sn == nil || *sn != got) {
				add("dirty-missed", "Dirty(%d,%d)=false but content %v differs from last clean snapshot %v", x, y, got, sn)
			}
		}
	}
	return fs
}

func execCB(line string) h.Result {
	rest := strings.TrimPrefix(line, "cb ")
	var cb tcell.CellBuffer
	sh := &cbShadow{cells: map[[2]int]*cbContent{}, snap: map[[2]int]*cbContent{}, locked: map[[2]int]bool{}, wideFil: map[[2]int]bool{}}
	var obs []string
	var res h.Result
	tags := map[string]bool{}
	fzLine := ""
	for _, op := range h.SplitTrim(rest, ";") {
		f := strings.Fields(op)
		if len(f) == 2 && f[0] == "V" && f[1] == "fz" { // variant marker for the Lean driver, see fillZWSuffix
			fzLine = "+fz"
			continue
		}
		switch f[0] {
		case "S":
			x, y, m, st := h.Atoi(f[1]), h.Atoi(f[2]), h.Atoi(f[3]), ParseStyleF(f[5])
			cslice := combRunes(f[4]) // `-` = nil, `=` = empty but not nil (what Screen.SetCell hands over), else the runes
			comb := fromRunes(cslice)
			if cslice != nil && len(cslice) == 0 {
				tags["comb-empty-non-nil"] = true
			}
			cb.SetContent(x, y, rune(m), cslice, st.ToStyle())
			for i := range cslice { // the caller mutates its slice afterwards: the buffer must hold a copy
				cslice[i] = 'X'
			}
			if sh.in(x, y) {
				k := [2]int{x, y}
				old := sh.cells[k]
				oldw := 0
				if got := sh.wideFil[k]; got {
					oldw = 1
					if runewidth.RuneWidth(rune(old.main)) == 0 {
						// a zero-width rune covers no column: the property does not ask for a forced repaint when it is
						// replaced (both Fill variants record width 1 and do force; a content change is still detected by
						// the comparison with the last clean snapshot)
						oldw = 0
					}
				} else {
					oldw = runewidth.RuneWidth(rune(old.main))
				}
				ns := st
				if ns.Fg == ColorNoneU {
					ns.Fg = old.style.Fg
					tags["colornone"] = true
				}
				if ns.Bg == ColorNoneU {
					ns.Bg = old.style.Bg
				}
				if old.main != m || old.comb != h.ShowIntList(comb) {
					// changing a wide rune dirties every column it covered
					for i := 0; i < oldw; i++ {
						delete(sh.snap, [2]int{x + i, y})
					}
					if oldw > 1 {
						tags["wide-change"] = true
					}
					if old.main != m {
						delete(sh.wideFil, k)
					}
				}
				sh.cells[k] = &cbContent{m, h.ShowIntList(comb), ns}
				res.Nontrivial = true
				tags["set-in"] = true
			} else {
				tags["set-oob"] = true
			}
		case "F":
			r, st := h.Atoi(f[1]), ParseStyleF(f[2])
			cb.Fill(rune(r), st.ToStyle())
			for k, c := range sh.cells {
				ns := st
				if ns.Fg == ColorNoneU {
					ns.Fg = c.style.Fg
				}
				if ns.Bg == ColorNoneU {
					ns.Bg = c.style.Bg
				}
				sh.cells[k] = &cbContent{r, "-", ns}
				sh.wideFil[k] = true
			}
			tags["fill"] = true
		case "R":
			w, hh := h.Atoi(f[1]), h.Atoi(f[2])
			cb.Resize(w, hh)
			if w != sh.w || hh != sh.h {
				nc := map[[2]int]*cbContent{}
				nf := map[[2]int]bool{}
				for y := 0; y < hh; y++ {
					for x := 0; x < w; x++ {
						k := [2]int{x, y}
						if c, ok := sh.cells[k]; ok && x < sh.w && y < sh.h {
							nc[k] = c
							if sh.wideFil[k] {
								nf[k] = true
							}
						} else {
							nc[k] = &cbContent{0, "-", StyleF{}}
						}
					}
				}
				sh.cells, sh.wideFil, sh.w, sh.h = nc, nf, w, hh
				sh.snap = map[[2]int]*cbContent{}
				sh.locked = map[[2]int]bool{}
				tags["resize"] = true
				res.Nontrivial = true
			}
		case "I":
			cb.Invalidate()
			sh.snap = map[[2]int]*cbContent{}
			tags["invalidate"] = true
		case "D":
			x, y, d := h.Atoi(f[1]), h.Atoi(f[2]), f[3] == "1"
			cb.SetDirty(x, y, d)
			if sh.in(x, y) {
				k := [2]int{x, y}
				if d {
					delete(sh.snap, k)
				} else {
					m, c, st, _ := cb.GetContent(x, y)
					sh.snap[k] = &cbContent{int(m), h.ShowIntList(fromRunes(c)), FromStyle(st)}
					if !sh.locked[k] && cb.Dirty(x, y) {
						res.Findings = append(res.Findings, h.Finding{Class: "dirty-after-clean", Msg: fmt.Sprintf("Dirty(%d,%d) true right after SetDirty(false)", x, y)})
					}
					tags["clean"] = true
				}
			}
		case "L":
			x, y := h.Atoi(f[1]), h.Atoi(f[2])
			cb.LockCell(x, y)
			if sh.in(x, y) {
				sh.locked[[2]int{x, y}] = true
				tags["lock"] = true
			}
		case "U":
			x, y := h.Atoi(f[1]), h.Atoi(f[2])
			cb.UnlockCell(x, y)
			if sh.in(x, y) {
				delete(sh.locked, [2]int{x, y})
				delete(sh.snap, [2]int{x, y})
				if !cb.Dirty(x, y) {
					res.Findings = append(res.Findings, h.Finding{Class: "clean-after-unlock", Msg: fmt.Sprintf("Dirty(%d,%d) false right after UnlockCell", x, y)})
				}
			}
		case "G":
			x, y := h.Atoi(f[1]), h.Atoi(f[2])
			m, c, st, w := cb.GetContent(x, y)
			obs = append(obs, "g:"+showGet(m, c, st, w))
		case "Q":
			if cb.Dirty(h.Atoi(f[1]), h.Atoi(f[2])) {
				obs = append(obs, "q:1")
			} else {
				obs = append(obs, "q:0")
			}
		case "Z":
			w, hh := cb.Size()
			obs = append(obs, fmt.Sprintf("z:%d,%d", w, hh))
		default:
			obs = append(obs, "bad-op")
		}
		if len(res.Findings) < 3 {
			res.Findings = append(res.Findings, sh.check(&cb, op)...)
		}
	}
	res.Obs = strings.Join(obs, " ") + " H " + dumpCB(&cb)
	if fzLine != fillZWSuffix() {
		res.Obs = "SKIP line recorded on a tree of the other Fill variant: judged by the oracle only"
	}
	for t := range tags {
		res.Tags = append(res.Tags, t)
	}
	return res
}

func genCB(g *h.Gen) {
	r := g.R
	// directed: a clean blank cell, then Fill with zero-width / control runes in the same style (the repaired Fill stores a
	// blank: the cell stays clean; the pinned Fill stores the rune: dirty), then with an ordinary rune (dirty on both)
	for _, fr := range []int{0x200b, 0x9b, 0x7f, 0x301, 0, -1, 0x110000, ' '} {
		v := ""
		if fillZWSuffix() != "" {
			v = "V fz; "
		}
		g.Emit("cb %sR 2 1; D 0 0 0; D 1 0 0; F %d 0,0,0,0,0,-,-; Q 0 0; G 1 0; F 120 0,0,0,0,0,-,-; Q 0 0; G 1 0", v, fr)
	}
	// directed: lock sequences.  The statement knows one lock state per cell ("false while the cell is locked", "true after
	// unlock"): a cell locked twice (three times) and unlocked once is unlocked and dirty; unlock of a cell that was never
	// locked; lock - unlock - lock; with the cell clean or changed meanwhile, first / last cell of the buffer.
	{
		v := ""
		if fillZWSuffix() != "" {
			v = "V fz; "
		}
		d := "0,0,0,0,0,-,-"
		for _, xy := range [][2]int{{0, 0}, {2, 1}, {1, 0}} {
			x, y := xy[0], xy[1]
			for _, mid := range []string{"", fmt.Sprintf("S %d %d 98 - %s; ", x, y, d), fmt.Sprintf("F 46 %s; ", d), fmt.Sprintf("D %d %d 0; ", x, y)} {
				pre := fmt.Sprintf("cb %sR 3 2; S %d %d 97 - %s; D %d %d 0; ", v, x, y, d, x, y)
				L, U, Q := fmt.Sprintf("L %d %d; ", x, y), fmt.Sprintf("U %d %d; ", x, y), fmt.Sprintf("Q %d %d; ", x, y)
				tail := fmt.Sprintf("D %d %d 0; Q %d %d; G %d %d", x, y, x, y, x, y)
				g.Emit("%s%s%s%s%s%s%s", pre, L, L, mid, U, Q, tail)
				g.Emit("%s%s%s%s%s%s%s%s%s%s", pre, L, L, L, mid, U, Q, U, Q, tail)
				g.Emit("%s%s%s%s%s%s%s%s", pre, L, U, L, mid, Q, U, Q+tail)
				g.Emit("%s%s%s%s%s", pre, mid, U, Q, tail)
				g.Emit("%s%s%s%s%s%s%s%s%s", pre, L, mid, U, U, Q, L, Q, U+Q+tail)
			}
		}
	}
	// directed: identical content stored again into a clean cell, the empty combining list spelled as a nil slice and as
	// an empty non-nil one (both orders), narrow / wide / zero-width primary, with and without combining runes
	{
		v := ""
		if fillZWSuffix() != "" {
			v = "V fz; "
		}
		d := "0,0,0,0,0,-,-"
		for _, m := range []int{'a', 0x4e16, 0x200b, ' '} {
			for _, c := range [][2]string{{"-", "="}, {"=", "-"}, {"=", "="}, {"769", "769"}} {
				g.Emit("cb %sR 3 1; S 0 0 %d %s %s; D 0 0 0; D 1 0 0; S 0 0 %d %s %s; Q 0 0; Q 1 0; G 0 0; D 0 0 0; S 0 0 %d %s %s; Q 0 0; Q 1 0",
					v, m, c[0], d, m, c[1], d, m, c[0], d)
			}
		}
	}
	n := g.N(3000, 200000)
	for i := 0; i < n; i++ {
		var ops []string
		w, hh := r.Range(0, 6), r.Range(0, 4)
		if r.Chance(90) {
			w, hh = r.Range(1, 6), r.Range(1, 4)
		}
		if fillZWSuffix() != "" {
			ops = append(ops, "V fz")
		}
		ops = append(ops, fmt.Sprintf("R %d %d", w, hh))
		nops := r.Range(5, 60)
		cx := func() int { return r.Range(-2, w+1) }
		cy := func() int { return r.Range(-1, hh) }
		// what the generator last stored where (in range at the time), for the directed "revisit" op
		type stored struct {
			x, y, main int
			comb       []int
			style      string
		}
		var hist []stored
		set := func(x, y, m int, comb []int, st string) {
			// an empty combining list reaches SetContent as nil or as an empty non-nil slice (Screen.SetCell's ch[1:])
			ops = append(ops, fmt.Sprintf("S %d %d %d %s %s", x, y, m, showComb(comb, r.Chance(40)), st))
			if x >= 0 && y >= 0 && x < w && y < hh {
				hist = append(hist, stored{x, y, m, comb, st})
			}
		}
		for j := 0; j < nops; j++ {
			switch k := r.Intn(100); {
			case k < 12 && len(hist) > 0:
				// revisit: mark a cell the history has written clean, then store the same content with exactly ONE
				// component minimally changed (one combining rune replaced / dropped / appended / the list reordered, the
				// style alone, the primary rune alone, or nothing at all) and ask Dirty. Dirty-tracking shortcuts that
				// compare or alias the remembered content wrongly only show on such near-identical rewrites, and for
				// zero-width primaries the "force dirty" branch of SetContent does not mask them.
				c := hist[r.Intn(len(hist))]
				if c.x >= w || c.y >= hh {
					break
				}
				if r.Chance(40) { // make the cell's content zero-width / combining-rich first
					c.main = h.Pick(r, []int{0x200d, 0x200b, 0x0301, 0x20dd, 0xfe0f, 'e', 0x4e16})
					c.comb = []int{h.Pick(r, genComb), h.Pick(r, genComb), h.Pick(r, genComb)}[:r.Range(1, 3)]
					set(c.x, c.y, c.main, c.comb, c.style)
				}
				ops = append(ops, fmt.Sprintf("D %d %d 0", c.x, c.y))
				comb := append([]int{}, c.comb...)
				m, st := c.main, c.style
				switch r.Intn(8) {
				case 0:
					if len(comb) > 0 {
						comb[r.Intn(len(comb))] = h.Pick(r, genComb)
					}
				case 1:
					if len(comb) > 0 {
						comb = comb[:len(comb)-1]
					}
				case 2:
					comb = append(comb, h.Pick(r, genComb))
				case 3:
					if len(comb) > 1 {
						comb[0], comb[len(comb)-1] = comb[len(comb)-1], comb[0]
					}
				case 4:
					if r.Chance(70) {
						st = MutateStyle(r, ParseStyleF(st)).String()
						if r.Chance(50) { // first give the cell a hyperlink style, mark clean, then change one field
							base := ParseStyleF(st)
							base.Url, base.UrlId = "http://a", "id=1"
							set(c.x, c.y, c.main, c.comb, base.String())
							ops = append(ops, fmt.Sprintf("D %d %d 0", c.x, c.y))
							st = MutateStyle(r, base).String()
						}
					} else {
						st = RandStyle(r).String()
					}
				case 5:
					m = RandRune(r)
				case 6:
					if len(comb) > 0 {
						comb = comb[1:]
					}
				}
				set(c.x, c.y, m, comb, st)
				ops = append(ops, fmt.Sprintf("Q %d %d", c.x, c.y))
			case k < 45:
				set(cx(), cy(), RandRune(r), RandComb(r), RandStyle(r).String())
			case k < 50:
				fr := h.Pick(r, []int{' ', 'x', '.', 0x2500, 0x4e16, 0, 7})
				if r.Chance(40) {
					fr = h.Pick(r, fillSpecial)
				}
				ops = append(ops, fmt.Sprintf("F %d %s", fr, RandStyle(r)))
				if r.Chance(50) { // look at a cell right away, then rewrite it with the same / another rune
					ops = append(ops, fmt.Sprintf("G %d %d", r.Range(0, w), r.Range(0, hh)))
				}
				if r.Chance(30) {
					set(cx(), cy(), h.Pick(r, []int{fr, fr, 'y', 0x4e16}), nil, RandStyle(r).String())
				}
			case k < 55:
				lastW, lastH := w, hh
				w, hh = r.Range(0, 6), r.Range(0, 4)
				if r.Chance(40) && len(ops) > 1 { // keep one dimension: height-only / width-only resizes
					if r.Chance(50) {
						w = lastW
					} else {
						hh = lastH
					}
				}
				ops = append(ops, fmt.Sprintf("R %d %d", w, hh))
			case k < 58:
				ops = append(ops, "I")
			case k < 75:
				ops = append(ops, fmt.Sprintf("D %d %d %d", cx(), cy(), r.Intn(4)/3)) // mostly clean
			case k < 80:
				lx, ly := cx(), cy()
				ops = append(ops, fmt.Sprintf("L %d %d", lx, ly))
				if r.Chance(25) { // the same cell locked again, now or a little later; then one unlock and a look at Dirty
					if r.Chance(50) {
						set(cx(), cy(), RandRune(r), RandComb(r), RandStyle(r).String())
					}
					ops = append(ops, fmt.Sprintf("L %d %d", lx, ly))
					if r.Chance(70) {
						ops = append(ops, fmt.Sprintf("U %d %d", lx, ly), fmt.Sprintf("Q %d %d", lx, ly))
					}
				}
			case k < 85:
				ops = append(ops, fmt.Sprintf("U %d %d", cx(), cy()))
			case k < 92:
				ops = append(ops, fmt.Sprintf("G %d %d", cx(), cy()))
			case k < 99:
				ops = append(ops, fmt.Sprintf("Q %d %d", cx(), cy()))
			default:
				ops = append(ops, "Z")
			}
		}
		g.Emit("cb %s", strings.Join(ops, "; "))
	}
}

func init() {
	h.Register(&h.Engine{Name: "cb",
		Rule: "random CellBuffer histories (5-60 ops, sizes 0..6x0..4, coordinates from -2 to w+1); distinct = distinct op line; non-trivial = contains an in-range SetContent or an effective Resize",
		Gen:  genCB, Exec: execCB})
}
