package engines

import (
	"fmt"
	"reflect"
	"strings"

	"github.com/gdamore/tcell/v2"
	"verif/harness/h"
)

// StyleF is the field-by-field view of tcell.Style used on the wire: fg,bg,attrs,ulStyle,ulColor,url,urlId.
type StyleF struct {
	Fg, Bg  uint64
	Attrs   uint64
	UlStyle int
	UlColor uint64
	Url     string
	UrlId   string // full stored value ("" or "id=…")
}

func ParseStyleF(s string) StyleF {
	p := strings.Split(s, ",")
	if len(p) != 7 {
		return StyleF{}
	}
	return StyleF{Fg: h.Atou(p[0]), Bg: h.Atou(p[1]), Attrs: h.Atou(p[2]), UlStyle: h.Atoi(p[3]), UlColor: h.Atou(p[4]),
		Url: string(h.Unhex(p[5])), UrlId: string(h.Unhex(p[6]))}
}

func (f StyleF) String() string {
	return fmt.Sprintf("%d,%d,%d,%d,%d,%s,%s", f.Fg, f.Bg, f.Attrs, f.UlStyle, f.UlColor, h.Hex([]byte(f.Url)), h.Hex([]byte(f.UrlId)))
}

// ToStyle builds the tcell.Style with exactly these fields through the public API.
func (f StyleF) ToStyle() tcell.Style {
	st := tcell.StyleDefault.Foreground(tcell.Color(f.Fg)).Background(tcell.Color(f.Bg))
	st = st.Underline(tcell.UnderlineStyle(f.UlStyle), tcell.Color(f.UlColor))
	st = st.Attributes(tcell.AttrMask(f.Attrs))
	if f.Url != "" {
		st = st.Url(f.Url)
	}
	if strings.HasPrefix(f.UrlId, "id=") {
		st = st.UrlId(f.UrlId[3:])
	}
	return st
}

// FromStyle reads all fields of a tcell.Style (unexported ones through reflection, read-only).
func FromStyle(st tcell.Style) StyleF {
	v := reflect.ValueOf(st)
	return StyleF{
		Fg: v.FieldByName("fg").Uint(), Bg: v.FieldByName("bg").Uint(), Attrs: v.FieldByName("attrs").Uint(),
		UlStyle: int(v.FieldByName("ulStyle").Int()), UlColor: v.FieldByName("ulColor").Uint(),
		Url: v.FieldByName("url").String(), UrlId: v.FieldByName("urlId").String(),
	}
}

const (
	ColorNoneU  = uint64(tcell.ColorNone)
	ColorResetU = uint64(tcell.ColorReset)
)

var genColors = []uint64{0, 0, uint64(tcell.ColorBlack), uint64(tcell.ColorMaroon), uint64(tcell.ColorRed), uint64(tcell.ColorWhite),
	uint64(tcell.PaletteColor(17)), uint64(tcell.PaletteColor(200)), uint64(tcell.PaletteColor(255)),
	uint64(tcell.NewRGBColor(1, 2, 3)), uint64(tcell.NewRGBColor(255, 0, 128)), uint64(tcell.ColorAliceBlue),
	ColorNoneU, ColorResetU, uint64(tcell.ColorValid) | 300}

// RandStyle draws a style; most are simple, some use every field.
func RandStyle(r *h.Rand) StyleF {
	var f StyleF
	switch r.Intn(6) {
	case 0:
		return f // StyleDefault
	case 1, 2:
		f.Fg = h.Pick(r, genColors)
		f.Bg = h.Pick(r, genColors)
	default:
		f.Fg = h.Pick(r, genColors)
		f.Bg = h.Pick(r, genColors)
		f.Attrs = uint64(r.Intn(128))
		if r.Chance(40) {
			f.UlStyle = r.Intn(6)
			f.UlColor = h.Pick(r, genColors)
		}
		if r.Chance(20) {
			f.Url = h.Pick(r, []string{"http://a", "https://example.com/x?y=1", "u"})
			if r.Bool() {
				f.UrlId = "id=" + h.Pick(r, []string{"1", "zz"})
			}
		}
	}
	return f
}

var genRunes = []int{'a', 'b', 'Z', ' ', '~', 0x4e16, 0x754c, 0x1f600, 0xff21, 0x301, 0x200b, 0x202e, 0, 1, 7, 27, 31, 0x7f, 0x85, 0x9b, 0xa0, 0xe9,
	0x2500, 0x25c6, -1, -5, 0x110000, 0x7fffffff, -0x80000000, 0xd800, 0xfffd, 0xad, 0x1f1e6}
var genComb = []int{0x301, 0x308, 0x20dd, 0x200d, 'x', 0xfe0f}

func RandRune(r *h.Rand) int {
	if r.Chance(50) {
		return r.Range('!', '~')
	}
	return h.Pick(r, genRunes)
}
func RandComb(r *h.Rand) []int {
	if r.Chance(75) {
		return nil
	}
	n := r.Range(1, 3)
	out := make([]int, n)
	for i := range out {
		out[i] = h.Pick(r, genComb)
	}
	return out
}
func toRunes(l []int) []rune {
	if l == nil {
		return nil
	}
	out := make([]rune, len(l))
	for i, v := range l {
		out[i] = rune(v)
	}
	return out
}
func fromRunes(l []rune) []int {
	out := make([]int, len(l))
	for i, v := range l {
		out[i] = int(v)
	}
	return out
}

// MutateStyle changes exactly one field of a style minimally (one attribute bit, the underline style, one colour, the URL
// under the same id, or the id under the same URL): dirty tracking and redraw shortcuts that compare styles field by field
// only go wrong on such near-identical styles.
func MutateStyle(r *h.Rand, f StyleF) StyleF {
	switch r.Intn(7) {
	case 0:
		f.Attrs ^= 1 << uint(r.Intn(7))
	case 1:
		f.UlStyle = (f.UlStyle + 1 + r.Intn(4)) % 6
	case 2:
		f.Fg = h.Pick(r, genColors)
	case 3:
		f.Bg = h.Pick(r, genColors)
	case 4:
		f.UlColor = h.Pick(r, genColors)
	case 5: // same id, another URL
		if f.Url == "" {
			f.Url, f.UrlId = "http://a", "id=1"
		} else {
			f.Url += "/x"
			if f.UrlId == "" {
				f.UrlId = "id=1"
			}
		}
	default: // same URL, another id
		if f.Url == "" {
			f.Url = "http://a"
		}
		f.UrlId = "id=" + h.Pick(r, []string{"1", "zz", "q"})
	}
	return f
}
